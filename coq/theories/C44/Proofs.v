(* C44  Proofs: decoding an encoding gives the value back. *)
From CV Require Import C44.Model C44.Spec.
From Coq Require Import Lia.

(* ------------------------------------------------------------------ big-endian bytes *)
Definition be_step (a b : Z) : Z := a * 256 + b.

Lemma be_aux_value : forall f z acc,
  0 <= z -> z < 256 ^ Z.of_nat f ->
  fold_left be_step (be_aux f z acc) 0 = fold_left be_step acc z.
Proof.
  induction f as [|f IH]; intros z acc Hz Hb.
  - simpl in *. assert (z = 0) by lia. subst. reflexivity.
  - simpl. destruct (z =? 0) eqn:E.
    + apply Z.eqb_eq in E. subst. reflexivity.
    + rewrite IH.
      * simpl. unfold be_step at 2. f_equal.
        pose proof (Z.div_mod z 256). lia.
      * apply Z.div_pos; lia.
      * rewrite Nat2Z.inj_succ, Z.pow_succ_r in Hb by lia.
        apply Z.div_lt_upper_bound; lia.
Qed.

Lemma log2_bound z : 0 < z -> z < 256 ^ Z.of_nat (S (Z.to_nat (Z.log2 z))).
Proof.
  intros Hz.
  pose proof (Z.log2_nonneg z) as Hl.
  rewrite Nat2Z.inj_succ, Z2Nat.id by lia.
  destruct (Z.log2_spec z Hz) as [_ Hu].
  eapply Z.lt_le_trans; [exact Hu|].
  replace 256 with (2 ^ 8) by reflexivity.
  rewrite <- Z.pow_mul_r by lia.
  apply Z.pow_le_mono_r; lia.
Qed.

Lemma be_value_be_bytes z : 0 <= z -> be_value (be_bytes z) = z.
Proof.
  intros Hz. unfold be_value, be_bytes.
  destruct (Z.eq_dec z 0) as [->|Hn].
  - reflexivity.
  - change (fun a b : Z => a * 256 + b) with be_step.
    rewrite be_aux_value; auto. apply log2_bound. lia.
Qed.

Lemma be_aux_length : forall f z acc (n : nat),
  0 <= z -> z < 256 ^ Z.of_nat n -> (length (be_aux f z acc) <= length acc + n)%nat.
Proof.
  induction f as [|f IH]; intros z acc n Hz Hb; simpl; [lia|].
  destruct (z =? 0) eqn:E; [lia|].
  apply Z.eqb_neq in E.
  destruct n as [|n]; [simpl in Hb; lia|].
  specialize (IH (z / 256) (z mod 256 :: acc) n).
  simpl in IH. rewrite Nat.add_succ_r. apply IH.
  - apply Z.div_pos; lia.
  - rewrite Nat2Z.inj_succ, Z.pow_succ_r in Hb by lia.
    apply Z.div_lt_upper_bound; lia.
Qed.

Lemma be_bytes_length8 a : 0 <= a < 2 ^ 64 -> (Z.of_nat (length (be_bytes a)) >? 8) = false.
Proof.
  intros H. rewrite Z.gtb_ltb. apply Z.ltb_ge.
  pose proof (be_aux_length (S (Z.to_nat (Z.log2 a))) a [] 8%nat) as L.
  assert (a < 256 ^ Z.of_nat 8) as H0 by (replace (256 ^ Z.of_nat 8) with (2 ^ 64) by reflexivity; apply H).
  specialize (L (proj1 H) H0). cbn [length] in L. unfold be_bytes. lia.
Qed.

(* ------------------------------------------------------------------ integers *)
Lemma dec_int64_enc z : - 2 ^ 63 <= z <= 2 ^ 63 - 1 -> dec_int64 (enc_int64 z) = Ok z.
Proof.
  intros H. unfold enc_int64, dec_int64, max_int64.
  change (2 ^ 63) with 9223372036854775808 in *.
  destruct (z <? 0) eqn:E.
  - apply Z.ltb_lt in E.
    destruct (_ >? _) eqn:G.
    + apply Z.gtb_lt in G. lia.
    + f_equal. lia.
  - apply Z.ltb_ge in E.
    destruct (_ >? _) eqn:G; auto. apply Z.gtb_lt in G. lia.
Qed.

Lemma dec_bigint_enc z : dec_bigint (enc_bigint z) = Ok z.
Proof.
  unfold enc_bigint, dec_bigint.
  destruct (z <? 0) eqn:E.
  - apply Z.ltb_lt in E.
    change (3 =? 2) with false. change (3 =? 3) with true. cbv iota.
    rewrite be_value_be_bytes by lia. f_equal. lia.
  - apply Z.ltb_ge in E.
    change (2 =? 2) with true. cbv iota.
    rewrite be_value_be_bytes by lia. reflexivity.
Qed.

(* the tag constants of the generated table, unfolded so that comparisons compute *)
Ltac tags :=
  cbv [tag_AccountCapabilityControllerValue tag_AccountLinkValue tag_AddressLocation tag_AddressValue
       tag_CapabilityStaticType tag_CapabilityValue tag_CharacterValue tag_CompositeStaticType
       tag_ConstantSizedStaticType tag_DictionaryStaticType tag_EntitlementMapStaticAuthorization
       tag_EntitlementSetStaticAuthorization tag_Fix128Value tag_Fix64Value tag_IdentifierLocation
       tag_InaccessibleStaticAuthorization tag_InclusiveRangeStaticType tag_Int128Value tag_Int16Value
       tag_Int256Value tag_Int32Value tag_Int64Value tag_Int8Value tag_IntValue tag_InterfaceStaticType
       tag_IntersectionStaticType tag_OptionalStaticType tag_PathCapabilityValue tag_PathLinkValue
       tag_PathValue tag_PrimitiveStaticType tag_PublishedValue tag_ReferenceStaticType tag_ScriptLocation
       tag_SomeValue tag_SomeValueWithNestedLevels tag_StorageCapabilityControllerValue tag_StringLocation
       tag_StringValue tag_TransactionLocation tag_TypeValue tag_UFix128Value tag_UFix64Value
       tag_UInt128Value tag_UInt16Value tag_UInt256Value tag_UInt32Value tag_UInt64Value tag_UInt8Value
       tag_UIntValue tag_UnauthorizedStaticAuthorization tag_VariableSizedStaticType tag_VoidValue
       tag_Word128Value tag_Word16Value tag_Word256Value tag_Word32Value tag_Word64Value tag_Word8Value] in *.

Section sty_ind'.
  Variable P : sty -> Prop.
  Hypothesis HPrim : forall c, P (TPrimitive c).
  Hypothesis HOpt : forall t, P t -> P (TOptional t).
  Hypothesis HComp : forall l q, P (TComposite l q).
  Hypothesis HIface : forall l q, P (TInterface l q).
  Hypothesis HVar : forall t, P t -> P (TVarSized t).
  Hypothesis HConst : forall n t, P t -> P (TConstSized n t).
  Hypothesis HDict : forall k v, P k -> P v -> P (TDictionary k v).
  Hypothesis HRef : forall leg a t, P t -> P (TReference leg a t).
  Hypothesis HInterN : forall is, P (TIntersection None is).
  Hypothesis HInterS : forall l is, P l -> P (TIntersection (Some l) is).
  Hypothesis HCapN : P (TCapability None).
  Hypothesis HCapS : forall b, P b -> P (TCapability (Some b)).
  Hypothesis HRange : forall t, P t -> P (TInclusiveRange t).
  Fixpoint sty_ind' (t : sty) : P t :=
    match t with
    | TPrimitive c => HPrim c
    | TOptional x => HOpt x (sty_ind' x)
    | TComposite l q => HComp l q
    | TInterface l q => HIface l q
    | TVarSized x => HVar x (sty_ind' x)
    | TConstSized n x => HConst n x (sty_ind' x)
    | TDictionary k v => HDict k v (sty_ind' k) (sty_ind' v)
    | TReference leg a x => HRef leg a x (sty_ind' x)
    | TIntersection None is => HInterN is
    | TIntersection (Some l) is => HInterS l is (sty_ind' l)
    | TCapability None => HCapN
    | TCapability (Some b) => HCapS b (sty_ind' b)
    | TInclusiveRange x => HRange x (sty_ind' x)
    end.
End sty_ind'.

Arguments dec_address_bytes : simpl never.
Arguments dec_string : simpl never.
Arguments dec_uint64 : simpl never.
Arguments be_bytes : simpl never.
Arguments be_value : simpl never.
Arguments fit32 : simpl never.
Arguments ordered_set : simpl never.

Section RoundTrip.
  Variable utf8_valid : str -> bool.
  Variable nfc : str -> str.
  Variable valid_char : str -> bool.

  Notation wf_str := (wf_str utf8_valid).
  Notation wf_location := (wf_location utf8_valid).
  Notation wf_authz := (wf_authz utf8_valid).
  Notation wf_sty := (wf_sty utf8_valid).
  Notation wf_storable := (wf_storable utf8_valid nfc valid_char).
  Notation dec_string := (dec_string utf8_valid).
  Notation dec_location := (dec_location utf8_valid).
  Notation dec_authz := (dec_authz utf8_valid).
  Notation dec_sty := (dec_sty utf8_valid).
  Notation dec_storable := (dec_storable utf8_valid nfc valid_char).

  Lemma dec_string_text s : wf_str s -> dec_string (CText s) = Ok s.
  Proof. unfold Spec.wf_str, Model.dec_string. intros ->. reflexivity. Qed.

  Lemma fit32_id b : length b = 32%nat -> fit32 b = b.
  Proof.
    intros H. unfold fit32. rewrite firstn_app.
    replace (32 - length b)%nat with 0%nat by lia.
    rewrite firstn_O, app_nil_r. rewrite <- H. apply firstn_all.
  Qed.

  Lemma dec_address_bytes_enc a : wf_addr a -> dec_address_bytes (CBytes (be_bytes a)) = Ok a.
  Proof.
    intros H. unfold dec_address_bytes. rewrite be_bytes_length8 by exact H.
    rewrite be_value_be_bytes; [reflexivity|]. destruct H; auto.
  Qed.

  Lemma location_roundtrip l : wf_location l -> dec_location (enc_location l) = Ok l.
  Proof.
    destruct l; simpl; intros H; tags; cbn.
    - reflexivity.
    - destruct H as [Ha Hn]. rewrite dec_address_bytes_enc by auto. cbn.
      rewrite dec_string_text by auto. reflexivity.
    - rewrite dec_string_text by auto. reflexivity.
    - rewrite dec_string_text by auto. reflexivity.
    - rewrite fit32_id by auto. reflexivity.
    - rewrite fit32_id by auto. reflexivity.
  Qed.

  Lemma dec_strings_texts es : Forall wf_str es -> dec_strings utf8_valid (map CText es) = Ok es.
  Proof.
    induction 1; simpl; auto.
    rewrite dec_string_text by auto. cbn. rewrite IHForall. reflexivity.
  Qed.

  Lemma authz_roundtrip a : wf_authz a -> dec_authz (enc_authz a) = Ok a.
  Proof.
    destruct a; simpl; intros H; tags; cbn; auto.
    - rewrite dec_string_text by auto. reflexivity.
    - destruct H as [H0 [H1 H2]]. change (dec_uint64 (CUint kind)) with (Ok (A:=Z) kind). cbn.
      rewrite dec_strings_texts by auto. cbn. rewrite H2. rewrite Z.mod_small by lia. reflexivity.
  Qed.

  Lemma enc_authz_not_bool a : forall b, enc_authz a <> CBool b.
  Proof. destruct a; simpl; discriminate. Qed.

  Lemma iface_roundtrip i :
    wf_iface utf8_valid i -> dec_iface_content utf8_valid (CArr [enc_location (fst i); CText (snd i)]) = Ok i.
  Proof.
    destruct i as [l q]. intros [Hl [Hq He]]. simpl in *. unfold dec_iface_content.
    rewrite location_roundtrip by auto. cbn. rewrite dec_string_text by auto. cbn. rewrite He. reflexivity.
  Qed.

  Arguments dec_iface_content : simpl never.
  Arguments enc_iface : simpl never.

  Lemma ifaces_roundtrip is :
    Forall (wf_iface utf8_valid) is -> dec_ifaces utf8_valid (map enc_iface is) = Ok is.
  Proof.
    induction 1 as [|i r Hi Hr IH]; simpl; auto.
    change (enc_iface i) with (CTag tag_InterfaceStaticType (CArr [enc_location (fst i); CText (snd i)])).
    tags. cbn.
    rewrite iface_roundtrip by auto. cbn.
    rewrite IH. reflexivity.
  Qed.

  Lemma enc_sty_tag t : exists n c, enc_sty t = CTag n c.
  Proof. destruct t; simpl; eauto. unfold enc_iface; eauto. Qed.

  Lemma dec_opt_sty_some t r :
    dec_sty (enc_sty t) = Ok r -> dec_opt_sty utf8_valid (enc_sty t) = Ok (Some r).
  Proof.
    intros H. unfold dec_opt_sty. destruct (enc_sty_tag t) as [n [c E]].
    rewrite E in *. rewrite H. reflexivity.
  Qed.

  Arguments Model.dec_location : simpl never.
  Arguments Model.dec_authz : simpl never.
  Arguments dec_ifaces : simpl never.
  Arguments enc_location : simpl never.
  Arguments enc_authz : simpl never.

  Theorem sty_roundtrip : forall t, wf_sty t -> dec_sty (enc_sty t) = Ok t.
  Proof.
    induction t using sty_ind'; intros W; simpl in W.
    - (* primitive *)
      cbn. tags. cbn. change (dec_uint64 (CUint c)) with (Ok (A:=Z) c). cbn.
      destruct (c =? prim_Capability) eqn:E; [apply Z.eqb_eq in E; contradiction | reflexivity].
    - cbn [enc_sty]. tags. cbn. rewrite IHt by auto. reflexivity.
    - destruct W as [Wl [Wq We]]. cbn [enc_sty]. tags. cbn.
      rewrite location_roundtrip by auto. cbn. rewrite dec_string_text by auto. cbn. rewrite We. reflexivity.
    - destruct W as [Wl [Wq We]]. cbn [enc_sty]. unfold enc_iface. tags. cbn.
      pose proof (iface_roundtrip (l, q) (conj Wl (conj Wq We))) as R. cbn [fst snd] in R. rewrite R. reflexivity.
    - cbn [enc_sty]. tags. cbn. rewrite IHt by auto. reflexivity.
    - destruct W as [Wn Wt]. cbn [enc_sty]. tags. cbn.
      unfold enc_int64. destruct (n <? 0) eqn:E; [apply Z.ltb_lt in E; lia|].
      change (dec_uint64 (CUint n)) with (Ok (A:=Z) n). cbn.
      destruct (_ >? _) eqn:G;
        [apply Z.gtb_lt in G; unfold max_int64 in Wn; change (2 ^ 63) with 9223372036854775808 in Wn; lia|].
      rewrite IHt by auto. reflexivity.
    - destruct W as [Wk Wv]. cbn [enc_sty]. tags. cbn.
      rewrite IHt1, IHt2 by auto. reflexivity.
    - destruct W as [Wl [Wa Wt]]. subst leg. cbn [enc_sty]. tags. cbn.
      destruct (enc_authz a) eqn:Ea; try (exfalso; eapply enc_authz_not_bool; eauto; fail);
        rewrite <- Ea; rewrite authz_roundtrip by auto; cbn; rewrite IHt by auto; reflexivity.
    - destruct W as [_ Wi]. cbn [enc_sty]. tags. cbn.
      rewrite ifaces_roundtrip by auto. reflexivity.
    - destruct W as [Wl Wi]. cbn [enc_sty]. tags. cbn.
      destruct (enc_sty_tag t) as [n [c E]]. rewrite E. rewrite <- E.
      rewrite IHt by auto. cbn. rewrite ifaces_roundtrip by auto. reflexivity.
    - cbn. tags. cbn. reflexivity.
    - cbn [enc_sty]. tags. cbn.
      destruct (enc_sty_tag t) as [n [c E]]. rewrite E. rewrite <- E.
      rewrite IHt by auto. reflexivity.
    - cbn [enc_sty]. tags. cbn. rewrite IHt by auto. reflexivity.
  Qed.

  Arguments Model.dec_sty : simpl never.
  Arguments enc_sty : simpl never.
  Arguments dec_num : simpl never.

  (* ---------------------------------------------------------------- numbers *)
  Lemma dispatch_num k x : dec_storable (CTag (ik_tag k) x) = dec_num k x.
  Proof. destruct k; cbn [ik_tag]; tags; reflexivity. Qed.

  Ltac pow_literals :=
    change (2 ^ 7) with 128 in *; change (2 ^ 8) with 256 in *;
    change (2 ^ 15) with 32768 in *; change (2 ^ 16) with 65536 in *;
    change (2 ^ 31) with 2147483648 in *; change (2 ^ 32) with 4294967296 in *;
    change (2 ^ 63) with 9223372036854775808 in *; change (2 ^ 64) with 18446744073709551616 in *;
    change (2 ^ 127) with 170141183460469231731687303715884105728 in *;
    change (2 ^ 128) with 340282366920938463463374607431768211456 in *;
    change (2 ^ 255) with 57896044618658097711785492504343953926634992332820282019728792003956564819968 in *;
    change (2 ^ 256) with 115792089237316195423570985008687907853269984665640564039457584007913129639936 in *.

  Lemma num_roundtrip k z : in_range k z -> dec_storable (enc_num k z) = Ok (VNum k z).
  Proof.
    intros R. unfold enc_num. rewrite dispatch_num. unfold dec_num, check_min, check_max.
    destruct k; cbn [ik_class ik_min ik_max in_range] in *;
      try rewrite dec_bigint_enc;
      try (rewrite dec_int64_enc by (pow_literals; lia));
      try change (dec_uint64 (CUint z)) with (Ok (A:=Z) z);
      cbv [bind];
      repeat match goal with
             | |- context [?a <=? ?b] =>
                 let E := fresh "E" in
                 destruct (a <=? b) eqn:E;
                 [|exfalso; apply Z.leb_gt in E; pow_literals; lia]
             end;
      reflexivity.
  Qed.

  (* ---------------------------------------------------------------- nested optionals *)
  Fixpoint innermost (v : storable) : storable :=
    match v with VSome x => innermost x | _ => v end.

  Lemma some_levels_nonneg v : 0 <= some_levels v.
  Proof. induction v; simpl; lia. Qed.

  Lemma wrap_innermost v : wrap_some (Z.to_nat (some_levels v)) (innermost v) = v.
  Proof.
    induction v; simpl; auto.
    pose proof (some_levels_nonneg v).
    rewrite Z2Nat.inj_add by lia. rewrite Nat.add_comm. simpl. rewrite IHv. reflexivity.
  Qed.

  Lemma enc_some_go_spec enc : forall y n,
    enc_some_go enc y n =
    if n + some_levels y =? 1 then CTag tag_SomeValue (enc (innermost y))
    else CTag tag_SomeValueWithNestedLevels (CArr [CUint (n + some_levels y); enc (innermost y)]).
  Proof.
    induction y; intros lv; simpl; try (rewrite Z.add_0_r; reflexivity).
    rewrite IHy. replace (lv + 1 + some_levels y) with (lv + (some_levels y + 1)) by lia. reflexivity.
  Qed.

  Lemma wf_innermost v : wf_storable v -> wf_storable (innermost v).
  Proof. induction v; simpl; auto. Qed.

  Lemma some_roundtrip x :
    (dec_storable (enc_storable (innermost x)) = Ok (innermost x)) ->
    dec_storable (enc_storable (VSome x)) = Ok (VSome x).
  Proof.
    intros H. cbn [enc_storable]. rewrite enc_some_go_spec.
    pose proof (some_levels_nonneg x) as L.
    destruct (1 + some_levels x =? 1) eqn:E.
    - apply Z.eqb_eq in E. assert (some_levels x = 0) as Z0 by lia.
      pose proof (wrap_innermost x) as W. rewrite Z0 in W. simpl in W.
      tags. cbn. tags. fold dec_storable.
      change (Model.dec_storable utf8_valid nfc valid_char (enc_storable (innermost x)))
        with (dec_storable (enc_storable (innermost x))).
      rewrite H. cbn. rewrite W. reflexivity.
    - apply Z.eqb_neq in E.
      remember (1 + some_levels x) as m eqn:Em.
      tags. cbn. tags.
      change (dec_uint64 (CUint m)) with (Ok (A:=Z) m). cbn.
      destruct (m <=? 1) eqn:G; [apply Z.leb_le in G; lia|].
      change (Model.dec_storable utf8_valid nfc valid_char (enc_storable (innermost x)))
        with (dec_storable (enc_storable (innermost x))).
      rewrite H. cbn. subst m.
      rewrite Z2Nat.inj_add by lia. change (Z.to_nat 1) with 1%nat. simpl.
      rewrite wrap_innermost. reflexivity.
  Qed.

  (* ---------------------------------------------------------------- other components *)
  Lemma address_roundtrip a : wf_addr a -> dec_tagged_address (enc_address a) = Ok a.
  Proof.
    intros H. unfold enc_address, dec_tagged_address, dec_address_value. tags. cbn.
    apply dec_address_bytes_enc; auto.
  Qed.

  Lemma path_content_roundtrip d i :
    0 <= d < 256 -> wf_str i -> dec_path_content utf8_valid (CArr [CUint d; CText i]) = Ok (d, i).
  Proof.
    intros Hd Hi. unfold dec_path_content.
    change (dec_uint64 (CUint d)) with (Ok (A:=Z) d). cbn. rewrite dec_string_text by auto. cbn.
    rewrite Z.mod_small by lia. reflexivity.
  Qed.

  Lemma tagged_path_roundtrip d i :
    0 <= d < 256 -> wf_str i -> dec_tagged_path utf8_valid (enc_path d i) = Ok (d, i).
  Proof.
    intros Hd Hi. unfold enc_path, dec_tagged_path. tags. cbn. tags.
    apply path_content_roundtrip; auto.
  Qed.

  Arguments dec_path_content : simpl never.
  Arguments dec_tagged_address : simpl never.
  Arguments dec_tagged_path : simpl never.
  Arguments enc_address : simpl never.
  Arguments enc_path : simpl never.
  Arguments dec_opt_sty : simpl never.

  Lemma path_roundtrip d i : 0 <= d < 256 -> wf_str i -> dec_storable (enc_path d i) = Ok (VPath d i).
  Proof.
    intros Hd Hi. unfold enc_path. tags. cbn. rewrite path_content_roundtrip by auto. reflexivity.
  Qed.

  Lemma opt_sty_roundtrip b :
    match b with Some x => wf_sty x | None => True end ->
    dec_opt_sty utf8_valid (match b with Some x => enc_sty x | None => CNil end) = Ok b.
  Proof.
    destruct b; intros W.
    - apply dec_opt_sty_some. apply sty_roundtrip; auto.
    - reflexivity.
  Qed.

  Lemma reference_match (b : sty) (A : Type) (x y : res A) :
    is_reference b -> match b with TReference _ _ _ => x | _ => y end = x.
  Proof. destruct b; simpl; intros H; try contradiction; reflexivity. Qed.

  Definition rt (v : storable) : Prop := wf_storable v -> dec_storable (enc_storable v) = Ok v.

  Lemma storable_roundtrip_both : forall v, rt v /\ rt (innermost v).
  Proof.
    induction v; try (split; [|simpl]); unfold rt in *; intros W; simpl in W;
      try solve [cbn; tags; reflexivity].
    all: try solve [destruct IHv as [A B]; simpl; auto].
    - (* string *) destruct W as [W1 W2]. cbn [enc_storable]. tags. cbn. rewrite dec_string_text by auto.
      cbn. rewrite W2. reflexivity.
    - destruct W as [W1 W2]. cbn [enc_storable]. tags. cbn. rewrite dec_string_text by auto.
      cbn. rewrite W2. reflexivity.
    - (* character *) destruct W as [W1 [W2 W3]]. cbn [enc_storable]. tags. cbn.
      rewrite dec_string_text by auto. cbn. rewrite W3, W2. reflexivity.
    - destruct W as [W1 [W2 W3]]. cbn [enc_storable]. tags. cbn.
      rewrite dec_string_text by auto. cbn. rewrite W3, W2. reflexivity.
    - (* atree string *) cbn. rewrite dec_string_text by auto. reflexivity.
    - cbn. rewrite dec_string_text by auto. reflexivity.
    - (* address *) cbn [enc_storable]. unfold enc_address. tags. cbn.
      unfold dec_address_value. rewrite dec_address_bytes_enc by auto. reflexivity.
    - cbn [enc_storable]. unfold enc_address. tags. cbn.
      unfold dec_address_value. rewrite dec_address_bytes_enc by auto. reflexivity.
    - (* path *) destruct W. apply path_roundtrip; auto.
    - destruct W. apply path_roundtrip; auto.
    - (* number *) apply num_roundtrip; auto.
    - apply num_roundtrip; auto.
    - (* some *) destruct IHv as [A B]. apply some_roundtrip. apply B. apply wf_innermost; auto.
    - (* capability *) destruct W as [Wa [Wi Wb]]. cbn [enc_storable]. tags. cbn.
      rewrite address_roundtrip by auto. cbn.
      change (dec_uint64 (CUint id)) with (Ok (A:=Z) id). cbn.
      rewrite sty_roundtrip by auto. reflexivity.
    - destruct W as [Wa [Wi Wb]]. cbn [enc_storable]. tags. cbn.
      rewrite address_roundtrip by auto. cbn.
      change (dec_uint64 (CUint id)) with (Ok (A:=Z) id). cbn.
      rewrite sty_roundtrip by auto. reflexivity.
    - (* published *) destruct W as [Wr [Wc Wv]]. destruct IHv as [A _].
      cbn [enc_storable]. tags. cbn. rewrite address_roundtrip by auto. cbn.
      change (Model.dec_storable utf8_valid nfc valid_char (enc_storable v)) with (dec_storable (enc_storable v)).
      rewrite A by auto. cbn. rewrite Wc. reflexivity.
    - destruct W as [Wr [Wc Wv]]. destruct IHv as [A _].
      cbn [enc_storable]. tags. cbn. rewrite address_roundtrip by auto. cbn.
      change (Model.dec_storable utf8_valid nfc valid_char (enc_storable v)) with (dec_storable (enc_storable v)).
      rewrite A by auto. cbn. rewrite Wc. reflexivity.
    - (* type *) cbn [enc_storable]. tags. cbn. rewrite opt_sty_roundtrip by auto. reflexivity.
    - cbn [enc_storable]. tags. cbn. rewrite opt_sty_roundtrip by auto. reflexivity.
    - (* storage capability controller *) destruct W as [Wr [Wb [Wi [Wd Wp]]]].
      cbn [enc_storable]. tags. cbn. rewrite sty_roundtrip by auto. cbn.
      rewrite reference_match by auto.
      change (dec_uint64 (CUint id)) with (Ok (A:=Z) id). cbn.
      rewrite tagged_path_roundtrip by auto. reflexivity.
    - destruct W as [Wr [Wb [Wi [Wd Wp]]]].
      cbn [enc_storable]. tags. cbn. rewrite sty_roundtrip by auto. cbn.
      rewrite reference_match by auto.
      change (dec_uint64 (CUint id)) with (Ok (A:=Z) id). cbn.
      rewrite tagged_path_roundtrip by auto. reflexivity.
    - (* account capability controller *) destruct W as [Wr [Wb Wi]].
      cbn [enc_storable]. tags. cbn. rewrite sty_roundtrip by auto. cbn.
      rewrite reference_match by auto.
      change (dec_uint64 (CUint id)) with (Ok (A:=Z) id). reflexivity.
    - destruct W as [Wr [Wb Wi]].
      cbn [enc_storable]. tags. cbn. rewrite sty_roundtrip by auto. cbn.
      rewrite reference_match by auto.
      change (dec_uint64 (CUint id)) with (Ok (A:=Z) id). reflexivity.
    - (* path capability *) destruct W as [Wa [Wd [Wp Wb]]].
      cbn [enc_storable]. tags. cbn. rewrite address_roundtrip by auto. cbn.
      pose proof (path_roundtrip domain ident Wd Wp) as R. unfold Model.dec_storable in R |- *.
      fold (Model.dec_storable utf8_valid nfc valid_char) in R |- *.
      rewrite R. cbn. rewrite opt_sty_roundtrip by auto. reflexivity.
    - destruct W as [Wa [Wd [Wp Wb]]].
      cbn [enc_storable]. tags. cbn. rewrite address_roundtrip by auto. cbn.
      pose proof (path_roundtrip domain ident Wd Wp) as R. unfold Model.dec_storable in R |- *.
      fold (Model.dec_storable utf8_valid nfc valid_char) in R |- *.
      rewrite R. cbn. rewrite opt_sty_roundtrip by auto. reflexivity.
    - (* path link *) destruct W as [Wd [Wp Wt]].
      cbn [enc_storable]. tags. cbn. rewrite tagged_path_roundtrip by auto. cbn.
      rewrite sty_roundtrip by auto. reflexivity.
    - destruct W as [Wd [Wp Wt]].
      cbn [enc_storable]. tags. cbn. rewrite tagged_path_roundtrip by auto. cbn.
      rewrite sty_roundtrip by auto. reflexivity.
  Qed.

  Theorem storable_roundtrip v : wf_storable v -> dec_storable (enc_storable v) = Ok v.
  Proof. apply (proj1 (storable_roundtrip_both v)). Qed.

  (* re-encoding what was decoded from an encoding gives the same encoding *)
  Corollary storable_reencode v v' :
    wf_storable v -> dec_storable (enc_storable v) = Ok v' -> enc_storable v' = enc_storable v.
  Proof. intros W H. rewrite storable_roundtrip in H by auto. inversion H. reflexivity. Qed.

  Corollary sty_reencode t t' :
    wf_sty t -> dec_sty (enc_sty t) = Ok t' -> enc_sty t' = enc_sty t.
  Proof. intros W H. rewrite sty_roundtrip in H by auto. inversion H. reflexivity. Qed.
End RoundTrip.

(* ------------------------------------------------------------------ the tag table *)
Fixpoint zmemb (x : Z) (l : list Z) : bool :=
  match l with [] => false | y :: r => (x =? y) || zmemb x r end.
Fixpoint nodupb (l : list Z) : bool :=
  match l with [] => true | x :: r => negb (zmemb x r) && nodupb r end.

Lemma zmemb_In x l : zmemb x l = true <-> In x l.
Proof.
  induction l; simpl; split; intros H; try discriminate; try contradiction.
  - apply orb_true_iff in H as [H|H]; [left; apply Z.eqb_eq in H; auto | right; apply IHl; auto].
  - apply orb_true_iff. destruct H as [H|H]; [left; subst; apply Z.eqb_refl | right; apply IHl; auto].
Qed.

Lemma nodupb_NoDup l : nodupb l = true -> NoDup l.
Proof.
  induction l; simpl; intros H; constructor.
  - apply andb_true_iff in H as [H _]. apply negb_true_iff in H.
    intros C. apply zmemb_In in C. congruence.
  - apply IHl. apply andb_true_iff in H as [_ H]. auto.
Qed.

(* no two kinds share a tag number, and every tag fits the one-byte form 0xd8 nn the encoders write *)
Theorem tag_table_injective : NoDup cbor_tag_table.
Proof. apply nodupb_NoDup. vm_compute. reflexivity. Qed.

Theorem tag_table_one_byte : Forall (fun t => 24 <= t <= 255) cbor_tag_table.
Proof.
  apply Forall_forall. intros t H.
  assert (forallb (fun t => (24 <=? t) && (t <=? 255)) cbor_tag_table = true) as F by (vm_compute; reflexivity).
  rewrite forallb_forall in F. specialize (F t H). apply andb_true_iff in F as [A B].
  apply Z.leb_le in A, B. lia.
Qed.

Theorem prim_table_injective : NoDup prim_table.
Proof. apply nodupb_NoDup. vm_compute. reflexivity. Qed.
