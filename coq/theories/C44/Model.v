(* C44  Storage encoding of storable values and static types: code-shaped model.
   Transcribed from interpreter/encode.go (Encode methods, EncodeLocation, StaticType encoders),
   values/value_int.go, values/value_ufix64.go, values/value_bool.go, interpreter/value_link.go,
   interpreter/value_pathcapability.go and interpreter/decode.go (decodeStorable and every
   decodeX, TypeDecoder, LocationDecoder), on top of the primitives of the CBOR stream
   encoder/decoder (github.com/fxamacker/cbor/v2 stream_encode.go / stream_decode.go).
   CBOR tag numbers and primitive static type codes come from Gen/GenC44Tags.v, which the driver
   regenerates from the source on every run.  Definitions only. *)
From CV Require Export Base.Prelude Gen.GenC44Tags.

(* ------------------------------------------------------------------ CBOR data items *)
Inductive cbor : Type :=
| CUint (n : Z)              (* major type 0 *)
| CNint (n : Z)              (* major type 1: the integer -1 - n *)
| CBytes (b : list Z)        (* major type 2 *)
| CText (b : list Z)         (* major type 3, UTF-8 bytes *)
| CArr (l : list cbor)       (* major type 4, definite length *)
| CTag (t : Z) (c : cbor)    (* major type 6 *)
| CBool (b : bool)           (* 0xf4 / 0xf5 *)
| CNil.                      (* 0xf6 *)

(* big-endian bytes without leading zeros (big.Int.Bytes, Address.Bytes) *)
Fixpoint be_aux (fuel : nat) (z : Z) (acc : list Z) : list Z :=
  match fuel with
  | O => acc
  | S f => if z =? 0 then acc else be_aux f (z / 256) (z mod 256 :: acc)
  end.
Definition be_bytes (z : Z) : list Z := be_aux (S (Z.to_nat (Z.log2 z))) z [].
Definition be_value (l : list Z) : Z := fold_left (fun a b => a * 256 + b) l 0.

(* shortest-form head of a data item *)
Definition be_fixed (n : nat) (z : Z) : list Z :=
  (fix go (n : nat) (z : Z) (acc : list Z) : list Z :=
     match n with O => acc | S k => go k (z / 256) (z mod 256 :: acc) end) n z [].
Definition head (mt n : Z) : list Z :=
  if n <? 24 then [mt * 32 + n]
  else if n <? 256 then [mt * 32 + 24; n]
  else if n <? 65536 then (mt * 32 + 25) :: be_fixed 2 n
  else if n <? 4294967296 then (mt * 32 + 26) :: be_fixed 4 n
  else (mt * 32 + 27) :: be_fixed 8 n.

(* the bytes the stream encoder writes for an item (canonical: shortest heads) *)
Fixpoint serialize (c : cbor) : list Z :=
  match c with
  | CUint n => head 0 n
  | CNint n => head 1 n
  | CBytes b => head 2 (Z.of_nat (length b)) ++ b
  | CText b => head 3 (Z.of_nat (length b)) ++ b
  | CArr l => head 4 (Z.of_nat (length l)) ++ flat_map serialize l
  | CTag t x => head 6 t ++ serialize x
  | CBool b => [if b then 245 else 244]
  | CNil => [246]
  end.

(* ------------------------------------------------------------------ values of the model *)
Definition str := list Z.     (* UTF-8 bytes *)

Inductive location : Type :=
| LNone                                   (* nil location *)
| LAddress (addr : Z) (name : str)
| LString (s : str)
| LIdentifier (s : str)
| LTransaction (b : list Z)               (* 32 bytes *)
| LScript (b : list Z).

Inductive authz : Type :=
| AUnauthorized
| AInaccessible
| AEntMap (typeID : str)
| AEntSet (kind : Z) (ents : list str).   (* ordered set of entitlement type IDs *)

Inductive sty : Type :=
| TPrimitive (code : Z)
| TOptional (t : sty)
| TComposite (l : location) (qid : str)
| TInterface (l : location) (qid : str)
| TVarSized (t : sty)
| TConstSized (size : Z) (t : sty)
| TDictionary (k v : sty)
| TReference (legacy : option bool) (a : authz) (t : sty)   (* legacy: old bool format, decode only *)
| TIntersection (legacy : option sty) (ifaces : list (location * str))
| TCapability (borrow : option sty)
| TInclusiveRange (t : sty).

(* number kinds that share an encoding shape *)
Inductive ikind : Type :=
| KInt | KInt8 | KInt16 | KInt32 | KInt64 | KInt128 | KInt256
| KUInt | KUInt8 | KUInt16 | KUInt32 | KUInt64 | KUInt128 | KUInt256
| KWord8 | KWord16 | KWord32 | KWord64 | KWord128 | KWord256
| KFix64 | KUFix64.

Inductive iclass : Type := CSigned | CUnsigned | CBig.

(* EncodeIntN / EncodeUintN / EncodeBigInt *)
Definition ik_class (k : ikind) : iclass :=
  match k with
  | KInt8 | KInt16 | KInt32 | KInt64 | KFix64 => CSigned
  | KUInt8 | KUInt16 | KUInt32 | KUInt64 | KWord8 | KWord16 | KWord32 | KWord64 | KUFix64 => CUnsigned
  | _ => CBig
  end.

Definition ik_tag (k : ikind) : Z :=
  match k with
  | KInt => tag_IntValue | KInt8 => tag_Int8Value | KInt16 => tag_Int16Value
  | KInt32 => tag_Int32Value | KInt64 => tag_Int64Value | KInt128 => tag_Int128Value
  | KInt256 => tag_Int256Value
  | KUInt => tag_UIntValue | KUInt8 => tag_UInt8Value | KUInt16 => tag_UInt16Value
  | KUInt32 => tag_UInt32Value | KUInt64 => tag_UInt64Value | KUInt128 => tag_UInt128Value
  | KUInt256 => tag_UInt256Value
  | KWord8 => tag_Word8Value | KWord16 => tag_Word16Value | KWord32 => tag_Word32Value
  | KWord64 => tag_Word64Value | KWord128 => tag_Word128Value | KWord256 => tag_Word256Value
  | KFix64 => tag_Fix64Value | KUFix64 => tag_UFix64Value
  end.

(* range checks of the decoders (None = no check beyond what the CBOR primitive imposes) *)
Definition ik_min (k : ikind) : option Z :=
  match k with
  | KInt8 => Some (- 2 ^ 7) | KInt16 => Some (- 2 ^ 15) | KInt32 => Some (- 2 ^ 31)
  | KInt128 => Some (- 2 ^ 127) | KInt256 => Some (- 2 ^ 255)
  | KUInt | KUInt128 | KUInt256 | KWord128 | KWord256 => Some 0
  | _ => None
  end.
Definition ik_max (k : ikind) : option Z :=
  match k with
  | KInt8 => Some (2 ^ 7 - 1) | KInt16 => Some (2 ^ 15 - 1) | KInt32 => Some (2 ^ 31 - 1)
  | KInt128 => Some (2 ^ 127 - 1) | KInt256 => Some (2 ^ 255 - 1)
  | KUInt8 | KWord8 => Some (2 ^ 8 - 1) | KUInt16 | KWord16 => Some (2 ^ 16 - 1)
  | KUInt32 | KWord32 => Some (2 ^ 32 - 1)
  | KUInt128 | KWord128 => Some (2 ^ 128 - 1) | KUInt256 | KWord256 => Some (2 ^ 256 - 1)
  | _ => None
  end.

Inductive storable : Type :=
| VBool (b : bool)
| VNil
| VVoid
| VString (s : str)
| VCharacter (s : str)
| VAtreeString (s : str)            (* StringAtreeValue: raw text *)
| VAtreeUint (n : Z)                (* Uint64AtreeValue: raw unsigned integer *)
| VAddress (a : Z)
| VPath (domain : Z) (id : str)
| VNum (k : ikind) (z : Z)
| VFix128 (hi lo : Z)
| VUFix128 (hi lo : Z)
| VSome (v : storable)
| VCapability (addr : Z) (id : Z) (borrow : sty)
| VPublished (recipient : Z) (cap : storable)
| VType (t : option sty)
| VStorageCapCon (borrow : sty) (id : Z) (domain : Z) (ident : str)
| VAccountCapCon (borrow : sty) (id : Z)
| VPathCapability (addr : Z) (domain : Z) (ident : str) (borrow : option sty)   (* deprecated *)
| VPathLink (domain : Z) (ident : str) (t : sty)                                  (* deprecated *)
| VAccountLink.                                                                   (* deprecated *)

(* ------------------------------------------------------------------ encoding *)
Definition enc_int64 (z : Z) : cbor := if z <? 0 then CNint (- 1 - z) else CUint z.
Definition enc_bigint (z : Z) : cbor :=
  if z <? 0 then CTag 3 (CBytes (be_bytes (- 1 - z))) else CTag 2 (CBytes (be_bytes z)).

(* EncodeLocation *)
Definition enc_location (l : location) : cbor :=
  match l with
  | LNone => CNil
  | LString s => CTag tag_StringLocation (CText s)
  | LIdentifier s => CTag tag_IdentifierLocation (CText s)
  | LAddress a n => CTag tag_AddressLocation (CArr [CBytes (be_bytes a); CText n])
  | LTransaction b => CTag tag_TransactionLocation (CBytes b)
  | LScript b => CTag tag_ScriptLocation (CBytes b)
  end.

Definition enc_authz (a : authz) : cbor :=
  match a with
  | AUnauthorized => CTag tag_UnauthorizedStaticAuthorization CNil
  | AInaccessible => CTag tag_InaccessibleStaticAuthorization CNil
  | AEntMap id => CTag tag_EntitlementMapStaticAuthorization (CText id)
  | AEntSet k es => CTag tag_EntitlementSetStaticAuthorization (CArr [CUint k; CArr (map CText es)])
  end.

Definition enc_iface (i : location * str) : cbor :=
  CTag tag_InterfaceStaticType (CArr [enc_location (fst i); CText (snd i)]).

(* StaticType.Encode *)
Fixpoint enc_sty (t : sty) : cbor :=
  match t with
  | TPrimitive c => CTag tag_PrimitiveStaticType (CUint c)
  | TOptional x => CTag tag_OptionalStaticType (enc_sty x)
  | TComposite l q => CTag tag_CompositeStaticType (CArr [enc_location l; CText q])
  | TInterface l q => enc_iface (l, q)
  | TVarSized x => CTag tag_VariableSizedStaticType (enc_sty x)
  | TConstSized n x => CTag tag_ConstantSizedStaticType (CArr [enc_int64 n; enc_sty x])
  | TDictionary k v => CTag tag_DictionaryStaticType (CArr [enc_sty k; enc_sty v])
  | TReference _ a x => CTag tag_ReferenceStaticType (CArr [enc_authz a; enc_sty x])
  | TIntersection leg is =>
      CTag tag_IntersectionStaticType
        (CArr [match leg with Some l => enc_sty l | None => CNil end; CArr (map enc_iface is)])
  | TCapability b =>
      CTag tag_CapabilityStaticType (match b with Some x => enc_sty x | None => CNil end)
  | TInclusiveRange x => CTag tag_InclusiveRangeStaticType (enc_sty x)
  end.

Definition enc_address (a : Z) : cbor := CTag tag_AddressValue (CBytes (be_bytes a)).
Definition enc_path (d : Z) (i : str) : cbor := CTag tag_PathValue (CArr [CUint d; CText i]).

(* SomeStorable.nonSomeStorable: the number of optional levels around the innermost storable *)
Fixpoint some_levels (v : storable) : Z :=
  match v with
  | VSome x => some_levels x + 1
  | _ => 0
  end.

Definition enc_num (k : ikind) (z : Z) : cbor :=
  CTag (ik_tag k)
    (match ik_class k with
     | CSigned => enc_int64 z
     | CUnsigned => CUint z
     | CBig => enc_bigint z
     end).

(* SomeStorable.Encode: count the nested optional levels down to the innermost storable;
   one level: tag + content, more: tag + [levels, innermost] *)
Section SomeEnc.
  Variable enc : storable -> cbor.
  Fixpoint enc_some_go (y : storable) (levels : Z) {struct y} : cbor :=
    match y with
    | VSome z => enc_some_go z (levels + 1)
    | _ => if levels =? 1 then CTag tag_SomeValue (enc y)
           else CTag tag_SomeValueWithNestedLevels (CArr [CUint levels; enc y])
    end.
End SomeEnc.

(* Storable.Encode *)
Fixpoint enc_storable (v : storable) : cbor :=
  match v with
  | VBool b => CBool b
  | VNil => CNil
  | VVoid => CTag tag_VoidValue CNil
  | VString s => CTag tag_StringValue (CText s)
  | VCharacter s => CTag tag_CharacterValue (CText s)
  | VAtreeString s => CText s
  | VAtreeUint n => CUint n
  | VAddress a => enc_address a
  | VPath d i => enc_path d i
  | VNum k z => enc_num k z
  | VFix128 hi lo => CTag tag_Fix128Value (CArr [CUint hi; CUint lo])
  | VUFix128 hi lo => CTag tag_UFix128Value (CArr [CUint hi; CUint lo])
  | VSome x =>
      (* nestedLevels = 1: tag + content; otherwise tag + [levels, innermost] *)
      enc_some_go (fun y => enc_storable y) x 1
  | VCapability a i b => CTag tag_CapabilityValue (CArr [enc_address a; CUint i; enc_sty b])
  | VPublished r c => CTag tag_PublishedValue (CArr [enc_address r; enc_storable c])
  | VType t => CTag tag_TypeValue (CArr [match t with Some x => enc_sty x | None => CNil end])
  | VStorageCapCon b i d p => CTag tag_StorageCapabilityControllerValue (CArr [enc_sty b; CUint i; enc_path d p])
  | VAccountCapCon b i => CTag tag_AccountCapabilityControllerValue (CArr [enc_sty b; CUint i])
  | VPathCapability a d p b =>
      CTag tag_PathCapabilityValue
        (CArr [enc_address a; enc_path d p; match b with Some x => enc_sty x | None => CNil end])
  | VPathLink d p t => CTag tag_PathLinkValue (CArr [enc_path d p; enc_sty t])
  | VAccountLink => CTag tag_AccountLinkValue CNil
  end.

(* ------------------------------------------------------------------ decoding *)
Definition max_int64 : Z := 2 ^ 63 - 1.
Definition bad {A} : res A := Err Internal.     (* every decoding error is an internal error *)

(* StreamDecoder primitives on an already well-formed data item *)
Definition dec_uint64 (c : cbor) : res Z :=
  match c with CUint n => Ok n | _ => bad end.
Definition dec_int64 (c : cbor) : res Z :=
  match c with
  | CUint n => if n >? max_int64 then bad else Ok n
  | CNint n => if n >? max_int64 then bad else Ok (- 1 - n)     (* int64(-1) ^ int64(val) *)
  | _ => bad
  end.
Definition dec_bigint (c : cbor) : res Z :=
  match c with
  | CTag t (CBytes b) =>
      if t =? 2 then Ok (be_value b)
      else if t =? 3 then Ok (- (be_value b + 1))
      else bad
  | _ => bad
  end.

Fixpoint str_eqb (a b : str) : bool :=
  match a, b with
  | [], [] => true
  | x :: r, y :: s => (x =? y) && str_eqb r s
  | _, _ => false
  end.
Fixpoint str_mem (x : str) (l : list str) : bool :=
  match l with [] => false | y :: r => str_eqb x y || str_mem x r end.
(* building an ordered set from a list: a repeated element keeps its first position *)
Definition ordered_set (l : list str) : list str :=
  fold_left (fun acc x => if str_mem x acc then acc else acc ++ [x]) l [].

Definition fit32 (b : list Z) : list Z := firstn 32 (b ++ repeat 0 32).   (* copy(location[:], b) *)

Section Decode.
  (* external behaviour: UTF-8 validity (cbor decoder), NFC normalisation (x/text/norm) and
     "exactly one grapheme cluster" (uniseg, sema.IsValidCharacter) *)
  Variable utf8_valid : str -> bool.
  Variable nfc : str -> str.
  Variable valid_char : str -> bool.

  Definition dec_string (c : cbor) : res str :=
    match c with
    | CText b => if utf8_valid b then Ok b else bad
    | _ => bad
    end.

  Definition dec_address_bytes (c : cbor) : res Z :=
    match c with
    | CBytes b => if Z.of_nat (length b) >? 8 then bad else Ok (be_value b)
    | _ => bad
    end.

  (* LocationDecoder.DecodeLocation *)
  Definition dec_location (c : cbor) : res location :=
    match c with
    | CNil => Ok LNone
    | CTag t x =>
        if t =? tag_AddressLocation then
          match x with
          | CArr [a; n] =>
              let* a' := dec_address_bytes a in
              let* n' := dec_string n in
              Ok (LAddress a' n')
          | _ => bad
          end
        else if t =? tag_StringLocation then let* s := dec_string x in Ok (LString s)
        else if t =? tag_IdentifierLocation then let* s := dec_string x in Ok (LIdentifier s)
        else if t =? tag_TransactionLocation then
          match x with CBytes b => Ok (LTransaction (fit32 b)) | _ => bad end
        else if t =? tag_ScriptLocation then
          match x with CBytes b => Ok (LScript (fit32 b)) | _ => bad end
        else bad
    | _ => bad
    end.

  Fixpoint dec_strings (l : list cbor) : res (list str) :=
    match l with
    | [] => Ok []
    | x :: r => let* s := dec_string x in let* ss := dec_strings r in Ok (s :: ss)
    end.

  (* TypeDecoder.decodeStaticAuthorization *)
  Definition dec_authz (c : cbor) : res authz :=
    match c with
    | CTag t x =>
        if t =? tag_UnauthorizedStaticAuthorization then
          match x with CNil => Ok AUnauthorized | _ => bad end
        else if t =? tag_InaccessibleStaticAuthorization then
          match x with CNil => Ok AInaccessible | _ => bad end
        else if t =? tag_EntitlementMapStaticAuthorization then
          let* s := dec_string x in Ok (AEntMap s)
        else if t =? tag_EntitlementSetStaticAuthorization then
          match x with
          | CArr [k; CArr es] =>
              let* k' := dec_uint64 k in
              let* es' := dec_strings es in
              Ok (AEntSet (k' mod 256) (ordered_set es'))     (* sema.EntitlementSetKind(setKind): uint8 *)
          | _ => bad
          end
        else bad
    | _ => bad
    end.

  (* common.NewTypeIDFromQualifiedName gives the empty type ID exactly for the nil location with
     the empty identifier; NewCompositeStaticType / NewInterfaceStaticType then panic (unreachable) *)
  Definition empty_type_id (l : location) (q : str) : bool :=
    match l, q with LNone, [] => true | _, _ => false end.

  (* decodeInterfaceStaticType, after its tag *)
  Definition dec_iface_content (x : cbor) : res (location * str) :=
    match x with
    | CArr [l; q] =>
        let* l' := dec_location l in
        let* q' := dec_string q in
        if empty_type_id l' q' then bad else Ok (l', q')
    | _ => bad
    end.

  Fixpoint dec_ifaces (l : list cbor) : res (list (location * str)) :=
    match l with
    | [] => Ok []
    | CTag t x :: r =>
        if t =? tag_InterfaceStaticType then
          let* i := dec_iface_content x in
          let* is := dec_ifaces r in
          Ok (i :: is)
        else bad
    | _ :: _ => bad
    end.

  (* TypeDecoder.DecodeStaticType *)
  Fixpoint dec_sty (c : cbor) : res sty :=
    match c with
    | CTag t x =>
        if t =? tag_PrimitiveStaticType then
          let* code := dec_uint64 x in
          if code =? prim_Capability then Ok (TCapability None) else Ok (TPrimitive code)
        else if t =? tag_OptionalStaticType then
          let* y := dec_sty x in Ok (TOptional y)
        else if t =? tag_CompositeStaticType then
          match x with
          | CArr [l; q] =>
              let* l' := dec_location l in
              let* q' := dec_string q in
              if empty_type_id l' q' then bad else Ok (TComposite l' q')
          | _ => bad
          end
        else if t =? tag_InterfaceStaticType then
          let* i := dec_iface_content x in Ok (TInterface (fst i) (snd i))
        else if t =? tag_VariableSizedStaticType then
          let* y := dec_sty x in Ok (TVarSized y)
        else if t =? tag_ConstantSizedStaticType then
          match x with
          | CArr [n; y] =>
              let* n' := dec_uint64 n in
              if n' >? max_int64 then bad
              else let* y' := dec_sty y in Ok (TConstSized n' y')
          | _ => bad
          end
        else if t =? tag_ReferenceStaticType then
          match x with
          | CArr [a; y] =>
              match a with
              | CBool b =>      (* reference encoded in the old format *)
                  let* y' := dec_sty y in Ok (TReference (Some b) AUnauthorized y')
              | _ =>
                  let* a' := dec_authz a in
                  let* y' := dec_sty y in
                  Ok (TReference None a' y')
              end
          | _ => bad
          end
        else if t =? tag_DictionaryStaticType then
          match x with
          | CArr [k; v] =>
              let* k' := dec_sty k in
              let* v' := dec_sty v in
              Ok (TDictionary k' v')
          | _ => bad
          end
        else if t =? tag_IntersectionStaticType then
          match x with
          | CArr [leg; CArr is] =>
              let* leg' := match leg with
                           | CNil => Ok None
                           | _ => let* l := dec_sty leg in Ok (Some l)
                           end in
              let* is' := dec_ifaces is in
              Ok (TIntersection leg' is')
          | _ => bad
          end
        else if t =? tag_CapabilityStaticType then
          match x with
          | CNil => Ok (TCapability None)
          | _ => let* y := dec_sty x in Ok (TCapability (Some y))
          end
        else if t =? tag_InclusiveRangeStaticType then
          let* y := dec_sty x in Ok (TInclusiveRange y)
        else bad
    | _ => bad
    end.

  Definition check_min (k : ikind) (z : Z) : bool :=
    match ik_min k with Some m => m <=? z | None => true end.
  Definition check_max (k : ikind) (z : Z) : bool :=
    match ik_max k with Some m => z <=? m | None => true end.

  (* decodeInt8 ... decodeUFix64 *)
  Definition dec_num (k : ikind) (x : cbor) : res storable :=
    let* z := match ik_class k with
              | CSigned => dec_int64 x
              | CUnsigned => dec_uint64 x
              | CBig => dec_bigint x
              end in
    if check_min k z && check_max k z then Ok (VNum k z) else bad.

  Definition dec_address_value (x : cbor) : res Z := dec_address_bytes x.

  (* decodePath, after its tag *)
  Definition dec_path_content (x : cbor) : res (Z * str) :=
    match x with
    | CArr [d; i] =>
        let* d' := dec_uint64 d in
        let* i' := dec_string i in
        Ok (d' mod 256, i')                                  (* common.PathDomain(domain): uint8 *)
    | _ => bad
    end.

  Definition dec_tagged_address (c : cbor) : res Z :=
    match c with
    | CTag t x => if t =? tag_AddressValue then dec_address_value x else bad
    | _ => bad
    end.
  Definition dec_tagged_path (c : cbor) : res (Z * str) :=
    match c with
    | CTag t x => if t =? tag_PathValue then dec_path_content x else bad
    | _ => bad
    end.

  Definition dec_opt_sty (c : cbor) : res (option sty) :=
    match c with
    | CNil => Ok None
    | _ => let* t := dec_sty c in Ok (Some t)
    end.

  Fixpoint wrap_some (n : nat) (v : storable) : storable :=
    match n with O => v | S k => VSome (wrap_some k v) end.

  Definition is_capability (v : storable) : bool :=
    match v with VCapability _ _ _ | VPathCapability _ _ _ _ => true | _ => false end.

  (* StorableDecoder.decodeStorable *)
  Fixpoint dec_storable (c : cbor) : res storable :=
    match c with
    | CBool b => Ok (VBool b)
    | CNil => Ok VNil
    | CText _ => let* s := dec_string c in Ok (VAtreeString s)
    | CUint n => Ok (VAtreeUint n)
    | CTag t x =>
        if (t =? 2) || (t =? 3) then bad       (* cbor.BigNumType, not cbor.TagType *)
        else if t =? tag_VoidValue then Ok VVoid                 (* Skip *)
        else if t =? tag_StringValue then let* s := dec_string x in Ok (VString (nfc s))
        else if t =? tag_CharacterValue then
          let* s := dec_string x in
          if valid_char s then Ok (VCharacter (nfc s)) else bad
        else if t =? tag_SomeValue then let* v := dec_storable x in Ok (VSome v)
        else if t =? tag_SomeValueWithNestedLevels then
          match x with
          | CArr [n; y] =>
              let* n' := dec_uint64 n in
              if n' <=? 1 then bad
              else let* v := dec_storable y in Ok (wrap_some (Z.to_nat n') v)
          | _ => bad
          end
        else if t =? tag_AddressValue then let* a := dec_address_value x in Ok (VAddress a)
        else if t =? tag_IntValue then dec_num KInt x
        else if t =? tag_Int8Value then dec_num KInt8 x
        else if t =? tag_Int16Value then dec_num KInt16 x
        else if t =? tag_Int32Value then dec_num KInt32 x
        else if t =? tag_Int64Value then dec_num KInt64 x
        else if t =? tag_Int128Value then dec_num KInt128 x
        else if t =? tag_Int256Value then dec_num KInt256 x
        else if t =? tag_UIntValue then dec_num KUInt x
        else if t =? tag_UInt8Value then dec_num KUInt8 x
        else if t =? tag_UInt16Value then dec_num KUInt16 x
        else if t =? tag_UInt32Value then dec_num KUInt32 x
        else if t =? tag_UInt64Value then dec_num KUInt64 x
        else if t =? tag_UInt128Value then dec_num KUInt128 x
        else if t =? tag_UInt256Value then dec_num KUInt256 x
        else if t =? tag_Word8Value then dec_num KWord8 x
        else if t =? tag_Word16Value then dec_num KWord16 x
        else if t =? tag_Word32Value then dec_num KWord32 x
        else if t =? tag_Word64Value then dec_num KWord64 x
        else if t =? tag_Word128Value then dec_num KWord128 x
        else if t =? tag_Word256Value then dec_num KWord256 x
        else if t =? tag_Fix64Value then dec_num KFix64 x
        else if t =? tag_Fix128Value then
          match x with
          | CArr [hi; lo] => let* h := dec_uint64 hi in let* l := dec_uint64 lo in Ok (VFix128 h l)
          | _ => bad
          end
        else if t =? tag_UFix64Value then dec_num KUFix64 x
        else if t =? tag_UFix128Value then
          match x with
          | CArr [hi; lo] => let* h := dec_uint64 hi in let* l := dec_uint64 lo in Ok (VUFix128 h l)
          | _ => bad
          end
        else if t =? tag_PathValue then let* p := dec_path_content x in Ok (VPath (fst p) (snd p))
        else if t =? tag_CapabilityValue then
          match x with
          | CArr [a; i; b] =>
              let* a' := dec_tagged_address a in
              let* i' := dec_uint64 i in
              let* b' := dec_sty b in
              Ok (VCapability a' i' b')
          | _ => bad
          end
        else if t =? tag_PublishedValue then
          match x with
          | CArr [r; v] =>
              let* r' := dec_tagged_address r in
              let* v' := dec_storable v in
              if is_capability v' then Ok (VPublished r' v') else bad
          | _ => bad
          end
        else if t =? tag_TypeValue then
          match x with
          | CArr [ty] => let* ty' := dec_opt_sty ty in Ok (VType ty')
          | _ => bad
          end
        else if t =? tag_StorageCapabilityControllerValue then
          match x with
          | CArr [b; i; p] =>
              let* b' := dec_sty b in
              match b' with
              | TReference _ _ _ =>
                  let* i' := dec_uint64 i in
                  let* p' := dec_tagged_path p in
                  Ok (VStorageCapCon b' i' (fst p') (snd p'))
              | _ => bad
              end
          | _ => bad
          end
        else if t =? tag_AccountCapabilityControllerValue then
          match x with
          | CArr [b; i] =>
              let* b' := dec_sty b in
              match b' with
              | TReference _ _ _ => let* i' := dec_uint64 i in Ok (VAccountCapCon b' i')
              | _ => bad
              end
          | _ => bad
          end
        else if t =? tag_PathCapabilityValue then
          match x with
          | CArr [a; p; b] =>
              let* a' := dec_tagged_address a in
              let* p' := dec_storable p in
              match p' with
              | VPath d i => let* b' := dec_opt_sty b in Ok (VPathCapability a' d i b')
              | _ => bad
              end
          | _ => bad
          end
        else if t =? tag_PathLinkValue then
          match x with
          | CArr [p; ty] =>
              let* p' := dec_tagged_path p in
              let* ty' := dec_sty ty in
              Ok (VPathLink (fst p') (snd p') ty')
          | _ => bad
          end
        else if t =? tag_AccountLinkValue then Ok VAccountLink   (* Skip *)
        else bad                                                  (* UnsupportedTagDecodingError *)
    | _ => bad                                                    (* unsupported decoded CBOR type *)
    end.
End Decode.
