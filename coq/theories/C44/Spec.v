(* C44  Which values exist: well-formedness of storable values and static types
   (ranges of the number types, address width, normalised strings, ...). Definitions only. *)
From CV Require Export C44.Model.

Section WF.
  Variable utf8_valid : str -> bool.
  Variable nfc : str -> str.
  Variable valid_char : str -> bool.

  Definition wf_str (s : str) : Prop := utf8_valid s = true.
  Definition wf_addr (a : Z) : Prop := 0 <= a < 2 ^ 64.

  Definition wf_location (l : location) : Prop :=
    match l with
    | LNone => True
    | LAddress a n => wf_addr a /\ wf_str n
    | LString s | LIdentifier s => wf_str s
    | LTransaction b | LScript b => length b = 32%nat
    end.

  Definition wf_authz (a : authz) : Prop :=
    match a with
    | AUnauthorized | AInaccessible => True
    | AEntMap s => wf_str s
    | AEntSet k es => 0 <= k < 256 /\ Forall wf_str es /\ ordered_set es = es      (* a set: no repetition *)
    end.

  Definition wf_iface (i : location * str) : Prop :=
    wf_location (fst i) /\ wf_str (snd i) /\ empty_type_id (fst i) (snd i) = false.

  Fixpoint wf_sty (t : sty) : Prop :=
    match t with
    | TPrimitive c => c <> prim_Capability     (* deprecated code: decodes to Capability (migration) *)
    | TOptional x | TVarSized x | TInclusiveRange x => wf_sty x
    | TComposite l q | TInterface l q => wf_location l /\ wf_str q /\ empty_type_id l q = false
    | TConstSized n x => 0 <= n <= max_int64 /\ wf_sty x
    | TDictionary k v => wf_sty k /\ wf_sty v
    | TReference leg a x => leg = None /\ wf_authz a /\ wf_sty x
    | TIntersection leg is =>
        match leg with Some l => wf_sty l | None => True end /\ Forall wf_iface is
    | TCapability b => match b with Some x => wf_sty x | None => True end
    end.

  (* the values of each number type *)
  Definition in_range (k : ikind) (z : Z) : Prop :=
    match k with
    | KInt => True
    | KInt8 => - 2 ^ 7 <= z <= 2 ^ 7 - 1
    | KInt16 => - 2 ^ 15 <= z <= 2 ^ 15 - 1
    | KInt32 => - 2 ^ 31 <= z <= 2 ^ 31 - 1
    | KInt64 | KFix64 => - 2 ^ 63 <= z <= 2 ^ 63 - 1
    | KInt128 => - 2 ^ 127 <= z <= 2 ^ 127 - 1
    | KInt256 => - 2 ^ 255 <= z <= 2 ^ 255 - 1
    | KUInt => 0 <= z
    | KUInt8 | KWord8 => 0 <= z <= 2 ^ 8 - 1
    | KUInt16 | KWord16 => 0 <= z <= 2 ^ 16 - 1
    | KUInt32 | KWord32 => 0 <= z <= 2 ^ 32 - 1
    | KUInt64 | KWord64 | KUFix64 => 0 <= z <= 2 ^ 64 - 1
    | KUInt128 | KWord128 => 0 <= z <= 2 ^ 128 - 1
    | KUInt256 | KWord256 => 0 <= z <= 2 ^ 256 - 1
    end.

  Definition is_reference (t : sty) : Prop :=
    match t with TReference _ _ _ => True | _ => False end.

  Fixpoint wf_storable (v : storable) : Prop :=
    match v with
    | VBool _ | VNil | VVoid | VAccountLink => True
    | VString s => wf_str s /\ nfc s = s
    | VCharacter s => wf_str s /\ nfc s = s /\ valid_char s = true
    | VAtreeString s => wf_str s
    | VAtreeUint n => 0 <= n
    | VAddress a => wf_addr a
    | VPath d i => 0 <= d < 256 /\ wf_str i
    | VNum k z => in_range k z
    | VFix128 hi lo | VUFix128 hi lo => 0 <= hi /\ 0 <= lo
    | VSome x => wf_storable x
    | VCapability a i b => wf_addr a /\ 0 <= i /\ wf_sty b
    | VPublished r c => wf_addr r /\ is_capability c = true /\ wf_storable c
    | VType t => match t with Some x => wf_sty x | None => True end
    | VStorageCapCon b i d p => is_reference b /\ wf_sty b /\ 0 <= i /\ 0 <= d < 256 /\ wf_str p
    | VAccountCapCon b i => is_reference b /\ wf_sty b /\ 0 <= i
    | VPathCapability a d p b =>
        wf_addr a /\ 0 <= d < 256 /\ wf_str p /\ match b with Some x => wf_sty x | None => True end
    | VPathLink d p t => 0 <= d < 256 /\ wf_str p /\ wf_sty t
    end.
End WF.
