(* C44  Check functions evaluated (vm_compute) by the per-run case files. *)
From CV Require Export C44.Model.

Fixpoint zlist_eqb (a b : list Z) : bool :=
  match a, b with
  | [], [] => true
  | x :: r, y :: s => (x =? y) && zlist_eqb r s
  | _, _ => false
  end.

Fixpoint list_eqb {A} (eqb : A -> A -> bool) (a b : list A) : bool :=
  match a, b with
  | [], [] => true
  | x :: r, y :: s => eqb x y && list_eqb eqb r s
  | _, _ => false
  end.

Definition opt_eqb {A} (eqb : A -> A -> bool) (a b : option A) : bool :=
  match a, b with
  | None, None => true
  | Some x, Some y => eqb x y
  | _, _ => false
  end.

Definition location_eqb (a b : location) : bool :=
  match a, b with
  | LNone, LNone => true
  | LAddress x n, LAddress y m => (x =? y) && zlist_eqb n m
  | LString s, LString t | LIdentifier s, LIdentifier t => zlist_eqb s t
  | LTransaction s, LTransaction t | LScript s, LScript t => zlist_eqb s t
  | _, _ => false
  end.

Definition authz_eqb (a b : authz) : bool :=
  match a, b with
  | AUnauthorized, AUnauthorized | AInaccessible, AInaccessible => true
  | AEntMap s, AEntMap t => zlist_eqb s t
  | AEntSet k es, AEntSet k' es' => (k =? k') && list_eqb zlist_eqb es es'
  | _, _ => false
  end.

Definition iface_eqb (a b : location * str) : bool :=
  location_eqb (fst a) (fst b) && zlist_eqb (snd a) (snd b).

Fixpoint sty_eqb (a b : sty) : bool :=
  match a, b with
  | TPrimitive x, TPrimitive y => x =? y
  | TOptional x, TOptional y | TVarSized x, TVarSized y | TInclusiveRange x, TInclusiveRange y => sty_eqb x y
  | TComposite l q, TComposite l' q' | TInterface l q, TInterface l' q' => location_eqb l l' && zlist_eqb q q'
  | TConstSized n x, TConstSized m y => (n =? m) && sty_eqb x y
  | TDictionary k v, TDictionary k' v' => sty_eqb k k' && sty_eqb v v'
  | TReference l a x, TReference l' a' y => opt_eqb Bool.eqb l l' && authz_eqb a a' && sty_eqb x y
  | TIntersection l is, TIntersection l' is' =>
      match l, l' with
      | None, None => true
      | Some x, Some y => sty_eqb x y
      | _, _ => false
      end && list_eqb iface_eqb is is'
  | TCapability x, TCapability y =>
      match x, y with
      | None, None => true
      | Some x, Some y => sty_eqb x y
      | _, _ => false
      end
  | _, _ => false
  end.

Definition ikind_code (k : ikind) : Z := ik_tag k.

Fixpoint storable_eqb (a b : storable) : bool :=
  match a, b with
  | VBool x, VBool y => Bool.eqb x y
  | VNil, VNil | VVoid, VVoid | VAccountLink, VAccountLink => true
  | VString s, VString t | VCharacter s, VCharacter t | VAtreeString s, VAtreeString t => zlist_eqb s t
  | VAtreeUint n, VAtreeUint m | VAddress n, VAddress m => n =? m
  | VPath d i, VPath d' i' => (d =? d') && zlist_eqb i i'
  | VNum k z, VNum k' z' => (ikind_code k =? ikind_code k') && (z =? z')
  | VFix128 h l, VFix128 h' l' | VUFix128 h l, VUFix128 h' l' => (h =? h') && (l =? l')
  | VSome x, VSome y => storable_eqb x y
  | VCapability a i t, VCapability a' i' t' => (a =? a') && (i =? i') && sty_eqb t t'
  | VPublished r c, VPublished r' c' => (r =? r') && storable_eqb c c'
  | VType t, VType t' => opt_eqb sty_eqb t t'
  | VStorageCapCon b i d p, VStorageCapCon b' i' d' p' => sty_eqb b b' && (i =? i') && (d =? d') && zlist_eqb p p'
  | VAccountCapCon b i, VAccountCapCon b' i' => sty_eqb b b' && (i =? i')
  | VPathCapability a d p b, VPathCapability a' d' p' b' =>
      (a =? a') && (d =? d') && zlist_eqb p p' && opt_eqb sty_eqb b b'
  | VPathLink d p t, VPathLink d' p' t' => (d =? d') && zlist_eqb p p' && sty_eqb t t'
  | _, _ => false
  end.

Fixpoint str_memb (x : str) (l : list str) : bool :=
  match l with [] => false | y :: r => zlist_eqb x y || str_memb x r end.

(* oracles as used by the harness: every text it feeds is valid UTF-8 and NFC-stable (checked on
   the Go side); the texts that are exactly one grapheme cluster are listed per case *)
Definition dec_storable_h (chars : list str) : cbor -> res storable :=
  dec_storable (fun _ => true) (fun s => s) (fun s => str_memb s chars).
Definition dec_sty_h : cbor -> res sty := dec_sty (fun _ => true).

(* the real encoder's bytes for a value / a static type *)
Definition check_encode_value (c : storable * list Z) : bool :=
  zlist_eqb (serialize (enc_storable (fst c))) (snd c).
Definition check_encode_type (c : sty * list Z) : bool :=
  zlist_eqb (serialize (enc_sty (fst c))) (snd c).

(* the real decoder on a data item (well-formed or not): Some v = decoded to v, None = rejected *)
Definition check_decode_value (c : list str * cbor * option storable) : bool :=
  let '(chars, item, obs) := c in
  match dec_storable_h chars item, obs with
  | Ok v, Some v' => storable_eqb v v'
  | Err _, None => true
  | _, _ => false
  end.
Definition check_decode_type (c : cbor * option sty) : bool :=
  match dec_sty_h (fst c), snd c with
  | Ok t, Some t' => sty_eqb t t'
  | Err _, None => true
  | _, _ => false
  end.
