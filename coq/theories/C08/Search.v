(* C08 — search for violations of the proved laws in the (regenerated) relation over an enumerated
   universe; run by the driver only when the proof leg no longer checks. *)
From Coq Require Import ZArith List Bool.
From CV Require Import Base.Prelude C08.Model C08.Subtype C08.Wf.
Import ListNotations.
Open Scope Z_scope.

Fixpoint mask_of (f : ty -> bool) (univ : list ty) (j : Z) : Z :=
  match univ with
  | [] => 0
  | b :: rest => (if f b then Z.shiftl 1 j else 0) + mask_of f rest (j + 1)
  end.

Fixpoint bits_of (m : Z) (j : Z) (n : nat) : list Z :=
  match n with
  | O => []
  | S n' => if Z.testbit m j then j :: bits_of m (j + 1) n' else bits_of m (j + 1) n'
  end.

Fixpoint index_rows (rows : list Z) (i : Z) : list (Z * Z) :=
  match rows with [] => [] | r :: rest => (i, r) :: index_rows rest (i + 1) end.

(* (kind, i, j, k): 0 not reflexive at i; 1 Never not below j; 2 i not below Any;
   3 i <: j <: k but not i <: k, all three inside the guard *)
Definition law_search (E : denv) (univ : list ty) : list (Z * Z * Z * Z) :=
  let n := length univ in
  let rows := map (fun a => mask_of (is_subtype E a) univ 0) univ in
  let irows := index_rows rows 0 in
  let pmask := mask_of (plain E) univ 0 in
  let refl := flat_map (fun ir => let '(i, r) := ir in if Z.testbit r i then [] else [(0, i, 0, 0)]) irows in
  let bot := map (fun j => (1, j, 0, 0)) (bits_of (mask_of (fun b => negb (is_subtype E (TPrim PNever) b)) univ 0) 0 n) in
  let top := map (fun i => (2, i, 0, 0)) (bits_of (mask_of (fun a => negb (is_subtype E a (TPrim PAny))) univ 0) 0 n) in
  let tr := flat_map (fun ir => let '(i, ri) := ir in
              if Z.testbit pmask i then
                flat_map (fun jr => let '(j, rj) := jr in
                  if Z.testbit ri j && Z.testbit pmask j then
                    let bad := Z.land (Z.land rj pmask) (Z.lnot ri) in
                    if Z.eqb bad 0 then [] else map (fun k => (3, i, j, k)) (firstn 1 (bits_of bad 0 n))
                  else []) irows
              else []) irows in
  firstn 10 refl ++ firstn 10 bot ++ firstn 10 top ++ firstn 20 tr.
