(* C08 — Type.Equal (ty_equal) is an equivalence relation on all types. *)
From Coq Require Import ZArith List Bool Lia Arith.
From CV Require Import Base.Prelude C08.Model C08.Basics.
Import ListNotations.
Open Scope Z_scope.

(* ---------------------------------------------------------------- forall2b *)
Lemma forall2b_length {A B} (f : A -> B -> bool) xs ys :
  forall2b f xs ys = true -> length xs = length ys.
Proof.
  revert ys. induction xs as [|x xs IH]; destruct ys as [|y ys]; simpl; try discriminate; auto.
  rewrite andb_true_iff. intros [_ H]. f_equal. apply IH. exact H.
Qed.

Lemma forall2b_ext_in {A B} (f g : A -> B -> bool) xs ys :
  (forall x y, In x xs -> In y ys -> f x y = g x y) -> forall2b f xs ys = forall2b g xs ys.
Proof.
  revert ys. induction xs as [|x xs IH]; destruct ys as [|y ys]; simpl; auto.
  intros H. rewrite (H x y) by auto. rewrite IH; auto.
Qed.

Lemma forall2b_refl {A} (f : A -> A -> bool) l :
  Forall (fun x => f x x = true) l -> forall2b f l l = true.
Proof. induction 1; simpl; auto. rewrite H, IHForall. reflexivity. Qed.

Lemma forall2b_sym {A} (f : A -> A -> bool) xs ys :
  Forall (fun x => forall y, f x y = f y x) xs -> forall2b f xs ys = forall2b f ys xs.
Proof.
  intros H. revert ys. induction H as [|x xs Hx Hxs IH]; destruct ys as [|y ys]; simpl; auto.
  rewrite Hx, IH. reflexivity.
Qed.

Lemma forall2b_trans {A} (f : A -> A -> bool) xs ys zs :
  Forall (fun x => forall y z, f x y = true -> f y z = true -> f x z = true) xs ->
  forall2b f xs ys = true -> forall2b f ys zs = true -> forall2b f xs zs = true.
Proof.
  intros H. revert ys zs. induction H as [|x xs Hx Hxs IH]; destruct ys as [|y ys]; destruct zs as [|z zs];
    simpl; try discriminate; auto.
  rewrite !andb_true_iff. intros [H1 H2] [H3 H4]. split; eauto.
Qed.

Lemma forall2b_flip {A B} (f : A -> B -> bool) xs ys :
  forall2b (fun y x => f x y) ys xs = forall2b f xs ys.
Proof.
  revert ys. induction xs as [|x xs IH]; destruct ys as [|y ys]; simpl; auto. rewrite IH. reflexivity.
Qed.

Section Equal.
Variable E : denv.

Definition opt_equal (x y : option ty) : bool := deep_equals_opt E x y.
Definition param_equal (x y : ty) : bool := Bool.eqb (is_resource E x) (is_resource E y) && ty_equal E x y.

(* the function case of ty_equal in terms of forall2b *)
Lemma ty_equal_fun v1 tp1 ps1 r1 ar1 c1 v2 tp2 ps2 r2 ar2 c2 :
  ty_equal E (TFunction v1 tp1 ps1 r1 ar1 c1) (TFunction v2 tp2 ps2 r2 ar2 c2)
  = Bool.eqb v1 v2 && forall2b opt_equal tp1 tp2 && Nat.eqb (length ps1) (length ps2) && arity_eqb ar1 ar2
    && forall2b param_equal ps1 ps2 && Bool.eqb c1 c2 && ty_equal E r1 r2.
Proof.
  cbn [ty_equal]. f_equal. f_equal. f_equal.
  - f_equal. f_equal. f_equal.
    revert tp2. induction tp1 as [|x xs IH]; destruct tp2 as [|y ys]; simpl; auto.
    rewrite IH. destruct x, y; reflexivity.
  - revert ps2. induction ps1 as [|x xs IH]; destruct ps2 as [|y ys]; simpl; auto.
    rewrite IH. reflexivity.
Qed.

Lemma arity_eqb_refl a : arity_eqb a a = true.
Proof. destruct a as [[m x]|]; simpl; auto. rewrite !Z.eqb_refl. reflexivity. Qed.

Lemma arity_eqb_sym a b : arity_eqb a b = arity_eqb b a.
Proof. destruct a as [[m x]|], b as [[m' x']|]; simpl; auto. rewrite (Z.eqb_sym m), (Z.eqb_sym x). reflexivity. Qed.

Lemma arity_eqb_trans a b c : arity_eqb a b = true -> arity_eqb b c = true -> arity_eqb a c = true.
Proof.
  destruct a as [[m x]|], b as [[m' x']|], c as [[m'' x'']|]; simpl; auto; try discriminate.
  rewrite !andb_true_iff, !Z.eqb_eq. intros [-> ->] [-> ->]. auto.
Qed.

Lemma ty_equal_refl a : ty_equal E a a = true.
Proof.
  induction a using ty_ind'; try (simpl; auto; fail).
  - simpl. apply prim_eqb_refl.
  - simpl. rewrite IHa. apply Z.eqb_refl.
  - simpl. rewrite IHa1, IHa2. reflexivity.
  - simpl. rewrite auth_equal_refl, IHa. reflexivity.
  - simpl. apply zset_eqb_refl.
  - simpl. apply Z.eqb_refl.
  - simpl. apply Z.eqb_refl.
  - destruct b; simpl; auto.
  - rewrite ty_equal_fun. rewrite eqb_reflx, Nat.eqb_refl, arity_eqb_refl, eqb_reflx, IHa.
    rewrite (forall2b_refl opt_equal), (forall2b_refl param_equal); auto.
    + eapply Forall_impl; [|exact H0]. intros x Hx. unfold param_equal. rewrite eqb_reflx, Hx. reflexivity.
    + eapply Forall_impl; [|exact H]. intros [x|] Hx; simpl; auto.
  - destruct b; simpl; auto.
Qed.

Lemma opt_equal_sym_of x : Popt (fun a => forall b, ty_equal E a b = ty_equal E b a) x ->
  forall y, opt_equal x y = opt_equal y x.
Proof. destruct x, y; simpl; auto. Qed.

Lemma ty_equal_sym a : forall b, ty_equal E a b = ty_equal E b a.
Proof.
  induction a using ty_ind'; intros b'; destruct b'; try reflexivity;
    try (solve [repeat match goal with o : option ty |- _ => destruct o end; reflexivity]).
  - simpl. unfold prim_eqb.
    destruct (prim_beq p p0) eqn:H1, (prim_beq p0 p) eqn:H2; auto.
    + apply internal_prim_dec_bl in H1. subst. rewrite (internal_prim_dec_lb p0 p0 eq_refl) in H2. discriminate.
    + apply internal_prim_dec_bl in H2. subst. rewrite (internal_prim_dec_lb p p eq_refl) in H1. discriminate.
  - simpl. apply IHa.
  - simpl. apply IHa.
  - simpl. rewrite IHa, Z.eqb_sym. reflexivity.
  - simpl. rewrite IHa1, IHa2. reflexivity.
  - simpl. rewrite IHa, auth_equal_sym. reflexivity.
  - simpl. apply zset_eqb_sym.
  - simpl. apply Z.eqb_sym.
  - simpl. apply Z.eqb_sym.
  - destruct b, b0; simpl; auto.
  - rewrite !ty_equal_fun.
    rewrite (beqb_sym v view), (Nat.eqb_sym (length ps)), (arity_eqb_sym ar), (beqb_sym c ctor), IHa.
    rewrite (forall2b_sym opt_equal tps tparams), (forall2b_sym param_equal ps params); auto.
    + eapply Forall_impl; [|exact H0]. intros x Hx y. unfold param_equal. rewrite Hx, beqb_sym. reflexivity.
    + eapply Forall_impl; [|exact H]. intros x Hx. apply opt_equal_sym_of. exact Hx.
  - destruct b, m; simpl; auto.
Qed.

Lemma ty_equal_trans a : forall b c, ty_equal E a b = true -> ty_equal E b c = true -> ty_equal E a c = true.
Proof.
  induction a using ty_ind'; intros b' c'; destruct b'; try (simpl; discriminate);
    try (destruct b; simpl; discriminate); destruct c'; try (simpl; discriminate);
    try (destruct b; simpl; discriminate); try (destruct b0; simpl; discriminate); try (destruct m; simpl; discriminate).
  - simpl. rewrite !prim_eqb_eq. congruence.
  - simpl. apply IHa.
  - simpl. apply IHa.
  - simpl. rewrite !andb_true_iff, !Z.eqb_eq. intros [H1 ->] [H2 ->]. split; eauto.
  - simpl. rewrite !andb_true_iff. intros [H1 H2] [H3 H4]. split; eauto.
  - simpl. rewrite !andb_true_iff. intros [H1 H2] [H3 H4]. split; eauto using auth_equal_trans.
  - simpl. apply zset_eqb_trans.
  - simpl. rewrite !Z.eqb_eq. congruence.
  - simpl. rewrite !Z.eqb_eq. congruence.
  - destruct b, b0, b1; simpl; try discriminate; auto. apply H.
  - rewrite !ty_equal_fun. rewrite !andb_true_iff.
    intros [[[[[[H1 H2] H3] H4] H5] H6] H7] [[[[[[G1 G2] G3] G4] G5] G6] G7].
    apply eqb_prop in H1, G1, H6, G6. apply Nat.eqb_eq in H3, G3. subst.
    repeat split; auto using eqb_reflx.
    + eapply (forall2b_trans opt_equal); [|exact H2|exact G2].
      eapply Forall_impl; [|exact H]. intros [x|] Hx [y|] [z|]; simpl; try discriminate; auto. apply Hx.
    + apply Nat.eqb_eq. congruence.
    + eapply arity_eqb_trans; eauto.
    + eapply (forall2b_trans param_equal); [|exact H5|exact G5].
      eapply Forall_impl; [|exact H0]. intros x Hx y z. unfold param_equal. rewrite !andb_true_iff.
      intros [E1 E2] [E3 E4]. apply eqb_prop in E1, E3. split; [rewrite E1, E3; apply eqb_reflx | eauto].
    + eauto.
  - destruct b, m, m0; simpl; try discriminate; auto. apply H.
Qed.

End Equal.
