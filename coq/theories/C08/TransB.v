(* C08 — transitivity, part B: inversion and introduction lemmas per supertype kind. *)
From Coq Require Import ZArith List Bool Lia Arith.
From CV Require Import Base.Prelude C08.Model Gen.GenC08Subtype C08.Spec C08.Refine C08.Subtype
  C08.Basics C08.EqualProofs C08.Fuel C08.Laws C08.Wf C08.TransA.
Import ListNotations.
Open Scope Z_scope.

Ltac kill H := try discriminate H;
  try (solve [repeat match goal with o : option ty |- _ => destruct o end; discriminate H]).

Section TransB.
Variable E : denv.
Notation R := (is_subtype E).
Notation Never := (TPrim PNever).

(* a <: b, split into: a is Never, a Equal b, or the rule for b accepts a (a not Never) *)
Lemma sub_cases a b : R a b = true ->
  a = Never \/ ty_equal E a b = true \/ (ty_is_prim a PNever = false /\ spec_step E R a b = true).
Proof.
  rewrite is_subtype_unfold, orb_true_iff. intros [H|H]; [tauto|].
  destruct (ty_is_prim a PNever) eqn:Hn.
  - left. apply ty_is_prim_eq. exact Hn.
  - right. right. tauto.
Qed.

Lemma sub_intro_rule a b : spec_step E R a b = true -> R a b = true.
Proof. intros H. rewrite is_subtype_unfold, H. apply orb_true_r. Qed.

Lemma spec_step_not_never a b : ty_is_prim a PNever = false ->
  spec_step E R a b = match b with
    | TPrim q => spec_prim E R a q
    | TOptional u => match a with TOptional t => R t u | _ => R a u end
    | TDict k v => match a with TDict k' v' => R v' v && R k' k | _ => false end
    | TVarArray u => match a with TVarArray t => R t u | _ => false end
    | TConstArray u n => match a with TConstArray t m => Z.eqb n m && R t u | _ => false end
    | TRef ab u => match a with TRef aa t => permits ab aa && R t u | _ => false end
    | TComposite _ => match a with TIntersection (Some ((TComposite _) as l)) _ => ty_equal E l b | _ => false end
    | TInterface i =>
        match a with
        | TComposite c => ckind_eqb (comp_kind E c) (iface_kind E i) && zmem i (comp_conf E c)
        | TIntersection _ ia => zmem i (eff_inter_set E ia)
        | TInterface j => zmem i (iface_conf E j)
        | _ => false
        end
    | TIntersection lb _ => spec_intersection E R a b lb
    | TFunction _ _ _ _ _ _ => spec_function E R a b
    | TCapability _ | TRange _ => match a with TCapability _ | TRange _ => spec_parameterized R a b | _ => false end
    end.
Proof. intros H. unfold spec_step. rewrite H. reflexivity. Qed.

(* ---------------------------------------------------------------- optional *)
Lemma inv_opt a u : R a (TOptional u) = true ->
  a = Never \/ (exists t, a = TOptional t /\ R t u = true) \/ ((forall t, a <> TOptional t) /\ R a u = true).
Proof.
  intros H. destruct (sub_cases _ _ H) as [H1|[H1|[Hn H1]]]; [tauto| |].
  - right. left. destruct a; simpl in H1; kill H1. eexists. split; [reflexivity|]. apply equal_is_subtype. exact H1.
  - right. rewrite spec_step_not_never in H1 by exact Hn. destruct a; try (right; split; [discriminate | exact H1]).
    left. eexists. split; [reflexivity | exact H1].
Qed.

Lemma intro_opt_opt t u : R t u = true -> R (TOptional t) (TOptional u) = true.
Proof. intros H. apply sub_intro_rule. unfold spec_step. simpl. exact H. Qed.

Lemma intro_opt a u : (forall t, a <> TOptional t) -> R a u = true -> R a (TOptional u) = true.
Proof.
  intros Hno H. apply sub_intro_rule. unfold spec_step. destruct (ty_is_prim a PNever); [reflexivity|].
  destruct a; try exact H. exfalso. eapply Hno. reflexivity.
Qed.

(* ---------------------------------------------------------------- arrays, dictionaries *)
Lemma inv_var a u : R a (TVarArray u) = true -> a = Never \/ exists t, a = TVarArray t /\ R t u = true.
Proof.
  intros H. destruct (sub_cases _ _ H) as [H1|[H1|[Hn H1]]]; [tauto| |]; right.
  - destruct a; simpl in H1; kill H1. eexists. split; [reflexivity|]. apply equal_is_subtype. exact H1.
  - rewrite spec_step_not_never in H1 by exact Hn. destruct a; try discriminate. eexists. split; [reflexivity | exact H1].
Qed.

Lemma intro_var t u : R t u = true -> R (TVarArray t) (TVarArray u) = true.
Proof. intros H. apply sub_intro_rule. unfold spec_step. simpl. exact H. Qed.

Lemma inv_const a u n : R a (TConstArray u n) = true -> a = Never \/ exists t, a = TConstArray t n /\ R t u = true.
Proof.
  intros H. destruct (sub_cases _ _ H) as [H1|[H1|[Hn H1]]]; [tauto| |]; right.
  - destruct a; simpl in H1; kill H1. apply andb_true_iff in H1. destruct H1 as [H1 H2].
    apply Z.eqb_eq in H2. subst. eexists. split; [reflexivity|]. apply equal_is_subtype. exact H1.
  - rewrite spec_step_not_never in H1 by exact Hn. destruct a; try discriminate.
    apply andb_true_iff in H1. destruct H1 as [H1 H2]. apply Z.eqb_eq in H1. subst.
    eexists. split; [reflexivity | exact H2].
Qed.

Lemma intro_const t u n : R t u = true -> R (TConstArray t n) (TConstArray u n) = true.
Proof. intros H. apply sub_intro_rule. unfold spec_step. simpl. rewrite Z.eqb_refl. exact H. Qed.

Lemma inv_dict a k v : R a (TDict k v) = true ->
  a = Never \/ exists k' v', a = TDict k' v' /\ R k' k = true /\ R v' v = true.
Proof.
  intros H. destruct (sub_cases _ _ H) as [H1|[H1|[Hn H1]]]; [tauto| |]; right.
  - destruct a; simpl in H1; kill H1. apply andb_true_iff in H1. destruct H1 as [H1 H2].
    do 2 eexists. split; [reflexivity|]. split; apply equal_is_subtype; assumption.
  - rewrite spec_step_not_never in H1 by exact Hn. destruct a; try discriminate.
    apply andb_true_iff in H1. destruct H1 as [H1 H2]. do 2 eexists. split; [reflexivity|]. tauto.
Qed.

Lemma intro_dict k' v' k v : R k' k = true -> R v' v = true -> R (TDict k' v') (TDict k v) = true.
Proof. intros H1 H2. apply sub_intro_rule. unfold spec_step. simpl. rewrite H1, H2. reflexivity. Qed.

(* ---------------------------------------------------------------- references *)
Lemma inv_ref a ac w : R a (TRef ac w) = true ->
  a = Never \/ exists aa t, a = TRef aa t /\
     ((auth_equal aa ac = true /\ ty_equal E t w = true) \/ (permits ac aa = true /\ R t w = true)).
Proof.
  intros H. destruct (sub_cases _ _ H) as [H1|[H1|[Hn H1]]]; [tauto| |]; right.
  - destruct a; simpl in H1; kill H1. apply andb_true_iff in H1.
    do 2 eexists. split; [reflexivity|]. left. exact H1.
  - rewrite spec_step_not_never in H1 by exact Hn. destruct a; try discriminate.
    apply andb_true_iff in H1. do 2 eexists. split; [reflexivity|]. right. exact H1.
Qed.

Lemma intro_ref_equal aa t ac w : auth_equal aa ac = true -> ty_equal E t w = true -> R (TRef aa t) (TRef ac w) = true.
Proof. intros H1 H2. apply equal_is_subtype. simpl. rewrite H1, H2. reflexivity. Qed.

Lemma intro_ref aa t ac w : permits ac aa = true -> R t w = true -> R (TRef aa t) (TRef ac w) = true.
Proof. intros H1 H2. apply sub_intro_rule. unfold spec_step. simpl. rewrite H1, H2. reflexivity. Qed.

(* equal authorizations are interchangeable on either side of PermitsAccess *)
Lemma permits_equal_sub c a b : auth_equal a b = true -> permits c b = true -> permits c a = true.
Proof.
  intros He Hp. destruct a as [|ea|ea|ma]; destruct b as [|eb|eb|mb]; cbn [auth_equal] in He; try discriminate He.
  - exact Hp.
  - apply andb_true_iff in He. destruct He. eapply permits_trans; eauto.
  - apply andb_true_iff in He. destruct He. eapply permits_trans; eauto.
  - destruct c; simpl in *; auto; discriminate.
Qed.

Lemma permits_equal_super c b a : auth_equal b c = true -> permits b a = true -> permits c a = true.
Proof.
  intros He Hp. destruct b as [|eb|eb|mb]; destruct c as [|ec|ec|mc]; cbn [auth_equal] in He; try discriminate He.
  - reflexivity.
  - apply andb_true_iff in He. destruct He. eapply permits_trans; eauto.
  - apply andb_true_iff in He. destruct He. eapply permits_trans; eauto.
  - simpl in Hp. discriminate Hp.
Qed.

(* ---------------------------------------------------------------- capabilities and ranges *)
Lemma inv_cap a oc : R a (TCapability oc) = true ->
  a = Never \/ exists oa, a = TCapability oa /\
    (oc = None \/ exists x w, oa = Some x /\ oc = Some w /\ R x w = true).
Proof.
  intros H. destruct (sub_cases _ _ H) as [H1|[H1|[Hn H1]]]; [tauto| |]; right.
  - destruct a; simpl in H1; kill H1. eexists. split; [reflexivity|].
    destruct b as [x|], oc as [w|]; try discriminate; [right|left; reflexivity].
    do 2 eexists. repeat split. apply equal_is_subtype. exact H1.
  - rewrite spec_step_not_never in H1 by exact Hn.
    destruct a as [ | | | | | | | | |oa| |oa]; try discriminate; unfold spec_parameterized in H1.
    + eexists. split; [reflexivity|]. destruct oa as [x|]; cbn [param_base_type] in H1; [|discriminate].
      destruct oc as [w|]; [right|left; reflexivity].
      cbn [param_base_type param_type_args forall2b length] in H1.
      rewrite !andb_true_iff in H1. do 2 eexists. repeat split. tauto.
    + destruct oa as [x|]; cbn [param_base_type] in H1; [|discriminate]. destruct oc as [w|]; cbn [param_base_type] in H1.
      * rewrite andb_true_iff in H1. destruct H1 as [H1 _].
        rewrite is_subtype_unfold in H1. simpl in H1. discriminate.
      * rewrite is_subtype_unfold in H1. simpl in H1. discriminate.
Qed.

Lemma intro_cap_none oa : R (TCapability oa) (TCapability None) = true.
Proof.
  destruct oa as [x|]; [|apply is_subtype_refl].
  apply sub_intro_rule. rewrite spec_step_not_never by reflexivity. unfold spec_parameterized.
  cbn [param_base_type]. apply is_subtype_refl.
Qed.

Lemma intro_cap x w : R x w = true -> R (TCapability (Some x)) (TCapability (Some w)) = true.
Proof.
  intros H. apply sub_intro_rule. rewrite spec_step_not_never by reflexivity. unfold spec_parameterized.
  cbn [param_base_type param_type_args forall2b length Nat.eqb].
  rewrite is_subtype_refl, H. reflexivity.
Qed.

Lemma inv_range a oc : R a (TRange oc) = true ->
  a = Never \/ exists oa, a = TRange oa /\
    (oc = None \/ exists x w, oa = Some x /\ oc = Some w /\ R x w = true).
Proof.
  intros H. destruct (sub_cases _ _ H) as [H1|[H1|[Hn H1]]]; [tauto| |]; right.
  - destruct a; simpl in H1; kill H1. eexists. split; [reflexivity|].
    destruct m as [x|], oc as [w|]; try discriminate; [right|left; reflexivity].
    do 2 eexists. repeat split. apply equal_is_subtype. exact H1.
  - rewrite spec_step_not_never in H1 by exact Hn.
    destruct a as [ | | | | | | | | |oa| |oa]; try discriminate; unfold spec_parameterized in H1.
    + destruct oa as [x|]; cbn [param_base_type] in H1; [|discriminate]. destruct oc as [w|]; cbn [param_base_type] in H1.
      * rewrite andb_true_iff in H1. destruct H1 as [H1 _].
        rewrite is_subtype_unfold in H1. simpl in H1. discriminate.
      * rewrite is_subtype_unfold in H1. simpl in H1. discriminate.
    + eexists. split; [reflexivity|]. destruct oa as [x|]; cbn [param_base_type] in H1; [|discriminate].
      destruct oc as [w|]; [right|left; reflexivity].
      cbn [param_base_type param_type_args forall2b length] in H1.
      rewrite !andb_true_iff in H1. do 2 eexists. repeat split. tauto.
Qed.

Lemma intro_range_none oa : R (TRange oa) (TRange None) = true.
Proof.
  destruct oa as [x|]; [|apply is_subtype_refl].
  apply sub_intro_rule. rewrite spec_step_not_never by reflexivity. unfold spec_parameterized.
  cbn [param_base_type]. apply is_subtype_refl.
Qed.

Lemma intro_range x w : R x w = true -> R (TRange (Some x)) (TRange (Some w)) = true.
Proof.
  intros H. apply sub_intro_rule. rewrite spec_step_not_never by reflexivity. unfold spec_parameterized.
  cbn [param_base_type param_type_args forall2b length Nat.eqb].
  rewrite is_subtype_refl, H. reflexivity.
Qed.

End TransB.
