(* C08 — the full-strength transitivity statement and concrete counterexamples (each is replayed
   on the real sema.IsSubType by the harness on every run). *)
From Coq Require Import ZArith List Bool.
From CV Require Import Base.Prelude C08.Model C08.Subtype C08.Wf.
Import ListNotations.
Open Scope Z_scope.

(* the property as stated: the relation is transitive on all types *)
Definition trans_statement (E : denv) : Prop :=
  forall a b c, is_subtype E a b = true -> is_subtype E b c = true -> is_subtype E a c = true.

(* a small well-formed environment: resource R (0) conforming to resource interface RI (0),
   struct S (1) conforming to struct interface SI (1), String conforming to SI (like the built-in
   StructStringer) *)
Definition demo_env : denv := {|
  comp_dom := [0; 1];
  iface_dom := [0; 1];
  comp_kind := fun c => if c =? 0 then CKResource else CKStruct;
  comp_resource := fun c => c =? 0;
  comp_conf := fun c => if c =? 0 then [0] else [1];
  iface_kind := fun i => if i =? 0 then CKResource else CKStruct;
  iface_conf := fun _ => [];
  prim_conf := fun p => match p with PString => [1] | _ => [] end
|}.

Definition not_trans (E : denv) (a b c : ty) : bool :=
  is_subtype E a b && is_subtype E b c && negb (is_subtype E a c).

(* 1. [Never] <: [R] <: AnyResource but not [Never] <: AnyResource: the rules for AnyResource /
      AnyStruct ask IsResourceType(sub), which answers false for containers of Never, while
      covariance makes such containers subtypes of resource containers *)
Definition witness_never : ty * ty * ty :=
  (TVarArray (TPrim PNever), TVarArray (TComposite 0), TPrim PAnyResource).
(* 2. R <: Any? <: AnyStruct but not R <: AnyStruct: Any? is accepted below AnyStruct because
      IsResourceType(Any?) is false and Any? is not Any itself *)
Definition witness_any : ty * ty * ty :=
  (TComposite 0, TOptional (TPrim PAny), TPrim PAnyStruct).
(* 3. String <: {SI} <: SI but not String <: SI: the rule for an interface supertype accepts only
      composites, intersections and interfaces, not built-in conforming types *)
Definition witness_bare_interface : ty * ty * ty :=
  (TPrim PString, TIntersection None [1], TInterface 1).
(* 4. {SI} <: S{SI} <: S but not {SI} <: S: Equal on intersections ignores the legacy type *)
Definition witness_legacy : ty * ty * ty :=
  (TIntersection None [1], TIntersection (Some (TComposite 1)) [1], TComposite 1).

Definition witnesses := [witness_never; witness_any; witness_bare_interface; witness_legacy].

Lemma witnesses_not_trans :
  forallb (fun w => let '(a, b, c) := w in not_trans demo_env a b c) witnesses = true.
Proof. vm_compute. reflexivity. Qed.

Theorem trans_refuted : wf_env_b demo_env = true /\ ~ trans_statement demo_env.
Proof.
  split; [vm_compute; reflexivity|].
  intros H. specialize (H (TVarArray (TPrim PNever)) (TVarArray (TComposite 0)) (TPrim PAnyResource)).
  assert (is_subtype demo_env (TVarArray (TPrim PNever)) (TPrim PAnyResource) = true) as C.
  { apply H; vm_compute; reflexivity. }
  vm_compute in C. discriminate.
Qed.
