(* C08 — transitivity, part C: facts that need the guard [plain] and well-formedness: Equal and
   subtyping preserve resource-ness, what lies above Any and above optionals, intersections,
   functions. *)
From Coq Require Import ZArith List Bool Lia Arith.
From CV Require Import Base.Prelude C08.Model Gen.GenC08Subtype C08.Spec C08.Refine C08.Subtype
  C08.Basics C08.EqualProofs C08.Fuel C08.Laws C08.Wf C08.TransA C08.TransB.
Import ListNotations.
Open Scope Z_scope.

Section TransC.
Variable E : denv.
Hypothesis Hwf : wf_env_b E = true.
Notation R := (is_subtype E).
Notation Never := (TPrim PNever).
Notation Any := (TPrim PAny).

Definition wfp := wf_parts E Hwf.

(* ---------------------------------------------------------------- plain, unfolded *)
Definition plain_opt (o : option ty) : bool := match o with Some y => plain E y | None => true end.

Lemma plain_fun v tps ps r ar c :
  plain E (TFunction v tps ps r ar c) = forallb plain_opt tps && forallb (plain E) ps && plain E r.
Proof.
  cbn [plain].
  match goal with |- ?a && ?b && _ = ?a' && ?b' && _ =>
    assert (Ha : a = a'); [ | assert (Hb : b = b'); [ | rewrite Ha, Hb; reflexivity ] ] end.
  - induction tps as [|x xs IH]; cbn; [reflexivity|]. rewrite IH. reflexivity.
  - induction ps as [|x xs IH]; cbn; [reflexivity|]. rewrite IH. reflexivity.
Qed.

Lemma elem_ok_spec t : elem_ok t = true -> t <> Never /\ t <> Any.
Proof.
  unfold elem_ok. rewrite andb_true_iff, !negb_true_iff. intros [H1 H2]. split; intros ->; simpl in *; discriminate.
Qed.

Lemma plain_inter l ifaces : plain E (TIntersection l ifaces) = true ->
  l = None /\ exists i rest, ifaces = i :: rest /\
    forall j, In j ifaces -> In j (iface_dom E) /\ iface_kind E j = iface_kind E i.
Proof.
  cbn [plain]. rewrite andb_true_iff. intros [H1 H2]. split; [destruct l; [discriminate|reflexivity]|].
  destruct ifaces as [|i rest]; [discriminate|]. exists i, rest. split; [reflexivity|].
  rewrite forallb_forall in H2. intros j Hj. specialize (H2 j Hj). rewrite andb_true_iff in H2.
  split; [apply zmem_In; tauto | apply ckind_eqb_eq; tauto].
Qed.

(* every member of the effective set of a plain intersection has the kind of its first interface *)
Lemma eff_kind i rest x :
  plain E (TIntersection None (i :: rest)) = true -> In x (eff_inter_set E (i :: rest)) -> iface_kind E x = iface_kind E i.
Proof.
  intros Hp Hx. destruct (plain_inter _ _ Hp) as [_ [i' [rest' [Heq Hall]]]]. inversion Heq; subst i' rest'.
  unfold eff_inter_set in Hx. apply in_flat_map in Hx. destruct Hx as [j [Hj Hx]].
  destruct (Hall j Hj) as [Hd Hk]. destruct Hx as [->|Hx]; [exact Hk|].
  destruct wfp as [_ [W2 _]]. destruct (W2 j Hd x Hx) as [_ Hk2]. congruence.
Qed.

Lemma eff_head i rest : In i (eff_inter_set E (i :: rest)).
Proof. unfold eff_inter_set. simpl. left. reflexivity. Qed.

Lemma res_inter i rest l : is_resource E (TIntersection l (i :: rest)) = is_res_kind E i.
Proof. reflexivity. Qed.

(* ---------------------------------------------------------------- Equal preserves resource-ness *)
Lemma equal_res a : forall b, plain E a = true -> plain E b = true -> ty_equal E a b = true ->
  is_resource E a = is_resource E b.
Proof.
  induction a using ty_ind'; intros b' Ha Hb He; destruct b'; simpl in He; kill He; try reflexivity.
  - apply prim_eqb_eq in He. subst. reflexivity.
  - cbn [plain] in Ha, Hb. rewrite andb_true_iff in Ha, Hb. simpl. apply IHa; tauto.
  - cbn [plain] in Ha, Hb. rewrite andb_true_iff in Ha, Hb. simpl. apply IHa; tauto.
  - cbn [plain] in Ha, Hb. rewrite andb_true_iff in Ha, Hb, He. simpl. apply IHa; tauto.
  - cbn [plain] in Ha, Hb. rewrite !andb_true_iff in Ha, Hb. rewrite andb_true_iff in He. simpl. f_equal; [apply IHa1|apply IHa2]; intuition.
  - destruct (plain_inter _ _ Ha) as [-> [i [ri [-> _]]]]. destruct (plain_inter _ _ Hb) as [-> [j [rj [-> _]]]].
    rewrite !res_inter. unfold is_res_kind. f_equal.
    unfold zset_eqb in He. rewrite andb_true_iff in He. destruct He as [He _].
    rewrite zsubset_spec in He. specialize (He i (eff_head i ri)).
    eapply eff_kind; eauto.
  - apply Z.eqb_eq in He. subst. reflexivity.
  - discriminate Ha.
Qed.

(* ---------------------------------------------------------------- hashable types are structs *)
Lemma hashable_not_resource a : plain E a = true -> is_hashable_struct E R a = true -> is_resource E a = false.
Proof.
  intros Hp Hh. unfold is_hashable_struct in Hh.
  assert (Hnp : R a (TPrim PNumber) || R a (TPrim PPath) = true -> is_resource E a = false).
  { intros H. apply orb_true_iff in H. destruct H as [H|H].
    - destruct (down_hier E PNumber a eq_refl H) as [p ->]. destruct (prim_fact E p _ H) as [[->|[F|F]] _]; [reflexivity|discriminate|exact F].
    - destruct (down_hier E PPath a eq_refl H) as [p ->]. destruct (prim_fact E p _ H) as [[->|[F|F]] _]; [reflexivity|discriminate|exact F]. }
  destruct a as [p| | | | | | |c| | | | ]; try (apply Hnp; exact Hh).
  - destruct p; try reflexivity; try (apply Hnp; exact Hh).
  - apply ckind_eqb_eq in Hh. cbn [plain] in Hp. apply zmem_In in Hp.
    destruct wfp as [W1 _]. destruct (W1 c Hp) as [_ W]. simpl. apply W. exact Hh.
Qed.

(* ---------------------------------------------------------------- intersections *)
Definition subs_set (a : ty) : option (list Z) :=
  match a with
  | TIntersection _ ia => Some (eff_inter_set E ia)
  | _ => conf_set E a
  end.

Lemma inv_inter a ic : plain E a = true -> R a (TIntersection None ic) = true ->
  a = Never \/ (is_any_kind a = false /\ exists S, subs_set a = Some S /\ zsubset (eff_inter_set E ic) S = true).
Proof.
  intros Hp H. destruct (sub_cases E _ _ H) as [H1|[H1|[Hn H1]]]; [tauto| |]; right.
  - destruct a; simpl in H1; kill H1. split; [reflexivity|]. eexists. split; [reflexivity|].
    unfold zset_eqb in H1. rewrite andb_true_iff in H1. tauto.
  - rewrite spec_step_not_never in H1 by exact Hn. unfold spec_intersection in H1.
    destruct (is_any_kind a) eqn:Hk; [discriminate|]. split; [reflexivity|].
    cbn [legacy_open] in H1.
    destruct a as [p| | | | | |la ia|c|i| | | ]; try discriminate.
    + rewrite andb_true_iff in H1. destruct H1 as [_ H1]. simpl in H1. eexists. split; [reflexivity | exact H1].
    + destruct (plain_inter _ _ Hp) as [-> _]. simpl in H1. eexists. split; [reflexivity | exact H1].
    + rewrite andb_true_iff in H1. destruct H1 as [_ H1]. simpl in H1. eexists. split; [reflexivity | exact H1].
Qed.

Lemma intro_inter a ic S :
  plain E a = true -> a <> Never -> is_any_kind a = false -> subs_set a = Some S ->
  zsubset (eff_inter_set E ic) S = true -> R a (TIntersection None ic) = true.
Proof.
  intros Hp Hn Hk HS Hsub. apply sub_intro_rule. unfold spec_step.
  destruct (ty_is_prim a PNever) eqn:Hnv; [reflexivity|].
  unfold spec_intersection. rewrite Hk. cbn [legacy_open].
  destruct a as [p| | | | | |la ia|c|i| | | ]; simpl in HS; try discriminate HS.
  - inversion HS; subst. unfold legacy_ok. simpl. exact Hsub.
  - destruct (plain_inter _ _ Hp) as [-> _]. inversion HS; subst. simpl. exact Hsub.
  - inversion HS; subst. unfold legacy_ok. simpl. exact Hsub.
  - discriminate Hp.
Qed.

(* resource-ness of a plain type in terms of its interface set *)
Lemma subs_set_res a S i : plain E a = true -> is_any_kind a = false -> subs_set a = Some S -> In i S ->
  is_resource E a = is_res_kind E i.
Proof.
  intros Hp Hk HS Hi. destruct a as [p| | | | | |la ia|c|j| | | ]; simpl in HS; try discriminate HS; inversion HS; subst.
  - destruct wfp as [_ [_ [W3 _]]]. destruct (W3 p i Hi) as [_ [W W']]. rewrite W, W'. reflexivity.
  - destruct (plain_inter _ _ Hp) as [-> [i0 [rest [-> _]]]]. rewrite res_inter. unfold is_res_kind.
    rewrite (eff_kind i0 rest i Hp Hi). reflexivity.
  - cbn [plain] in Hp. apply zmem_In in Hp. destruct wfp as [W1 _]. destruct (W1 c Hp) as [W _].
    destruct (W i Hi) as [_ W']. simpl. symmetry. exact W'.
  - discriminate Hp.
Qed.

(* ---------------------------------------------------------------- composites *)
Lemma inv_comp a c : plain E a = true -> R a (TComposite c) = true -> a = Never \/ a = TComposite c.
Proof.
  intros Hp H. destruct (sub_cases E _ _ H) as [H1|[H1|[Hn H1]]]; [tauto| |]; right.
  - destruct a; simpl in H1; kill H1. apply Z.eqb_eq in H1. subst. reflexivity.
  - rewrite spec_step_not_never in H1 by exact Hn. destruct a; try discriminate.
    destruct (plain_inter _ _ Hp) as [-> _]. discriminate.
Qed.

(* ---------------------------------------------------------------- what is above Any, above an optional *)
Lemma up_any b : plain E b = true -> R Any b = true -> b = Any.
Proof.
  induction b using ty_ind'; intros Hp HR; destruct (sub_cases E _ _ HR) as [H1|[H1|[Hn H1]]]; try discriminate H1;
    try (simpl in H1; kill H1); try (rewrite spec_step_not_never in H1 by exact Hn; try discriminate H1).
  - destruct p; try discriminate H1. reflexivity.
  - destruct (prim_fact E PAny p HR) as [_ [_ [F _]]]. rewrite F; reflexivity.
  - cbn [plain] in Hp. rewrite andb_true_iff in Hp. destruct Hp as [Hp1 Hp2].
    rewrite (IHb Hp2 H1) in Hp1. discriminate Hp1.
Qed.

Lemma up_opt t b : (forall u, b <> TOptional u) -> R (TOptional t) b = true ->
  exists q, b = TPrim q /\ any_kind_prim q = true.
Proof.
  intros Hno H. destruct (sub_cases E _ _ H) as [H1|[H1|[Hn H1]]]; [discriminate H1| |].
  - destruct b; simpl in H1; kill H1. exfalso. eapply Hno. reflexivity.
  - rewrite spec_step_not_never in H1 by exact Hn.
    destruct b as [q| | | | | |lb ib| | | | | ]; try discriminate H1.
    + exists q. split; [reflexivity|].
      assert (F : forall q', special q' = false -> R (TOptional t) (TPrim q') = false).
      { intros q' Hq'. apply (down_hier_aux E _ q' (le_n _) Hq'). reflexivity. }
      destruct q; try reflexivity; exfalso; cbn [spec_prim is_attachment andb prim_in is_hashable_struct] in H1;
        try discriminate H1; rewrite ?F in H1 by reflexivity; discriminate H1.
    + exfalso. eapply Hno. reflexivity.
    + unfold spec_intersection in H1. cbn in H1. destruct (legacy_open lb); discriminate H1.
Qed.

(* ---------------------------------------------------------------- subtyping preserves resource-ness *)
Lemma kind_preserved : forall n a b, (ty_size a + ty_size b <= n)%nat ->
  plain E a = true -> plain E b = true -> R a b = true -> a <> Never -> b <> Any ->
  is_resource E a = is_resource E b.
Proof.
  induction n as [|n IH]; intros a b Hs Ha Hb H Hna Hnb.
  { pose proof (ty_size_pos a). lia. }
  destruct (sub_cases E _ _ H) as [H1|[H1|[Hn H1]]]; [contradiction | apply equal_res; assumption |].
  rewrite spec_step_not_never in H1 by exact Hn.
  destruct b as [q|u|u|u m|k v|ab u|lb ib|c|i|ob| |ob].
  - (* primitive supertype *)
    destruct (special q) eqn:Hsp.
    + destruct q; try discriminate Hsp; cbn [spec_prim] in H1.
      * contradiction Hnb. reflexivity.
      * rewrite andb_true_iff, !negb_true_iff in H1. simpl. tauto.
      * simpl. exact H1.
      * rewrite andb_true_iff in H1. simpl. tauto.
      * rewrite andb_true_iff, negb_true_iff in H1. simpl. tauto.
      * simpl. apply hashable_not_resource; assumption.
    + destruct (down_hier E q a Hsp H) as [p ->].
      destruct (prim_fact E p q H) as [[->|[->|F]] _]; [contradiction Hna; reflexivity | contradiction Hnb; reflexivity | exact F].
  - (* optional *)
    cbn [plain] in Hb. rewrite andb_true_iff in Hb. destruct Hb as [Hu1 Hu2]. destruct (elem_ok_spec _ Hu1) as [_ HuA].
    change (ty_size (TOptional u)) with (S (ty_size u)) in Hs.
    change (is_resource E (TOptional u)) with (is_resource E u).
    destruct a as [ |t| | | | | | | | | | ];
      try (apply (IH _ u); [lia | assumption | assumption | exact H1 | assumption | assumption]).
    cbn [plain] in Ha. rewrite andb_true_iff in Ha. destruct Ha as [Ht1 Ht2]. destruct (elem_ok_spec _ Ht1) as [HtN _].
    change (ty_size (TOptional t)) with (S (ty_size t)) in Hs.
    change (is_resource E (TOptional t)) with (is_resource E t).
    apply (IH t u); try assumption. lia.
  - destruct a as [ | |t| | | | | | | | | ]; try discriminate H1.
    cbn [plain] in Ha, Hb. rewrite andb_true_iff in Ha, Hb. destruct Ha as [Ht1 Ht2], Hb as [Hu1 Hu2].
    destruct (elem_ok_spec _ Ht1) as [HtN _]. destruct (elem_ok_spec _ Hu1) as [_ HuA].
    simpl. apply (IH t u); try assumption. simpl in Hs. lia.
  - destruct a as [ | | |t m'| | | | | | | | ]; try discriminate H1. rewrite andb_true_iff in H1. destruct H1 as [_ H1].
    cbn [plain] in Ha, Hb. rewrite andb_true_iff in Ha, Hb. destruct Ha as [Ht1 Ht2], Hb as [Hu1 Hu2].
    destruct (elem_ok_spec _ Ht1) as [HtN _]. destruct (elem_ok_spec _ Hu1) as [_ HuA].
    simpl. apply (IH t u); try assumption. simpl in Hs. lia.
  - destruct a as [ | | | |k' v'| | | | | | | ]; try discriminate H1. rewrite andb_true_iff in H1. destruct H1 as [Hv Hk].
    cbn [plain] in Ha, Hb. rewrite !andb_true_iff in Ha, Hb.
    destruct Ha as [[[Hk1 Hk2] Hv1] Hv2], Hb as [[[Gk1 Gk2] Gv1] Gv2].
    destruct (elem_ok_spec _ Hk1) as [HkN _]. destruct (elem_ok_spec _ Hv1) as [HvN _].
    destruct (elem_ok_spec _ Gk1) as [_ GkA]. destruct (elem_ok_spec _ Gv1) as [_ GvA].
    simpl. f_equal; [apply (IH k' k) | apply (IH v' v)]; try assumption; simpl in Hs; lia.
  - destruct a; try discriminate H1. reflexivity.
  - (* intersection *)
    destruct (plain_inter _ _ Hb) as [-> [i0 [rest [-> _]]]].
    destruct (inv_inter a (i0 :: rest) Ha H) as [->|[Hk [S [HS Hsub]]]]; [contradiction Hna; reflexivity|].
    rewrite zsubset_spec in Hsub. specialize (Hsub i0 (eff_head i0 rest)).
    rewrite (subs_set_res a S i0 Ha Hk HS Hsub). reflexivity.
  - destruct a; try discriminate H1. destruct (plain_inter _ _ Ha) as [-> _]. discriminate H1.
  - discriminate Hb.
  - destruct a; try discriminate H1; reflexivity.
  - destruct a; try discriminate H1; reflexivity.
  - destruct a; try discriminate H1; reflexivity.
Qed.

End TransC.
