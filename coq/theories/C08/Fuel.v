(* C08 — the fuel of the generated relation is adequate: with fuel = size of the two types the
   answer does not change when more fuel is given, and the relation satisfies its unfolding
   equation  is_subtype a b = Equal a b || rules(is_subtype)(a, b)  without any reference to fuel. *)
From Coq Require Import ZArith List Bool Lia Arith.
From CV Require Import Base.Prelude C08.Model Gen.GenC08Subtype C08.Spec C08.Refine C08.Subtype C08.Basics C08.EqualProofs.
Import ListNotations.
Open Scope Z_scope.

Section Fuel.
Variable E : denv.

Definition sub_n (n : nat) (x y : ty) : bool := ty_equal E x y || gen_check E n x y.

Lemma sub_n_refl n x : sub_n n x x = true.
Proof. unfold sub_n. rewrite ty_equal_refl. reflexivity. Qed.

Lemma sub_n_S n a b : sub_n (S n) a b = ty_equal E a b || spec_step E (sub_n n) a b.
Proof. unfold sub_n at 1. cbn [gen_check]. apply (gen_step_spec E (sub_n n) (sub_n_refl n)). Qed.

Definition agree_below (m : nat) (f g : ty -> ty -> bool) : Prop :=
  forall x y, (ty_size x + ty_size y < m)%nat -> f x y = g x y.

Lemma issub_opt_local f g m x y :
  agree_below m f g -> (opt_size x + opt_size y < m)%nat -> issub_opt f x y = issub_opt g x y.
Proof.
  intros H Hs. destruct x as [x|], y as [y|]; simpl in *; auto.
Qed.

(* every recursive use of the relation made by one application of the rules is on a pair of
   strictly smaller total size *)
Lemma spec_step_local f g a b :
  agree_below (ty_size a + ty_size b) f g -> spec_step E f a b = spec_step E g a b.
Proof.
  intros H. unfold spec_step. destruct (ty_is_prim a PNever); [reflexivity|].
  pose proof H as H'. unfold agree_below in H.
  destruct b as [q|u|u|u n|k v|ab u|lb ib|c|i|ob|vb tpb psb rb arb cb|ob].
  - (* primitive supertypes *)
    assert (Hq : forall q', (prim_rank q' < prim_rank q)%nat -> f a (TPrim q') = g a (TPrim q')).
    { intros q' Hlt. apply H. simpl. lia. }
    destruct q; simpl; try reflexivity;
      unfold is_hashable_struct; rewrite ?Hq by (simpl; lia); reflexivity.
  - destruct a; try (apply H; simpl; lia).
  - destruct a; try reflexivity. apply H; simpl; lia.
  - destruct a; try reflexivity. f_equal. apply H; simpl; lia.
  - destruct a; try reflexivity. f_equal; apply H; simpl; lia.
  - destruct a; try reflexivity. f_equal. apply H; simpl; lia.
  - (* intersection supertype *)
    unfold spec_intersection, legacy_ok.
    destruct (is_any_kind a); [reflexivity|].
    destruct (legacy_open lb).
    + destruct a as [p| | | | | |la ia|c|i| | | ]; try reflexivity.
      * rewrite (issub_opt_local f g _ (Some (TPrim p)) lb H'); [reflexivity|].
        destruct lb; simpl; lia.
      * destruct la as [l|]; [|reflexivity].
        destruct (is_any_kind l).
        -- rewrite (issub_opt_local f g _ (Some l) lb H'); [reflexivity|]. destruct lb; simpl; lia.
        -- destruct l; try reflexivity.
           rewrite (issub_opt_local f g _ (Some (TComposite c)) lb H'); [reflexivity|]. destruct lb; simpl; lia.
      * rewrite (issub_opt_local f g _ (Some (TComposite c)) lb H'); [reflexivity|]. destruct lb; simpl; lia.
      * rewrite (issub_opt_local f g _ (Some (TInterface i)) lb H'); [reflexivity|]. destruct lb; simpl; lia.
    + destruct a as [p| | | | | |la ia|c|i| | | ]; try reflexivity.
      apply (issub_opt_local f g _ (Some (TComposite c)) lb H'). destruct lb; simpl; lia.
  - reflexivity.
  - reflexivity.
  - (* capability *)
    destruct a as [ | | | | | | | | |oa| |oa]; try reflexivity; unfold spec_parameterized;
      destruct oa as [x|]; simpl; try reflexivity; destruct ob as [y|]; simpl;
      try pose proof (ty_size_pos x); try pose proof (ty_size_pos y);
      repeat (rewrite H by (simpl; lia)); reflexivity.
  - (* function *)
    destruct a as [ | | | | | | | | | |va tpa psa ra ara ca| ]; try reflexivity.
    unfold spec_function. rewrite !ty_size_fun in H.
    rewrite (forall2b_ext_in (fun s t => f t s) (fun s t => g t s) psa psb).
    + simpl. rewrite (H ra rb) by lia. reflexivity.
    + intros x y Hx Hy. apply H. apply list_size_in in Hx, Hy. lia.
  - (* range *)
    destruct a as [ | | | | | | | | |oa| |oa]; try reflexivity; unfold spec_parameterized;
      destruct oa as [x|]; simpl; try reflexivity; destruct ob as [y|]; simpl;
      try pose proof (ty_size_pos x); try pose proof (ty_size_pos y);
      repeat (rewrite H by (simpl; lia)); reflexivity.
Qed.

(* more fuel than the size never changes the answer *)
Lemma sub_n_stable : forall n a b,
  (ty_size a + ty_size b <= n)%nat -> sub_n n a b = sub_n (S n) a b.
Proof.
  induction n as [|n IH]; intros a b Hs.
  - pose proof (ty_size_pos a). pose proof (ty_size_pos b). lia.
  - rewrite !sub_n_S. f_equal. apply spec_step_local.
    intros x y Hxy. apply IH. lia.
Qed.

Theorem fuel_adequate n a b :
  (fuel_of a b <= n)%nat ->
  ty_equal E a b || gen_check E n a b = ty_equal E a b || gen_check E (fuel_of a b) a b.
Proof.
  intros Hs. change (sub_n n a b = sub_n (fuel_of a b) a b). unfold fuel_of in *.
  induction n as [|n IH].
  - assert (ty_size a + ty_size b = 0)%nat as H0 by lia. rewrite H0. reflexivity.
  - destruct (Nat.eq_dec (ty_size a + ty_size b) (S n)) as [e|Hne]; [rewrite e; reflexivity|].
    rewrite <- sub_n_stable by lia. apply IH. lia.
Qed.

(* the fuel-free unfolding equation *)
Theorem is_subtype_unfold a b :
  is_subtype E a b = ty_equal E a b || spec_step E (is_subtype E) a b.
Proof.
  change (is_subtype E a b) with (sub_n (fuel_of a b) a b). unfold fuel_of.
  pose proof (ty_size_pos a). pose proof (ty_size_pos b).
  destruct (ty_size a + ty_size b)%nat as [|n] eqn:Hn; [lia|].
  rewrite sub_n_S. f_equal. apply spec_step_local.
  intros x y Hxy. change (is_subtype E x y) with (sub_n (fuel_of x y) x y).
  apply fuel_adequate. unfold fuel_of. lia.
Qed.

End Fuel.
