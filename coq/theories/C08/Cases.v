(* C08 — check functions used by the per-run case files: the harness lists the type universe and,
   per subtype (row), the answers of the real implementations over all supertypes as bit masks. *)
From Coq Require Import ZArith List Bool.
From CV Require Export C08.Subtype C08.RuntimeModel.
Import ListNotations.
Open Scope Z_scope.

(* one row: for every supertype b of the universe compare the rule function, IsSubType (which is
   Equal first, then the rule function) and the run-time test IsSubTypeOfSemaType with the observed bits *)
Fixpoint row_mism (E : denv) (a : ty) (og oi ort : Z) (base1 base2 base3 : Z) (j : Z) (univ : list ty) : list Z :=
  match univ with
  | [] => []
  | b :: rest =>
      let g := check_rules E a b in
      let i := ty_equal E a b || g in
      let rt := match a with TOptional _ => rt_sub_sema E a b | _ => if ty_is_prim b PAny then true else i end in
      let r := row_mism E a og oi ort base1 base2 base3 (j + 1) rest in
      let r := if Bool.eqb rt (Z.testbit ort j) then r else (base3 + j) :: r in
      let r := if Bool.eqb i (Z.testbit oi j) then r else (base2 + j) :: r in
      if Bool.eqb g (Z.testbit og j) then r else (base1 + j) :: r
  end.

(* rows: (index of the subtype in the universe, subtype, observed CheckSubTypeWithoutEquality_gen
   row, observed sema.IsSubType row, observed interpreter.IsSubTypeOfSemaType row).  A mismatch on
   pair (i, j) is reported as i*n+j for the rule function, n*n + i*n+j for IsSubType and
   2*n*n + i*n+j for the run-time test. *)
Fixpoint all_mism (E : denv) (univ : list ty) (n : Z) (rows : list (Z * ty * Z * Z * Z)) : list Z :=
  match rows with
  | [] => []
  | (i, a, og, oi, ort) :: rest =>
      row_mism E a og oi ort (i * n) (n * n + i * n) (2 * n * n + i * n) 0 univ ++ all_mism E univ n rest
  end.

(* the shortcut taken above for non-optional subtypes is the definition of rt_sub_sema *)
Lemma rt_sub_sema_nonopt E a b : (forall t, a <> TOptional t) ->
  rt_sub_sema E a b = if ty_is_prim b PAny then true else ty_equal E a b || check_rules E a b.
Proof. intros H. destruct a; try reflexivity. exfalso. eapply H. reflexivity. Qed.
