(* C08 — basic facts: sizes, list-set helpers, the authorization order, Type.Equal is an
   equivalence. *)
From Coq Require Import ZArith List Bool Lia Arith.
From CV Require Import Base.Prelude C08.Model.
Import ListNotations.
Open Scope Z_scope.

(* ---------------------------------------------------------------- sizes *)
Lemma prim_rank_pos p : (1 <= prim_rank p)%nat.
Proof. destruct p; simpl; lia. Qed.

Lemma ty_size_pos t : (1 <= ty_size t)%nat.
Proof. destruct t; simpl; try lia. apply prim_rank_pos. Qed.

Definition opt_size (o : option ty) : nat := match o with Some x => ty_size x | None => 0%nat end.
Definition list_size (l : list ty) : nat := fold_right (fun x n => (ty_size x + n)%nat) 0%nat l.
Definition olist_size (l : list (option ty)) : nat := fold_right (fun x n => (opt_size x + n)%nat) 0%nat l.

Lemma olist_size_fix tps :
  (fix go (xs : list (option ty)) : nat :=
     match xs with [] => 0 | x :: xs' => match x with Some x' => ty_size x' | None => 0 end + go xs' end)%nat tps
  = olist_size tps.
Proof. induction tps as [|x xs IH]; cbn; [reflexivity|]. rewrite IH. destruct x; reflexivity. Qed.

Lemma list_size_fix ps :
  (fix go (xs : list ty) : nat := match xs with [] => 0 | x :: xs' => ty_size x + go xs' end)%nat ps
  = list_size ps.
Proof. induction ps as [|x xs IH]; cbn; [reflexivity|]. rewrite IH. reflexivity. Qed.

Lemma ty_size_fun v tps ps r ar c :
  ty_size (TFunction v tps ps r ar c) = S (olist_size tps + list_size ps + ty_size r).
Proof. cbn [ty_size]. rewrite olist_size_fix, list_size_fix. reflexivity. Qed.

Lemma list_size_in x l : In x l -> (ty_size x <= list_size l)%nat.
Proof. induction l; simpl; intros H; [tauto|]. destruct H as [->|H]; [lia|]. apply IHl in H. lia. Qed.

Lemma olist_size_in x l : In (Some x) l -> (ty_size x <= olist_size l)%nat.
Proof.
  induction l; simpl; intros H; [tauto|]. destruct H as [->|H]; [simpl; lia|]. apply IHl in H. lia.
Qed.

(* ---------------------------------------------------------------- induction on types *)
Section TyInd.
  Variable P : ty -> Prop.
  Definition Popt (o : option ty) : Prop := match o with Some t => P t | None => True end.
  Hypothesis HPrim : forall p, P (TPrim p).
  Hypothesis HOpt : forall t, P t -> P (TOptional t).
  Hypothesis HVar : forall t, P t -> P (TVarArray t).
  Hypothesis HConst : forall t n, P t -> P (TConstArray t n).
  Hypothesis HDict : forall k v, P k -> P v -> P (TDict k v).
  Hypothesis HRef : forall a t, P t -> P (TRef a t).
  Hypothesis HInter : forall l is, Popt l -> P (TIntersection l is).
  Hypothesis HComp : forall c, P (TComposite c).
  Hypothesis HIface : forall c, P (TInterface c).
  Hypothesis HCap : forall b, Popt b -> P (TCapability b).
  Hypothesis HFun : forall v tps ps r ar c, Forall Popt tps -> Forall P ps -> P r -> P (TFunction v tps ps r ar c).
  Hypothesis HRange : forall b, Popt b -> P (TRange b).

  Fixpoint ty_ind' (t : ty) : P t :=
    match t with
    | TPrim p => HPrim p
    | TOptional x => HOpt x (ty_ind' x)
    | TVarArray x => HVar x (ty_ind' x)
    | TConstArray x n => HConst x n (ty_ind' x)
    | TDict k v => HDict k v (ty_ind' k) (ty_ind' v)
    | TRef a x => HRef a x (ty_ind' x)
    | TIntersection l is => HInter l is (match l return Popt l with Some x => ty_ind' x | None => I end)
    | TComposite c => HComp c
    | TInterface c => HIface c
    | TCapability b => HCap b (match b return Popt b with Some x => ty_ind' x | None => I end)
    | TFunction v tps ps r ar c =>
        HFun v tps ps r ar c
          ((fix go (l : list (option ty)) : Forall Popt l :=
              match l with
              | [] => Forall_nil _
              | x :: xs => Forall_cons x (match x return Popt x with Some y => ty_ind' y | None => I end) (go xs)
              end) tps)
          ((fix go (l : list ty) : Forall P l :=
              match l with
              | [] => Forall_nil _
              | x :: xs => Forall_cons x (ty_ind' x) (go xs)
              end) ps)
          (ty_ind' r)
    | TRange b => HRange b (match b return Popt b with Some x => ty_ind' x | None => I end)
    end.
End TyInd.

Lemma beqb_sym (a b : bool) : Bool.eqb a b = Bool.eqb b a.
Proof. destruct a, b; reflexivity. Qed.

(* ---------------------------------------------------------------- list sets *)
Lemma zmem_In x l : zmem x l = true <-> In x l.
Proof.
  unfold zmem. rewrite existsb_exists. split.
  - intros [y [Hy He]]. apply Z.eqb_eq in He. subst. exact Hy.
  - intros H. exists x. split; [exact H | apply Z.eqb_refl].
Qed.

Lemma zsubset_spec a b : zsubset a b = true <-> (forall x, In x a -> In x b).
Proof.
  unfold zsubset. rewrite forallb_forall. split; intros H x Hx.
  - apply zmem_In. apply H. exact Hx.
  - apply zmem_In. apply H. exact Hx.
Qed.

Lemma zsubset_refl a : zsubset a a = true.
Proof. apply zsubset_spec. auto. Qed.

Lemma zsubset_trans a b c : zsubset a b = true -> zsubset b c = true -> zsubset a c = true.
Proof. rewrite !zsubset_spec. auto. Qed.

Lemma zset_eqb_refl a : zset_eqb a a = true.
Proof. unfold zset_eqb. rewrite zsubset_refl. reflexivity. Qed.

Lemma zset_eqb_sym a b : zset_eqb a b = zset_eqb b a.
Proof. unfold zset_eqb. apply andb_comm. Qed.

Lemma zset_eqb_trans a b c : zset_eqb a b = true -> zset_eqb b c = true -> zset_eqb a c = true.
Proof.
  unfold zset_eqb. rewrite !andb_true_iff. intros [H1 H2] [H3 H4].
  split; eapply zsubset_trans; eauto.
Qed.

(* ---------------------------------------------------------------- primitives *)
Lemma prim_eqb_eq p q : prim_eqb p q = true <-> p = q.
Proof.
  unfold prim_eqb. split.
  - apply internal_prim_dec_bl.
  - apply internal_prim_dec_lb.
Qed.

Lemma prim_eqb_refl p : prim_eqb p p = true.
Proof. apply prim_eqb_eq. reflexivity. Qed.

Lemma ckind_eqb_eq p q : ckind_eqb p q = true <-> p = q.
Proof.
  unfold ckind_eqb. split.
  - apply internal_ckind_dec_bl.
  - apply internal_ckind_dec_lb.
Qed.

Lemma ty_is_prim_eq t p : ty_is_prim t p = true <-> t = TPrim p.
Proof.
  destruct t; simpl; try (split; [discriminate | discriminate]).
  rewrite prim_eqb_eq. split; [intros ->; reflexivity | intros H; inversion H; reflexivity].
Qed.

(* ---------------------------------------------------------------- authorizations *)
Lemma permits_refl_set a : match a with AMap _ => True | _ => permits a a = true end.
Proof.
  destruct a; simpl; auto.
  - apply forallb_forall. intros x Hx. apply zmem_In. exact Hx.
  - apply forallb_forall. intros x Hx. apply zmem_In. exact Hx.
Qed.

(* PermitsAccess is transitive: if c permits b and b permits a then c permits a *)
Lemma permits_trans c b a : permits c b = true -> permits b a = true -> permits c a = true.
Proof.
  destruct c as [|ec|ec|mc]; simpl; auto; try discriminate;
  destruct b as [|eb|eb|mb]; simpl; try discriminate;
  destruct a as [|ea|ea|ma]; simpl; try discriminate;
  rewrite ?forallb_forall, ?existsb_exists; intros H1 H2.
  - (* conj conj conj *) intros t Ht. apply zmem_In. apply H1 in Ht. apply zmem_In in Ht.
    apply H2 in Ht. apply zmem_In in Ht. exact Ht.
  - (* conj conj disj *) intros u Hu. apply forallb_forall. intros t Ht.
    apply H1 in Ht. apply zmem_In in Ht. pose proof (H2 u Hu) as H3.
    rewrite forallb_forall in H3. apply H3. exact Ht.
  - (* conj disj conj *) destruct H2 as [t [Ht Hm]]. apply zmem_In in Hm.
    intros t' Ht'. pose proof (H1 t Ht) as H3. rewrite forallb_forall in H3.
    apply H3 in Ht'. apply Z.eqb_eq in Ht'. subst. apply zmem_In. exact Hm.
  - (* conj disj disj *) intros u Hu. apply H2 in Hu. apply zmem_In in Hu. apply H1. exact Hu.
  - (* disj conj conj *) destruct H1 as [t [Ht Hm]]. exists t. split; [exact Ht|].
    apply zmem_In. apply zmem_In in Hm. apply H2 in Hm. apply zmem_In in Hm. exact Hm.
  - (* disj conj disj *) destruct H1 as [t [Ht Hm]]. apply zmem_In in Hm.
    intros u Hu. pose proof (H2 u Hu) as H3. rewrite forallb_forall in H3.
    apply H3 in Hm. apply Z.eqb_eq in Hm. subst. apply zmem_In. exact Ht.
  - (* disj disj conj *) destruct H2 as [t [Ht Hm]]. exists t. split; [|exact Hm].
    apply H1 in Ht. apply zmem_In in Ht. exact Ht.
  - (* disj disj disj *) intros u Hu. apply H2 in Hu. apply zmem_In in Hu. apply H1. exact Hu.
Qed.

Lemma auth_equal_refl a : auth_equal a a = true.
Proof.
  destruct a; simpl; auto.
  - rewrite andb_diag. apply (permits_refl_set (AConj es)).
  - rewrite andb_diag. apply (permits_refl_set (ADisj es)).
  - apply Z.eqb_refl.
Qed.

Lemma auth_equal_sym a b : auth_equal a b = auth_equal b a.
Proof.
  destruct a, b; simpl; auto; try apply andb_comm. apply Z.eqb_sym.
Qed.

Lemma auth_equal_trans a b c : auth_equal a b = true -> auth_equal b c = true -> auth_equal a c = true.
Proof.
  destruct a as [|ea|ea|ma], b as [|eb|eb|mb]; simpl; try discriminate;
  destruct c as [|ec|ec|mc]; simpl; try discriminate; auto.
  - rewrite !andb_true_iff. intros [H1 H2] [H3 H4]. split.
    + eapply (permits_trans (AConj ea) (AConj eb) (AConj ec)); eauto.
    + eapply (permits_trans (AConj ec) (AConj eb) (AConj ea)); eauto.
  - rewrite !andb_true_iff. intros [H1 H2] [H3 H4]. split.
    + eapply (permits_trans (ADisj ea) (ADisj eb) (ADisj ec)); eauto.
    + eapply (permits_trans (ADisj ec) (ADisj eb) (ADisj ea)); eauto.
  - rewrite !Z.eqb_eq. congruence.
Qed.

(* equal authorizations permit each other unless they are entitlement-map authorizations *)
Lemma auth_equal_permits a b :
  auth_equal a b = true -> (forall m, a <> AMap m) -> permits b a = true.
Proof.
  destruct a, b; simpl; try discriminate; auto.
  - rewrite andb_true_iff. tauto.
  - rewrite andb_true_iff. tauto.
  - intros _ H. exfalso. eapply H. reflexivity.
Qed.
