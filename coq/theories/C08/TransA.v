(* C08 — transitivity, part A: consequences of well-formedness, facts about primitive types
   (by exhaustive computation over the finite set of primitive types), and the shape of the subtypes of
   the numeric / path hierarchy types. *)
From Coq Require Import ZArith List Bool Lia Arith.
From CV Require Import Base.Prelude C08.Model Gen.GenC08Subtype C08.Spec C08.Refine C08.Subtype
  C08.Basics C08.EqualProofs C08.Fuel C08.Laws C08.Wf.
Import ListNotations.
Open Scope Z_scope.

Lemma all_prims_complete p : In p all_prims.
Proof. destruct p; simpl; tauto. Qed.

Definition special (q : prim) : bool :=
  match q with
  | PAny | PAnyStruct | PAnyResource | PAnyResourceAttachment | PAnyStructAttachment | PHashableStruct => true
  | _ => false
  end.

Definition any_kind_prim (p : prim) : bool :=
  match p with PAny | PAnyStruct | PAnyResource => true | _ => false end.

Section TransA.
Variable E : denv.
Hypothesis Hwf : wf_env_b E = true.

Notation R := (is_subtype E).

(* ---------------------------------------------------------------- well-formedness, unpacked *)
Lemma wf_parts :
  (forall c, In c (comp_dom E) ->
     (forall i, In i (comp_conf E c) -> In i (iface_dom E) /\ is_res_kind E i = comp_resource E c)
     /\ (comp_kind E c = CKEnum -> comp_resource E c = false))
  /\ (forall i, In i (iface_dom E) -> forall j, In j (iface_conf E i) -> In j (iface_dom E) /\ iface_kind E j = iface_kind E i)
  /\ (forall p i, In i (prim_conf E p) -> In i (iface_dom E) /\ is_res_kind E i = false /\ is_resource E (TPrim p) = false)
  /\ (forall p q, R (TPrim p) (TPrim q) = true -> p <> PNever -> zsubset (prim_conf E q) (prim_conf E p) = true)
  /\ (forall p, In p [PHashableStruct; PAnyStructAttachment; PAnyResourceAttachment; PAny; PAnyStruct; PAnyResource] -> prim_conf E p = []).
Proof.
  unfold wf_env_b in Hwf. rewrite !andb_true_iff in Hwf. destruct Hwf as [[[[H1 H2] H3] H4] H5].
  rewrite forallb_forall in H1, H2, H3, H4, H5.
  repeat split.
  - specialize (H1 c H). rewrite andb_true_iff in H1. destruct H1 as [H1 _].
    rewrite forallb_forall in H1. specialize (H1 i H0). rewrite andb_true_iff in H1. apply zmem_In. tauto.
  - specialize (H1 c H). rewrite andb_true_iff in H1. destruct H1 as [H1 _].
    rewrite forallb_forall in H1. specialize (H1 i H0). rewrite andb_true_iff in H1. apply eqb_prop. tauto.
  - intros Hk. specialize (H1 c H). rewrite andb_true_iff in H1. destruct H1 as [_ H1].
    rewrite Hk in H1. simpl in H1. destruct (comp_resource E c); simpl in H1; congruence.
  - specialize (H2 i H). rewrite forallb_forall in H2. specialize (H2 j H0).
    rewrite andb_true_iff in H2. apply zmem_In. tauto.
  - specialize (H2 i H). rewrite forallb_forall in H2. specialize (H2 j H0).
    rewrite andb_true_iff in H2. apply ckind_eqb_eq. tauto.
  - specialize (H3 p (all_prims_complete p)). rewrite forallb_forall in H3. specialize (H3 i H).
    rewrite !andb_true_iff in H3. apply zmem_In. tauto.
  - specialize (H3 p (all_prims_complete p)). rewrite forallb_forall in H3. specialize (H3 i H).
    rewrite !andb_true_iff, !negb_true_iff in H3. tauto.
  - specialize (H3 p (all_prims_complete p)). rewrite forallb_forall in H3. specialize (H3 i H).
    rewrite !andb_true_iff, !negb_true_iff in H3. tauto.
  - intros p q Hpq Hn. specialize (H4 p (all_prims_complete p)). rewrite forallb_forall in H4.
    specialize (H4 q (all_prims_complete q)). rewrite Hpq in H4. simpl in H4.
    destruct (prim_eqb p PNever) eqn:He; [apply prim_eqb_eq in He; contradiction | exact H4].
  - intros p Hp. specialize (H5 p Hp). destruct (prim_conf E p); [reflexivity | discriminate].
Qed.

(* ---------------------------------------------------------------- primitive types, by computation *)
Definition prim_facts : bool :=
  forallb (fun p => forallb (fun q =>
    negb (R (TPrim p) (TPrim q))
    || ((* kind *) (prim_eqb p PNever || prim_eqb q PAny
                    || Bool.eqb (is_resource E (TPrim p)) (is_resource E (TPrim q)))
        && (* Any, AnyStruct, AnyResource are only below each other *)
           (negb (any_kind_prim p) || any_kind_prim q)
        && (* Any is only below Any *)
           (negb (prim_eqb p PAny) || prim_eqb q PAny)
        && (* the special types are only below themselves and below Any / AnyStruct / AnyResource *)
           (negb (special p) || (special q && (prim_eqb p q || any_kind_prim q)))
        && (* each special type satisfies its own rule *)
           (negb (special q) || spec_prim E R (TPrim q) q)
        && (* transitivity *)
           forallb (fun r => negb (R (TPrim q) (TPrim r)) || R (TPrim p) (TPrim r)) all_prims)) all_prims) all_prims.

Lemma prim_facts_ok : prim_facts = true.
Proof. vm_compute. reflexivity. Qed.

Lemma prim_fact p q :
  R (TPrim p) (TPrim q) = true ->
  (p = PNever \/ q = PAny \/ is_resource E (TPrim p) = is_resource E (TPrim q))
  /\ (any_kind_prim p = true -> any_kind_prim q = true)
  /\ (p = PAny -> q = PAny)
  /\ (special p = true -> special q = true /\ (p = q \/ any_kind_prim q = true))
  /\ (special q = true -> spec_prim E R (TPrim q) q = true)
  /\ (forall r, R (TPrim q) (TPrim r) = true -> R (TPrim p) (TPrim r) = true).
Proof.
  intros H. pose proof prim_facts_ok as F. unfold prim_facts in F.
  rewrite forallb_forall in F. specialize (F p (all_prims_complete p)). cbv beta in F.
  rewrite forallb_forall in F. specialize (F q (all_prims_complete q)). cbv beta in F.
  rewrite H in F. cbn [negb orb] in F. rewrite !andb_true_iff in F. destruct F as [[[[[F1 F2] F3] F5] F6] F4].
  split; [|split; [|split; [|split; [|split]]]].
  - rewrite !orb_true_iff in F1. destruct F1 as [[F1|F1]|F1].
    + left. apply prim_eqb_eq. exact F1.
    + right. left. apply prim_eqb_eq. exact F1.
    + right. right. apply eqb_prop. exact F1.
  - intros Hp. rewrite Hp in F2. exact F2.
  - intros ->. simpl in F3. apply prim_eqb_eq. exact F3.
  - intros Hp. rewrite Hp in F5. cbn [negb orb] in F5. rewrite andb_true_iff, orb_true_iff in F5.
    split; [tauto|]. destruct F5 as [_ [F5|F5]]; [left; apply prim_eqb_eq; exact F5 | right; exact F5].
  - intros Hq. rewrite Hq in F6. exact F6.
  - intros r Hr. rewrite forallb_forall in F4. specialize (F4 r (all_prims_complete r)). cbv beta in F4.
    rewrite Hr in F4. exact F4.
Qed.

(* ---------------------------------------------------------------- subtypes of hierarchy / leaf primitive types *)
Definition is_prim (a : ty) : bool := match a with TPrim _ => true | _ => false end.

Lemma prim_in_nonprim a l : is_prim a = false -> prim_in a l = false.
Proof. destruct a; simpl; congruence. Qed.

Lemma nonprim_not_never a : is_prim a = false -> ty_is_prim a PNever = false.
Proof. destruct a; simpl; congruence. Qed.

Lemma nonprim_not_equal a q : is_prim a = false -> ty_equal E a (TPrim q) = false.
Proof.
  destruct a; simpl; try congruence; try reflexivity;
    repeat match goal with o : option ty |- _ => destruct o end; reflexivity.
Qed.

(* only primitive types are subtypes of the hierarchy types and of leaf primitive types *)
Lemma down_hier_aux : forall n q, (prim_rank q <= n)%nat -> special q = false ->
  forall a, is_prim a = false -> R a (TPrim q) = false.
Proof.
  induction n as [|n IH]; intros q Hr Hs a Ha.
  - pose proof (prim_rank_pos q). lia.
  - rewrite is_subtype_unfold. rewrite (nonprim_not_equal a q Ha). unfold spec_step.
    rewrite (nonprim_not_never a Ha). cbn [orb].
    destruct q; cbn [spec_prim]; cbn [prim_rank] in Hr; try reflexivity; try discriminate Hs;
      rewrite ?(prim_in_nonprim a _ Ha); cbn [orb];
      repeat (rewrite (IH _) by (cbn; solve [lia | reflexivity | exact Ha])); reflexivity.
Qed.

Lemma down_hier q a : special q = false -> R a (TPrim q) = true -> exists p, a = TPrim p.
Proof.
  intros Hs H. destruct a; try (rewrite (down_hier_aux _ q (le_n _) Hs) in H; [discriminate | reflexivity]).
  eexists. reflexivity.
Qed.

End TransA.
