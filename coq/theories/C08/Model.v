(* C08 — types, declaration environment and the hand-transcribed helper predicates that the
   generated subtype relation (Gen/GenC08Subtype.v, produced from tools/subtype-gen/rules.yaml)
   calls.  Definitions only; proofs are in the other files of this directory.

   Go sources transcribed here (all in /repo/sema): Type.Equal of every type kind (type.go),
   IsResourceType, isAttachmentType, IsHashableStructType (type.go), PermitsAccess / Access.Equal
   (access.go), IsIntersectionSubset, AreReturnsCovariant (subtype_check.go),
   EffectiveIntersectionSet (type.go), common.DeepEquals (common/equatable.go). *)
From Coq Require Import ZArith List Bool Lia.
From CV Require Import Base.Prelude.
Import ListNotations.
Open Scope Z_scope.

(* ------------------------------------------------------------------------------------------ *)
(* primitive (simple / numeric / address) types.  `Storable` and the invalid type are not
   members: the property excludes them. *)
Inductive prim : Type :=
| PNever | PAny | PAnyStruct | PAnyResource | PAnyResourceAttachment | PAnyStructAttachment | PHashableStruct
| PVoid | PBool | PString | PCharacter | PAddress | PMetaType | PBlock
| PPath | PStoragePath | PCapabilityPath | PPublicPath | PPrivatePath
| PNumber | PSignedNumber | PInteger | PSignedInteger | PFixedSizeUnsignedInteger | PFixedPoint | PSignedFixedPoint
| PInt | PInt8 | PInt16 | PInt32 | PInt64 | PInt128 | PInt256
| PUInt | PUInt8 | PUInt16 | PUInt32 | PUInt64 | PUInt128 | PUInt256
| PWord8 | PWord16 | PWord32 | PWord64 | PWord128 | PWord256
| PFix64 | PFix128 | PUFix64 | PUFix128.

Scheme Equality for prim.
Definition prim_eqb := prim_beq.

Inductive ckind : Type := CKStruct | CKResource | CKContract | CKEnum | CKAttachment | CKEvent.
Scheme Equality for ckind.
Definition ckind_eqb := ckind_beq.

(* reference authorizations: unauthorized, entitlement conjunction / disjunction, entitlement map *)
Inductive auth : Type :=
| AUnauth
| AConj (es : list Z)
| ADisj (es : list Z)
| AMap (m : Z).

(* types; composites, interfaces, entitlements are referred to by name (a number) and
   interpreted in a declaration environment *)
Inductive ty : Type :=
| TPrim (p : prim)
| TOptional (t : ty)
| TVarArray (t : ty)
| TConstArray (t : ty) (n : Z)
| TDict (k v : ty)
| TRef (a : auth) (t : ty)
| TIntersection (legacy : option ty) (ifaces : list Z)
| TComposite (c : Z)
| TInterface (i : Z)
| TCapability (b : option ty)
| TFunction (view : bool) (tparams : list (option ty)) (params : list ty) (ret : ty)
            (arity : option (Z * Z)) (ctor : bool)
| TRange (m : option ty).

(* declaration environment *)
Record denv : Type := {
  comp_dom : list Z;                 (* the declared composite types *)
  iface_dom : list Z;                (* the declared (and built-in) interface types *)
  comp_kind : Z -> ckind;            (* CompositeType.Kind *)
  comp_resource : Z -> bool;         (* CompositeType.IsResourceType (attachments: kind of the base type) *)
  comp_conf : Z -> list Z;           (* CompositeType.EffectiveInterfaceConformanceSet *)
  iface_kind : Z -> ckind;           (* InterfaceType.CompositeKind *)
  iface_conf : Z -> list Z;          (* InterfaceType.EffectiveInterfaceConformanceSet *)
  prim_conf : prim -> list Z         (* conformances of built-in types (StructStringer) *)
}.

(* ------------------------------------------------------------------------------------------ *)
(* finite sets of names as lists *)
Definition zmem (x : Z) (l : list Z) : bool := existsb (Z.eqb x) l.
Definition zsubset (a b : list Z) : bool := forallb (fun x => zmem x b) a.
Definition zset_eqb (a b : list Z) : bool := zsubset a b && zsubset b a.

Definition opt_is_none {A} (o : option A) : bool := match o with None => true | Some _ => false end.
Definition opt_is_some {A} (o : option A) : bool := match o with None => false | Some _ => true end.

Fixpoint forall2b {A B} (f : A -> B -> bool) (xs : list A) (ys : list B) : bool :=
  match xs, ys with
  | [], [] => true
  | x :: xs', y :: ys' => f x y && forall2b f xs' ys'
  | _, _ => false
  end.

(* ------------------------------------------------------------------------------------------ *)
(* Access.PermitsAccess (receiver = the supertype's authorization) and Access.Equal *)
Definition permits (super sub : auth) : bool :=
  match super with
  | AUnauth => true
  | AMap _ => false
  | AConj e =>
      match sub with
      | AConj o => forallb (fun t => zmem t o) e
      | ADisj o => forallb (fun u => forallb (fun t => Z.eqb t u) e) o
      | _ => false
      end
  | ADisj e =>
      match sub with
      | AConj o => existsb (fun t => zmem t o) e
      | ADisj o => forallb (fun u => zmem u e) o
      | _ => false
      end
  end.

Definition auth_equal (a b : auth) : bool :=
  match a, b with
  | AUnauth, AUnauth => true
  | AMap m, AMap n => Z.eqb m n
  | AConj _, AConj _ | ADisj _, ADisj _ => permits a b && permits b a
  | _, _ => false
  end.

(* ------------------------------------------------------------------------------------------ *)
Section WithEnv.
Variable E : denv.

(* IntersectionType.EffectiveIntersectionSet: the listed interfaces and everything they conform to *)
Definition eff_inter_set (ifaces : list Z) : list Z :=
  flat_map (fun i => i :: iface_conf E i) ifaces.

Definition arity_eqb (a b : option (Z * Z)) : bool :=
  match a, b with
  | None, None => true
  | Some (m1, x1), Some (m2, x2) => Z.eqb m1 m2 && Z.eqb x1 x2
  | _, _ => false
  end.

(* Type.IsResourceType *)
Fixpoint is_resource (t : ty) : bool :=
  match t with
  | TPrim p => match p with PAnyResource | PAnyResourceAttachment => true | _ => false end
  | TOptional t' | TVarArray t' | TConstArray t' _ => is_resource t'
  | TDict k v => is_resource k || is_resource v
  | TComposite c => comp_resource E c
  | TInterface i => ckind_eqb (iface_kind E i) CKResource
  | TIntersection _ ifaces =>
      match ifaces with i :: _ => ckind_eqb (iface_kind E i) CKResource | [] => false end
  | TRef _ _ | TCapability _ | TFunction _ _ _ _ _ _ | TRange _ => false
  end.

(* Type.Equal.  Intersections compare their effective interface sets only (the legacy type is not
   compared); composites / interfaces compare kind and ID, i.e. the name. *)
Fixpoint ty_equal (a b : ty) {struct a} : bool :=
  match a, b with
  | TPrim p, TPrim q => prim_eqb p q
  | TOptional x, TOptional y => ty_equal x y
  | TVarArray x, TVarArray y => ty_equal x y
  | TConstArray x n, TConstArray y m => ty_equal x y && Z.eqb n m
  | TDict k1 v1, TDict k2 v2 => ty_equal k1 k2 && ty_equal v1 v2
  | TRef a1 x, TRef a2 y => auth_equal a1 a2 && ty_equal x y
  | TIntersection _ i1, TIntersection _ i2 =>
      (* Go: the two effective sets have the same number of elements and the first is a subset of
         the second; for finite sets that is mutual inclusion *)
      zset_eqb (eff_inter_set i1) (eff_inter_set i2)
  | TComposite c, TComposite d => Z.eqb c d
  | TInterface c, TInterface d => Z.eqb c d
  | TCapability None, TCapability None => true
  | TCapability (Some x), TCapability (Some y) => ty_equal x y
  | TRange None, TRange None => true
  | TRange (Some x), TRange (Some y) => ty_equal x y
  | TFunction v1 tp1 ps1 r1 ar1 c1, TFunction v2 tp2 ps2 r2 ar2 c2 =>
      Bool.eqb v1 v2
      && (fix go (xs ys : list (option ty)) {struct xs} : bool :=
            match xs, ys with
            | [], [] => true
            | x :: xs', y :: ys' =>
                match x, y with
                | None, None => true
                | Some x', Some y' => ty_equal x' y'
                | _, _ => false
                end && go xs' ys'
            | _, _ => false
            end) tp1 tp2
      && Nat.eqb (length ps1) (length ps2)
      && arity_eqb ar1 ar2
      && (fix go (xs ys : list ty) {struct xs} : bool :=
            match xs, ys with
            | [], [] => true
            | x :: xs', y :: ys' => (Bool.eqb (is_resource x) (is_resource y) && ty_equal x y) && go xs' ys'
            | _, _ => false
            end) ps1 ps2
      && Bool.eqb c1 c2
      && ty_equal r1 r2
  | _, _ => false
  end.

(* common.DeepEquals on possibly-nil types: nil equals only nil *)
Definition deep_equals_opt (a b : option ty) : bool :=
  match a, b with
  | None, None => true
  | Some x, Some y => ty_equal x y
  | _, _ => false
  end.

Definition ty_is_prim (t : ty) (p : prim) : bool :=
  match t with TPrim q => prim_eqb q p | _ => false end.

Definition opt_is_prim (o : option ty) (p : prim) : bool :=
  match o with Some t => ty_is_prim t p | None => false end.

(* isAttachmentType *)
Definition is_attachment (t : ty) : bool :=
  match t with
  | TComposite c => ckind_eqb (comp_kind E c) CKAttachment
  | TPrim PAnyResourceAttachment | TPrim PAnyStructAttachment => true
  | _ => false
  end.

(* IsHashableStructType; issub is sema.IsSubTypeWithoutComparison *)
Definition is_hashable_struct (issub : ty -> ty -> bool) (t : ty) : bool :=
  match t with
  | TPrim PAddress => true
  | TComposite c => ckind_eqb (comp_kind E c) CKEnum
  | TPrim PNever | TPrim PBool | TPrim PCharacter | TPrim PString | TPrim PMetaType | TPrim PHashableStruct => true
  | _ => issub t (TPrim PNumber) || issub t (TPrim PPath)
  end.

(* ConformingType.EffectiveInterfaceConformanceSet: defined for simple / numeric / address types,
   composites and interfaces *)
Definition conf_set (t : ty) : option (list Z) :=
  match t with
  | TPrim p => Some (prim_conf E p)
  | TComposite c => Some (comp_conf E c)
  | TInterface i => Some (iface_conf E i)
  | _ => None
  end.

Definition is_conforming (t : ty) : bool := opt_is_some (conf_set t).

(* IsIntersectionSubset(superType *IntersectionType, subType Type).  The Go function panics
   (unreachable) when subType is neither an intersection nor a conforming type, and the first
   argument is statically an intersection; every call site of the generated code is under a type
   switch establishing this, the remaining combinations are mapped to false. *)
Definition is_intersection_subset (super sub : ty) : bool :=
  match super with
  | TIntersection _ sis =>
      match sub with
      | TIntersection _ is' => zsubset (eff_inter_set sis) (eff_inter_set is')
      | _ => match conf_set sub with
             | Some cs => zsubset (eff_inter_set sis) cs
             | None => false
             end
      end
  | _ => false
  end.

(* AreReturnsCovariant(source, target *FunctionType); return types are never nil in this model *)
Definition returns_covariant (issub : ty -> ty -> bool) (a b : ty) : bool :=
  match a, b with
  | TFunction _ _ _ ra _ _, TFunction _ _ _ rb _ _ => issub ra rb
  | _, _ => false
  end.

(* ParameterizedType.BaseType() / TypeArguments() for Capability and InclusiveRange *)
Definition param_base_type (t : ty) : option ty :=
  match t with
  | TCapability (Some _) => Some (TCapability None)
  | TRange (Some _) => Some (TRange None)
  | _ => None
  end.

Definition param_type_args (t : ty) : list ty :=
  match t with
  | TCapability (Some b) => [b]
  | TCapability None => [TRef AUnauth (TPrim PAny)]
  | TRange (Some m) => [m]
  | _ => []
  end.

(* isSubType's handling of nil operands: a nil subtype is never a subtype; against a nil supertype
   Equal fails and the rule function answers true exactly for Never *)
Definition issub_opt (issub : ty -> ty -> bool) (a b : option ty) : bool :=
  match a, b with
  | None, _ => false
  | Some x, Some y => issub x y
  | Some x, None => ty_is_prim x PNever
  end.

End WithEnv.

(* ------------------------------------------------------------------------------------------ *)
(* size measure used as fuel for the generated relation.  Primitive types carry the height of the
   numeric / path hierarchy below them, because the rules for a hierarchy type recurse into the
   rules of the hierarchy types directly below it with the same subtype. *)
Definition prim_rank (p : prim) : nat :=
  match p with
  | PHashableStruct => 5
  | PNumber => 4
  | PSignedNumber | PInteger | PFixedPoint | PPath => 3
  | PSignedInteger | PFixedSizeUnsignedInteger | PSignedFixedPoint | PCapabilityPath => 2
  | _ => 1
  end%nat.

Fixpoint ty_size (t : ty) : nat :=
  match t with
  | TPrim p => prim_rank p
  | TOptional x | TVarArray x | TConstArray x _ | TRef _ x => S (ty_size x)
  | TDict k v => S (ty_size k + ty_size v)
  | TIntersection l _ => S (match l with Some x => ty_size x | None => 0 end)
  | TComposite _ | TInterface _ => 1
  | TCapability b | TRange b => S (match b with Some x => ty_size x | None => 0 end)
  | TFunction _ tps ps r _ _ =>
      S ((fix go (xs : list (option ty)) : nat :=
            match xs with [] => 0 | x :: xs' => match x with Some x' => ty_size x' | None => 0 end + go xs' end) tps
         + (fix go (xs : list ty) : nat :=
            match xs with [] => 0 | x :: xs' => ty_size x + go xs' end) ps
         + ty_size r)
  end%nat.
