(* C08 — the subtype relation: sema.IsSubType = Equal first, then the rule function generated
   from rules.yaml, run with fuel = sum of the sizes of the two types (C08/Proofs.v shows that any
   larger fuel gives the same answer, so the fuel is never the reason for an answer). *)
From CV Require Export C08.Model Gen.GenC08Subtype.

Definition fuel_of (a b : ty) : nat := (ty_size a + ty_size b)%nat.

(* sema.CheckSubTypeWithoutEquality_gen *)
Definition check_rules (E : denv) (a b : ty) : bool := gen_check E (fuel_of a b) a b.

(* sema.IsSubType *)
Definition is_subtype (E : denv) (a b : ty) : bool := ty_equal E a b || check_rules E a b.
