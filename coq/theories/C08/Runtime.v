(* C08 — run-time subtype test vs the checker's relation: proofs (model in C08/RuntimeModel.v). *)
From Coq Require Import ZArith List Bool Lia Arith.
From CV Require Import Base.Prelude C08.Model Gen.GenC08Subtype C08.Spec C08.Refine C08.Subtype
  C08.Basics C08.EqualProofs C08.Fuel C08.Laws C08.Wf C08.TransA C08.TransB C08.TransC.
From CV Require Export C08.RuntimeModel.
Import ListNotations.
Open Scope Z_scope.

Section Runtime.
Variable E : denv.
Notation R := (is_subtype E).

Lemma equal_or_sub a b : ty_equal E a b || R a b = R a b.
Proof. destruct (ty_equal E a b) eqn:H; [|reflexivity]. rewrite (equal_is_subtype E a b H). reflexivity. Qed.

Lemma sub_opt_opt t u : R (TOptional t) (TOptional u) = R t u.
Proof. rewrite is_subtype_unfold. unfold spec_step. simpl. apply equal_or_sub. Qed.

Lemma not_never_of_core t : core_ok (TOptional t) = true -> ty_is_prim t PNever = false /\ ty_is_prim t PAny = false.
Proof.
  unfold core_ok, elem_ok. simpl. rewrite andb_true_iff, !negb_true_iff.
  destruct t; simpl; try tauto.
Qed.

Theorem rt_agrees_partial a : forall sup, core_ok a = true -> rt_sub_sema E a sup = is_subtype E a sup.
Proof.
  induction a as [ |t IH| | | | | | | | | | ]; intros sup Hc;
    try (cbn [rt_sub_sema]; destruct (ty_is_prim sup PAny) eqn:Hb; [apply ty_is_prim_eq in Hb; subst; symmetry; apply any_is_top | reflexivity]).
  cbn [rt_sub_sema]. destruct (ty_is_prim sup PAny) eqn:Hb; [apply ty_is_prim_eq in Hb; subst; symmetry; apply any_is_top|].
  assert (Hct : core_ok t = true) by exact Hc.
  destruct (not_never_of_core t Hc) as [HtN HtA].
  assert (Hno : forall x, (forall u, x <> TOptional u) -> (forall q, x = TPrim q -> any_kind_prim q = false) ->
                R (TOptional t) x = false).
  { intros x Hx Hq. destruct (R (TOptional t) x) eqn:H; [|reflexivity].
    destruct (up_opt E t x Hx H) as [q' [Hq' Hk]]. rewrite (Hq q' Hq') in Hk. discriminate Hk. }
  destruct sup as [q|u| | | | | | | | | | ];
    try (symmetry; apply Hno; [discriminate | intros q' Hq'; discriminate Hq']).
  - destruct q; try (symmetry; apply Hno; [discriminate | intros q' Hq'; inversion Hq'; reflexivity]).
    + discriminate Hb.
    + rewrite IH by exact Hct. rewrite !is_subtype_unfold. unfold spec_step. rewrite HtN. simpl. rewrite HtA.
      destruct t; simpl; try reflexivity; try (destruct b; reflexivity); try (destruct m; reflexivity).
      destruct p; simpl; try reflexivity; discriminate.
    + rewrite IH by exact Hct. rewrite !is_subtype_unfold. unfold spec_step. rewrite HtN. simpl.
      destruct t; simpl; try reflexivity; try (destruct b; reflexivity); try (destruct m; reflexivity).
      destruct p; simpl; try reflexivity; discriminate.
  - rewrite sub_opt_opt. apply IH. exact Hct.
Qed.

End Runtime.

(* counterexamples to the full statement: Never? against AnyResource, Any? against AnyStruct *)
Theorem rt_agrees_refuted : forall E,
  rt_sub_sema E (TOptional (TPrim PNever)) (TPrim PAnyResource) = true
  /\ is_subtype E (TOptional (TPrim PNever)) (TPrim PAnyResource) = false
  /\ rt_sub_sema E (TOptional (TPrim PAny)) (TPrim PAnyStruct) = false
  /\ is_subtype E (TOptional (TPrim PAny)) (TPrim PAnyStruct) = true.
Proof. intro E. repeat split; vm_compute; reflexivity. Qed.
