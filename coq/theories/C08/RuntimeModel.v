(* C08 — the run-time subtype test on static types, interpreter.IsSubTypeOfSemaType
   (interpreter/interpreter.go), transcribed: a fast path for optional subtypes that does not
   convert the static type, and the checker's relation for everything else.  Static types are
   represented by the same [ty] (ConvertSemaToStaticType is structural; C45 treats the conversion).
   Definitions only; proofs in C08/Runtime.v. *)
From Coq Require Import ZArith List Bool.
From CV Require Import Base.Prelude C08.Model C08.Subtype C08.Wf.
Import ListNotations.
Open Scope Z_scope.

Fixpoint rt_sub_sema (E : denv) (a b : ty) {struct a} : bool :=
  if ty_is_prim b PAny then true
  else match a with
       | TOptional t =>
           match b with
           | TOptional u => rt_sub_sema E t u
           | TPrim PAnyStruct | TPrim PAnyResource => rt_sub_sema E t b
           | _ => false        (* Go: return superType == sema.AnyStructType, which is false here *)
           end
       | _ => is_subtype E a b
       end.

(* the property as stated: run-time and checker agree on every pair *)
Definition rt_agrees_statement (E : denv) : Prop := forall a b, rt_sub_sema E a b = is_subtype E a b.

(* the innermost non-optional type of a (nested) optional *)
Fixpoint opt_core (a : ty) : ty := match a with TOptional t => opt_core t | _ => a end.

Definition core_ok (a : ty) : bool := elem_ok (opt_core a).

