(* C08 — the rule function generated from tools/subtype-gen/rules.yaml (Gen/GenC08Subtype.v,
   rewritten on every run) defines the same subtype relation as the hand-written specification
   C08/Spec.v: for every pair of types, Equal-or-generated-rules = Equal-or-specified-rules, for every
   recursive relation that contains Equal (which is how the rules are always applied:
   isSubType tests Equal first).  This is the obligation that a change of the rules breaks.
   The proof is generic: case analysis on the two type constructors (and on the primitive type where
   one is involved), computation, and case analysis on whatever boolean atoms remain — it does not
   refer to the shape of the generated term, so regenerating an equivalent function (reordered
   alternatives, entries that are redundant given reflexivity removed, different nesting of the
   switches) still checks. *)
From Coq Require Import ZArith List Bool.
From CV Require Import Base.Prelude C08.Model Gen.GenC08Subtype C08.Spec.
Import ListNotations.
Open Scope Z_scope.

Ltac split_scrutinee :=
  match goal with
  | |- context [match ?x with _ => _ end] => is_var x; destruct x
  | |- context [match ?x with _ => _ end] =>
      lazymatch x with
      | context [match _ with _ => _ end] => fail
      | _ => let H := fresh "Hc" in destruct x eqn:H
      end
  end.

Ltac norm := cbv beta iota zeta delta
  [gen_step spec_step spec_prim spec_intersection spec_function spec_parameterized legacy_ok legacy_open
   is_any_kind prim_in ty_is_prim opt_is_prim opt_is_none opt_is_some prim_eqb prim_beq existsb
   andb orb negb issub_opt param_base_type param_type_args returns_covariant].

Ltac solve_refine Hf :=
  norm; rewrite ?Hf; try reflexivity;
  repeat (split_scrutinee; norm; rewrite ?Hf; try reflexivity).

Section Refine.
Variable E : denv.
(* the recursive relation: anything reflexive (isSubType tests Equal first) *)
Variable f : ty -> ty -> bool.
Hypothesis Hf : forall x, f x x = true.

(* primitive supertypes: Equal-or-rules agree (rules for hierarchy types may rely on Equal having
   been tested first) *)
Lemma refine_prim a q :
  ty_equal E a (TPrim q) || gen_step E f a (TPrim q) = ty_equal E a (TPrim q) || spec_step E f a (TPrim q).
Proof.
  destruct a as [p| | | | | | | | | | | ].
  - destruct q; destruct p; first [reflexivity | cbn [ty_equal]; solve_refine Hf].
  - destruct q; first [reflexivity | cbn [ty_equal]; solve_refine Hf].
  - destruct q; first [reflexivity | cbn [ty_equal]; solve_refine Hf].
  - destruct q; first [reflexivity | cbn [ty_equal]; solve_refine Hf].
  - destruct q; first [reflexivity | cbn [ty_equal]; solve_refine Hf].
  - destruct q; first [reflexivity | cbn [ty_equal]; solve_refine Hf].
  - destruct q; first [reflexivity | cbn [ty_equal]; solve_refine Hf].
  - destruct q; first [reflexivity | cbn [ty_equal]; solve_refine Hf].
  - destruct q; first [reflexivity | cbn [ty_equal]; solve_refine Hf].
  - destruct q; first [reflexivity | cbn [ty_equal]; solve_refine Hf].
  - destruct q; first [reflexivity | cbn [ty_equal]; solve_refine Hf].
  - destruct q; first [reflexivity | cbn [ty_equal]; solve_refine Hf].
Qed.

(* all other supertypes: the rules themselves agree *)
Lemma refine_nonprim a b : (forall q, b <> TPrim q) -> gen_step E f a b = spec_step E f a b.
Proof.
  intro Hb.
  destruct b; try (exfalso; eapply Hb; reflexivity);
    (destruct a as [p| | | | | | | | | | | ]; [ destruct p | .. ]); solve_refine Hf.
Qed.

Theorem gen_step_spec a b :
  ty_equal E a b || gen_step E f a b = ty_equal E a b || spec_step E f a b.
Proof.
  destruct b; try apply refine_prim; f_equal; apply refine_nonprim; discriminate.
Qed.

End Refine.
