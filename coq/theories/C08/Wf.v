(* C08 — hypotheses of the transitivity theorem, as decidable checks.
   [wf_env_b E]: well-formedness of a declaration environment; evaluated in every run on the
   environment observed on the real checker objects.
   [plain E t]: the guard on types under which transitivity is proved; it excludes exactly the
   shapes involved in the known defects (see C08/Refuted.v). *)
From Coq Require Import ZArith List Bool.
From CV Require Export C08.Model C08.Subtype.
Import ListNotations.
Open Scope Z_scope.

Definition all_prims : list prim :=
  [PNever; PAny; PAnyStruct; PAnyResource; PAnyResourceAttachment; PAnyStructAttachment; PHashableStruct;
   PVoid; PBool; PString; PCharacter; PAddress; PMetaType; PBlock;
   PPath; PStoragePath; PCapabilityPath; PPublicPath; PPrivatePath;
   PNumber; PSignedNumber; PInteger; PSignedInteger; PFixedSizeUnsignedInteger; PFixedPoint; PSignedFixedPoint;
   PInt; PInt8; PInt16; PInt32; PInt64; PInt128; PInt256;
   PUInt; PUInt8; PUInt16; PUInt32; PUInt64; PUInt128; PUInt256;
   PWord8; PWord16; PWord32; PWord64; PWord128; PWord256;
   PFix64; PFix128; PUFix64; PUFix128].

Definition is_res_kind (E : denv) (i : Z) : bool := ckind_eqb (iface_kind E i) CKResource.

Definition wf_env_b (E : denv) : bool :=
  (* composites: conformances are declared interfaces of the composite's own resource-ness; enums are structs *)
  forallb (fun c =>
     forallb (fun i => zmem i (iface_dom E) && Bool.eqb (is_res_kind E i) (comp_resource E c)) (comp_conf E c)
     && (negb (ckind_eqb (comp_kind E c) CKEnum) || negb (comp_resource E c))) (comp_dom E)
  (* interfaces: inherited interfaces are declared and of the same kind *)
  && forallb (fun i =>
     forallb (fun j => zmem j (iface_dom E) && ckind_eqb (iface_kind E j) (iface_kind E i)) (iface_conf E i)) (iface_dom E)
  (* built-in types conform only to struct interfaces, resource-kinded built-in types to none *)
  && forallb (fun p =>
     forallb (fun i => zmem i (iface_dom E) && negb (is_res_kind E i) && negb (is_resource E (TPrim p))) (prim_conf E p)) all_prims
  (* conformances of built-in types are inherited downwards along subtyping of built-in types *)
  && forallb (fun p => forallb (fun q =>
       negb (is_subtype E (TPrim p) (TPrim q)) || prim_eqb p PNever || zsubset (prim_conf E q) (prim_conf E p)) all_prims) all_prims
  (* built-in types with nominal subtypes conform to nothing *)
  && forallb (fun p => match prim_conf E p with [] => true | _ => false end)
       [PHashableStruct; PAnyStructAttachment; PAnyResourceAttachment; PAny; PAnyStruct; PAnyResource].

(* element of an optional / array / dictionary: not Never and not Any (IsResourceType looks through
   these constructors, and answers false for both although they are below / above resource types) *)
Definition elem_ok (t : ty) : bool := negb (ty_is_prim t PNever) && negb (ty_is_prim t PAny).

Fixpoint plain (E : denv) (t : ty) : bool :=
  match t with
  | TPrim _ => true
  | TOptional x | TVarArray x | TConstArray x _ => elem_ok x && plain E x
  | TDict k v => elem_ok k && plain E k && elem_ok v && plain E v
  | TRef _ x => plain E x
  | TIntersection l ifaces =>
      (* no legacy restricted type; non-empty set of declared interfaces of one kind *)
      opt_is_none l
      && match ifaces with
         | [] => false
         | i :: _ => forallb (fun j => zmem j (iface_dom E) && ckind_eqb (iface_kind E j) (iface_kind E i)) ifaces
         end
  | TComposite c => zmem c (comp_dom E)
  | TInterface _ => false        (* interface types cannot be used as types directly; programs write {I} *)
  | TCapability b | TRange b => match b with Some x => plain E x | None => true end
  | TFunction _ tps ps r _ _ =>
      (fix go (l : list (option ty)) : bool :=
         match l with [] => true | x :: l' => match x with Some y => plain E y | None => true end && go l' end) tps
      && (fix go (l : list ty) : bool := match l with [] => true | x :: l' => plain E x && go l' end) ps
      && plain E r
  end.
