(* C08 — hand-written specification of one application of the subtyping rules.
   [spec_step E sub a b] says whether [a] is accepted as a subtype of [b] by the rule for [b],
   given the relation [sub] (equality-or-rules) for the component types.  It is written by hand from
   the documented meaning of the rules (one clause per supertype kind) and does not depend on the
   generated file; C08/Refine.v proves that the function generated from rules.yaml computes exactly
   this, and all laws are proved about this specification. *)
From Coq Require Import ZArith List Bool.
From CV Require Import Base.Prelude C08.Model.
Import ListNotations.
Open Scope Z_scope.

Definition prim_in (a : ty) (l : list prim) : bool :=
  match a with TPrim p => existsb (prim_eqb p) l | _ => false end.

Definition is_any_kind (a : ty) : bool := prim_in a [PAny; PAnyStruct; PAnyResource].

Definition legacy_open (l : option ty) : bool :=
  match l with None => true | Some t => is_any_kind t end.

Section Spec.
Variable E : denv.
Variable sub : ty -> ty -> bool.

(* rule for a primitive supertype q *)
Definition spec_prim (a : ty) (q : prim) : bool :=
  match q with
  | PAny => true
  | PAnyStruct => negb (is_resource E a) && negb (ty_is_prim a PAny)
  | PAnyResource => is_resource E a
  | PAnyResourceAttachment => is_attachment E a && is_resource E a
  | PAnyStructAttachment => is_attachment E a && negb (is_resource E a)
  | PHashableStruct => is_hashable_struct E sub a
  | PPath => sub a (TPrim PStoragePath) || sub a (TPrim PCapabilityPath)
  | PCapabilityPath => prim_in a [PPrivatePath; PPublicPath]
  | PNumber => prim_in a [PNumber; PSignedNumber] || (sub a (TPrim PInteger) || sub a (TPrim PFixedPoint))
  | PSignedNumber => prim_in a [PSignedNumber] || (sub a (TPrim PSignedInteger) || sub a (TPrim PSignedFixedPoint))
  | PInteger => prim_in a [PInteger; PSignedInteger; PFixedSizeUnsignedInteger; PUInt]
                || (sub a (TPrim PSignedInteger) || sub a (TPrim PFixedSizeUnsignedInteger))
  | PSignedInteger => prim_in a [PSignedInteger; PInt; PInt8; PInt16; PInt32; PInt64; PInt128; PInt256]
  | PFixedSizeUnsignedInteger =>
      prim_in a [PUInt8; PUInt16; PUInt32; PUInt64; PUInt128; PUInt256;
                 PWord8; PWord16; PWord32; PWord64; PWord128; PWord256]
  | PFixedPoint => prim_in a [PFixedPoint; PSignedFixedPoint; PUFix64; PUFix128] || sub a (TPrim PSignedFixedPoint)
  | PSignedFixedPoint => prim_in a [PSignedFixedPoint; PFix64; PFix128]
  | _ => false                 (* leaf types: only equal types and Never are subtypes *)
  end.

(* the legacy-type side condition of intersection supertypes: no legacy type, or the subtype's
   (legacy) type is a subtype of it *)
Definition legacy_ok (x : option ty) (lb : option ty) : bool :=
  opt_is_none lb || issub_opt sub x lb.

(* rule for an intersection supertype b = lb{ib} *)
Definition spec_intersection (a b : ty) (lb : option ty) : bool :=
  if is_any_kind a then false
  else if legacy_open lb then
    (* {Vs}, Any{Vs}, AnyStruct{Vs}, AnyResource{Vs} *)
    match a with
    | TIntersection la _ =>
        match la with
        | None => is_intersection_subset E b a
        | Some l =>
            if is_any_kind l then legacy_ok la lb && is_intersection_subset E b a
            else match l with
                 | TComposite _ => legacy_ok la lb && is_intersection_subset E b l
                 | _ => false
                 end
        end
    | TPrim _ | TComposite _ | TInterface _ => legacy_ok (Some a) lb && is_intersection_subset E b a
    | _ => false
    end
  else
    (* V{Ws} with a proper legacy type V *)
    match a with
    | TIntersection (Some ((TComposite _) as l)) _ => deep_equals_opt E (Some l) lb
    | TComposite _ => issub_opt sub (Some a) lb
    | _ => false
    end.

Definition spec_function (a b : ty) : bool :=
  match a, b with
  | TFunction va tpa psa _ ara ca, TFunction vb tpb psb _ arb cb =>
      (Bool.eqb va vb || Bool.eqb va true)
      && (Nat.eqb (length tpa) (length tpb) && forall2b (fun s t => deep_equals_opt E s t) tpa tpb)
      && (Nat.eqb (length psa) (length psb) && forall2b (fun s t => sub t s) psa psb)
      && arity_eqb ara arb
      && returns_covariant sub a b
      && Bool.eqb ca cb
  | _, _ => false
  end.

(* Capability<T> / InclusiveRange<T>: same family; an uninstantiated supertype accepts every
   instantiated subtype of the family; otherwise the type arguments are compared pairwise *)
Definition spec_parameterized (a b : ty) : bool :=
  match param_base_type a with
  | None => false
  | Some ba =>
      match param_base_type b with
      | None => sub ba b
      | Some bb =>
          sub ba bb
          && (Nat.eqb (length (param_type_args a)) (length (param_type_args b))
              && forall2b sub (param_type_args a) (param_type_args b))
      end
  end.

Definition spec_step (a b : ty) : bool :=
  if ty_is_prim a PNever then true else
  match b with
  | TPrim q => spec_prim a q
  | TOptional u => match a with TOptional t => sub t u | _ => sub a u end
  | TDict k v => match a with TDict k' v' => sub v' v && sub k' k | _ => false end
  | TVarArray u => match a with TVarArray t => sub t u | _ => false end
  | TConstArray u n => match a with TConstArray t m => Z.eqb n m && sub t u | _ => false end
  | TRef ab u => match a with TRef aa t => permits ab aa && sub t u | _ => false end
  | TComposite _ =>
      (* only the legacy restricted type T{Us} of the same composite T *)
      match a with
      | TIntersection (Some ((TComposite _) as l)) _ => ty_equal E l b
      | _ => false
      end
  | TInterface i =>
      match a with
      | TComposite c => ckind_eqb (comp_kind E c) (iface_kind E i) && zmem i (comp_conf E c)
      | TIntersection _ ia => zmem i (eff_inter_set E ia)
      | TInterface j => zmem i (iface_conf E j)
      | _ => false
      end
  | TIntersection lb _ => spec_intersection a b lb
  | TFunction _ _ _ _ _ _ => spec_function a b
  | TCapability _ | TRange _ =>
      match a with
      | TCapability _ | TRange _ => spec_parameterized a b
      | _ => false
      end
  end.

End Spec.
