(* C08 — transitivity, part D: function types and the main theorem. *)
From Coq Require Import ZArith List Bool Lia Arith.
From CV Require Import Base.Prelude C08.Model Gen.GenC08Subtype C08.Spec C08.Refine C08.Subtype
  C08.Basics C08.EqualProofs C08.Fuel C08.Laws C08.Wf C08.TransA C08.TransB C08.TransC.
Import ListNotations.
Open Scope Z_scope.

Lemma forall2b_trans_in {A} (f : A -> A -> bool) xs ys zs :
  (forall x y z, In x xs -> In y ys -> In z zs -> f x y = true -> f y z = true -> f x z = true) ->
  forall2b f xs ys = true -> forall2b f ys zs = true -> forall2b f xs zs = true.
Proof.
  revert ys zs. induction xs as [|x xs IH]; destruct ys as [|y ys]; destruct zs as [|z zs];
    simpl; try discriminate; auto.
  intros H. rewrite !andb_true_iff. intros [H1 H2] [H3 H4]. split.
  - apply (H x y z); auto.
  - apply (IH ys zs); auto. intros x' y' z' Hx Hy Hz. apply H; auto.
Qed.

Lemma forall2b_impl_in {A B} (f g : A -> B -> bool) xs ys :
  (forall x y, In x xs -> In y ys -> f x y = true -> g x y = true) ->
  forall2b f xs ys = true -> forall2b g xs ys = true.
Proof.
  revert ys. induction xs as [|x xs IH]; destruct ys as [|y ys]; simpl; try discriminate; auto.
  intros H. rewrite !andb_true_iff. intros [H1 H2]. split; [apply H; auto | apply IH; auto].
Qed.

Section TransD.
Variable E : denv.
Hypothesis Hwf : wf_env_b E = true.
Notation R := (is_subtype E).
Notation Never := (TPrim PNever).
Notation Any := (TPrim PAny).

(* ---------------------------------------------------------------- functions *)
Lemma equal_spec_function a b :
  ty_equal E a b = true -> (exists v tp ps r ar c, b = TFunction v tp ps r ar c) -> spec_function E R a b = true.
Proof.
  intros He [v2 [tp2 [ps2 [r2 [ar2 [c2 ->]]]]]]. destruct a as [ | | | | | | | | | |v1 tp1 ps1 r1 ar1 c1| ]; try (solve [simpl in He; kill He]).
  rewrite ty_equal_fun in He. rewrite !andb_true_iff in He.
  destruct He as [[[[[[H1 H2] H3] H4] H5] H6] H7].
  unfold spec_function. rewrite H1, H3, H4, H6. cbn [orb andb].
  rewrite (forall2b_length _ _ _ H2), Nat.eqb_refl. cbn [andb].
  assert (G2 : forall2b (fun s t => deep_equals_opt E s t) tp1 tp2 = true) by exact H2.
  rewrite G2. cbn [andb].
  assert (G5 : forall2b (fun s t => R t s) ps1 ps2 = true).
  { eapply forall2b_impl_in; [|exact H5]. intros x y _ _ Hxy. unfold param_equal in Hxy.
    rewrite andb_true_iff in Hxy. apply equal_is_subtype. rewrite ty_equal_sym. tauto. }
  rewrite G5. cbn [andb returns_covariant]. rewrite (equal_is_subtype E _ _ H7). reflexivity.
Qed.

Lemma inv_fun a v tp ps r ar c : R a (TFunction v tp ps r ar c) = true ->
  a = Never \/ spec_function E R a (TFunction v tp ps r ar c) = true.
Proof.
  intros H. destruct (sub_cases E _ _ H) as [H1|[H1|[Hn H1]]]; [tauto| |]; right.
  - apply equal_spec_function; [exact H1 | repeat eexists].
  - rewrite spec_step_not_never in H1 by exact Hn. exact H1.
Qed.

Lemma intro_fun a b : (exists v tp ps r ar c, b = TFunction v tp ps r ar c) -> spec_function E R a b = true -> R a b = true.
Proof.
  intros [v [tp [ps [r [ar [c ->]]]]]] H. apply sub_intro_rule. unfold spec_step.
  destruct (ty_is_prim a PNever); [reflexivity | exact H].
Qed.

Lemma deep_equals_opt_trans x y z :
  deep_equals_opt E x y = true -> deep_equals_opt E y z = true -> deep_equals_opt E x z = true.
Proof. destruct x, y, z; simpl; try discriminate; auto. apply ty_equal_trans. Qed.

(* ---------------------------------------------------------------- the main theorem *)
Definition trans_at (n : nat) : Prop :=
  forall a b c, (ty_size a + ty_size b + ty_size c <= n)%nat ->
    plain E a = true -> plain E b = true -> plain E c = true ->
    R a b = true -> R b c = true -> R a c = true.

Lemma trans_function n : trans_at n ->
  forall a b v tp ps r ar c, let cc := TFunction v tp ps r ar c in
  (ty_size a + ty_size b + ty_size cc <= S n)%nat ->
  plain E a = true -> plain E b = true -> plain E cc = true ->
  R a b = true -> R b cc = true -> a <> Never -> R a cc = true.
Proof.
  intros IH a b v tp ps r ar c cc Hs Ha Hb Hc Hab Hbc Hna.
  destruct (inv_fun _ _ _ _ _ _ _ Hbc) as [->|Sbc].
  { destruct (sub_cases E _ _ Hab) as [->|[He|[_ Hr]]]; [contradiction Hna; reflexivity | |].
    - destruct a; simpl in He; kill He. apply prim_eqb_eq in He. subst. contradiction Hna. reflexivity.
    - destruct (down_hier E PNever a eq_refl Hab) as [p ->].
      destruct (prim_fact E p PNever Hab) as [_ [Hk _]].
      destruct p; try (contradiction Hna; reflexivity);
        rewrite is_subtype_unfold in Hab; cbn in Hab; discriminate Hab. }
  destruct b as [ | | | | | | | | | |vb tpb psb rb arb cb| ]; try discriminate Sbc.
  destruct (inv_fun _ _ _ _ _ _ _ Hab) as [->|Sab]; [contradiction Hna; reflexivity|].
  destruct a as [ | | | | | | | | | |va tpa psa ra ara ca| ]; try discriminate Sab.
  apply intro_fun; [repeat eexists|].
  unfold cc in *. rewrite !ty_size_fun in Hs. rewrite plain_fun in Ha, Hb, Hc.
  rewrite !andb_true_iff in Ha, Hb, Hc. destruct Ha as [[Ha1 Ha2] Ha3], Hb as [[Hb1 Hb2] Hb3], Hc as [[Hc1 Hc2] Hc3].
  rewrite forallb_forall in Ha2, Hb2, Hc2.
  unfold spec_function in *. cbn [returns_covariant] in *.
  rewrite !andb_true_iff in Sab, Sbc.
  destruct Sab as [[[[[P1 [P2 P3]] [P4 P5]] P6] P7] P8], Sbc as [[[[[Q1 [Q2 Q3]] [Q4 Q5]] Q6] Q7] Q8].
  apply Nat.eqb_eq in P2, Q2, P4, Q4. apply eqb_prop in P8, Q8.
  rewrite !andb_true_iff. repeat split.
  - destruct va, vb, v; simpl in *; auto.
  - apply Nat.eqb_eq. congruence.
  - eapply forall2b_trans_in; [|exact P3|exact Q3]. intros x y z _ _ _. apply deep_equals_opt_trans.
  - apply Nat.eqb_eq. congruence.
  - (* parameters are contravariant *)
    assert (G : forall2b (fun s t => R t s) psa ps = true); [|exact G].
    revert P5 Q5.
    assert (Hgen : forall xs ys zs, (forall x, In x xs -> In x psa) -> (forall y, In y ys -> In y psb) -> (forall z, In z zs -> In z ps) ->
       forall2b (fun s t => R t s) xs ys = true -> forall2b (fun s t => R t s) ys zs = true -> forall2b (fun s t => R t s) xs zs = true).
    { induction xs as [|x xs IHx]; destruct ys as [|y ys]; destruct zs as [|z zs]; simpl; try discriminate; auto.
      intros Hx Hy Hz. rewrite !andb_true_iff. intros [A1 A2] [B1 B2]. split.
      - apply (IH z y x); auto.
        + pose proof (list_size_in x psa (Hx x (or_introl eq_refl))).
          pose proof (list_size_in y psb (Hy y (or_introl eq_refl))).
          pose proof (list_size_in z ps (Hz z (or_introl eq_refl))). lia.
      - apply (IHx ys zs); auto. }
    apply Hgen; auto.
  - eapply arity_eqb_trans; eauto.
  - apply (IH ra rb r); auto. lia.
  - subst. apply eqb_reflx.
Qed.

Theorem trans_plain_n : forall n, trans_at n.
Proof.
  induction n as [|n IH]; intros a b c Hs Ha Hb Hc Hab Hbc.
  { pose proof (ty_size_pos a). lia. }
  destruct (ty_is_prim a PNever) eqn:Hnv; [apply ty_is_prim_eq in Hnv; subst; apply never_is_bottom|].
  assert (Hna : a <> Never) by (intros ->; simpl in Hnv; discriminate).
  assert (Hnb : b <> Never).
  { intros ->. destruct (down_hier E PNever a eq_refl Hab) as [p ->].
    destruct p; try (apply Hna; reflexivity); rewrite is_subtype_unfold in Hab; cbn in Hab; discriminate Hab. }
  destruct c as [q|w|w|w m|kw vw|ac w|lc ic|cn|i|oc|vc tpc psc rc arc cc|oc].
  - (* c primitive *)
    destruct b as [p| | | | | | | | | | | ].
    1: { (* b primitive *)
      destruct a as [p0| | | | | | | | | | | ].
      1: { destruct (prim_fact E p0 p Hab) as [_ [_ [_ [_ [_ F]]]]]. apply F. exact Hbc. }
      (* a is not primitive: p is special *)
        all: destruct (special p) eqn:Hsp;
          [| destruct (down_hier E p _ Hsp Hab) as [p0 Hp0]; discriminate Hp0].
        all: destruct (prim_fact E p q Hbc) as [_ [_ [HpA [Hspec _]]]]; destruct (Hspec Hsp) as [Hsq [->|Hq]]; [exact Hab|].
        all: destruct q; try discriminate Hq.
        all: try apply any_is_top.
        all: try (apply anystruct_is_top_of_structs; [|discriminate];
                  destruct (prim_fact E p PAnyStruct Hbc) as [[->|[Hx|Hx]] _]; [contradiction Hnb; reflexivity | discriminate Hx |];
                  rewrite (kind_preserved E Hwf _ _ _ (le_n _) Ha Hb Hab Hna); [exact Hx|];
                  intros Heq; inversion Heq; subst; destruct (prim_fact E PAny PAnyStruct Hbc) as [_ [_ [F _]]]; specialize (F eq_refl); discriminate F).
        all: try (apply anyresource_is_top_of_resources;
                  destruct (prim_fact E p PAnyResource Hbc) as [[->|[Hx|Hx]] _]; [contradiction Hnb; reflexivity | discriminate Hx |];
                  rewrite (kind_preserved E Hwf _ _ _ (le_n _) Ha Hb Hab Hna); [exact Hx|];
                  intros Heq; inversion Heq; subst; destruct (prim_fact E PAny PAnyResource Hbc) as [_ [_ [F _]]]; specialize (F eq_refl); discriminate F). }
    (* b is not primitive: q is special *)
      all: destruct (special q) eqn:Hsq; [| destruct (down_hier E q _ Hsq Hbc) as [p0 Hp0]; discriminate Hp0].
      all: destruct (sub_cases E _ _ Hbc) as [Hx|[Hx|[_ Hrule]]]; [discriminate Hx | simpl in Hx; kill Hx |].
      all: rewrite spec_step_not_never in Hrule by reflexivity.
      all: assert (HaA : a <> Any) by (intros ->; pose proof (up_any E _ Hb Hab) as U; discriminate U).
      all: destruct q; try discriminate Hsq; cbn [spec_prim] in Hrule.
      all: try apply any_is_top.
      all: try (rewrite andb_true_iff, !negb_true_iff in Hrule; destruct Hrule as [Hres _];
                apply anystruct_is_top_of_structs; [|exact HaA];
                rewrite (kind_preserved E Hwf _ _ _ (le_n _) Ha Hb Hab Hna); [exact Hres | discriminate]).
      all: try (apply anyresource_is_top_of_resources;
                rewrite (kind_preserved E Hwf _ _ _ (le_n _) Ha Hb Hab Hna); [exact Hrule | discriminate]).
      all: try (rewrite andb_true_iff in Hrule; destruct Hrule as [Hatt _]; simpl in Hatt; discriminate Hatt).
      all: try (unfold is_hashable_struct in Hrule;
                match type of Hrule with
                | (R ?x _ || R ?x _) = true =>
                    apply orb_true_iff in Hrule; destruct Hrule as [Hh|Hh];
                    [destruct (down_hier E PNumber x eq_refl Hh) as [p0 Hp0] | destruct (down_hier E PPath x eq_refl Hh) as [p0 Hp0]]; discriminate Hp0
                end).
      (* b composite: attachments and enums *)
      all: try (destruct (inv_comp E a _ Ha Hab) as [-> | ->]; [contradiction Hna; reflexivity | exact Hbc]).
  - (* c optional *)
    cbn [plain] in Hc. rewrite andb_true_iff in Hc. destruct Hc as [Hw1 Hw2]. destruct (elem_ok_spec _ Hw1) as [HwN HwA].
    change (ty_size (TOptional w)) with (S (ty_size w)) in Hs.
    destruct (inv_opt E b w Hbc) as [->|[[u [-> Huw]]|[Hbno Hbw]]]; [contradiction Hnb; reflexivity | |].
    + cbn [plain] in Hb. rewrite andb_true_iff in Hb. destruct Hb as [Hu1 Hu2].
      change (ty_size (TOptional u)) with (S (ty_size u)) in Hs.
      destruct (inv_opt E a u Hab) as [->|[[t [-> Htu]]|[Hano Hau]]]; [contradiction Hna; reflexivity | |].
      * cbn [plain] in Ha. rewrite andb_true_iff in Ha. destruct Ha as [Ht1 Ht2].
        change (ty_size (TOptional t)) with (S (ty_size t)) in Hs.
        apply intro_opt_opt. apply (IH t u w); auto. lia.
      * apply intro_opt; [exact Hano|]. apply (IH a u w); auto. lia.
    + assert (Haw : R a w = true) by (apply (IH a b w); auto; lia).
      destruct a as [ |t| | | | | | | | | | ]; try (apply intro_opt; [discriminate | exact Haw]).
      destruct (up_opt E t b Hbno Hab) as [q [-> Hq]].
      cbn [plain] in Ha. rewrite andb_true_iff in Ha. destruct Ha as [Ht1 Ht2]. destruct (elem_ok_spec _ Ht1) as [HtN HtA].
      change (ty_size (TOptional t)) with (S (ty_size t)) in Hs.
      apply intro_opt_opt.
      destruct (sub_cases E _ _ Hab) as [Hx|[Hx|[_ Hrule]]]; [discriminate Hx | simpl in Hx; discriminate Hx |].
      rewrite spec_step_not_never in Hrule by reflexivity.
      destruct q; try discriminate Hq; cbn [spec_prim] in Hrule.
      * rewrite (up_any E w Hw2 Hbw) in Hw1. discriminate Hw1.
      * rewrite andb_true_iff, !negb_true_iff in Hrule. destruct Hrule as [Hres _]. cbn [is_resource] in Hres.
        apply (IH t (TPrim PAnyStruct) w); auto; [simpl in *; lia|].
        apply anystruct_is_top_of_structs; assumption.
      * cbn [is_resource] in Hrule.
        apply (IH t (TPrim PAnyResource) w); auto; [simpl in *; lia|].
        apply anyresource_is_top_of_resources; assumption.
  - (* c variable-sized array *)
    cbn [plain] in Hc. rewrite andb_true_iff in Hc. destruct Hc as [_ Hw2].
    destruct (inv_var E b w Hbc) as [->|[u [-> Huw]]]; [contradiction Hnb; reflexivity|].
    destruct (inv_var E a u Hab) as [->|[t [-> Htu]]]; [contradiction Hna; reflexivity|].
    cbn [plain] in Ha, Hb. rewrite andb_true_iff in Ha, Hb. apply intro_var. apply (IH t u w); try tauto. simpl in Hs. lia.
  - (* c constant-sized array *)
    cbn [plain] in Hc. rewrite andb_true_iff in Hc. destruct Hc as [_ Hw2].
    destruct (inv_const E b w m Hbc) as [->|[u [-> Huw]]]; [contradiction Hnb; reflexivity|].
    destruct (inv_const E a u m Hab) as [->|[t [-> Htu]]]; [contradiction Hna; reflexivity|].
    cbn [plain] in Ha, Hb. rewrite andb_true_iff in Ha, Hb. apply intro_const. apply (IH t u w); try tauto. simpl in Hs. lia.
  - (* c dictionary *)
    cbn [plain] in Hc. rewrite !andb_true_iff in Hc.
    destruct (inv_dict E b kw vw Hbc) as [->|[ku [vu [-> [Hk Hv]]]]]; [contradiction Hnb; reflexivity|].
    destruct (inv_dict E a ku vu Hab) as [->|[kt [vt [-> [Hk' Hv']]]]]; [contradiction Hna; reflexivity|].
    cbn [plain] in Ha, Hb. rewrite !andb_true_iff in Ha, Hb. simpl in Hs.
    apply intro_dict; [apply (IH kt ku kw) | apply (IH vt vu vw)]; try tauto; lia.
  - (* c reference *)
    cbn [plain] in Hc.
    destruct (inv_ref E b ac w Hbc) as [->|[ab [u [-> Hbc']]]]; [contradiction Hnb; reflexivity|].
    destruct (inv_ref E a ab u Hab) as [->|[aa [t [-> Hab']]]]; [contradiction Hna; reflexivity|].
    cbn [plain] in Ha, Hb. simpl in Hs.
    destruct Hab' as [[A1 A2]|[A1 A2]], Hbc' as [[B1 B2]|[B1 B2]].
    + apply intro_ref_equal; [eapply auth_equal_trans; eauto | eapply ty_equal_trans; eauto].
    + apply intro_ref; [eapply permits_equal_sub; eauto|].
      apply (IH t u w); auto; [lia | apply equal_is_subtype; exact A2].
    + apply intro_ref; [eapply permits_equal_super; eauto|].
      apply (IH t u w); auto; [lia | apply equal_is_subtype; exact B2].
    + apply intro_ref; [eapply permits_trans; eauto|]. apply (IH t u w); auto. lia.
  - (* c intersection *)
    destruct (plain_inter E _ _ Hc) as [-> _].
    destruct (inv_inter E b ic Hb Hbc) as [->|[Hkb [Sb [HSb Hsubb]]]]; [contradiction Hnb; reflexivity|].
    destruct b as [p| | | | | |lb ib|cb|ib| | | ]; simpl in HSb; try discriminate HSb; inversion HSb; subst Sb; clear HSb.
    + (* b primitive, not Any/AnyStruct/AnyResource: a is a primitive type below it *)
      destruct (special p) eqn:Hsp.
      * destruct (wf_parts E Hwf) as [_ [_ [_ [_ W5]]]].
        assert (Hemp : prim_conf E p = []) by (apply W5; destruct p; try discriminate Hsp; simpl; tauto).
        rewrite Hemp in Hsubb. destruct (plain_inter E _ _ Hc) as [_ [i0 [rest [-> _]]]].
        rewrite zsubset_spec in Hsubb. destruct (Hsubb i0 (eff_head E i0 rest)).
      * destruct (down_hier E p a Hsp Hab) as [p0 ->].
        destruct (wf_parts E Hwf) as [_ [_ [_ [W4 _]]]].
        assert (Hp0 : p0 <> PNever) by (intros ->; apply Hna; reflexivity).
        apply (intro_inter E (TPrim p0) ic (prim_conf E p0)); auto.
        -- destruct (prim_fact E p0 p Hab) as [_ [F _]].
           destruct (any_kind_prim p0) eqn:Hk0; [specialize (F eq_refl); destruct p; discriminate|].
           destruct p0; try discriminate Hk0; reflexivity.
        -- eapply zsubset_trans; [exact Hsubb | apply W4; auto].
    + destruct (plain_inter E _ _ Hb) as [-> _].
      destruct (inv_inter E a ib Ha Hab) as [->|[Hka [Sa [HSa Hsuba]]]]; [contradiction Hna; reflexivity|].
      apply (intro_inter E a ic Sa); auto. eapply zsubset_trans; eauto.
    + destruct (inv_comp E a cb Ha Hab) as [-> | ->]; [contradiction Hna; reflexivity | exact Hbc].
    + discriminate Hb.
  - (* c composite *)
    destruct (inv_comp E b cn Hb Hbc) as [-> | ->]; [contradiction Hnb; reflexivity | exact Hab].
  - discriminate Hc.
  - (* c capability *)
    destruct (inv_cap E b oc Hbc) as [->|[ob [-> Hbc']]]; [contradiction Hnb; reflexivity|].
    destruct (inv_cap E a ob Hab) as [->|[oa [-> Hab']]]; [contradiction Hna; reflexivity|].
    destruct Hbc' as [->|[u [w [-> [-> Huw]]]]]; [apply intro_cap_none|].
    destruct Hab' as [Hx|[t [u' [-> [Hu Htu]]]]]; [discriminate Hx|]. inversion Hu; subst u'.
    apply intro_cap. cbn [plain] in Ha, Hb, Hc. apply (IH t u w); auto. simpl in Hs. lia.
  - (* c function *)
    apply (trans_function n IH a b vc tpc psc rc arc cc); auto.
  - (* c range *)
    destruct (inv_range E b oc Hbc) as [->|[ob [-> Hbc']]]; [contradiction Hnb; reflexivity|].
    destruct (inv_range E a ob Hab) as [->|[oa [-> Hab']]]; [contradiction Hna; reflexivity|].
    destruct Hbc' as [->|[u [w [-> [-> Huw]]]]]; [apply intro_range_none|].
    destruct Hab' as [Hx|[t [u' [-> [Hu Htu]]]]]; [discriminate Hx|]. inversion Hu; subst u'.
    apply intro_range. cbn [plain] in Ha, Hb, Hc. apply (IH t u w); auto. simpl in Hs. lia.
Qed.

Theorem trans_plain a b c :
  plain E a = true -> plain E b = true -> plain E c = true ->
  is_subtype E a b = true -> is_subtype E b c = true -> is_subtype E a c = true.
Proof. intros. eapply (trans_plain_n _ a b c (le_n _)); eauto. Qed.

End TransD.
