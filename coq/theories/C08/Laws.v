(* C08 — reflexivity, bottom and top of the subtype relation (all types, all environments). *)
From Coq Require Import ZArith List Bool Lia Arith.
From CV Require Import Base.Prelude C08.Model Gen.GenC08Subtype C08.Spec C08.Refine C08.Subtype
  C08.Basics C08.EqualProofs C08.Fuel.
Import ListNotations.
Open Scope Z_scope.

Section Laws.
Variable E : denv.

Theorem is_subtype_refl a : is_subtype E a a = true.
Proof. unfold is_subtype. rewrite ty_equal_refl. reflexivity. Qed.

(* Equal types are subtypes of each other *)
Lemma equal_is_subtype a b : ty_equal E a b = true -> is_subtype E a b = true.
Proof. intros H. unfold is_subtype. rewrite H. reflexivity. Qed.

Theorem never_is_bottom b : is_subtype E (TPrim PNever) b = true.
Proof. rewrite is_subtype_unfold. unfold spec_step. simpl. apply orb_true_r. Qed.

Theorem any_is_top a : is_subtype E a (TPrim PAny) = true.
Proof.
  rewrite is_subtype_unfold. unfold spec_step.
  destruct (ty_is_prim a PNever); simpl; apply orb_true_r.
Qed.

(* AnyStruct is above every non-resource type except Any; AnyResource above every resource type *)
Theorem anystruct_is_top_of_structs a :
  is_resource E a = false -> a <> TPrim PAny -> is_subtype E a (TPrim PAnyStruct) = true.
Proof.
  intros Hr Ha. rewrite is_subtype_unfold. unfold spec_step.
  destruct (ty_is_prim a PNever); [apply orb_true_r|]. simpl. rewrite Hr. simpl.
  destruct (ty_is_prim a PAny) eqn:H; [|apply orb_true_r].
  apply ty_is_prim_eq in H. contradiction.
Qed.

Theorem anyresource_is_top_of_resources a :
  is_resource E a = true -> is_subtype E a (TPrim PAnyResource) = true.
Proof.
  intros Hr. rewrite is_subtype_unfold. unfold spec_step.
  destruct (ty_is_prim a PNever); [apply orb_true_r|]. simpl. rewrite Hr. apply orb_true_r.
Qed.

End Laws.
