(* C28  check functions used by the per-run case files (fault-injection runs on the real runtime). *)
From CV Require Export C28.Model Gen.GenC28Table.

(* a fault plan: the listed (callback, per-callback call index) fail in the given mode *)
Definition plan := list (cb * nat * fmode).

Fixpoint plan_lookup (pl : plan) (n : Z) (k : cb) (i : nat) : hres :=
  match pl with
  | [] => HOk 0
  | (k', i', m) :: t =>
      if cb_eqb k k' && Nat.eqb i i' then HFail m n else plan_lookup t (n + 1) k i
  end.

Definition oracle_of (pl : plan) : oracle := plan_lookup pl 1.

(* "host is down": after the first planned failure every later call fails too (mode m) *)

(* projected observable of a real run *)
Inductive obs : Type :=
| ONorm                                     (* success *)
| OHost (k : cb) (i : nat) (m : fmode)      (* failed; an External(Non)Error wraps the injected failure (k,i,m) *)
| OUserCarry (k : cb) (i : nat) (m : fmode) (* failed with a user error wrapping the injected failure directly *)
| OUserNone                                 (* failed with a user error that carries no injected failure *)
| OInternal.                                (* any other failure *)

Definition project (r : rres) : obs :=
  match r with
  | RNorm => ONorm
  | RHost f _ => OHost (f_cb f) (f_idx f) (f_mode f)
  | RUser (Some f) => OUserCarry (f_cb f) (f_idx f) (f_mode f)
  | RUser None => OUserNone
  | RInternal => OInternal
  end.

Definition obs_eqb (a b : obs) : bool :=
  match a, b with
  | ONorm, ONorm | OUserNone, OUserNone | OInternal, OInternal => true
  | OHost k i m, OHost k' i' m' | OUserCarry k i m, OUserCarry k' i' m' =>
      cb_eqb k k' && Nat.eqb i i' && fmode_eqb m m'
  | _, _ => false
  end.

(* (program, plan, observed): the model run under the table extracted from runtime/external.go *)
Definition check_case (c : cmd * plan * obs) : bool :=
  let '(p, pl, ob) := c in
  obs_eqb (project (out_res (run Interface_methods (oracle_of pl) p))) ob.
