(* C28  proofs about the model of C28/Model.v *)
From CV Require Import C28.Model.
Import ListNotations.

(* ---------------------------------------------------------------- basic facts *)
Lemma cb_eqb_refl k : cb_eqb k k = true.
Proof. unfold cb_eqb. apply Nat.eqb_refl. Qed.

Lemma cb_idx_inj a b : cb_idx a = cb_idx b -> a = b.
Proof. destruct a; destruct b; simpl; intro H; try reflexivity; discriminate H. Qed.

Lemma cb_eqb_eq a b : cb_eqb a b = true <-> a = b.
Proof.
  unfold cb_eqb. rewrite Nat.eqb_eq. split; [apply cb_idx_inj | congruence].
Qed.

Lemma all_cbs_complete k : In k all_cbs.
Proof. destruct k; simpl; repeat (try (left; reflexivity); right). Qed.

Lemma table_ok_lookup tbl : table_ok tbl = true ->
  forall k, exists r, lookup tbl k = Some r /\ wrapped r = true /\ row_has_err r = has_err_result k.
Proof.
  intros H k. unfold table_ok in H. rewrite forallb_forall in H.
  specialize (H k (all_cbs_complete k)).
  destruct (lookup tbl k) as [r|]; [|discriminate].
  apply andb_true_iff in H as [H1 H2]. exists r. repeat split; auto.
  apply Bool.eqb_prop in H2. exact H2.
Qed.

Definition xres_of (k : cb) (i : nat) (h : hres) : xres :=
  match h with HOk r => XOk r | HFail m p => XHost (mk_flt k i m p) end.

Lemma ext_call_answer tbl o k i : table_ok tbl = true ->
  ext_call tbl k i (answer o k i) = xres_of k i (answer o k i).
Proof.
  intro H. destruct (table_ok_lookup tbl H k) as (r & Hl & Hw & He).
  unfold wrapped in Hw. apply andb_true_iff in Hw as [Hw Hw3]. apply andb_true_iff in Hw as [Hw1 Hw2].
  unfold ext_call, xres_of, err_wrapped, panic_wrapped. rewrite Hl, Hw1, Hw2. simpl.
  unfold answer. destruct (o k i) as [v|m p]; [reflexivity|].
  destruct m; try reflexivity.
  destruct (has_err_result k) eqn:Hk; [|reflexivity].
  rewrite He in Hw3. simpl in Hw3. rewrite Hw3. reflexivity.
Qed.

Lemma answer_genuine o k i m p : answer o k i = HFail m p -> o k i = HFail m p.
Proof.
  unfold answer. destruct (o k i) as [v|m' p']; [discriminate|].
  destruct m'; try (intro H; exact H).
  destruct (has_err_result k); [intro H; exact H | discriminate].
Qed.

(* ---------------------------------------------------------------- traces *)
Definition fail_list (e : event) : list flt :=
  match ev_failed e with Some f => [f] | None => [] end.
Definition failures (tr : list event) : list flt := flat_map fail_list tr.

Lemma failures_app a b : failures (a ++ b) = failures a ++ failures b.
Proof. unfold failures. apply flat_map_app. Qed.

Lemma unexcused_app a b : unexcused (a ++ b) = unexcused a ++ unexcused b.
Proof.
  induction a as [|e a IH]; simpl; [reflexivity|].
  destruct (ev_failed e); [destruct (excused e)|]; simpl; rewrite IH; reflexivity.
Qed.

Lemma unexcused_failures tr f : In f (unexcused tr) -> In f (failures tr).
Proof.
  induction tr as [|e tr IH]; simpl; [tauto|].
  unfold fail_list. destruct (ev_failed e) as [g|]; simpl.
  - destruct (excused e); simpl; intuition.
  - auto.
Qed.

Definition ctx_in (ctx : list handler) (e : event) : Prop :=
  forall h, in_ctx h ctx = true -> in_ctx h (e_ctx e) = true.

Definition genuine (o : oracle) (e : event) : Prop := e_res e = answer o (e_cb e) (e_idx e).

Lemma in_try_excused ctx new :
  in_ctx HTry ctx = true -> Forall (ctx_in ctx) new -> unexcused new = [].
Proof.
  intros Ht HF. induction HF as [|e new He HF IH]; simpl; [reflexivity|].
  destruct (ev_failed e); [|exact IH].
  unfold excused. rewrite (He HTry Ht). simpl. exact IH.
Qed.

Lemma ctx_in_weaken h ctx e : ctx_in (h :: ctx) e -> ctx_in ctx e.
Proof.
  intros H h' Hh'. apply H. unfold in_ctx in *. simpl. rewrite Hh'. apply orb_true_r.
Qed.

Lemma failures_genuine o new f :
  Forall (genuine o) new -> In f (failures new) ->
  o (f_cb f) (f_idx f) = HFail (f_mode f) (f_payload f).
Proof.
  intros HF Hin. unfold failures in Hin. apply in_flat_map in Hin as (e & He & Hf).
  rewrite Forall_forall in HF. specialize (HF e He). unfold genuine in HF.
  unfold fail_list, ev_failed in Hf. destruct (e_res e) as [v|m p] eqn:Hr; [destruct Hf|].
  destruct Hf as [Hf|[]]. subst f. simpl. symmetry in HF. apply answer_genuine. exact HF.
Qed.

(* ---------------------------------------------------------------- the invariant of exec *)
Definition res_inv (new : list event) (r : rres) : Prop :=
  match r with
  | RNorm | RUser _ => unexcused new = []
  | RInternal => False
  | RHost f _ => In f (failures new) /\ (unexcused new <> [] -> last (unexcused new) f = f)
  end.

Definition post (o : oracle) (ctx : list handler) (st st1 : state) (r : rres) : Prop :=
  exists new,
    st_trace st1 = st_trace st ++ new
    /\ Forall (ctx_in ctx) new
    /\ Forall (genuine o) new
    /\ res_inv new r
    /\ Forall (fun f => is_metric (f_cb f) = true) (tl (unexcused new)).

Lemma post_refl o ctx st : post o ctx st st RNorm.
Proof.
  exists []. rewrite app_nil_r. repeat split; simpl; auto.
Qed.

Lemma post_pending o ctx st s :
  post o ctx st (mk_st (st_count st) (st_trace st) (st_pending st ++ [s])) RNorm.
Proof.
  exists []. simpl. rewrite app_nil_r. repeat split; simpl; auto.
Qed.

Lemma post_seq o ctx st st1 st2 r :
  post o ctx st st1 RNorm -> post o ctx st1 st2 r -> post o ctx st st2 r.
Proof.
  intros (n1 & T1 & C1 & G1 & R1 & M1) (n2 & T2 & C2 & G2 & R2 & M2).
  exists (n1 ++ n2). simpl in R1.
  split; [rewrite T2, T1, app_assoc; reflexivity|].
  split; [apply Forall_app; auto|].
  split; [apply Forall_app; auto|].
  assert (Hu : unexcused (n1 ++ n2) = unexcused n2) by (rewrite unexcused_app, R1; reflexivity).
  rewrite Hu. split; [|exact M2].
  destruct r; simpl in *; try rewrite Hu; auto.
  destruct R2 as [Hin Hl]. split; [|exact Hl].
  rewrite failures_app. apply in_or_app. right. exact Hin.
Qed.

Lemma last_app_single {A} (l : list A) (x d : A) : last (l ++ [x]) d = x.
Proof.
  induction l as [|a l IH]; simpl; [reflexivity|].
  destruct (l ++ [x]) eqn:E; [destruct l; discriminate|]. exact IH.
Qed.

Lemma tl_app_single {A} (P : A -> Prop) (l : list A) (x : A) :
  Forall P (tl l) -> P x -> Forall P (tl (l ++ [x])).
Proof.
  intros Hl Hx. destruct l as [|a l]; simpl in *; [constructor|].
  apply Forall_app. split; auto.
Qed.

Lemma unexcused_single e :
  unexcused [e] = match ev_failed e with
                  | Some f => if excused e then [] else [f]
                  | None => []
                  end.
Proof. simpl. destruct (ev_failed e); [destruct (excused e)|]; reflexivity. Qed.

Lemma failures_single e :
  failures [e] = match ev_failed e with Some f => [f] | None => [] end.
Proof. unfold failures. simpl. unfold fail_list. apply app_nil_r. Qed.

(* a host call made after a command c that ended with r: either c ended normally, or the call is the metrics
   report that follows c *)
Lemma post_call tbl o ctx st st1 st2 r k x :
  table_ok tbl = true ->
  in_ctx HKeyVal ctx = false ->
  post o ctx st st1 r ->
  (r = RNorm \/ is_metric k = true) ->
  do_call tbl o ctx k st1 = (st2, x) ->
  (exists v, x = XOk v /\ post o ctx st st2 r)
  \/ (exists f, x = XHost f /\ f_cb f = k /\ post o ctx st st2 (of_xres x)).
Proof.
  intros Htbl Hkv (new & T & C & G & R & M) Hr Hc.
  unfold do_call in Hc. rewrite (ext_call_answer tbl o k _ Htbl) in Hc.
  injection Hc as Hst Hx. subst st2 x. simpl.
  remember (st_count st1 k) as i eqn:Hi.
  remember (mk_ev k i (answer o k i) ctx) as e eqn:He.
  assert (Cin : ctx_in ctx e) by (subst e; intros h Hh; exact Hh).
  assert (Gen : genuine o e) by (subst e; reflexivity).
  assert (Hev : ev_failed e = match answer o k i with HOk _ => None | HFail m p => Some (mk_flt k i m p) end).
  { subst e. unfold ev_failed. simpl. reflexivity. }
  assert (Hexc : excused e = true -> in_ctx HTry ctx = true).
  { subst e. unfold excused. simpl. rewrite Hkv. rewrite andb_false_r. simpl. rewrite orb_false_r. auto. }
  destruct (answer o k i) as [v|m p] eqn:Ha; simpl.
  - left. exists v. split; [reflexivity|].
    exists (new ++ [e]). simpl.
    split; [rewrite T, app_assoc; reflexivity|].
    split; [apply Forall_app; split; auto|].
    split; [apply Forall_app; split; auto|].
    assert (Hu : unexcused (new ++ [e]) = unexcused new).
    { rewrite unexcused_app, unexcused_single, Hev. apply app_nil_r. }
    assert (Hf : failures (new ++ [e]) = failures new).
    { rewrite failures_app, failures_single, Hev. apply app_nil_r. }
    split.
    + destruct r; simpl in *; rewrite ?Hu, ?Hf; auto.
    + rewrite Hu; exact M.
  - right. remember (mk_flt k i m p) as f eqn:Hf0. exists f.
    split; [reflexivity|]. split; [subst f; reflexivity|].
    exists (new ++ [e]). simpl.
    split; [rewrite T, app_assoc; reflexivity|].
    split; [apply Forall_app; split; auto|].
    split; [apply Forall_app; split; auto|].
    assert (Hf : In f (failures (new ++ [e]))).
    { rewrite failures_app, failures_single, Hev. apply in_or_app. right. simpl. auto. }
    rewrite unexcused_app, unexcused_single, Hev.
    destruct (excused e) eqn:Hex.
    + (* excused: only possible inside a tryUpdate, where nothing is unexcused *)
      rewrite (in_try_excused ctx new (Hexc eq_refl) C). simpl.
      split; [|constructor]. split; [exact Hf|]. intro H; exfalso; apply H; reflexivity.
    + split.
      * split; [exact Hf|]. intros _. apply last_app_single.
      * destruct Hr as [Hr|Hr].
        -- subst r. simpl in R. rewrite R. simpl. constructor.
        -- apply tl_app_single; [exact M|subst f; exact Hr].
Qed.


Lemma post_abort o ctx st c : post o ctx st st (RUser c).
Proof. exists []. rewrite app_nil_r. repeat split; simpl; auto. Qed.

(* tryUpdate / storage-iteration handler: everything below it is excused (HTry) *)
Lemma post_try o ctx st st1 r :
  post o (HTry :: ctx) st st1 r -> post o ctx st st1 (apply_handler HTry r).
Proof.
  intros (new & T & C & G & R & M). exists new.
  assert (Hu : unexcused new = []).
  { apply (in_try_excused (HTry :: ctx)); [reflexivity | exact C]. }
  split; [exact T|].
  split; [eapply Forall_impl; [|exact C]; intros e He; eapply ctx_in_weaken; exact He|].
  split; [exact G|].
  split; [|rewrite Hu; constructor].
  destruct r as [|f e|u|]; simpl in *; auto.
  destruct e; simpl; auto.
Qed.

(* a second WrapPanic around a call: only the Go type of the wrapper changes *)
Lemma post_rewrap o ctx st st1 r :
  post o (HRewrap :: ctx) st st1 r -> post o ctx st st1 (apply_handler HRewrap r).
Proof.
  intros (new & T & C & G & R & M). exists new.
  split; [exact T|].
  split; [eapply Forall_impl; [|exact C]; intros e He; eapply ctx_in_weaken; exact He|].
  split; [exact G|]. split; [|exact M].
  destruct r as [|f e|u|]; simpl in *; auto.
Qed.

(* public-key validation: Handle HKeyVal (Call cb_ValidatePublicKey) *)
Lemma post_keyval tbl o ctx st st1 x :
  table_ok tbl = true ->
  in_ctx HKeyVal ctx = false ->
  do_call tbl o (HKeyVal :: ctx) cb_ValidatePublicKey st = (st1, x) ->
  post o ctx st st1 (apply_handler HKeyVal (of_xres x)).
Proof.
  intros Htbl Hkv Hc. unfold do_call in Hc.
  rewrite (ext_call_answer tbl o _ _ Htbl) in Hc. injection Hc as Hst Hx. subst st1 x.
  remember (st_count st cb_ValidatePublicKey) as i eqn:Hi.
  remember (mk_ev cb_ValidatePublicKey i (answer o cb_ValidatePublicKey i) (HKeyVal :: ctx)) as e eqn:He.
  assert (Cin : ctx_in ctx e).
  { subst e. intros h Hh. unfold in_ctx in *. simpl. rewrite Hh. apply orb_true_r. }
  assert (Gen : genuine o e) by (subst e; reflexivity).
  assert (Hev : ev_failed e = match answer o cb_ValidatePublicKey i with
                              | HOk _ => None
                              | HFail m p => Some (mk_flt cb_ValidatePublicKey i m p) end).
  { subst e. reflexivity. }
  assert (Hex : excused e = in_ctx HTry ctx
                            || match answer o cb_ValidatePublicKey i with HFail MErr _ => true | _ => false end).
  { subst e. unfold excused. simpl. reflexivity. }
  assert (Hu1 := unexcused_single e). assert (Hf1 := failures_single e).
  rewrite Hev in Hu1, Hf1. rewrite Hex in Hu1.
  exists [e].
  split; [reflexivity|]. split; [constructor; auto|]. split; [constructor; auto|].
  destruct (answer o cb_ValidatePublicKey i) as [v|m p];
    cbv beta iota delta [xres_of of_xres apply_handler res_inv f_mode].
  - rewrite Hu1. split; [reflexivity|constructor].
  - destruct m; cbv beta iota delta [xres_of of_xres apply_handler res_inv f_mode].
    + rewrite orb_true_r in Hu1. rewrite Hu1. split; [reflexivity|constructor].
    + rewrite orb_false_r in Hu1. rewrite Hu1, Hf1. destruct (in_ctx HTry ctx).
      * split; [|constructor]. split; [simpl; auto|]. intro H; exfalso; apply H; reflexivity.
      * split; [|constructor]. split; [simpl; auto|]. reflexivity.
    + rewrite orb_false_r in Hu1. rewrite Hu1, Hf1. destruct (in_ctx HTry ctx).
      * split; [|constructor]. split; [simpl; auto|]. intro H; exfalso; apply H; reflexivity.
      * split; [|constructor]. split; [simpl; auto|]. reflexivity.
Qed.

Lemma in_ctx_cons_try ctx : in_ctx HKeyVal (HTry :: ctx) = in_ctx HKeyVal ctx.
Proof. reflexivity. Qed.

Lemma rep_post o ctx (body : state -> state * rres) :
  (forall st st1 r, body st = (st1, r) -> post o ctx st st1 r) ->
  forall n st st1 r, rep body n st = (st1, r) -> post o ctx st st1 r.
Proof.
  intros Hb. induction n as [|n IH]; intros st st1 r H; simpl in H.
  - injection H as <- <-. apply post_refl.
  - destruct (body st) as [sa ra] eqn:Eb. specialize (Hb _ _ _ Eb).
    destruct ra; try (injection H as <- <-; exact Hb).
    eapply post_seq; [exact Hb|]. apply IH. exact H.
Qed.

Opaque do_call.

Theorem exec_post tbl o : table_ok tbl = true -> forall c ctx st st1 r,
  clean c = true -> in_ctx HKeyVal ctx = false ->
  exec tbl o ctx c st = (st1, r) -> post o ctx st st1 r.
Proof.
  intros Htbl. induction c as [| k | | s | a IHa b IHb | k a IHa b IHb | n c IHc | h c IHc | m c IHc];
    intros ctx st st1 r Hcl Hkv He; simpl in He.
  - injection He as <- <-. apply post_refl.
  - destruct (do_call tbl o ctx k st) as [s1 x] eqn:Ec. injection He as <- <-.
    destruct (post_call tbl o ctx st st s1 RNorm k x Htbl Hkv (post_refl o ctx st) (or_introl eq_refl) Ec)
      as [(v & -> & P)|(f & -> & _ & P)]; exact P.
  - injection He as <- <-. apply post_abort.
  - injection He as <- <-. apply post_pending.
  - simpl in Hcl. apply andb_true_iff in Hcl as [Ha Hb].
    destruct (exec tbl o ctx a st) as [sa ra] eqn:Ea. specialize (IHa _ _ _ _ Ha Hkv Ea).
    destruct ra; try (injection He as <- <-; exact IHa).
    eapply post_seq; [exact IHa|]. eapply IHb; eauto.
  - simpl in Hcl. apply andb_true_iff in Hcl as [Ha Hb].
    destruct (do_call tbl o ctx k st) as [s1 x] eqn:Ec.
    destruct (post_call tbl o ctx st st s1 RNorm k x Htbl Hkv (post_refl o ctx st) (or_introl eq_refl) Ec)
      as [(v & -> & P)|(f & -> & _ & P)].
    + destruct (Z.even v); (eapply post_seq; [exact P|]); [eapply IHa | eapply IHb]; eauto.
    + simpl in He. injection He as <- <-. exact P.
  - simpl in Hcl. eapply rep_post; [|exact He]. intros s0 s1 r0 Hb. eapply IHc; eauto.
  - destruct (exec tbl o (h :: ctx) c st) as [s1 r1] eqn:Ec. injection He as <- <-.
    destruct h; simpl in Hcl; try discriminate.
    + apply post_try. eapply IHc; eauto.
    + destruct c; try discriminate. apply cb_eqb_eq in Hcl. subst k. simpl in Ec.
      destruct (do_call tbl o (HKeyVal :: ctx) cb_ValidatePublicKey st) as [s2 x] eqn:Ed.
      injection Ec as <- <-. eapply post_keyval; eauto.
    + apply post_rewrap. eapply IHc; eauto.
  - simpl in Hcl. apply andb_true_iff in Hcl as [Hm Hc].
    destruct (exec tbl o ctx c st) as [s1 r1] eqn:Ec. specialize (IHc _ _ _ _ Hc Hkv Ec).
    destruct (do_call tbl o ctx m s1) as [s2 x] eqn:Ed.
    destruct (post_call tbl o ctx st s1 s2 r1 m x Htbl Hkv IHc (or_intror Hm) Ed)
      as [(v & -> & P)|(f & -> & _ & P)].
    + injection He as <- <-. exact P.
    + simpl in He. injection He as <- <-. exact P.
Qed.

(* ---------------------------------------------------------------- commit phase *)
Lemma commit_post tbl o : table_ok tbl = true ->
  forall ws st0 st led st2 r led2,
    post o [] st0 st RNorm ->
    commit tbl o ws st led = (st2, r, led2) ->
    post o [] st0 st2 r
    /\ (r = RNorm \/ exists f e, r = RHost f e /\ f_cb f = cb_SetValue)
    /\ exists done rest, led2 = led ++ done /\ ws = done ++ rest /\ (r = RNorm -> rest = []).
Proof.
  intros Htbl. induction ws as [|s ws IH]; intros st0 st led st2 r led2 P H; simpl in H.
  - injection H as <- <- <-. split; [exact P|]. split; [left; reflexivity|].
    exists [], []. rewrite app_nil_r. auto.
  - destruct (do_call tbl o [] cb_SetValue st) as [s1 x] eqn:Ec.
    destruct (post_call tbl o [] st0 st s1 RNorm cb_SetValue x Htbl eq_refl P (or_introl eq_refl) Ec)
      as [(v & -> & P1)|(f & -> & Hk & P1)].
    + destruct (IH _ _ _ _ _ _ P1 H) as (Q & Hr & done & rest & Hl & Hw & Hn).
      split; [exact Q|]. split; [exact Hr|].
      exists (s :: done), rest. rewrite Hl, Hw, <- app_assoc. simpl. auto.
    + simpl in H. injection H as <- <- <-. split; [exact P1|]. split; [right; eauto|].
      exists [], (s :: ws). rewrite app_nil_r. simpl. split; [reflexivity|]. split; [reflexivity|].
      discriminate.
Qed.

Lemma last_In {A} (l : list A) (d : A) : l <> [] -> In (last l d) l.
Proof.
  induction l as [|a l IH]; [intro H; exfalso; apply H; reflexivity|].
  intros _. destruct l as [|b l]; [left; reflexivity|].
  right. apply IH. discriminate.
Qed.

(* what [post] gives for a complete run (trace starting empty) *)
Lemma post_propagates o st1 r :
  post o [] init_state st1 r ->
  let U := unexcused (st_trace st1) in
  (U <> [] -> exists f e, r = RHost f e /\ In f U /\ last U f = f)
  /\ (metrics_reliable o -> forall f rest, U = f :: rest -> (exists e, r = RHost f e) /\ rest = [])
  /\ (forall f e, r = RHost f e -> o (f_cb f) (f_idx f) = HFail (f_mode f) (f_payload f))
  /\ r <> RInternal.
Proof.
  intros (new & T & C & G & R & M). simpl in T. rewrite T. clear T. simpl.
  assert (H1 : unexcused new <> [] ->
               exists f e, r = RHost f e /\ In f (unexcused new) /\ last (unexcused new) f = f).
  { intro Hne. destruct r as [|f e|u|]; simpl in R; try (exfalso; auto; fail).
    exists f, e. destruct R as [_ Hl]. specialize (Hl Hne). split; [reflexivity|]. split; [|exact Hl].
    rewrite <- Hl. apply last_In. exact Hne. }
  split; [exact H1|]. split; [|split].
  - intros Hm f rest HU.
    assert (Hrest : rest = []).
    { destruct rest as [|g rest]; [reflexivity|]. exfalso.
      rewrite HU in M. simpl in M. inversion M as [|? ? Hg _]; subst.
      assert (Hin : In g (failures new)).
      { apply unexcused_failures. rewrite HU. right. left. reflexivity. }
      pose proof (failures_genuine o new g G Hin) as Hgen.
      destruct (Hm (f_cb g) (f_idx g) Hg) as [v Hv]. rewrite Hv in Hgen. discriminate. }
    subst rest. split; [|reflexivity].
    destruct H1 as (f' & e & -> & _ & Hl); [rewrite HU; discriminate|].
    rewrite HU in Hl. simpl in Hl. rewrite Hl. exists e. reflexivity.
  - intros f e ->. simpl in R. destruct R as [Hin _]. eapply failures_genuine; eauto.
  - intros ->. exact R.
Qed.

(* ---------------------------------------------------------------- main theorem *)
Theorem clean_propagates tbl p :
  table_ok tbl = true -> clean p = true -> propagates tbl p.
Proof.
  intros Htbl Hcl o. unfold run.
  destruct (exec tbl o [] p init_state) as [st1 r] eqn:Ee.
  pose proof (exec_post tbl o Htbl p [] init_state st1 r Hcl eq_refl Ee) as P.
  destruct r as [|f e|u|].
  - destruct (commit tbl o (st_pending st1) st1 []) as [[st2 r2] led] eqn:Ec.
    destruct (commit_post tbl o Htbl _ _ _ _ _ _ _ P Ec) as (Q & Hr & done & rest & Hl & Hw & Hn).
    destruct (post_propagates o st2 r2 Q) as (A & B & Cc & D). simpl.
    split; [exact A|]. split; [exact B|]. split; [exact Cc|].
    destruct Hr as [->|(f & e & -> & Hk)]; [exact I|]. left. exact Hk.
  - destruct (post_propagates o st1 _ P) as (A & B & Cc & D). simpl.
    split; [exact A|]. split; [exact B|]. split; [exact Cc|]. right. reflexivity.
  - destruct (post_propagates o st1 _ P) as (A & B & Cc & D). simpl.
    split; [exact A|]. split; [exact B|]. split; [exact Cc|]. reflexivity.
  - destruct (post_propagates o st1 _ P) as (A & B & Cc & D). exfalso. apply D. reflexivity.
Qed.

(* a run that ends normally saw no unexcused host failure; in particular success is never reported after one *)
Corollary success_means_no_failure tbl p o :
  table_ok tbl = true -> clean p = true ->
  out_res (run tbl o p) = RNorm -> unexcused (out_trace (run tbl o p)) = [].
Proof.
  intros Htbl Hcl Hr. destruct (clean_propagates tbl p Htbl Hcl o) as (A & _).
  destruct (unexcused (out_trace (run tbl o p))) as [|f l] eqn:E; [reflexivity|].
  destruct A as (g & e & Hg & _); [discriminate|]. rewrite Hr in Hg. discriminate.
Qed.

(* a run that meets an unexcused host failure ends in the class HostFail: not Ok, not a user error,
   not an internal error *)
Corollary failure_class tbl p o :
  table_ok tbl = true -> clean p = true ->
  unexcused (out_trace (run tbl o p)) <> [] -> class_of (out_res (run tbl o p)) = Err HostFail.
Proof.
  intros Htbl Hcl Hne. destruct (clean_propagates tbl p Htbl Hcl o) as (A & _).
  destruct (A Hne) as (f & e & -> & _). reflexivity.
Qed.

(* the commit writes a prefix of the cached writes, all of them exactly when the run succeeds *)
Theorem commit_prefix tbl o p st1 :
  table_ok tbl = true -> clean p = true ->
  exec tbl o [] p init_state = (st1, RNorm) ->
  exists rest, st_pending st1 = out_ledger (run tbl o p) ++ rest
               /\ (out_res (run tbl o p) = RNorm -> rest = []).
Proof.
  intros Htbl Hcl Ee. unfold run. rewrite Ee.
  pose proof (exec_post tbl o Htbl p [] init_state st1 RNorm Hcl eq_refl Ee) as P.
  destruct (commit tbl o (st_pending st1) st1 []) as [[st2 r2] led] eqn:Ec.
  destruct (commit_post tbl o Htbl _ _ _ _ _ _ _ P Ec) as (Q & Hr & done & rest & Hl & Hw & Hn).
  simpl in Hl. subst led. simpl. exists rest. split; [exact Hw|exact Hn].
Qed.

(* ---------------------------------------------------------------- the statement without the guard is false *)
Section Refutation.
  Variable tbl : list method_row.
  Hypothesis Htbl : table_ok tbl = true.

  Definition fail_at (k : cb) (m : fmode) : oracle :=
    fun k' i => if cb_eqb k k' && Nat.eqb i 0 then HFail m 77 else HOk 0.

  Lemma do_call_eq o ctx k st :
    do_call tbl o ctx k st =
    (mk_st (bump (st_count st) k) (st_trace st ++ [mk_ev k (st_count st k) (answer o k (st_count st k)) ctx])
           (st_pending st),
     xres_of k (st_count st k) (answer o k (st_count st k))).
  Proof. Transparent do_call. unfold do_call. rewrite ext_call_answer by exact Htbl. reflexivity. Qed.
  Opaque do_call.

  (* storage iteration (interpreter.checkValue): a failing GetOrLoadProgram is swallowed, the run succeeds *)
  Definition p_iter : cmd := Handle HIter (Call cb_GetOrLoadProgram).
  (* BLS.aggregateSignatures: an error returned by the host becomes nil, the run succeeds *)
  Definition p_bls : cmd := Handle HNilOnErr (Call cb_BLSAggregateSignatures).
  (* VM type loading / program recovery: the returned error is replaced by a user error not carrying it *)
  Definition p_drop : cmd := Handle HDropErr (Call cb_GetOrLoadProgram).

  Lemma refute_with p k (ctxh : handler) rfinal :
    p = Handle ctxh (Call k) ->
    ctxh <> HTry -> ctxh <> HKeyVal ->
    has_err_result k = true ->
    apply_handler ctxh (RHost (mk_flt k 0 MErr 77) true) = rfinal ->
    (forall f e, rfinal <> RHost f e) ->
    ~ propagates tbl p.
  Proof.
    intros -> Hn1 Hn2 Hk Hres Hnot Hp.
    specialize (Hp (fail_at k MErr)). destruct Hp as (A & _).
    unfold run in A. simpl in A. rewrite do_call_eq in A. simpl in A.
    unfold answer, fail_at in A. rewrite cb_eqb_refl in A. simpl in A. rewrite Hk in A. simpl in A.
    rewrite Hres in A.
    assert (Hex : excused (mk_ev k 0 (HFail MErr 77) [ctxh]) = false).
    { unfold excused. destruct ctxh; try congruence; simpl; rewrite ?andb_false_r; reflexivity. }
    destruct rfinal as [|f e|u|].
    - simpl in A. unfold ev_failed in A. simpl in A. rewrite Hex in A.
      destruct A as (f & e & Hf & _); [discriminate|discriminate].
    - exfalso. eapply Hnot. reflexivity.
    - simpl in A. unfold ev_failed in A. simpl in A. rewrite Hex in A.
      destruct A as (f & e & Hf & _); [discriminate|discriminate].
    - simpl in A. unfold ev_failed in A. simpl in A. rewrite Hex in A.
      destruct A as (f & e & Hf & _); [discriminate|discriminate].
  Qed.

  Theorem iter_refutes : ~ propagates tbl p_iter.
  Proof. eapply (refute_with _ _ HIter RNorm); try reflexivity; try discriminate. Qed.
  Theorem bls_refutes : ~ propagates tbl p_bls.
  Proof. eapply (refute_with _ _ HNilOnErr RNorm); try reflexivity; try discriminate. Qed.
  Theorem drop_refutes : ~ propagates tbl p_drop.
  Proof. eapply (refute_with _ _ HDropErr (RUser None)); try reflexivity; try discriminate. Qed.

  Theorem C28_statement_refuted_at : exists p, ~ propagates tbl p.
  Proof. exists p_iter. exact iter_refutes. Qed.

  Theorem C28_statement_false : ~ C28_statement tbl.
  Proof. intro H. exact (iter_refutes (H p_iter)). Qed.
End Refutation.
