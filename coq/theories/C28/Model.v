(* C28  Host failures are never swallowed -- executable model (definitions only).

   Shape of the code modelled (onflow/cadence):
   - runtime/interface.go        : the host callbacks ([cb], one constructor per method of runtime.Interface
                                   and runtime.Metrics);
   - runtime/external.go         : [ext_call], the ExternalInterface wrapper, parameterised by the wrapper table
                                   that is EXTRACTED from external.go on every run (Gen/GenC28Table.v);
   - errors/wrappanic.go, interpreter/errors.go:WrappedExternalError : panic -> ExternalError / ExternalNonError,
                                   returned error -> ExternalError;
   - runtime/recover.go          : everything that reaches the top is reported as the run's error ([run]);
   - the places where a failure is handled on the way up ([handler]):
       HTry      stdlib/account.go nativeAccountContractsTryUpdateFunction   (documented exception)
       HKeyVal   stdlib/publickey.go newPublicKeyValidationHandler + interpreter.NewPublicKeyValue (documented)
       HRewrap   runtime/checking_environment.go getProgram: second errors.WrapPanic around GetOrLoadProgram
                 (turns an ExternalNonError panic into an ExternalError; harmless)
       HIter     interpreter/interpreter.go checkValue (storage iteration)       (not documented)
       HDropErr  runtime/vm_environment.go loadCompositeType/loadInterfaceType,
                 runtime/checking_environment.go recoverProgram                  (not documented)
       HNilOnErr stdlib/bls.go BLSAggregateSignatures/BLSAggregatePublicKeys     (not documented)
   - runtime/runtime.go reportMetric / runtime/environment.go Interpret : [Metered];
   - runtime/storage.go commit, account_storage.go commit : [commit]. *)
From CV Require Export Base.Prelude.

(* ---------------------------------------------------------------- host callbacks *)
Inductive cb : Type :=
| cb_ResolveLocation | cb_GetCode | cb_GetOrLoadProgram | cb_GetValue | cb_SetValue | cb_ValueExists
| cb_AllocateSlabIndex | cb_CreateAccount | cb_AddAccountKey | cb_GetAccountKey | cb_AccountKeysCount
| cb_RevokeAccountKey | cb_UpdateAccountContractCode | cb_GetAccountContractCode
| cb_RemoveAccountContractCode | cb_GetSigningAccounts | cb_ProgramLog | cb_EmitEvent | cb_GenerateUUID
| cb_DecodeArgument | cb_GetCurrentBlockHeight | cb_GetBlockAtHeight | cb_ReadRandom | cb_VerifySignature
| cb_Hash | cb_GetAccountBalance | cb_GetAccountAvailableBalance | cb_GetStorageUsed | cb_GetStorageCapacity
| cb_ImplementationDebugLog | cb_ValidatePublicKey | cb_GetAccountContractNames | cb_RecordTrace
| cb_BLSVerifyPOP | cb_BLSAggregateSignatures | cb_BLSAggregatePublicKeys | cb_ResourceOwnerChanged
| cb_GenerateAccountID | cb_RecoverProgram | cb_ValidateAccountCapabilitiesGet
| cb_ValidateAccountCapabilitiesPublish | cb_MinimumRequiredVersion
| cb_ProgramParsed | cb_ProgramChecked | cb_ProgramInterpreted.

Definition all_cbs : list cb :=
  [cb_ResolveLocation; cb_GetCode; cb_GetOrLoadProgram; cb_GetValue; cb_SetValue; cb_ValueExists;
   cb_AllocateSlabIndex; cb_CreateAccount; cb_AddAccountKey; cb_GetAccountKey; cb_AccountKeysCount;
   cb_RevokeAccountKey; cb_UpdateAccountContractCode; cb_GetAccountContractCode;
   cb_RemoveAccountContractCode; cb_GetSigningAccounts; cb_ProgramLog; cb_EmitEvent; cb_GenerateUUID;
   cb_DecodeArgument; cb_GetCurrentBlockHeight; cb_GetBlockAtHeight; cb_ReadRandom; cb_VerifySignature;
   cb_Hash; cb_GetAccountBalance; cb_GetAccountAvailableBalance; cb_GetStorageUsed; cb_GetStorageCapacity;
   cb_ImplementationDebugLog; cb_ValidatePublicKey; cb_GetAccountContractNames; cb_RecordTrace;
   cb_BLSVerifyPOP; cb_BLSAggregateSignatures; cb_BLSAggregatePublicKeys; cb_ResourceOwnerChanged;
   cb_GenerateAccountID; cb_RecoverProgram; cb_ValidateAccountCapabilitiesGet;
   cb_ValidateAccountCapabilitiesPublish; cb_MinimumRequiredVersion;
   cb_ProgramParsed; cb_ProgramChecked; cb_ProgramInterpreted].

Definition cb_idx (k : cb) : nat :=
  match k with
  | cb_ResolveLocation => 0 | cb_GetCode => 1 | cb_GetOrLoadProgram => 2 | cb_GetValue => 3 | cb_SetValue => 4
  | cb_ValueExists => 5 | cb_AllocateSlabIndex => 6 | cb_CreateAccount => 7 | cb_AddAccountKey => 8
  | cb_GetAccountKey => 9 | cb_AccountKeysCount => 10 | cb_RevokeAccountKey => 11
  | cb_UpdateAccountContractCode => 12 | cb_GetAccountContractCode => 13 | cb_RemoveAccountContractCode => 14
  | cb_GetSigningAccounts => 15 | cb_ProgramLog => 16 | cb_EmitEvent => 17 | cb_GenerateUUID => 18
  | cb_DecodeArgument => 19 | cb_GetCurrentBlockHeight => 20 | cb_GetBlockAtHeight => 21 | cb_ReadRandom => 22
  | cb_VerifySignature => 23 | cb_Hash => 24 | cb_GetAccountBalance => 25 | cb_GetAccountAvailableBalance => 26
  | cb_GetStorageUsed => 27 | cb_GetStorageCapacity => 28 | cb_ImplementationDebugLog => 29
  | cb_ValidatePublicKey => 30 | cb_GetAccountContractNames => 31 | cb_RecordTrace => 32 | cb_BLSVerifyPOP => 33
  | cb_BLSAggregateSignatures => 34 | cb_BLSAggregatePublicKeys => 35 | cb_ResourceOwnerChanged => 36
  | cb_GenerateAccountID => 37 | cb_RecoverProgram => 38 | cb_ValidateAccountCapabilitiesGet => 39
  | cb_ValidateAccountCapabilitiesPublish => 40 | cb_MinimumRequiredVersion => 41
  | cb_ProgramParsed => 42 | cb_ProgramChecked => 43 | cb_ProgramInterpreted => 44
  end%nat.

Definition cb_eqb (a b : cb) : bool := Nat.eqb (cb_idx a) (cb_idx b).

(* callbacks of runtime.Metrics (reported after a phase, whether or not it failed) *)
Definition is_metric (k : cb) : bool :=
  match k with cb_ProgramParsed | cb_ProgramChecked | cb_ProgramInterpreted => true | _ => false end.

(* callbacks whose Go signature has an `error` result (runtime/interface.go); checked against the
   extracted table by [table_ok] *)
Definition has_err_result (k : cb) : bool :=
  match k with
  | cb_RecordTrace | cb_ResourceOwnerChanged | cb_ProgramParsed | cb_ProgramChecked | cb_ProgramInterpreted => false
  | _ => true
  end.

(* ---------------------------------------------------------------- the host: an oracle *)
Inductive fmode : Type :=
| MErr        (* the callback returns a non-nil error *)
| MPanicErr   (* the callback panics with an error value *)
| MPanicVal.  (* the callback panics with a non-error value *)

Definition fmode_eqb (a b : fmode) : bool :=
  match a, b with MErr, MErr | MPanicErr, MPanicErr | MPanicVal, MPanicVal => true | _, _ => false end.

Inductive hres : Type :=
| HOk (r : Z)
| HFail (m : fmode) (payload : Z).

(* result of the i-th call (per callback) *)
Definition oracle := cb -> nat -> hres.

(* a callback without an error result cannot return an error: such an answer of the oracle means "returns" *)
Definition answer (o : oracle) (k : cb) (i : nat) : hres :=
  match o k i with
  | HFail MErr p => if has_err_result k then HFail MErr p else HOk 0
  | h => h
  end.

(* identity of one host failure: which call failed, how, with which payload *)
Record flt : Type := mk_flt { f_cb : cb; f_idx : nat; f_mode : fmode; f_payload : Z }.

Definition flt_eqb (a b : flt) : bool :=
  cb_eqb (f_cb a) (f_cb b) && Nat.eqb (f_idx a) (f_idx b) && fmode_eqb (f_mode a) (f_mode b)
  && Z.eqb (f_payload a) (f_payload b).

(* ---------------------------------------------------------------- the ExternalInterface wrapper *)
(* One row per interface method, extracted from runtime/external.go (see Gen/GenC28Table.v):
   has_err     the method has an error result;
   defined     ExternalInterface defines the method;
   in_wrap     the forwarded call happens inside errors.WrapPanic(func(){...}) and nowhere else;
   err_wrapped the returned err goes through interpreter.WrappedExternalError before being returned. *)
Record method_row : Type := mk_row {
  row_cb : cb; row_has_err : bool; row_defined : bool; row_in_wrap : bool; row_err_wrapped : bool }.

Definition wrapped (r : method_row) : bool :=
  row_defined r && row_in_wrap r && (negb (row_has_err r) || row_err_wrapped r).

Fixpoint lookup (tbl : list method_row) (k : cb) : option method_row :=
  match tbl with
  | [] => None
  | r :: t => if cb_eqb (row_cb r) k then Some r else lookup t k
  end.

Definition panic_wrapped (tbl : list method_row) (k : cb) : bool :=
  match lookup tbl k with Some r => row_defined r && row_in_wrap r | None => false end.
Definition err_wrapped (tbl : list method_row) (k : cb) : bool :=
  match lookup tbl k with Some r => row_defined r && row_err_wrapped r | None => false end.

(* every callback is listed, wrapped, and its row agrees with the Go signature *)
Definition table_ok (tbl : list method_row) : bool :=
  forallb (fun k => match lookup tbl k with
                    | Some r => wrapped r && Bool.eqb (row_has_err r) (has_err_result k)
                    | None => false
                    end) all_cbs.

(* what the caller of ExternalInterface.M sees *)
Inductive xres : Type :=
| XOk (r : Z)
| XHost (f : flt)     (* errors.ExternalError / ExternalNonError carrying the failure *)
| XForeign.           (* unwrapped error value or foreign panic: ends as an UnexpectedError (internal) *)

Definition ext_call (tbl : list method_row) (k : cb) (i : nat) (h : hres) : xres :=
  match h with
  | HOk r => XOk r
  | HFail MErr p => if err_wrapped tbl k then XHost (mk_flt k i MErr p) else XForeign
  | HFail m p => if panic_wrapped tbl k then XHost (mk_flt k i m p) else XForeign
  end.

(* ---------------------------------------------------------------- programs *)
Inductive handler : Type := HTry | HKeyVal | HRewrap | HIter | HDropErr | HNilOnErr.

Definition handler_eqb (a b : handler) : bool :=
  match a, b with
  | HTry, HTry | HKeyVal, HKeyVal | HRewrap, HRewrap | HIter, HIter | HDropErr, HDropErr
  | HNilOnErr, HNilOnErr => true
  | _, _ => false
  end.

Inductive cmd : Type :=
| Skip
| Call (k : cb)                      (* one host call through the ExternalInterface wrapper *)
| Abort                              (* a user error raised by the program (panic, failed condition, ...) *)
| Write (slot : Z)                   (* storage write: cached, performed by the commit phase *)
| Seq (a b : cmd)
| Choice (k : cb) (a b : cmd)        (* host call whose result decides how the program continues *)
| Repeat (n : nat) (c : cmd)
| Handle (h : handler) (c : cmd)     (* c runs under one of the Go-level handlers listed above *)
| Metered (m : cb) (c : cmd).        (* reportMetric: run c, then report to metrics callback m, even if c failed *)

(* how a command ends *)
Inductive rres : Type :=
| RNorm
| RHost (f : flt) (as_error : bool)  (* external error carrying host failure f; as_error: it is an
                                        errors.ExternalError (true) or an ExternalNonError (false) *)
| RUser (carry : option flt)         (* user error; InvalidPublicKeyError carries the validation failure *)
| RInternal.

(* one host call as seen by an observer: which call, what the host answered, under which handlers *)
Record event : Type := mk_ev { e_cb : cb; e_idx : nat; e_res : hres; e_ctx : list handler }.

Record state : Type := mk_st {
  st_count : cb -> nat;              (* calls made so far, per callback *)
  st_trace : list event;             (* in order of occurrence *)
  st_pending : list Z }.             (* cached writes, oldest first *)

Definition bump (cnt : cb -> nat) (k : cb) : cb -> nat :=
  fun k' => if cb_eqb k k' then S (cnt k') else cnt k'.

(* perform host call k in state st under handler context ctx *)
Definition do_call (tbl : list method_row) (o : oracle) (ctx : list handler) (k : cb) (st : state)
  : state * xres :=
  let i := st_count st k in
  let h := answer o k i in
  (mk_st (bump (st_count st) k) (st_trace st ++ [mk_ev k i h ctx]) (st_pending st), ext_call tbl k i h).

(* effect of a handler on the way a command ends *)
Definition apply_handler (h : handler) (r : rres) : rres :=
  match h, r with
  | (HTry | HIter), RUser _ => RNorm
  | (HTry | HIter), RHost f e => if e then RNorm else r    (* recover(): UserError, ExternalError only *)
  | HRewrap, RHost f _ => RHost f true                     (* a second errors.WrapPanic around the call *)
  | HKeyVal, RHost f _ => match f_mode f with MErr => RUser (Some f) | _ => r end
  | HDropErr, RHost f _ => match f_mode f with MErr => RUser None | _ => r end
  | HNilOnErr, RHost f _ => match f_mode f with MErr => RNorm | _ => r end
  | _, _ => r
  end.

Definition of_xres (x : xres) : rres :=
  match x with
  | XOk _ => RNorm
  | XHost f => RHost f (negb (fmode_eqb (f_mode f) MPanicVal))
  | XForeign => RInternal
  end.

Fixpoint rep (body : state -> state * rres) (n : nat) (st : state) : state * rres :=
  match n with
  | O => (st, RNorm)
  | S n' => let '(st1, r) := body st in match r with RNorm => rep body n' st1 | _ => (st1, r) end
  end.

Fixpoint exec (tbl : list method_row) (o : oracle) (ctx : list handler) (c : cmd) (st : state)
  : state * rres :=
  match c with
  | Skip => (st, RNorm)
  | Call k => let '(st1, x) := do_call tbl o ctx k st in (st1, of_xres x)
  | Abort => (st, RUser None)
  | Write s => (mk_st (st_count st) (st_trace st) (st_pending st ++ [s]), RNorm)
  | Seq a b =>
      let '(st1, r) := exec tbl o ctx a st in
      match r with RNorm => exec tbl o ctx b st1 | _ => (st1, r) end
  | Choice k a b =>
      let '(st1, x) := do_call tbl o ctx k st in
      match x with
      | XOk v => if Z.even v then exec tbl o ctx a st1 else exec tbl o ctx b st1
      | _ => (st1, of_xres x)
      end
  | Repeat n c1 => rep (exec tbl o ctx c1) n st
  | Handle h c1 =>
      let '(st1, r) := exec tbl o (h :: ctx) c1 st in (st1, apply_handler h r)
  | Metered m c1 =>
      let '(st1, r) := exec tbl o ctx c1 st in
      let '(st2, x) := do_call tbl o ctx m st1 in
      match x with XOk _ => (st2, r) | _ => (st2, of_xres x) end
  end.

(* commit phase: the cached writes are sent to the ledger one by one (oldest first); the first failing
   SetValue ends the commit.  [ledger] = slots successfully written, oldest first. *)
Fixpoint commit (tbl : list method_row) (o : oracle) (ws : list Z) (st : state) (ledger : list Z)
  : state * rres * list Z :=
  match ws with
  | [] => (st, RNorm, ledger)
  | s :: rest =>
      let '(st1, x) := do_call tbl o [] cb_SetValue st in
      match x with
      | XOk _ => commit tbl o rest st1 (ledger ++ [s])
      | _ => (st1, of_xres x, ledger)
      end
  end.

Definition init_state : state := mk_st (fun _ => O) [] [].

Record outcome : Type := mk_out { out_res : rres; out_trace : list event; out_ledger : list Z }.

(* one execution: run the program; only if it ended normally, commit. *)
Definition run (tbl : list method_row) (o : oracle) (p : cmd) : outcome :=
  let '(st1, r) := exec tbl o [] p init_state in
  match r with
  | RNorm =>
      let '(st2, r2, ledger) := commit tbl o (st_pending st1) st1 [] in
      mk_out r2 (st_trace st2) ledger
  | _ => mk_out r (st_trace st1) []
  end.

(* projection to the shared result type *)
Definition class_of (r : rres) : res unit :=
  match r with
  | RNorm => Ok tt
  | RHost _ _ => Err HostFail
  | RUser _ => Err UserOther
  | RInternal => Err Internal
  end.

(* ---------------------------------------------------------------- specification side *)
Definition ev_failed (e : event) : option flt :=
  match e_res e with
  | HOk _ => None
  | HFail m p => Some (mk_flt (e_cb e) (e_idx e) m p)
  end.

Definition in_ctx (h : handler) (ctx : list handler) : bool := existsb (handler_eqb h) ctx.

(* the two documented exceptions of the property: any failure inside contracts.tryUpdate;
   an error RETURNED by ValidatePublicKey during public-key validation *)
Definition excused (e : event) : bool :=
  in_ctx HTry (e_ctx e)
  || (cb_eqb (e_cb e) cb_ValidatePublicKey && in_ctx HKeyVal (e_ctx e)
      && match e_res e with HFail MErr _ => true | _ => false end).

(* the host failures of a trace that the property does not excuse, in order of occurrence *)
Fixpoint unexcused (tr : list event) : list flt :=
  match tr with
  | [] => []
  | e :: t =>
      match ev_failed e with
      | Some f => if excused e then unexcused t else f :: unexcused t
      | None => unexcused t
      end
  end.

(* programs that use only the documented handlers, the key-validation handler only around the validation call *)
Fixpoint clean (c : cmd) : bool :=
  match c with
  | Skip | Call _ | Abort | Write _ => true
  | Seq a b | Choice _ a b => clean a && clean b
  | Repeat _ c1 => clean c1
  | Metered m c1 => is_metric m && clean c1
  | Handle HTry c1 | Handle HRewrap c1 => clean c1
  | Handle HKeyVal c1 => match c1 with Call k => cb_eqb k cb_ValidatePublicKey | _ => false end
  | Handle _ _ => false
  end.

(* no metrics callback fails under this oracle *)
Definition metrics_reliable (o : oracle) : Prop :=
  forall k i, is_metric k = true -> exists r, o k i = HOk r.

(* the property, for one program *)
Definition propagates (tbl : list method_row) (p : cmd) : Prop :=
  forall o,
    let out := run tbl o p in
    let U := unexcused (out_trace out) in
    (* some unexcused host failure happened: the run fails with an external error carrying one of them,
       namely the last one (only a metrics callback can still be called, and fail, after the first); in
       particular the run does not succeed and does not end with a user or internal error *)
    (U <> [] -> exists f e, out_res out = RHost f e /\ In f U /\ last U f = f)
    (* ... and it carries the FIRST one whenever no metrics callback fails; nothing else failed after it *)
    /\ (metrics_reliable o -> forall f rest, U = f :: rest -> (exists e, out_res out = RHost f e) /\ rest = [])
    (* whatever failure is carried was really answered by the host at that very call *)
    /\ (forall f e, out_res out = RHost f e -> o (f_cb f) (f_idx f) = HFail (f_mode f) (f_payload f))
    (* a failed run has written nothing to the ledger, unless the failure is a failing SetValue of the commit
       phase itself, in which case exactly the writes that preceded it were made *)
    /\ match out_res out with
       | RNorm => True
       | RHost f _ => f_cb f = cb_SetValue \/ out_ledger out = []
       | _ => out_ledger out = []
       end.

(* full-strength statement (all programs, including the handlers that are not documented exceptions).
   Refuted for the unchanged tree: see C28_statement_refuted in Proofs.v. *)
Definition C28_statement (tbl : list method_row) : Prop :=
  forall p, propagates tbl p.
