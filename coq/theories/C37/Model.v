(* C37 — code-shaped model of /repo/parser/lexer/lexer.go (the lexer DRIVER: next, backupOne, emit,
   endPos, startPosition, emitType, emitError, clear, Lex, Next) and of /repo/parser/lexer/state.go
   (the scanner state functions).  Model definitions only (no proofs).

   Conventions
   * bytes and runes are Z; EOF = -1; the input is a list of bytes;
   * Go `int` offsets are Z (inputs are far below 2^63, no wrap-around is modelled);
   * every place where the Go code can panic is explicit:
       - slicing l.input[o:] with o < 0 or o > len  ->  Err Crash   (runtime error: slice bounds)
       - panic("second backup")                      ->  Err Internal
       - panic(TokenLimitReachedError{})             ->  Err UserOther
     (`run` recovers every panic and returns it as the error of Lex);
   * l.tokens is kept in REVERSE emission order (l_rtokens); memory metering (memoryGauge) is not modelled;
   * the list of fields that `clear` resets is NOT written here: it is `clear_assigned`, regenerated from
     lexer.go on every run (Gen/GenC37.v), and `clear` is the fold of `reset_field` over that list. *)
From CV Require Import Base.Prelude C37.Utf8 Gen.GenC37.
From Coq Require String.
(* field names (strings are kept inside this module so that list notations stay unambiguous) *)
Module FieldNames.
  Import String.
  Local Open Scope string_scope.
  Definition eqb := String.eqb.
  Definition n_startOffset : string := "startOffset".
  Definition n_endOffset : string := "endOffset".
  Definition n_prevEndOffset : string := "prevEndOffset".
  Definition n_current : string := "current".
  Definition n_prev : string := "prev".
  Definition n_canBackup : string := "canBackup".
  Definition n_startPos : string := "startPos".
  Definition n_cursor : string := "cursor".
  Definition n_tokens : string := "tokens".
  Definition n_tokenCount : string := "tokenCount".
  Definition n_mode : string := "mode".
  Definition n_openBrackets : string := "openBrackets".
  Definition n_memoryGauge : string := "memoryGauge".
  Definition n_input : string := "input".
End FieldNames.

(* ------------------------------------------------------------------ token type codes (iota order of
   tokentype.go; tied to the regenerated list `token_types` by Proofs.token_codes_match_source) *)
Definition TokenError := 0.
Definition TokenEOF := 1.
Definition TokenSpace := 2.
Definition TokenBinaryIntegerLiteral := 3.
Definition TokenOctalIntegerLiteral := 4.
Definition TokenDecimalIntegerLiteral := 5.
Definition TokenHexadecimalIntegerLiteral := 6.
Definition TokenUnknownBaseIntegerLiteral := 7.
Definition TokenFixedPointNumberLiteral := 8.
Definition TokenIdentifier := 9.
Definition TokenString := 10.
Definition TokenPlus := 11.
Definition TokenMinus := 12.
Definition TokenStar := 13.
Definition TokenSlash := 14.
Definition TokenPercent := 15.
Definition TokenDoubleQuestionMark := 16.
Definition TokenParenOpen := 17.
Definition TokenParenClose := 18.
Definition TokenBraceOpen := 19.
Definition TokenBraceClose := 20.
Definition TokenBracketOpen := 21.
Definition TokenBracketClose := 22.
Definition TokenQuestionMark := 23.
Definition TokenQuestionMarkDot := 24.
Definition TokenComma := 25.
Definition TokenColon := 26.
Definition TokenDot := 27.
Definition TokenSemicolon := 28.
Definition TokenLeftArrow := 29.
Definition TokenLeftArrowExclamation := 30.
Definition TokenRightArrow := 31.
Definition TokenSwap := 32.
Definition TokenLess := 33.
Definition TokenLessEqual := 34.
Definition TokenLessLess := 35.
Definition TokenGreater := 36.
Definition TokenGreaterEqual := 37.
Definition TokenEqual := 38.
Definition TokenEqualEqual := 39.
Definition TokenExclamationMark := 40.
Definition TokenNotEqual := 41.
Definition TokenBlockCommentStart := 42.
Definition TokenBlockCommentEnd := 43.
Definition TokenBlockCommentContent := 44.
Definition TokenLineComment := 45.
Definition TokenAmpersand := 46.
Definition TokenAmpersandAmpersand := 47.
Definition TokenCaret := 48.
Definition TokenVerticalBar := 49.
Definition TokenVerticalBarVerticalBar := 50.
Definition TokenAt := 51.
Definition TokenAsExclamationMark := 52.
Definition TokenAsQuestionMark := 53.
Definition TokenPragma := 54.
Definition TokenStringTemplate := 55.

(* ------------------------------------------------------------------ data *)
Record pos := mkPos { p_off : Z; p_line : Z; p_col : Z }.

(* t_aux renders SpaceOrError: 0 = nil, 1 = Space{ContainsNewline:false}, 2 = Space{true}, 3 = an error *)
Record token := mkTok { t_ty : Z; t_aux : Z; t_start : pos; t_end : pos }.

Record lexer := mkLexer {
  l_input : list Z;
  l_rtokens : list token;
  l_startLine : Z;            (* startPos.line *)
  l_startCol : Z;             (* startPos.column *)
  l_startOffset : Z;
  l_endOffset : Z;
  l_prevEndOffset : Z;
  l_cursor : Z;
  l_tokenCount : Z;
  l_current : Z;
  l_prev : Z;
  l_canBackup : bool;
  l_mode : Z;                 (* 0 = lexerModeNormal, 1 = lexerModeStringInterpolation *)
  l_openBrackets : Z }.

Definition set_input v l := mkLexer v (l_rtokens l) (l_startLine l) (l_startCol l) (l_startOffset l) (l_endOffset l) (l_prevEndOffset l) (l_cursor l) (l_tokenCount l) (l_current l) (l_prev l) (l_canBackup l) (l_mode l) (l_openBrackets l).
Definition set_rtokens v l := mkLexer (l_input l) v (l_startLine l) (l_startCol l) (l_startOffset l) (l_endOffset l) (l_prevEndOffset l) (l_cursor l) (l_tokenCount l) (l_current l) (l_prev l) (l_canBackup l) (l_mode l) (l_openBrackets l).
Definition set_startPos ln c l := mkLexer (l_input l) (l_rtokens l) ln c (l_startOffset l) (l_endOffset l) (l_prevEndOffset l) (l_cursor l) (l_tokenCount l) (l_current l) (l_prev l) (l_canBackup l) (l_mode l) (l_openBrackets l).
Definition set_startOffset v l := mkLexer (l_input l) (l_rtokens l) (l_startLine l) (l_startCol l) v (l_endOffset l) (l_prevEndOffset l) (l_cursor l) (l_tokenCount l) (l_current l) (l_prev l) (l_canBackup l) (l_mode l) (l_openBrackets l).
Definition set_endOffset v l := mkLexer (l_input l) (l_rtokens l) (l_startLine l) (l_startCol l) (l_startOffset l) v (l_prevEndOffset l) (l_cursor l) (l_tokenCount l) (l_current l) (l_prev l) (l_canBackup l) (l_mode l) (l_openBrackets l).
Definition set_prevEndOffset v l := mkLexer (l_input l) (l_rtokens l) (l_startLine l) (l_startCol l) (l_startOffset l) (l_endOffset l) v (l_cursor l) (l_tokenCount l) (l_current l) (l_prev l) (l_canBackup l) (l_mode l) (l_openBrackets l).
Definition set_cursor v l := mkLexer (l_input l) (l_rtokens l) (l_startLine l) (l_startCol l) (l_startOffset l) (l_endOffset l) (l_prevEndOffset l) v (l_tokenCount l) (l_current l) (l_prev l) (l_canBackup l) (l_mode l) (l_openBrackets l).
Definition set_tokenCount v l := mkLexer (l_input l) (l_rtokens l) (l_startLine l) (l_startCol l) (l_startOffset l) (l_endOffset l) (l_prevEndOffset l) (l_cursor l) v (l_current l) (l_prev l) (l_canBackup l) (l_mode l) (l_openBrackets l).
Definition set_current v l := mkLexer (l_input l) (l_rtokens l) (l_startLine l) (l_startCol l) (l_startOffset l) (l_endOffset l) (l_prevEndOffset l) (l_cursor l) (l_tokenCount l) v (l_prev l) (l_canBackup l) (l_mode l) (l_openBrackets l).
Definition set_prev v l := mkLexer (l_input l) (l_rtokens l) (l_startLine l) (l_startCol l) (l_startOffset l) (l_endOffset l) (l_prevEndOffset l) (l_cursor l) (l_tokenCount l) (l_current l) v (l_canBackup l) (l_mode l) (l_openBrackets l).
Definition set_canBackup v l := mkLexer (l_input l) (l_rtokens l) (l_startLine l) (l_startCol l) (l_startOffset l) (l_endOffset l) (l_prevEndOffset l) (l_cursor l) (l_tokenCount l) (l_current l) (l_prev l) v (l_mode l) (l_openBrackets l).
Definition set_mode v l := mkLexer (l_input l) (l_rtokens l) (l_startLine l) (l_startCol l) (l_startOffset l) (l_endOffset l) (l_prevEndOffset l) (l_cursor l) (l_tokenCount l) (l_current l) (l_prev l) (l_canBackup l) v (l_openBrackets l).
Definition set_openBrackets v l := mkLexer (l_input l) (l_rtokens l) (l_startLine l) (l_startCol l) (l_startOffset l) (l_endOffset l) (l_prevEndOffset l) (l_cursor l) (l_tokenCount l) (l_current l) (l_prev l) (l_canBackup l) (l_mode l) v.

(* ------------------------------------------------------------------ clear / Lex *)
(* the value `clear` assigns to one field (lexer.go: clear). Unknown names change nothing. *)
Definition reset_field (f : String.string) (l : lexer) : lexer :=
  if FieldNames.eqb f FieldNames.n_startOffset then set_startOffset 0 l
  else if FieldNames.eqb f FieldNames.n_endOffset then set_endOffset 0 l
  else if FieldNames.eqb f FieldNames.n_prevEndOffset then set_prevEndOffset 0 l
  else if FieldNames.eqb f FieldNames.n_current then set_current EOFr l
  else if FieldNames.eqb f FieldNames.n_prev then set_prev EOFr l
  else if FieldNames.eqb f FieldNames.n_canBackup then set_canBackup false l
  else if FieldNames.eqb f FieldNames.n_startPos then set_startPos 1 0 l           (* position{line: 1} *)
  else if FieldNames.eqb f FieldNames.n_cursor then set_cursor 0 l
  else if FieldNames.eqb f FieldNames.n_tokens then set_rtokens [] l                (* l.tokens[:0] *)
  else if FieldNames.eqb f FieldNames.n_tokenCount then set_tokenCount 0 l
  else if FieldNames.eqb f FieldNames.n_mode then set_mode 0 l
  else if FieldNames.eqb f FieldNames.n_openBrackets then set_openBrackets 0 l
  else l.

Definition clear (l : lexer) : lexer := fold_left (fun l f => reset_field f l) clear_assigned l.

(* the state a fresh lexer from pool.New has: all zero values (tokens empty) *)
Definition fresh_lexer : lexer := mkLexer [] [] 0 0 0 0 0 0 0 0 0 false 0 0.

(* ------------------------------------------------------------------ driver *)
Definition in_len (l : lexer) : Z := zlen (l_input l).

(* func (l *lexer) next() rune *)
Definition next (l : lexer) : lexer :=
  let endOffset := l_endOffset l in
  let rw := if endOffset <? in_len l then decode_rune (drop endOffset (l_input l)) else (EOFr, 1) in
  set_current (fst rw)
    (set_endOffset (endOffset + snd rw)
      (set_prev (l_current l)
        (set_prevEndOffset endOffset
          (set_canBackup true l)))).

(* func (l *lexer) backupOne() *)
Definition backupOne (l : lexer) : res lexer :=
  if negb (l_canBackup l) then Err Internal
  else Ok (set_current (l_prev l) (set_endOffset (l_prevEndOffset l) (set_canBackup false l))).

(* the loop of endPos: for offset := startOffset; offset < endOffset-1; offset += w *)
Fixpoint endpos_loop (fuel : nat) (inp : list Z) (offset endm1 line col : Z) : res (Z * Z) :=
  if offset <? endm1 then
    match fuel with
    | O => Err OutOfFuel
    | S fuel' =>
      if (offset <? 0) || (zlen inp <? offset) then Err Crash      (* b := l.input[offset:] *)
      else
        let rw := decode_rune (drop offset inp) in
        let w := if snd rw <=? 0 then 1 else snd rw in
        if fst rw =? 10 then endpos_loop fuel' inp (offset + w) endm1 (line + 1) 0
        else endpos_loop fuel' inp (offset + w) endm1 line (col + 1)
    end
  else Ok (line, col).

Definition endpos_at (inp : list Z) (so e line col : Z) : res (Z * Z) :=
  endpos_loop (Z.to_nat (e - so)) inp so (e - 1) line col.

(* func (l *lexer) endPos() position *)
Definition endPos (l : lexer) : res (Z * Z) :=
  endpos_at (l_input l) (l_startOffset l) (l_endOffset l) (l_startLine l) (l_startCol l).

(* func (l *lexer) startPosition() ast.Position *)
Definition startPosition (l : lexer) : pos := mkPos (l_startOffset l) (l_startLine l) (l_startCol l).

(* func (l *lexer) emit(ty, spaceOrError, rangeStart, consume) *)
Definition emit (l : lexer) (ty aux : Z) (rangeStart : pos) (consume : bool) : res lexer :=
  if token_limit <=? Z.of_nat (length (l_rtokens l)) then Err UserOther
  else
    let* ep := endPos l in
    let tok := mkTok ty aux rangeStart (mkPos (l_endOffset l - 1) (fst ep) (snd ep)) in
    let l1 := set_tokenCount (Z.of_nat (S (length (l_rtokens l)))) (set_rtokens (tok :: l_rtokens l) l) in
    if consume then
      let o := l_endOffset l - 1 in
      if (o <? 0) || (in_len l <? o) then Err Crash                 (* l.input[l.endOffset-1:] *)
      else
        let r := fst (decode_rune (drop o (l_input l))) in
        let l2 := set_startOffset (l_endOffset l) l1 in
        if r =? 10 then Ok (set_startPos (fst ep + 1) 0 l2)
        else Ok (set_startPos (fst ep) (snd ep + 1) l2)
    else Ok l1.

Definition emitType (l : lexer) (ty : Z) : res lexer := emit l ty 0 (startPosition l) true.

Definition emitError (l : lexer) : res lexer :=
  let* ep := endPos l in
  emit l TokenError 3 (mkPos (l_endOffset l - 1) (fst ep) (snd ep)) false.

(* func (l *lexer) Next() Token, at the end of the token stream: the synthetic EOF token *)
Definition eof_token (l : lexer) : res token :=
  let* ep := endPos l in
  let p := mkPos (l_endOffset l - 1) (fst ep) (snd ep) in
  Ok (mkTok TokenEOF 0 p p).

(* ------------------------------------------------------------------ scanner: state.go and the scan functions of lexer.go *)
Inductive sfn :=
| SRoot | SNumber | SSpace (startIsNewline : bool) | SIdentifier | SString | SLineComment
| SBlockComment (nesting : Z) | SStop.

(* blockCommentState(nesting): nesting < 0 gives rootState *)
Definition blockCommentState (n : Z) : sfn := if n <? 0 then SRoot else SBlockComment n.

Definition isIdentifierRune (r : Z) : bool :=
  ((97 <=? r) && (r <=? 122)) || ((65 <=? r) && (r <=? 90)) || ((48 <=? r) && (r <=? 57)) || (r =? 95).
Definition isLetter (r : Z) : bool := ((97 <=? r) && (r <=? 122)) || ((65 <=? r) && (r <=? 90)).
Definition isDecimalDigitOrUnderscore (r : Z) : bool := ((48 <=? r) && (r <=? 57)) || (r =? 95).
Definition isSpaceRune (r : Z) : bool := (r =? 32) || (r =? 9) || (r =? 13) || (r =? 10).
Definition isBinary (r : Z) : bool := (r =? 48) || (r =? 49) || (r =? 95).
Definition isOctal (r : Z) : bool := ((48 <=? r) && (r <=? 55)) || (r =? 95).
Definition isHex (r : Z) : bool :=
  ((48 <=? r) && (r <=? 57)) || ((97 <=? r) && (r <=? 102)) || ((65 <=? r) && (r <=? 70)) || (r =? 95).
Definition notLineEnd (r : Z) : bool := negb ((r =? 10) || (r =? EOFr)).

(* func (l *lexer) acceptWhile(f); `sawnl` accumulates scanSpace's containsNewline *)
Fixpoint acceptWhile (fuel : nat) (f : Z -> bool) (l : lexer) (sawnl : bool) : res (lexer * bool) :=
  match fuel with
  | O => Err OutOfFuel
  | S fuel' =>
    let l1 := next l in
    let r := l_current l1 in
    if f r then acceptWhile fuel' f l1 (sawnl || (r =? 10))
    else let* l2 := backupOne l1 in Ok (l2, sawnl)
  end.

Definition acceptW fuel f l : res lexer := let* x := acceptWhile fuel f l false in Ok (fst x).

(* func (l *lexer) acceptOne(r rune) bool *)
Definition acceptOne (l : lexer) (r : Z) : res (lexer * bool) :=
  let l1 := next l in
  if l_current l1 =? r then Ok (l1, true)
  else let* l2 := backupOne l1 in Ok (l2, false).

(* func (l *lexer) scanFixedPointRemainder() *)
Definition scanFixedPointRemainder fuel (l : lexer) : res lexer :=
  let l1 := next l in
  if negb (isDecimalDigitOrUnderscore (l_current l1)) then
    let* l2 := backupOne l1 in emitError l2
  else acceptW fuel isDecimalDigitOrUnderscore l1.

(* func (l *lexer) scanDecimalOrFixedPointRemainder() TokenType *)
Definition scanDecimalOrFixedPointRemainder fuel (l : lexer) : res (lexer * Z) :=
  let* l1 := acceptW fuel isDecimalDigitOrUnderscore l in
  let l2 := next l1 in
  if l_current l2 =? 46 then
    let* l3 := scanFixedPointRemainder fuel l2 in Ok (l3, TokenFixedPointNumberLiteral)
  else let* l3 := backupOne l2 in Ok (l3, TokenDecimalIntegerLiteral).

(* func (l *lexer) scanString(quote rune); the loop variable r is carried explicitly *)
Fixpoint scanString_loop (fuel : nat) (l : lexer) (r : Z) : res lexer :=
  match fuel with
  | O => Err OutOfFuel
  | S fuel' =>
    if r =? 34 then Ok l
    else if (r =? 10) || (r =? EOFr) then backupOne l
    else if r =? 92 then
      let tmpBackupOffset := l_prevEndOffset l in
      let tmpBackup := l_prev l in
      let l1 := next l in
      let r1 := l_current l1 in
      if r1 =? 40 then
        Ok (set_canBackup false (set_current tmpBackup (set_endOffset tmpBackupOffset (set_mode 1 l1))))
      else if (r1 =? 10) || (r1 =? EOFr) then backupOne l1
      else let l2 := next l1 in scanString_loop fuel' l2 (l_current l2)
    else let l1 := next l in scanString_loop fuel' l1 (l_current l1)
  end.

Definition scanString fuel (l : lexer) : res lexer :=
  let l1 := next l in scanString_loop fuel l1 (l_current l1).

Definition ok_root (l : res lexer) : res (lexer * sfn) := let* l' := l in Ok (l', SRoot).
Definition lerror (l : lexer) : res (lexer * sfn) := let* l' := emitError l in Ok (l', SStop).

(* one iteration of the `for` loop of rootState (returning SRoot continues the loop) *)
Definition rootState (l0 : lexer) : res (lexer * sfn) :=
  let l := next l0 in
  let r := l_current l in
  if r =? EOFr then Ok (l, SStop)
  else if r =? 43 then ok_root (emitType l TokenPlus)
  else if r =? 45 then
    let l1 := next l in
    if l_current l1 =? 62 then ok_root (emitType l1 TokenRightArrow)
    else ok_root (let* l2 := backupOne l1 in emitType l2 TokenMinus)
  else if r =? 42 then ok_root (emitType l TokenStar)
  else if r =? 37 then ok_root (emitType l TokenPercent)
  else if r =? 40 then
    let l1 := if l_mode l =? 1 then set_openBrackets (l_openBrackets l + 1) l else l in
    ok_root (emitType l1 TokenParenOpen)
  else if r =? 41 then
    let* l1 := emitType l TokenParenClose in
    if l_mode l1 =? 1 then
      let l2 := set_openBrackets (l_openBrackets l1 - 1) l1 in
      if l_openBrackets l2 =? 0 then Ok (set_mode 0 l2, SString) else Ok (l2, SRoot)
    else Ok (l1, SRoot)
  else if r =? 123 then ok_root (emitType l TokenBraceOpen)
  else if r =? 125 then ok_root (emitType l TokenBraceClose)
  else if r =? 91 then ok_root (emitType l TokenBracketOpen)
  else if r =? 93 then ok_root (emitType l TokenBracketClose)
  else if r =? 44 then ok_root (emitType l TokenComma)
  else if r =? 59 then ok_root (emitType l TokenSemicolon)
  else if r =? 58 then ok_root (emitType l TokenColon)
  else if r =? 46 then ok_root (emitType l TokenDot)
  else if r =? 61 then
    let* x := acceptOne l 61 in
    ok_root (emitType (fst x) (if snd x then TokenEqualEqual else TokenEqual))
  else if r =? 64 then ok_root (emitType l TokenAt)
  else if r =? 35 then ok_root (emitType l TokenPragma)
  else if r =? 38 then
    let* x := acceptOne l 38 in
    ok_root (emitType (fst x) (if snd x then TokenAmpersandAmpersand else TokenAmpersand))
  else if r =? 94 then ok_root (emitType l TokenCaret)
  else if r =? 124 then
    let* x := acceptOne l 124 in
    ok_root (emitType (fst x) (if snd x then TokenVerticalBarVerticalBar else TokenVerticalBar))
  else if r =? 62 then
    let l1 := next l in
    if l_current l1 =? 61 then ok_root (emitType l1 TokenGreaterEqual)
    else ok_root (let* l2 := backupOne l1 in emitType l2 TokenGreater)
  else if r =? 95 then Ok (l, SIdentifier)
  else if (r =? 32) || (r =? 9) || (r =? 13) then Ok (l, SSpace false)
  else if r =? 10 then Ok (l, SSpace true)
  else if (48 <=? r) && (r <=? 57) then Ok (l, SNumber)
  else if r =? 34 then Ok (l, SString)
  else if r =? 92 then
    if l_mode l =? 1 then
      let l1 := next l in
      if l_current l1 =? 40 then
        let* l2 := emitType l1 TokenStringTemplate in
        Ok (set_openBrackets (l_openBrackets l2 + 1) l2, SRoot)
      else Ok (l1, SRoot)
    else lerror l
  else if r =? 47 then
    let l1 := next l in
    if l_current l1 =? 47 then Ok (l1, SLineComment)
    else if l_current l1 =? 42 then
      let* l2 := emitType l1 TokenBlockCommentStart in Ok (l2, blockCommentState 0)
    else ok_root (let* l2 := backupOne l1 in emitType l2 TokenSlash)
  else if r =? 63 then
    let l1 := next l in
    if l_current l1 =? 63 then ok_root (emitType l1 TokenDoubleQuestionMark)
    else if l_current l1 =? 46 then ok_root (emitType l1 TokenQuestionMarkDot)
    else ok_root (let* l2 := backupOne l1 in emitType l2 TokenQuestionMark)
  else if r =? 33 then
    let* x := acceptOne l 61 in
    ok_root (emitType (fst x) (if snd x then TokenNotEqual else TokenExclamationMark))
  else if r =? 60 then
    let l1 := next l in
    let r1 := l_current l1 in
    if r1 =? 45 then
      let l2 := next l1 in
      if l_current l2 =? 33 then ok_root (emitType l2 TokenLeftArrowExclamation)
      else if l_current l2 =? 62 then ok_root (emitType l2 TokenSwap)
      else ok_root (let* l3 := backupOne l2 in emitType l3 TokenLeftArrow)
    else if r1 =? 60 then ok_root (emitType l1 TokenLessLess)
    else if r1 =? 61 then ok_root (emitType l1 TokenLessEqual)
    else ok_root (let* l2 := backupOne l1 in emitType l2 TokenLess)
  else if isLetter r then Ok (l, SIdentifier)
  else lerror l.

(* func numberState(l *lexer) stateFn *)
Definition numberState fuel (l : lexer) : res (lexer * sfn) :=
  if l_current l =? 48 then
    let l1 := next l in
    let r := l_current l1 in
    if r =? 98 then ok_root (let* l2 := acceptW fuel isBinary l1 in emitType l2 TokenBinaryIntegerLiteral)
    else if r =? 111 then ok_root (let* l2 := acceptW fuel isOctal l1 in emitType l2 TokenOctalIntegerLiteral)
    else if r =? 120 then ok_root (let* l2 := acceptW fuel isHex l1 in emitType l2 TokenHexadecimalIntegerLiteral)
    else if isDecimalDigitOrUnderscore r then
      ok_root (let* x := scanDecimalOrFixedPointRemainder fuel l1 in emitType (fst x) (snd x))
    else if r =? 46 then
      ok_root (let* l2 := scanFixedPointRemainder fuel l1 in emitType l2 TokenFixedPointNumberLiteral)
    else if r =? EOFr then
      ok_root (let* l2 := backupOne l1 in emitType l2 TokenDecimalIntegerLiteral)
    else if isLetter r then
      let l2 := next l1 in
      ok_root (let* x := scanDecimalOrFixedPointRemainder fuel l2 in
               emitType (fst x)
                 (if snd x =? TokenDecimalIntegerLiteral then TokenUnknownBaseIntegerLiteral else snd x))
    else ok_root (let* l2 := backupOne l1 in emitType l2 TokenDecimalIntegerLiteral)
  else
    ok_root (let* x := scanDecimalOrFixedPointRemainder fuel l in emitType (fst x) (snd x)).

(* func spaceState(startIsNewline bool) stateFn *)
Definition spaceState fuel (startIsNewline : bool) (l : lexer) : res (lexer * sfn) :=
  let* x := acceptWhile fuel isSpaceRune l false in
  let containsNewline := snd x || startIsNewline in
  ok_root (emit (fst x) TokenSpace (if containsNewline then 2 else 1) (startPosition (fst x)) true).

(* l.word() == "as" *)
Definition word_is_as (l : lexer) : bool :=
  match firstn (Z.to_nat (l_endOffset l - l_startOffset l)) (drop (l_startOffset l) (l_input l)) with
  | [97; 115] => true
  | _ => false
  end.

(* func identifierState(l *lexer) stateFn *)
Definition identifierState fuel (l : lexer) : res (lexer * sfn) :=
  let* l1 := acceptW fuel isIdentifierRune l in
  if word_is_as l1 then
    let l2 := next l1 in
    if l_current l2 =? 63 then ok_root (emitType l2 TokenAsQuestionMark)
    else if l_current l2 =? 33 then ok_root (emitType l2 TokenAsExclamationMark)
    else ok_root (let* l3 := backupOne l2 in emitType l3 TokenIdentifier)
  else ok_root (emitType l1 TokenIdentifier).

Definition stringState fuel (l : lexer) : res (lexer * sfn) :=
  ok_root (let* l1 := scanString fuel l in emitType l1 TokenString).

Definition lineCommentState fuel (l : lexer) : res (lexer * sfn) :=
  ok_root (let* l1 := acceptW fuel notLineEnd l in emitType l1 TokenLineComment).

(* the closure returned by blockCommentState(nesting) for nesting >= 0 *)
Definition blockCommentStep (nesting : Z) (l0 : lexer) : res (lexer * sfn) :=
  let l := next l0 in
  let r := l_current l in
  if r =? EOFr then Ok (l, SStop)
  else if r =? 47 then
    let beforeSlashOffset := l_prevEndOffset l in
    let* x := acceptOne l 42 in
    let l1 := fst x in
    if snd x then
      let* l2 :=
        if 0 <? beforeSlashOffset - l_startOffset l1 then
          let starOffset := l_endOffset l1 in
          let* l3 := emitType (set_endOffset beforeSlashOffset l1) TokenBlockCommentContent in
          Ok (set_endOffset starOffset l3)
        else Ok l1 in
      let* l4 := emitType l2 TokenBlockCommentStart in
      Ok (l4, blockCommentState (nesting + 1))
    else Ok (l1, blockCommentState nesting)
  else if r =? 42 then
    let beforeStarOffset := l_prevEndOffset l in
    let* x := acceptOne l 47 in
    let l1 := fst x in
    if snd x then
      let* l2 :=
        if 0 <? beforeStarOffset - l_startOffset l1 then
          let slashOffset := l_endOffset l1 in
          let* l3 := emitType (set_endOffset beforeStarOffset l1) TokenBlockCommentContent in
          Ok (set_endOffset slashOffset l3)
        else Ok l1 in
      let* l4 := emitType l2 TokenBlockCommentEnd in
      Ok (l4, blockCommentState (nesting - 1))
    else Ok (l1, blockCommentState nesting)
  else Ok (l, blockCommentState nesting).

Definition step_state fuel (s : sfn) (l : lexer) : res (lexer * sfn) :=
  match s with
  | SRoot => rootState l
  | SNumber => numberState fuel l
  | SSpace b => spaceState fuel b l
  | SIdentifier => identifierState fuel l
  | SString => stringState fuel l
  | SLineComment => lineCommentState fuel l
  | SBlockComment n => blockCommentStep n l
  | SStop => Ok (l, SStop)
  end.

(* func (l *lexer) run(state stateFn): for state != nil { state = state(l) }.
   Returns the lexer reached and the recovered panic, if any (the tokens emitted before it stay). *)
Fixpoint run (fuel ifuel : nat) (s : sfn) (l : lexer) : lexer * option err :=
  match s with
  | SStop => (l, None)
  | _ =>
    match fuel with
    | O => (l, Some OutOfFuel)
    | S fuel' =>
      match step_state ifuel s l with
      | Ok (l', s') => run fuel' ifuel s' l'
      | Err e => (l, Some e)
      end
    end
  end.

(* func Lex(input, memoryGauge): l := pool.Get(); l.clear(); l.input = input; l.run(rootState).
   `pooled` is whatever lexer the pool hands out (a fresh one or one used before). *)
Definition Lex (pooled : lexer) (input : list Z) : lexer * option err :=
  let n := length input in
  run (2 * n + 8) (n + 4) SRoot (set_input input (clear pooled)).

(* the observable token stream: emitted tokens followed by the synthetic EOF token of Next() *)
Definition token_stream (pooled : lexer) (input : list Z) : res (list token) * option err :=
  let le := Lex pooled input in
  ((let* eof := eof_token (fst le) in Ok (rev (eof :: l_rtokens (fst le)))), snd le).
