(* C37 — the lexer driver over an ABSTRACT scanner.
   Whatever the scanner (state.go) does, the only way it produces tokens and moves the start of the
   current word is by calling emit (via emitType / spaceState) or emitError with some value of endOffset.
   An abstract run is therefore a list of emissions (kind, endOffset); [demit] is lexer.emit / emitError
   restricted to the fields they read and write (startOffset, startPos, tokens).  Model definitions only. *)
From CV Require Import Base.Prelude C37.Utf8 C37.Model Gen.GenC37.

Record dstate := mkD { d_so : Z; d_line : Z; d_col : Z; d_rtoks : list token }.

Inductive ekind := KToken (ty aux : Z) | KError.

Definition demit (inp : list Z) (d : dstate) (k : ekind) (e : Z) : res dstate :=
  if token_limit <=? Z.of_nat (length (d_rtoks d)) then Err UserOther
  else
    let* ep := endpos_at inp (d_so d) e (d_line d) (d_col d) in
    let endp := mkPos (e - 1) (fst ep) (snd ep) in
    match k with
    | KError => Ok (mkD (d_so d) (d_line d) (d_col d) (mkTok TokenError 3 endp endp :: d_rtoks d))
    | KToken ty aux =>
      let tok := mkTok ty aux (mkPos (d_so d) (d_line d) (d_col d)) endp in
      let o := e - 1 in
      if (o <? 0) || (zlen inp <? o) then Err Crash
      else
        if fst (decode_rune (drop o inp)) =? 10 then Ok (mkD e (fst ep + 1) 0 (tok :: d_rtoks d))
        else Ok (mkD e (fst ep) (snd ep + 1) (tok :: d_rtoks d))
    end.

Fixpoint drun (inp : list Z) (d : dstate) (ems : list (ekind * Z)) : res dstate :=
  match ems with
  | [] => Ok d
  | (k, e) :: r => let* d' := demit inp d k e in drun inp d' r
  end.

(* the state after clear() *)
Definition d_init : dstate := mkD 0 1 0 [].

(* projection of a lexer onto the fields emit reads and writes *)
Definition D (l : lexer) : dstate := mkD (l_startOffset l) (l_startLine l) (l_startCol l) (l_rtokens l).

(* the scanner never emits TokenError through emitType *)
Definition kind_ok (k : ekind) : Prop :=
  match k with KToken ty _ => ty <> TokenError | KError => True end.

(* observable well-formedness of a token stream (emission order), [cov] = bytes covered so far:
   every token ends inside the input and not before the covered prefix, i.e. every emission happened
   with startOffset < endOffset <= len(input) — the scanner consumed at least one byte, within the input *)
Fixpoint regular (inp : list Z) (cov : Z) (toks : list token) : Prop :=
  match toks with
  | [] => True
  | t :: r =>
    cov <= p_off (t_end t) < zlen inp /\
    regular inp (if t_ty t =? TokenError then cov else p_off (t_end t) + 1) r
  end.

Definition is_marker (t : token) : bool := t_ty t =? TokenError.
Definition tok_range (t : token) : Z * Z := (p_off (t_start t), p_off (t_end t)).
(* ranges of the consuming (non-error) tokens, in order *)
Definition cons_ranges (toks : list token) : list (Z * Z) :=
  map tok_range (filter (fun t => negb (is_marker t)) toks).

(* ------------------------------------------------------------------ statement vocabulary *)
From CV Require Import C37.Spec.

(* a token's positions agree with the specification:
   offsets in range and ordered; both lines are the line of the offset (any bytes);
   if the input up to the token's end is ASCII, line and column are exactly pos_of_offset *)
Definition tok_ok (inp : list Z) (t : token) : Prop :=
  0 <= p_off (t_start t) <= p_off (t_end t) /\ p_off (t_end t) < zlen inp /\
  p_line (t_start t) = line_of_offset inp (p_off (t_start t)) /\
  p_line (t_end t) = line_of_offset inp (p_off (t_end t)) /\
  (ascii (firstn (Z.to_nat (p_off (t_end t) + 1)) inp) ->
     (p_line (t_start t), p_col (t_start t)) = pos_of_offset inp (p_off (t_start t)) /\
     (p_line (t_end t), p_col (t_end t)) = pos_of_offset inp (p_off (t_end t))).

(* invariant of the driver state *)
Definition dinv (inp : list Z) (d : dstate) : Prop :=
  0 <= d_so d <= zlen inp /\
  d_line d = line_of_offset inp (d_so d) /\
  (ascii (firstn (Z.to_nat (d_so d)) inp) -> (d_line d, d_col d) = pos_of_offset inp (d_so d)) /\
  Forall (tok_ok inp) (d_rtoks d) /\
  tiles 0 (d_so d) (cons_ranges (rev (d_rtoks d))).
