(* C37 — proofs about the lexer driver over an abstract scanner (Abstract.v). *)
From CV Require Import Base.Prelude C37.Utf8 C37.Spec C37.Model C37.Utf8Facts C37.EndPos C37.Abstract Gen.GenC37.
From Coq Require Import Lia.

(* ------------------------------------------------------------------ specification lemmas *)

Lemma pos_scan_app : forall x y line col,
  pos_scan (x ++ y) line col = pos_scan y (fst (pos_scan x line col)) (snd (pos_scan x line col)).
Proof.
  induction x; simpl; intros; [reflexivity|]. destruct (a =? 10); apply IHx.
Qed.

Lemma pos_scan_line : forall l line col, fst (pos_scan l line col) = line + count_nl l.
Proof.
  induction l; simpl; intros; [lia|]. destruct (a =? 10); rewrite IHl; lia.
Qed.

Lemma firstn_drop_split : forall a b inp, 0 <= a -> 0 <= b ->
  firstn (Z.to_nat (a + b)) inp = firstn (Z.to_nat a) inp ++ firstn (Z.to_nat b) (drop a inp).
Proof.
  intros. replace (Z.to_nat (a + b)) with (Z.to_nat a + Z.to_nat b)%nat by lia.
  apply firstn_plus.
Qed.

Lemma drop_cons_nth : forall a inp, 0 <= a < zlen inp -> drop a inp = nth (Z.to_nat a) inp 0 :: drop (a + 1) inp.
Proof.
  intros a inp H. unfold drop, zlen in *. replace (Z.to_nat (a + 1)) with (S (Z.to_nat a)) by lia.
  assert (Hlt : (Z.to_nat a < length inp)%nat) by lia. clear H.
  generalize dependent inp. induction (Z.to_nat a); intros; destruct inp; simpl in *; try lia; [reflexivity|].
  apply IHn. lia.
Qed.

Lemma line_of_offset_split : forall inp a b, 0 <= a -> 0 <= b ->
  line_of_offset inp (a + b) = line_of_offset inp a + count_nl (firstn (Z.to_nat b) (drop a inp)).
Proof.
  intros. unfold line_of_offset. rewrite firstn_drop_split, count_nl_app by lia. lia.
Qed.

Lemma pos_of_offset_split : forall inp a b, 0 <= a -> 0 <= b ->
  pos_of_offset inp (a + b) =
  pos_scan (firstn (Z.to_nat b) (drop a inp)) (fst (pos_of_offset inp a)) (snd (pos_of_offset inp a)).
Proof.
  intros. unfold pos_of_offset. rewrite firstn_drop_split, pos_scan_app by lia. reflexivity.
Qed.

Lemma ascii_app : forall x y, ascii (x ++ y) <-> ascii x /\ ascii y.
Proof. intros. unfold ascii. apply Forall_app. Qed.

Lemma tiles_app : forall r a b s e, tiles a b r -> s = b -> s <= e -> tiles a (e + 1) (r ++ [(s, e)]).
Proof.
  induction r as [|[s0 e0] r]; simpl; intros a b s e H Hs He.
  - subst. repeat split; lia.
  - destruct H as (H1 & H2 & H3). repeat split; try assumption. eapply IHr; eauto.
Qed.

Lemma cons_ranges_app : forall x y, cons_ranges (x ++ y) = cons_ranges x ++ cons_ranges y.
Proof. intros. unfold cons_ranges. rewrite filter_app, map_app. reflexivity. Qed.

(* ------------------------------------------------------------------ one emission *)

Lemma endpos_at_ep : forall inp so e line col, 0 <= so -> e <= zlen inp + 1 ->
  endpos_at inp so e line col = ep_list (Z.to_nat (e - so)) (drop so inp) (e - 1 - so) line col.
Proof. intros. unfold endpos_at. apply endpos_loop_ep; lia. Qed.

Lemma demit_inv : forall inp d k e d',
  dinv inp d -> kind_ok k -> d_so d < e <= zlen inp ->
  demit inp d k e = Ok d' -> dinv inp d'.
Proof.
  intros inp d k e d' (Hso & Hline & Hcol & Htoks & Htile) Hk He Hd.
  unfold demit in Hd. destruct (token_limit <=? Z.of_nat (length (d_rtoks d))); [discriminate|].
  rewrite endpos_at_ep in Hd by lia.
  set (rest := drop (d_so d) inp) in *. set (n := e - 1 - d_so d) in *.
  assert (Hzr : zlen rest = zlen inp - d_so d) by (apply zlen_drop; lia).
  destruct (ep_lines (Z.to_nat (e - d_so d)) rest n (d_line d) (d_col d) ltac:(lia) ltac:(lia))
    as (l' & c' & ov & Eep & Hl' & _).
  rewrite Eep in Hd. cbn [bind fst snd] in Hd.
  (* facts about the end position *)
  assert (Hendline : l' = line_of_offset inp (e - 1)).
  { replace (e - 1) with (d_so d + n) by lia. rewrite line_of_offset_split by lia. fold rest. lia. }
  assert (Hsplit_e : Z.to_nat (e - 1 + 1) = Z.to_nat e) by (f_equal; lia).
  assert (Hendascii : ascii (firstn (Z.to_nat e) inp) ->
            (d_line d, d_col d) = pos_of_offset inp (d_so d) /\ (l', c') = pos_of_offset inp (e - 1)).
  { intros Ha. replace e with (d_so d + (n + 1)) in Ha by lia.
    rewrite firstn_drop_split in Ha by lia. apply ascii_app in Ha. destruct Ha as [Ha1 Ha2]. fold rest in Ha2.
    specialize (Hcol Ha1). split; [exact Hcol|].
    replace (Z.to_nat (n + 1)) with (Z.to_nat n + 1)%nat in Ha2 by lia.
    rewrite firstn_plus in Ha2. apply ascii_app in Ha2. destruct Ha2 as [Ha2 _].
    rewrite (ep_ascii _ rest n (d_line d) (d_col d)) in Eep by (try lia; exact Ha2).
    injection Eep as Eep'.
    replace (e - 1) with (d_so d + n) by lia. rewrite pos_of_offset_split by lia. fold rest.
    rewrite <- Hcol. cbn [fst snd]. symmetry. exact Eep'. }
  destruct k as [ty aux|].
  - (* consuming token *)
    destruct (Z.ltb_spec (e - 1) 0); [lia|]. destruct (Z.ltb_spec (zlen inp) (e - 1)); [lia|]. cbn [orb] in Hd.
    rewrite (drop_cons_nth (e - 1) inp) in Hd by lia. rewrite decode_nl in Hd.
    set (bl := nth (Z.to_nat (e - 1)) inp 0) in *.
    assert (Hfe : firstn (Z.to_nat e) inp = firstn (Z.to_nat (e - 1)) inp ++ [bl]).
    { replace e with ((e - 1) + 1) at 1 by lia. rewrite firstn_drop_split by lia.
      rewrite (drop_cons_nth (e - 1) inp) by lia. reflexivity. }
    assert (Hnewline : (if bl =? 10 then l' + 1 else l') = line_of_offset inp e).
    { unfold line_of_offset. rewrite Hfe, count_nl_app. simpl count_nl.
      rewrite Hendline. unfold line_of_offset. destruct (bl =? 10); lia. }
    assert (Hnewpos : ascii (firstn (Z.to_nat e) inp) ->
              (if bl =? 10 then (l' + 1, 0) else (l', c' + 1)) = pos_of_offset inp e).
    { intros Ha. destruct (Hendascii Ha) as [_ Hp]. unfold pos_of_offset in *. rewrite Hfe, pos_scan_app.
      rewrite <- Hp. cbn [fst snd pos_scan]. destruct (bl =? 10); reflexivity. }
    assert (Htok : tok_ok inp (mkTok ty aux (mkPos (d_so d) (d_line d) (d_col d)) (mkPos (e - 1) l' c'))).
    { unfold tok_ok. cbn [t_start t_end p_off p_line p_col]. rewrite Hsplit_e.
      split; [lia|]. split; [lia|]. split; [exact Hline|]. split; [exact Hendline|]. exact Hendascii. }
    assert (Htile' : forall x, tiles 0 e (cons_ranges (rev (mkTok ty aux (mkPos (d_so d) (d_line d) (d_col d)) (mkPos (e - 1) l' c') :: x)))
                      <-> tiles 0 e (cons_ranges (rev x) ++ [(d_so d, e - 1)])).
    { intros x. simpl rev. rewrite cons_ranges_app. unfold cons_ranges at 2. simpl filter.
      unfold is_marker. cbn [t_ty]. simpl in Hk. destruct (Z.eqb_spec ty TokenError); [contradiction|]. simpl. tauto. }
    assert (Htl : tiles 0 e (cons_ranges (rev (d_rtoks d)) ++ [(d_so d, e - 1)])).
    { replace e with ((e - 1) + 1) at 1 by lia. eapply tiles_app; [exact Htile|reflexivity|lia]. }
    destruct (bl =? 10) eqn:Ebl; injection Hd as <-; unfold dinv; cbn [d_so d_line d_col d_rtoks].
    + split; [lia|]. split; [exact Hnewline|]. split; [exact Hnewpos|]. split; [constructor; assumption|apply Htile'; exact Htl].
    + split; [lia|]. split; [exact Hnewline|]. split; [exact Hnewpos|]. split; [constructor; assumption|apply Htile'; exact Htl].
  - (* error token: a point marker, the state is unchanged *)
    injection Hd as <-. unfold dinv. cbn [d_so d_line d_col d_rtoks].
    split; [lia|]. split; [exact Hline|]. split; [exact Hcol|]. split.
    + constructor; [|assumption]. unfold tok_ok. cbn [t_start t_end p_off p_line p_col]. rewrite Hsplit_e.
      split; [lia|]. split; [lia|]. split; [exact Hendline|]. split; [exact Hendline|].
      intros Ha. destruct (Hendascii Ha) as [_ Hp]. split; exact Hp.
    + simpl rev. rewrite cons_ranges_app. unfold cons_ranges at 2. simpl. rewrite app_nil_r. exact Htile.
Qed.

(* ------------------------------------------------------------------ runs *)

Lemma demit_shape : forall inp d k e d1, demit inp d k e = Ok d1 ->
  exists tok, d_rtoks d1 = tok :: d_rtoks d /\ p_off (t_end tok) = e - 1 /\
    match k with
    | KError => t_ty tok = TokenError /\ d_so d1 = d_so d
    | KToken ty _ => t_ty tok = ty /\ d_so d1 = e
    end.
Proof.
  intros inp d k e d1 H. unfold demit in H.
  destruct (token_limit <=? Z.of_nat (length (d_rtoks d))); [discriminate|].
  destruct (endpos_at inp (d_so d) e (d_line d) (d_col d)) as [ep|]; [|discriminate]. cbn [bind] in H.
  destruct k as [ty aux|].
  - destruct ((e - 1 <? 0) || (zlen inp <? e - 1)); [discriminate|].
    destruct (fst (decode_rune (drop (e - 1) inp)) =? 10); injection H as <-; eexists; cbn; repeat split.
  - injection H as <-. eexists; cbn; repeat split.
Qed.

Lemma dinv_init : forall inp, dinv inp d_init.
Proof.
  intros. unfold dinv, d_init. cbn [d_so d_line d_col d_rtoks].
  split; [pose proof (zlen_nonneg inp); lia|]. split; [reflexivity|]. split; [reflexivity|].
  split; [constructor|reflexivity].
Qed.

Lemma drun_inv : forall inp ems d d' newtoks,
  dinv inp d -> Forall (fun x => kind_ok (fst x)) ems -> drun inp d ems = Ok d' ->
  rev (d_rtoks d') = rev (d_rtoks d) ++ newtoks ->
  regular inp (d_so d) newtoks ->
  dinv inp d'.
Proof.
  induction ems as [|[k e] ems IH]; intros d d' newtoks Hinv Hk Hrun Hnew Hreg.
  - simpl in Hrun. injection Hrun as <-. exact Hinv.
  - simpl in Hrun. destruct (demit inp d k e) as [d1|] eqn:E1; [|discriminate]. cbn [bind] in Hrun.
    inversion Hk as [|? ? Hk1 Hk2]; subst. cbn [fst] in Hk1.
    destruct (demit_shape _ _ _ _ _ E1) as (tok & Htoks & Hend & Hkind).
    (* the first new token is tok *)
    assert (Hmono : exists more, rev (d_rtoks d') = rev (d_rtoks d1) ++ more).
    { clear - Hrun. revert d1 Hrun. induction ems as [|[k2 e2] ems IH2]; intros d1 Hrun.
      - simpl in Hrun. injection Hrun as <-. exists []. rewrite app_nil_r. reflexivity.
      - simpl in Hrun. destruct (demit inp d1 k2 e2) as [d2|] eqn:E2; [|discriminate]. cbn [bind] in Hrun.
        destruct (IH2 _ Hrun) as (more & Hm). destruct (demit_shape _ _ _ _ _ E2) as (t2 & Ht2 & _).
        rewrite Ht2 in Hm. simpl rev in Hm. rewrite <- app_assoc in Hm. eexists. exact Hm. }
    destruct Hmono as (more & Hmore). rewrite Htoks in Hmore. simpl rev in Hmore.
    rewrite <- app_assoc in Hmore. rewrite Hmore in Hnew. apply app_inv_head in Hnew. subst newtoks.
    simpl in Hreg. destruct Hreg as [Hr1 Hr2]. rewrite Hend in Hr1.
    assert (Hinv1 : dinv inp d1) by (eapply demit_inv; eauto; lia).
    eapply IH; [exact Hinv1|exact Hk2|exact Hrun| |].
    + rewrite Htoks. simpl rev. rewrite <- app_assoc. exact Hmore.
    + destruct k as [ty aux|].
      * destruct Hkind as [Hty Hso]. rewrite Hty in Hr2. simpl in Hk1.
        destruct (Z.eqb_spec ty TokenError); [contradiction|]. rewrite Hso. rewrite Hend in Hr2.
        replace (e - 1 + 1) with e in Hr2 by lia. exact Hr2.
      * destruct Hkind as [Hty Hso]. rewrite Hty in Hr2. rewrite Z.eqb_refl in Hr2. rewrite Hso. exact Hr2.
Qed.

(* The driver over ANY scanner: for every list of emissions (whatever the scanner decided), if the
   resulting token stream is regular (each emission consumed at least one byte and stayed inside the
   input), then the consuming tokens tile a prefix [0, startOffset) of the input contiguously and in
   order, and every token's positions agree with the specification. *)
Theorem abstract_run_ok : forall inp ems d',
  Forall (fun x => kind_ok (fst x)) ems ->
  drun inp d_init ems = Ok d' ->
  regular inp 0 (rev (d_rtoks d')) ->
  tiles 0 (d_so d') (cons_ranges (rev (d_rtoks d'))) /\
  Forall (tok_ok inp) (rev (d_rtoks d')) /\
  0 <= d_so d' <= zlen inp.
Proof.
  intros inp ems d' Hk Hrun Hreg.
  assert (H : dinv inp d').
  { eapply drun_inv; [apply dinv_init|exact Hk|exact Hrun|simpl; reflexivity|exact Hreg]. }
  destruct H as (H1 & _ & _ & H4 & H5). split; [exact H5|]. split; [|exact H1].
  apply Forall_rev. exact H4.
Qed.
