(* C37 — model of Go's unicode/utf8.DecodeRune on a byte slice (list of Z in [0,255]).
   Transcribed from the table-driven implementation (first[] / acceptRanges[]):
     0x00-0x7F            : ASCII, width 1
     0x80-0xC1, 0xF5-0xFF : invalid lead byte -> (RuneError, 1)
     0xC2-0xDF            : 2 bytes, second in 80..BF
     0xE0                 : 3 bytes, second in A0..BF
     0xE1-0xEC, 0xEE-0xEF : 3 bytes, second in 80..BF
     0xED                 : 3 bytes, second in 80..9F
     0xF0                 : 4 bytes, second in 90..BF
     0xF1-0xF3            : 4 bytes, second in 80..BF
     0xF4                 : 4 bytes, second in 80..8F
   third/fourth bytes in 80..BF; anything else (or a short slice) -> (RuneError, 1);
   the empty slice -> (RuneError, 0).
   Model definitions only; the facts used by the proofs are in Proofs.v. *)
From CV Require Import Base.Prelude.

Definition RuneError : Z := 65533.
Definition EOFr : Z := -1.

Definition decode_rune (p : list Z) : Z * Z :=
  match p with
  | [] => (RuneError, 0)
  | p0 :: r =>
    if p0 <? 128 then (p0, 1)
    else if (p0 <? 194) || (244 <? p0) then (RuneError, 1)
    else
      let sz := if p0 <? 224 then 2 else if p0 <? 240 then 3 else 4 in
      let lo := if p0 =? 224 then 160 else if p0 =? 240 then 144 else 128 in
      let hi := if p0 =? 237 then 159 else if p0 =? 244 then 143 else 191 in
      match r with
      | [] => (RuneError, 1)
      | b1 :: r1 =>
        if (b1 <? lo) || (hi <? b1) then (RuneError, 1)
        else if sz <=? 2 then ((p0 mod 32) * 64 + b1 mod 64, 2)
        else
          match r1 with
          | [] => (RuneError, 1)
          | b2 :: r2 =>
            if (b2 <? 128) || (191 <? b2) then (RuneError, 1)
            else if sz <=? 3 then ((p0 mod 16) * 4096 + (b1 mod 64) * 64 + b2 mod 64, 3)
            else
              match r2 with
              | [] => (RuneError, 1)
              | b3 :: _ =>
                if (b3 <? 128) || (191 <? b3) then (RuneError, 1)
                else ((p0 mod 8) * 262144 + (b1 mod 64) * 4096 + (b2 mod 64) * 64 + b3 mod 64, 4)
              end
          end
      end
  end.

(* Go slicing s[z:] for 0 <= z <= len s (callers model the panic outside this range) *)
Definition drop (z : Z) (l : list Z) : list Z := skipn (Z.to_nat z) l.
Definition zlen (l : list Z) : Z := Z.of_nat (length l).
