(* C37 — the endPos loop of the lexer driver, characterised on the remaining slice. *)
From CV Require Import Base.Prelude C37.Utf8 C37.Spec C37.Model C37.Utf8Facts.
From Coq Require Import Lia.

(* ------------------------------------------------------------------ 3. the endPos loop *)

(* the loop of endPos phrased on the remaining slice: n = (endOffset-1) - offset bytes still to cover *)
Fixpoint ep_list (fuel : nat) (rest : list Z) (n line col : Z) : res (Z * Z) :=
  if 0 <? n then
    match fuel with
    | O => Err OutOfFuel
    | S f =>
      let rw := decode_rune rest in
      let w := max1 (snd rw) in
      if fst rw =? 10 then ep_list f (drop w rest) (n - w) (line + 1) 0
      else ep_list f (drop w rest) (n - w) line (col + 1)
    end
  else Ok (line, col).

Lemma endpos_loop_ep : forall fuel inp o m line col,
  0 <= o -> m <= zlen inp ->
  endpos_loop fuel inp o m line col = ep_list fuel (drop o inp) (m - o) line col.
Proof.
  induction fuel; intros inp o m line col Ho Hm; simpl.
  - destruct (Z.ltb_spec o m); destruct (Z.ltb_spec 0 (m - o)); try lia; reflexivity.
  - destruct (Z.ltb_spec o m); destruct (Z.ltb_spec 0 (m - o)); try lia; [|reflexivity].
    destruct (Z.ltb_spec o 0); [lia|]. destruct (Z.ltb_spec (zlen inp) o); [lia|]. cbn [orb].
    destruct (drop_nonempty o inp ltac:(lia)) as (b & r & E). rewrite E.
    pose proof (decode_width b r) as Hw. pose proof (decode_width_len (b :: r)) as Hwl.
    rewrite <- E in Hwl. rewrite zlen_drop in Hwl by lia.
    fold (max1 (snd (decode_rune (b :: r)))). rewrite max1_decode.
    set (w := snd (decode_rune (b :: r))) in *.
    assert (Hd : drop w (b :: r) = drop (o + w) inp) by (rewrite <- E; apply drop_drop; lia).
    rewrite Hd. replace (m - o - w) with (m - (o + w)) by lia.
    destruct (fst (decode_rune (b :: r)) =? 10); apply IHfuel; lia.
Qed.

(* what the loop computes, for any bytes (valid UTF-8 or not): it terminates without error and counts the
   newlines of the first n bytes exactly; if it stepped over index n (a rune wider than one byte straddles
   the end) the byte at index n is >= 128 *)
Lemma ep_lines : forall fuel rest n line col,
  n <= zlen rest -> n <= Z.of_nat fuel ->
  exists line' col' (over : bool),
    ep_list fuel rest n line col = Ok (line', col') /\
    line' = line + count_nl (firstn (Z.to_nat n) rest) /\
    (over = true -> 0 <= n /\ 128 <= nth (Z.to_nat n) rest 0).
Proof.
  induction fuel; intros rest n line col Hn Hf.
  - simpl. destruct (Z.ltb_spec 0 n); [lia|]. exists line, col, false.
    replace (Z.to_nat n) with O by lia. simpl. repeat split; [lia|discriminate|discriminate].
  - simpl. destruct (Z.ltb_spec 0 n).
    2:{ exists line, col, false. replace (Z.to_nat n) with O by lia. simpl. repeat split; [lia|discriminate|discriminate]. }
    destruct rest as [|b r]; [unfold zlen in Hn; simpl in Hn; lia|].
    rewrite max1_decode.
    pose proof (decode_width b r) as Hw. pose proof (decode_width_len (b :: r)) as Hwl.
    destruct (decode_step b r) as (Hs1 & Hs2 & Hs3).
    set (w := snd (decode_rune (b :: r))) in *.
    destruct (Z.le_gt_cases w n) as [Hle|Hgt].
    + (* the rune ends at or before index n: continue *)
      assert (Hz : zlen (drop w (b :: r)) = zlen (b :: r) - w) by (apply zlen_drop; lia).
      assert (Hsplit : Z.to_nat n = (Z.to_nat w + Z.to_nat (n - w))%nat) by lia.
      destruct (fst (decode_rune (b :: r)) =? 10).
      * destruct (IHfuel (drop w (b :: r)) (n - w) (line + 1) 0 ltac:(lia) ltac:(lia)) as (l' & c' & ov & E & Hl & Ho).
        exists l', c', ov. split; [exact E|]. split.
        -- rewrite Hsplit, firstn_plus, count_nl_app, Hs2. unfold drop in Hl. lia.
        -- intros Hov. destruct (Ho Hov) as [H0 Hb]. split; [lia|].
           unfold drop in Hb. rewrite nth_skipn in Hb. rewrite Hsplit. exact Hb.
      * destruct (IHfuel (drop w (b :: r)) (n - w) line (col + 1) ltac:(lia) ltac:(lia)) as (l' & c' & ov & E & Hl & Ho).
        exists l', c', ov. split; [exact E|]. split.
        -- rewrite Hsplit, firstn_plus, count_nl_app, Hs2. unfold drop in Hl. lia.
        -- intros Hov. destruct (Ho Hov) as [H0 Hb]. split; [lia|].
           unfold drop in Hb. rewrite nth_skipn in Hb. rewrite Hsplit. exact Hb.
    + (* the rune straddles index n: it is wider than one byte, all its bytes are >= 128 *)
      assert (Hwide : 1 < w) by lia. specialize (Hs3 Hwide).
      assert (Hpre : Forall (fun x => 128 <= x) (firstn (Z.to_nat n) (b :: r))).
      { eapply Forall_firstn_le; [|exact Hs3]. lia. }
      assert (Hnth : 128 <= nth (Z.to_nat n) (b :: r) 0).
      { apply (Forall_firstn_nth (fun x => 128 <= x) (Z.to_nat w)); [exact Hs3|lia|exact Hs1]. }
      assert (Hnl : (fst (decode_rune (b :: r)) =? 10) = false).
      { rewrite (count_nl_high _ Hs3) in Hs2. destruct (fst (decode_rune (b :: r)) =? 10); [lia|reflexivity]. }
      rewrite Hnl.
      assert (Hstop : forall rest' l c, ep_list fuel rest' (n - w) l c = Ok (l, c)).
      { intros. destruct fuel; simpl; destruct (Z.ltb_spec 0 (n - w)); try lia; reflexivity. }
      rewrite Hstop. exists line, (col + 1), true. split; [reflexivity|]. split.
      * rewrite (count_nl_high _ Hpre). lia.
      * intros _. split; [lia|exact Hnth].
Qed.

(* on ASCII bytes the loop is the byte scan of the specification *)
Lemma ep_ascii : forall fuel rest n line col,
  n <= zlen rest -> n <= Z.of_nat fuel -> ascii (firstn (Z.to_nat n) rest) ->
  ep_list fuel rest n line col = Ok (pos_scan (firstn (Z.to_nat n) rest) line col).
Proof.
  induction fuel; intros rest n line col Hn Hf Ha.
  - simpl. destruct (Z.ltb_spec 0 n); [lia|]. replace (Z.to_nat n) with O by lia. reflexivity.
  - simpl. destruct (Z.ltb_spec 0 n).
    2:{ replace (Z.to_nat n) with O by lia. reflexivity. }
    destruct rest as [|b r]; [unfold zlen in Hn; simpl in Hn; lia|].
    assert (Hsplit : Z.to_nat n = S (Z.to_nat (n - 1))) by lia.
    rewrite Hsplit in Ha |- *. simpl firstn in *. inversion Ha as [|? ? Hb Ha']; subst.
    rewrite decode_ascii by lia. cbn [fst snd]. unfold max1. cbn [Z.leb Z.compare]. 
    change (drop 1 (b :: r)) with r. rewrite zlen_cons in Hn.
    simpl pos_scan. destruct (b =? 10); apply IHfuel; try lia; exact Ha'.
Qed.
