(* C37 — the concrete scanner model (Model.v: rootState, numberState, ...) is an instance of the abstract
   scanner: every run of it changes (startOffset, startPos, tokens) only through emissions. *)
From CV Require Import Base.Prelude C37.Utf8 C37.Spec C37.Model C37.Utf8Facts C37.EndPos C37.Abstract C37.DriverProofs Gen.GenC37.
From Coq Require Import Lia.

Definition kinds_ok (ems : list (ekind * Z)) : Prop := Forall (fun x => kind_ok (fst x)) ems.

(* l' is reachable from l by emissions only *)
Definition R (l l' : lexer) : Prop :=
  l_input l' = l_input l /\
  exists ems, kinds_ok ems /\ drun (l_input l) (D l) ems = Ok (D l').

Lemma drun_app : forall inp a b d d1 d2, drun inp d a = Ok d1 -> drun inp d1 b = Ok d2 -> drun inp d (a ++ b) = Ok d2.
Proof.
  induction a as [|[k e] a IH]; simpl; intros b d d1 d2 Ha Hb.
  - injection Ha as <-. exact Hb.
  - destruct (demit inp d k e) as [dx|]; [|discriminate]. cbn [bind] in *. eapply IH; eauto.
Qed.

Lemma R_refl : forall l, R l l.
Proof. intros. split; [reflexivity|]. exists []. split; [constructor|reflexivity]. Qed.

Lemma R_trans : forall a b c, R a b -> R b c -> R a c.
Proof.
  intros a b c (Hi1 & e1 & Hk1 & Hr1) (Hi2 & e2 & Hk2 & Hr2).
  split; [congruence|]. exists (e1 ++ e2). split; [apply Forall_app; split; assumption|].
  rewrite Hi1 in Hr2. eapply drun_app; eauto.
Qed.

Lemma R_same : forall a b, l_input b = l_input a -> D b = D a -> R a b.
Proof. intros a b Hi Hd. split; [exact Hi|]. exists []. split; [constructor|]. simpl. rewrite Hd. reflexivity. Qed.

(* operations that do not touch the projected fields *)
Lemma R_next : forall a b, R a b -> R a (next b).
Proof. intros. eapply R_trans; [eassumption|]. apply R_same; reflexivity. Qed.
Lemma R_set_endOffset : forall a b v, R a b -> R a (set_endOffset v b).
Proof. intros. eapply R_trans; [eassumption|]. apply R_same; reflexivity. Qed.
Lemma R_set_mode : forall a b v, R a b -> R a (set_mode v b).
Proof. intros. eapply R_trans; [eassumption|]. apply R_same; reflexivity. Qed.
Lemma R_set_openBrackets : forall a b v, R a b -> R a (set_openBrackets v b).
Proof. intros. eapply R_trans; [eassumption|]. apply R_same; reflexivity. Qed.
Lemma R_set_current : forall a b v, R a b -> R a (set_current v b).
Proof. intros. eapply R_trans; [eassumption|]. apply R_same; reflexivity. Qed.
Lemma R_set_canBackup : forall a b v, R a b -> R a (set_canBackup v b).
Proof. intros. eapply R_trans; [eassumption|]. apply R_same; reflexivity. Qed.

Lemma R_backupOne : forall a b c, backupOne b = Ok c -> R a b -> R a c.
Proof.
  intros a b c H Hab. unfold backupOne in H. destruct (negb (l_canBackup b)); [discriminate|].
  injection H as <-. eapply R_trans; [eassumption|]. apply R_same; reflexivity.
Qed.

(* emit / emitError are single emissions *)
Lemma emit_is_demit : forall l ty aux l',
  emit l ty aux (startPosition l) true = Ok l' ->
  l_input l' = l_input l /\ demit (l_input l) (D l) (KToken ty aux) (l_endOffset l) = Ok (D l').
Proof.
  intros l ty aux l' H. unfold emit in H. unfold demit, D. cbn [d_so d_line d_col d_rtoks].
  destruct (token_limit <=? Z.of_nat (length (l_rtokens l))); [discriminate|].
  unfold endPos in H. destruct (endpos_at (l_input l) (l_startOffset l) (l_endOffset l) (l_startLine l) (l_startCol l)) as [ep|]; [|discriminate].
  cbn [bind] in *. unfold in_len in H.
  destruct ((l_endOffset l - 1 <? 0) || (zlen (l_input l) <? l_endOffset l - 1)); [discriminate|].
  destruct (fst (decode_rune (drop (l_endOffset l - 1) (l_input l))) =? 10); injection H as <-; split; reflexivity.
Qed.

Lemma emitError_is_demit : forall l l',
  emitError l = Ok l' ->
  l_input l' = l_input l /\ demit (l_input l) (D l) KError (l_endOffset l) = Ok (D l').
Proof.
  intros l l' H. unfold emitError, emit in H. unfold demit, D. cbn [d_so d_line d_col d_rtoks].
  unfold endPos in H. destruct (endpos_at (l_input l) (l_startOffset l) (l_endOffset l) (l_startLine l) (l_startCol l)) as [ep|]; [|discriminate].
  cbn [bind] in *.
  destruct (token_limit <=? Z.of_nat (length (l_rtokens l))); [discriminate|].
  injection H as <-. split; reflexivity.
Qed.

Lemma R_emit : forall a b c ty aux,
  emit b ty aux (startPosition b) true = Ok c -> ty <> TokenError -> R a b -> R a c.
Proof.
  intros a b c ty aux H Hty Hab. destruct (emit_is_demit _ _ _ _ H) as [Hi Hd].
  eapply R_trans; [eassumption|]. split; [exact Hi|].
  exists [(KToken ty aux, l_endOffset b)]. split; [repeat constructor; exact Hty|].
  simpl. rewrite Hd. reflexivity.
Qed.

Lemma R_emitType : forall a b c ty, emitType b ty = Ok c -> ty <> TokenError -> R a b -> R a c.
Proof. intros a b c ty H. unfold emitType in H. eapply R_emit; eauto. Qed.

Lemma R_emitError : forall a b c, emitError b = Ok c -> R a b -> R a c.
Proof.
  intros a b c H Hab. destruct (emitError_is_demit _ _ H) as [Hi Hd].
  eapply R_trans; [eassumption|]. split; [exact Hi|].
  exists [(KError, l_endOffset b)]. split; [repeat constructor|]. simpl. rewrite Hd. reflexivity.
Qed.

(* ------------------------------------------------------------------ scanner functions *)
(* goal-directed predicates: whatever the computation returns is reachable from a by emissions *)
Definition P1 (a : lexer) (r : res lexer) : Prop := forall c, r = Ok c -> R a c.
Definition P2 {X} (a : lexer) (Q : X -> Prop) (r : res (lexer * X)) : Prop :=
  forall x, r = Ok x -> R a (fst x) /\ Q (snd x).
Definition anyX {X} (_ : X) : Prop := True.

Lemma P1_ok : forall a c, R a c -> P1 a (Ok c).
Proof. intros a c H c' E. injection E as <-. exact H. Qed.
Lemma P2_ok : forall {X} a (Q : X -> Prop) c s, R a c -> Q s -> P2 a Q (Ok (c, s)).
Proof. intros X a Q c s H HQ x E. injection E as <-. split; assumption. Qed.
Lemma P1_bind1 : forall a r f, P1 a r -> (forall c, R a c -> P1 a (f c)) -> P1 a (bind r f).
Proof. intros a [c|e] f H1 H2 y E; [|discriminate]. cbn [bind] in E. eapply H2; [apply H1; reflexivity|exact E]. Qed.
Lemma P1_bind2 : forall {X} a (Q : X -> Prop) (r : res (lexer * X)) f,
  P2 a Q r -> (forall x, R a (fst x) -> Q (snd x) -> P1 a (f x)) -> P1 a (bind r f).
Proof.
  intros X a Q [x|e] f H1 H2 y E; [|discriminate]. cbn [bind] in E.
  destruct (H1 x eq_refl). eapply H2; eauto.
Qed.
Lemma P2_bind1 : forall {Y} a (Q' : Y -> Prop) r (f : lexer -> res (lexer * Y)),
  P1 a r -> (forall c, R a c -> P2 a Q' (f c)) -> P2 a Q' (bind r f).
Proof. intros Y a Q' [c|e] f H1 H2 y E; [|discriminate]. cbn [bind] in E. eapply H2; [apply H1; reflexivity|exact E]. Qed.
Lemma P2_bind2 : forall {X Y} a (Q : X -> Prop) (Q' : Y -> Prop) (r : res (lexer * X)) (f : lexer * X -> res (lexer * Y)),
  P2 a Q r -> (forall x, R a (fst x) -> Q (snd x) -> P2 a Q' (f x)) -> P2 a Q' (bind r f).
Proof.
  intros X Y a Q Q' [x|e] f H1 H2 y E; [|discriminate]. cbn [bind] in E.
  destruct (H1 x eq_refl). eapply H2; eauto.
Qed.
Lemma P2_weaken : forall {X} a (Q Q' : X -> Prop) r, P2 a Q r -> (forall s, Q s -> Q' s) -> P2 a Q' r.
Proof. intros X a Q Q' r H HQ x E. destruct (H x E). split; auto. Qed.
Lemma P2_ok_root : forall a r, P1 a r -> P2 a anyX (ok_root r).
Proof.
  intros a r H. unfold ok_root. eapply P2_bind1; [exact H|]. intros c Hc. apply P2_ok; [exact Hc|exact I].
Qed.

Lemma P1_emitType : forall a b ty, R a b -> ty <> TokenError -> P1 a (emitType b ty).
Proof. intros a b ty H Hty c E. eapply R_emitType; eauto. Qed.
Lemma P1_emit : forall a b ty aux, R a b -> ty <> TokenError -> P1 a (emit b ty aux (startPosition b) true).
Proof. intros a b ty aux H Hty c E. eapply R_emit; eauto. Qed.
Lemma P1_emitError : forall a b, R a b -> P1 a (emitError b).
Proof. intros a b H c E. eapply R_emitError; eauto. Qed.
Lemma P1_backupOne : forall a b, R a b -> P1 a (backupOne b).
Proof. intros a b H c E. eapply R_backupOne; eauto. Qed.
Lemma P2_lerror : forall a b, R a b -> P2 a anyX (lerror b).
Proof.
  intros a b H. unfold lerror. eapply P2_bind1; [apply P1_emitError; exact H|].
  intros c Hc. apply P2_ok; [exact Hc|exact I].
Qed.

Ltac tyne :=
  try match goal with |- (if ?c then _ else _) <> _ => destruct c end;
  first [assumption | (let HH := fresh in intro HH; cbv in HH; discriminate HH)].

(* peel the non-emitting operations off the reached lexer *)
Ltac solveR :=
  cbn [fst snd];
  repeat first
  [ assumption
  | match goal with
    | |- R ?a ?a => apply R_refl
    | |- R _ (next _) => apply R_next
    | |- R _ (set_endOffset _ _) => apply R_set_endOffset
    | |- R _ (set_mode _ _) => apply R_set_mode
    | |- R _ (set_openBrackets _ _) => apply R_set_openBrackets
    | |- R _ (set_current _ _) => apply R_set_current
    | |- R _ (set_canBackup _ _) => apply R_set_canBackup
    | |- R _ (if ?c then _ else _) => destruct c
    end ].

Lemma P2_acceptWhile : forall fuel f a l b, R a l -> P2 a anyX (acceptWhile fuel f l b).
Proof.
  induction fuel; intros f a l b Hal; [intros x E; discriminate|]. cbn [acceptWhile].
  destruct (f (l_current (next l))).
  - apply IHfuel. solveR.
  - eapply P2_bind1; [apply P1_backupOne; solveR|]. intros c Hc. apply P2_ok; [exact Hc|exact I].
Qed.

Lemma P1_acceptW : forall fuel f a l, R a l -> P1 a (acceptW fuel f l).
Proof.
  intros. unfold acceptW. eapply P1_bind2; [apply P2_acceptWhile; eassumption|].
  intros x Hx _. apply P1_ok. exact Hx.
Qed.

Lemma P2_acceptOne : forall a l r, R a l -> P2 a anyX (acceptOne l r).
Proof.
  intros a l r Hal. unfold acceptOne. destruct (l_current (next l) =? r).
  - apply P2_ok; [solveR|exact I].
  - eapply P2_bind1; [apply P1_backupOne; solveR|]. intros c Hc. apply P2_ok; [exact Hc|exact I].
Qed.

(* the generic driver of the proofs below *)
Ltac go :=
  repeat first
  [ match goal with
    | |- P2 _ _ (if ?c then _ else _) => destruct c
    | |- P1 _ (if ?c then _ else _) => destruct c
    | |- P2 _ _ (ok_root _) => apply P2_ok_root
    | |- P2 _ _ (lerror _) => apply P2_lerror; solveR
    | |- P2 _ _ (Ok (_, _)) => apply P2_ok; [solveR|try exact I]
    | |- P1 _ (Ok _) => apply P1_ok; solveR
    | |- P1 _ (emitType _ _) => apply P1_emitType; [solveR|tyne]
    | |- P1 _ (emit _ _ _ (startPosition _) true) => apply P1_emit; [solveR|tyne]
    | |- P1 _ (emitError _) => apply P1_emitError; solveR
    | |- P1 _ (backupOne _) => apply P1_backupOne; solveR
    | |- P1 _ (acceptW _ _ _) => apply P1_acceptW; solveR
    | |- P2 _ _ (acceptOne _ _) => apply P2_acceptOne; solveR
    | |- P2 _ _ (acceptWhile _ _ _ _) => apply P2_acceptWhile; solveR
    | |- P1 _ (bind _ _) => first [eapply P1_bind1; [|intros ? ?] | eapply P1_bind2; [|intros ? ? ?]]
    | |- P2 _ _ (bind _ _) => first [eapply P2_bind1; [|intros ? ?] | eapply P2_bind2; [|intros ? ? ?]]
    end ].

Lemma P1_scanFixedPointRemainder : forall fuel a l, R a l -> P1 a (scanFixedPointRemainder fuel l).
Proof. intros fuel a l Hal. unfold scanFixedPointRemainder. go. Qed.

Lemma P2_scanDecimal : forall fuel a l, R a l ->
  P2 a (fun t => t <> TokenError) (scanDecimalOrFixedPointRemainder fuel l).
Proof.
  intros fuel a l Hal. unfold scanDecimalOrFixedPointRemainder.
  eapply P2_bind1; [apply P1_acceptW; exact Hal|]. intros c Hc.
  destruct (l_current (next c) =? 46).
  - eapply P2_bind1; [apply P1_scanFixedPointRemainder; solveR|]. intros c2 Hc2.
    apply P2_ok; [exact Hc2|discriminate].
  - eapply P2_bind1; [apply P1_backupOne; solveR|]. intros c2 Hc2. apply P2_ok; [exact Hc2|discriminate].
Qed.

Lemma P1_scanString_loop : forall fuel a l r, R a l -> P1 a (scanString_loop fuel l r).
Proof.
  induction fuel; intros a l r Hal; [intros c E; discriminate|]. cbn [scanString_loop].
  destruct (r =? 34); [go|].
  destruct ((r =? 10) || (r =? EOFr)); [go|].
  destruct (r =? 92).
  - destruct (l_current (next l) =? 40); [go|].
    destruct ((l_current (next l) =? 10) || (l_current (next l) =? EOFr)); [go|].
    apply IHfuel. solveR.
  - apply IHfuel. solveR.
Qed.

Lemma P1_scanString : forall fuel a l, R a l -> P1 a (scanString fuel l).
Proof. intros. unfold scanString. apply P1_scanString_loop. solveR. Qed.

Lemma P2_rootState : forall a l, R a l -> P2 a anyX (rootState l).
Proof. intros a l Hal. unfold rootState. go. Qed.

Lemma P2_numberState : forall fuel a l, R a l -> P2 a anyX (numberState fuel l).
Proof.
  intros fuel a l Hal. unfold numberState.
  repeat match goal with |- P2 _ _ (if ?c then _ else _) => destruct c end.
  all: apply P2_ok_root.
  all: try solve [go].
  all: try (eapply P1_bind1; [first [apply P1_acceptW|apply P1_scanFixedPointRemainder|apply P1_backupOne]; solveR|intros ? ?; go]).
  all: eapply P1_bind2; [apply P2_scanDecimal; solveR|]; intros x Hx Hq; apply P1_emitType; [exact Hx|].
  all: try exact Hq.
  destruct (snd x =? TokenDecimalIntegerLiteral); [discriminate|exact Hq].
Qed.

Lemma P2_spaceState : forall fuel nl a l, R a l -> P2 a anyX (spaceState fuel nl l).
Proof. intros fuel nl a l Hal. unfold spaceState. go. Qed.

Lemma P2_identifierState : forall fuel a l, R a l -> P2 a anyX (identifierState fuel l).
Proof. intros fuel a l Hal. unfold identifierState. go. Qed.

Lemma P2_stringState : forall fuel a l, R a l -> P2 a anyX (stringState fuel l).
Proof.
  intros fuel a l Hal. unfold stringState. apply P2_ok_root.
  eapply P1_bind1; [apply P1_scanString; exact Hal|]. intros c Hc. go.
Qed.

Lemma P2_lineCommentState : forall fuel a l, R a l -> P2 a anyX (lineCommentState fuel l).
Proof. intros fuel a l Hal. unfold lineCommentState. go. Qed.

Lemma P2_blockCommentStep : forall n a l, R a l -> P2 a anyX (blockCommentStep n l).
Proof. intros n a l Hal. unfold blockCommentStep. go. Qed.

Lemma P2_step_state : forall fuel s a l, R a l -> P2 a anyX (step_state fuel s l).
Proof.
  intros fuel s a l Hal. destruct s; cbn [step_state].
  - apply P2_rootState; exact Hal.
  - apply P2_numberState; exact Hal.
  - apply P2_spaceState; exact Hal.
  - apply P2_identifierState; exact Hal.
  - apply P2_stringState; exact Hal.
  - apply P2_lineCommentState; exact Hal.
  - apply P2_blockCommentStep; exact Hal.
  - apply P2_ok; [exact Hal|exact I].
Qed.

Lemma R_run : forall fuel ifuel s a l, R a l -> R a (fst (run fuel ifuel s l)).
Proof.
  induction fuel; intros ifuel s a l Hal.
  - destruct s; exact Hal.
  - cbn [run]. destruct s; try exact Hal.
    all: match goal with
         | |- context [step_state ?i ?s ?l] =>
           pose proof (P2_step_state i s a l Hal) as HP;
           destruct (step_state i s l) as [[l' s']|]; [|exact Hal];
           apply IHfuel; apply (HP _ eq_refl)
         end.
Qed.
