(* C37 — top-level results about the lexer model: the pool (clear) results, the position / tiling result
   for the concrete scanner, the EOF token, and the witnesses that refute the unrestricted statements. *)
From CV Require Import Base.Prelude C37.Utf8 C37.Spec C37.Model C37.Utf8Facts C37.EndPos C37.Abstract
  C37.DriverProofs C37.ScannerProofs Gen.GenC37.
From Coq Require Import Lia.
From Coq Require String.

(* ------------------------------------------------------------------ 1. source tables (regenerated) *)

Module Tables.
  Import String.
  Local Open Scope string_scope.
  Definition str_in (x : string) (l : list string) : bool := existsb (String.eqb x) l.
  (* every field of the lexer struct is assigned by clear() or by Lex() itself *)
  Definition fields_covered : bool :=
    forallb (fun f => str_in f clear_assigned || str_in f lex_assigned) lexer_struct_fields.
  (* every field clear() assigns is one the model's reset_field knows *)
  Definition clear_known : bool :=
    forallb (fun f => str_in f ["startOffset"; "endOffset"; "prevEndOffset"; "current"; "prev"; "canBackup";
                                 "startPos"; "cursor"; "tokens"; "tokenCount"; "mode"; "openBrackets"]) clear_assigned.
  Definition lex_known : bool := forallb (fun f => str_in f ["memoryGauge"; "input"]) lex_assigned.
  (* the token type codes used by the model are the iota values of tokentype.go *)
  Definition code_table : list (string * Z) :=
    [("TokenError", TokenError); ("TokenEOF", TokenEOF); ("TokenSpace", TokenSpace);
     ("TokenBinaryIntegerLiteral", TokenBinaryIntegerLiteral); ("TokenOctalIntegerLiteral", TokenOctalIntegerLiteral);
     ("TokenDecimalIntegerLiteral", TokenDecimalIntegerLiteral); ("TokenHexadecimalIntegerLiteral", TokenHexadecimalIntegerLiteral);
     ("TokenUnknownBaseIntegerLiteral", TokenUnknownBaseIntegerLiteral); ("TokenFixedPointNumberLiteral", TokenFixedPointNumberLiteral);
     ("TokenIdentifier", TokenIdentifier); ("TokenString", TokenString); ("TokenPlus", TokenPlus); ("TokenMinus", TokenMinus);
     ("TokenStar", TokenStar); ("TokenSlash", TokenSlash); ("TokenPercent", TokenPercent);
     ("TokenDoubleQuestionMark", TokenDoubleQuestionMark); ("TokenParenOpen", TokenParenOpen); ("TokenParenClose", TokenParenClose);
     ("TokenBraceOpen", TokenBraceOpen); ("TokenBraceClose", TokenBraceClose); ("TokenBracketOpen", TokenBracketOpen);
     ("TokenBracketClose", TokenBracketClose); ("TokenQuestionMark", TokenQuestionMark); ("TokenQuestionMarkDot", TokenQuestionMarkDot);
     ("TokenComma", TokenComma); ("TokenColon", TokenColon); ("TokenDot", TokenDot); ("TokenSemicolon", TokenSemicolon);
     ("TokenLeftArrow", TokenLeftArrow); ("TokenLeftArrowExclamation", TokenLeftArrowExclamation); ("TokenRightArrow", TokenRightArrow);
     ("TokenSwap", TokenSwap); ("TokenLess", TokenLess); ("TokenLessEqual", TokenLessEqual); ("TokenLessLess", TokenLessLess);
     ("TokenGreater", TokenGreater); ("TokenGreaterEqual", TokenGreaterEqual); ("TokenEqual", TokenEqual);
     ("TokenEqualEqual", TokenEqualEqual); ("TokenExclamationMark", TokenExclamationMark); ("TokenNotEqual", TokenNotEqual);
     ("TokenBlockCommentStart", TokenBlockCommentStart); ("TokenBlockCommentEnd", TokenBlockCommentEnd);
     ("TokenBlockCommentContent", TokenBlockCommentContent); ("TokenLineComment", TokenLineComment);
     ("TokenAmpersand", TokenAmpersand); ("TokenAmpersandAmpersand", TokenAmpersandAmpersand); ("TokenCaret", TokenCaret);
     ("TokenVerticalBar", TokenVerticalBar); ("TokenVerticalBarVerticalBar", TokenVerticalBarVerticalBar); ("TokenAt", TokenAt);
     ("TokenAsExclamationMark", TokenAsExclamationMark); ("TokenAsQuestionMark", TokenAsQuestionMark);
     ("TokenPragma", TokenPragma); ("TokenStringTemplate", TokenStringTemplate)].
  Definition codes_match : bool :=
    forallb (fun nc => match nth_error token_types (Z.to_nat (snd nc)) with
                       | Some n => String.eqb n (fst nc)
                       | None => false
                       end) code_table
    && (List.length token_types =? List.length code_table)%nat.
End Tables.

Lemma struct_fields_covered : Tables.fields_covered = true.
Proof. vm_compute. reflexivity. Qed.
Lemma clear_fields_known : Tables.clear_known = true /\ Tables.lex_known = true.
Proof. vm_compute. split; reflexivity. Qed.
Lemma token_codes_match_source : Tables.codes_match = true.
Proof. vm_compute. reflexivity. Qed.

(* ------------------------------------------------------------------ 2. the pool: clear resets everything *)

Lemma clear_any : forall l l' inp, set_input inp (clear l) = set_input inp (clear l').
Proof. intros [] [] inp. reflexivity. Qed.

Lemma clear_state : forall l inp,
  set_input inp (clear l) = mkLexer inp [] 1 0 0 0 0 0 0 EOFr EOFr false 0 0.
Proof. intros [] inp. reflexivity. Qed.

Theorem lex_after_clear_independent : forall pooled pooled' inp,
  Lex pooled inp = Lex pooled' inp /\ token_stream pooled inp = token_stream pooled' inp.
Proof.
  intros. unfold token_stream, Lex. rewrite (clear_any pooled pooled' inp). split; reflexivity.
Qed.

(* ------------------------------------------------------------------ 3. the concrete lexer model *)

Lemma Lex_reach : forall pooled inp,
  let l := fst (Lex pooled inp) in
  l_input l = inp /\ exists ems, kinds_ok ems /\ drun inp d_init ems = Ok (D l).
Proof.
  intros pooled inp l. unfold l, Lex.
  set (l0 := set_input inp (clear pooled)).
  destruct (R_run (2 * length inp + 8) (length inp + 4) SRoot l0 l0 (R_refl l0)) as (Hi & ems & Hk & Hr).
  assert (Hl0 : l_input l0 = inp /\ D l0 = d_init).
  { unfold l0. rewrite clear_state. split; reflexivity. }
  destruct Hl0 as [Hin HD]. rewrite Hin in *. rewrite HD in Hr.
  split; [exact Hi|]. exists ems. split; assumption.
Qed.

(* Whatever text the pooled lexer saw before, for EVERY input: if the token stream the model produces is
   regular (every token ends inside the input and not before the bytes already covered), then the
   consuming tokens tile a prefix [0, startOffset) contiguously and in order, and every token's positions
   agree with the specification (tok_ok). *)
Theorem lexer_model_ok : forall pooled inp,
  let l := fst (Lex pooled inp) in
  regular inp 0 (rev (l_rtokens l)) ->
  tiles 0 (l_startOffset l) (cons_ranges (rev (l_rtokens l))) /\
  Forall (tok_ok inp) (rev (l_rtokens l)) /\
  0 <= l_startOffset l <= zlen inp.
Proof.
  intros pooled inp l Hreg. destruct (Lex_reach pooled inp) as (Hi & ems & Hk & Hr). fold l in Hi, Hr.
  exact (abstract_run_ok inp ems (D l) Hk Hr Hreg).
Qed.

(* the state invariant at the end (used for the EOF token) *)
Lemma lexer_model_dinv : forall pooled inp,
  let l := fst (Lex pooled inp) in
  regular inp 0 (rev (l_rtokens l)) -> dinv inp (D l).
Proof.
  intros pooled inp l Hreg. destruct (Lex_reach pooled inp) as (Hi & ems & Hk & Hr). fold l in Hi, Hr.
  eapply drun_inv; [apply dinv_init|exact Hk|exact Hr|simpl; reflexivity|exact Hreg].
Qed.

(* the synthetic EOF token of Next(): when lexing ended at the end of the input
   (all bytes covered, endOffset one past the EOF rune), it sits at offset len with the spec position *)
Theorem eof_token_ok : forall pooled inp t,
  let l := fst (Lex pooled inp) in
  regular inp 0 (rev (l_rtokens l)) ->
  l_startOffset l = zlen inp -> l_endOffset l = zlen inp + 1 ->
  eof_token l = Ok t ->
  t_start t = t_end t /\ p_off (t_start t) = zlen inp /\
  p_line (t_start t) = line_of_offset inp (zlen inp) /\
  (ascii inp -> (p_line (t_start t), p_col (t_start t)) = pos_of_offset inp (zlen inp)).
Proof.
  intros pooled inp t l Hreg Hso Heo Ht.
  destruct (Lex_reach pooled inp) as (Hi & _). fold l in Hi.
  destruct (lexer_model_dinv pooled inp Hreg) as (_ & Hline & Hcol & _). fold l in Hline, Hcol.
  unfold D in Hline, Hcol. cbn [d_so d_line d_col] in Hline, Hcol.
  unfold eof_token, endPos, endpos_at in Ht. rewrite Hi, Hso, Heo in Ht.
  replace (zlen inp + 1 - 1) with (zlen inp) in Ht by lia.
  assert (Hloop : forall fuel line col, endpos_loop fuel inp (zlen inp) (zlen inp) line col = Ok (line, col)).
  { intros. destruct fuel; simpl; rewrite Z.ltb_irrefl; reflexivity. }
  rewrite Hloop in Ht. cbn [bind fst snd] in Ht. injection Ht as <-. cbn [t_start t_end p_off p_line p_col].
  rewrite Hso in Hline, Hcol.
  split; [reflexivity|]. split; [reflexivity|]. split; [exact Hline|].
  intros Ha. apply Hcol. unfold zlen. rewrite Nat2Z.id, firstn_all. exact Ha.
Qed.

(* ------------------------------------------------------------------ 4. witnesses *)

(* the tokens emitted for an input (without the synthetic EOF token) *)
Definition emitted (inp : list Z) : list token := rev (l_rtokens (fst (Lex fresh_lexer inp))).

(* the unrestricted statements of the property, for the model of the real lexer *)
Definition statement_pos_bytes : Prop := forall inp t, In t (emitted inp) ->
  (p_line (t_start t), p_col (t_start t)) = pos_of_offset inp (p_off (t_start t)).
Definition statement_pos_runes : Prop := forall inp t, In t (emitted inp) ->
  (p_line (t_start t), p_col (t_start t)) = rune_pos_of_offset inp (p_off (t_start t)).
Definition statement_range : Prop := forall inp t, In t (emitted inp) ->
  0 <= p_off (t_start t) <= p_off (t_end t) /\ p_off (t_end t) < zlen inp.

Definition start_matches_bytes (inp : list Z) (t : token) : bool :=
  let p := pos_of_offset inp (p_off (t_start t)) in
  (p_line (t_start t) =? fst p) && (p_col (t_start t) =? snd p).
Definition start_matches_runes (inp : list Z) (t : token) : bool :=
  let p := rune_pos_of_offset inp (p_off (t_start t)) in
  (p_line (t_start t) =? fst p) && (p_col (t_start t) =? snd p).

(* "é" x : the token at byte offset 4 has column 3 (byte reading: 4) *)
Definition w_bytes : list Z := [34; 195; 169; 34; 32; 120].
(* /*€*/ x : the token at byte offset 5 has column 4 (bytes: 5, runes: 3) *)
Definition w_runes : list Z := [47; 42; 226; 130; 172; 42; 47; 32; 120].
(* "\(a)\(b)" z : pure ASCII; zero-width string token [5,4]; later columns one too large *)
Definition w_zero : list Z := [34; 92; 40; 97; 41; 92; 40; 98; 41; 34; 32; 122].
(* 0a : the literal token is [0,2] although the input has 2 bytes *)
Definition w_past : list Z := [48; 97].

Lemma witness_bytes : existsb (fun t => negb (start_matches_bytes w_bytes t)) (emitted w_bytes) = true.
Proof. vm_compute. reflexivity. Qed.
Lemma witness_runes :
  existsb (fun t => negb (start_matches_bytes w_runes t)) (emitted w_runes) = true /\
  existsb (fun t => negb (start_matches_runes w_runes t)) (emitted w_runes) = true.
Proof. vm_compute. split; reflexivity. Qed.
Lemma witness_zero_width :
  asciib w_zero = true /\
  existsb (fun t => p_off (t_end t) <? p_off (t_start t)) (emitted w_zero) = true /\
  existsb (fun t => negb (start_matches_bytes w_zero t)) (emitted w_zero) = true /\
  existsb (fun t => negb (start_matches_runes w_zero t)) (emitted w_zero) = true.
Proof. vm_compute. repeat split. Qed.
Lemma witness_past_input :
  existsb (fun t => zlen w_past <=? p_off (t_end t)) (emitted w_past) = true.
Proof. vm_compute. reflexivity. Qed.

Lemma matches_bytes_true : forall inp t,
  (p_line (t_start t), p_col (t_start t)) = pos_of_offset inp (p_off (t_start t)) -> start_matches_bytes inp t = true.
Proof. intros inp t H. unfold start_matches_bytes. rewrite <- H. cbn [fst snd]. rewrite !Z.eqb_refl. reflexivity. Qed.
Lemma matches_runes_true : forall inp t,
  (p_line (t_start t), p_col (t_start t)) = rune_pos_of_offset inp (p_off (t_start t)) -> start_matches_runes inp t = true.
Proof. intros inp t H. unfold start_matches_runes. rewrite <- H. cbn [fst snd]. rewrite !Z.eqb_refl. reflexivity. Qed.

(* neither reading of "column" makes the unrestricted statement true, even on pure ASCII input *)
Theorem pos_statement_refuted :
  ~ statement_pos_bytes /\ ~ statement_pos_runes /\
  (exists inp t, ascii inp /\ In t (emitted inp) /\
     (p_line (t_start t), p_col (t_start t)) <> pos_of_offset inp (p_off (t_start t))).
Proof.
  split; [|split].
  - intros H. destruct (proj1 (existsb_exists _ _) witness_bytes) as (t & Hin & Hf).
    rewrite (matches_bytes_true _ _ (H _ _ Hin)) in Hf. discriminate.
  - intros H. destruct (proj1 (existsb_exists _ _) (proj2 witness_runes)) as (t & Hin & Hf).
    rewrite (matches_runes_true _ _ (H _ _ Hin)) in Hf. discriminate.
  - destruct witness_zero_width as (Ha & _ & Hw & _).
    destruct (proj1 (existsb_exists _ _) Hw) as (t & Hin & Hf).
    exists w_zero, t. split; [|split; [exact Hin|]].
    + unfold ascii. apply Forall_forall. intros x Hx. unfold asciib in Ha. rewrite forallb_forall in Ha.
      specialize (Ha x Hx). lia.
    + intros Heq. rewrite (matches_bytes_true _ _ Heq) in Hf. discriminate.
Qed.

Theorem range_statement_refuted :
  ~ statement_range /\
  (exists inp t, In t (emitted inp) /\ p_off (t_end t) < p_off (t_start t)) /\
  (exists inp t, In t (emitted inp) /\ zlen inp <= p_off (t_end t)).
Proof.
  destruct witness_zero_width as (_ & Hz & _).
  destruct (proj1 (existsb_exists _ _) Hz) as (t & Hin & Hf).
  destruct (proj1 (existsb_exists _ _) witness_past_input) as (t2 & Hin2 & Hf2).
  split; [|split].
  - intros H. destruct (H _ _ Hin) as [H1 _]. lia.
  - exists w_zero, t. split; [exact Hin|lia].
  - exists w_past, t2. split; [exact Hin2|lia].
Qed.

(* the forms used by Properties/C37.v *)
Theorem tokens_tile_input_partial : forall pooled inp,
  let l := fst (Lex pooled inp) in
  regular inp 0 (rev (l_rtokens l)) ->
  tiles 0 (l_startOffset l) (cons_ranges (rev (l_rtokens l))) /\ 0 <= l_startOffset l <= zlen inp.
Proof. intros pooled inp l H. exact (conj (proj1 (lexer_model_ok pooled inp H)) (proj2 (proj2 (lexer_model_ok pooled inp H)))). Qed.

Theorem token_pos_matches_offset_partial : forall pooled inp,
  let l := fst (Lex pooled inp) in
  regular inp 0 (rev (l_rtokens l)) ->
  Forall (tok_ok inp) (rev (l_rtokens l)).
Proof. intros pooled inp l H. exact (proj1 (proj2 (lexer_model_ok pooled inp H))). Qed.

Theorem clear_resets_every_field :
  Tables.fields_covered = true /\ Tables.clear_known = true /\ Tables.lex_known = true /\ Tables.codes_match = true.
Proof. exact (conj struct_fields_covered (conj (proj1 clear_fields_known) (conj (proj2 clear_fields_known) token_codes_match_source))). Qed.
