(* C37 — case-check function for the correspondence run: the token stream observed from the real
   lexer.Lex (all tokens returned by Next() up to and including the synthetic EOF token) must equal the
   token stream of the Coq lexer model, whatever lexer the pool handed out. *)
From CV Require Export Base.Prelude C37.Utf8 C37.Model.

Definition otok := (Z * Z * (Z * Z * Z) * (Z * Z * Z))%type.
(* input bytes; number of observed tokens; digest of the observed tokens (see tok_digest: the harness
   computes the same fold over the real tokens; the full observed stream is in the .jsonl sidecar);
   observed error class of Lex (0 none, 1 user, 2 internal, 3 crash) *)
Definition lex_case := (list Z * Z * Z * Z)%type.

Definition dmask : Z := 1099511627775.   (* 2^40 - 1 *)
Definition dstep (h x : Z) : Z := Z.land (h * 1000003 + x + 7) dmask.
Definition tok_digest (h : Z) (t : token) : Z :=
  dstep (dstep (dstep (dstep (dstep (dstep (dstep (dstep h (t_ty t)) (t_aux t))
    (p_off (t_start t))) (p_line (t_start t))) (p_col (t_start t)))
    (p_off (t_end t))) (p_line (t_end t))) (p_col (t_end t)).
Definition toks_digest (l : list token) : Z := fold_left tok_digest l 0.

Definition pos_eqb (p : pos) (q : Z * Z * Z) : bool :=
  let '(o, l, c) := q in (p_off p =? o) && (p_line p =? l) && (p_col p =? c).

Definition tok_eqb (t : token) (o : otok) : bool :=
  let '(ty, aux, s, e) := o in
  (t_ty t =? ty) && (t_aux t =? aux) && pos_eqb (t_start t) s && pos_eqb (t_end t) e.

Fixpoint toks_eqb (l : list token) (o : list otok) : bool :=
  match l, o with
  | [], [] => true
  | t :: l', x :: o' => tok_eqb t x && toks_eqb l' o'
  | _, _ => false
  end.

Definition zlen_tok (l : list token) : Z := Z.of_nat (length l).

Definition err_code (e : option err) : Z :=
  match e with
  | None => 0
  | Some UserOther => 1
  | Some Internal => 2
  | Some Crash => 3
  | Some _ => 9
  end.

(* a lexer as the pool may hand it out after arbitrary earlier use *)
Definition dirty_lexer : lexer :=
  mkLexer [34; 92; 40] [mkTok 10 0 (mkPos 0 1 0) (mkPos 0 1 0)] 7 3 5 9 8 2 1 40 92 true 1 3.

Definition check_lex (c : lex_case) : bool :=
  let '(inp, ntok, dig, ecode) := c in
  let chk pooled :=
    match token_stream pooled inp with
    | (ts, e) =>
      (err_code e =? ecode) &&
      (if ecode =? 0 then match ts with Ok l => (zlen_tok l =? ntok) && (toks_digest l =? dig) | Err _ => false end else true)
    end in
  chk dirty_lexer.
