(* C37 — specification side: what "a token's line and column match its byte offset" means, and what
   "tokens cover the input contiguously in order" means.  Independent of the lexer model.

   ast.Position documents: Offset starting at 0, Line starting at 1, Column "starting at 0 (byte count)";
   ast.NewPositionAtCodeOffset computes exactly [pos_of_offset].  We therefore take the BYTE reading as the
   specification; the rune reading (what lexer.endPos evidently intends) is formalised as well, because the
   real lexer agrees with neither on all inputs (see Properties/C37.v). *)
From CV Require Import Base.Prelude C37.Utf8.

Fixpoint count_nl (l : list Z) : Z :=
  match l with
  | [] => 0
  | b :: r => (if b =? 10 then 1 else 0) + count_nl r
  end.

(* scan bytes: a newline byte starts a new line at column 0, any other byte advances the column *)
Fixpoint pos_scan (l : list Z) (line col : Z) : Z * Z :=
  match l with
  | [] => (line, col)
  | b :: r => if b =? 10 then pos_scan r (line + 1) 0 else pos_scan r line (col + 1)
  end.

(* (line, column) of a byte offset: line = 1 + number of '\n' before it, column = bytes since line start *)
Definition pos_of_offset (input : list Z) (off : Z) : Z * Z :=
  pos_scan (firstn (Z.to_nat off) input) 1 0.

Definition line_of_offset (input : list Z) (off : Z) : Z := 1 + count_nl (firstn (Z.to_nat off) input).

(* rune reading: scan by utf8.DecodeRune steps (width at least 1) while the rune starts before [off] *)
Fixpoint rune_scan (fuel : nat) (rest : list Z) (n line col : Z) : Z * Z :=
  match fuel with
  | O => (line, col)
  | S f =>
    if 0 <? n then
      match rest with
      | [] => (line, col)
      | _ =>
        let rw := decode_rune rest in
        let w := if snd rw <=? 0 then 1 else snd rw in
        if fst rw =? 10 then rune_scan f (drop w rest) (n - w) (line + 1) 0
        else rune_scan f (drop w rest) (n - w) line (col + 1)
      end
    else (line, col)
  end.

Definition rune_pos_of_offset (input : list Z) (off : Z) : Z * Z :=
  rune_scan (Z.to_nat off) input off 1 0.

Definition ascii (l : list Z) : Prop := Forall (fun b => 0 <= b < 128) l.
Definition asciib (l : list Z) : bool := forallb (fun b => (0 <=? b) && (b <? 128)) l.

(* ranges (start offset, end offset inclusive) tile [a, b): contiguous, in order, non-empty each *)
Fixpoint tiles (a b : Z) (ranges : list (Z * Z)) : Prop :=
  match ranges with
  | [] => a = b
  | (s, e) :: r => s = a /\ s <= e /\ tiles (e + 1) b r
  end.
