(* C37 — facts about the DecodeRune model (Utf8.v), newline counting and list slicing. *)
From CV Require Import Base.Prelude C37.Utf8 C37.Spec C37.Model Gen.GenC37.
From Coq Require Import Lia.


(* ------------------------------------------------------------------ 1. facts about DecodeRune *)

Lemma decode_nil : decode_rune [] = (RuneError, 0).
Proof. reflexivity. Qed.

Lemma mod_lo32 : forall b, 194 <= b < 224 -> 2 <= b mod 32 < 32.
Proof. intros. Z.div_mod_to_equations. lia. Qed.
Lemma mod_lo16 : forall b, 225 <= b < 240 -> 1 <= b mod 16 < 16.
Proof. intros. Z.div_mod_to_equations. lia. Qed.
Lemma mod_lo8 : forall b, 241 <= b <= 244 -> 1 <= b mod 8 < 8.
Proof. intros. Z.div_mod_to_equations. lia. Qed.
Lemma mod64_a0 : forall x, 160 <= x <= 191 -> 32 <= x mod 64 < 64.
Proof. intros. Z.div_mod_to_equations. lia. Qed.
Lemma mod64_90 : forall x, 144 <= x <= 191 -> 16 <= x mod 64 < 64.
Proof. intros. Z.div_mod_to_equations. lia. Qed.
Lemma mod_nonneg : forall x n, 0 < n -> 0 <= x mod n < n.
Proof. intros. apply Z.mod_pos_bound. lia. Qed.

(* a relational characterisation of DecodeRune, from which the facts used below follow *)
Inductive dec_spec (b : Z) (r : list Z) : Z * Z -> Prop :=
| DAscii : b < 128 -> dec_spec b r (b, 1)
| DErr : 128 <= b -> dec_spec b r (RuneError, 1)
| D2 : forall b1 r1 v, r = b1 :: r1 -> 128 <= b -> 128 <= b1 -> 128 <= v -> dec_spec b r (v, 2)
| D3 : forall b1 b2 r2 v, r = b1 :: b2 :: r2 -> 128 <= b -> 128 <= b1 -> 128 <= b2 -> 128 <= v ->
       dec_spec b r (v, 3)
| D4 : forall b1 b2 b3 r3 v, r = b1 :: b2 :: b3 :: r3 -> 128 <= b -> 128 <= b1 -> 128 <= b2 -> 128 <= b3 ->
       128 <= v -> dec_spec b r (v, 4).

Ltac zcase c :=
  match c with
  | ?x <? ?y => destruct (Z.ltb_spec x y)
  | ?x =? ?y => destruct (Z.eqb_spec x y)
  | ?x <=? ?y => destruct (Z.leb_spec x y)
  end.

Lemma decode_spec : forall b r, dec_spec b r (decode_rune (b :: r)).
Proof.
  intros b r. unfold decode_rune.
  zcase (b <? 128); [apply DAscii; lia|].
  zcase (b <? 194); cbn [orb]; [apply DErr; lia|].
  zcase (244 <? b); [apply DErr; lia|].
  destruct r as [|b1 r1].
  { zcase (b <? 224); [|zcase (b <? 240)]; apply DErr; lia. }
  zcase (b <? 224).
  { (* two bytes *)
    zcase (b =? 224); [lia|]. zcase (b =? 240); [lia|]. zcase (b =? 237); [lia|]. zcase (b =? 244); [lia|].
    zcase (b1 <? 128); cbn [orb]; [apply DErr; lia|]. zcase (191 <? b1); [apply DErr; lia|].
    change (2 <=? 2) with true. cbv iota.
    eapply D2; [reflexivity|lia|lia|].
    pose proof (mod_lo32 b). pose proof (mod_nonneg b1 64). lia. }
  assert (Hb1 : forall (lo hi : Z) (X : Z * Z), 128 <= lo -> hi <= 191 ->
      (forall (Hlo : lo <= b1) (Hhi : b1 <= hi), dec_spec b (b1 :: r1) X) ->
      dec_spec b (b1 :: r1) (if (b1 <? lo) || (hi <? b1) then (RuneError, 1) else X)).
  { intros lo hi X Hl Hh HX. zcase (b1 <? lo); cbn [orb]; [apply DErr; lia|].
    zcase (hi <? b1); [apply DErr; lia|]. apply HX; lia. }
  assert (Hcont : forall (x : Z) (X : Z * Z) (rr : list Z),
      (128 <= x <= 191 -> dec_spec b rr X) -> 128 <= b ->
      dec_spec b rr (if (x <? 128) || (191 <? x) then (RuneError, 1) else X)).
  { intros x X rr HX Hb. zcase (x <? 128); cbn [orb]; [apply DErr; lia|].
    zcase (191 <? x); [apply DErr; lia|]. apply HX; lia. }
  zcase (b <? 240).
  { (* three bytes *)
    change (3 <=? 2) with false. cbv iota.
    zcase (b =? 240); [lia|]. zcase (b =? 244); [lia|].
    pose proof (mod_nonneg b 16). pose proof (mod_nonneg b1 64).
    zcase (b =? 224); zcase (b =? 237); try lia.
    all: apply Hb1; [lia|lia|]; intros Hlo Hhi.
    all: destruct r1 as [|b2 r2]; [apply DErr; lia|].
    all: apply Hcont; [|lia]; intros Hb2; change (3 <=? 3) with true; cbv iota.
    all: pose proof (mod_nonneg b2 64).
    all: eapply D3; [reflexivity|lia|lia|lia|].
    - pose proof (mod64_a0 b1). lia.
    - pose proof (mod_lo16 b). lia.
    - pose proof (mod_lo16 b). lia. }
  (* four bytes *)
  change (4 <=? 2) with false. change (4 <=? 3) with false. cbv iota.
  zcase (b =? 224); [lia|]. zcase (b =? 237); [lia|].
  pose proof (mod_nonneg b 8). pose proof (mod_nonneg b1 64).
  zcase (b =? 240); zcase (b =? 244); try lia.
  all: apply Hb1; [lia|lia|]; intros Hlo Hhi.
  all: destruct r1 as [|b2 r2]; [apply DErr; lia|].
  all: apply Hcont; [|lia]; intros Hb2.
  all: destruct r2 as [|b3 r3]; [apply DErr; lia|].
  all: apply Hcont; [|lia]; intros Hb3.
  all: pose proof (mod_nonneg b2 64); pose proof (mod_nonneg b3 64).
  all: eapply D4; [reflexivity|lia|lia|lia|lia|].
  - pose proof (mod64_90 b1). lia.
  - pose proof (mod_lo8 b). lia.
  - pose proof (mod_lo8 b). lia.
Qed.

Lemma decode_width : forall b r, 1 <= snd (decode_rune (b :: r)) <= 4.
Proof. intros. destruct (decode_spec b r); simpl; lia. Qed.

Lemma decode_width_len : forall p, snd (decode_rune p) <= zlen p.
Proof.
  intros [|b r]; [unfold zlen; simpl; lia|].
  unfold zlen. destruct (decode_spec b r); subst; simpl length; simpl snd; lia.
Qed.

Lemma decode_ascii : forall b r, b < 128 -> decode_rune (b :: r) = (b, 1).
Proof. intros. unfold decode_rune. destruct (Z.ltb_spec b 128); [reflexivity|lia]. Qed.

(* the rune is '\n' exactly when the first byte is '\n' *)
Lemma decode_nl : forall b r, (fst (decode_rune (b :: r)) =? 10) = (b =? 10).
Proof.
  intros. destruct (decode_spec b r); cbn [fst]; unfold RuneError; try reflexivity;
  repeat match goal with |- context [?x =? 10] => destruct (Z.eqb_spec x 10) end; try reflexivity; lia.
Qed.

Definition max1 (w : Z) : Z := if w <=? 0 then 1 else w.

Lemma max1_decode : forall b r, max1 (snd (decode_rune (b :: r))) = snd (decode_rune (b :: r)).
Proof. intros. pose proof (decode_width b r). unfold max1. destruct (Z.leb_spec (snd (decode_rune (b :: r))) 0); lia. Qed.

Lemma count_nl_app : forall a b, count_nl (a ++ b) = count_nl a + count_nl b.
Proof. induction a; simpl; intros; [lia|]. rewrite IHa. lia. Qed.

Lemma count_nl_nonneg : forall l, 0 <= count_nl l.
Proof. induction l; simpl; [lia|]. destruct (a =? 10); lia. Qed.

Lemma count_nl_high : forall l, Forall (fun b => 128 <= b) l -> count_nl l = 0.
Proof.
  induction 1; simpl; [reflexivity|]. rewrite IHForall.
  destruct (Z.eqb_spec x 10); lia.
Qed.

(* one decoding step: the bytes it consumes contain a newline iff the rune is '\n';
   a step wider than one byte consumes only bytes >= 128 *)
Lemma decode_step : forall b r,
  let w := Z.to_nat (snd (decode_rune (b :: r))) in
  (w <= length (b :: r))%nat /\
  count_nl (firstn w (b :: r)) = (if fst (decode_rune (b :: r)) =? 10 then 1 else 0) /\
  (1 < snd (decode_rune (b :: r)) -> Forall (fun x => 128 <= x) (firstn w (b :: r))).
Proof.
  intros b r. rewrite decode_nl.
  destruct (decode_spec b r) as [Hb|Hb|b1 r1 v -> Hb H1 Hv|b1 b2 r2 v -> Hb H1 H2 Hv|b1 b2 b3 r3 v -> Hb H1 H2 H3 Hv];
  cbn [snd fst]; simpl Z.to_nat; cbv zeta.
  - simpl. split; [lia|]. split; [destruct (b =? 10); lia|lia].
  - simpl. split; [lia|]. split; [destruct (b =? 10); lia|lia].
  - simpl. split; [lia|]. split.
    + destruct (Z.eqb_spec b 10); destruct (Z.eqb_spec b1 10); lia.
    + intros _. repeat constructor; lia.
  - simpl. split; [lia|]. split.
    + destruct (Z.eqb_spec b 10); destruct (Z.eqb_spec b1 10); destruct (Z.eqb_spec b2 10); lia.
    + intros _. repeat constructor; lia.
  - simpl. split; [lia|]. split.
    + destruct (Z.eqb_spec b 10); destruct (Z.eqb_spec b1 10); destruct (Z.eqb_spec b2 10); destruct (Z.eqb_spec b3 10); lia.
    + intros _. repeat constructor; lia.
Qed.

(* ------------------------------------------------------------------ 2. list helpers *)

Lemma zlen_nonneg : forall l, 0 <= zlen l.
Proof. intros. unfold zlen. lia. Qed.

Lemma zlen_cons : forall (b : Z) r, zlen (b :: r) = zlen r + 1.
Proof. intros. unfold zlen. simpl length. lia. Qed.

Lemma drop_0 : forall l, drop 0 l = l.
Proof. reflexivity. Qed.

Lemma skipn_plus : forall (a b : nat) (l : list Z), skipn b (skipn a l) = skipn (a + b) l.
Proof.
  induction a; simpl; intros; [reflexivity|]. destruct l; [destruct b; reflexivity|]. apply IHa.
Qed.

Lemma drop_drop : forall a b l, 0 <= a -> 0 <= b -> drop b (drop a l) = drop (a + b) l.
Proof.
  intros. unfold drop. rewrite skipn_plus. f_equal. lia.
Qed.

Lemma zlen_drop : forall a l, 0 <= a <= zlen l -> zlen (drop a l) = zlen l - a.
Proof.
  intros. unfold drop, zlen in *. rewrite skipn_length. lia.
Qed.

Lemma drop_nonempty : forall a l, 0 <= a < zlen l -> exists b r, drop a l = b :: r.
Proof.
  intros. pose proof (zlen_drop a l ltac:(lia)).
  destruct (drop a l) as [|b r]; [unfold zlen in *; simpl in *; lia|eauto].
Qed.

Lemma firstn_plus : forall (a b : nat) (l : list Z), firstn (a + b) l = firstn a l ++ firstn b (skipn a l).
Proof.
  induction a; simpl; intros; [reflexivity|]. destruct l; simpl; [destruct b; reflexivity|].
  rewrite IHa. reflexivity.
Qed.

Lemma nth_skipn : forall (a i : nat) (l : list Z), nth i (skipn a l) 0 = nth (a + i) l 0.
Proof.
  induction a; simpl; intros; [reflexivity|]. destruct l; simpl; [destruct i; reflexivity|]. apply IHa.
Qed.

Lemma Forall_firstn_le : forall (P : Z -> Prop) (a b : nat) l, (a <= b)%nat -> Forall P (firstn b l) -> Forall P (firstn a l).
Proof.
  intros P a b l Hab H. replace b with (a + (b - a))%nat in H by lia.
  rewrite firstn_plus in H. apply Forall_app in H. tauto.
Qed.

Lemma Forall_firstn_nth : forall (P : Z -> Prop) (k i : nat) l, Forall P (firstn k l) -> (i < k)%nat -> (k <= length l)%nat -> P (nth i l 0).
Proof.
  induction k; intros i l H Hi Hk; [lia|].
  destruct l as [|x l]; [simpl in Hk; lia|]. simpl in H. inversion H; subst.
  destruct i; [assumption|]. simpl. apply IHk; [assumption|lia|simpl in Hk; lia].
Qed.

