(* C26 proofs: the code-shaped contract lifecycle machine (immediate host code updates, deferred
   contract-value writes) refines the lifecycle specification for all histories that avoid the
   two defects of the unchanged tree; consequences of the specification. *)
From CV Require Import C26.Model.

Local Ltac inv H := inversion H; subst; clear H.

(* ------------------------------------------------------------------ maps *)
Definition keq (a n a' n' : Z) : bool := (a' =? a) && (n' =? n).

Lemma keq_true a n a' n' : keq a n a' n' = true <-> a' = a /\ n' = n.
Proof. unfold keq. rewrite Bool.andb_true_iff, !Z.eqb_eq. tauto. Qed.
Lemma keq_refl a n : keq a n a n = true.
Proof. apply keq_true. auto. Qed.

Lemma upd2_eq {V} (f : Z -> Z -> V) a n v a' n' :
  upd2 f a n v a' n' = if keq a n a' n' then v else f a' n'.
Proof. reflexivity. Qed.

Lemma p_find_set l a n v a' n' :
  p_find (p_set l a n v) a' n' = if keq a' n' a n then Some v else p_find l a' n'.
Proof.
  induction l as [|[[a0 n0] v0] r IH]; simpl.
  - unfold keq. destruct ((a =? a') && (n =? n')); reflexivity.
  - destruct ((a0 =? a) && (n0 =? n)) eqn:E; simpl.
    + apply Bool.andb_true_iff in E. destruct E as [E1 E2]. apply Z.eqb_eq in E1, E2. subst a0 n0.
      unfold keq. destruct ((a =? a') && (n =? n')); reflexivity.
    + destruct ((a0 =? a') && (n0 =? n')) eqn:E2; auto.
      unfold keq. destruct ((a =? a') && (n =? n')) eqn:E3; auto.
      apply Bool.andb_true_iff in E2, E3. destruct E2 as [A1 A2], E3 as [B1 B2].
      apply Z.eqb_eq in A1, A2, B1, B2. subst a0 n0 a' n'. rewrite !Z.eqb_refl in E. discriminate.
Qed.

Lemma kmem_cons a n a0 n0 l : kmem a n ((a0, n0) :: l) = keq a n a0 n0 || kmem a n l.
Proof. reflexivity. Qed.

(* keys of the pending map are unique: applying it in order = looking the key up *)
Fixpoint nodup_keys (l : list kv) : Prop :=
  match l with
  | [] => True
  | ((a, n), _) :: r => p_find r a n = None /\ nodup_keys r
  end.

Lemma nodup_keys_set l a n v : nodup_keys l -> nodup_keys (p_set l a n v).
Proof.
  induction l as [|[[a0 n0] v0] r IH]; simpl; auto.
  intros [H1 H2]. destruct ((a0 =? a) && (n0 =? n)) eqn:E; simpl; auto.
  split; auto. rewrite p_find_set. unfold keq.
  rewrite (Z.eqb_sym a a0), (Z.eqb_sym n n0), E. exact H1.
Qed.

Lemma apply_pending_find l : forall v a n,
  nodup_keys l ->
  apply_pending v l a n = match p_find l a n with Some x => x | None => v a n end.
Proof.
  induction l as [|[[a0 n0] x0] r IH]; intros v a n Hnd; simpl; auto.
  destruct Hnd as [H1 H2]. rewrite IH by auto.
  destruct ((a0 =? a) && (n0 =? n)) eqn:E.
  - apply Bool.andb_true_iff in E. destruct E as [E1 E2]. apply Z.eqb_eq in E1, E2. subst a0 n0.
    rewrite H1. rewrite upd2_eq, keq_refl. reflexivity.
  - destruct (p_find r a n); auto. rewrite upd2_eq. unfold keq.
    rewrite (Z.eqb_sym a a0), (Z.eqb_sym n n0), E. reflexivity.
Qed.

(* ------------------------------------------------------------------ guard: the two defects *)
(* an operation that would hit a defect of the unchanged tree, judged on the specification state:
   remove of a contract added earlier in the same transaction (leaks the pending value);
   interpreter: borrow of a contract added earlier in the same transaction (nil dereference) *)
Definition bad_op (e : engine) (st : sstate) (o : op) : bool :=
  match o with
  | ORemove a n =>
      match dep st a n with
      | Some old => negb (src_has_enum old) && kmem a n (added st)
      | None => false
      end
  | OBorrow a n =>
      match e with
      | Interp => match dep st a n with Some _ => kmem a n (added st) | None => false end
      | VM => false
      end
  | _ => false
  end.

Fixpoint ok_ops (e : engine) (st : sstate) (ops : list op) : bool :=
  match ops with
  | [] => true
  | o :: r =>
      negb (bad_op e st o) &&
      (let '(res, _, st') := s_step st o in if is_fail res then true else ok_ops e st' r)
  end.

Fixpoint ok_hist (e : engine) (st : sstate) (h : list (list op)) : bool :=
  match h with
  | [] => true
  | t :: r => ok_ops e st t && ok_hist e (snd (s_run_tx st t)) r
  end.

(* ------------------------------------------------------------------ simulation *)
Definition key_inv (c : cstate) (s : sstate) (a n : Z) : Prop :=
  codes c a n = dep s a n /\
  match p_find (pending c) a n with
  | None => kmem a n (touched s) = false /\ kmem a n (added s) = false /\
            (vals c a n = None <-> dep s a n = None)
  | Some (Some _) => kmem a n (touched s) = true /\ kmem a n (added s) = true /\
                     vals c a n = None /\ dep s a n <> None
  | Some None => kmem a n (touched s) = true /\ kmem a n (added s) = false /\ dep s a n = None
  end.

Definition Rel (c : cstate) (s : sstate) : Prop :=
  (forall a n, key_inv c s a n) /\ leaked c = false /\ nodup_keys (pending c).

Lemma Rel_codes c s a n : Rel c s -> codes c a n = dep s a n.
Proof. intros (H & _). apply H. Qed.

Lemma Rel_recorded c s a n : Rel c s -> recorded (pending c) a n = kmem a n (touched s).
Proof.
  intros (H & _). destruct (H a n) as [_ H2]. unfold recorded.
  destruct (p_find (pending c) a n) as [[x|]|]; intuition congruence.
Qed.

Lemma names_of_ext f g l : (forall n, f n = g n) -> names_of f l = names_of g l.
Proof. intro H. induction l as [|n r IH]; simpl; auto. now rewrite H, IH. Qed.

(* change (add / update): same verdict, related states *)
Lemma change_sim c s a n src (upd : bool) :
  Rel c s ->
  let '(r1, e1, c') := c_change c a n src upd in
  let '(r2, e2, s') := (if upd then s_update s a n src else s_add s a n src) in
  r1 = r2 /\ e1 = e2 /\ Rel c' s'.
Proof.
  intro HR. pose proof HR as (Hk & Hl & Hnd).
  unfold c_change, s_update, s_add, deployable.
  rewrite (Rel_codes _ _ a n HR), (Rel_recorded _ _ a n HR).
  destruct upd.
  - (* update *)
    destruct (dep s a n) as [old|] eqn:Ed; [|auto].
    destruct (check_src n src) as [f|]; [auto|].
    destruct (src_compat old src); simpl; [|auto].
    split; auto. split; auto. split; [|auto]. intros a' n'. specialize (Hk a' n').
    unfold key_inv in *. cbn [codes vals pending leaked dep added touched]. rewrite !upd2_eq.
    destruct (keq a n a' n') eqn:E.
    + apply keq_true in E. destruct E; subst. destruct Hk as [Hc Hp]. split; auto.
      rewrite Ed in Hp. destruct (p_find (pending c) a n) as [[x|]|].
      * intuition congruence.
      * destruct Hp as (_ & _ & Hp). discriminate.
      * destruct Hp as (H1 & H2 & H3). repeat split; auto; intro H; try discriminate.
        apply H3 in H. discriminate.
    + exact Hk.
  - (* add *)
    destruct (dep s a n) as [old|] eqn:Ed; [auto|].
    destruct (kmem a n (touched s)) eqn:Et; [auto|].
    destruct (check_src n src) as [f|]; [auto|]. simpl.
    destruct (sclass_eqb (s_class src) SInitPanics); [auto|].
    split; auto. split; auto. split; [|split; auto; simpl; now apply nodup_keys_set].
    intros a' n'. specialize (Hk a' n'). unfold key_inv in *.
    cbn [codes vals pending leaked dep added touched].
    rewrite !upd2_eq, p_find_set, !kmem_cons.
    destruct (keq a n a' n') eqn:E.
    + pose proof E as E'. apply keq_true in E'. destruct E'; subst. rewrite keq_refl.
      destruct Hk as [Hc Hp]. split; auto. simpl.
      assert (Hpf : p_find (pending c) a n = None).
      { pose proof (Rel_recorded _ _ a n HR) as Hr. unfold recorded in Hr. rewrite Et in Hr.
        destruct (p_find (pending c) a n); [discriminate|auto]. }
      rewrite Hpf in Hp. destruct Hp as (_ & _ & Hv). repeat split; auto; try discriminate.
      apply Hv. exact Ed.
    + assert (keq a' n' a n = false) as ->.
      { unfold keq in *. now rewrite (Z.eqb_sym a a'), (Z.eqb_sym n n'). }
      simpl. exact Hk.
Qed.

Lemma step_sim e c s o :
  Rel c s -> bad_op e s o = false ->
  let '(r1, e1, c') := c_step e c o in
  let '(r2, e2, s') := s_step s o in
  r1 = r2 /\ e1 = e2 /\ Rel c' s'.
Proof.
  intros HR Hbad. pose proof HR as (Hk & Hl & Hnd). destruct o; simpl.
  - apply (change_sim c s a n s0 false HR).
  - apply (change_sim c s a n s0 true HR).
  - pose proof (change_sim c s a n s0 true HR) as H.
    destruct (c_change c a n s0 true) as [[r1 e1] c'].
    destruct (s_update s a n s0) as [[r2 e2] s'].
    destruct H as (<- & <- & HR'). destruct (is_fail r1); auto.
  - (* ORemove *)
    unfold c_remove. rewrite (Rel_codes _ _ a n HR).
    destruct (dep s a n) as [old|] eqn:Ed; [|auto].
    simpl in Hbad. rewrite Ed in Hbad.
    destruct (src_has_enum old); [auto|]. simpl in Hbad.
    split; auto. split; auto.
    destruct (Hk a n) as [Hc Hp]. rewrite Hbad in Hp.
    assert (Hpf : match p_find (pending c) a n with Some (Some _) => true | _ => false end = false).
    { destruct (p_find (pending c) a n) as [[x|]|]; auto. destruct Hp as (_ & Hp & _). discriminate. }
    split; [|split; [simpl; now rewrite Hl, Hpf|simpl; now apply nodup_keys_set]].
    intros a' n'. specialize (Hk a' n'). unfold key_inv in *.
    cbn [codes vals pending leaked dep added touched].
    rewrite !upd2_eq, p_find_set, !kmem_cons.
    destruct (keq a n a' n') eqn:E.
    + pose proof E as E'. apply keq_true in E'. destruct E'; subst. rewrite keq_refl. simpl. auto.
    + assert (keq a' n' a n = false) as ->.
      { unfold keq in *. now rewrite (Z.eqb_sym a a'), (Z.eqb_sym n n'). }
      simpl. exact Hk.
  - (* OGet *) rewrite (Rel_codes _ _ a n HR). auto.
  - (* OBorrow *)
    rewrite (Rel_codes _ _ a n HR). destruct (dep s a n) as [src|] eqn:Ed; [|auto].
    destruct (Hk a n) as [Hc Hp]. simpl in Hbad. rewrite Ed in Hbad.
    destruct (p_find (pending c) a n) as [[x|]|].
    + destruct Hp as (_ & Ha & Hv & _). rewrite Hv, Ha. destruct e; [congruence|auto].
    + destruct Hp as (_ & _ & Hp). congruence.
    + destruct Hp as (_ & Ha & Hv). rewrite Ha. destruct (vals c a n) eqn:Ev; auto.
      destruct Hv as [Hv _]. specialize (Hv eq_refl). congruence.
  - (* ONames *)
    rewrite (Rel_codes _ _ a 0 HR), (Rel_codes _ _ a 1 HR), (Rel_codes _ _ a 2 HR). auto.
  - auto.
Qed.

Lemma run_ops_sim e ops c s :
  Rel c s -> ok_ops e s ops = true ->
  let '(rs1, ev1, c', ok1) := c_run_ops e c ops in
  let '(rs2, ev2, s', ok2) := s_run_ops s ops in
  rs1 = rs2 /\ ev1 = ev2 /\ ok1 = ok2 /\ Rel c' s'.
Proof.
  revert c s. induction ops as [|o r IH]; intros c s HR Hok; simpl; auto.
  simpl in Hok. apply Bool.andb_true_iff in Hok. destruct Hok as [Hb Hok].
  apply Bool.negb_true_iff in Hb.
  pose proof (step_sim e c s o HR Hb) as Hs.
  destruct (c_step e c o) as [[r1 e1] c'].
  destruct (s_step s o) as [[r2 e2] s'].
  destruct Hs as (<- & <- & HR').
  destruct (is_fail r1); auto.
  specialize (IH _ _ HR' Hok).
  destruct (c_run_ops e c' r) as [[[rs1 ev1] c''] ok1].
  destruct (s_run_ops s' r) as [[[rs2 ev2] s''] ok2].
  destruct IH as (-> & -> & -> & HR''). auto.
Qed.

(* relation at transaction boundaries *)
Definition boundary_c (c : cstate) : Prop := pending c = [] /\ leaked c = false.
Definition boundary_s (s : sstate) : Prop := added s = [] /\ touched s = [].
Definition Rb (c : cstate) (s : sstate) : Prop :=
  boundary_c c /\ boundary_s s /\
  forall a n, codes c a n = dep s a n /\ (vals c a n = None <-> dep s a n = None).

Lemma Rb_Rel c s : Rb c s -> Rel c s.
Proof.
  intros ([Hp Hl] & [Ha Ht] & H). split; [|split; auto; rewrite Hp; exact I].
  intros a n. unfold key_inv. rewrite Hp, Ha, Ht. simpl. destruct (H a n). auto.
Qed.

Lemma run_tx_sim e t c s :
  Rb c s -> ok_ops e s t = true ->
  fst (c_run_tx e c t) = fst (s_run_tx s t) /\ Rb (snd (c_run_tx e c t)) (snd (s_run_tx s t)).
Proof.
  intros HRb Hok. pose proof (Rb_Rel _ _ HRb) as HR.
  unfold c_run_tx, s_run_tx.
  pose proof (run_ops_sim e t c s HR Hok) as Hs.
  destruct (c_run_ops e c t) as [[[rs1 ev1] c'] ok1].
  destruct (s_run_ops s t) as [[[rs2 ev2] s'] ok2].
  destruct Hs as (E1 & E2 & E3 & HR'). subst rs1 ev1 ok1. destruct HR' as (Hk & Hl & Hnd).
  destruct HRb as (_ & _ & Hb0).
  destruct ok2.
  - rewrite Hl. simpl. split; auto.
    split; [split; reflexivity|]. split; [split; reflexivity|].
    intros a n. simpl. destruct (Hk a n) as [Hc Hp]. split; auto.
    rewrite apply_pending_find by auto.
    destruct (p_find (pending c') a n) as [[x|]|].
    + destruct Hp as (_ & _ & _ & Hd). split; intro H; [discriminate|contradiction].
    + destruct Hp as (_ & _ & Hd). tauto.
    + destruct Hp as (_ & _ & Hv). exact Hv.
  - simpl. split; auto. split; [split; reflexivity|]. split; [split; reflexivity|]. exact Hb0.
Qed.

Lemma run_sim e h c s :
  Rb c s -> ok_hist e s h = true ->
  fst (c_run e c h) = fst (s_run s h) /\ Rb (snd (c_run e c h)) (snd (s_run s h)).
Proof.
  revert c s. induction h as [|t r IH]; intros c s HRb Hok; simpl; auto.
  simpl in Hok. apply Bool.andb_true_iff in Hok. destruct Hok as [Hok1 Hok2].
  destruct (run_tx_sim e t c s HRb Hok1) as [He HRb'].
  destruct (c_run_tx e c t) as [o1 c']. destruct (s_run_tx s t) as [o2 s'].
  simpl in *. subst. specialize (IH _ _ HRb' Hok2).
  destruct (c_run e c' r) as [os1 c'']. destruct (s_run s' r) as [os2 s''].
  simpl in *. destruct IH as [-> HRb'']. auto.
Qed.

Lemma Rb0 : Rb c0 s0.
Proof. repeat split; simpl; auto. Qed.

(* The code-shaped machine refines the lifecycle specification: all per-operation results and
   all events agree, for every history that avoids the two defects. *)
Theorem refinement e h : ok_hist e s0 h = true -> run_code e h = run_spec h.
Proof. intro H. unfold run_code, run_spec. apply (run_sim e h _ _ Rb0 H). Qed.

(* after every such history: code is deployed exactly where a contract instance is stored *)
Theorem codes_iff_instances e h :
  ok_hist e s0 h = true ->
  let c := snd (c_run e c0 h) in
  forall a n, codes c a n = None <-> vals c a n = None.
Proof.
  intros H c a n. destruct (run_sim e h _ _ Rb0 H) as [_ (_ & _ & Hb)].
  fold c in Hb. destruct (Hb a n) as [Hc Hv]. rewrite Hc. tauto.
Qed.

(* the host code map after the history is the specification's deployed map *)
Theorem final_codes_spec e h :
  ok_hist e s0 h = true ->
  forall a n, codes (snd (c_run e c0 h)) a n = dep (snd (s_run s0 h)) a n.
Proof. intros H a n. destruct (run_sim e h _ _ Rb0 H) as [_ (_ & _ & Hb)]. apply Hb. Qed.

(* ------------------------------------------------------------------ the lifecycle rules (specification) *)
Theorem add_fails_if_present st a n src old :
  dep st a n = Some old -> s_step st (OAdd a n src) = (RFail FUser, [], st).
Proof. intro H. simpl. unfold s_add. now rewrite H. Qed.

Theorem update_fails_if_absent st a n src :
  dep st a n = None -> s_step st (OUpdate a n src) = (RFail FUser, [], st).
Proof. intro H. simpl. unfold s_update. now rewrite H. Qed.

(* a successful add / update deploys exactly the given source under the given name and touches
   nothing else *)
Theorem add_success st a n src ev st' :
  s_step st (OAdd a n src) = (RUnit, ev, st') ->
  dep st a n = None /\ check_src n src = None /\ ev = [EvAdded a n src] /\
  dep st' = upd2 (dep st) a n (Some src).
Proof.
  simpl. unfold s_add, deployable. destruct (dep st a n); [discriminate|].
  destruct (kmem a n (touched st)); [discriminate|].
  destruct (check_src n src); [discriminate|].
  destruct (sclass_eqb (s_class src) SInitPanics); [discriminate|].
  intro H. inv H. auto.
Qed.

Theorem update_success st a n src ev st' :
  s_step st (OUpdate a n src) = (RUnit, ev, st') ->
  exists old, dep st a n = Some old /\ check_src n src = None /\
              src_compat old src = true /\ ev = [EvUpdated a n src] /\
              dep st' = upd2 (dep st) a n (Some src).
Proof.
  simpl. unfold s_update, deployable. destruct (dep st a n) as [old|]; [|discriminate].
  destruct (check_src n src); [discriminate|].
  destruct (src_compat old src) eqn:E; [|discriminate].
  intro H. inv H. exists old. auto.
Qed.

(* tryUpdate: succeeds exactly when update would, with the same effect; a failed tryUpdate
   reports false, emits nothing and changes nothing *)
Theorem try_update_failure st a n src ev st' :
  s_step st (OTryUpdate a n src) = (RBool false, ev, st') -> ev = [] /\ st' = st.
Proof.
  simpl. destruct (s_update st a n src) as [[r e] s'].
  destruct (is_fail r); intro H; inv H. auto.
Qed.
Theorem try_update_success st a n src ev st' :
  s_step st (OTryUpdate a n src) = (RBool true, ev, st') <->
  s_step st (OUpdate a n src) = (RUnit, ev, st').
Proof.
  simpl. unfold s_update. destruct (dep st a n) as [old|]; simpl; [|split; discriminate].
  destruct (deployable n src (Some old)); simpl; split; intro H; inv H; auto.
Qed.
Theorem try_update_never_fails st a n src : is_fail (fst (fst (s_step st (OTryUpdate a n src)))) = false.
Proof. simpl. destruct (s_update st a n src) as [[r e] s']. now destruct (is_fail r). Qed.

Theorem remove_enum_refused st a n old :
  dep st a n = Some old -> src_has_enum old = true ->
  s_step st (ORemove a n) = (RFail FRemoval, [], st).
Proof. intros H1 H2. simpl. now rewrite H1, H2. Qed.

Theorem remove_semantics st a n :
  match dep st a n with
  | None => s_step st (ORemove a n) = (RNone, [], st)
  | Some old =>
      src_has_enum old = false ->
      exists st', s_step st (ORemove a n) = (RCode old, [EvRemoved a n old], st') /\
                  dep st' = upd2 (dep st) a n None
  end.
Proof.
  simpl. destruct (dep st a n) as [old|]; auto. intro H. rewrite H. eexists. split; reflexivity.
Qed.

(* the removal test is independent of the order of the nested declarations: it holds exactly
   when some nested declaration is an enum *)
Definition declares_enum (s : source) : Prop := exists d, In d (s_decls s) /\ d_kind d = KEnum.
Theorem has_enum_iff s : src_has_enum s = true <-> declares_enum s.
Proof.
  unfold src_has_enum, declares_enum. induction (s_decls s) as [|d r IH]; simpl.
  - split; [discriminate|]. intros (d & [] & _).
  - unfold decl_contains_enums. destruct (d_kind d) eqn:E; simpl; rewrite ?IH;
      try (split; [intros (x & Hx & Hk); exists x; auto
                  |intros (x & [<-|Hx] & Hk); [congruence|exists x; auto]]).
    split; auto. intros _. exists d. auto.
Qed.

(* reads *)
Theorem get_reads_deployed st a n :
  s_step st (OGet a n) = (match dep st a n with Some s => RCode s | None => RNone end, [], st).
Proof. reflexivity. Qed.
Theorem names_reads_deployed st a :
  s_step st (ONames a) = (RNames (names_of (dep st a) all_names), [], st).
Proof. reflexivity. Qed.
Lemma names_of_spec f l n : In n (names_of f l) <-> In n l /\ f n <> None.
Proof.
  induction l as [|m r IH]; simpl; [tauto|].
  destruct (f m) eqn:E; simpl; rewrite IH.
  - split.
    + intros [<-|[H1 H2]]; [split; [auto|congruence]|tauto].
    + intros [[<-|H1] H2]; auto.
  - split; [tauto|]. intros [[<-|H1] H2]; [congruence|tauto].
Qed.

(* only add / update / remove change what is deployed *)
Theorem dep_frame st o :
  let st' := snd (s_step st o) in
  match o with
  | OAdd _ _ _ | OUpdate _ _ _ | OTryUpdate _ _ _ | ORemove _ _ => True
  | _ => dep st' = dep st
  end.
Proof. destruct o; simpl; auto. Qed.

(* transactions: a successful transaction's changes become the deployed state every later
   transaction starts from; a failed transaction's changes are invisible *)
Theorem tx_commit st ops rs evs st' :
  s_run_ops st ops = (rs, evs, st', true) ->
  s_run_tx st ops = ((rs, evs), mkS (dep st') [] []).
Proof. intro H. unfold s_run_tx. now rewrite H. Qed.
Theorem tx_abort st ops rs evs st' :
  s_run_ops st ops = (rs, evs, st', false) ->
  s_run_tx st ops = ((rs, evs), mkS (dep st) [] []).
Proof. intro H. unfold s_run_tx. now rewrite H. Qed.

Lemma s_run_ops_ok_iff st ops :
  snd (s_run_ops st ops) = true <-> forallb (fun r => negb (is_fail r)) (fst (fst (fst (s_run_ops st ops)))) = true.
Proof.
  revert st. induction ops as [|o r IH]; intro st; simpl; [tauto|].
  destruct (s_step st o) as [[res ev] st']. destruct (is_fail res) eqn:E; simpl.
  - rewrite E. simpl. split; discriminate.
  - specialize (IH st'). destruct (s_run_ops st' r) as [[[rs evs] st''] ok]. simpl in *.
    rewrite E. simpl. exact IH.
Qed.

(* a transaction that only reads changes nothing *)
Definition read_only (o : op) : bool :=
  match o with OGet _ _ | OBorrow _ _ | ONames _ => true | _ => false end.
Lemma read_step st o :
  read_only o = true -> snd (s_step st o) = st /\ is_fail (fst (fst (s_step st o))) = false.
Proof. destruct o; try discriminate; intros _; simpl; auto. destruct (dep st a n); auto. Qed.

Lemma reads_run_ops ops st :
  forallb read_only ops = true ->
  snd (fst (s_run_ops st ops)) = st /\ snd (s_run_ops st ops) = true.
Proof.
  induction ops as [|o r IH]; intros H; simpl; auto.
  simpl in H. apply Bool.andb_true_iff in H. destruct H as [H1 H2].
  destruct (read_step st o H1) as [E1 E2].
  destruct (s_step st o) as [[res ev] st']. simpl in *. subst st'. rewrite E2.
  specialize (IH H2). destruct (s_run_ops st r) as [[[rs evs] st''] ok]. simpl in *. exact IH.
Qed.

Theorem reads_change_nothing st ops :
  forallb read_only ops = true -> boundary_s st ->
  snd (s_run_tx st ops) = st /\ snd (fst (s_run_ops st ops)) = st.
Proof.
  intros H [Ha Ht]. destruct (reads_run_ops ops st H) as [E1 E2]. split; auto.
  unfold s_run_tx. destruct (s_run_ops st ops) as [[[rs evs] st'] ok]. simpl in *. subst.
  destruct st. simpl in *. now subst.
Qed.

(* ------------------------------------------------------------------ the defects of the unchanged tree *)
Definition refinement_statement : Prop := forall e h, run_code e h = run_spec h.

Definition vsrc (n sh v : Z) : source := mkSrc SValid n sh [] v.

(* interpreter: borrow of a contract added in the same transaction *)
Definition crash_history : list (list op) := [[OAdd 1 0 (vsrc 0 0 1); OBorrow 1 0; OGet 1 0]].
(* both engines: add then remove in the same transaction *)
Definition leak_history : list (list op) := [[OAdd 1 0 (vsrc 0 0 1); ORemove 1 0; ONames 1]; [ONames 1]].

Theorem refinement_refuted_interp : run_code Interp crash_history <> run_spec crash_history.
Proof. vm_compute. discriminate. Qed.
Theorem refinement_refuted_leak : forall e, run_code e leak_history <> run_spec leak_history.
Proof. intros []; vm_compute; discriminate. Qed.
Theorem refinement_refuted : ~ refinement_statement.
Proof. intro H. exact (refinement_refuted_leak VM (H VM leak_history)). Qed.

(* the guard is exactly what excludes them *)
Example guard_crash : ok_hist Interp s0 crash_history = false /\ ok_hist VM s0 crash_history = true.
Proof. vm_compute. auto. Qed.
Example guard_leak : ok_hist VM s0 leak_history = false.
Proof. vm_compute. auto. Qed.
