(* C26  Contract deployment, update and removal follow the lifecycle model.

   Executable model of stdlib/account.go: changeAccountContracts (add / update),
   nativeAccountContractsTryUpdateFunction, updateAccountContractCode / instantiateContract,
   removeContract, AccountContractsGet / AccountContractsBorrow / contracts.names,
   and of runtime/storage.go: recordContractUpdate / contractUpdateRecorded /
   commitContractUpdates (deferred writes of contract values, applied at commit),
   runtime/contract.go: loadContractValue.

   Two machines over the same histories:
     - the code-shaped machine [c_*]: host code map (updated immediately through the
       UpdateAccountContractCode / RemoveAccountContractCode callbacks, discarded by the host when
       the transaction fails), contract values in account storage (StorageDomainContract),
       the per-transaction ordered map of pending contract-value writes;
     - the specification [s_*]: one map name -> deployed source per account, plus, inside a
       transaction, the names added and the names touched (added or removed) so far.
   Definitions only; proofs are in C26/Proofs.v. *)
From CV Require Export Base.Prelude.

Definition upd2 {V : Type} (f : Z -> Z -> V) (a k : Z) (v : V) : Z -> Z -> V :=
  fun a' k' => if (a' =? a) && (k' =? k) then v else f a' k'.

(* ------------------------------------------------------------------ sources *)
Inductive sclass : Type :=
| SValid          (* one contract, checks *)
| SInitPanics     (* one contract, checks, its initializer panics *)
| STypeError      (* parses, does not check *)
| SParseError     (* does not parse *)
| SNoContract     (* checks, declares no contract *)
| STwoContracts.  (* checks, declares two contracts *)

(* nested type declarations of the contract, in source order (Cadence allows nested type
   declarations only directly inside the contract, so the declaration tree has depth one) *)
Inductive dkind : Type := KStruct | KResource | KEvent | KEnum | KSIface | KRIface.
(* kind, name, number of enum cases (enums only: case x [, case y]) *)
Record ndecl : Type := mkD { d_kind : dkind; d_name : Z; d_cases : Z }.

(* a contract source: class, index of the declared contract name, variant of its fields
   (0 {a: Int}; 1 {a: Int, b: Int}; 2 {a: String}; 3 {}), nested declarations, version marker *)
Record source : Type := mkSrc {
  s_class : sclass; s_decl : Z; s_fields : Z; s_decls : list ndecl; s_ver : Z }.

Definition sclass_eqb (x y : sclass) : bool :=
  match x, y with
  | SValid, SValid | SInitPanics, SInitPanics | STypeError, STypeError
  | SParseError, SParseError | SNoContract, SNoContract | STwoContracts, STwoContracts => true
  | _, _ => false
  end.
Definition dkind_eqb (x y : dkind) : bool :=
  match x, y with
  | KStruct, KStruct | KResource, KResource | KEvent, KEvent | KEnum, KEnum
  | KSIface, KSIface | KRIface, KRIface => true
  | _, _ => false
  end.
Definition ndecl_eqb (x y : ndecl) : bool :=
  dkind_eqb (d_kind x) (d_kind y) && (d_name x =? d_name y) && (d_cases x =? d_cases y).
Fixpoint decls_eqb (l1 l2 : list ndecl) : bool :=
  match l1, l2 with
  | [], [] => true
  | x :: r, y :: t => ndecl_eqb x y && decls_eqb r t
  | _, _ => false
  end.
Definition source_eqb (x y : source) : bool :=
  sclass_eqb (s_class x) (s_class y) && (s_decl x =? s_decl y) && (s_fields x =? s_fields y) &&
  decls_eqb (s_decls x) (s_decls y) && (s_ver x =? s_ver y).

(* ast Members.Composites(): structs, resources, events and enums; not interfaces *)
Definition is_composite (k : dkind) : bool :=
  match k with KSIface | KRIface => false | _ => true end.

(* stdlib/contract_update_validation.go: containsEnums on a nested declaration (no further
   nesting): it is an enum *)
Definition decl_contains_enums (d : ndecl) : bool :=
  match d_kind d with KEnum => true | _ => false end.
(* ... and on the contract declaration (not itself an enum): the loop over its nested composite
   declarations in source order, returning at the first one that contains an enum *)
Fixpoint contains_enums_loop (l : list ndecl) : bool :=
  match l with
  | [] => false
  | d :: r =>
      if is_composite (d_kind d)
      then if decl_contains_enums d then true else contains_enums_loop r
      else contains_enums_loop r
  end.
(* removeContract: containsEnumsInProgram *)
Definition src_has_enum (s : source) : bool := contains_enums_loop (s_decls s).

(* ContractUpdateValidator, fields of the contract: removal allowed, addition and retyping not
   (tied to the real validator by a table check on every run) *)
Definition fields_compat (old new : Z) : bool :=
  if old =? new then true
  else if old =? 0 then new =? 3
  else if old =? 1 then (new =? 0) || (new =? 3)
  else if old =? 2 then new =? 3
  else false.

Fixpoint find_decl (n : Z) (l : list ndecl) : option ndecl :=
  match l with
  | [] => None
  | d :: r => if d_name d =? n then Some d else find_decl n r
  end.
(* checkNestedDeclarations: every old nested declaration must still exist under its name with
   the same kind (new ones may be added, order is irrelevant); checkEnumCases: no case removed *)
Definition decls_compat (olds news : list ndecl) : bool :=
  forallb (fun o => match find_decl (d_name o) news with
                    | Some n => dkind_eqb (d_kind o) (d_kind n) && (d_cases o <=? d_cases n)
                    | None => false
                    end) olds.
Definition src_compat (old new : source) : bool :=
  fields_compat (s_fields old) (s_fields new) && decls_compat (s_decls old) (s_decls new).

(* ------------------------------------------------------------------ observables *)
Inductive fail : Type :=
| FUser       (* errors.DefaultUserError: exists / missing / not exactly one contract / name mismatch *)
| FDeploy     (* InvalidContractDeploymentError: parse error, type error, update validation *)
| FRemoval    (* ContractRemovalError *)
| FPanic      (* stdlib.PanicError: explicit panic, or the contract initializer panicked *)
| FInternal   (* internal error (storage health check at commit) *)
| FCrash.     (* Go runtime panic *)

Inductive result : Type :=
| RUnit
| RNone
| RBool (b : bool)
| RNames (l : list Z)          (* sorted *)
| RCode (s : source)
| RFail (f : fail).

Inductive event : Type :=
| EvAdded (a n : Z) (s : source)
| EvUpdated (a n : Z) (s : source)
| EvRemoved (a n : Z) (s : source).

Inductive op : Type :=
| OAdd (a n : Z) (s : source)
| OUpdate (a n : Z) (s : source)
| OTryUpdate (a n : Z) (s : source)
| ORemove (a n : Z)
| OGet (a n : Z)
| OBorrow (a n : Z)
| ONames (a : Z)
| OPanic.

(* the universe of contract names the listing ranges over *)
Definition all_names : list Z := [0; 1; 2].

(* verdict of checking new code for deployment under name n (changeAccountContracts, before
   update validation) *)
Definition check_src (n : Z) (s : source) : option fail :=
  match s_class s with
  | SParseError | STypeError => Some FDeploy      (* ParseAndCheckProgram fails *)
  | SNoContract | STwoContracts => Some FUser     (* not exactly one contract *)
  | SValid | SInitPanics => if s_decl s =? n then None else Some FUser   (* name mismatch *)
  end.

Definition is_fail (r : result) : bool := match r with RFail _ => true | _ => false end.

(* ------------------------------------------------------------------ code-shaped machine *)
(* engine: the tree-walking interpreter dereferences a nil contract value in
   AccountContractsBorrow (typed-nil comparison), the VM returns nil *)
Inductive engine : Type := Interp | VM.

Definition kv : Type := ((Z * Z) * option Z)%type.   (* (account, name) -> pending contract value (its shape) / removal *)

Record cstate : Type := mkC {
  codes : Z -> Z -> option source;   (* host: account, name -> code *)
  vals : Z -> Z -> option Z;         (* committed contract values (field variant they were created with) *)
  pending : list kv;                 (* Storage.contractUpdates, in insertion order *)
  leaked : bool                      (* a pending contract value was overwritten by a removal *)
}.
Definition c0 : cstate := mkC (fun _ _ => None) (fun _ _ => None) [] false.

Fixpoint p_find (l : list kv) (a n : Z) : option (option Z) :=
  match l with
  | [] => None
  | ((a', n'), v) :: r => if (a' =? a) && (n' =? n) then Some v else p_find r a n
  end.
(* orderedmap Set: replace in place, else append *)
Fixpoint p_set (l : list kv) (a n : Z) (v : option Z) : list kv :=
  match l with
  | [] => [((a, n), v)]
  | ((a', n'), v') :: r =>
      if (a' =? a) && (n' =? n) then ((a', n'), v) :: r else ((a', n'), v') :: p_set r a n v
  end.
Definition recorded (l : list kv) (a n : Z) : bool :=
  match p_find l a n with Some _ => true | None => false end.

(* changeAccountContracts *)
Definition c_change (st : cstate) (a n : Z) (s : source) (is_update : bool)
  : result * list event * cstate :=
  let existing := codes st a n in
  if (if is_update
      then match existing with None => true | Some _ => false end
      else match existing with Some _ => true | None => recorded (pending st) a n end)
  then (RFail FUser, [], st)
  else
    match check_src n s with
    | Some f => (RFail f, [], st)
    | None =>
        if (if is_update
            then match existing with Some old => negb (src_compat old s) | None => false end
            else false)
        then (RFail FDeploy, [], st)
        else if negb is_update && sclass_eqb (s_class s) SInitPanics
        then (RFail FPanic, [], st)          (* instantiateContract fails: code is not updated *)
        else
          (RUnit,
           [if is_update then EvUpdated a n s else EvAdded a n s],
           mkC (upd2 (codes st) a n (Some s)) (vals st)
               (if is_update then pending st else p_set (pending st) a n (Some (s_fields s)))
               (leaked st))
    end.

(* removeContract *)
Definition c_remove (st : cstate) (a n : Z) : result * list event * cstate :=
  match codes st a n with
  | None => (RNone, [], st)
  | Some old =>
      if src_has_enum old then (RFail FRemoval, [], st)
      else
        (RCode old, [EvRemoved a n old],
         mkC (upd2 (codes st) a n None) (vals st) (p_set (pending st) a n None)
             (leaked st || match p_find (pending st) a n with Some (Some _) => true | _ => false end))
  end.

Fixpoint names_of (f : Z -> option source) (l : list Z) : list Z :=
  match l with
  | [] => []
  | n :: r => match f n with Some _ => n :: names_of f r | None => names_of f r end
  end.

Definition c_step (e : engine) (st : cstate) (o : op) : result * list event * cstate :=
  match o with
  | OAdd a n s => c_change st a n s false
  | OUpdate a n s => c_change st a n s true
  | OTryUpdate a n s =>
      (* every failure of changeAccountContracts here is a user error: recovered, nil result *)
      let '(r, ev, st') := c_change st a n s true in
      if is_fail r then (RBool false, [], st) else (RBool true, ev, st')
  | ORemove a n => c_remove st a n
  | OGet a n => (match codes st a n with Some s => RCode s | None => RNone end, [], st)
  | OBorrow a n =>
      match codes st a n with
      | None => (RBool false, [], st)
      | Some _ =>
          match vals st a n with          (* loadContractValue: storage, not the pending writes *)
          | Some _ => (RBool true, [], st)
          | None => (match e with Interp => RFail FCrash | VM => RBool false end, [], st)
          end
      end
  | ONames a => (RNames (names_of (codes st a) all_names), [], st)
  | OPanic => (RFail FPanic, [], st)
  end.

Fixpoint c_run_ops (e : engine) (st : cstate) (ops : list op) : list result * list event * cstate * bool :=
  match ops with
  | [] => ([], [], st, true)
  | o :: r =>
      let '(res, ev, st') := c_step e st o in
      if is_fail res then ([res], ev, st', false)
      else let '(rs, evs, st'', ok) := c_run_ops e st' r in (res :: rs, ev ++ evs, st'', ok)
  end.

(* commitContractUpdates *)
Fixpoint apply_pending (v : Z -> Z -> option Z) (l : list kv) : Z -> Z -> option Z :=
  match l with
  | [] => v
  | ((a, n), x) :: r => apply_pending (upd2 v a n x) r
  end.

(* a transaction: on success the pending contract values are written (unless the storage health
   check finds the leaked value: internal error, the transaction fails); on failure the host
   discards the code updates *)
Definition c_run_tx (e : engine) (st : cstate) (ops : list op) : (list result * list event) * cstate :=
  let '(rs, evs, st', ok) := c_run_ops e st ops in
  if ok
  then if leaked st'
       then ((rs ++ [RFail FInternal], evs), mkC (codes st) (vals st) [] false)
       else ((rs, evs), mkC (codes st') (apply_pending (vals st') (pending st')) [] false)
  else ((rs, evs), mkC (codes st) (vals st) [] false).

Fixpoint c_run (e : engine) (st : cstate) (h : list (list op)) : list (list result * list event) * cstate :=
  match h with
  | [] => ([], st)
  | t :: r =>
      let '(o, st') := c_run_tx e st t in
      let '(os, st'') := c_run e st' r in (o :: os, st'')
  end.

Definition run_code (e : engine) (h : list (list op)) := fst (c_run e c0 h).

(* ------------------------------------------------------------------ specification *)
Record sstate : Type := mkS {
  dep : Z -> Z -> option source;     (* deployed contracts *)
  added : list (Z * Z);              (* added in the current transaction *)
  touched : list (Z * Z)             (* added or removed in the current transaction *)
}.
Definition s0 : sstate := mkS (fun _ _ => None) [] [].

Fixpoint kmem (a n : Z) (l : list (Z * Z)) : bool :=
  match l with
  | [] => false
  | (a', n') :: r => ((a' =? a) && (n' =? n)) || kmem a n r
  end.

(* is the source deployable under name n, over the currently deployed source (update) *)
Definition deployable (n : Z) (s : source) (old : option source) : option fail :=
  match check_src n s with
  | Some f => Some f
  | None =>
      match old with
      | Some o => if src_compat o s then None else Some FDeploy
      | None => None
      end
  end.

Definition s_add (st : sstate) (a n : Z) (s : source) : result * list event * sstate :=
  match dep st a n with
  | Some _ => (RFail FUser, [], st)                     (* add fails for an existing name *)
  | None =>
      if kmem a n (touched st) then (RFail FUser, [], st)   (* ... or one removed earlier in this transaction *)
      else match deployable n s None with
           | Some f => (RFail f, [], st)
           | None =>
               if sclass_eqb (s_class s) SInitPanics then (RFail FPanic, [], st)
               else (RUnit, [EvAdded a n s],
                     mkS (upd2 (dep st) a n (Some s)) ((a, n) :: added st) ((a, n) :: touched st))
           end
  end.

Definition s_update (st : sstate) (a n : Z) (s : source) : result * list event * sstate :=
  match dep st a n with
  | None => (RFail FUser, [], st)                       (* update fails for a missing name *)
  | Some old =>
      match deployable n s (Some old) with
      | Some f => (RFail f, [], st)
      | None => (RUnit, [EvUpdated a n s], mkS (upd2 (dep st) a n (Some s)) (added st) (touched st))
      end
  end.

Definition s_step (st : sstate) (o : op) : result * list event * sstate :=
  match o with
  | OAdd a n s => s_add st a n s
  | OUpdate a n s => s_update st a n s
  | OTryUpdate a n s =>
      let '(r, ev, st') := s_update st a n s in
      if is_fail r then (RBool false, [], st) else (RBool true, ev, st')
  | ORemove a n =>
      match dep st a n with
      | None => (RNone, [], st)
      | Some old =>
          if src_has_enum old then (RFail FRemoval, [], st)
          else (RCode old, [EvRemoved a n old],
                mkS (upd2 (dep st) a n None) (added st) ((a, n) :: touched st))
      end
  | OGet a n => (match dep st a n with Some s => RCode s | None => RNone end, [], st)
  | OBorrow a n =>
      (* the contract instance is borrowable once the adding transaction has committed *)
      (RBool (match dep st a n with Some _ => negb (kmem a n (added st)) | None => false end), [], st)
  | ONames a => (RNames (names_of (dep st a) all_names), [], st)
  | OPanic => (RFail FPanic, [], st)
  end.

Fixpoint s_run_ops (st : sstate) (ops : list op) : list result * list event * sstate * bool :=
  match ops with
  | [] => ([], [], st, true)
  | o :: r =>
      let '(res, ev, st') := s_step st o in
      if is_fail res then ([res], ev, st', false)
      else let '(rs, evs, st'', ok) := s_run_ops st' r in (res :: rs, ev ++ evs, st'', ok)
  end.

Definition s_run_tx (st : sstate) (ops : list op) : (list result * list event) * sstate :=
  let '(rs, evs, st', ok) := s_run_ops st ops in
  if ok then ((rs, evs), mkS (dep st') [] []) else ((rs, evs), mkS (dep st) [] []).

Fixpoint s_run (st : sstate) (h : list (list op)) : list (list result * list event) * sstate :=
  match h with
  | [] => ([], st)
  | t :: r =>
      let '(o, st') := s_run_tx st t in
      let '(os, st'') := s_run st' r in (o :: os, st'')
  end.

Definition run_spec (h : list (list op)) := fst (s_run s0 h).

(* the deployed contracts of an account as the host sees them after a history *)
Definition final_codes (e : engine) (h : list (list op)) (accts : list Z) : list (Z * list (Z * source)) :=
  let st := snd (c_run e c0 h) in
  map (fun a => (a, flat_map (fun n => match codes st a n with Some s => [(n, s)] | None => [] end) all_names)) accts.
