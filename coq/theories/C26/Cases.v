(* Check functions used by the per-run case files of C26. *)
From CV Require Export C26.Model.

Fixpoint list_eqb {A : Type} (e : A -> A -> bool) (l1 l2 : list A) : bool :=
  match l1, l2 with
  | [], [] => true
  | x :: r, y :: t => e x y && list_eqb e r t
  | _, _ => false
  end.

Definition fail_eqb (x y : fail) : bool :=
  match x, y with
  | FUser, FUser | FDeploy, FDeploy | FRemoval, FRemoval | FPanic, FPanic
  | FInternal, FInternal | FCrash, FCrash => true
  | _, _ => false
  end.
Definition result_eqb (x y : result) : bool :=
  match x, y with
  | RUnit, RUnit | RNone, RNone => true
  | RBool a, RBool b => Bool.eqb a b
  | RNames a, RNames b => list_eqb Z.eqb a b
  | RCode a, RCode b => source_eqb a b
  | RFail a, RFail b => fail_eqb a b
  | _, _ => false
  end.
Definition event_eqb (x y : event) : bool :=
  match x, y with
  | EvAdded a n s, EvAdded a' n' s' => (a =? a') && (n =? n') && source_eqb s s'
  | EvUpdated a n s, EvUpdated a' n' s' => (a =? a') && (n =? n') && source_eqb s s'
  | EvRemoved a n s, EvRemoved a' n' s' => (a =? a') && (n =? n') && source_eqb s s'
  | _, _ => false
  end.
Definition txout_eqb (x y : list result * list event) : bool :=
  list_eqb result_eqb (fst x) (fst y) && list_eqb event_eqb (snd x) (snd y).

Definition codes_eqb (x y : list (Z * list (Z * source))) : bool :=
  list_eqb (fun p q => (fst p =? fst q) &&
                       list_eqb (fun u v => (fst u =? fst v) && source_eqb (snd u) (snd v)) (snd p) (snd q)) x y.

(* (engine is VM?, history, observed per-transaction results and events, observed host code map
   after the history for accounts 1 and 2) *)
Definition check_history
  (c : bool * list (list op) * list (list result * list event) * list (Z * list (Z * source))) : bool :=
  let '(vm, h, obs, cds) := c in
  let e := if vm then VM else Interp in
  list_eqb txout_eqb (run_code e h) obs && codes_eqb (final_codes e h [1; 2]) cds.

(* update-validation verdicts: (old source, new source, accepted by the real validator) *)
Definition check_compat (c : source * source * bool) : bool :=
  let '(o, n, obs) := c in Bool.eqb obs (src_compat o n).

(* removal verdicts: (deployed source, removal refused by the real removeContract) *)
Definition check_remove (c : source * bool) : bool :=
  let '(s, refused) := c in Bool.eqb refused (src_has_enum s).
