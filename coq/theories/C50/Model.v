(* C50  Access modifiers and constant fields: executable model of the checker's access checks,
   transcribed from
     /repo/sema/check_member_expression.go  (isReadableMember, isWriteableMember, containingContractKindedType)
     /repo/sema/check_assignment.go         (visitMemberExpressionAssignment: access, constant and
                                             initializer rules)
     /repo/sema/check_composite_declaration.go, check_transaction_declaration.go
                                            (checker.containerTypes set on entry / reset on exit of a declaration)
     /repo/sema/check_conditional.go        (checkConditionalBranches: merging of initialized fields)
     /repo/sema/accesscheckmode.go          (AccessCheckModeStrict, the mode used by the runtime)
     /repo/common/location.go               (LocationsInSameAccount)
   Entitlement accesses reuse the C06 model (PermitsAccess).  Definitions only. *)
From CV Require Export C06.Model.

(* ---------------------------------------------------------------- locations and types *)
(* common.Location: an address location (account, contract name) or any other (script, transaction, ...) *)
Inductive loc := LAddr (addr name : Z) | LOther (n : Z).
Definition loc_eqb (a b : loc) : bool :=
  match a, b with
  | LAddr x y, LAddr x' y' => (x =? x') && (y =? y')
  | LOther n, LOther m => n =? m
  | _, _ => false
  end.

(* common.LocationsInSameAccount(first, second), for non-nil locations *)
Definition same_account (first second : loc) : bool :=
  match first with
  | LAddr a _ => match second with LAddr a' _ => a =? a' | LOther _ => false end
  | LOther _ => loc_eqb first second
  end.

(* A composite type is identified by its location and the chain of declaration names from the top-level
   declaration inward; each element records whether that declaration is contract-kinded. *)
Definition tpath := list (Z * bool).
Definition names (p : tpath) : list Z := map fst p.
Record tyid := { t_loc : loc; t_path : tpath }.

(* containingContractKindedType: the innermost contract-kinded type among the type itself and its containers *)
Fixpoint contract_prefix (p : tpath) : option tpath :=
  match p with
  | [] => None
  | x :: r =>
      match contract_prefix r with
      | Some q => Some (x :: q)
      | None => if snd x then Some [x] else None
      end
  end.

(* ---------------------------------------------------------------- checker.containerTypes *)
Fixpoint list_eqb (a b : list Z) : bool :=
  match a, b with
  | [], [] => true
  | x :: a', y :: b' => (x =? y) && list_eqb a' b'
  | _, _ => false
  end.
(* the map of the checker of one program: keyed by the types declared in that program *)
Definition ctmap := list Z -> bool.
Definition ct_empty : ctmap := fun _ => false.
Definition ct_set (ct : ctmap) (k : list Z) (v : bool) : ctmap :=
  fun k' => if list_eqb k k' then v else ct k'.
(* checker.containerTypes[t] for an arbitrary (possibly imported) type: imported types are never keys *)
Definition ct_get (ct : ctmap) (prog : loc) (t : tyid) : bool :=
  loc_eqb (t_loc t) prog && ct (names (t_path t)).

(* ---------------------------------------------------------------- members and access sites *)
Inductive vkind := VLet | VVar | VFun.
Record member := { m_container : tyid; m_access : access; m_kind : vkind }.

(* static type of the accessed expression, as far as isReadableMember looks at it *)
Inductive via := ViaOwned | ViaRef (a : access) | ViaOpt (v : via).

Inductive op := OpRead | OpCall | OpAssign.
(* one access expression outside an initializer; q_id identifies it (its line in the program) *)
Record query := { q_id : Z; q_member : member; q_via : via; q_op : op }.

(* errors reported for one access: InvalidAccessError, InvalidAssignmentAccessError,
   AssignmentToConstantMemberError *)
Record errs := { e_access : bool; e_assign : bool; e_const : bool }.

(* AccessCheckModeStrict *)
Definition mode_readable (a : access) : bool := permits a Unauthorized.
Definition mode_writeable (a : access) : bool := false.

Fixpoint ent_readable (req : access) (v : via) : bool :=
  match v with
  | ViaOpt v' => ent_readable req v'
  | ViaRef a => permits req a
  | ViaOwned => true
  end.

Definition is_readable (ct : ctmap) (prog : loc) (v : via) (m : member) : bool :=
  if mode_readable (m_access m) then true
  else
    match m_access m with
    | APrim p =>
        if ct_get ct prog (m_container m) then true
        else
          match p with
          | PContract =>
              match contract_prefix (t_path (m_container m)) with
              | Some cp => ct_get ct prog {| t_loc := t_loc (m_container m); t_path := cp |}
              | None => false
              end
          | PAccount => same_account prog (t_loc (m_container m))   (* no MemberAccountAccessHandler in the runtime *)
          | _ => false
          end
    | ASet _ _ => ent_readable (m_access m) v
    | AMap _ => true
    end.

Definition is_writeable (ct : ctmap) (prog : loc) (m : member) : bool :=
  mode_writeable (m_access m) || ct_get ct prog (m_container m).

(* visitMember + visitMemberExpressionAssignment outside an initializer *)
Definition eval_query (ct : ctmap) (prog : loc) (q : query) : Z * errs :=
  let m := q_member q in
  let r := is_readable ct prog (q_via q) m in
  (q_id q,
   match q_op q with
   | OpRead | OpCall => {| e_access := negb r; e_assign := false; e_const := false |}
   | OpAssign =>
       {| e_access := negb r;
          e_assign := negb (is_writeable ct prog m);
          e_const := match m_kind m with VVar => false | _ => true end |}
   end).

(* ---------------------------------------------------------------- programs and the checker's traversal *)
(* a function body / transaction block: the accesses it contains *)
Definition site := list query.
(* a composite declaration: name, contract-kinded?, the bodies of its functions, nested declarations *)
Inductive decl := Decl (name : Z) (is_contract : bool) (sites : list site) (nested : decls)
with decls := DNil | DCons (d : decl) (r : decls).
Record program := { p_loc : loc; p_decls : decls; p_sites : list site }.

Definition eval_sites (ct : ctmap) (prog : loc) (ss : list site) : list (Z * errs) :=
  flat_map (map (eval_query ct prog)) ss.

(* visitCompositeLikeDeclaration: containerTypes[T] = true; ... check members and nested declarations ...;
   deferred containerTypes[T] = false.  The map is threaded through, as in the checker. *)
Fixpoint visit_decl (prog : loc) (ct : ctmap) (path : list Z) (d : decl) {struct d} : ctmap * list (Z * errs) :=
  match d with
  | Decl n _ sites nested =>
      let p := path ++ [n] in
      let ct1 := ct_set ct p true in
      let here := eval_sites ct1 prog sites in
      let '(ct2, inner) := visit_decls prog ct1 p nested in
      (ct_set ct2 p false, here ++ inner)
  end
with visit_decls (prog : loc) (ct : ctmap) (path : list Z) (ds : decls) {struct ds} : ctmap * list (Z * errs) :=
  match ds with
  | DNil => (ct, [])
  | DCons d r =>
      let '(cta, ra) := visit_decl prog ct path d in
      let '(ctb, rb) := visit_decls prog cta path r in
      (ctb, ra ++ rb)
  end.

Definition check_program (p : program) : list (Z * errs) :=
  let '(ct, r) := visit_decls (p_loc p) ct_empty [] (p_decls p) in
  r ++ eval_sites ct (p_loc p) (p_sites p).

(* compact constructors (used by examples and by the generated case files) *)
Definition T (l : loc) (p : tpath) : tyid := {| t_loc := l; t_path := p |}.
Definition Q (id : Z) (c : tyid) (a : access) (k : vkind) (v : via) (o : op) : query :=
  {| q_id := id; q_member := {| m_container := c; m_access := a; m_kind := k |}; q_via := v; q_op := o |}.
Definition P (l : loc) (ds : decls) (ss : list site) : program := {| p_loc := l; p_decls := ds; p_sites := ss |}.

(* ---------------------------------------------------------------- initializers *)
(* Body of an initializer, restricted to assignments to fields of self and if/else.
   Fields are numbered; [is_let f] tells constants from variables (no resource fields). *)
Inductive stmt := SAssign (f : Z) | SIf (t e : stmts)
with stmts := SNil | SCons (s : stmt) (r : stmts).

Definition zmem (x : Z) (s : list Z) : bool := existsb (Z.eqb x) s.
Definition zinter (a b : list Z) : list Z := filter (fun x => zmem x b) a.
Definition zadd (s : list Z) (x : Z) : list Z := if zmem x s then s else s ++ [x].

(* The state is InitializationInfo.InitializedFieldMembers (an ordered set); the result also collects the
   positions (pre-order statement numbering) of FieldReinitializationError reports.  MaybeReturned stays
   false: there are no return statements in the fragment. *)
Definition cstate : Type := list Z * Z * list Z.
Fixpoint check_stmt (is_let : Z -> bool) (s : stmt) (st : cstate) {struct s} : cstate :=
  let '(init, pos, errors) := st in
  match s with
  | SAssign f =>
      if is_let f && zmem f init then (init, pos + 1, errors ++ [pos])
      else (zadd init f, pos + 1, errors)
  | SIf t e =>
      let '(init_t, pos_t, err_t) := check_stmts is_let t (init, pos + 1, errors) in
      let '(init_e, pos_e, err_e) := check_stmts is_let e (init, pos_t, err_t) in
      (* AddIntersection(then, else) into the set before the branches *)
      (fold_left zadd (zinter init_t init_e) init, pos_e, err_e)
  end
with check_stmts (is_let : Z -> bool) (l : stmts) (st : cstate) {struct l} : cstate :=
  match l with
  | SNil => st
  | SCons s r => check_stmts is_let r (check_stmt is_let s st)
  end.

(* result of checking an initializer of a composite with the given fields: positions of the
   reinitialization errors, and the fields reported as uninitialized (checkFieldMembersInitialized) *)
Definition check_init (fields : list Z) (is_let : Z -> bool) (body : stmts) : list Z * list Z :=
  let '(init, _, errors) := check_stmts is_let body ([], 0, []) in
  (errors, filter (fun f => negb (zmem f init)) fields).

(* concrete executions: a path fixes the outcome of every condition met, in order (an exhausted path
   continues with false); the result is the sequence of fields assigned *)
Fixpoint run_stmt (s : stmt) (path : list bool) {struct s} : list Z * list bool :=
  match s with
  | SAssign f => ([f], path)
  | SIf t e =>
      match path with
      | [] => run_stmts e []
      | b :: rest => if b then run_stmts t rest else run_stmts e rest
      end
  end
with run_stmts (l : stmts) (path : list bool) {struct l} : list Z * list bool :=
  match l with
  | SNil => ([], path)
  | SCons s r =>
      let '(a, p1) := run_stmt s path in
      let '(b, p2) := run_stmts r p1 in
      (a ++ b, p2)
  end.
Definition assignments (body : stmts) (path : list bool) : list Z := fst (run_stmts body path).
