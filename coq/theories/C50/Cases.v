(* C50  Check functions used by the per-run case files (programs + error sets observed on /repo). *)
From CV Require Export C50.Model.

Definition bool_eqb (a b : bool) : bool := if a then b else negb b.


Definition errs_eqb (e : errs) (o : bool * bool * bool) : bool :=
  let '(a, b, c) := o in
  bool_eqb (e_access e) a && bool_eqb (e_assign e) b && bool_eqb (e_const e) c.

Fixpoint lookup (id : Z) (l : list (Z * (bool * bool * bool))) : option (bool * bool * bool) :=
  match l with
  | [] => None
  | (i, o) :: r => if i =? id then Some o else lookup id r
  end.

(* (program, observed errors per access: (InvalidAccessError, InvalidAssignmentAccessError,
   AssignmentToConstantMemberError) reported at the access's line).  Returns the ids on which model and
   checker disagree. *)
Definition prog_mismatches (c : program * list (Z * (bool * bool * bool))) : list Z :=
  let '(p, obs) := c in
  flat_map (fun r => match lookup (fst r) obs with
                     | Some o => if errs_eqb (snd r) o then [] else [fst r]
                     | None => [fst r]
                     end) (check_program p).
Definition check_prog50 (c : program * list (Z * (bool * bool * bool))) : bool :=
  match prog_mismatches c with [] => Nat.eqb (length (check_program (fst c))) (length (snd c)) | _ => false end.

Fixpoint zlist_eqb (a b : list Z) : bool :=
  match a, b with
  | [], [] => true
  | x :: a', y :: b' => (x =? y) && zlist_eqb a' b'
  | _, _ => false
  end.
Definition zsubset (a b : list Z) : bool := forallb (fun x => zmem x b) a.

(* (fields, constant fields, initializer body, observed positions of FieldReinitializationError in
   statement pre-order, observed uninitialized fields) *)
Definition check_init_case (c : list Z * list Z * stmts * (list Z * list Z)) : bool :=
  let '(fields, lets, body, (obs_err, obs_uninit)) := c in
  let '(e, u) := check_init fields (fun f => zmem f lets) body in
  zlist_eqb e obs_err && zsubset u obs_uninit && zsubset obs_uninit u.
