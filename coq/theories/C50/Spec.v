(* C50  Declarative specification of the scope rules, over positions in the declaration tree. *)
From CV Require Export C50.Model.

(* ---------------------------------------------------------------- the declaration tree, flattened *)
(* every access of a program together with the chain of names of the declarations that lexically
   enclose it (empty for top-level functions of a script and for transaction blocks) *)
Fixpoint sites_decl (path : list Z) (d : decl) {struct d} : list (list Z * query) :=
  match d with
  | Decl n _ sites nested =>
      let p := path ++ [n] in
      map (fun q => (p, q)) (concat sites) ++ sites_decls p nested
  end
with sites_decls (path : list Z) (ds : decls) {struct ds} : list (list Z * query) :=
  match ds with
  | DNil => []
  | DCons d r => sites_decl path d ++ sites_decls path r
  end.

Definition sites_of (p : program) : list (list Z * query) :=
  sites_decls [] (p_decls p) ++ map (fun q => ([], q)) (concat (p_sites p)).

(* ---------------------------------------------------------------- lexical enclosure *)
Fixpoint is_prefix (a b : list Z) : bool :=
  match a, b with
  | [], _ => true
  | x :: a', y :: b' => (x =? y) && is_prefix a' b'
  | _ :: _, [] => false
  end.

(* the access site (in program [prog], enclosed by the declarations [site]) lies inside the declaration of
   type t: same program, and t's declaration chain is a non-empty prefix of the site's *)
Definition inside (prog : loc) (site : list Z) (t : tyid) : bool :=
  loc_eqb (t_loc t) prog
  && match names (t_path t) with [] => false | _ => true end
  && is_prefix (names (t_path t)) site.

(* ---------------------------------------------------------------- the rules *)
(* access(all)              : everywhere
   access(self)             : inside the declaring composite
   access(contract)         : inside the innermost contract enclosing the declaring composite
                              (inside the declaring composite itself when there is no contract)
   access(account)          : code located in the same account
   entitlement set          : owned values always; references iff the authorization satisfies it
   entitlement mapping      : everywhere (the authorization of the result differs)
   internal accesses        : unspecified/none behave like access(self), the deprecated pub(set) like access(all) *)
Definition spec_readable (prog : loc) (site : list Z) (v : via) (m : member) : bool :=
  let c := m_container m in
  match m_access m with
  | APrim PAll | APrim PPubSettableLegacy => true
  | APrim PSelf | APrim PNotSpecified | APrim PNone => inside prog site c
  | APrim PContract =>
      match contract_prefix (t_path c) with
      | Some cp => inside prog site {| t_loc := t_loc c; t_path := cp |}
      | None => inside prog site c
      end
  | APrim PAccount => same_account prog (t_loc c)
  | ASet _ _ => ent_readable (m_access m) v
  | AMap _ => true
  end.

(* assignment: only inside the declaring composite *)
Definition spec_writeable (prog : loc) (site : list Z) (m : member) : bool :=
  inside prog site (m_container m).

Definition spec_errs (prog : loc) (site : list Z) (q : query) : errs :=
  let m := q_member q in
  match q_op q with
  | OpRead | OpCall =>
      {| e_access := negb (spec_readable prog site (q_via q) m); e_assign := false; e_const := false |}
  | OpAssign =>
      {| e_access := negb (spec_readable prog site (q_via q) m);
         e_assign := negb (spec_writeable prog site m);
         e_const := match m_kind m with VVar => false | _ => true end |}
  end.

(* ---------------------------------------------------------------- initializers *)
Fixpoint count (f : Z) (l : list Z) : nat :=
  match l with [] => O | x :: r => ((if Z.eqb x f then 1 else 0) + count f r)%nat end.

(* fields possibly assigned by a statement *)
Fixpoint may_stmt (s : stmt) : list Z :=
  match s with
  | SAssign f => [f]
  | SIf t e => may_stmts t ++ may_stmts e
  end
with may_stmts (l : stmts) : list Z :=
  match l with SNil => [] | SCons s r => may_stmt s ++ may_stmts r end.

Definition same_set (a b : list Z) : Prop := forall x, In x a <-> In x b.

(* every if/else assigns the same fields in both branches *)
Fixpoint balanced_stmt (s : stmt) : Prop :=
  match s with
  | SAssign _ => True
  | SIf t e => balanced_stmts t /\ balanced_stmts e /\ same_set (may_stmts t) (may_stmts e)
  end
with balanced_stmts (l : stmts) : Prop :=
  match l with SNil => True | SCons s r => balanced_stmt s /\ balanced_stmts r end.
