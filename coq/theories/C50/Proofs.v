(* C50  Proofs: the checker's traversal computes exactly the declarative scope rules;
   initializer analysis vs concrete executions. *)
From CV Require Import C50.Model C50.Spec.

(* ---------------------------------------------------------------- basic facts *)
Lemma list_eqb_eq a : forall b, list_eqb a b = true <-> a = b.
Proof.
  induction a as [|x a IH]; intros [|y b]; simpl; split; intro H; try reflexivity; try discriminate.
  - apply andb_true_iff in H. destruct H as [H1 H2]. apply Z.eqb_eq in H1. apply IH in H2. congruence.
  - inversion H; subst. rewrite Z.eqb_refl. simpl. apply IH. reflexivity.
Qed.

Lemma list_eqb_refl a : list_eqb a a = true.
Proof. apply list_eqb_eq. reflexivity. Qed.

Lemma list_eqb_neq a b : a <> b -> list_eqb a b = false.
Proof. intro H. destruct (list_eqb a b) eqn:E; [|reflexivity]. apply list_eqb_eq in E. contradiction. Qed.

Lemma loc_eqb_eq a b : loc_eqb a b = true <-> a = b.
Proof.
  destruct a as [x y|n], b as [x' y'|m]; simpl; split; intro H; try discriminate.
  - apply andb_true_iff in H. destruct H as [H1 H2]. apply Z.eqb_eq in H1, H2. congruence.
  - inversion H; subst. rewrite !Z.eqb_refl. reflexivity.
  - apply Z.eqb_eq in H. congruence.
  - inversion H; subst. apply Z.eqb_refl.
Qed.

Lemma loc_eqb_same_account a b : loc_eqb a b = true -> same_account b a = true.
Proof.
  intro H. apply loc_eqb_eq in H. subst. destruct b as [x y|n]; simpl.
  - apply Z.eqb_refl.
  - apply Z.eqb_refl.
Qed.

Definition nonnil (k : list Z) : bool := match k with [] => false | _ => true end.

Lemma is_prefix_nil_r k : is_prefix k [] = true <-> k = [].
Proof. destruct k; simpl; split; intro H; try reflexivity; discriminate. Qed.

Lemma is_prefix_refl k : is_prefix k k = true.
Proof. induction k; simpl; [reflexivity|]. rewrite Z.eqb_refl. exact IHk. Qed.

Lemma is_prefix_trans a : forall b c, is_prefix a b = true -> is_prefix b c = true -> is_prefix a c = true.
Proof.
  induction a as [|x a IH]; intros b c H1 H2; [reflexivity|].
  destruct b as [|y b]; [discriminate|]. destruct c as [|z c]; [discriminate|].
  simpl in *. apply andb_true_iff in H1, H2. destruct H1 as [E1 P1], H2 as [E2 P2].
  apply Z.eqb_eq in E1, E2. subst. rewrite Z.eqb_refl. simpl. eapply IH; eauto.
Qed.

(* a prefix of P ++ [n] is P ++ [n] itself or a prefix of P *)
Lemma is_prefix_snoc k : forall P n,
  is_prefix k (P ++ [n]) = true <-> k = P ++ [n] \/ is_prefix k P = true.
Proof.
  induction k as [|x k IH]; intros P n.
  - simpl. split; auto.
  - destruct P as [|y P]; simpl.
    + rewrite andb_true_iff, is_prefix_nil_r, Z.eqb_eq. split.
      * intros [E1 E2]. subst. left. reflexivity.
      * intros [H|H]; [inversion H; auto | discriminate].
    + rewrite !andb_true_iff, IH, Z.eqb_eq. split.
      * intros [E [H|H]]; subst; [left; reflexivity | right; auto].
      * intros [H|[E H]]; [inversion H; subst; auto | auto].
Qed.

Lemma snoc_not_prefix P n : is_prefix (P ++ [n]) P = false.
Proof.
  induction P as [|y P IH]; simpl; [reflexivity|]. rewrite Z.eqb_refl. exact IH.
Qed.

(* ---------------------------------------------------------------- the containerTypes invariant *)
(* while the checker is inside the declarations named by P, exactly the non-empty prefixes of P are marked *)
Definition ct_inv (ct : ctmap) (P : list Z) : Prop :=
  forall k, ct k = nonnil k && is_prefix k P.

Lemma ct_inv_empty : ct_inv ct_empty [].
Proof. intro k. destruct k; reflexivity. Qed.

Lemma ct_inv_enter ct P n : ct_inv ct P -> ct_inv (ct_set ct (P ++ [n]) true) (P ++ [n]).
Proof.
  intros I k. unfold ct_set. destruct (list_eqb (P ++ [n]) k) eqn:E.
  - apply list_eqb_eq in E. subst k. rewrite is_prefix_refl. destruct P; reflexivity.
  - rewrite I. destruct (is_prefix k (P ++ [n])) eqn:F.
    + apply is_prefix_snoc in F. destruct F as [F|F].
      * subst k. rewrite list_eqb_refl in E. discriminate.
      * rewrite F. reflexivity.
    + destruct (is_prefix k P) eqn:G; [|reflexivity].
      assert (is_prefix k (P ++ [n]) = true) by (apply is_prefix_snoc; right; exact G). congruence.
Qed.

Lemma ct_inv_leave ct P n : ct_inv ct (P ++ [n]) -> ct_inv (ct_set ct (P ++ [n]) false) P.
Proof.
  intros I k. unfold ct_set. destruct (list_eqb (P ++ [n]) k) eqn:E.
  - apply list_eqb_eq in E. subst k. rewrite snoc_not_prefix. rewrite andb_false_r. reflexivity.
  - rewrite I. destruct (is_prefix k (P ++ [n])) eqn:F.
    + apply is_prefix_snoc in F. destruct F as [F|F].
      * subst k. rewrite list_eqb_refl in E. discriminate.
      * rewrite F. reflexivity.
    + destruct (is_prefix k P) eqn:G; [|reflexivity].
      assert (is_prefix k (P ++ [n]) = true) by (apply is_prefix_snoc; right; exact G). congruence.
Qed.

Lemma ct_get_inside ct P prog t : ct_inv ct P -> ct_get ct prog t = inside prog P t.
Proof.
  intro I. unfold ct_get, inside. rewrite I. unfold nonnil.
  destruct (loc_eqb (t_loc t) prog); simpl; [|reflexivity].
  destruct (names (t_path t)); reflexivity.
Qed.

(* ---------------------------------------------------------------- contract_prefix *)
Lemma contract_prefix_prefix p : forall cp,
  contract_prefix p = Some cp -> cp <> [] /\ is_prefix (names cp) (names p) = true.
Proof.
  induction p as [|x p IH]; intros cp H; simpl in H; [discriminate|].
  destruct (contract_prefix p) as [q|] eqn:E.
  - inversion H; subst. destruct (IH q eq_refl) as [_ P]. split; [discriminate|].
    simpl. rewrite Z.eqb_refl. exact P.
  - destruct (snd x); [|discriminate]. inversion H; subst. split; [discriminate|].
    simpl. rewrite Z.eqb_refl. reflexivity.
Qed.

Lemma inside_contract prog P c cp :
  contract_prefix (t_path c) = Some cp ->
  inside prog P c = true -> inside prog P {| t_loc := t_loc c; t_path := cp |} = true.
Proof.
  intros H I. apply contract_prefix_prefix in H. destruct H as [N Pf].
  unfold inside in *. simpl. apply andb_true_iff in I. destruct I as [I1 I3].
  apply andb_true_iff in I1. destruct I1 as [I1 I2].
  rewrite I1. simpl.
  assert (T : is_prefix (names cp) P = true) by (eapply is_prefix_trans; [exact Pf | exact I3]).
  rewrite T. destruct cp as [|x cp]; [exfalso; apply N; reflexivity|]. reflexivity.
Qed.

(* ---------------------------------------------------------------- algorithm = specification, one access *)
Lemma is_readable_spec ct P prog v m :
  ct_inv ct P -> is_readable ct prog v m = spec_readable prog P v m.
Proof.
  intro I. unfold is_readable, spec_readable, mode_readable.
  destruct (m_access m) as [p|k s|i] eqn:A.
  - rewrite !(ct_get_inside ct P prog) by exact I.
    destruct p; simpl; try reflexivity.
    + destruct (inside prog P (m_container m)); reflexivity.
    + destruct (inside prog P (m_container m)); reflexivity.
    + destruct (inside prog P (m_container m)); reflexivity.
    + (* contract *)
      destruct (inside prog P (m_container m)) eqn:E.
      * destruct (contract_prefix (t_path (m_container m))) as [cp|] eqn:C; [|reflexivity].
        symmetry. eapply inside_contract; eauto.
      * destruct (contract_prefix (t_path (m_container m))) as [cp|] eqn:C; [|reflexivity].
        apply ct_get_inside. exact I.
    + (* account *)
      destruct (inside prog P (m_container m)) eqn:E; [|reflexivity].
      unfold inside in E. apply andb_true_iff in E. destruct E as [E _].
      apply andb_true_iff in E. destruct E as [E _].
      symmetry. apply loc_eqb_same_account. exact E.
  - simpl. reflexivity.
  - simpl. reflexivity.
Qed.

Lemma eval_query_spec ct P prog q :
  ct_inv ct P -> eval_query ct prog q = (q_id q, spec_errs prog P q).
Proof.
  intro I. unfold eval_query, spec_errs, is_writeable, spec_writeable, mode_writeable.
  rewrite (is_readable_spec ct P prog) by exact I.
  rewrite (ct_get_inside ct P prog) by exact I.
  destruct (q_op q); reflexivity.
Qed.

Definition spec_result (prog : loc) (pq : list Z * query) : Z * errs :=
  (q_id (snd pq), spec_errs prog (fst pq) (snd pq)).

Lemma eval_sites_spec ct P prog ss :
  ct_inv ct P ->
  eval_sites ct prog ss = map (spec_result prog) (map (fun q => (P, q)) (concat ss)).
Proof.
  intro I. unfold eval_sites. induction ss as [|s ss IH]; simpl; [reflexivity|].
  rewrite IH, !map_app. f_equal.
  induction s as [|q s IHs]; simpl; [reflexivity|].
  rewrite IHs. f_equal. unfold spec_result. simpl. apply eval_query_spec. exact I.
Qed.

(* ---------------------------------------------------------------- the traversal *)
Scheme decl_mut := Induction for decl Sort Prop
  with decls_mut := Induction for decls Sort Prop.
Combined Scheme decl_decls_ind from decl_mut, decls_mut.

Lemma visit_spec :
  (forall d prog ct P, ct_inv ct P ->
     ct_inv (fst (visit_decl prog ct P d)) P /\
     snd (visit_decl prog ct P d) = map (spec_result prog) (sites_decl P d)) /\
  (forall ds prog ct P, ct_inv ct P ->
     ct_inv (fst (visit_decls prog ct P ds)) P /\
     snd (visit_decls prog ct P ds) = map (spec_result prog) (sites_decls P ds)).
Proof.
  apply decl_decls_ind.
  - intros n isc sites nested IH prog ct P I. simpl.
    pose proof (ct_inv_enter ct P n I) as I1.
    destruct (IH prog (ct_set ct (P ++ [n]) true) (P ++ [n]) I1) as [I2 R].
    destruct (visit_decls prog (ct_set ct (P ++ [n]) true) (P ++ [n]) nested) as [ct2 inner]. simpl in *.
    split.
    + apply ct_inv_leave. exact I2.
    + rewrite map_app, R. f_equal. apply eval_sites_spec. exact I1.
  - intros prog ct P I. simpl. split; [exact I | reflexivity].
  - intros d IHd r IHr prog ct P I. simpl.
    destruct (IHd prog ct P I) as [I1 R1].
    destruct (visit_decl prog ct P d) as [cta ra]. simpl in *.
    destruct (IHr prog cta P I1) as [I2 R2].
    destruct (visit_decls prog cta P r) as [ctb rb]. simpl in *.
    split; [exact I2|]. rewrite map_app. congruence.
Qed.

(* The result of checking a program is, access by access, the declarative verdict at the access's
   position in the declaration tree. *)
Theorem check_program_spec p :
  check_program p = map (spec_result (p_loc p)) (sites_of p).
Proof.
  unfold check_program, sites_of.
  destruct (proj2 visit_spec (p_decls p) (p_loc p) ct_empty [] ct_inv_empty) as [I R].
  destruct (visit_decls (p_loc p) ct_empty [] (p_decls p)) as [ct r]. simpl in *.
  rewrite map_app, R. f_equal. apply eval_sites_spec. exact I.
Qed.

(* the two named consequences *)
Theorem readable_iff_spec p id e :
  In (id, e) (check_program p) ->
  exists site q, In (site, q) (sites_of p) /\ q_id q = id /\
    e_access e = negb (spec_readable (p_loc p) site (q_via q) (q_member q)).
Proof.
  rewrite check_program_spec. intro H. apply in_map_iff in H. destruct H as [[site q] [E H]].
  exists site, q. unfold spec_result in E. simpl in E. inversion E; subst.
  split; [exact H|]. split; [reflexivity|]. unfold spec_errs. destruct (q_op q); reflexivity.
Qed.

Theorem writeable_iff_spec p id e :
  In (id, e) (check_program p) ->
  exists site q, In (site, q) (sites_of p) /\ q_id q = id /\
    match q_op q with
    | OpAssign =>
        e_assign e = negb (spec_writeable (p_loc p) site (q_member q)) /\
        e_const e = match m_kind (q_member q) with VVar => false | _ => true end
    | _ => e_assign e = false /\ e_const e = false
    end.
Proof.
  rewrite check_program_spec. intro H. apply in_map_iff in H. destruct H as [[site q] [E H]].
  exists site, q. unfold spec_result in E. simpl in E. inversion E; subst.
  split; [exact H|]. split; [reflexivity|]. unfold spec_errs. destruct (q_op q); split; reflexivity.
Qed.

(* ================================================================ initializers *)
Scheme stmt_mut := Induction for stmt Sort Prop
  with stmts_mut := Induction for stmts Sort Prop.
Combined Scheme stmt_stmts_ind from stmt_mut, stmts_mut.

Definition st_init (st : cstate) : list Z := fst (fst st).
Definition st_err (st : cstate) : list Z := snd st.

Lemma zmem_In x s : zmem x s = true <-> In x s.
Proof.
  unfold zmem. rewrite existsb_exists. split.
  - intros [y [Hy E]]. apply Z.eqb_eq in E. subst. exact Hy.
  - intro H. exists x. split; [exact H | apply Z.eqb_refl].
Qed.

Lemma zadd_In s y x : In x (zadd s y) <-> In x s \/ x = y.
Proof.
  unfold zadd. destruct (zmem y s) eqn:E.
  - apply zmem_In in E. split; [auto|]. intros [H|H]; [exact H | subst; exact E].
  - rewrite in_app_iff. simpl. split.
    + intros [H|[H|[]]]; [left; exact H | right; symmetry; exact H].
    + intros [H|H]; [left; exact H | right; left; symmetry; exact H].
Qed.

Lemma fold_zadd_In l : forall s x, In x (fold_left zadd l s) <-> In x s \/ In x l.
Proof.
  induction l as [|a l IH]; intros s x; simpl; [tauto|].
  rewrite IH, zadd_In. split; intros H; intuition.
Qed.

Lemma zinter_In a b x : In x (zinter a b) <-> In x a /\ In x b.
Proof. unfold zinter. rewrite filter_In, zmem_In. tauto. Qed.

Lemma check_stmt_assign is_let f init pos errors :
  check_stmt is_let (SAssign f) (init, pos, errors) =
  if is_let f && zmem f init then (init, pos + 1, errors ++ [pos]) else (zadd init f, pos + 1, errors).
Proof. reflexivity. Qed.

Lemma check_stmt_if is_let t e init pos errors :
  check_stmt is_let (SIf t e) (init, pos, errors) =
  let st_t := check_stmts is_let t (init, pos + 1, errors) in
  let st_e := check_stmts is_let e (init, snd (fst st_t), st_err st_t) in
  (fold_left zadd (zinter (st_init st_t) (st_init st_e)) init, snd (fst st_e), st_err st_e).
Proof.
  simpl. destruct (check_stmts is_let t (init, pos + 1, errors)) as [[it pt] et]. simpl.
  destruct (check_stmts is_let e (init, pt, et)) as [[ie pe] ee]. reflexivity.
Qed.

Lemma run_stmts_cons s r path :
  run_stmts (SCons s r) path =
  (fst (run_stmt s path) ++ fst (run_stmts r (snd (run_stmt s path))),
   snd (run_stmts r (snd (run_stmt s path)))).
Proof.
  simpl. destruct (run_stmt s path) as [a p1]. simpl. destruct (run_stmts r p1) as [b p2]. reflexivity.
Qed.

Lemma run_stmt_if t e path :
  run_stmt (SIf t e) path =
  match path with [] => run_stmts e [] | b :: rest => if b then run_stmts t rest else run_stmts e rest end.
Proof. reflexivity. Qed.

(* errors are only appended *)
Lemma errs_extend is_let :
  (forall s st, exists x, st_err (check_stmt is_let s st) = st_err st ++ x) /\
  (forall l st, exists x, st_err (check_stmts is_let l st) = st_err st ++ x).
Proof.
  apply stmt_stmts_ind.
  - intros f [[init pos] errors]. rewrite check_stmt_assign.
    destruct (is_let f && zmem f init); simpl; [exists [pos] | exists []]; [reflexivity | rewrite app_nil_r; reflexivity].
  - intros t IHt e IHe [[init pos] errors]. rewrite check_stmt_if. simpl.
    destruct (IHt (init, pos + 1, errors)) as [x1 E1].
    destruct (IHe (init, snd (fst (check_stmts is_let t (init, pos + 1, errors))),
                   st_err (check_stmts is_let t (init, pos + 1, errors)))) as [x2 E2].
    exists (x1 ++ x2). unfold st_err in *. simpl in *. rewrite E2, E1, app_assoc. reflexivity.
  - intros st. exists []. simpl. rewrite app_nil_r. reflexivity.
  - intros s IHs r IHr st. simpl. destruct (IHs st) as [x1 E1]. destruct (IHr (check_stmt is_let s st)) as [x2 E2].
    exists (x1 ++ x2). rewrite E2, E1, app_assoc. reflexivity.
Qed.

Lemma app_eq_self {A} (l x : list A) : l ++ x = l -> x = [].
Proof.
  intro H. assert (L : length (l ++ x) = length l) by (rewrite H; reflexivity).
  rewrite app_length in L. destruct x; [reflexivity | simpl in L; lia].
Qed.

(* (A) definite initialization: a field the checker considers initialized after a statement was
   initialized before or is assigned on every execution path *)
Lemma definite is_let :
  (forall s init pos errors path f,
     In f (st_init (check_stmt is_let s (init, pos, errors))) ->
     In f init \/ In f (fst (run_stmt s path))) /\
  (forall l init pos errors path f,
     In f (st_init (check_stmts is_let l (init, pos, errors))) ->
     In f init \/ In f (fst (run_stmts l path))).
Proof.
  apply stmt_stmts_ind.
  - intros f0 init pos errors path f H. rewrite check_stmt_assign in H.
    destruct (is_let f0 && zmem f0 init); simpl in H; [left; exact H|].
    unfold st_init in H. simpl in H. apply zadd_In in H. destruct H as [H|H]; [left; exact H|].
    right. subst. left. reflexivity.
  - intros t IHt e IHe init pos errors path f H. rewrite check_stmt_if in H.
    unfold st_init in H. simpl in H. apply fold_zadd_In in H. destruct H as [H|H]; [left; exact H|].
    apply zinter_In in H. destruct H as [Ht He].
    remember (check_stmts is_let t (init, pos + 1, errors)) as stt.
    rewrite run_stmt_if. destruct path as [|b rest].
    + destruct stt as [[it pt] et]. simpl in He. eapply IHe. exact He.
    + destruct b.
      * subst stt. eapply IHt. exact Ht.
      * destruct stt as [[it pt] et]. simpl in He. eapply IHe. exact He.
  - intros init pos errors path f H. left. exact H.
  - intros s IHs r IHr init pos errors path f H. simpl check_stmts in H.
    destruct (check_stmt is_let s (init, pos, errors)) as [[i1 p1] e1] eqn:E.
    rewrite run_stmts_cons. simpl fst.
    destruct (IHr i1 p1 e1 (snd (run_stmt s path)) f H) as [H1|H1].
    + assert (H2 : In f (st_init (check_stmt is_let s (init, pos, errors)))) by (rewrite E; exact H1).
      destruct (IHs init pos errors path f H2) as [H3|H3]; [left; exact H3|].
      right. apply in_or_app. left. exact H3.
    + right. apply in_or_app. right. exact H1.
Qed.

(* balanced bodies assign the same fields on every path *)
Lemma may_paths :
  (forall s, balanced_stmt s -> forall path, same_set (fst (run_stmt s path)) (may_stmt s)) /\
  (forall l, balanced_stmts l -> forall path, same_set (fst (run_stmts l path)) (may_stmts l)).
Proof.
  apply stmt_stmts_ind.
  - intros f _ path x. simpl. tauto.
  - intros t IHt e IHe [Bt [Be S]] path x. rewrite run_stmt_if. simpl may_stmt. rewrite in_app_iff.
    destruct path as [|b rest].
    + rewrite (IHe Be [] x). specialize (S x). tauto.
    + destruct b.
      * rewrite (IHt Bt rest x). specialize (S x). tauto.
      * rewrite (IHe Be rest x). specialize (S x). tauto.
  - intros _ path x. simpl. tauto.
  - intros s IHs r IHr [Bs Br] path x. rewrite run_stmts_cons. simpl. rewrite !in_app_iff.
    rewrite (IHs Bs path x), (IHr Br _ x). tauto.
Qed.

(* for balanced bodies the checker's set is exact *)
Lemma check_exact is_let :
  (forall s, balanced_stmt s -> forall init pos errors x,
     In x (st_init (check_stmt is_let s (init, pos, errors))) <-> In x init \/ In x (may_stmt s)) /\
  (forall l, balanced_stmts l -> forall init pos errors x,
     In x (st_init (check_stmts is_let l (init, pos, errors))) <-> In x init \/ In x (may_stmts l)).
Proof.
  apply stmt_stmts_ind.
  - intros f _ init pos errors x. rewrite check_stmt_assign.
    destruct (is_let f && zmem f init) eqn:E; unfold st_init; simpl.
    + apply andb_true_iff in E. destruct E as [_ E]. apply zmem_In in E.
      split; [auto|]. intros [H|[H|[]]]; [exact H | subst; exact E].
    + rewrite zadd_In. split; intros [H|H]; auto. destruct H as [H|[]]. auto.
  - intros t IHt e IHe [Bt [Be S]] init pos errors x. rewrite check_stmt_if.
    unfold st_init at 1. simpl fst. rewrite fold_zadd_In, zinter_In.
    destruct (check_stmts is_let t (init, pos + 1, errors)) as [[it pt] et] eqn:Et.
    assert (Ht : forall y, In y it <-> In y init \/ In y (may_stmts t)).
    { intro y. specialize (IHt Bt init (pos + 1) errors y). rewrite Et in IHt. exact IHt. }
    simpl snd. simpl fst. unfold st_err. simpl snd.
    rewrite (IHe Be init pt et x). unfold st_init. simpl fst. rewrite (Ht x).
    simpl may_stmt. rewrite in_app_iff. specialize (S x). tauto.
  - intros _ init pos errors x. simpl. unfold st_init. simpl. tauto.
  - intros s IHs r IHr [Bs Br] init pos errors x. simpl check_stmts.
    destruct (check_stmt is_let s (init, pos, errors)) as [[i1 p1] e1] eqn:E.
    rewrite (IHr Br i1 p1 e1 x). simpl may_stmts. rewrite in_app_iff.
    specialize (IHs Bs init pos errors x). rewrite E in IHs. unfold st_init in IHs. simpl in IHs.
    rewrite IHs. tauto.
Qed.

Lemma count_app f a b : count f (a ++ b) = (count f a + count f b)%nat.
Proof. induction a as [|x a IH]; simpl; [reflexivity|]. rewrite IH. lia. Qed.

Lemma count_zero_or_In f l : count f l = 0%nat \/ In f l.
Proof.
  induction l as [|x l IH]; simpl; [left; reflexivity|].
  destruct (x =? f) eqn:E.
  - right. left. apply Z.eqb_eq. exact E.
  - destruct IH as [IH|IH]; [left; rewrite IH; reflexivity | right; right; exact IH].
Qed.

Lemma In_count f l : In f l -> (1 <= count f l)%nat.
Proof.
  induction l as [|x l IH]; simpl; [intros []|].
  intros [H|H]; [subst; rewrite Z.eqb_refl; lia | specialize (IH H); lia].
Qed.

(* (B) for balanced bodies: no reinitialization error => a constant field is assigned at most once on
   every path, and not at all if it was already initialized *)
Lemma no_error_once is_let :
  (forall s, balanced_stmt s -> forall init pos errors path f,
     st_err (check_stmt is_let s (init, pos, errors)) = errors -> is_let f = true ->
     (count f (fst (run_stmt s path)) <= 1)%nat /\ (In f init -> count f (fst (run_stmt s path)) = 0%nat)) /\
  (forall l, balanced_stmts l -> forall init pos errors path f,
     st_err (check_stmts is_let l (init, pos, errors)) = errors -> is_let f = true ->
     (count f (fst (run_stmts l path)) <= 1)%nat /\ (In f init -> count f (fst (run_stmts l path)) = 0%nat)).
Proof.
  apply stmt_stmts_ind.
  - intros f0 _ init pos errors path f H L. rewrite check_stmt_assign in H. simpl run_stmt. simpl fst.
    destruct (is_let f0 && zmem f0 init) eqn:E.
    + unfold st_err in H. simpl in H. apply app_eq_self in H. discriminate.
    + simpl. destruct (f0 =? f) eqn:F; [|split; [lia | reflexivity]].
      apply Z.eqb_eq in F. subst f0. rewrite L in E. simpl in E.
      split; [lia|]. intro Hin. apply zmem_In in Hin. congruence.
  - intros t IHt e IHe [Bt [Be S]] init pos errors path f H L. rewrite check_stmt_if in H.
    unfold st_err in *. simpl snd in H.
    destruct (proj2 (errs_extend is_let) t (init, pos + 1, errors)) as [x1 E1]. unfold st_err in E1.
    destruct (check_stmts is_let t (init, pos + 1, errors)) as [[it pt] et] eqn:Et.
    simpl in H, E1.
    destruct (proj2 (errs_extend is_let) e (init, pt, et)) as [x2 E2]. unfold st_err in E2. simpl in E2.
    assert (X : x1 = [] /\ x2 = []).
    { rewrite E2, E1, <- app_assoc in H. apply app_eq_self in H. apply app_eq_nil in H. exact H. }
    destruct X as [X1 X2]. subst x1 x2. rewrite app_nil_r in E1, E2. subst et.
    rewrite run_stmt_if. destruct path as [|b rest].
    + eapply IHe; eauto.
    + destruct b.
      * eapply IHt; eauto. rewrite Et. reflexivity.
      * eapply IHe; eauto.
  - intros _ init pos errors path f _ _. simpl. split; [lia | reflexivity].
  - intros s IHs r IHr [Bs Br] init pos errors path f H L. simpl check_stmts in H.
    destruct (proj1 (errs_extend is_let) s (init, pos, errors)) as [x1 E1].
    destruct (check_stmt is_let s (init, pos, errors)) as [[i1 p1] e1] eqn:E.
    destruct (proj2 (errs_extend is_let) r (i1, p1, e1)) as [x2 E2].
    unfold st_err in E1, E2. simpl snd in E1, E2.
    assert (X : x1 = [] /\ x2 = []).
    { unfold st_err in H. rewrite E2, E1, <- app_assoc in H. apply app_eq_self in H. apply app_eq_nil in H. exact H. }
    destruct X as [X1 X2]. subst x1 x2. rewrite app_nil_r in E1, E2. subst e1.
    assert (Hs : st_err (check_stmt is_let s (init, pos, errors)) = errors) by (rewrite E; reflexivity).
    destruct (IHs Bs init pos errors path f Hs L) as [S1 S2].
    destruct (IHr Br i1 p1 errors (snd (run_stmt s path)) f E2 L) as [R1 R2].
    assert (Ex : forall y, In y i1 <-> In y init \/ In y (may_stmt s)).
    { intro y. pose proof (proj1 (check_exact is_let) s Bs init pos errors y) as C. rewrite E in C. exact C. }
    rewrite run_stmts_cons. simpl fst. rewrite count_app. split.
    + destruct (count_zero_or_In f (fst (run_stmt s path))) as [Z0|Hin].
      * lia.
      * assert (In f i1).
        { apply Ex. right. apply (proj1 may_paths s Bs path f). exact Hin. }
        rewrite (R2 H0). lia.
    + intro Hin. rewrite (S2 Hin). rewrite R2; [reflexivity|]. apply Ex. left. exact Hin.
Qed.

(* ---------------------------------------------------------------- the initializer theorems *)
(* every field is assigned on every path of an accepted initializer (no guard needed) *)
Theorem fields_initialized_on_every_path fields is_let body errors :
  check_init fields is_let body = (errors, []) ->
  forall path f, In f fields -> In f (assignments body path).
Proof.
  unfold check_init, assignments. intros H path f Hf.
  destruct (check_stmts is_let body ([], 0, [])) as [[init pos] errs] eqn:E.
  inversion H as [[He Hu]].
  assert (Z : zmem f init = true).
  { destruct (zmem f init) eqn:Zm; [reflexivity|]. exfalso.
    assert (In f (filter (fun f => negb (zmem f init)) fields)) by (apply filter_In; split; [exact Hf | rewrite Zm; reflexivity]).
    rewrite Hu in H0. exact H0. }
  apply zmem_In in Z.
  assert (I : In f (st_init (check_stmts is_let body ([], 0, [])))) by (rewrite E; exact Z).
  destruct (proj2 (definite is_let) body [] 0 [] path f I) as [[]|H1]. exact H1.
Qed.

(* full statement: in an accepted initializer every constant field is assigned exactly once on every path *)
Definition let_once_statement : Prop :=
  forall fields is_let body,
    check_init fields is_let body = ([], []) ->
    forall path f, In f fields -> is_let f = true -> count f (assignments body path) = 1%nat.

(* true for bodies whose if/else statements assign the same fields in both branches *)
Theorem let_field_assigned_once_in_init_partial fields is_let body :
  balanced_stmts body ->
  check_init fields is_let body = ([], []) ->
  forall path f, In f fields -> is_let f = true -> count f (assignments body path) = 1%nat.
Proof.
  intros B H path f Hf L.
  pose proof (fields_initialized_on_every_path fields is_let body [] H path f Hf) as Hin.
  apply In_count in Hin.
  unfold check_init in H. unfold assignments in *.
  destruct (check_stmts is_let body ([], 0, [])) as [[init pos] errs] eqn:E.
  inversion H as [[He Hu]]. subst errs.
  assert (Hs : st_err (check_stmts is_let body ([], 0, [])) = []) by (rewrite E; reflexivity).
  destruct (proj2 (no_error_once is_let) body B [] 0 [] path f Hs L) as [C _]. lia.
Qed.

(* FINDING: `if c { self.x = 1 }  self.x = 2` is accepted; with c = true the constant field is assigned twice *)
Theorem let_once_refuted : ~ let_once_statement.
Proof.
  intro S.
  specialize (S [1] (fun _ => true)
                (SCons (SIf (SCons (SAssign 1) SNil) SNil) (SCons (SAssign 1) SNil))
                eq_refl [true] 1 (or_introl eq_refl) eq_refl).
  discriminate S.
Qed.
