(* C25 proofs: the code-shaped controller store refines the controller specification for all
   histories; consequences for ids, listings, deletion, retargeting, borrowing, publishing and
   the inbox. *)
From CV Require Import C25.Model.
From Coq Require Import Sorting.Sorted.

Local Ltac inv H := inversion H; subst; clear H.

(* ------------------------------------------------------------------ basic facts *)
Lemma upd_same {V} (f : Z -> V) k v : upd f k v k = v.
Proof. unfold upd. now rewrite Z.eqb_refl. Qed.
Lemma upd_other {V} (f : Z -> V) k v k' : k' <> k -> upd f k v k' = f k'.
Proof. unfold upd. intro H. destruct (k' =? k) eqn:E; auto. apply Z.eqb_eq in E. contradiction. Qed.
Lemma upd2_same {V} (f : Z -> Z -> V) a k v : upd2 f a k v a k = v.
Proof. unfold upd2. rewrite Z.eqb_refl. apply upd_same. Qed.
Lemma upd2_other_a {V} (f : Z -> Z -> V) a k v a' k' : a' <> a -> upd2 f a k v a' k' = f a' k'.
Proof. unfold upd2. intro H. destruct (a' =? a) eqn:E; auto. apply Z.eqb_eq in E. contradiction. Qed.
Lemma upd2_other_k {V} (f : Z -> Z -> V) a k v a' k' : k' <> k -> upd2 f a k v a' k' = f a' k'.
Proof. unfold upd2. intro H. destruct (a' =? a) eqn:E; auto. apply Z.eqb_eq in E. subst. now apply upd_other. Qed.

Lemma zmem_In x l : zmem x l = true <-> In x l.
Proof.
  induction l as [|y r IH]; simpl; [split; [discriminate|tauto]|].
  rewrite Bool.orb_true_iff, IH, Z.eqb_eq. intuition.
Qed.

(* strictly increasing lists bounded below *)
Fixpoint incr_above (lo : Z) (l : list Z) : Prop :=
  match l with [] => True | x :: r => lo < x /\ incr_above x r end.

Lemma incr_above_all lo l : incr_above lo l -> forall x, In x l -> lo < x.
Proof.
  revert lo. induction l as [|y r IH]; simpl; intros lo H x Hx; [tauto|].
  destruct H as [H1 H2]. destruct Hx as [->|Hx]; auto. specialize (IH _ H2 _ Hx). lia.
Qed.
Lemma incr_above_weaken lo lo' l : lo' <= lo -> incr_above lo l -> incr_above lo' l.
Proof. destruct l; simpl; auto. intros H [H1 H2]. split; auto. lia. Qed.

Lemma zmem_above lo l x : incr_above lo l -> x <= lo -> zmem x l = false.
Proof.
  intros H Hx. destruct (zmem x l) eqn:E; auto. apply zmem_In in E.
  pose proof (incr_above_all _ _ H _ E). lia.
Qed.
Lemma zinsert_above lo l x : incr_above lo l -> x <= lo -> zinsert x l = x :: l.
Proof.
  destruct l as [|y r]; simpl; auto. intros [H1 _] Hx.
  destruct (x <? y) eqn:E; auto. apply Z.ltb_ge in E. lia.
Qed.

(* ------------------------------------------------------------------ specification records *)
Definition rec_ids (l : list crec) : list Z := map r_id l.
Definition inc_recs (lo : Z) (l : list crec) : Prop := incr_above lo (rec_ids l).

Lemma inc_recs_filter lo l P : inc_recs lo l -> incr_above lo (map r_id (filter P l)).
Proof.
  unfold inc_recs, rec_ids. revert lo. induction l as [|r t IH]; simpl; auto.
  intros lo [H1 H2]. destruct (P r); simpl.
  - split; auto.
  - apply IH in H2. eapply incr_above_weaken; [|exact H2]. lia.
Qed.

Lemma s_find_none_above lo l id : inc_recs lo l -> id <= lo -> s_find l id = None.
Proof.
  unfold inc_recs, rec_ids. revert lo. induction l as [|r t IH]; simpl; auto.
  intros lo [H1 H2] Hid. destruct (r_id r =? id) eqn:E.
  - apply Z.eqb_eq in E. lia.
  - eapply IH; eauto. lia.
Qed.

Lemma s_find_id l id r : s_find l id = Some r -> r_id r = id.
Proof.
  induction l as [|r0 t IH]; simpl; [discriminate|].
  destruct (r_id r0 =? id) eqn:E; auto. intro H. inv H. now apply Z.eqb_eq.
Qed.
Lemma s_find_In l id r : s_find l id = Some r -> In r l.
Proof.
  induction l as [|r0 t IH]; simpl; [discriminate|].
  destruct (r_id r0 =? id); auto. intro H. inv H. auto.
Qed.

(* membership in a filtered listing, for records with increasing ids *)
Lemma zmem_filter lo l P id :
  inc_recs lo l ->
  zmem id (map r_id (filter P l)) = match s_find l id with Some r => P r | None => false end.
Proof.
  unfold inc_recs, rec_ids. revert lo. induction l as [|r t IH]; simpl; auto.
  intros lo [H1 H2]. destruct (r_id r =? id) eqn:E.
  - apply Z.eqb_eq in E. subst. destruct (P r) eqn:EP; simpl.
    + now rewrite Z.eqb_refl.
    + eapply zmem_above; [apply (inc_recs_filter _ _ P H2)|]. lia.
  - destruct (P r); simpl; eauto. rewrite Z.eqb_sym, E. simpl. eauto.
Qed.

Lemma s_find_modify l id f id' :
  (forall r, r_id (f r) = r_id r) ->
  s_find (s_modify l id f) id' =
  if id' =? id then option_map f (s_find l id) else s_find l id'.
Proof.
  intro Hf. induction l as [|r t IH]; simpl.
  - now destruct (id' =? id).
  - destruct (r_id r =? id) eqn:E; simpl.
    + apply Z.eqb_eq in E. rewrite Hf. destruct (id' =? id) eqn:E2.
      * apply Z.eqb_eq in E2. subst. now rewrite Z.eqb_refl.
      * rewrite E. destruct (id =? id') eqn:E3; auto. apply Z.eqb_eq in E3. subst. now rewrite Z.eqb_refl in E2.
    + destruct (r_id r =? id') eqn:E2.
      * destruct (id' =? id) eqn:E3; auto. apply Z.eqb_eq in E2, E3. subst. now rewrite Z.eqb_refl in E.
      * exact IH.
Qed.

Lemma rec_ids_modify l id f : (forall r, r_id (f r) = r_id r) -> rec_ids (s_modify l id f) = rec_ids l.
Proof.
  intro Hf. unfold rec_ids. induction l as [|r t IH]; simpl; auto.
  destruct (r_id r =? id); simpl; [now rewrite Hf|now rewrite IH].
Qed.

(* listing after a record changes from outside the filter to inside it, and back *)
Lemma filter_modify_on lo l id f P r :
  (forall r, r_id (f r) = r_id r) ->
  inc_recs lo l -> s_find l id = Some r -> P r = false -> P (f r) = true ->
  map r_id (filter P (s_modify l id f)) = zinsert id (map r_id (filter P l)).
Proof.
  intros Hf. unfold inc_recs, rec_ids. revert lo. induction l as [|r0 t IH]; simpl; [discriminate|].
  intros lo [H1 H2] Hfind HP HPf. destruct (r_id r0 =? id) eqn:E.
  - inv Hfind. apply Z.eqb_eq in E. subst id. simpl. rewrite HPf, HP. simpl. rewrite Hf.
    symmetry. eapply zinsert_above; [apply (inc_recs_filter _ _ P H2)|]. lia.
  - simpl. specialize (IH _ H2 Hfind HP HPf).
    assert (Hlt : r_id r0 < id).
    { apply s_find_In in Hfind as Hin. pose proof (s_find_id _ _ _ Hfind).
      apply (incr_above_all _ _ H2). subst. now apply in_map. }
    destruct (P r0); simpl; auto. rewrite IH.
    destruct (id <? r_id r0) eqn:E1; [apply Z.ltb_lt in E1; lia|].
    destruct (id =? r_id r0) eqn:E2; [apply Z.eqb_eq in E2; lia|]. reflexivity.
Qed.

Lemma filter_modify_off lo l id f P r :
  (forall r, r_id (f r) = r_id r) ->
  inc_recs lo l -> s_find l id = Some r -> P r = true -> P (f r) = false ->
  map r_id (filter P (s_modify l id f)) = zremove id (map r_id (filter P l)).
Proof.
  intros Hf. unfold inc_recs, rec_ids. revert lo. induction l as [|r0 t IH]; simpl; [discriminate|].
  intros lo [H1 H2] Hfind HP HPf. destruct (r_id r0 =? id) eqn:E.
  - inv Hfind. apply Z.eqb_eq in E. simpl. rewrite HPf, HP. simpl. now rewrite E, Z.eqb_refl.
  - simpl. specialize (IH _ H2 Hfind HP HPf).
    destruct (P r0); simpl; auto. rewrite IH.
    rewrite Z.eqb_sym, E. reflexivity.
Qed.

Lemma filter_modify_same l id f P :
  (forall r, r_id (f r) = r_id r) ->
  (forall r, s_find l id = Some r -> P (f r) = P r) ->
  map r_id (filter P (s_modify l id f)) = map r_id (filter P l).
Proof.
  intros Hf. induction l as [|r0 t IH]; simpl; auto.
  intros H. destruct (r_id r0 =? id) eqn:E.
  - simpl. rewrite (H r0 eq_refl). destruct (P r0); simpl; now rewrite ?Hf.
  - simpl. destruct (P r0); simpl; rewrite IH; auto.
Qed.

Lemma s_modify_twice l id f g :
  (forall r, r_id (f r) = r_id r) ->
  s_modify (s_modify l id f) id g = s_modify l id (fun r => g (f r)).
Proof.
  intro Hf. induction l as [|r t IH]; simpl; auto.
  destruct (r_id r =? id) eqn:E; simpl.
  - now rewrite Hf, E.
  - now rewrite E, IH.
Qed.
Lemma s_modify_ext l id f g :
  (forall r, s_find l id = Some r -> f r = g r) -> s_modify l id f = s_modify l id g.
Proof.
  induction l as [|r t IH]; simpl; auto. intro H.
  destruct (r_id r =? id) eqn:E.
  - now rewrite (H r eq_refl).
  - rewrite IH; auto.
Qed.
Lemma s_find_app l r id :
  s_find (l ++ [r]) id =
  match s_find l id with Some x => Some x | None => if r_id r =? id then Some r else None end.
Proof. induction l as [|r0 t IH]; simpl; auto. now destruct (r_id r0 =? id). Qed.

Lemma s_find_bound l id r n :
  Forall (fun i => i <= n) (rec_ids l) -> s_find l id = Some r -> id <= n.
Proof.
  intros H Hf. pose proof (s_find_id _ _ _ Hf). apply s_find_In in Hf.
  rewrite Forall_forall in H. apply H. subst. unfold rec_ids. now apply in_map.
Qed.

Lemma incr_above_app_last lo l x :
  incr_above lo l -> (forall y, In y l -> y < x) -> lo < x -> incr_above lo (l ++ [x]).
Proof.
  revert lo. induction l as [|y r IH]; simpl; intros lo H Hall Hlo; auto.
  destruct H as [H1 H2]. split; [exact H1|]. apply IH; [exact H2|intros z Hz; apply Hall; now right|apply Hall; now left].
Qed.
Lemma zinsert_max l x lo :
  incr_above lo l -> (forall y, In y l -> y < x) -> zinsert x l = l ++ [x].
Proof.
  revert lo. induction l as [|y r IH]; simpl; intros lo H Hall; auto.
  destruct H as [H1 H2]. pose proof (Hall y (or_introl eq_refl)).
  destruct (x <? y) eqn:E1; [apply Z.ltb_lt in E1; lia|].
  destruct (x =? y) eqn:E2; [apply Z.eqb_eq in E2; lia|].
  f_equal. eapply IH; eauto.
Qed.

Lemma ckind_eqb_eq x y : ckind_eqb x y = true <-> x = y.
Proof.
  destruct x, y; simpl; split; intro H; try discriminate; try reflexivity.
  - apply Z.eqb_eq in H. now subst.
  - inv H. apply Z.eqb_refl.
Qed.
Lemma ckind_eqb_refl x : ckind_eqb x x = true.
Proof. now apply ckind_eqb_eq. Qed.
Lemma ckind_eqb_neq x y : x <> y -> ckind_eqb x y = false.
Proof. intro H. destruct (ckind_eqb x y) eqn:E; auto. apply ckind_eqb_eq in E. contradiction. Qed.
Lemma ckind_dec (x y : ckind) : x = y \/ x <> y.
Proof. destruct (ckind_eqb x y) eqn:E; [left; now apply ckind_eqb_eq|right; intro; subst; now rewrite ckind_eqb_refl in E]. Qed.

(* ------------------------------------------------------------------ simulation relation *)
Definition live_pred (k : ckind) (r : crec) : bool := r_live r && ckind_eqb (c_kind (r_ctrl r)) k.

Definition caps_of (c : cstore) (a : Z) (k : ckind) : list Z :=
  match k with KStorage p => pathcaps c a p | KAccount => acctcaps c a end.

Definition Rp (c : cstore) (s : sstore) : Prop := forall a k, caps_of c a k = s_list s a k.
Definition Rc (c : cstore) (s : sstore) : Prop :=
  (forall a id, ctrls c a id = s_get s a id) /\ (forall a id, tags c a id = s_tag s a id).
Definition Rw (nx : Z -> Z) (s : sstore) : Prop :=
  forall a, 0 <= nx a /\ inc_recs 0 (s a) /\ Forall (fun i => i <= nx a) (rec_ids (s a)).
Definition R (nx : Z -> Z) (c : cstore) (s : sstore) : Prop := Rp c s /\ Rc c s /\ Rw nx s.

Definition unlive (r : crec) : crec := mkRec (r_id r) (r_ctrl r) (r_tag r) false.
Definition relive (k : ckind) (r : crec) : crec := mkRec (r_id r) (mkCtrl k (c_bt (r_ctrl r))) (r_tag r) true.

Lemma s_list_upd_other s a l a' k : a' <> a -> s_list (upd s a l) a' k = s_list s a' k.
Proof. intro H. unfold s_list. now rewrite upd_other. Qed.
Lemma s_list_upd_same s a l k : s_list (upd s a l) a k = map r_id (filter (live_pred k) l).
Proof. unfold s_list. now rewrite upd_same. Qed.

Lemma c_unrecord_spec c a id k :
  zmem id (caps_of c a k) = true ->
  exists c', c_unrecord c a id k = Ok c' /\ ctrls c' = ctrls c /\ tags c' = tags c /\
    caps_of c' a k = zremove id (caps_of c a k) /\
    (forall a' k', a' <> a \/ k' <> k -> caps_of c' a' k' = caps_of c a' k').
Proof.
  intro H. destruct k as [p|]; simpl in *; rewrite H; eexists; split; try reflexivity; simpl;
    repeat split; auto.
  - apply upd2_same.
  - intros a' k' Hne. destruct k' as [p'|]; simpl; auto.
    destruct Hne as [Hne|Hne]; [now apply upd2_other_a|]. apply upd2_other_k. congruence.
  - apply upd_same.
  - intros a' k' Hne. destruct k' as [p'|]; simpl; auto.
    destruct Hne as [Hne|Hne]; [now apply upd_other|congruence].
Qed.

Lemma c_record_spec c a id k :
  zmem id (caps_of c a k) = false ->
  exists c', c_record c a id k = Ok c' /\ ctrls c' = ctrls c /\ tags c' = tags c /\
    caps_of c' a k = zinsert id (caps_of c a k) /\
    (forall a' k', a' <> a \/ k' <> k -> caps_of c' a' k' = caps_of c a' k').
Proof.
  intro H. destruct k as [p|]; simpl in *; rewrite H; eexists; split; try reflexivity; simpl;
    repeat split; auto.
  - apply upd2_same.
  - intros a' k' Hne. destruct k' as [p'|]; simpl; auto.
    destruct Hne as [Hne|Hne]; [now apply upd2_other_a|]. apply upd2_other_k. congruence.
  - apply upd_same.
  - intros a' k' Hne. destruct k' as [p'|]; simpl; auto.
    destruct Hne as [Hne|Hne]; [now apply upd_other|congruence].
Qed.

Lemma unlive_id r : r_id (unlive r) = r_id r. Proof. reflexivity. Qed.
Lemma relive_id k r : r_id (relive k r) = r_id r. Proof. reflexivity. Qed.

Lemma unrecord_ok nx c s a id k r :
  Rp c s -> Rw nx s -> s_find (s a) id = Some r -> live_pred k r = true ->
  exists c', c_unrecord c a id k = Ok c' /\ ctrls c' = ctrls c /\ tags c' = tags c /\
    Rp c' (upd s a (s_modify (s a) id unlive)).
Proof.
  intros HRp HRw Hf Hl. destruct (HRw a) as (_ & Hinc & _).
  assert (Hm : zmem id (caps_of c a k) = true).
  { rewrite HRp. unfold s_list. erewrite zmem_filter by eauto. now rewrite Hf. }
  destruct (c_unrecord_spec _ _ _ _ Hm) as (c' & H1 & H2 & H3 & H4 & H5).
  exists c'. repeat split; auto. intros a' k'.
  destruct (Z.eq_dec a' a) as [->|Hna].
  - rewrite s_list_upd_same. destruct (ckind_dec k' k) as [->|Hnk].
    + rewrite H4, HRp. unfold s_list. symmetry. eapply filter_modify_off; eauto.
    + rewrite H5 by auto. rewrite HRp. unfold s_list. symmetry. apply filter_modify_same; auto.
      intros r' Hr'. rewrite Hf in Hr'. inv Hr'. unfold live_pred in *. simpl.
      apply Bool.andb_true_iff in Hl. destruct Hl as [_ Hk]. apply ckind_eqb_eq in Hk.
      rewrite Hk. rewrite (ckind_eqb_neq k k') by congruence. now rewrite Bool.andb_false_r.
  - rewrite H5 by auto. rewrite s_list_upd_other by auto. apply HRp.
Qed.

Lemma record_ok nx c s a id k r :
  Rp c s -> Rw nx s -> s_find (s a) id = Some r -> r_live r = false ->
  exists c', c_record c a id k = Ok c' /\ ctrls c' = ctrls c /\ tags c' = tags c /\
    Rp c' (upd s a (s_modify (s a) id (relive k))).
Proof.
  intros HRp HRw Hf Hl. destruct (HRw a) as (_ & Hinc & _).
  assert (Hm : zmem id (caps_of c a k) = false).
  { rewrite HRp. unfold s_list. erewrite zmem_filter by eauto. rewrite Hf. unfold live_pred. now rewrite Hl. }
  destruct (c_record_spec _ _ _ _ Hm) as (c' & H1 & H2 & H3 & H4 & H5).
  exists c'. repeat split; auto. intros a' k'.
  destruct (Z.eq_dec a' a) as [->|Hna].
  - rewrite s_list_upd_same. destruct (ckind_dec k' k) as [->|Hnk].
    + rewrite H4, HRp. unfold s_list. symmetry. eapply filter_modify_on; eauto.
      * unfold live_pred. now rewrite Hl.
      * unfold live_pred, relive. simpl. apply ckind_eqb_refl.
    + rewrite H5 by auto. rewrite HRp. unfold s_list. symmetry. apply filter_modify_same; auto.
      intros r' Hr'. rewrite Hf in Hr'. inv Hr'. unfold live_pred, relive. simpl. rewrite Hl.
      simpl. apply ckind_eqb_neq. congruence.
  - rewrite H5 by auto. rewrite s_list_upd_other by auto. apply HRp.
Qed.

Lemma Rp_ext c s s' : Rp c s -> (forall a, s a = s' a) -> Rp c s'.
Proof. intros H E a k. rewrite H. unfold s_list. now rewrite E. Qed.

Lemma Rw_modify nx s a id f :
  (forall r, r_id (f r) = r_id r) -> Rw nx s -> Rw nx (upd s a (s_modify (s a) id f)).
Proof.
  intros Hf H a'. destruct (Z.eq_dec a' a) as [->|Hn].
  - rewrite upd_same. unfold inc_recs. rewrite rec_ids_modify by auto. apply H.
  - rewrite upd_other by auto. apply H.
Qed.

Lemma Rw_mono nx nx' s : (forall a, nx a <= nx' a) -> Rw nx s -> Rw nx' s.
Proof.
  intros Hle H a. destruct (H a) as (H0 & H1 & H2). specialize (Hle a). repeat split; auto; [lia|].
  eapply Forall_impl; [|exact H2]. simpl. intros. lia.
Qed.

(* reading a controller through the specification *)
Lemma s_get_some s a id ct :
  s_get s a id = Some ct -> exists r, s_find (s a) id = Some r /\ r_live r = true /\ r_ctrl r = ct.
Proof.
  unfold s_get. destruct (s_find (s a) id) as [r|]; [|discriminate].
  destruct (r_live r) eqn:E; [|discriminate]. intro H. inv H. eauto.
Qed.

(* ------------------------------------------------------------------ the store operations correspond *)
Lemma Rc_get nx c s a id : R nx c s -> ctrls c a id = s_get s a id.
Proof. intros (_ & [H _] & _). apply H. Qed.
Lemma Rc_tag nx c s a id : R nx c s -> tags c a id = s_tag s a id.
Proof. intros (_ & [_ H] & _). apply H. Qed.

Lemma s_get_upd_other s a l a' id : a' <> a -> s_get (upd s a l) a' id = s_get s a' id.
Proof. intro H. unfold s_get. now rewrite upd_other. Qed.
Lemma s_tag_upd_other s a l a' id : a' <> a -> s_tag (upd s a l) a' id = s_tag s a' id.
Proof. intro H. unfold s_tag. now rewrite upd_other. Qed.

Lemma issue_ok nx c s a ct :
  R nx c s ->
  exists c', c_issue c a (nx a + 1) ct = Ok c' /\ R (upd nx a (nx a + 1)) c' (s_issue s a (nx a + 1) ct).
Proof.
  intros (HRp & [HRc HRt] & HRw). set (id := nx a + 1).
  destruct (HRw a) as (Hnn & Hinc & Hb).
  assert (Hnone : s_find (s a) id = None).
  { destruct (s_find (s a) id) eqn:E; auto. pose proof (s_find_bound _ _ _ _ Hb E). unfold id in *. lia. }
  unfold c_issue. rewrite HRc. unfold s_get. rewrite Hnone.
  set (c1 := mkCS (upd2 (ctrls c) a id (Some ct)) (tags c) (pathcaps c) (acctcaps c)).
  assert (Hcaps : forall a' k', caps_of c1 a' k' = caps_of c a' k') by (intros a' [p|]; reflexivity).
  assert (Hm : zmem id (caps_of c1 a (c_kind ct)) = false).
  { rewrite Hcaps, HRp. unfold s_list. erewrite zmem_filter by eauto. now rewrite Hnone. }
  destruct (c_record_spec _ _ _ _ Hm) as (c' & H1 & H2 & H3 & H4 & H5).
  exists c'. split; auto.
  assert (Hall : forall y, In y (rec_ids (s a)) -> y < id).
  { intros y Hy. rewrite Forall_forall in Hb. specialize (Hb _ Hy). unfold id. lia. }
  split; [|split].
  - (* Rp *)
    intros a' k'. destruct (Z.eq_dec a' a) as [->|Hna].
    + unfold s_issue. rewrite s_list_upd_same. rewrite filter_app, map_app. simpl.
      destruct (ckind_dec k' (c_kind ct)) as [->|Hnk].
      * rewrite H4, Hcaps, HRp. unfold live_pred at 2. simpl. rewrite ckind_eqb_refl. simpl.
        unfold s_list. eapply zinsert_max.
        -- apply (inc_recs_filter _ _ _ Hinc).
        -- intros y Hy. apply Hall. unfold rec_ids. apply in_map_iff in Hy.
           destruct Hy as (r & <- & Hr). apply filter_In in Hr. apply in_map. tauto.
      * rewrite H5 by auto. rewrite Hcaps, HRp. unfold live_pred at 2. simpl.
        rewrite (ckind_eqb_neq (c_kind ct) k') by congruence. simpl. now rewrite app_nil_r.
    + rewrite H5 by auto. rewrite Hcaps. unfold s_issue. rewrite s_list_upd_other by auto. apply HRp.
  - (* Rc *)
    split; intros a' id'.
    + rewrite H2. simpl. destruct (Z.eq_dec a' a) as [->|Hna].
      * unfold s_issue, s_get. rewrite upd_same, s_find_app. destruct (Z.eq_dec id' id) as [->|Hni].
        -- rewrite upd2_same, Hnone. simpl. now rewrite Z.eqb_refl.
        -- rewrite upd2_other_k by auto. rewrite HRc. unfold s_get.
           destruct (s_find (s a) id'); auto. simpl.
           destruct (id =? id') eqn:E; auto. apply Z.eqb_eq in E. congruence.
      * rewrite upd2_other_a by auto. unfold s_issue. rewrite s_get_upd_other by auto. apply HRc.
    + rewrite H3. simpl. rewrite HRt. destruct (Z.eq_dec a' a) as [->|Hna].
      * unfold s_issue, s_tag. rewrite upd_same, s_find_app.
        destruct (s_find (s a) id') eqn:E; auto. simpl.
        destruct (id =? id'); auto.
      * unfold s_issue. now rewrite s_tag_upd_other by auto.
  - (* Rw *)
    intros a'. unfold s_issue. destruct (Z.eq_dec a' a) as [->|Hna].
    + rewrite !upd_same. unfold inc_recs, rec_ids. rewrite map_app. simpl. split; [unfold id; lia|split].
      * apply incr_above_app_last; auto. unfold id. lia.
      * apply Forall_app. split.
        -- eapply Forall_impl; [|exact Hb]. simpl. intros. unfold id. lia.
        -- constructor; [lia|constructor].
    + rewrite !upd_other by auto. apply HRw.
Qed.

Lemma s_list_live nx c s a k id :
  R nx c s -> In id (s_list s a k) ->
  exists ct, ctrls c a id = Some ct /\ c_kind ct = k.
Proof.
  intros (HRp & [HRc _] & HRw) Hin. destruct (HRw a) as (_ & Hinc & _).
  apply zmem_In in Hin. unfold s_list in Hin. erewrite zmem_filter in Hin by eauto.
  destruct (s_find (s a) id) as [r|] eqn:E; [|discriminate].
  unfold live_pred in Hin. apply Bool.andb_true_iff in Hin. destruct Hin as [Hl Hk].
  apply ckind_eqb_eq in Hk. exists (r_ctrl r). split; auto.
  rewrite HRc. unfold s_get. now rewrite E, Hl.
Qed.

Lemma list_ok nx c s a k : R nx c s -> c_list c a k = Ok (s_list s a k).
Proof.
  intros HR. pose proof HR as (HRp & _). unfold c_list.
  replace (match k with KStorage p => pathcaps c a p | KAccount => acctcaps c a end) with (caps_of c a k)
    by (destruct k; reflexivity).
  rewrite HRp.
  match goal with |- (if ?b then _ else _) = _ => assert (Hb : b = true) end.
  { apply forallb_forall. intros id Hin.
    destruct (s_list_live _ _ _ _ _ _ HR Hin) as (ct & -> & Hk). rewrite Hk.
    destruct k; reflexivity. }
  rewrite Hb. now rewrite HRp.
Qed.

Lemma delete_ok nx c s a id ct :
  R nx c s -> ctrls c a id = Some ct ->
  exists c', c_delete c a id ct = Ok c' /\ R nx c' (s_delete s a id).
Proof.
  intros (HRp & [HRc HRt] & HRw) Hc.
  pose proof Hc as Hs. rewrite HRc in Hs. apply s_get_some in Hs. destruct Hs as (r & Hf & Hl & Hct).
  assert (Hlp : live_pred (c_kind ct) r = true).
  { unfold live_pred. rewrite Hl, Hct. apply ckind_eqb_refl. }
  destruct (unrecord_ok _ _ _ _ _ _ _ HRp HRw Hf Hlp) as (c1 & H1 & H2 & H3 & H4).
  unfold c_delete. rewrite H1. cbv beta iota delta [bind]. rewrite H2, Hc. eexists. split; [reflexivity|].
  split; [|split].
  - intros a' k'. specialize (H4 a' k'). destruct k'; exact H4.
  - split; intros a' id'; simpl; rewrite ?H2, ?H3.
    + destruct (Z.eq_dec a' a) as [->|Hna].
      * unfold s_delete, s_get. rewrite upd_same, s_find_modify by reflexivity.
        destruct (Z.eq_dec id' id) as [->|Hni].
        -- rewrite upd2_same, Z.eqb_refl, Hf. reflexivity.
        -- rewrite upd2_other_k by auto. rewrite HRc. unfold s_get.
           destruct (id' =? id) eqn:E; auto. apply Z.eqb_eq in E. congruence.
      * rewrite upd2_other_a by auto. unfold s_delete. rewrite s_get_upd_other by auto. apply HRc.
    + destruct (Z.eq_dec a' a) as [->|Hna].
      * unfold s_delete, s_tag. rewrite upd_same, s_find_modify by reflexivity.
        destruct (Z.eq_dec id' id) as [->|Hni].
        -- rewrite upd2_same, Z.eqb_refl, Hf. reflexivity.
        -- rewrite upd2_other_k by auto. rewrite HRt. unfold s_tag.
           destruct (id' =? id) eqn:E; auto. apply Z.eqb_eq in E. congruence.
      * rewrite upd2_other_a by auto. unfold s_delete. rewrite s_tag_upd_other by auto. apply HRt.
  - apply Rw_modify; auto.
Qed.

Lemma retarget_ok nx c s a id ct p :
  R nx c s -> ctrls c a id = Some ct ->
  exists c', c_retarget c a id ct p = Ok c' /\ R nx c' (s_retarget s a id p).
Proof.
  intros (HRp & [HRc HRt] & HRw) Hc.
  pose proof Hc as Hs. rewrite HRc in Hs. apply s_get_some in Hs. destruct Hs as (r & Hf & Hl & Hct).
  assert (Hlp : live_pred (c_kind ct) r = true).
  { unfold live_pred. rewrite Hl, Hct. apply ckind_eqb_refl. }
  destruct (unrecord_ok _ _ _ _ _ _ _ HRp HRw Hf Hlp) as (c1 & H1 & H2 & H3 & H4).
  set (s1 := upd s a (s_modify (s a) id unlive)) in *.
  assert (HRw1 : Rw nx s1) by (apply Rw_modify; auto).
  assert (Hf1 : s_find (s1 a) id = Some (unlive r)).
  { unfold s1. rewrite upd_same, s_find_modify by reflexivity. now rewrite Z.eqb_refl, Hf. }
  destruct (record_ok _ _ _ _ _ (KStorage p) _ H4 HRw1 Hf1 eq_refl) as (c2 & G1 & G2 & G3 & G4).
  unfold c_retarget. rewrite H1. cbv beta iota delta [bind]. rewrite G1. eexists. split; [reflexivity|].
  assert (Hs2 : forall a', upd s1 a (s_modify (s1 a) id (relive (KStorage p))) a' = s_retarget s a id p a').
  { intro a'. unfold s_retarget, s1. destruct (Z.eq_dec a' a) as [->|Hna].
    - rewrite !upd_same. rewrite s_modify_twice by reflexivity. apply s_modify_ext.
      intros r' Hr'. rewrite Hf in Hr'. inv Hr'. unfold relive, unlive. simpl. now rewrite Hl.
    - now rewrite !upd_other by auto. }
  split; [|split].
  - intros a' k'. pose proof (Rp_ext _ _ _ G4 Hs2 a' k') as G. destruct k'; exact G.
  - split; intros a' id'; simpl; rewrite ?G2, ?G3, ?H2, ?H3.
    + destruct (Z.eq_dec a' a) as [->|Hna].
      * unfold s_retarget, s_get. rewrite upd_same, s_find_modify by reflexivity.
        destruct (Z.eq_dec id' id) as [->|Hni].
        -- rewrite upd2_same, Z.eqb_refl, Hf. simpl. rewrite Hl. now rewrite Hct.
        -- rewrite upd2_other_k by auto. rewrite HRc. unfold s_get.
           destruct (id' =? id) eqn:E; auto. apply Z.eqb_eq in E. congruence.
      * rewrite upd2_other_a by auto. unfold s_retarget. rewrite s_get_upd_other by auto. apply HRc.
    + rewrite HRt. destruct (Z.eq_dec a' a) as [->|Hna].
      * unfold s_retarget, s_tag. rewrite upd_same, s_find_modify by reflexivity.
        destruct (id' =? id) eqn:E; auto. apply Z.eqb_eq in E. subst. rewrite Hf. reflexivity.
      * unfold s_retarget. now rewrite s_tag_upd_other by auto.
  - apply Rw_modify; auto.
Qed.

Lemma settag_ok nx c s a id ct t :
  R nx c s -> ctrls c a id = Some ct -> R nx (c_settag c a id t) (s_settag s a id t).
Proof.
  intros (HRp & [HRc HRt] & HRw) Hc.
  pose proof Hc as Hs. rewrite HRc in Hs. apply s_get_some in Hs. destruct Hs as (r & Hf & Hl & Hct).
  split; [|split].
  - intros a' k'. replace (caps_of (c_settag c a id t) a' k') with (caps_of c a' k') by (destruct k'; reflexivity).
    rewrite HRp. unfold s_settag. destruct (Z.eq_dec a' a) as [->|Hna].
    + rewrite s_list_upd_same. unfold s_list. symmetry. apply filter_modify_same; auto.
    + now rewrite s_list_upd_other by auto.
  - split; intros a' id'; simpl.
    + rewrite HRc. destruct (Z.eq_dec a' a) as [->|Hna].
      * unfold s_settag, s_get. rewrite upd_same, s_find_modify by reflexivity.
        destruct (id' =? id) eqn:E; auto. apply Z.eqb_eq in E. subst. rewrite Hf. reflexivity.
      * unfold s_settag. now rewrite s_get_upd_other by auto.
    + destruct (Z.eq_dec a' a) as [->|Hna].
      * unfold s_settag, s_tag. rewrite upd_same, s_find_modify by reflexivity.
        destruct (Z.eq_dec id' id) as [->|Hni].
        -- rewrite upd2_same, Z.eqb_refl, Hf. simpl. now rewrite Hl.
        -- rewrite upd2_other_k by auto. rewrite HRt. unfold s_tag.
           destruct (id' =? id) eqn:E; auto. apply Z.eqb_eq in E. congruence.
      * rewrite upd2_other_a by auto. unfold s_settag. rewrite s_tag_upd_other by auto. apply HRt.
  - apply Rw_modify; auto.
Qed.

(* ------------------------------------------------------------------ machine-level simulation *)
Definition Rg (g1 : gstate cstore) (g2 : gstate sstore) : Prop :=
  g_next g1 = g_next g2 /\ g_rs g1 = g_rs g2 /\ R (g_next g1) (g_cs g1) (g_cs g2).

Section ReadSim.
  Context {S1 S2 : Type} (I1 : impl S1) (I2 : impl S2) (s1 : S1) (s2 : S2).
  Hypothesis Hget : forall a id, i_get I1 s1 a id = i_get I2 s2 a id.

  Lemma fetch_sim a b id : fetch I1 s1 a b id = fetch I2 s2 a b id.
  Proof. unfold fetch. now rewrite Hget. Qed.
  Lemma checked_ctrl_sim c w : checked_ctrl I1 s1 c w = checked_ctrl I2 s2 c w.
  Proof. unfold checked_ctrl. now rewrite Hget. Qed.
  Lemma borrow_ctrl_sim rs c w : borrow_ctrl I1 s1 rs c w = borrow_ctrl I2 s2 rs c w.
  Proof. unfold borrow_ctrl. now rewrite checked_ctrl_sim. Qed.
  Lemma borrow_cap_sim rs c w : borrow_cap I1 s1 rs c w = borrow_cap I2 s2 rs c w.
  Proof. unfold borrow_cap. now rewrite borrow_ctrl_sim. Qed.
End ReadSim.

Lemma borrow_slot_sim nx c s rs a slot w typed :
  R nx c s ->
  borrow_slot code_impl (mkG nx c rs) a slot w typed = borrow_slot spec_impl (mkG nx s rs) a slot w typed.
Proof.
  intro HR. unfold borrow_slot. simpl. destruct (slots (rs a) slot); auto.
  rewrite !(borrow_cap_sim code_impl spec_impl c s); auto; intros; simpl; eapply Rc_get; eauto.
Qed.

Lemma fetch_code_some c a b id ct : fetch code_impl c a b id = Some ct -> ctrls c a id = Some ct.
Proof.
  unfold fetch. simpl. destruct (ctrls c a id) as [x|]; [|discriminate].
  destruct (same_kind (c_kind x) b); [|discriminate]. auto.
Qed.

Lemma step_sim g1 g2 o :
  Rg g1 g2 ->
  let '(r1, e1, g1') := step code_impl g1 o in
  let '(r2, e2, g2') := step spec_impl g2 o in
  r1 = r2 /\ e1 = e2 /\ Rg g1' g2'.
Proof.
  destruct g1 as [nx c rs], g2 as [nx2 s rs2]. unfold Rg. simpl. intros (<- & <- & HR).
  assert (Hget : forall a id, i_get code_impl c a id = i_get spec_impl s a id)
    by (intros; simpl; eapply Rc_get; eauto).
  pose proof (fetch_sim code_impl spec_impl c s Hget) as Hfetch.
  destruct o; unfold step; cbn [g_cs g_rs g_next].
  - (* OPut *) simpl. auto.
  - (* OTake *) simpl. auto.
  - (* OIssue *)
    destruct (issue_ok _ _ _ a (mkCtrl k bt) HR) as (c' & Hc & HR').
    cbn [i_issue code_impl spec_impl]. rewrite Hc. simpl. auto.
  - (* OGetCtrl *)
    rewrite Hfetch. destruct (fetch spec_impl s a isacct id); simpl; auto.
    rewrite (Rc_tag _ _ _ a id HR). auto.
  - (* OList *)
    cbn [i_list code_impl spec_impl]. rewrite (list_ok _ _ _ a k HR). simpl. auto.
  - (* ODelete *)
    rewrite <- Hfetch. destruct (fetch code_impl c a isacct id) as [ct|] eqn:E; simpl; auto.
    apply fetch_code_some in E. destruct (delete_ok _ _ _ _ _ _ HR E) as (c' & Hc & HR').
    rewrite Hc. simpl. auto.
  - (* ORetarget *)
    rewrite <- Hfetch. destruct (fetch code_impl c a false id) as [ct|] eqn:E; simpl; auto.
    apply fetch_code_some in E. destruct (retarget_ok _ _ _ _ _ _ p HR E) as (c' & Hc & HR').
    rewrite Hc. simpl. auto.
  - (* OSetTag *)
    rewrite <- Hfetch. destruct (fetch code_impl c a isacct id) as [ct|] eqn:E; simpl; auto.
    apply fetch_code_some in E. repeat (split; [reflexivity|]). eapply settag_ok; eauto.
  - (* OCtrlCap *)
    rewrite Hfetch. destruct (fetch spec_impl s a isacct id); simpl; auto.
  - (* OPublish *)
    destruct (slots (rs a) slot); simpl; auto.
    destruct (negb (cap_addr c0 =? a)); simpl; auto.
    destruct (pub (rs a) pp); simpl; auto.
  - (* OUnpublish *)
    destruct (pub (rs a) pp); simpl; auto.
  - (* OGet *)
    destruct (pub (rs tgt) pp); simpl; auto.
    rewrite !(checked_ctrl_sim code_impl spec_impl c s Hget). auto.
  - (* OBorrowPub *)
    destruct (pub (rs tgt) pp); simpl; auto.
    rewrite (borrow_ctrl_sim code_impl spec_impl c s Hget). auto.
  - (* OExists *) simpl. auto.
  - (* OCapBorrow *)
    rewrite (borrow_slot_sim _ _ _ _ _ _ _ _ HR). simpl. auto.
  - (* OCapCheck *)
    rewrite (borrow_slot_sim _ _ _ _ _ _ _ _ HR). simpl. auto.
  - (* OCapInfo *) simpl. auto.
  - (* OInboxPublish *)
    destruct (slots (rs a) slot); simpl; auto.
  - (* OInboxUnpublish *)
    destruct (inbox (rs a) name) as [[c0 r0]|]; simpl; auto.
    destruct (negb (ref_sub (cap_bt c0) w)); simpl; auto.
  - (* OInboxClaim *)
    destruct (inbox (rs prov) name) as [[c0 r0]|]; simpl; auto.
    destruct (negb (r0 =? a)); simpl; auto.
    destruct (negb (ref_sub (cap_bt c0) w)); simpl; auto.
  - (* OPanic *) simpl. auto.
Qed.

Lemma step_next_mono {S} (I : impl S) g o a :
  g_next g a <= g_next (snd (step I g o)) a.
Proof.
  destruct g as [nx s rs]. destruct o; simpl;
    repeat match goal with
           | |- context [match ?x with _ => _ end] => destruct x; simpl
           end; try lia.
  all: unfold upd; match goal with |- context [?x =? ?y] => destruct (x =? y) eqn:E end;
    try (apply Z.eqb_eq in E; subst); lia.
Qed.

Lemma run_ops_next_mono {S} (I : impl S) ops g a :
  g_next g a <= g_next (snd (fst (run_ops I g ops))) a.
Proof.
  revert g. induction ops as [|o r IH]; intro g; simpl; [lia|].
  pose proof (step_next_mono I g o a) as H1.
  destruct (step I g o) as [[res ev] g'] eqn:E. simpl in H1.
  destruct (is_fail res); simpl; [lia|].
  specialize (IH g'). destruct (run_ops I g' r) as [[[rs evs] g''] ok]. simpl in *. lia.
Qed.

Lemma run_ops_sim ops g1 g2 :
  Rg g1 g2 ->
  let '(rs1, ev1, g1', ok1) := run_ops code_impl g1 ops in
  let '(rs2, ev2, g2', ok2) := run_ops spec_impl g2 ops in
  rs1 = rs2 /\ ev1 = ev2 /\ ok1 = ok2 /\ Rg g1' g2'.
Proof.
  revert g1 g2. induction ops as [|o r IH]; intros g1 g2 HR; simpl; auto.
  pose proof (step_sim g1 g2 o HR) as Hs.
  destruct (step code_impl g1 o) as [[r1 e1] g1'].
  destruct (step spec_impl g2 o) as [[r2 e2] g2'].
  destruct Hs as (<- & <- & HR').
  destruct (is_fail r1); auto.
  specialize (IH _ _ HR').
  destruct (run_ops code_impl g1' r) as [[[rs1 ev1] h1] ok1].
  destruct (run_ops spec_impl g2' r) as [[[rs2 ev2] h2] ok2].
  destruct IH as (-> & -> & -> & HR''). auto.
Qed.

Definition nostale (t : tx) : Prop := tx_stale t = [].

Lemma run_tx_sim t g1 g2 :
  nostale t -> Rg g1 g2 ->
  fst (run_tx code_impl g1 t) = fst (run_tx spec_impl g2 t) /\
  Rg (snd (run_tx code_impl g1 t)) (snd (run_tx spec_impl g2 t)).
Proof.
  intros Hst HR. unfold run_tx.
  pose proof (run_ops_sim (tx_ops t) g1 g2 HR) as Hs.
  pose proof (run_ops_next_mono code_impl (tx_ops t) g1) as Hm.
  destruct (run_ops code_impl g1 (tx_ops t)) as [[[rs1 ev1] h1] ok1].
  destruct (run_ops spec_impl g2 (tx_ops t)) as [[[rs2 ev2] h2] ok2].
  destruct Hs as (-> & -> & -> & (Hn & Hr & HR')). simpl in Hm.
  destruct ok2; simpl.
  - split; auto. rewrite Hst. simpl. split; auto.
  - split; auto. destruct HR as (Hn0 & Hr0 & (HRp & HRc & HRw)). split; auto. split; auto.
    split; auto. split; auto. eapply Rw_mono; [|exact HRw]. exact Hm.
Qed.

Lemma run_sim h g1 g2 :
  Forall nostale h -> Rg g1 g2 ->
  fst (run code_impl g1 h) = fst (run spec_impl g2 h) /\
  Rg (snd (run code_impl g1 h)) (snd (run spec_impl g2 h)).
Proof.
  revert g1 g2. induction h as [|t r IH]; intros g1 g2 Hst HR; simpl; auto.
  inv Hst. destruct (run_tx_sim t g1 g2 H1 HR) as [He HR'].
  destruct (run_tx code_impl g1 t) as [o1 g1'].
  destruct (run_tx spec_impl g2 t) as [o2 g2'].
  simpl in *. subst. specialize (IH _ _ H2 HR').
  destruct (run code_impl g1' r) as [os1 h1].
  destruct (run spec_impl g2' r) as [os2 h2].
  simpl in *. destruct IH as [-> HR'']. auto.
Qed.

Lemma Rg0 : Rg (g0 cs0) (g0 ss0).
Proof.
  unfold Rg, g0. simpl. split; [reflexivity|split; [reflexivity|]].
  split; [|split].
  - intros a [p|]; reflexivity.
  - split; intros; reflexivity.
  - intro a. simpl. split; [lia|split; constructor].
Qed.

(* The code-shaped controller bookkeeping refines the controller specification: for every
   history (whose retargets were persisted), all per-operation results and all events agree. *)
Theorem refinement h : Forall nostale h -> run_code h = run_spec h.
Proof. intro H. unfold run_code, run_spec. apply (run_sim h _ _ H Rg0). Qed.

(* ------------------------------------------------------------------ no internal errors *)
Definition all_results (outs : list (list result * list event)) : list result := flat_map fst outs.

Lemma step_spec_no_internal g o : fst (fst (step spec_impl g o)) <> RFail FInternal.
Proof.
  destruct g as [nx s rs]. destruct o; simpl; unfold borrow_slot; simpl;
    repeat match goal with
           | |- context [match ?x with _ => _ end] => destruct x; simpl
           end; discriminate.
Qed.

Lemma run_ops_spec_no_internal ops g :
  ~ In (RFail FInternal) (fst (fst (fst (run_ops spec_impl g ops)))).
Proof.
  revert g. induction ops as [|o r IH]; intro g; simpl; auto.
  pose proof (step_spec_no_internal g o) as H.
  destruct (step spec_impl g o) as [[res ev] g']. simpl in H.
  destruct (is_fail res); simpl.
  - intros [E|[]]. congruence.
  - specialize (IH g'). destruct (run_ops spec_impl g' r) as [[[rs evs] g''] ok]. simpl in *.
    intros [E|E]; [congruence|auto].
Qed.

Lemma run_spec_no_internal h g : ~ In (RFail FInternal) (all_results (fst (run spec_impl g h))).
Proof.
  revert g. induction h as [|t r IH]; intro g; simpl; auto.
  unfold run_tx. pose proof (run_ops_spec_no_internal (tx_ops t) g) as H.
  destruct (run_ops spec_impl g (tx_ops t)) as [[[rs evs] g'] ok]. simpl in H.
  destruct ok.
  - specialize (IH (mkG (g_next g') (i_commit spec_impl (g_cs g) (g_cs g') (tx_stale t)) (g_rs g'))).
    destruct (run spec_impl _ r) as [os g'']. simpl in *. unfold all_results in *. simpl.
    intro Hin. apply in_app_or in Hin. tauto.
  - specialize (IH (mkG (g_next g') (g_cs g) (g_rs g))).
    destruct (run spec_impl _ r) as [os g'']. simpl in *. unfold all_results in *. simpl.
    intro Hin. apply in_app_or in Hin. tauto.
Qed.

Theorem no_internal h : Forall nostale h -> ~ In (RFail FInternal) (all_results (run_code h)).
Proof. intro H. rewrite (refinement h H). apply run_spec_no_internal. Qed.

(* ------------------------------------------------------------------ issued ids are fresh *)
Definition issued_by (a : Z) (o : op) (r : result) : list Z :=
  match o, r with
  | OIssue a' _ _ _, RId id => if a' =? a then [id] else []
  | _, _ => []
  end.
Fixpoint issued_in (a : Z) (ops : list op) (rs : list result) : list Z :=
  match ops, rs with
  | o :: ops', r :: rs' => issued_by a o r ++ issued_in a ops' rs'
  | _, _ => []
  end.
Fixpoint issued_hist (a : Z) (h : list tx) (outs : list (list result * list event)) : list Z :=
  match h, outs with
  | t :: h', o :: outs' => issued_in a (tx_ops t) (fst o) ++ issued_hist a h' outs'
  | _, _ => []
  end.

Definition chain (lo : Z) (l : list Z) (hi : Z) : Prop :=
  incr_above lo l /\ lo <= hi /\ (forall x, In x l -> x <= hi).

Lemma chain_nil lo hi : lo <= hi -> chain lo [] hi.
Proof. intro H. repeat split; simpl; auto. tauto. Qed.

Lemma incr_above_app lo l1 mid l2 :
  incr_above lo l1 -> lo <= mid -> (forall x, In x l1 -> x <= mid) -> incr_above mid l2 ->
  incr_above lo (l1 ++ l2).
Proof.
  revert lo. induction l1 as [|x r IH]; simpl; intros lo A1 A2 A3 B1.
  - eapply incr_above_weaken; eauto.
  - destruct A1 as [H1 H2]. split; [exact H1|]. apply IH; auto; apply A3; now left.
Qed.

Lemma chain_app lo l1 mid l2 hi : chain lo l1 mid -> chain mid l2 hi -> chain lo (l1 ++ l2) hi.
Proof.
  intros (A1 & A2 & A3) (B1 & B2 & B3). repeat split.
  - eapply incr_above_app; eauto.
  - lia.
  - intros x Hx. apply in_app_or in Hx. destruct Hx as [Hx|Hx]; auto. specialize (A3 _ Hx). lia.
Qed.

Lemma step_chain {S} (I : impl S) g o a :
  let '(r, _, g') := step I g o in chain (g_next g a) (issued_by a o r) (g_next g' a).
Proof.
  pose proof (step_next_mono I g o a) as Hm.
  destruct (step I g o) as [[r ev] g'] eqn:E. simpl in Hm.
  destruct o; try (destruct r; simpl; apply chain_nil; exact Hm).
  (* OIssue *)
  destruct g as [nx s rs]. simpl in E.
  destruct (i_issue I s a0 (nx a0 + 1) (mkCtrl k bt)); inv E; simpl.
  - destruct (a0 =? a) eqn:Ea.
    + apply Z.eqb_eq in Ea. subst. rewrite upd_same. repeat split; simpl; try lia.
      all: try (intros x [<-|[]]; lia).
    + apply chain_nil. simpl in Hm. exact Hm.
  - apply chain_nil. exact Hm.
Qed.

Lemma issued_in_nil a ops : issued_in a ops [] = [].
Proof. destruct ops; reflexivity. Qed.

Lemma run_ops_chain {S} (I : impl S) ops g a :
  let '(rs, _, g', _) := run_ops I g ops in chain (g_next g a) (issued_in a ops rs) (g_next g' a).
Proof.
  revert g. induction ops as [|o r IH]; intro g; simpl.
  - apply chain_nil. lia.
  - pose proof (step_chain I g o a) as H1.
    destruct (step I g o) as [[res ev] g'].
    destruct (is_fail res); simpl.
    + rewrite issued_in_nil, app_nil_r. exact H1.
    + specialize (IH g'). destruct (run_ops I g' r) as [[[rs evs] g''] ok]. simpl.
      eapply chain_app; eauto.
Qed.

Lemma run_chain {S} (I : impl S) h g a :
  let '(outs, g') := run I g h in chain (g_next g a) (issued_hist a h outs) (g_next g' a).
Proof.
  revert g. induction h as [|t r IH]; intro g; simpl.
  - apply chain_nil. lia.
  - unfold run_tx. pose proof (run_ops_chain I (tx_ops t) g a) as H1.
    destruct (run_ops I g (tx_ops t)) as [[[rs evs] g'] ok].
    destruct ok.
    + specialize (IH (mkG (g_next g') (i_commit I (g_cs g) (g_cs g') (tx_stale t)) (g_rs g'))).
      destruct (run I _ r) as [os g'']. simpl in *. eapply chain_app; eauto.
    + specialize (IH (mkG (g_next g') (g_cs g) (g_rs g))).
      destruct (run I _ r) as [os g'']. simpl in *. eapply chain_app; eauto.
Qed.

(* ids issued for an account are positive and strictly increasing along the whole history,
   failed transactions included *)
Theorem ids_fresh h a : incr_above 0 (issued_hist a h (run_code h)).
Proof.
  unfold run_code. pose proof (run_chain code_impl h (g0 cs0) a) as H.
  destruct (run code_impl (g0 cs0) h) as [outs g']. simpl in *. apply H.
Qed.

(* ------------------------------------------------------------------ listings are exact *)
(* invariant of the code-shaped machine: its store is the image of some specification store *)
Definition inv (g : gstate cstore) : Prop := exists s, R (g_next g) (g_cs g) s.

Lemma inv0 : inv (g0 cs0).
Proof. exists ss0. destruct Rg0 as (_ & _ & H). exact H. Qed.

Lemma step_inv g o : inv g -> inv (snd (step code_impl g o)).
Proof.
  intros [s HR].
  assert (HRg : Rg g (mkG (g_next g) s (g_rs g))) by (split; [reflexivity|split; [reflexivity|exact HR]]).
  pose proof (step_sim g (mkG (g_next g) s (g_rs g)) o HRg) as H.
  destruct (step code_impl g o) as [[r1 e1] g1'].
  destruct (step spec_impl _ o) as [[r2 e2] g2'].
  destruct H as (_ & _ & (_ & _ & HR')).
  exists (g_cs g2'). exact HR'.
Qed.

Lemma run_ops_inv ops g : inv g -> inv (snd (fst (run_ops code_impl g ops))).
Proof.
  revert g. induction ops as [|o r IH]; intros g Hi; simpl; auto.
  pose proof (step_inv g o Hi) as H1.
  destruct (step code_impl g o) as [[res ev] g']. simpl in H1.
  destruct (is_fail res); simpl; auto.
  specialize (IH g' H1). destruct (run_ops code_impl g' r) as [[[rs evs] g''] ok]. exact IH.
Qed.

Lemma run_inv h g : Forall nostale h -> inv g -> inv (snd (run code_impl g h)).
Proof.
  revert g. induction h as [|t r IH]; intros g Hst [s HR]; simpl; [now exists s|].
  inv Hst.
  assert (HRg : Rg g (mkG (g_next g) s (g_rs g))) by (split; [reflexivity|split; [reflexivity|exact HR]]).
  destruct (run_tx_sim t g (mkG (g_next g) s (g_rs g)) H1 HRg) as [_ HR'].
  destruct (run_tx code_impl g t) as [o1 g1']. simpl in HR'.
  assert (Hi : inv g1') by (destruct HR' as (_ & _ & HR'); eexists; exact HR').
  specialize (IH g1' H2 Hi). destruct (run code_impl g1' r) as [os g'']. exact IH.
Qed.

(* the state reached by a history followed by the first operations of a further transaction *)
Definition state_after (h : list tx) (ops : list op) : gstate cstore :=
  snd (fst (run_ops code_impl (snd (run code_impl (g0 cs0) h)) ops)).

Lemma state_after_inv h ops : Forall nostale h -> inv (state_after h ops).
Proof. intro H. apply run_ops_inv, run_inv; auto. apply inv0. Qed.

Definition is_target (g : gstate cstore) (a id : Z) (k : ckind) : Prop :=
  exists ct, ctrls (g_cs g) a id = Some ct /\ c_kind ct = k.

Lemma list_exact g a k :
  inv g ->
  exists l, c_list (g_cs g) a k = Ok l /\
            (forall id, In id l <-> is_target g a id k) /\ incr_above 0 l.
Proof.
  intros [s HR]. exists (s_list s a k). split; [eapply list_ok; eauto|]. split.
  - intro id. split; [eapply s_list_live; eauto|].
    intros (ct & Hc & Hk). pose proof HR as (_ & [HRc _] & HRw). destruct (HRw a) as (_ & Hinc & _).
    rewrite HRc in Hc. apply s_get_some in Hc. destruct Hc as (r & Hf & Hl & Hct).
    apply zmem_In. unfold s_list. erewrite zmem_filter by eauto. rewrite Hf.
    unfold live_pred. rewrite Hl, Hct, Hk. apply ckind_eqb_refl.
  - pose proof HR as (_ & _ & HRw). destruct (HRw a) as (_ & Hinc & _).
    unfold s_list. now apply inc_recs_filter.
Qed.

(* getControllers(forPath:) / forEachController / their account counterparts report exactly the
   live controllers of the target, after every history and at every point of a transaction *)
Theorem controllers_exact h ops a k m :
  Forall nostale h -> m <> LEachStop ->
  let g := state_after h ops in
  exists l, fst (fst (step code_impl g (OList a k m))) = RIds l /\
            (forall id, In id l <-> is_target g a id k) /\ incr_above 0 l.
Proof.
  intros Hst Hm g. destruct (list_exact g a k (state_after_inv h ops Hst)) as (l & Hl & H1 & H2).
  exists l. split; auto. destruct g as [nx c rs]. simpl in *. rewrite Hl. destruct m; auto. congruence.
Qed.

(* ------------------------------------------------------------------ retarget moves the controller *)
Lemma c_record_ctrls c a id k c' : c_record c a id k = Ok c' -> ctrls c' = ctrls c /\ tags c' = tags c.
Proof. destruct k; simpl; destruct (zmem id _); intro H; inv H; auto. Qed.
Lemma c_unrecord_ctrls c a id k c' : c_unrecord c a id k = Ok c' -> ctrls c' = ctrls c /\ tags c' = tags c.
Proof. destruct k; simpl; destruct (zmem id _); intro H; inv H; auto. Qed.

Lemma c_retarget_ctrls c a id ct p c' :
  c_retarget c a id ct p = Ok c' ->
  ctrls c' = upd2 (ctrls c) a id (Some (mkCtrl (KStorage p) (c_bt ct))).
Proof.
  unfold c_retarget. destruct (c_unrecord c a id (c_kind ct)) as [c1|] eqn:E1; [|discriminate].
  cbv beta iota delta [bind]. destruct (c_record c1 a id (KStorage p)) as [c2|] eqn:E2; [|discriminate].
  intro H. inv H. simpl. apply c_unrecord_ctrls in E1. apply c_record_ctrls in E2.
  destruct E1 as [E1 _], E2 as [E2 _]. rewrite E2, E1. reflexivity.
Qed.

Theorem retarget_moves g a id ct p :
  inv g -> fetch code_impl (g_cs g) a false id = Some ct ->
  let '(r, ev, g') := step code_impl g (ORetarget a id p) in
  r = RUnit /\ ev = [EvTarget id a p] /\ inv g' /\
  is_target g' a id (KStorage p) /\
  (forall q, q <> p -> ~ is_target g' a id (KStorage q)) /\
  (forall a' id' k, (a', id') <> (a, id) -> is_target g' a' id' k <-> is_target g a' id' k).
Proof.
  intros Hi Hf. pose proof (step_inv g (ORetarget a id p) Hi) as Hi'.
  destruct g as [nx c rs]. simpl in *. rewrite Hf in Hi' |- *.
  pose proof (fetch_code_some _ _ _ _ _ Hf) as Hc. destruct Hi as [s HR].
  simpl in HR. destruct (retarget_ok _ _ _ _ _ _ p HR Hc) as (c' & Hr & _). rewrite Hr in Hi' |- *. simpl in *.
  apply c_retarget_ctrls in Hr.
  split; auto. split; auto. split; auto. unfold is_target. simpl. rewrite Hr. split; [|split].
  - eexists. rewrite upd2_same. split; reflexivity.
  - intros q Hq (ct' & H1 & H2). rewrite upd2_same in H1. inv H1. simpl in H2. congruence.
  - intros a' id' k Hne.
    assert (upd2 (ctrls c) a id (Some (mkCtrl (KStorage p) (c_bt ct))) a' id' = ctrls c a' id') as ->; [|tauto].
    destruct (Z.eq_dec a' a) as [->|Hna]; [|now apply upd2_other_a].
    apply upd2_other_k. congruence.
Qed.

(* ------------------------------------------------------------------ deleted controllers stay deleted *)
(* (these facts hold for every history, stale marks included) *)
Definition dead (g : gstate cstore) (a id : Z) : Prop :=
  ctrls (g_cs g) a id = None /\ id <= g_next g a.
Definition bounded (g : gstate cstore) : Prop :=
  forall a id ct, ctrls (g_cs g) a id = Some ct -> id <= g_next g a.

Lemma c_issue_ctrls c a id ct c' :
  c_issue c a id ct = Ok c' -> ctrls c' = upd2 (ctrls c) a id (Some ct).
Proof.
  unfold c_issue. destruct (ctrls c a id); [discriminate|]. intro H.
  apply c_record_ctrls in H. destruct H as [H _]. exact H.
Qed.
Lemma c_delete_ctrls c a id ct c' :
  c_delete c a id ct = Ok c' -> ctrls c' = upd2 (ctrls c) a id None.
Proof.
  unfold c_delete. destruct (c_unrecord c a id (c_kind ct)) as [c1|] eqn:E1; [|discriminate].
  cbv beta iota delta [bind]. destruct (ctrls c1 a id); [|discriminate]. intro H. inv H. simpl.
  apply c_unrecord_ctrls in E1. destruct E1 as [E1 _]. now rewrite E1.
Qed.

(* how one step changes the controller map *)
Lemma step_ctrls g o a id :
  let g' := snd (step code_impl g o) in
  ctrls (g_cs g') a id = ctrls (g_cs g) a id \/
  (exists k bt slot, o = OIssue a k bt slot /\ id = g_next g a + 1 /\ g_next g' a = id) \/
  (exists b, o = ODelete a b id /\ ctrls (g_cs g') a id = None) \/
  (exists p ct, o = ORetarget a id p /\ ctrls (g_cs g) a id = Some ct /\
                ctrls (g_cs g') a id = Some (mkCtrl (KStorage p) (c_bt ct))).
Proof.
  destruct g as [nx c rs]. destruct o; simpl; auto.
  - (* OIssue *)
    destruct (c_issue c a0 (nx a0 + 1) (mkCtrl k bt)) as [c'|] eqn:E; simpl; auto.
    apply c_issue_ctrls in E. rewrite E.
    destruct (Z.eq_dec a a0) as [->|Hna]; [|left; now apply upd2_other_a].
    destruct (Z.eq_dec id (nx a0 + 1)) as [->|Hni]; [|left; now apply upd2_other_k].
    right. left. exists k, bt, slot. rewrite upd_same. auto.
  - destruct (fetch code_impl c a0 isacct id0); simpl; auto.
  - destruct (c_list c a0 k); simpl; auto.
  - (* ODelete *)
    destruct (fetch code_impl c a0 isacct id0) as [ct|]; simpl; auto.
    destruct (c_delete c a0 id0 ct) as [c'|] eqn:E; simpl; auto.
    apply c_delete_ctrls in E. rewrite E.
    destruct (Z.eq_dec a a0) as [->|Hna]; [|left; now apply upd2_other_a].
    destruct (Z.eq_dec id id0) as [->|Hni]; [|left; now apply upd2_other_k].
    right. right. left. exists isacct. rewrite upd2_same. auto.
  - (* ORetarget *)
    destruct (fetch code_impl c a0 false id0) as [ct|] eqn:Ef; simpl; auto.
    destruct (c_retarget c a0 id0 ct p) as [c'|] eqn:E; simpl; auto.
    apply c_retarget_ctrls in E. rewrite E.
    destruct (Z.eq_dec a a0) as [->|Hna]; [|left; now apply upd2_other_a].
    destruct (Z.eq_dec id id0) as [->|Hni]; [|left; now apply upd2_other_k].
    right. right. right. exists p, ct. rewrite upd2_same. apply fetch_code_some in Ef. auto.
  - destruct (fetch code_impl c a0 isacct id0); simpl; auto.
  - destruct (fetch code_impl c a0 isacct id0); simpl; auto.
  - destruct (slots (rs a0) slot); simpl; auto. destruct (negb (cap_addr c0 =? a0)); simpl; auto.
    destruct (pub (rs a0) pp); simpl; auto.
  - destruct (pub (rs a0) pp); simpl; auto.
  - destruct (slots (rs a0) slot); simpl; auto.
  - destruct (inbox (rs a0) name) as [[c0 r0]|]; simpl; auto.
    destruct (negb (ref_sub (cap_bt c0) w)); simpl; auto.
  - destruct (inbox (rs prov) name) as [[c0 r0]|]; simpl; auto.
    destruct (negb (r0 =? a0)); simpl; auto. destruct (negb (ref_sub (cap_bt c0) w)); simpl; auto.
Qed.

Lemma step_dead g o a id : dead g a id -> dead (snd (step code_impl g o)) a id.
Proof.
  intros [Hd Hb]. pose proof (step_next_mono code_impl g o a) as Hm.
  split; [|lia].
  destruct (step_ctrls g o a id) as [H|[H|[H|H]]].
  - now rewrite H.
  - destruct H as (k & bt & slot & _ & Hid & _). lia.
  - destruct H as (b & _ & H). exact H.
  - destruct H as (p & ct & _ & H & _). congruence.
Qed.

Lemma step_bounded g o : bounded g -> bounded (snd (step code_impl g o)).
Proof.
  intros Hb a id ct Hc. pose proof (step_next_mono code_impl g o a) as Hm.
  destruct (step_ctrls g o a id) as [H|[H|[H|H]]].
  - rewrite H in Hc. specialize (Hb _ _ _ Hc). lia.
  - destruct H as (k & bt & slot & _ & _ & Hid). lia.
  - destruct H as (b & _ & H). congruence.
  - destruct H as (p & ct' & _ & H & _). specialize (Hb _ _ _ H). lia.
Qed.

Lemma run_ops_dead ops g a id : dead g a id -> dead (snd (fst (run_ops code_impl g ops))) a id.
Proof.
  revert g. induction ops as [|o r IH]; intros g Hd; simpl; auto.
  pose proof (step_dead g o a id Hd) as H1.
  destruct (step code_impl g o) as [[res ev] g']. simpl in H1.
  destruct (is_fail res); simpl; auto.
  specialize (IH g' H1). destruct (run_ops code_impl g' r) as [[[rs evs] g''] ok]. exact IH.
Qed.
Lemma run_ops_bounded ops g : bounded g -> bounded (snd (fst (run_ops code_impl g ops))).
Proof.
  revert g. induction ops as [|o r IH]; intros g Hd; simpl; auto.
  pose proof (step_bounded g o Hd) as H1.
  destruct (step code_impl g o) as [[res ev] g']. simpl in H1.
  destruct (is_fail res); simpl; auto.
  specialize (IH g' H1). destruct (run_ops code_impl g' r) as [[[rs evs] g''] ok]. exact IH.
Qed.

Lemma c_commit_ctrls pre cur st a id :
  ctrls (c_commit pre cur st) a id = ctrls cur a id \/
  (exists x y, ctrls cur a id = Some x /\ ctrls (c_commit pre cur st) a id = Some y).
Proof.
  induction st as [|[a0 id0] r IH]; simpl; auto.
  destruct (ctrls (c_commit pre cur r) a0 id0) as [x|] eqn:E1; auto.
  destruct (ctrls pre a0 id0) as [old|] eqn:E2; auto. simpl.
  destruct (Z.eq_dec a a0) as [->|Hna]; [|rewrite upd2_other_a by auto; exact IH].
  destruct (Z.eq_dec id id0) as [->|Hni]; [|rewrite upd2_other_k by auto; exact IH].
  rewrite upd2_same. destruct IH as [IH|(x' & y & Hx & Hy)].
  - right. rewrite IH in E1. eauto.
  - right. eauto.
Qed.

Lemma run_tx_dead t g a id : dead g a id -> dead (snd (run_tx code_impl g t)) a id.
Proof.
  intros Hd. unfold run_tx. pose proof (run_ops_dead (tx_ops t) g a id Hd) as H.
  pose proof (run_ops_next_mono code_impl (tx_ops t) g a) as Hm.
  destruct (run_ops code_impl g (tx_ops t)) as [[[rs evs] g'] ok]. simpl in *.
  destruct H as [H1 H2]. destruct Hd as [D1 D2]. destruct ok; split; simpl; auto; try lia.
  destruct (c_commit_ctrls (g_cs g) (g_cs g') (tx_stale t) a id) as [E|(x & y & E & _)]; congruence.
Qed.
Lemma run_tx_bounded t g : bounded g -> bounded (snd (run_tx code_impl g t)).
Proof.
  intros Hb. unfold run_tx. pose proof (run_ops_bounded (tx_ops t) g Hb) as H.
  pose proof (run_ops_next_mono code_impl (tx_ops t) g) as Hm.
  destruct (run_ops code_impl g (tx_ops t)) as [[[rs evs] g'] ok]. simpl in *.
  destruct ok; intros a id ct Hc; simpl in *.
  - destruct (c_commit_ctrls (g_cs g) (g_cs g') (tx_stale t) a id) as [E|(x & y & E & _)].
    + rewrite E in Hc. eapply H; eauto.
    + eapply H; eauto.
  - specialize (Hb _ _ _ Hc). specialize (Hm a). lia.
Qed.

Lemma run_dead h g a id : dead g a id -> dead (snd (run code_impl g h)) a id.
Proof.
  revert g. induction h as [|t r IH]; intros g Hd; simpl; auto.
  pose proof (run_tx_dead t g a id Hd) as H. destruct (run_tx code_impl g t) as [o g'].
  specialize (IH g' H). destruct (run code_impl g' r) as [os g'']. exact IH.
Qed.
Lemma run_bounded h g : bounded g -> bounded (snd (run code_impl g h)).
Proof.
  revert g. induction h as [|t r IH]; intros g Hd; simpl; auto.
  pose proof (run_tx_bounded t g Hd) as H. destruct (run_tx code_impl g t) as [o g'].
  specialize (IH g' H). destruct (run code_impl g' r) as [os g'']. exact IH.
Qed.

Lemma state_after_bounded h ops : bounded (state_after h ops).
Proof. apply run_ops_bounded, run_bounded. intros a id ct H. discriminate. Qed.

(* a successful delete makes the controller dead ... *)
Theorem delete_makes_dead h ops a b id :
  let g := state_after h ops in
  fst (fst (step code_impl g (ODelete a b id))) = RUnit ->
  dead (snd (step code_impl g (ODelete a b id))) a id.
Proof.
  intros g Hr. pose proof (state_after_bounded h ops) as Hb. fold g in Hb.
  pose proof (step_next_mono code_impl g (ODelete a b id) a) as Hm.
  destruct g as [nx c rs]. simpl in *.
  destruct (fetch code_impl c a b id) as [ct|] eqn:Ef; simpl in *; [|discriminate].
  destruct (c_delete c a id ct) as [c'|] eqn:E; simpl in *; [|discriminate].
  apply c_delete_ctrls in E. split; simpl.
  - rewrite E. apply upd2_same.
  - apply fetch_code_some in Ef. eapply (Hb a id); eauto.
Qed.

(* ... dead controllers never come back (ids are not reused) ... *)
Theorem dead_forever g a id :
  dead g a id ->
  (forall ops, dead (snd (fst (run_ops code_impl g ops))) a id) /\
  (forall h, dead (snd (run code_impl g h)) a id).
Proof. intro H. split; intros; [now apply run_ops_dead|now apply run_dead]. Qed.

(* ... and no capability naming a dead controller can be borrowed, checked or obtained *)
Theorem dead_no_borrow g a id c w :
  dead g a id -> cap_addr c = a -> cap_id c = id ->
  borrow_ctrl code_impl (g_cs g) (g_rs g) c w = false /\
  borrow_cap code_impl (g_cs g) (g_rs g) c w = false /\
  checked_ctrl code_impl (g_cs g) c w = None.
Proof.
  intros [Hd _] <- <-.
  assert (H : checked_ctrl code_impl (g_cs g) c w = None).
  { unfold checked_ctrl. simpl. rewrite Hd. now destruct w as [w|]; [destruct (negb (can_borrow w (cap_bt c)))|]. }
  unfold borrow_cap, borrow_ctrl. rewrite H. repeat split. now destruct (cap_id c =? 0).
Qed.

(* ------------------------------------------------------------------ the borrow rule *)
(* the rule of the property text, declaratively *)
Definition related (x y : base) : Prop := base_sub x y = true \/ base_sub y x = true.

Definition target_ok (rs : Z -> rest) (addr : Z) (ct : ctrl) (w : bty) : Prop :=
  match c_kind ct with
  | KAccount => True
  | KStorage p => exists v, store (rs addr) p = Some v /\ base_sub (val_base v) (snd w) = true
  end.

Definition borrow_rule {S} (I : impl S) (s : S) (rs : Z -> rest) (c : cap) (w : bty) : Prop :=
  exists ct,
    i_get I s (cap_addr c) (cap_id c) = Some ct /\                  (* controller is live *)
    permits (fst w) (fst (cap_bt c)) = true /\                      (* no stronger than the capability *)
    permits (fst w) (fst (c_bt ct)) = true /\                       (* no stronger than the controller *)
    related (snd w) (snd (cap_bt c)) /\ related (snd w) (snd (c_bt ct)) /\
    target_ok rs (cap_addr c) ct w.                                 (* stored value is a subtype *)

Lemma can_borrow_iff w b :
  can_borrow w b = true <-> permits (fst w) (fst b) = true /\ related (snd w) (snd b).
Proof.
  unfold can_borrow, related. destruct (permits (fst w) (fst b)); simpl.
  - rewrite Bool.orb_true_iff. tauto.
  - split; [discriminate|]. intros [H _]. discriminate.
Qed.

Lemma deref_iff rs addr ct w : deref rs addr ct w = true <-> target_ok rs addr ct w.
Proof.
  unfold deref, target_ok. destruct (c_kind ct) as [p|]; [|tauto].
  destruct (store (rs addr) p) as [v|].
  - split; [eauto|]. intros (v' & H & H'). inv H. exact H'.
  - split; [discriminate|]. intros (v' & H & _). discriminate.
Qed.

Theorem borrow_iff_rule {S} (I : impl S) s rs c w :
  borrow_ctrl I s rs c (Some w) = true <-> borrow_rule I s rs c w.
Proof.
  unfold borrow_ctrl, checked_ctrl, borrow_rule.
  destruct (can_borrow w (cap_bt c)) eqn:E1; simpl.
  - destruct (i_get I s (cap_addr c) (cap_id c)) as [ct|].
    + destruct (can_borrow w (c_bt ct)) eqn:E2; simpl.
      * apply can_borrow_iff in E1, E2. rewrite deref_iff. split.
        -- intro H. exists ct. tauto.
        -- intros (ct' & H & _ & _ & _ & _ & Ht). inv H. exact Ht.
      * split; [discriminate|]. intros (ct' & H & _ & H2 & _ & H4 & _). inv H.
        assert (can_borrow w (c_bt ct') = true) by (apply can_borrow_iff; auto). congruence.
    + split; [discriminate|]. intros (ct' & H & _). discriminate.
  - split; [discriminate|]. intros (ct' & _ & H1 & _ & H3 & _).
    assert (can_borrow w (cap_bt c) = true) by (apply can_borrow_iff; auto). congruence.
Qed.

(* capability.borrow<T>() / check<T>() succeed exactly under the rule (and never for the
   invalid capability id 0) *)
Theorem cap_borrow_iff_rule {S} (I : impl S) s rs c w :
  borrow_cap I s rs c (Some w) = true <-> cap_id c <> 0 /\ borrow_rule I s rs c w.
Proof.
  unfold borrow_cap. destruct (cap_id c =? 0) eqn:E.
  - apply Z.eqb_eq in E. split; [discriminate|]. tauto.
  - apply Z.eqb_neq in E. rewrite borrow_iff_rule. tauto.
Qed.

(* ------------------------------------------------------------------ public paths *)
(* capabilities.borrow<T>(path): only a currently published capability, under the same rule *)
Theorem borrow_pub_rule {S} (I : impl S) g tgt pp w :
  fst (fst (step I g (OBorrowPub tgt pp w))) = RBool true <->
  exists c, pub (g_rs g tgt) pp = Some c /\ borrow_rule I (g_cs g) (g_rs g) c w.
Proof.
  destruct g as [nx s rs]. simpl. destruct (pub (rs tgt) pp) as [c|].
  - split.
    + intro H. exists c. split; auto. apply borrow_iff_rule. now inv H.
    + intros (c' & H & Hr). inv H. apply borrow_iff_rule in Hr. now rewrite Hr.
  - split; [discriminate|]. intros (c' & H & _). discriminate.
Qed.

(* capabilities.get<T>(path): a valid capability comes only from a published one with a live
   controller and compatible types; it carries the requested type *)
Theorem get_pub_rule {S} (I : impl S) g a tgt pp w slot c' :
  fst (fst (step I g (OGet a tgt pp w slot))) = RCap c' ->
  (cap_id c' = 0 /\ cap_addr c' = tgt /\ cap_bt c' = w) \/
  (exists c ct, pub (g_rs g tgt) pp = Some c /\ c' = mkCap (cap_id c) (cap_addr c) w /\
                i_get I (g_cs g) (cap_addr c) (cap_id c) = Some ct /\
                can_borrow w (cap_bt c) = true /\ can_borrow w (c_bt ct) = true).
Proof.
  destruct g as [nx s rs]. simpl. intro H. inv H.
  destruct (pub (rs tgt) pp) as [c|]; [|left; auto].
  unfold checked_ctrl. destruct (can_borrow w (cap_bt c)) eqn:E1; simpl; [|left; auto].
  destruct (i_get I s (cap_addr c) (cap_id c)) as [ct|] eqn:E2; [|left; auto].
  destruct (can_borrow w (c_bt ct)) eqn:E3; simpl; [|left; auto].
  right. exists c, ct. auto.
Qed.

Lemma pub_set_store rs a k v a' : pub (set_store rs a k v a') = pub (rs a').
Proof. unfold set_store, upd. now destruct (a' =? a) eqn:E; [apply Z.eqb_eq in E; subst|]. Qed.
Lemma pub_set_slot rs a k v a' : pub (set_slot rs a k v a') = pub (rs a').
Proof. unfold set_slot, upd. now destruct (a' =? a) eqn:E; [apply Z.eqb_eq in E; subst|]. Qed.
Lemma pub_set_inbox rs a k v a' : pub (set_inbox rs a k v a') = pub (rs a').
Proof. unfold set_inbox, upd. now destruct (a' =? a) eqn:E; [apply Z.eqb_eq in E; subst|]. Qed.
Lemma inbox_set_store rs a k v a' : inbox (set_store rs a k v a') = inbox (rs a').
Proof. unfold set_store, upd. now destruct (a' =? a) eqn:E; [apply Z.eqb_eq in E; subst|]. Qed.
Lemma inbox_set_slot rs a k v a' : inbox (set_slot rs a k v a') = inbox (rs a').
Proof. unfold set_slot, upd. now destruct (a' =? a) eqn:E; [apply Z.eqb_eq in E; subst|]. Qed.
Lemma inbox_set_pub rs a k v a' : inbox (set_pub rs a k v a') = inbox (rs a').
Proof. unfold set_pub, upd. now destruct (a' =? a) eqn:E; [apply Z.eqb_eq in E; subst|]. Qed.
Lemma pub_set_pub rs a k v a' k' :
  pub (set_pub rs a k v a') k' = if (a' =? a) && (k' =? k) then v else pub (rs a') k'.
Proof.
  unfold set_pub, upd. destruct (a' =? a) eqn:E; simpl; auto.
  apply Z.eqb_eq in E. subst. now destruct (k' =? k).
Qed.
Lemma inbox_set_inbox rs a k v a' k' :
  inbox (set_inbox rs a k v a') k' = if (a' =? a) && (k' =? k) then v else inbox (rs a') k'.
Proof.
  unfold set_inbox, upd. destruct (a' =? a) eqn:E; simpl; auto.
  apply Z.eqb_eq in E. subst. now destruct (k' =? k).
Qed.

(* what is published at a public path changes only by publish (from empty, a capability of the
   account itself, taken from one of its slots) and unpublish of that account and path *)
Theorem pub_frame {S} (I : impl S) g o a pp :
  let g' := snd (step I g o) in
  pub (g_rs g' a) pp = pub (g_rs g a) pp \/
  (exists slot c, o = OPublish a slot pp /\ slots (g_rs g a) slot = Some c /\ cap_addr c = a /\
                  pub (g_rs g a) pp = None /\ pub (g_rs g' a) pp = Some c) \/
  (exists slot, o = OUnpublish a pp slot /\ pub (g_rs g' a) pp = None).
Proof.
  destruct g as [nx s rs]. destruct o; simpl;
    repeat match goal with
           | |- context [match ?x with _ => _ end] => destruct x eqn:?; simpl
           end;
    rewrite ?pub_set_store, ?pub_set_slot, ?pub_set_inbox; auto.
  - (* OPublish *)
    rewrite pub_set_pub. destruct (a =? a0) eqn:Ea; simpl; auto.
    destruct (pp =? pp0) eqn:Ep; simpl; auto.
    apply Z.eqb_eq in Ea, Ep. subst. right. left. exists slot, c.
    rewrite ?pub_set_pub, ?Z.eqb_refl. simpl.
    match goal with H : negb (_ =? _) = false |- _ => apply Bool.negb_false_iff, Z.eqb_eq in H end.
    auto.
  - (* OUnpublish *)
    rewrite pub_set_pub. destruct (a =? a0) eqn:Ea; simpl; auto.
    destruct (pp =? pp0) eqn:Ep; simpl; auto.
    apply Z.eqb_eq in Ea, Ep. subst. right. right. exists slot.
    now rewrite ?pub_set_slot, ?pub_set_pub, ?Z.eqb_refl.
Qed.

(* ------------------------------------------------------------------ inbox *)
(* a claim returns a value only if that provider published it under that name for the claimer;
   it returns that value (at the requested authorization) and removes it: a second claim finds
   nothing *)
Theorem claim_exact {S} (I : impl S) g a name prov w slot c' :
  fst (fst (step I g (OInboxClaim a name prov w slot))) = RCap c' ->
  let g' := snd (step I g (OInboxClaim a name prov w slot)) in
  exists c, inbox (g_rs g prov) name = Some (c, a) /\ ref_sub (cap_bt c) w = true /\
            c' = conv_cap c w /\
            inbox (g_rs g' prov) name = None /\
            forall w' slot', fst (fst (step I g' (OInboxClaim a name prov w' slot'))) = RNone.
Proof.
  destruct g as [nx s rs]. simpl.
  destruct (inbox (rs prov) name) as [[c r]|] eqn:E; simpl; [|discriminate].
  destruct (r =? a) eqn:Er; simpl; [|discriminate].
  destruct (ref_sub (cap_bt c) w) eqn:Es; simpl; [|discriminate].
  intro H. inv H. apply Z.eqb_eq in Er. subst. exists c. repeat split; auto.
  - now rewrite inbox_set_slot, inbox_set_inbox, ?Z.eqb_refl.
  - intros w' slot'. now rewrite inbox_set_slot, inbox_set_inbox, ?Z.eqb_refl.
Qed.

(* the inbox entry (provider, name) changes only by that provider's publish / unpublish and by
   a claim of its recipient *)
Theorem inbox_frame {S} (I : impl S) g o prov name :
  let g' := snd (step I g o) in
  inbox (g_rs g' prov) name = inbox (g_rs g prov) name \/
  (exists slot recip c, o = OInboxPublish prov slot name recip /\ slots (g_rs g prov) slot = Some c /\
                        inbox (g_rs g' prov) name = Some (c, recip)) \/
  (exists w slot, o = OInboxUnpublish prov name w slot /\ inbox (g_rs g' prov) name = None) \/
  (exists a w slot c, o = OInboxClaim a name prov w slot /\ inbox (g_rs g prov) name = Some (c, a) /\
                      inbox (g_rs g' prov) name = None).
Proof.
  destruct g as [nx s rs]. destruct o; simpl;
    repeat match goal with
           | |- context [match ?x with _ => _ end] => destruct x eqn:?; simpl
           end;
    rewrite ?inbox_set_store, ?inbox_set_slot, ?inbox_set_pub; auto.
  - (* OInboxPublish *)
    rewrite inbox_set_inbox. destruct (prov =? a) eqn:Ea; simpl; auto.
    destruct (name =? name0) eqn:Ep; simpl; auto.
    apply Z.eqb_eq in Ea, Ep. subst. right. left. exists slot, recip, c.
    rewrite ?inbox_set_inbox, ?Z.eqb_refl. auto.
  - (* OInboxUnpublish *)
    rewrite inbox_set_inbox. destruct (prov =? a) eqn:Ea; simpl; auto.
    destruct (name =? name0) eqn:Ep; simpl; auto.
    apply Z.eqb_eq in Ea, Ep. subst. right. right. left. exists w, slot.
    now rewrite ?inbox_set_slot, ?inbox_set_inbox, ?Z.eqb_refl.
  - (* OInboxClaim *)
    rewrite inbox_set_inbox. destruct (prov =? prov0) eqn:Ea; simpl; auto.
    destruct (name =? name0) eqn:Ep; simpl; auto.
    apply Z.eqb_eq in Ea, Ep. subst. right. right. right. exists a, w, slot, c.
    rewrite ?inbox_set_slot, ?inbox_set_inbox, ?Z.eqb_refl. simpl.
    match goal with H : negb (_ =? _) = false |- _ => apply Bool.negb_false_iff, Z.eqb_eq in H; subst end.
    auto.
Qed.

(* ------------------------------------------------------------------ the defect of the unchanged tree *)
(* the full-strength statement, without the guard on the storage layer's write-back *)
Definition refinement_statement : Prop := forall h, run_code h = run_spec h.

(* a retarget whose controller object is not written back (tx_stale) breaks it: the next
   transaction still sees the old target and delete() ends in an internal error *)
Definition stale_history : list tx :=
  [mkTx [OPut 1 0 VA; OIssue 1 (KStorage 0) (AUn, BA) 0] [];
   mkTx [ORetarget 1 1 1] [(1, 1)];
   mkTx [OGetCtrl 1 false 1; OList 1 (KStorage 0) LGet; OList 1 (KStorage 1) LGet;
         OCapCheck 1 0 (AUn, BA) false; ODelete 1 false 1] []].

Theorem refinement_refuted : ~ refinement_statement.
Proof. intro H. specialize (H stale_history). vm_compute in H. discriminate. Qed.

Theorem no_internal_refuted : exists h, In (RFail FInternal) (all_results (run_code h)).
Proof. exists stale_history. vm_compute. tauto. Qed.
