(* Check functions used by the per-run case files of C25. *)
From CV Require Export C25.Model.

Fixpoint list_eqb {A : Type} (e : A -> A -> bool) (l1 l2 : list A) : bool :=
  match l1, l2 with
  | [], [] => true
  | x :: r, y :: t => e x y && list_eqb e r t
  | _, _ => false
  end.

Definition auth_eqb (x y : auth) : bool :=
  match x, y with
  | AUn, AUn => true
  | AConj s, AConj t => list_eqb Z.eqb s t
  | ADisj s, ADisj t => list_eqb Z.eqb s t
  | _, _ => false
  end.
Definition bty_eqb (x y : bty) : bool := auth_eqb (fst x) (fst y) && base_eqb (snd x) (snd y).
Definition cap_eqb (x y : cap) : bool :=
  (cap_id x =? cap_id y) && (cap_addr x =? cap_addr y) && bty_eqb (cap_bt x) (cap_bt y).
Definition fail_eqb (x y : fail) : bool :=
  match x, y with
  | FOverwrite, FOverwrite | FAddress, FAddress | FTypeMismatch, FTypeMismatch
  | FPanic, FPanic | FInternal, FInternal => true
  | _, _ => false
  end.
Definition result_eqb (x y : result) : bool :=
  match x, y with
  | RUnit, RUnit | RNone, RNone | RNoCast, RNoCast => true
  | RId a, RId b => a =? b
  | RBool a, RBool b => Bool.eqb a b
  | RIds a, RIds b => list_eqb Z.eqb a b
  | RCtrl i b k t, RCtrl i' b' k' t' => (i =? i') && bty_eqb b b' && ckind_eqb k k' && (t =? t')
  | RCap a, RCap b => cap_eqb a b
  | RFail a, RFail b => fail_eqb a b
  | _, _ => false
  end.
Definition event_eqb (x y : event) : bool :=
  match x, y with
  | EvIssued i a b p, EvIssued i' a' b' p' => (i =? i') && (a =? a') && bty_eqb b b' && (p =? p')
  | EvAcctIssued i a b, EvAcctIssued i' a' b' => (i =? i') && (a =? a') && bty_eqb b b'
  | EvTarget i a p, EvTarget i' a' p' => (i =? i') && (a =? a') && (p =? p')
  | EvDeleted i a, EvDeleted i' a' => (i =? i') && (a =? a')
  | EvAcctDeleted i a, EvAcctDeleted i' a' => (i =? i') && (a =? a')
  | EvPublished a p c, EvPublished a' p' c' => (a =? a') && (p =? p') && cap_eqb c c'
  | EvUnpublished a p, EvUnpublished a' p' => (a =? a') && (p =? p')
  | EvInboxPublished a r n b, EvInboxPublished a' r' n' b' =>
      (a =? a') && (r =? r') && (n =? n') && bty_eqb b b'
  | EvInboxUnpublished a n, EvInboxUnpublished a' n' => (a =? a') && (n =? n')
  | EvInboxClaimed a r n, EvInboxClaimed a' r' n' => (a =? a') && (r =? r') && (n =? n')
  | _, _ => false
  end.

Definition txout_eqb (x y : list result * list event) : bool :=
  list_eqb result_eqb (fst x) (fst y) && list_eqb event_eqb (snd x) (snd y).

(* (history, observed per-transaction results and events) *)
Definition check_history (c : list tx * list (list result * list event)) : bool :=
  list_eqb txout_eqb (run_code (fst c)) (snd c).

(* the explicit type lattice against sema: (kind, x, y, observed) with
   kind 0: sema.IsSubType on referenced types, 1: Access.PermitsAccess, 2: reference subtyping,
   3: stdlib.CanBorrow *)
Definition check_types (c : Z * bty * bty * bool) : bool :=
  let '(k, x, y, obs) := c in
  Bool.eqb obs
    (if k =? 0 then base_sub (snd x) (snd y)
     else if k =? 1 then permits (fst x) (fst y)
     else if k =? 2 then ref_sub x y
     else can_borrow x y).
