(* C25  Capabilities, publishing and inbox follow the controller model.

   Executable model of the capability machinery of stdlib/account.go:
     IssueStorageCapabilityController / IssueAccountCapabilityController,
     storeCapabilityController / removeCapabilityController / getCapabilityController,
     recordStorageCapabilityController / unrecordStorageCapabilityController,
     record/unrecordAccountCapabilityController, the controller functions
     (delete, retarget, setTag, capability), AccountCapabilitiesPublish / Unpublish / Get / Exists,
     CanBorrow / getCheckedCapabilityController / BorrowCapabilityController /
     CheckCapabilityController, AccountInboxPublish / Unpublish / Claim,
   and of interpreter/value_storage_reference.go:dereference (dynamic type test of the stored value).

   The machine [step] is written once, over an abstract controller store (record [impl]).
   It is instantiated twice:
     - [code_impl]: code-shaped store with the four storage domains the Go code keeps
       (cap_con: id -> controller, cap_tag: id -> tag, path_cap: path -> id set, acct_cap: id set),
       with the defensive checks of the Go code that end in errors.NewUnreachableError modelled
       as [Err Internal];
     - [spec_impl]: the simple controller specification: one table of controller records per
       account, in issue order, records are never removed, only flagged deleted.
   Definitions only; proofs are in C25/Proofs.v. *)
From CV Require Export Base.Prelude.

(* ------------------------------------------------------------------ finite maps as functions *)
Definition upd {V : Type} (f : Z -> V) (k : Z) (v : V) : Z -> V :=
  fun k' => if k' =? k then v else f k'.

(* sets of ids kept as strictly increasing lists (the Go code keeps an unordered dictionary
   whose iteration order is unspecified; observations are compared sorted) *)
Fixpoint zmem (x : Z) (l : list Z) : bool :=
  match l with [] => false | y :: r => (x =? y) || zmem x r end.
Fixpoint zinsert (x : Z) (l : list Z) : list Z :=
  match l with
  | [] => [x]
  | y :: r => if x <? y then x :: l else if x =? y then l else y :: zinsert x r
  end.
Fixpoint zremove (x : Z) (l : list Z) : list Z :=
  match l with [] => [] | y :: r => if x =? y then r else y :: zremove x r end.

(* ------------------------------------------------------------------ types *)
(* authorizations: sema.UnauthorizedAccess, EntitlementSetAccess{Conjunction|Disjunction} over
   entitlements named by numbers *)
Inductive auth : Type := AUn | AConj (s : list Z) | ADisj (s : list Z).

(* sema/access.go: (e).PermitsAccess(other), e = first argument *)
Definition permits (e other : auth) : bool :=
  match e with
  | AUn => true       (* PrimitiveAccess(AccessAll): >= every primitive, and not AccessSelf *)
  | AConj es =>
      match other with
      | AUn => false  (* otherAccess == AccessSelf *)
      | ADisj os => forallb (fun o => forallb (fun e' => o =? e') es) os
      | AConj os => forallb (fun e' => zmem e' os) es
      end
  | ADisj es =>
      match other with
      | AUn => false
      | ADisj os => forallb (fun o => zmem o es) os
      | AConj os => existsb (fun e' => zmem e' os) es
      end
  end.

(* the explicit lattice of referenced types used by the histories:
   structs A: I, B: I, J, C (unrelated); intersections {I}, {J}, {I,J}; AnyStruct; Account;
   resources R: RI, Q (unrelated); intersection {RI}; AnyResource *)
Inductive base : Type :=
| BA | BB | BC | BI | BJ | BIJ | BAny | BAcct | BR | BQ | BRI | BAnyRes.

Definition base_eqb (x y : base) : bool :=
  match x, y with
  | BA, BA | BB, BB | BC, BC | BI, BI | BJ, BJ | BIJ, BIJ | BAny, BAny | BAcct, BAcct
  | BR, BR | BQ, BQ | BRI, BRI | BAnyRes, BAnyRes => true
  | _, _ => false
  end.

Definition is_resource_base (x : base) : bool :=
  match x with BR | BQ | BRI | BAnyRes => true | _ => false end.

(* sema.IsSubType restricted to the lattice (tied to sema by an exhaustive table check on every
   run); struct-kinded and resource-kinded types are unrelated, each side has its own top type *)
Definition base_sub (x y : base) : bool :=
  match x, y with
  | _, BAny => negb (is_resource_base x)
  | _, BAnyRes => is_resource_base x
  | BA, BA | BB, BB | BC, BC | BI, BI | BJ, BJ | BIJ, BIJ | BAcct, BAcct
  | BR, BR | BQ, BQ | BRI, BRI => true
  | BA, BI => true
  | BB, BI | BB, BJ | BB, BIJ => true
  | BIJ, BI | BIJ, BJ => true
  | BR, BRI => true
  | _, _ => false
  end.

(* a borrow type: reference type = authorization + referenced type *)
Definition bty : Type := (auth * base)%type.

(* sema subtyping of reference types: the supertype's authorization permits the subtype's,
   covariant in the referenced type *)
Definition ref_sub (x w : bty) : bool :=
  permits (fst w) (fst x) && base_sub (snd x) (snd w).

(* runtime types of the values stored at target paths *)
Inductive val : Type := VA | VB | VC | VR | VQ.   (* structs A B C, resources R Q *)
Definition val_base (v : val) : base :=
  match v with VA => BA | VB => BB | VC => BC | VR => BR | VQ => BQ end.

Record cap : Type := mkCap { cap_id : Z; cap_addr : Z; cap_bt : bty }.

(* interpreter.ConvertAndBox of a capability value at the static type Capability<w>
   (return value of inbox.claim<w> / inbox.unpublish<w>, result of `as? Capability<w>`):
   the value keeps its id, address and referenced type and takes the authorization of w *)
Definition conv_cap (c : cap) (w : bty) : cap :=
  mkCap (cap_id c) (cap_addr c) (fst w, snd (cap_bt c)).

Inductive ckind : Type := KStorage (p : Z) | KAccount.
Record ctrl : Type := mkCtrl { c_kind : ckind; c_bt : bty }.

Definition same_kind (k : ckind) (isacct : bool) : bool :=
  match k with KStorage _ => negb isacct | KAccount => isacct end.

(* ------------------------------------------------------------------ observables *)
Inductive fail : Type :=
| FOverwrite      (* interpreter.OverwriteError *)
| FAddress        (* interpreter.CapabilityAddressPublishingError *)
| FTypeMismatch   (* interpreter.ForceCastTypeMismatchError *)
| FPanic          (* explicit panic() ending a transaction *)
| FInternal.      (* errors.NewUnreachableError() *)

Inductive result : Type :=
| RUnit
| RNone                                       (* nil / nothing to act on *)
| RNoCast                                     (* `as? Capability<T>` failed *)
| RId (id : Z)
| RBool (b : bool)
| RIds (l : list Z)                           (* sorted *)
| RCtrl (id : Z) (bt : bty) (k : ckind) (tag : Z)
| RCap (c : cap)
| RFail (f : fail).

Inductive event : Type :=
| EvIssued (id addr : Z) (bt : bty) (p : Z)
| EvAcctIssued (id addr : Z) (bt : bty)
| EvTarget (id addr p : Z)
| EvDeleted (id addr : Z)
| EvAcctDeleted (id addr : Z)
| EvPublished (addr pp : Z) (c : cap)
| EvUnpublished (addr pp : Z)
| EvInboxPublished (prov recip name : Z) (bt : bty)
| EvInboxUnpublished (prov name : Z)
| EvInboxClaimed (prov recip name : Z).

(* ------------------------------------------------------------------ operations of a history *)
Inductive lmode : Type := LGet | LEach | LEachStop.

Inductive op : Type :=
| OPut (a p : Z) (v : val)                    (* replace the value stored at /storage/p *)
| OTake (a p : Z)                             (* load (remove) the value at /storage/p *)
| OIssue (a : Z) (k : ckind) (bt : bty) (slot : Z)
| OGetCtrl (a : Z) (isacct : bool) (id : Z)
| OList (a : Z) (k : ckind) (m : lmode)       (* getControllers / forEachController *)
| ODelete (a : Z) (isacct : bool) (id : Z)
| ORetarget (a id p : Z)
| OSetTag (a : Z) (isacct : bool) (id t : Z)
| OCtrlCap (a : Z) (isacct : bool) (id slot : Z)
| OPublish (a slot pp : Z)
| OUnpublish (a pp slot : Z)
| OGet (a tgt pp : Z) (w : bty) (slot : Z)    (* getAccount(tgt).capabilities.get<w>(pp) *)
| OBorrowPub (tgt pp : Z) (w : bty)
| OExists (tgt pp : Z)
| OCapBorrow (a slot : Z) (w : bty) (typed : bool)
| OCapCheck (a slot : Z) (w : bty) (typed : bool)
| OCapInfo (a slot : Z)
| OInboxPublish (a slot name recip : Z)
| OInboxUnpublish (a name : Z) (w : bty) (slot : Z)
| OInboxClaim (a name prov : Z) (w : bty) (slot : Z)
| OPanic.

(* a transaction: its operations, and the host/atree oracle [tx_stale]: the (account, id) pairs of
   controllers retargeted in this transaction whose in-memory change the storage layer did not
   write back at commit (measured by the harness after the commit; [] on a correct tree) *)
Record tx : Type := mkTx { tx_ops : list op; tx_stale : list (Z * Z) }.

(* ------------------------------------------------------------------ state *)
(* per account: published capabilities (public domain), inbox, stored values at target paths,
   capability slots (capabilities kept in account storage between operations) *)
Record rest : Type := mkRest {
  pub : Z -> option cap;
  inbox : Z -> option (cap * Z);
  store : Z -> option val;
  slots : Z -> option cap
}.
Definition rest0 : rest :=
  mkRest (fun _ => None) (fun _ => None) (fun _ => None) (fun _ => None).

Definition set_pub (rs : Z -> rest) a k v :=
  upd rs a (let r := rs a in mkRest (upd (pub r) k v) (inbox r) (store r) (slots r)).
Definition set_inbox (rs : Z -> rest) a k v :=
  upd rs a (let r := rs a in mkRest (pub r) (upd (inbox r) k v) (store r) (slots r)).
Definition set_store (rs : Z -> rest) a k v :=
  upd rs a (let r := rs a in mkRest (pub r) (inbox r) (upd (store r) k v) (slots r)).
Definition set_slot (rs : Z -> rest) a k v :=
  upd rs a (let r := rs a in mkRest (pub r) (inbox r) (store r) (upd (slots r) k v)).

(* abstract controller store *)
Record impl (S : Type) : Type := mkImpl {
  i_get : S -> Z -> Z -> option ctrl;                 (* getCapabilityController *)
  i_tag : S -> Z -> Z -> Z;                           (* getCapabilityControllerTag *)
  i_issue : S -> Z -> Z -> ctrl -> res S;             (* store + record *)
  i_list : S -> Z -> ckind -> res (list Z);           (* ids of a path set / of the account set *)
  i_delete : S -> Z -> Z -> ctrl -> res S;            (* unrecord + remove *)
  i_retarget : S -> Z -> Z -> ctrl -> Z -> res S;     (* unrecord + record + in-memory target *)
  i_settag : S -> Z -> Z -> Z -> S;
  i_commit : S -> S -> list (Z * Z) -> S              (* pre-state, final state, stale marks *)
}.
Arguments i_get {S}. Arguments i_tag {S}. Arguments i_issue {S}. Arguments i_list {S}.
Arguments i_delete {S}. Arguments i_retarget {S}. Arguments i_settag {S}. Arguments i_commit {S}.

(* global state: host id counters (TestRuntimeInterface.GenerateAccountID: not part of the
   ledger, never rolled back), controller store, other per-account state *)
Record gstate (S : Type) : Type := mkG { g_next : Z -> Z; g_cs : S; g_rs : Z -> rest }.
Arguments mkG {S}. Arguments g_next {S}. Arguments g_cs {S}. Arguments g_rs {S}.

(* ------------------------------------------------------------------ the borrow rule *)
(* stdlib/account.go: CanBorrow *)
Definition can_borrow (wanted capbt : bty) : bool :=
  if negb (permits (fst wanted) (fst capbt)) then false
  else base_sub (snd wanted) (snd capbt) || base_sub (snd capbt) (snd wanted).

Section Machine.
  Context {S : Type} (I : impl S).

  (* getCheckedCapabilityController *)
  Definition checked_ctrl (s : S) (c : cap) (wanted : option bty) : option (ctrl * bty) :=
    let w := match wanted with None => cap_bt c | Some w => w end in
    if match wanted with None => false | Some w' => negb (can_borrow w' (cap_bt c)) end
    then None
    else match i_get I s (cap_addr c) (cap_id c) with
         | None => None
         | Some ct => if negb (can_borrow w (c_bt ct)) then None else Some (ct, w)
         end.

  (* controller.ReferenceValue(...).ReferencedValue(...) != nil :
     storage reference: value present at the target path and its dynamic type is a subtype of the
     borrowed type; account reference: always *)
  Definition deref (rs : Z -> rest) (addr : Z) (ct : ctrl) (w : bty) : bool :=
    match c_kind ct with
    | KAccount => true
    | KStorage p =>
        match store (rs addr) p with
        | None => false
        | Some v => base_sub (val_base v) (snd w)
        end
    end.

  (* BorrowCapabilityController / CheckCapabilityController (same decision) *)
  Definition borrow_ctrl (s : S) (rs : Z -> rest) (c : cap) (wanted : option bty) : bool :=
    match checked_ctrl s c wanted with
    | None => false
    | Some (ct, w) => deref rs (cap_addr c) ct w
    end.

  (* interpreter.CapabilityBorrow / CapabilityCheck on a capability value *)
  Definition borrow_cap (s : S) (rs : Z -> rest) (c : cap) (wanted : option bty) : bool :=
    if cap_id c =? 0 then false else borrow_ctrl s rs c wanted.

  Definition fetch (s : S) (a : Z) (isacct : bool) (id : Z) : option ctrl :=
    match i_get I s a id with
    | Some c => if same_kind (c_kind c) isacct then Some c else None
    | None => None
    end.

  Definition borrow_slot (g : gstate S) (a slot : Z) (w : bty) (typed : bool) : result :=
    match slots (g_rs g a) slot with
    | None => RNone
    | Some c =>
        if typed
        then if ref_sub (cap_bt c) w then RBool (borrow_cap (g_cs g) (g_rs g) (conv_cap c w) None) else RNoCast
        else RBool (borrow_cap (g_cs g) (g_rs g) c (Some w))
    end.

  (* one operation: result, emitted events, new state. [RFail] aborts the transaction. *)
  Definition step (g : gstate S) (o : op) : result * list event * gstate S :=
    let s := g_cs g in
    let rs := g_rs g in
    let nx := g_next g in
    match o with
    | OPut a p v => (RUnit, [], mkG nx s (set_store rs a p (Some v)))
    | OTake a p => (RUnit, [], mkG nx s (set_store rs a p None))
    | OIssue a k bt slot =>
        let id := nx a + 1 in
        let nx' := upd nx a id in
        match i_issue I s a id (mkCtrl k bt) with
        | Err _ => (RFail FInternal, [], mkG nx' s rs)
        | Ok s' =>
            (RId id,
             [match k with KStorage p => EvIssued id a bt p | KAccount => EvAcctIssued id a bt end],
             mkG nx' s' (set_slot rs a slot (Some (mkCap id a bt))))
        end
    | OGetCtrl a isacct id =>
        match fetch s a isacct id with
        | Some c => (RCtrl id (c_bt c) (c_kind c) (i_tag I s a id), [], g)
        | None => (RNone, [], g)
        end
    | OList a k m =>
        match i_list I s a k with
        | Err _ => (RFail FInternal, [], g)
        | Ok ids =>
            (match m with
             | LGet | LEach => RIds ids
             | LEachStop => RBool (match ids with [] => false | _ => true end)
             end, [], g)
        end
    | ODelete a isacct id =>
        match fetch s a isacct id with
        | None => (RNone, [], g)
        | Some c =>
            match i_delete I s a id c with
            | Err _ => (RFail FInternal, [], g)
            | Ok s' => (RUnit, [if isacct then EvAcctDeleted id a else EvDeleted id a], mkG nx s' rs)
            end
        end
    | ORetarget a id p =>
        match fetch s a false id with
        | None => (RNone, [], g)
        | Some c =>
            match i_retarget I s a id c p with
            | Err _ => (RFail FInternal, [], g)
            | Ok s' => (RUnit, [EvTarget id a p], mkG nx s' rs)
            end
        end
    | OSetTag a isacct id t =>
        match fetch s a isacct id with
        | None => (RNone, [], g)
        | Some _ => (RUnit, [], mkG nx (i_settag I s a id t) rs)
        end
    | OCtrlCap a isacct id slot =>
        match fetch s a isacct id with
        | None => (RNone, [], g)
        | Some c =>
            let cp := mkCap id a (c_bt c) in
            (RCap cp, [], mkG nx s (set_slot rs a slot (Some cp)))
        end
    | OPublish a slot pp =>
        match slots (rs a) slot with
        | None => (RNone, [], g)
        | Some c =>
            if negb (cap_addr c =? a) then (RFail FAddress, [], g)
            else match pub (rs a) pp with
                 | Some _ => (RFail FOverwrite, [], g)
                 | None => (RUnit, [EvPublished a pp c], mkG nx s (set_pub rs a pp (Some c)))
                 end
        end
    | OUnpublish a pp slot =>
        match pub (rs a) pp with
        | None => (RNone, [], g)
        | Some c =>
            (RCap c, [EvUnpublished a pp],
             mkG nx s (set_slot (set_pub rs a pp None) a slot (Some c)))
        end
    | OGet a tgt pp w slot =>
        let r :=
          match pub (rs tgt) pp with
          | None => mkCap 0 tgt w
          | Some c =>
              match checked_ctrl s c (Some w) with
              | None => mkCap 0 tgt w
              | Some (_, w') => mkCap (cap_id c) (cap_addr c) w'
              end
          end in
        (RCap r, [], mkG nx s (set_slot rs a slot (Some r)))
    | OBorrowPub tgt pp w =>
        (RBool (match pub (rs tgt) pp with
                | None => false
                | Some c => borrow_ctrl s rs c (Some w)
                end), [], g)
    | OExists tgt pp =>
        (RBool (match pub (rs tgt) pp with None => false | Some _ => true end), [], g)
    | OCapBorrow a slot w typed => (borrow_slot g a slot w typed, [], g)
    | OCapCheck a slot w typed => (borrow_slot g a slot w typed, [], g)
    | OCapInfo a slot =>
        (match slots (rs a) slot with None => RNone | Some c => RCap c end, [], g)
    | OInboxPublish a slot name recip =>
        match slots (rs a) slot with
        | None => (RNone, [], g)
        | Some c =>
            (RUnit, [EvInboxPublished a recip name (cap_bt c)],
             mkG nx s (set_inbox rs a name (Some (c, recip))))
        end
    | OInboxUnpublish a name w slot =>
        match inbox (rs a) name with
        | None => (RNone, [], g)
        | Some (c, _) =>
            if negb (ref_sub (cap_bt c) w) then (RFail FTypeMismatch, [], g)
            else (RCap (conv_cap c w), [EvInboxUnpublished a name],
                  mkG nx s (set_slot (set_inbox rs a name None) a slot (Some (conv_cap c w))))
        end
    | OInboxClaim a name prov w slot =>
        match inbox (rs prov) name with
        | None => (RNone, [], g)
        | Some (c, recip) =>
            if negb (recip =? a) then (RNone, [], g)
            else if negb (ref_sub (cap_bt c) w) then (RFail FTypeMismatch, [], g)
            else (RCap (conv_cap c w), [EvInboxClaimed prov a name],
                  mkG nx s (set_slot (set_inbox rs prov name None) a slot (Some (conv_cap c w))))
        end
    | OPanic => (RFail FPanic, [], g)
    end.

  Definition is_fail (r : result) : bool := match r with RFail _ => true | _ => false end.

  (* operations of one transaction, until the first failing one;
     returns results, events, final state, success flag *)
  Fixpoint run_ops (g : gstate S) (ops : list op) : list result * list event * gstate S * bool :=
    match ops with
    | [] => ([], [], g, true)
    | o :: r =>
        let '(res, ev, g') := step g o in
        if is_fail res then ([res], ev, g', false)
        else let '(rs, evs, g'', ok) := run_ops g' r in (res :: rs, ev ++ evs, g'', ok)
    end.

  (* a transaction commits its final state if every operation succeeded, else only the host's
     id counters advance *)
  Definition run_tx (g : gstate S) (t : tx) : (list result * list event) * gstate S :=
    let '(rs, evs, g', ok) := run_ops g (tx_ops t) in
    if ok
    then ((rs, evs), mkG (g_next g') (i_commit I (g_cs g) (g_cs g') (tx_stale t)) (g_rs g'))
    else ((rs, evs), mkG (g_next g') (g_cs g) (g_rs g)).

  Fixpoint run (g : gstate S) (h : list tx) : list (list result * list event) * gstate S :=
    match h with
    | [] => ([], g)
    | t :: r =>
        let '(o, g') := run_tx g t in
        let '(os, g'') := run g' r in (o :: os, g'')
    end.
End Machine.

(* ------------------------------------------------------------------ code-shaped store *)
Record cstore : Type := mkCS {
  ctrls : Z -> Z -> option ctrl;     (* StorageDomainCapabilityController: account, id *)
  tags : Z -> Z -> Z;                (* StorageDomainCapabilityControllerTag (0 = no entry) *)
  pathcaps : Z -> Z -> list Z;       (* StorageDomainPathCapability: account, path -> id set *)
  acctcaps : Z -> list Z             (* StorageDomainAccountCapability: account -> id set *)
}.
Definition cs0 : cstore :=
  mkCS (fun _ _ => None) (fun _ _ => 0) (fun _ _ => []) (fun _ => []).

Definition upd2 {V : Type} (f : Z -> Z -> V) (a k : Z) (v : V) : Z -> Z -> V :=
  fun a' => if a' =? a then upd (f a) k v else f a'.

(* recordStorageCapabilityController / recordAccountCapabilityController *)
Definition c_record (s : cstore) (a id : Z) (k : ckind) : res cstore :=
  match k with
  | KStorage p =>
      if zmem id (pathcaps s a p) then Err Internal   (* existing != Nil -> unreachable *)
      else Ok (mkCS (ctrls s) (tags s) (upd2 (pathcaps s) a p (zinsert id (pathcaps s a p))) (acctcaps s))
  | KAccount =>
      if zmem id (acctcaps s a) then Err Internal
      else Ok (mkCS (ctrls s) (tags s) (pathcaps s) (upd (acctcaps s) a (zinsert id (acctcaps s a))))
  end.

(* unrecordStorageCapabilityController / unrecordAccountCapabilityController *)
Definition c_unrecord (s : cstore) (a id : Z) (k : ckind) : res cstore :=
  match k with
  | KStorage p =>
      if zmem id (pathcaps s a p)
      then Ok (mkCS (ctrls s) (tags s) (upd2 (pathcaps s) a p (zremove id (pathcaps s a p))) (acctcaps s))
      else Err Internal       (* set missing, or id not in it -> unreachable *)
  | KAccount =>
      if zmem id (acctcaps s a)
      then Ok (mkCS (ctrls s) (tags s) (pathcaps s) (upd (acctcaps s) a (zremove id (acctcaps s a))))
      else Err Internal
  end.

(* storeCapabilityController, then record *)
Definition c_issue (s : cstore) (a id : Z) (c : ctrl) : res cstore :=
  match ctrls s a id with
  | Some _ => Err Internal
  | None =>
      c_record (mkCS (upd2 (ctrls s) a id (Some c)) (tags s) (pathcaps s) (acctcaps s)) a id (c_kind c)
  end.

(* getControllers / forEachController: every id of the set must resolve to a controller of the
   right kind (else unreachable) *)
Definition c_list (s : cstore) (a : Z) (k : ckind) : res (list Z) :=
  let ids := match k with KStorage p => pathcaps s a p | KAccount => acctcaps s a end in
  if forallb (fun id => match ctrls s a id with
                        | Some c => same_kind (c_kind c) (match k with KAccount => true | _ => false end)
                        | None => false
                        end) ids
  then Ok ids else Err Internal.

(* controller.Delete: unrecord(controller.TargetPath), removeCapabilityController (+ tag) *)
Definition c_delete (s : cstore) (a id : Z) (c : ctrl) : res cstore :=
  let* s1 := c_unrecord s a id (c_kind c) in
  match ctrls s1 a id with
  | None => Err Internal
  | Some _ => Ok (mkCS (upd2 (ctrls s1) a id None) (upd2 (tags s1) a id 0) (pathcaps s1) (acctcaps s1))
  end.

(* controller.SetTarget then controller.TargetPath = new (in-memory object of the stored map) *)
Definition c_retarget (s : cstore) (a id : Z) (c : ctrl) (p : Z) : res cstore :=
  let* s1 := c_unrecord s a id (c_kind c) in
  let* s2 := c_record s1 a id (KStorage p) in
  Ok (mkCS (upd2 (ctrls s2) a id (Some (mkCtrl (KStorage p) (c_bt c)))) (tags s2) (pathcaps s2) (acctcaps s2)).

Definition c_settag (s : cstore) (a id t : Z) : cstore :=
  mkCS (ctrls s) (upd2 (tags s) a id t) (pathcaps s) (acctcaps s).

(* commit: everything written through the storage API persists; a retargeted controller object
   marked stale by the oracle keeps the value the ledger had before the transaction *)
Fixpoint c_commit (pre cur : cstore) (stale : list (Z * Z)) : cstore :=
  match stale with
  | [] => cur
  | (a, id) :: r =>
      let cur' := c_commit pre cur r in
      match ctrls cur' a id, ctrls pre a id with
      | Some _, Some old => mkCS (upd2 (ctrls cur') a id (Some old)) (tags cur') (pathcaps cur') (acctcaps cur')
      | _, _ => cur'
      end
  end.

Definition code_impl : impl cstore :=
  mkImpl cstore (fun s a id => ctrls s a id) (fun s a id => tags s a id)
         c_issue c_list c_delete c_retarget c_settag c_commit.

(* ------------------------------------------------------------------ specification store *)
Record crec : Type := mkRec { r_id : Z; r_ctrl : ctrl; r_tag : Z; r_live : bool }.
Definition sstore : Type := Z -> list crec.
Definition ss0 : sstore := fun _ => [].

Fixpoint s_find (l : list crec) (id : Z) : option crec :=
  match l with
  | [] => None
  | r :: t => if r_id r =? id then Some r else s_find t id
  end.

Definition s_get (s : sstore) (a id : Z) : option ctrl :=
  match s_find (s a) id with
  | Some r => if r_live r then Some (r_ctrl r) else None
  | None => None
  end.
Definition s_tag (s : sstore) (a id : Z) : Z :=
  match s_find (s a) id with
  | Some r => if r_live r then r_tag r else 0
  | None => 0
  end.

Definition ckind_eqb (x y : ckind) : bool :=
  match x, y with
  | KStorage p, KStorage q => p =? q
  | KAccount, KAccount => true
  | _, _ => false
  end.

(* the live controllers of a target (path or account), in issue order *)
Definition s_list (s : sstore) (a : Z) (k : ckind) : list Z :=
  map r_id (filter (fun r => r_live r && ckind_eqb (c_kind (r_ctrl r)) k) (s a)).

Fixpoint s_modify (l : list crec) (id : Z) (f : crec -> crec) : list crec :=
  match l with
  | [] => []
  | r :: t => if r_id r =? id then f r :: t else r :: s_modify t id f
  end.

Definition s_issue (s : sstore) (a id : Z) (c : ctrl) : sstore :=
  upd s a (s a ++ [mkRec id c 0 true]).
Definition s_delete (s : sstore) (a id : Z) : sstore :=
  upd s a (s_modify (s a) id (fun r => mkRec (r_id r) (r_ctrl r) (r_tag r) false)).
Definition s_retarget (s : sstore) (a id p : Z) : sstore :=
  upd s a (s_modify (s a) id
             (fun r => mkRec (r_id r) (mkCtrl (KStorage p) (c_bt (r_ctrl r))) (r_tag r) (r_live r))).
Definition s_settag (s : sstore) (a id t : Z) : sstore :=
  upd s a (s_modify (s a) id (fun r => mkRec (r_id r) (r_ctrl r) t (r_live r))).

Definition spec_impl : impl sstore :=
  mkImpl sstore s_get s_tag
         (fun s a id c => Ok (s_issue s a id c))
         (fun s a k => Ok (s_list s a k))
         (fun s a id _ => Ok (s_delete s a id))
         (fun s a id _ p => Ok (s_retarget s a id p))
         s_settag
         (fun _ cur _ => cur).

Definition g0 {S : Type} (s : S) : gstate S := mkG (fun _ => 0) s (fun _ => rest0).
Definition run_code (h : list tx) := fst (run code_impl (g0 cs0) h).
Definition run_spec (h : list tx) := fst (run spec_impl (g0 ss0) h).
