(* C07  MiniCadence fragment for the purity ("view") analysis: types, programs, values, states.

   The fragment has one struct type S, one resource type R (fixed field layouts, see [fields_S],
   [fields_R]), global variables (contract fields), functions / methods / initializers (view or not),
   function expressions (closures, view or not), references, optionals, arrays, an Int->Int dictionary,
   built-in member functions (array / dictionary / account-storage), emit, destroy, attach.
   Programs are closed terms; the generator of harness/c07 prints every generated program both as
   Cadence source and as a term of these types. *)
From CV Require Export Base.Prelude.

Open Scope Z_scope.

(* ---------------------------------------------------------------- types *)
Inductive ty : Type :=
| TInt
| TS                      (* struct S *)
| TR                      (* resource R (an owned resource: a pointer to its object) *)
| TObj                    (* the resource R's object itself: type of `self` inside R, and of resource cells *)
| TArr (t : ty)           (* [t] *)
| TDict                   (* {Int: Int} *)
| TRef (t : ty)           (* auth(Mutate) &t / &t *)
| TOpt (t : ty)           (* t? *)
| TAny                    (* AnyStruct *)
| TFun (view : bool)      (* fun(): Int  /  view fun(): Int *)
| TAcct.                  (* auth(Storage) &Account  (a reference type) *)

(* sema.Type.IsResourceType *)
Fixpoint is_resource_ty (T : ty) : bool :=
  match T with
  | TR | TObj => true
  | TArr t => is_resource_ty t
  | TOpt t => is_resource_ty t
  | _ => false
  end.

(* _, isReference := t.( *ReferenceType) *)
Definition is_ref_ty (T : ty) : bool :=
  match T with TRef _ | TAcct => true | _ => false end.

(* sema/check_assignment.go: isWriteableInViewContext *)
Definition writeable (T : ty) : bool := negb (is_ref_ty T) && negb (is_resource_ty T).

(* field layouts.  S { x: Int; arr: [Int]; kids: [S]; refs: [&S]; d: {Int: Int} }
                   R { x: Int; arr: [Int]; kids: @[R]; (hidden) att: 1 iff attachment A is attached } *)
Definition fields_S : list ty := [TInt; TArr TInt; TArr TS; TArr (TRef TS); TDict].
Definition fields_R : list ty := [TInt; TArr TInt; TArr TR; TInt].

(* member / element access through a reference yields a reference for container-typed members
   (sema.GetDescendantTypeForAccess) *)
Definition wrapref (T : ty) : ty :=
  match T with
  | TS | TR | TObj | TArr _ | TDict => TRef T
  | _ => T
  end.

Definition field_ty (T : ty) (n : nat) : option ty :=
  match T with
  | TS => nth_error fields_S n
  | TR | TObj => nth_error fields_R n
  | TRef TS => option_map wrapref (nth_error fields_S n)
  | TRef TR | TRef TObj => option_map wrapref (nth_error fields_R n)
  | _ => None
  end.

Definition elem_ty (T : ty) : option ty :=
  match T with
  | TArr t => Some t
  | TDict => Some (TOpt TInt)
  | TRef (TArr t) => Some (wrapref t)
  | TRef TDict => Some (TOpt TInt)
  | _ => None
  end.

(* ---------------------------------------------------------------- syntax *)
Inductive idx : Type := IConst (n : nat) | IVar (x : nat).

(* assignment targets / access chains: identifier, member, index *)
Inductive target : Type :=
| TgVar (x : nat)
| TgField (t : target) (n : nat)
| TgIndex (t : target) (i : idx).

Inductive builtin : Type :=
| BAppend | BRemoveFirst | BInsert | BContains | BConcat          (* [T] *)
| BDInsert | BDRemove | BDContainsKey                              (* {Int: Int} *)
| BSave | BLoad | BCopy | BBorrow | BCheck.                        (* Account.Storage *)

Inductive ckind : Type := KS | KR.

Inductive exp : Type :=
| EInt (z : Z)
| ERead (t : target)
| EAdd (a b : exp)
| ENew (k : ckind) (args : exps)                      (* S(...)  /  create R(...) *)
| EArr (es : exps)
| EDict (kvs : list (Z * Z))                          (* dictionary literal *)
| ERef (t : target)                                   (* &t as auth(Mutate) &T *)
| EDeref (e : exp)                                    (* *e *)
| ECallG (f : nat) (args : exps)                      (* global (contract) function *)
| ECallM (t : target) (opt : bool) (m : nat) (args : exps)      (* t.m(args) / t?.m(args) *)
| ECallB (t : target) (opt : bool) (b : builtin) (args : exps)  (* built-in member function *)
| ECallV (x : nat) (args : exps)                      (* call of the function value held by variable x *)
| EFun (view : bool) (params : list (nat * ty)) (body : stmts)
| EForce (e : exp)
| ECast (e : exp) (T : ty)                            (* e as! T *)
| EAttach (e : exp)                                   (* attach A() to e   (e a resource R) *)
| EDestroy (e : exp)
| ENilV                                               (* nil *)
with exps : Type := ENil | ECons (e : exp) (es : exps)
with stmt : Type :=
| SLet (ln x : nat) (T : ty) (e : exp)
| SAssign (ln : nat) (t : target) (e : exp)
| SSwap (ln : nat) (a b : target)
| SExp (ln : nat) (e : exp)
| SIf (ln : nat) (c : exp) (th el : stmts)
| SReturn (ln : nat) (e : exp)
| SEmit (ln : nat) (e : exp)                          (* emit Ev(x: e) *)
| SLet2 (ln x : nat) (T : ty) (t : target) (e : exp)   (* let x <- t <- e : second value transfer (resources) *)
| SRemove (ln : nat) (t : target)                     (* remove A from t *)
with stmts : Type := SNil | SCons (s : stmt) (ss : stmts).

Inductive cond : Type :=
| CTest (ln : nat) (e : exp)
| CEmit (ln : nat) (e : exp).

Record fundecl : Type := mkFun {
  fid : nat;
  fhost : option ckind;        (* None: global function; Some k: member of S / R *)
  finit : bool;                (* initializer of the host *)
  fview : bool;
  fparams : list (nat * ty);
  fpre : list cond;
  fpost : list cond;
  fbody : stmts }.

Definition prog := list fundecl.

(* ---------------------------------------------------------------- values and states *)
Inductive pstep : Type := PF (n : nat) | PI (i : nat) | PK (k : Z).
Definition path := list pstep.

Inductive vkind : Type := KVar | KSelf.

(* run-time binding of a variable: the l-value it denotes, and what the checker knows about it *)
Record rbind : Type := mkRB { rloc : nat; rpath : path; rdepth : nat; rty : ty; rkind : vkind }.
Definition env := list (nat * rbind).

Inductive value : Type :=
| VInt (z : Z)
| VNil
| VSome (v : value)
| VComp (k : ckind) (fs : list value)        (* a struct S (inline: structs are copied by value) or the object of a resource *)
| VArr (vs : list value)
| VDict (kvs : list (Z * Z))
| VRef (l : nat) (p : path)                   (* reference to the l-value (cell l, path p) *)
| VRes (l : nat)                              (* owned resource: pointer to its object's cell *)
| VClo (view : bool) (ce : env) (cd : nat) (params : list (nat * ty)) (body : stmts)
| VAcct.

Record cell : Type := mkCell { cty : ty; cval : value }.

Record state : Type := mkSt {
  cells : list cell;               (* variables, resource objects, stored values; allocation appends *)
  sto : list (nat * nat);          (* account storage: slot -> cell *)
  evs : list (bool * Z);           (* emitted events: (declared by an emit condition?, payload) *)
  dead : list nat }.               (* destroyed resources *)

Fixpoint alookup {A} (x : nat) (l : list (nat * A)) : option A :=
  match l with
  | [] => None
  | (y, a) :: r => if Nat.eqb x y then Some a else alookup x r
  end.

Definition self_id : nat := 0.
Definition host_ty (k : ckind) : ty := match k with KS => TS | KR => TObj end.

Definition is_init_of (k : ckind) (fd : fundecl) : bool :=
  finit fd && match fhost fd, k with Some KS, KS | Some KR, KR => true | _, _ => false end.
Definition is_method (m : nat) (fd : fundecl) : bool :=
  negb (finit fd) && Nat.eqb (fid fd) m && match fhost fd with Some _ => true | None => false end.
Definition is_global (f : nat) (fd : fundecl) : bool :=
  negb (finit fd) && Nat.eqb (fid fd) f && match fhost fd with Some _ => false | None => true end.

Definition find_init (P : prog) (k : ckind) : option fundecl := find (is_init_of k) P.
Definition find_method (P : prog) (m : nat) : option fundecl := find (is_method m) P.
Definition find_global (P : prog) (f : nat) : option fundecl := find (is_global f) P.
