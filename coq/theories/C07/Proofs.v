(* C07  The theorems: code accepted by the (strict) purity analysis as view has no observable effect;
   the three classes of programs that the code-shaped analysis ([strict] = false) accepts although they have effects. *)
From CV Require Import C07.Sem C07.Lemmas C07.Invariants C07.Soundness C07.SoundE C07.SoundX C07.SoundC C07.Cases C07.Witness.
Open Scope nat_scope.

(* ---------------------------------------------------------------- what "no observable effect" means *)
(* events declared by emit conditions only *)
Definition cond_only (ev : list (bool * Z)) : Prop := Forall (fun e => fst e = true) ev.

Definition unchanged (st st' : state) : Prop :=
  (* every cell that existed (variables of callers, globals = contract fields, captured variables, objects of
     resources, stored values, anything reachable through arguments / references / self) has the same content *)
  (forall l c, nth_error (cells st) l = Some c -> nth_error (cells st') l = Some c) /\
  (* the account storage map is the same *)
  sto st' = sto st /\
  (* no resource was destroyed *)
  dead st' = dead st /\
  (* the only events emitted are those that emit conditions declare *)
  exists ev, evs st' = evs st ++ ev /\ cond_only ev.

(* states and arguments the theorems quantify over: every cell conforms to its declared type, and every view
   closure held by a variable (or passed as argument) is itself checked *)
Definition wf_state (P : prog) (st : state) : Prop := cells_ok P st.
Definition wf_args (P : prog) (st : state) (vs : list value) : Prop := Forall (vok P st) vs.

Lemma step_unchanged st st' : step (List.length (cells st)) st st' -> unchanged st st'.
Proof.
  intros [p s d e l t]. split; [|split; [|split]]; auto.
  intros x c H. rewrite p; auto. apply nth_error_Some. congruence.
Qed.

Lemma unchanged_read st st' lp v : unchanged st st' -> read_lv st lp = Ok v -> read_lv st' lp = Ok v.
Proof.
  intros [H _] Hr. unfold read_lv in *. destruct (nth_error (cells st) (fst lp)) as [c|] eqn:Hc; [|discriminate].
  rewrite (H _ _ Hc). auto.
Qed.

(* ---------------------------------------------------------------- theorems (strict analysis) *)
Theorem view_call_no_effect P fuel fd self vs st v st' :
  chk_prog true P = [] -> In fd P -> fview fd = true -> finit fd = false ->
  wf_state P st -> wf_args P st vs ->
  call fuel P fd self vs st = Ok (v, st') ->
  unchanged st st'.
Proof.
  intros HP Hin Hv Hni Hw Ha Hc.
  destruct (sound_all P HP (List.length (cells st)) fuel) as [_ [_ [_ [_ [_ [HC _]]]]]].
  apply step_unchanged.
  eapply (HC fd self vs st v st'); eauto. intros Hi. congruence.
Qed.

Theorem view_init_no_effect P fuel k vs st v st' :
  chk_prog true P = [] -> init_view P k = true ->
  wf_state P st -> wf_args P st vs ->
  construct fuel P k vs st = Ok (v, st') ->
  unchanged st st'.
Proof.
  intros HP Hiv Hw Ha Hc.
  destruct (sound_all P HP (List.length (cells st)) fuel) as [_ [_ [_ [_ [_ [_ [_ HK]]]]]]].
  apply step_unchanged. eapply (HK k vs st v st'); eauto.
Qed.

Theorem view_closure_no_effect P fuel ce cd ps body vs st v st' :
  chk_prog true P = [] -> wf_state P st -> vok P st (VClo true ce cd ps body) -> wf_args P st vs ->
  call_clo fuel P ce cd ps body vs st = Ok (v, st') ->
  unchanged st st'.
Proof.
  intros HP Hw Hclo Ha Hc.
  destruct (sound_all P HP (List.length (cells st)) fuel) as [_ [_ [_ [_ [_ [_ [HCC _]]]]]]].
  apply step_unchanged. eapply (HCC ce cd ps body vs st v st'); eauto.
Qed.

(* conditions (of view and of non-view functions alike) *)
Theorem conditions_no_effect P fuel r cs st st' c :
  chk_prog true P = [] -> strict c = true -> chk_conds P (senv_of r) c cs = [] ->
  wf_state P st -> env_fun st r -> env_le r (depth c) ->
  run_conds fuel P r (depth c) cs st = Ok st' ->
  unchanged st st'.
Proof.
  intros HP Hs Hchk Hw Hf Hl Hr.
  destruct (sound_all P HP (List.length (cells st)) fuel) as [_ [_ [_ [_ [HRC _]]]]].
  apply step_unchanged. destruct (HRC r cs st st' c Hs) as [S _]; auto. constructor; auto.
Qed.

(* ... in particular the pre-conditions of any declared function, run right after the parameters are bound *)
Theorem preconditions_no_effect P fuel fd self vs st r1 d1 r2 st1 st2 :
  chk_prog true P = [] -> In fd P -> wf_state P st -> wf_args P st vs ->
  fun_env fd self = Ok (r1, d1) ->
  bind_params (fparams fd) vs (S d1) r1 st = Ok (r2, st1) ->
  run_conds fuel P r2 (S (S d1)) (fpre fd) st1 = Ok st2 ->
  unchanged st1 st2.
Proof.
  intros HP Hin Hw Ha Hfe Hbp Hr.
  destruct (fun_env_ok 0 fd self r1 d1 st Hfe) as [Hs1 [Hd1 [Hf1 [Hl1 Ho1]]]].
  assert (Hok1 : env_ok 0 st r1 (S d1) false) by (apply Ho1; intro; discriminate).
  destruct (bind_params_ok P 0 (fparams fd) vs st r1 (S d1) r2 st1 (S (S d1)) (S d1) false Hw (Nat.le_0_l _) Ha Hf1
              (env_le_weaken _ _ _ (Nat.le_succ_diag_r _) (env_le_weaken _ _ _ (Nat.le_succ_diag_r _) Hl1))
              (Nat.le_succ_diag_r _) Hok1 Hbp)
    as [S1 [C1 [Hs2 [F2 [L2 O2]]]]].
  pose proof (chk_fun_nil P HP fd Hin) as Hchk. unfold chk_fun in Hchk.
  rewrite <- Hd1, <- Hs1, <- Hs2 in Hchk.
  apply app_nil_inv in Hchk. destruct Hchk as [Hcpre _].
  assert (Hdc : depth (fun_ctx true fd) = S (S d1)) by (unfold fun_ctx; simpl; rewrite <- Hd1; reflexivity).
  rewrite <- Hdc in Hr, L2.
  apply (conditions_no_effect P fuel r2 (fpre fd) st1 st2 (fun_ctx true fd)); auto.
Qed.

(* the strict analysis reports at least what the code-shaped analysis reports for the three added observations:
   a program the strict analysis accepts contains none of the three constructs in view-checked code; conversely the
   programs below are accepted by the code-shaped analysis and do have effects. *)

(* ---------------------------------------------------------------- the fixed world of the correspondence run is well-formed *)
Lemma init_state_ok P : wf_state P init_state.
Proof.
  intros l c H. unfold init_state in H. simpl in H.
  do 13 (destruct l as [|l]; [inversion H; subst; split; [reflexivity|simpl; auto]|simpl in H]).
  destruct l; discriminate.
Qed.

Lemma genv_fun' st : env_fun st genv.
Proof.
  intros x b Hb [v Hv]. unfold genv in Hb. simpl in Hb.
  repeat (match type of Hb with context [Nat.eqb ?a ?b] => destruct (Nat.eqb a b) end;
          [inversion Hb; subst; simpl in Hv; discriminate|]).
  discriminate.
Qed.

Lemma genv_le' : env_le genv 0.
Proof.
  intros x b Hb. unfold genv in Hb. simpl in Hb.
  repeat (match type of Hb with context [Nat.eqb ?a ?b] => destruct (Nat.eqb a b) end;
          [inversion Hb; subst; simpl; lia|]).
  discriminate.
Qed.

Lemma test_args_ok P : wf_args P init_state test_args.
Proof.
  assert (Hpf : vok P init_state pf_v).
  { unfold pf_v. simpl. split; [apply genv_fun'|]. split; [apply genv_le'|]. intro; discriminate. }
  assert (Hpvf : vok P init_state pvf_v).
  { unfold pvf_v. simpl. split; [apply genv_fun'|]. split; [apply genv_le'|]. intro; reflexivity. }
  unfold wf_args, test_args.
  repeat match goal with
         | |- Forall _ [] => constructor
         | |- Forall _ (pf_v :: _) => constructor; [exact Hpf|]
         | |- Forall _ (pvf_v :: _) => constructor; [exact Hpvf|]
         | |- Forall _ (_ :: _) => constructor; [simpl; exact I|]
         end.
Qed.

(* ---------------------------------------------------------------- refutations of the full-strength statement *)
Definition full_statement_call : Prop := forall P fuel fd self vs st v st',
  chk_prog false P = [] -> In fd P -> fview fd = true -> finit fd = false ->
  wf_state P st -> wf_args P st vs ->
  call fuel P fd self vs st = Ok (v, st') -> unchanged st st'.

Definition full_statement_init : Prop := forall P fuel k vs st v st',
  chk_prog false P = [] -> init_view P k = true ->
  wf_state P st -> wf_args P st vs ->
  construct fuel P k vs st = Ok (v, st') -> unchanged st st'.

Lemma find_method_In P m fd : find_method P m = Some fd -> In fd P /\ finit fd = false.
Proof. apply find_method_in. Qed.

(* (a) `view fun m9(...) { emit Ev(x: 5); return 1 }` is accepted and emits an event *)
Theorem refuted_emit_in_view_body : ~ full_statement_call.
Proof.
  intro H.
  destruct (find_method w_emit_in_view_body 9) as [fd|] eqn:Hfd; [|vm_compute in Hfd; discriminate].
  destruct (find_method_In _ _ _ Hfd) as [Hin Hni].
  assert (Hv : fview fd = true) by (vm_compute in Hfd; inversion Hfd; reflexivity).
  destruct (call 80 w_emit_in_view_body fd (Some (6, [])) test_args init_state) as [[v st']|] eqn:Hc;
    [|vm_compute in Hfd; inversion Hfd; subst; vm_compute in Hc; discriminate].
  assert (Hacc : chk_prog false w_emit_in_view_body = []) by (vm_compute; reflexivity).
  pose proof (H _ _ _ _ _ _ _ _ Hacc Hin Hv Hni (init_state_ok _) (test_args_ok _) Hc) as [_ [_ [_ [ev [He Hco]]]]].
  vm_compute in Hfd. inversion Hfd; subst. vm_compute in Hc. inversion Hc; subst. simpl in He.
  subst ev. inversion Hco; subst. simpl in *. discriminate.
Qed.

(* (c) `view fun m9(..., pr: @R): @R { return <- attach A() to <-pr }` is accepted and changes the resource *)
Theorem refuted_attach_in_view : ~ full_statement_call.
Proof.
  intro H.
  destruct (find_method w_view_attach_to_resource 9) as [fd|] eqn:Hfd; [|vm_compute in Hfd; discriminate].
  destruct (find_method_In _ _ _ Hfd) as [Hin Hni].
  assert (Hv : fview fd = true) by (vm_compute in Hfd; inversion Hfd; reflexivity).
  assert (Ha : wf_args w_view_attach_to_resource init_state (test_args ++ [VRes 9])).
  { apply Forall_app. split; [apply test_args_ok|repeat constructor]. }
  destruct (call 80 w_view_attach_to_resource fd (Some (10, [])) (test_args ++ [VRes 9]) init_state) as [[v st']|] eqn:Hc;
    [|vm_compute in Hfd; inversion Hfd; subst; vm_compute in Hc; discriminate].
  assert (Hacc : chk_prog false w_view_attach_to_resource = []) by (vm_compute; reflexivity).
  pose proof (H _ _ _ _ _ _ _ _ Hacc Hin Hv Hni (init_state_ok _) Ha Hc) as [Hcells _].
  assert (H9 : nth_error (cells init_state) 9 = Some (mkCell TObj (mkR 51 [1%Z] []))) by reflexivity.
  specialize (Hcells _ _ H9).
  vm_compute in Hfd. inversion Hfd; subst. vm_compute in Hc. inversion Hc; subst.
  vm_compute in Hcells. discriminate.
Qed.

(* (b) `view init(...) { ...; self.refs[0].x = 9 }` is accepted and writes through the reference;
       `view init(...) { ...; self.kids[0].x = 5 }` (resource R) is accepted and changes the resource it was given *)
Theorem refuted_view_init_self_chain : ~ full_statement_init.
Proof.
  intro H.
  assert (Ha : wf_args w_view_init_writes_through_self_refs init_state
                 [VInt 81; ints [1%Z; 2%Z]; VArr [s2v]; VArr [VRef 5 []]; VDict [(3%Z, 4%Z)]; VInt 1]) by (repeat constructor).
  destruct (construct 80 w_view_init_writes_through_self_refs KS
              [VInt 81; ints [1%Z; 2%Z]; VArr [s2v]; VArr [VRef 5 []]; VDict [(3%Z, 4%Z)]; VInt 1] init_state) as [[v st']|] eqn:Hc;
    [|vm_compute in Hc; discriminate].
  assert (Hacc : chk_prog false w_view_init_writes_through_self_refs = []) by (vm_compute; reflexivity).
  assert (Hiv : init_view w_view_init_writes_through_self_refs KS = true) by (vm_compute; reflexivity).
  pose proof (H _ _ _ _ _ _ _ Hacc Hiv (init_state_ok _) Ha Hc) as [Hcells _].
  assert (H5 : nth_error (cells init_state) 5 = Some (mkCell TS s2v)) by reflexivity.
  specialize (Hcells _ _ H5).
  vm_compute in Hc. inversion Hc; subst. vm_compute in Hcells. discriminate.
Qed.

Theorem refuted_view_init_self_resource : ~ full_statement_init.
Proof.
  intro H.
  assert (Ha : wf_args w_view_init_writes_through_self_resource init_state
                 [VInt 91; ints [6%Z; 7%Z]; VArr [VRes 9]; VInt 1]) by (repeat constructor).
  destruct (construct 80 w_view_init_writes_through_self_resource KR
              [VInt 91; ints [6%Z; 7%Z]; VArr [VRes 9]; VInt 1] init_state) as [[v st']|] eqn:Hc;
    [|vm_compute in Hc; discriminate].
  assert (Hacc : chk_prog false w_view_init_writes_through_self_resource = []) by (vm_compute; reflexivity).
  assert (Hiv : init_view w_view_init_writes_through_self_resource KR = true) by (vm_compute; reflexivity).
  pose proof (H _ _ _ _ _ _ _ Hacc Hiv (init_state_ok _) Ha Hc) as [Hcells _].
  assert (H9 : nth_error (cells init_state) 9 = Some (mkCell TObj (mkR 51 [1%Z] []))) by reflexivity.
  specialize (Hcells _ _ H9).
  vm_compute in Hc. inversion Hc; subst. vm_compute in Hcells. discriminate.
Qed.

(* the strict analysis rejects exactly these witnesses at the offending statement *)
Example strict_rejects_witnesses :
  chk_prog true w_emit_in_view_body <> [] /\ chk_prog true w_view_attach_to_resource <> [] /\
  chk_prog true w_view_init_writes_through_self_refs <> [] /\ chk_prog true w_view_init_writes_through_self_resource <> [].
Proof. vm_compute. repeat split; discriminate. Qed.
