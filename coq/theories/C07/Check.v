(* C07  The checker's purity analysis, transcribed from
     sema/checker.go            PurityCheckScope, InNewPurityScope, EnforcePurity, ObserveImpureOperation
     sema/check_assignment.go   enforceViewAssignment, rootOfAccessChain, isWriteableInViewContext
     sema/check_swap.go, check_destroy_expression.go, check_invocation_expression.go,
     sema/check_function.go (purity scope of a function body), check_conditions.go (conditions are view scopes),
     sema/check_emit_statement.go, check_attach_expression.go
   The purity of built-in member functions is NOT written here: it is looked up in Gen/GenC07Purity.v, which is
   regenerated from the sema package on every run.

   The result of checking is the list of source lines at which a PurityError is reported, in report order.

   [strict] = false is the transcription of the code.  [strict] = true adds three observations that the
   property requires and the code does not make (see Properties/C07.v):
     (a) an `emit` statement in a function body is an impure operation;
     (b) in an initializer, an assignment target rooted at `self` must not go through a reference- or
         resource-typed member/element;
     (c) attaching to a resource is an impure operation, and so is removing an attachment (the code only applies the
         view-assignment rule to the base, which (b) lets through for `self`-rooted bases in initializers). *)
From CV Require Export C07.Syntax.
From CV Require Import Gen.GenC07Purity.
From Coq Require Import String.

(* ---------------------------------------------------------------- built-in purity table *)
Definition bname (b : builtin) : string :=
  match b with
  | BAppend => "Array.append" | BRemoveFirst => "Array.removeFirst" | BInsert => "Array.insert"
  | BContains => "Array.contains" | BConcat => "Array.concat"
  | BDInsert => "Dictionary.insert" | BDRemove => "Dictionary.remove" | BDContainsKey => "Dictionary.containsKey"
  | BSave => "Account.Storage.save" | BLoad => "Account.Storage.load" | BCopy => "Account.Storage.copy"
  | BBorrow => "Account.Storage.borrow" | BCheck => "Account.Storage.check"
  end%string.

Definition find_builtin (n : string) : option bentry := find (fun e => String.eqb (bn e) n) builtins.

(* FunctionType.Purity of the built-in member, as declared by sema (absent = not callable = impure) *)
Definition builtin_view (b : builtin) : bool :=
  match find_builtin (bname b) with Some e => bview e | None => false end.

(* ---------------------------------------------------------------- checker state *)
Record sbind : Type := mkSB { sdepth : nat; sty : ty; skind : vkind }.   (* sema.Variable: ActivationDepth, Type, DeclarationKind *)
Definition senv := list (nat * sbind).

Record cctx : Type := mkC {
  enforce : bool;        (* CurrentPurityScope().EnforcePurity *)
  scdepth : nat;         (* CurrentPurityScope().ActivationDepth *)
  depth : nat;           (* ValueActivationDepth() *)
  ininit : bool;         (* functionActivations.Current().InitializationInfo != nil *)
  strict : bool }.

(* ObserveImpureOperation *)
Definition observe (c : cctx) (ln : nat) : list nat := if enforce c then [ln] else [].
(* EnforcePurity *)
Definition enforce_purity (c : cctx) (ln : nat) (view : bool) : list nat := if view then [] else observe c ln.

Fixpoint static_ty (G : senv) (t : target) : option ty :=
  match t with
  | TgVar x => option_map sty (alookup x G)
  | TgField t' n => match static_ty G t' with Some T => field_ty T n | None => None end
  | TgIndex t' _ => match static_ty G t' with Some T => elem_ty T | None => None end
  end.

Fixpoint root (t : target) : nat :=
  match t with TgVar x => x | TgField t' _ => root t' | TgIndex t' _ => root t' end.

Definition writeable_at (G : senv) (t : target) : bool :=
  match static_ty G t with Some T => writeable T | None => false end.

(* every type of the access chain except the root variable's is writeable in a view context *)
Fixpoint pref_ok (G : senv) (t : target) : bool :=
  match t with
  | TgVar _ => true
  | TgField t' _ => writeable_at G t && pref_ok G t'
  | TgIndex t' _ => writeable_at G t && pref_ok G t'
  end.

(* for _, t := range accessChain { if !isWriteableInViewContext(t) {...} }   (chain includes the root variable's type) *)
Definition chain_ok (G : senv) (t : target) : bool := writeable_at G (TgVar (root t)) && pref_ok G t.

(* strict rule (b): the members/elements the target goes *through* (not the root `self`, not the assigned slot) *)
Definition self_mids_ok (G : senv) (t : target) : bool :=
  match t with
  | TgVar _ => true
  | TgField t' _ | TgIndex t' _ =>
      pref_ok G t' && match static_ty G t with Some _ => true | None => false end
  end.

(* enforceViewAssignment *)
Definition view_assign (G : senv) (c : cctx) (ln : nat) (t : target) : list nat :=
  if negb (enforce c) then [] else
  match alookup (root t) G with
  | None => [ln]                                           (* baseVariable == nil *)
  | Some b =>
    match skind b with
    | KSelf =>
        if ininit c
        then (if strict c && negb (self_mids_ok G t) then [ln] else [])
        else [ln]
    | KVar =>
        if negb (chain_ok G t) then [ln]
        else if Nat.ltb (sdepth b) (scdepth c) then [ln]   (* scope.ActivationDepth > baseVariable.ActivationDepth *)
        else []
    end
  end.

Definition fun_view (P : prog) (f : nat) : bool :=
  match find_global P f with Some fd => fview fd | None => false end.
Definition method_view (P : prog) (m : nat) : bool :=
  match find_method P m with Some fd => fview fd | None => false end.
(* checker.initializerPurity: no initializer = view *)
Definition init_view (P : prog) (k : ckind) : bool :=
  match find_init P k with Some fd => fview fd | None => true end.

Definition bind_params_s (ps : list (nat * ty)) (d : nat) (G : senv) : senv :=
  fold_left (fun G p => (fst p, mkSB d (snd p) KVar) :: G) ps G.

Definition with_depth (c : cctx) (d : nat) : cctx := mkC (enforce c) (scdepth c) d (ininit c) (strict c).

Fixpoint chk_exp (P : prog) (G : senv) (c : cctx) (ln : nat) (e : exp) {struct e} : list nat :=
  match e with
  | EInt _ => []
  | ERead _ => []
  | EAdd a b => chk_exp P G c ln a ++ chk_exp P G c ln b
  | ENew k args => enforce_purity c ln (init_view P k) ++ chk_exps P G c ln args
  | EArr es => chk_exps P G c ln es
  | EDict _ => []
  | ERef _ => []
  | EDeref e1 => chk_exp P G c ln e1
  | ECallG f args => enforce_purity c ln (fun_view P f) ++ chk_exps P G c ln args
  | ECallM _ _ m args => enforce_purity c ln (method_view P m) ++ chk_exps P G c ln args
  | ECallB _ _ b args => enforce_purity c ln (builtin_view b) ++ chk_exps P G c ln args
  | ECallV x args =>
      enforce_purity c ln (match static_ty G (TgVar x) with Some (TFun v) => v | _ => false end)
      ++ chk_exps P G c ln args
  | EFun view ps body =>
      (* checkFunction: enterValueScope; declareParameters; InNewPurityScope(view); visitFunctionBlock: enterValueScope *)
      let d1 := S (depth c) in
      fst (chk_stmts P (bind_params_s ps d1 G) (mkC view d1 (S d1) false (strict c)) body)
  | EForce e1 => chk_exp P G c ln e1
  | ECast e1 _ => chk_exp P G c ln e1
  | EAttach e1 => chk_exp P G c ln e1 ++ (if strict c then observe c ln else [])
  | EDestroy e1 => chk_exp P G c ln e1 ++ observe c ln
  | ENilV => []
  end
with chk_exps (P : prog) (G : senv) (c : cctx) (ln : nat) (es : exps) {struct es} : list nat :=
  match es with
  | ENil => []
  | ECons e r => chk_exp P G c ln e ++ chk_exps P G c ln r
  end
with chk_stmt (P : prog) (G : senv) (c : cctx) (s : stmt) {struct s} : list nat * senv :=
  match s with
  | SLet ln x T e => (chk_exp P G c ln e, (x, mkSB (depth c) T KVar) :: G)
  | SAssign ln t e => (chk_exp P G c ln e ++ view_assign G c ln t, G)
  | SSwap ln a b => (view_assign G c ln a ++ view_assign G c ln b, G)
  | SExp ln e => (chk_exp P G c ln e, G)
  | SIf ln cnd th el =>
      (chk_exp P G c ln cnd
       ++ fst (chk_stmts P G (with_depth c (S (depth c))) th)
       ++ fst (chk_stmts P G (with_depth c (S (depth c))) el), G)
  | SReturn ln e => (chk_exp P G c ln e, G)
  | SEmit ln e => (chk_exp P G c ln e ++ (if strict c then observe c ln else []), G)
  (* check_variable_declaration.go: the second value transfer `let x <- t <- e` is checked by checkAssignment
     (isSecondaryAssignment), hence by enforceViewAssignment, with the declaration as the reported statement *)
  | SLet2 ln x T t e => (chk_exp P G c ln e ++ view_assign G c ln t, (x, mkSB (depth c) T KVar) :: G)
  (* check_remove_statement.go: enforceViewAssignment(statement, statement.Value) *)
  | SRemove ln t => (view_assign G c ln t ++ (if strict c then observe c ln else []), G)
  end
with chk_stmts (P : prog) (G : senv) (c : cctx) (ss : stmts) {struct ss} : list nat * senv :=
  match ss with
  | SNil => ([], G)
  | SCons s r =>
      let r1 := chk_stmt P G c s in
      let r2 := chk_stmts P (snd r1) c r in
      (fst r1 ++ fst r2, snd r2)
  end.

(* visitConditions: InNewPurityScope(true, ...) *)
Definition cond_ctx (c : cctx) : cctx := mkC true (depth c) (depth c) (ininit c) (strict c).

Definition chk_cond (P : prog) (G : senv) (c : cctx) (cd : cond) : list nat :=
  match cd with
  | CTest ln e => chk_exp P G (cond_ctx c) ln e
  | CEmit ln e => chk_exp P G (cond_ctx c) ln e      (* the event constructor is view (initializerPurity) *)
  end.
Definition chk_conds (P : prog) (G : senv) (c : cctx) (cs : list cond) : list nat :=
  flat_map (chk_cond P G c) cs.

(* global variables (contract fields): g: Int, gd: {Int: Int}, garr: [Int] *)
Definition genv_s : senv := [(1%nat, mkSB 0 TInt KVar); (2%nat, mkSB 0 TDict KVar); (3%nat, mkSB 0 (TArr TInt) KVar)].

Definition fun_env_s (fd : fundecl) : senv * nat :=
  match fhost fd with
  | None => (genv_s, 0%nat)
  | Some k => ((self_id, mkSB 1 (host_ty k) KSelf) :: genv_s, 1%nat)
  end.

Definition fun_ctx (st : bool) (fd : fundecl) : cctx :=
  let dp := S (snd (fun_env_s fd)) in mkC (fview fd) dp (S dp) (finit fd) st.

Definition chk_fun (st : bool) (P : prog) (fd : fundecl) : list nat :=
  let G := bind_params_s (fparams fd) (S (snd (fun_env_s fd))) (fst (fun_env_s fd)) in
  let c := fun_ctx st fd in
  (* post-conditions of the fragment mention parameters only: they are checked (and run) in the parameter scope *)
  chk_conds P G c (fpre fd) ++ fst (chk_stmts P G c (fbody fd)) ++ chk_conds P G c (fpost fd).

Definition chk_prog (st : bool) (P : prog) : list nat := flat_map (chk_fun st P) P.
