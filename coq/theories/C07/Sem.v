(* C07  Definitional interpreter (fuel-indexed) for the MiniCadence fragment of Syntax.v.

   Memory model.  Structs, arrays and dictionaries have value semantics and are stored inline as trees;
   every variable (local, parameter, global) owns one cell; every resource object and every stored value owns one
   cell.  An l-value is (cell, path).  A reference is an l-value; reads and writes through references and
   through owned resources hop to the cell they designate ([hop]).  Transfers (variable declaration, parameter
   passing, assignment, container insertion, casts) are checked dynamically against the declared type
   ([wk], the counterpart of the interpreter's checkValueTransferTargetType / checkContainerMutation) and
   fail with TypeMismatch: this is how the state invariant "every cell's content conforms to the cell's type"
   is maintained without a full static type checker in the model.  Errors:
     IndexOOB   array index out of bounds / removeFirst on empty array
     TypeMismatch  failed transfer check, force-unwrap of nil, failed cast
     CondFail   failed pre/post-condition
     UserOther  storage slot occupied on save, duplicate attachment
     Internal   shape errors that the real checker excludes statically (unbound variable, member of a non-composite...)
     OutOfFuel  model-only. *)
From CV Require Export C07.Check.
Open Scope Z_scope.

(* ---------------------------------------------------------------- dynamic conformance *)
Fixpoint wk (v : value) (T : ty) {struct v} : bool :=
  match v with
  | VInt _ => match T with TInt | TAny => true | _ => false end
  | VNil => match T with TOpt _ | TAny => true | _ => false end
  | VSome v' => match T with TOpt T' => wk v' T' | TAny => wk v' TAny | _ => false end
  | VComp k fs =>
      let Ts := match k, T with
                | KS, TS | KS, TAny => Some fields_S
                | KR, TObj => Some fields_R
                | _, _ => None end in
      match Ts with
      | None => false
      | Some Ts =>
        (fix wkl (fs : list value) (Ts : list ty) {struct fs} : bool :=
           match fs, Ts with
           | [], [] => true
           | f :: fs', T1 :: Ts' => wk f T1 && wkl fs' Ts'
           | _, _ => false
           end) fs Ts
      end
  | VArr vs =>
      match T with
      | TArr T' => forallb (fun u => wk u T') vs
      | TAny => forallb (fun u => wk u TAny) vs
      | _ => false
      end
  | VDict _ => match T with TDict | TAny => true | _ => false end
  | VRef _ _ => match T with TRef _ | TAny => true | _ => false end
  | VRes _ => match T with TR => true | _ => false end
  | VClo _ _ _ _ _ => false                       (* function values live only directly in variables: see wk_top *)
  | VAcct => match T with TAcct => true | _ => false end
  end.

(* conformance of the content of a whole cell (a variable may hold a function value) *)
Definition wk_top (v : value) (T : ty) : bool :=
  match v with
  | VClo view _ _ _ _ => match T with TFun v' => implb v' view | _ => false end
  | _ => wk v T
  end.

(* implicit optional wrapping on transfer *)
Definition conv (v : value) (T : ty) : value :=
  match T, v with
  | TOpt _, VNil => v
  | TOpt _, VSome _ => v
  | TOpt _, _ => VSome v
  | _, _ => v
  end.

(* ---------------------------------------------------------------- trees *)
Definition dict_get (kvs : list (Z * Z)) (k : Z) : value :=
  match find (fun kv => Z.eqb (fst kv) k) kvs with Some kv => VSome (VInt (snd kv)) | None => VNil end.
Definition dict_del (kvs : list (Z * Z)) (k : Z) : list (Z * Z) :=
  filter (fun kv => negb (Z.eqb (fst kv) k)) kvs.
Definition dict_set (kvs : list (Z * Z)) (k z : Z) : list (Z * Z) := dict_del kvs k ++ [(k, z)].

Fixpoint upd {A} (l : list A) (n : nat) (a : A) : list A :=
  match l, n with
  | [], _ => []
  | _ :: r, O => a :: r
  | x :: r, S n' => x :: upd r n' a
  end.

Fixpoint get_at (v : value) (p : path) : res value :=
  match p with
  | [] => Ok v
  | s :: p' =>
    match s, v with
    | PF n, VComp _ fs => match nth_error fs n with Some c => get_at c p' | None => Err Internal end
    | PI i, VArr vs => match nth_error vs i with Some c => get_at c p' | None => Err IndexOOB end
    | PK k, VDict kvs => match p' with [] => Ok (dict_get kvs k) | _ => Err Internal end
    | _, _ => Err Internal
    end
  end.

Fixpoint set_at (v : value) (p : path) (nv : value) : res value :=
  match p with
  | [] => Ok nv
  | s :: p' =>
    match s, v with
    | PF n, VComp k fs =>
        match nth_error fs n with
        | Some c => match set_at c p' nv with Ok c' => Ok (VComp k (upd fs n c')) | Err e => Err e end
        | None => Err Internal end
    | PI i, VArr vs =>
        match nth_error vs i with
        | Some c => match set_at c p' nv with Ok c' => Ok (VArr (upd vs i c')) | Err e => Err e end
        | None => Err IndexOOB end
    | PK k, VDict kvs =>
        match p', nv with
        | [], VSome (VInt z) => Ok (VDict (dict_set kvs k z))
        | [], VNil => Ok (VDict (dict_del kvs k))
        | _, _ => Err Internal
        end
    | _, _ => Err Internal
    end
  end.

Fixpoint ty_at (T : ty) (p : path) : option ty :=
  match p with
  | [] => Some T
  | s :: p' =>
    match s, T with
    | PF n, TS => match nth_error fields_S n with Some T' => ty_at T' p' | None => None end
    | PF n, TObj => match nth_error fields_R n with Some T' => ty_at T' p' | None => None end
    | PI _, TArr T' => ty_at T' p'
    | PK _, TDict => match p' with [] => Some (TOpt TInt) | _ => None end
    | _, _ => None
    end
  end.

(* ---------------------------------------------------------------- state primitives *)
Definition lval := (nat * path)%type.

Definition read_lv (st : state) (lp : lval) : res value :=
  match nth_error (cells st) (fst lp) with
  | Some c => get_at (cval c) (snd lp)
  | None => Err Internal
  end.

(* follow a reference / an owned resource to the l-value it designates; flag: went through a reference *)
Definition hop1 (st : state) (lp : lval) : res (lval * bool) :=
  match read_lv st lp with
  | Ok (VRef l p) => Ok ((l, p), true)
  | Ok (VRes l) => Ok ((l, []), false)
  | Ok _ => Ok (lp, false)
  | Err e => Err e
  end.
Definition hop (st : state) (lp : lval) : res (lval * bool) :=
  match hop1 st lp with
  | Ok (lp1, f1) => match hop1 st lp1 with Ok (lp2, f2) => Ok (lp2, f1 || f2) | Err e => Err e end
  | Err e => Err e
  end.

Definition set_cells (st : state) (cs : list cell) : state := mkSt cs (sto st) (evs st) (dead st).

Definition write (st : state) (lp : lval) (v : value) : res state :=
  match nth_error (cells st) (fst lp) with
  | None => Err Internal
  | Some c =>
    match ty_at (cty c) (snd lp) with
    | None => Err Internal
    | Some Ts =>
      let v' := conv v Ts in
      if (match snd lp with [] => wk_top v' Ts | _ => wk v' Ts end)
      then match set_at (cval c) (snd lp) v' with
           | Ok nv => Ok (set_cells st (upd (cells st) (fst lp) (mkCell (cty c) nv)))
           | Err e => Err e end
      else Err TypeMismatch
    end
  end.

Definition alloc (st : state) (T : ty) (v : value) : nat * state :=
  (List.length (cells st), set_cells st (cells st ++ [mkCell T v])).

(* declare a variable of type T holding v (transfer check) *)
Definition bind_var (st : state) (r : env) (d : nat) (x : nat) (T : ty) (v : value) : res (env * state) :=
  let v' := conv v T in
  if wk_top v' T
  then let ls := alloc st T v' in Ok ((x, mkRB (fst ls) [] d T KVar) :: r, snd ls)
  else Err TypeMismatch.

Fixpoint bind_params (ps : list (nat * ty)) (vs : list value) (d : nat) (r : env) (st : state) : res (env * state) :=
  match ps, vs with
  | [], [] => Ok (r, st)
  | (x, T) :: ps', v :: vs' =>
      match bind_var st r d x T v with
      | Ok (r1, st1) => bind_params ps' vs' d r1 st1
      | Err e => Err e end
  | _, _ => Err Internal
  end.

Definition eval_idx (st : state) (r : env) (i : idx) : res nat :=
  match i with
  | IConst n => Ok n
  | IVar x =>
    match alookup x r with
    | None => Err Internal
    | Some b =>
      match read_lv st (rloc b, rpath b) with
      | Ok (VInt z) => if z <? 0 then Err IndexOOB else Ok (Z.to_nat z)
      | Ok _ => Err Internal
      | Err e => Err e
      end
    end
  end.

(* l-value of an access chain *)
Fixpoint eval_lv (st : state) (r : env) (t : target) : res (lval * bool) :=
  match t with
  | TgVar x => match alookup x r with Some b => Ok ((rloc b, rpath b), false) | None => Err Internal end
  | TgField t' n =>
    match eval_lv st r t' with
    | Err e => Err e
    | Ok (lp, via) =>
      match hop st lp with
      | Err e => Err e
      | Ok (lp', via') => Ok ((fst lp', snd lp' ++ [PF n]), via || via')
      end
    end
  | TgIndex t' i =>
    match eval_lv st r t' with
    | Err e => Err e
    | Ok (lp, via) =>
      match hop st lp with
      | Err e => Err e
      | Ok (lp', via') =>
        match eval_idx st r i with
        | Err e => Err e
        | Ok k =>
          match read_lv st lp' with
          | Ok (VArr _) => Ok ((fst lp', snd lp' ++ [PI k]), via || via')
          | Ok (VDict _) => Ok ((fst lp', snd lp' ++ [PK (Z.of_nat k)]), via || via')
          | Ok _ => Err Internal
          | Err e => Err e
          end
        end
      end
    end
  end.

Definition is_container (v : value) : bool :=
  match v with VComp _ _ | VArr _ | VDict _ => true | _ => false end.

(* r-value of an access chain: containers reached through a reference are read as references *)
Definition read_target (st : state) (r : env) (t : target) : res value :=
  match t, alookup (root t) r with
  | TgVar _, Some (mkRB l _ _ TObj KSelf) => Ok (VRes l)
  | _, _ =>
    match eval_lv st r t with
    | Err e => Err e
    | Ok (lp, via) =>
      match read_lv st lp with
      | Err e => Err e
      | Ok v => if via && is_container v then Ok (VRef (fst lp) (snd lp)) else Ok v
      end
    end
  end.

(* receiver of a member call: None = optional chaining on nil *)
Definition recv_lv (st : state) (r : env) (t : target) (opt : bool) : res (option lval) :=
  match eval_lv st r t with
  | Err e => Err e
  | Ok (lp, _) =>
    if opt then
      match read_lv st lp with
      | Ok VNil => Ok None
      | Ok (VSome (VRef l p)) => Ok (Some (l, p))
      | Ok _ => Err Internal
      | Err e => Err e
      end
    else match hop st lp with Ok (lp', _) => Ok (Some lp') | Err e => Err e end
  end.

(* ---------------------------------------------------------------- built-in member functions *)
(* ground truth (mirrors corpus/C07/mutates_receiver.json; tied to it by Proofs.table_consistent) *)
Definition mutating (b : builtin) : bool :=
  match b with
  | BAppend | BRemoveFirst | BInsert | BDInsert | BDRemove | BSave | BLoad => true
  | BContains | BConcat | BDContainsKey | BCopy | BBorrow | BCheck => false
  end.

Definition slot_ty (slot : Z) : ty := if slot =? 0 then TDict else TArr TInt.

Definition sto_lookup (st : state) (slot : Z) : option nat := alookup (Z.to_nat slot) (sto st).

Fixpoint insert_at {A} (l : list A) (n : nat) (a : A) : option (list A) :=
  match n, l with
  | O, _ => Some (a :: l)
  | S n', x :: r => option_map (cons x) (insert_at r n' a)
  | S _, [] => None
  end.

Definition b01 (b : bool) : value := VInt (if b then 1 else 0).
Definition is_int (z : Z) (v : value) : bool := match v with VInt y => Z.eqb y z | _ => false end.

(* built-ins that do not change the state: result only *)
Definition bsem_pure (b : builtin) (lp : lval) (args : list value) (st : state) : res value :=
  match b, args with
  | BContains, [VInt z] =>
      match read_lv st lp with Ok (VArr vs) => Ok (b01 (existsb (is_int z) vs)) | Ok _ => Err Internal | Err e => Err e end
  | BConcat, [VArr ws] =>
      match read_lv st lp with Ok (VArr vs) => Ok (VArr (vs ++ ws)) | Ok _ => Err Internal | Err e => Err e end
  | BDContainsKey, [VInt k] =>
      match read_lv st lp with
      | Ok (VDict kvs) => Ok (b01 (match dict_get kvs k with VNil => false | _ => true end))
      | Ok _ => Err Internal | Err e => Err e end
  | BCopy, [VInt slot] =>
      match sto_lookup st slot with
      | None => Ok VNil
      | Some l => match read_lv st (l, []) with Ok v => Ok (VSome v) | Err e => Err e end
      end
  | BBorrow, [VInt slot] =>
      match sto_lookup st slot with None => Ok VNil | Some l => Ok (VSome (VRef l [])) end
  | BCheck, [VInt slot] => Ok (b01 (match sto_lookup st slot with None => false | Some _ => true end))
  | _, _ => Err Internal
  end.

(* built-ins that change their receiver or the account storage *)
Definition bsem_mut (b : builtin) (lp : lval) (args : list value) (st : state) : res (value * state) :=
  match b, args with
  | BAppend, [v] =>
      match read_lv st lp with
      | Ok (VArr vs) => match write st lp (VArr (vs ++ [v])) with Ok st' => Ok (VInt 0, st') | Err e => Err e end
      | Ok _ => Err Internal | Err e => Err e end
  | BRemoveFirst, [] =>
      match read_lv st lp with
      | Ok (VArr (x :: vs)) => match write st lp (VArr vs) with Ok st' => Ok (x, st') | Err e => Err e end
      | Ok (VArr []) => Err IndexOOB
      | Ok _ => Err Internal | Err e => Err e end
  | BInsert, [VInt i; v] =>
      match read_lv st lp with
      | Ok (VArr vs) =>
          if i <? 0 then Err IndexOOB else
          match insert_at vs (Z.to_nat i) v with
          | Some vs' => match write st lp (VArr vs') with Ok st' => Ok (VInt 0, st') | Err e => Err e end
          | None => Err IndexOOB end
      | Ok _ => Err Internal | Err e => Err e end
  | BDInsert, [VInt k; VInt z] =>
      match read_lv st lp with
      | Ok (VDict kvs) =>
          match write st lp (VDict (dict_set kvs k z)) with Ok st' => Ok (dict_get kvs k, st') | Err e => Err e end
      | Ok _ => Err Internal | Err e => Err e end
  | BDRemove, [VInt k] =>
      match read_lv st lp with
      | Ok (VDict kvs) =>
          match write st lp (VDict (dict_del kvs k)) with Ok st' => Ok (dict_get kvs k, st') | Err e => Err e end
      | Ok _ => Err Internal | Err e => Err e end
  | BSave, [v; VInt slot] =>
      match sto_lookup st slot with
      | Some _ => Err UserOther
      | None =>
          if wk v (slot_ty slot)
          then let ls := alloc st (slot_ty slot) v in
               Ok (VInt 0, mkSt (cells (snd ls)) ((Z.to_nat slot, fst ls) :: sto st) (evs st) (dead st))
          else Err TypeMismatch
      end
  | BLoad, [VInt slot] =>
      match sto_lookup st slot with
      | None => Ok (VNil, st)
      | Some l =>
          match read_lv st (l, []) with
          | Ok v => Ok (VSome v, mkSt (cells st) (filter (fun e => negb (Nat.eqb (fst e) (Z.to_nat slot))) (sto st)) (evs st) (dead st))
          | Err e => Err e end
      end
  | _, _ => Err Internal
  end.

Definition bsem (b : builtin) (lp : lval) (args : list value) (st : state) : res (value * state) :=
  if mutating b then bsem_mut b lp args st
  else match bsem_pure b lp args st with Ok v => Ok (v, st) | Err e => Err e end.

(* ---------------------------------------------------------------- evaluation *)
Inductive outcome : Type := ONormal | OReturn (v : value).

Definition ret_of (o : outcome) : value := match o with OReturn v => v | ONormal => VInt 0 end.

Definition dflt_obj (k : ckind) : value :=
  match k with
  | KS => VComp KS [VInt 0; VArr []; VArr []; VArr []; VDict []]
  | KR => VComp KR [VInt 0; VArr []; VArr []; VInt 0]
  end.

Definition genv : env :=
  [(1%nat, mkRB 0 [] 0 TInt KVar); (2%nat, mkRB 1 [] 0 TDict KVar); (3%nat, mkRB 2 [] 0 (TArr TInt) KVar)].

Definition fun_env (fd : fundecl) (self : option lval) : res (env * nat) :=
  match fhost fd, self with
  | None, _ => Ok (genv, 0%nat)
  | Some k, Some lp => Ok ((self_id, mkRB (fst lp) (snd lp) 1 (host_ty k) KSelf) :: genv, 1%nat)
  | Some _, None => Err Internal
  end.

Definition add_event (st : state) (c : bool) (z : Z) : state :=
  mkSt (cells st) (sto st) (evs st ++ [(c, z)]) (dead st).

Fixpoint eval (fuel : nat) (P : prog) (r : env) (d : nat) (e : exp) (st : state) {struct fuel} : res (value * state) :=
  match fuel with
  | O => Err OutOfFuel
  | S f =>
    match e with
    | EInt z => Ok (VInt z, st)
    | ERead t => match read_target st r t with Ok v => Ok (v, st) | Err e => Err e end
    | EAdd a b =>
        match eval f P r d a st with
        | Err e => Err e
        | Ok (va, st1) =>
          match eval f P r d b st1 with
          | Err e => Err e
          | Ok (vb, st2) =>
            match va, vb with VInt x, VInt y => Ok (VInt (x + y), st2) | _, _ => Err Internal end
          end
        end
    | ENew k args =>
        match eval_list f P r d args st with
        | Err e => Err e
        | Ok (vs, st1) => construct f P k vs st1
        end
    | EArr es =>
        match eval_list f P r d es st with
        | Err e => Err e
        | Ok (vs, st1) => Ok (VArr vs, st1)
        end
    | EDict kvs => Ok (VDict kvs, st)
    | ERef t =>
        match eval_lv st r t with
        | Err e => Err e
        | Ok (lp, _) => match hop st lp with Ok (lp', _) => Ok (VRef (fst lp') (snd lp'), st) | Err e => Err e end
        end
    | EDeref e1 =>
        match eval f P r d e1 st with
        | Err e => Err e
        | Ok (VRef l p, st1) => match read_lv st1 (l, p) with Ok v => Ok (v, st1) | Err e => Err e end
        | Ok _ => Err Internal
        end
    | ECallG g args =>
        match eval_list f P r d args st with
        | Err e => Err e
        | Ok (vs, st1) =>
          match find_global P g with
          | Some fd => call f P fd None vs st1
          | None => Err Internal
          end
        end
    | ECallM t opt m args =>
        match recv_lv st r t opt with
        | Err e => Err e
        | Ok None => Ok (VNil, st)
        | Ok (Some lp) =>
          match eval_list f P r d args st with
          | Err e => Err e
          | Ok (vs, st1) =>
            match find_method P m with
            | Some fd =>
                match call f P fd (Some lp) vs st1 with
                | Ok (v, st2) => Ok (if opt then conv v (TOpt TAny) else v, st2)
                | Err e => Err e end
            | None => Err Internal
            end
          end
        end
    | ECallB t opt b args =>
        match recv_lv st r t opt with
        | Err e => Err e
        | Ok None => Ok (VNil, st)
        | Ok (Some lp) =>
          match eval_list f P r d args st with
          | Err e => Err e
          | Ok (vs, st1) =>
            match bsem b lp vs st1 with
            | Ok (v, st2) => Ok (if opt then conv v (TOpt TAny) else v, st2)
            | Err e => Err e end
          end
        end
    | ECallV x args =>
        match read_target st r (TgVar x) with
        | Ok (VClo _ ce cd ps body) =>
          match eval_list f P r d args st with
          | Err e => Err e
          | Ok (vs, st1) => call_clo f P ce cd ps body vs st1
          end
        | Ok _ => Err Internal
        | Err e => Err e
        end
    | EFun view ps body => Ok (VClo view r d ps body, st)
    | EForce e1 =>
        match eval f P r d e1 st with
        | Err e => Err e
        | Ok (VSome v, st1) => Ok (v, st1)
        | Ok (VNil, _) => Err TypeMismatch
        | Ok (v, st1) => Ok (v, st1)
        end
    | ECast e1 T =>
        match eval f P r d e1 st with
        | Err e => Err e
        | Ok (v, st1) => if wk_top v T then Ok (v, st1) else Err TypeMismatch
        end
    | EAttach e1 =>
        match eval f P r d e1 st with
        | Err e => Err e
        | Ok (VRes l, st1) =>
          match read_lv st1 (l, [PF 3%nat]) with
          | Ok (VInt 0) => match write st1 (l, [PF 3%nat]) (VInt 1) with Ok st2 => Ok (VRes l, st2) | Err e => Err e end
          | Ok _ => Err UserOther
          | Err e => Err e
          end
        | Ok _ => Err Internal
        end
    | EDestroy e1 =>
        match eval f P r d e1 st with
        | Err e => Err e
        | Ok (VRes l, st1) => Ok (VInt 0, mkSt (cells st1) (sto st1) (evs st1) (l :: dead st1))
        | Ok (VSome (VRes l), st1) => Ok (VInt 0, mkSt (cells st1) (sto st1) (evs st1) (l :: dead st1))
        | Ok (VNil, st1) => Ok (VInt 0, st1)
        | Ok _ => Err Internal
        end
    | ENilV => Ok (VNil, st)
    end
  end
with eval_list (fuel : nat) (P : prog) (r : env) (d : nat) (es : exps) (st : state) {struct fuel} : res (list value * state) :=
  match fuel with
  | O => Err OutOfFuel
  | S f =>
    match es with
    | ENil => Ok ([], st)
    | ECons e rest =>
      match eval f P r d e st with
      | Err e => Err e
      | Ok (v, st1) =>
        match eval_list f P r d rest st1 with
        | Err e => Err e
        | Ok (vs, st2) => Ok (v :: vs, st2)
        end
      end
    end
  end
with exec (fuel : nat) (P : prog) (r : env) (d : nat) (s : stmt) (st : state) {struct fuel} : res (outcome * env * state) :=
  match fuel with
  | O => Err OutOfFuel
  | S f =>
    match s with
    | SLet _ x T e =>
        match eval f P r d e st with
        | Err e => Err e
        | Ok (v, st1) =>
          match bind_var st1 r d x T v with
          | Ok (r1, st2) => Ok (ONormal, r1, st2)
          | Err e => Err e end
        end
    | SAssign _ t e =>
        (* the target's access chain is evaluated first, then the value, then the slot is written *)
        match eval_lv st r t with
        | Err e => Err e
        | Ok (lp, _) =>
          match eval f P r d e st with
          | Err e => Err e
          | Ok (v, st1) => match write st1 lp v with Ok st2 => Ok (ONormal, r, st2) | Err e => Err e end
          end
        end
    | SSwap _ a b =>
        match eval_lv st r a, eval_lv st r b with
        | Ok (la, _), Ok (lb, _) =>
          match read_lv st la, read_lv st lb with
          | Ok va, Ok vb =>
            match write st la vb with
            | Err e => Err e
            | Ok st1 => match write st1 lb va with Ok st2 => Ok (ONormal, r, st2) | Err e => Err e end
            end
          | Err e, _ => Err e
          | _, Err e => Err e
          end
        | Err e, _ => Err e
        | _, Err e => Err e
        end
    | SExp _ e =>
        match eval f P r d e st with
        | Err e => Err e
        | Ok (_, st1) => Ok (ONormal, r, st1)
        end
    | SIf _ c th el =>
        match eval f P r d c st with
        | Err e => Err e
        | Ok (VInt z, st1) =>
          match exec_list f P r (S d) (if z =? 0 then el else th) st1 with
          | Ok (o, _, st2) => Ok (o, r, st2)
          | Err e => Err e end
        | Ok _ => Err Internal
        end
    | SReturn _ e =>
        match eval f P r d e st with
        | Err e => Err e
        | Ok (v, st1) => Ok (OReturn v, r, st1)
        end
    | SEmit _ e =>
        match eval f P r d e st with
        | Err e => Err e
        | Ok (VInt z, st1) => Ok (ONormal, r, add_event st1 false z)
        | Ok _ => Err Internal
        end
    | SLet2 _ x T t e =>
        (* the target is evaluated and its value moved into x; the second value is evaluated; the target is
           evaluated again and the second value moved into it *)
        match eval_lv st r t with
        | Err e => Err e
        | Ok (lp0, _) =>
          match read_lv st lp0 with
          | Err e => Err e
          | Ok old =>
            match eval f P r d e st with
            | Err e => Err e
            | Ok (v, st1) =>
              match eval_lv st1 r t with
              | Err e => Err e
              | Ok (lp, _) =>
                match write st1 lp v with
                | Err e => Err e
                | Ok st2 =>
                  match bind_var st2 r d x T old with
                  | Ok (r1, st3) => Ok (ONormal, r1, st3)
                  | Err e => Err e
                  end
                end
              end
            end
          end
        end
    | SRemove _ t =>
        match eval_lv st r t with
        | Err e => Err e
        | Ok (lp, _) =>
          match read_lv st lp with
          | Ok (VRes l) =>
              match write st (l, [PF 3%nat]) (VInt 0) with Ok st1 => Ok (ONormal, r, st1) | Err e => Err e end
          | Ok _ => Err Internal
          | Err e => Err e
          end
        end
    end
  end
with exec_list (fuel : nat) (P : prog) (r : env) (d : nat) (ss : stmts) (st : state) {struct fuel} : res (outcome * env * state) :=
  match fuel with
  | O => Err OutOfFuel
  | S f =>
    match ss with
    | SNil => Ok (ONormal, r, st)
    | SCons s rest =>
      match exec f P r d s st with
      | Err e => Err e
      | Ok (OReturn v, r1, st1) => Ok (OReturn v, r1, st1)
      | Ok (ONormal, r1, st1) => exec_list f P r1 d rest st1
      end
    end
  end
with run_conds (fuel : nat) (P : prog) (r : env) (d : nat) (cs : list cond) (st : state) {struct fuel} : res state :=
  match fuel with
  | O => Err OutOfFuel
  | S f =>
    match cs with
    | [] => Ok st
    | CTest _ e :: rest =>
      match eval f P r d e st with
      | Err e => Err e
      | Ok (VInt z, st1) => if z =? 0 then Err CondFail else run_conds f P r d rest st1
      | Ok _ => Err Internal
      end
    | CEmit _ e :: rest =>
      match eval f P r d e st with
      | Err e => Err e
      | Ok (VInt z, st1) => run_conds f P r d rest (add_event st1 true z)
      | Ok _ => Err Internal
      end
    end
  end
(* call of a declared function / method / initializer: self = receiver l-value *)
with call (fuel : nat) (P : prog) (fd : fundecl) (self : option lval) (vs : list value) (st : state) {struct fuel} : res (value * state) :=
  match fuel with
  | O => Err OutOfFuel
  | S f =>
    match fun_env fd self with
    | Err e => Err e
    | Ok (r1, d1) =>
      match bind_params (fparams fd) vs (S d1) r1 st with
      | Err e => Err e
      | Ok (r2, st1) =>
        match run_conds f P r2 (S (S d1)) (fpre fd) st1 with
        | Err e => Err e
        | Ok st2 =>
          match exec_list f P r2 (S (S d1)) (fbody fd) st2 with
          | Err e => Err e
          | Ok (o, _, st3) =>
            match run_conds f P r2 (S (S d1)) (fpost fd) st3 with
            | Err e => Err e
            | Ok st4 => Ok (ret_of o, st4)
            end
          end
        end
      end
    end
  end
with call_clo (fuel : nat) (P : prog) (ce : env) (cd : nat) (ps : list (nat * ty)) (body : stmts) (vs : list value) (st : state) {struct fuel} : res (value * state) :=
  match fuel with
  | O => Err OutOfFuel
  | S f =>
    match bind_params ps vs (S cd) ce st with
    | Err e => Err e
    | Ok (r2, st1) =>
      match exec_list f P r2 (S (S cd)) body st1 with
      | Err e => Err e
      | Ok (o, _, st2) => Ok (ret_of o, st2)
      end
    end
  end
(* S(args) / create R(args) *)
with construct (fuel : nat) (P : prog) (k : ckind) (vs : list value) (st : state) {struct fuel} : res (value * state) :=
  match fuel with
  | O => Err OutOfFuel
  | S f =>
    let ls := alloc st (host_ty k) (dflt_obj k) in
    match find_init P k with
    | None =>
        match vs with
        | [] => Ok (match k with KS => dflt_obj KS | KR => VRes (fst ls) end, snd ls)
        | _ => Err Internal
        end
    | Some fd =>
        match call f P fd (Some (fst ls, [])) vs (snd ls) with
        | Err e => Err e
        | Ok (_, st2) =>
          match k with
          | KS => match read_lv st2 (fst ls, []) with Ok v => Ok (v, st2) | Err e => Err e end
          | KR => Ok (VRes (fst ls), st2)
          end
        end
    end
  end.
