(* C07  The wiring of the purity analysis that Check.v transcribes, against the wiring read from the sema sources of
   the tree under check (Gen/GenC07Purity.v, purity_sites):
     - every invocation goes through EnforcePurity (checkInvocationExpression);
     - purity scopes are opened for function bodies, conditions and the `before` statements of post-conditions;
     - destroy observes an impure operation;
     - enforceViewAssignment is reached from checkAssignment -- the helper shared by assignment statements (=, <-, <-!)
       AND by the second value transfer of a variable declaration (let x <- t <- e) --, twice from swap, once from remove. *)
From Coq Require Import String List Bool Arith.
Import ListNotations.
From CV Require Import Gen.GenC07Purity.
Local Open Scope string_scope.

Definition expected_sites : list (string * string * nat) := [
  ("EnforcePurity", "checkInvocationExpression", 1);
  ("InNewPurityScope", "checkFunction", 1);
  ("InNewPurityScope", "visitConditions", 1);
  ("InNewPurityScope", "visitWithPostConditions", 1);
  ("ObserveImpureOperation", "EnforcePurity", 1);
  ("ObserveImpureOperation", "VisitDestroyExpression", 1);
  ("ObserveImpureOperation", "enforceViewAssignment", 4);
  ("checkAssignment", "VisitAssignmentStatement", 1);
  ("checkAssignment", "visitVariableDeclarationValues", 1);
  ("enforceViewAssignment", "VisitRemoveStatement", 1);
  ("enforceViewAssignment", "VisitSwapStatement", 2);
  ("enforceViewAssignment", "checkAssignment", 1)
]%nat.

Definition site_eqb (a b : string * string * nat) : bool :=
  String.eqb (fst (fst a)) (fst (fst b)) && String.eqb (snd (fst a)) (snd (fst b)) && Nat.eqb (snd a) (snd b).

Fixpoint sites_eqb (a b : list (string * string * nat)) : bool :=
  match a, b with
  | [], [] => true
  | x :: a', y :: b' => site_eqb x y && sites_eqb a' b'
  | _, _ => false
  end.

Lemma purity_wiring : sites_eqb purity_sites expected_sites = true.
Proof. vm_compute. reflexivity. Qed.
