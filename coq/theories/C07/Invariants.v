(* C07  Invariants of view-checked execution and the lemmas about the state primitives.

   Everything is relative to a program P and a mark n0 (the number of cells that existed when the view call
   started).  [step st st'] says that st' differs from st only in cells allocated at or after n0, in their
   number, and in events declared by emit conditions. *)
From CV Require Import C07.Sem C07.Lemmas.
Open Scope nat_scope.

Section Inv.
Variable P : prog.
Variable n0 : nat.

Definition bind_typed (st : state) (b : rbind) : Prop :=
  rpath b = [] /\ exists c, nth_error (cells st) (rloc b) = Some c /\ cty c = rty b.

(* variables of function type are typed by their cell *)
Definition env_fun (st : state) (r : env) : Prop :=
  forall x b, alookup x r = Some b -> (exists v, rty b = TFun v) -> bind_typed st b.

Definition env_le (r : env) (d : nat) : Prop := forall x b, alookup x r = Some b -> rdepth b <= d.

(* the body of a view closure passed the (strict) purity check in the environment it captured *)
Definition clo_chk (ce : env) (cd : nat) (ps : list (nat * ty)) (body : stmts) : Prop :=
  fst (chk_stmts P (bind_params_s ps (S cd) (senv_of ce)) (mkC true (S cd) (S (S cd)) false true) body) = [].

Fixpoint vok (st : state) (v : value) : Prop :=
  match v with
  | VClo view ce cd ps body => env_fun st ce /\ env_le ce cd /\ (view = true -> clo_chk ce cd ps body)
  | VSome v' => vok st v'
  | _ => True
  end.

Definition cells_ok (st : state) : Prop :=
  forall l c, nth_error (cells st) l = Some c -> wk_top (cval c) (cty c) = true /\ vok st (cval c).

Definition tymono (st st' : state) : Prop :=
  forall l c, nth_error (cells st) l = Some c -> exists c', nth_error (cells st') l = Some c' /\ cty c' = cty c.

Record step (st st' : state) : Prop := mkStep {
  st_pre : forall l, l < n0 -> nth_error (cells st') l = nth_error (cells st) l;
  st_sto : sto st' = sto st;
  st_dead : dead st' = dead st;
  st_evs : exists ev, evs st' = evs st ++ ev /\ Forall (fun e => fst e = true) ev;
  st_len : List.length (cells st) <= List.length (cells st');
  st_ty : tymono st st' }.

Lemma step_refl st : step st st.
Proof.
  constructor; auto.
  - exists []. rewrite app_nil_r. auto.
  - intros l c H. eauto.
Qed.

Lemma step_trans a b c : step a b -> step b c -> step a c.
Proof.
  intros [p1 s1 d1 [e1 [E1 F1]] l1 t1] [p2 s2 d2 [e2 [E2 F2]] l2 t2]. constructor.
  - intros l Hl. rewrite p2, p1; auto.
  - congruence.
  - congruence.
  - exists (e1 ++ e2). rewrite E2, E1, app_assoc. split; auto. apply Forall_app; auto.
  - lia.
  - intros l x H. destruct (t1 _ _ H) as [x' [H1 T1]]. destruct (t2 _ _ H1) as [x'' [H2 T2]].
    exists x''. split; auto. congruence.
Qed.

Lemma bind_typed_mono st st' b : tymono st st' -> bind_typed st b -> bind_typed st' b.
Proof.
  intros Hm [Hp [c [Hc Ht]]]. split; auto. destruct (Hm _ _ Hc) as [c' [Hc' Ht']].
  exists c'. split; auto. congruence.
Qed.

Lemma env_fun_mono st st' r : tymono st st' -> env_fun st r -> env_fun st' r.
Proof. intros Hm H x b Hb Hf. eapply bind_typed_mono; eauto. Qed.

Lemma vok_mono st st' v : tymono st st' -> vok st v -> vok st' v.
Proof.
  intros Hm. induction v; simpl; auto.
  intros [H1 [H2 H3]]. split; [|split]; auto. eapply env_fun_mono; eauto.
Qed.

Lemma wk_vok st v : forall T, wk v T = true -> vok st v.
Proof.
  induction v; intros T H; simpl in *; auto; try discriminate.
  destruct T; try discriminate; eauto.
Qed.

Lemma vok_conv st v T : vok st v -> vok st (conv v T).
Proof. intros H. destruct T; simpl; auto. destruct v; simpl; auto. Qed.

(* reading any l-value of a well-formed state gives a well-formed value *)
Lemma read_vok st lp v : cells_ok st -> read_lv st lp = Ok v -> vok st v.
Proof.
  intros Hc H. unfold read_lv in H. destruct (nth_error (cells st) (fst lp)) as [c|] eqn:Hn; [|discriminate].
  destruct (Hc _ _ Hn) as [Hw Hv].
  destruct (snd lp) as [|s p] eqn:Hp.
  - simpl in H. inversion H; subst; auto.
  - assert (Hcw : wk (cval c) (cty c) = true).
    { destruct (cval c); try exact Hw. simpl in H. destruct s; discriminate. }
    destruct (wk_sub _ _ _ _ Hcw H) as [T' HT']. eapply wk_vok; eauto.
Qed.

(* ---------------------------------------------------------------- allocation *)
Lemma alloc_ok st T v :
  cells_ok st -> n0 <= List.length (cells st) -> wk_top v T = true -> vok st v ->
  step st (snd (alloc st T v)) /\ cells_ok (snd (alloc st T v)) /\ fst (alloc st T v) = List.length (cells st)
  /\ nth_error (cells (snd (alloc st T v))) (List.length (cells st)) = Some (mkCell T v).
Proof.
  intros Hc Hn Hw Hv. unfold alloc; simpl.
  assert (Hm : tymono st (set_cells st (cells st ++ [mkCell T v]))).
  { intros l c H. exists c. split; auto. simpl. rewrite nth_error_app1; auto. apply nth_error_Some. congruence. }
  split; [|split; [|split]]; auto.
  - constructor; simpl; auto.
    + intros l Hl. rewrite nth_error_app1; auto. lia.
    + exists []. rewrite app_nil_r. auto.
    + rewrite app_length. lia.
  - intros l c H. simpl in H.
    destruct (Nat.lt_ge_cases l (List.length (cells st))) as [Hl|Hl].
    + rewrite nth_error_app1 in H by auto. destruct (Hc _ _ H). split; auto. eapply vok_mono; eauto.
    + rewrite nth_error_app2 in H by auto. destruct (l - List.length (cells st)) as [|k] eqn:Hk.
      * simpl in H. inversion H; subst; simpl. split; auto. eapply vok_mono; eauto.
      * simpl in H. destruct k; discriminate.
  - rewrite nth_error_app2 by lia. rewrite Nat.sub_diag. reflexivity.
Qed.

(* ---------------------------------------------------------------- writes *)
Lemma write_ok st lp v st' :
  cells_ok st -> write st lp v = Ok st' -> vok st v -> n0 <= fst lp -> step st st' /\ cells_ok st'.
Proof.
  intros Hc Hw Hv Hl. unfold write in Hw.
  destruct (nth_error (cells st) (fst lp)) as [c|] eqn:Hn; [|discriminate].
  destruct (ty_at (cty c) (snd lp)) as [Ts|] eqn:Ht; [|discriminate].
  destruct (match snd lp with [] => wk_top (conv v Ts) Ts | _ :: _ => wk (conv v Ts) Ts end) eqn:Hk; [|discriminate].
  destruct (set_at (cval c) (snd lp) (conv v Ts)) as [nv|] eqn:Hs; [|discriminate].
  inversion Hw; subst; clear Hw.
  assert (Hm : tymono st (set_cells st (upd (cells st) (fst lp) (mkCell (cty c) nv)))).
  { intros l x H. simpl. destruct (Nat.eq_dec (fst lp) l) as [<-|Hne].
    - rewrite (nth_error_upd_same _ _ _ _ Hn). eexists; split; eauto. simpl. congruence.
    - rewrite nth_error_upd_other by auto. eauto. }
  destruct (Hc _ _ Hn) as [Hcw Hcv].
  assert (Hnew : wk_top nv (cty c) = true /\ vok st nv).
  { destruct (snd lp) as [|s p] eqn:Hp.
    - simpl in Hs, Ht. inversion Hs; inversion Ht; subst. split; auto. apply vok_conv; auto.
    - assert (Hcw' : wk (cval c) (cty c) = true).
      { destruct (cval c); auto. simpl in Hs. destruct s; discriminate. }
      assert (wk nv (cty c) = true) by (eapply wk_set_at; eauto).
      split; [apply wk_wk_top; auto | eapply wk_vok; eauto]. }
  split.
  - constructor; simpl; auto.
    + intros l Hlt. apply nth_error_upd_other. lia.
    + exists []. rewrite app_nil_r. auto.
    + rewrite length_upd. lia.
  - intros l x H. simpl in H. destruct (Nat.eq_dec (fst lp) l) as [<-|Hne].
    + rewrite (nth_error_upd_same _ _ _ _ Hn) in H. inversion H; subst; simpl.
      destruct Hnew. split; auto. eapply vok_mono; eauto.
    + rewrite nth_error_upd_other in H by auto. destruct (Hc _ _ H). split; auto. eapply vok_mono; eauto.
Qed.

(* ---------------------------------------------------------------- hops *)
Definition nohop (u : value) : Prop := match u with VRef _ _ | VRes _ => False | _ => True end.

Lemma hop_read st lp r : hop st lp = Ok r -> exists u, read_lv st lp = Ok u.
Proof.
  unfold hop, hop1. destruct (read_lv st lp) as [u|e]; [eauto|discriminate].
Qed.

Lemma hop_stay st lp u : read_lv st lp = Ok u -> nohop u -> hop st lp = Ok (lp, false).
Proof.
  intros H Hn. unfold hop, hop1. rewrite H.
  destruct u; simpl in Hn; try contradiction; rewrite H; reflexivity.
Qed.

Definition admits (T : ty) : Prop := (exists n T', field_ty T n = Some T') \/ (exists T', elem_ty T = Some T').

Lemma wk_top_get v T p u T' : wk_top v T = true -> ty_at T p = Some T' -> get_at v p = Ok u -> wk_top u T' = true.
Proof.
  intros Hw Ht Hg. destruct v; try (apply wk_wk_top; eapply wk_get_at; eauto; fail).
  simpl in Hw. destruct T; try discriminate.
  destruct p as [|s p]; simpl in *.
  - inversion Ht; inversion Hg; subst. simpl. auto.
  - destruct s; discriminate.
Qed.

Lemma typed_nohop u T : wk_top u T = true -> writeable T = true -> admits T -> nohop u.
Proof.
  intros Hw Hwr Ha.
  destruct u; simpl; auto; simpl in Hw.
  - destruct T; try discriminate. destruct Ha as [[n [T' H]]|[T' H]]; simpl in H; discriminate.
  - destruct T; discriminate.
Qed.

Lemma field_step u T n T' : wk_top u T = true -> nohop u -> field_ty T n = Some T' -> ty_at T [PF n] = Some T'.
Proof.
  intros Hw Hn Hf. destruct T; simpl in *; try discriminate.
  - rewrite Hf. auto.
  - destruct u; simpl in *; try discriminate; try contradiction; destruct k; discriminate.
  - rewrite Hf. auto.
  - destruct u; simpl in *; try discriminate; try contradiction; destruct k; discriminate.
Qed.

Lemma elem_step u T T' k :
  wk_top u T = true -> nohop u -> elem_ty T = Some T' ->
  match u with
  | VArr _ => ty_at T [PI k] = Some T'
  | VDict _ => forall z, ty_at T [PK z] = Some T'
  | _ => True
  end.
Proof.
  intros Hw Hn He. destruct T; simpl in *; try discriminate.
  - inversion He; subst. destruct u; simpl in *; auto; discriminate.
  - inversion He; subst. destruct u; simpl in *; auto; discriminate.
  - destruct u; simpl in *; try discriminate; try contradiction; destruct k0; discriminate.
Qed.

(* ---------------------------------------------------------------- l-values of locally rooted access chains *)
Lemma lv_local st r t b c0 :
  cells_ok st ->
  alookup (root t) r = Some b -> rpath b = [] ->
  nth_error (cells st) (rloc b) = Some c0 -> cty c0 = rty b ->
  (admits (rty b) -> nohop (cval c0)) ->
  pref_ok (senv_of r) t = true ->
  forall lp via, eval_lv st r t = Ok (lp, via) ->
    fst lp = rloc b /\
    exists T, static_ty (senv_of r) t = Some T /\ ty_at (cty c0) (snd lp) = Some T /\
              (forall u, read_lv st lp = Ok u -> admits T -> nohop u).
Proof.
  intros Hc. induction t as [x | t' IH n | t' IH i]; intros Hb Hp Hn Hty Hroot Hpref lp via Hev; simpl in *.
  - rewrite Hb in Hev. inversion Hev; subst; clear Hev. simpl. split; auto.
    exists (rty b). rewrite alookup_senv, Hb. simpl. rewrite Hp. simpl. split; auto. split; [congruence|].
    intros u Hu Ha. unfold read_lv in Hu. simpl in Hu. rewrite Hn in Hu. try rewrite Hp in Hu.
    simpl in Hu. inversion Hu; subst. auto.
  - apply andb_true_iff in Hpref. destruct Hpref as [Hwr Hpref].
    destruct (eval_lv st r t') as [[lp' via']|] eqn:Hev'; [|discriminate].
    destruct (IH Hb Hp Hn Hty Hroot Hpref _ _ eq_refl) as [Hl [T' [Hst [Hta Hnh]]]].
    destruct (hop st lp') as [[lp'' via'']|] eqn:Hh; [|discriminate].
    destruct (hop_read _ _ _ Hh) as [u Hu].
    unfold writeable_at in Hwr. simpl in Hwr. rewrite Hst in Hwr.
    destruct (field_ty T' n) as [T|] eqn:Hf; [|discriminate].
    assert (Hnu : nohop u) by (apply Hnh; auto; left; eauto).
    rewrite (hop_stay _ _ _ Hu Hnu) in Hh. inversion Hh; subst; clear Hh.
    inversion Hev; subst; clear Hev. simpl. split; auto.
    assert (Huw : wk_top u T' = true).
    { unfold read_lv in Hu. rewrite Hl, Hn in Hu. destruct (Hc _ _ Hn) as [Hw0 _]. eapply wk_top_get; eauto. }
    exists T. rewrite Hst. split; auto. split.
    + rewrite (ty_at_app _ _ _ _ Hta). eapply field_step; eauto.
    + intros u1 Hu1 Ha. eapply typed_nohop; eauto.
      unfold read_lv in Hu1. simpl in Hu1. rewrite Hl, Hn in Hu1.
      destruct (Hc _ _ Hn) as [Hw0 _]. eapply wk_top_get; eauto.
      rewrite (ty_at_app _ _ _ _ Hta). eapply field_step; eauto.
  - apply andb_true_iff in Hpref. destruct Hpref as [Hwr Hpref].
    destruct (eval_lv st r t') as [[lp' via']|] eqn:Hev'; [|discriminate].
    destruct (IH Hb Hp Hn Hty Hroot Hpref _ _ eq_refl) as [Hl [T' [Hst [Hta Hnh]]]].
    destruct (hop st lp') as [[lp'' via'']|] eqn:Hh; [|discriminate].
    destruct (hop_read _ _ _ Hh) as [u Hu].
    unfold writeable_at in Hwr. simpl in Hwr. rewrite Hst in Hwr.
    destruct (elem_ty T') as [T|] eqn:Hf; [|discriminate].
    assert (Hnu : nohop u) by (apply Hnh; auto; right; eauto).
    rewrite (hop_stay _ _ _ Hu Hnu) in Hh. inversion Hh; subst; clear Hh.
    destruct (eval_idx st r i) as [k|]; [|discriminate].
    rewrite Hu in Hev.
    assert (Huw : wk_top u T' = true).
    { unfold read_lv in Hu. rewrite Hl, Hn in Hu. destruct (Hc _ _ Hn) as [Hw0 _]. eapply wk_top_get; eauto. }
    pose proof (elem_step u T' T k Huw Hnu Hf) as Hes.
    destruct u; try discriminate; inversion Hev; subst; clear Hev; simpl; (split; [auto|]);
      exists T; rewrite Hst; (split; [auto|]).
    + assert (Hta' : ty_at (cty c0) (snd lp'' ++ [PI k]) = Some T) by (rewrite (ty_at_app _ _ _ _ Hta); auto).
      split; auto. intros u1 Hu1 Ha. eapply typed_nohop; eauto.
      unfold read_lv in Hu1. simpl in Hu1. rewrite Hl, Hn in Hu1.
      destruct (Hc _ _ Hn) as [Hw0 _]. eapply wk_top_get; eauto.
    + assert (Hta' : ty_at (cty c0) (snd lp'' ++ [PK (Z.of_nat k)]) = Some T) by (rewrite (ty_at_app _ _ _ _ Hta); auto).
      split; auto. intros u1 Hu1 Ha. eapply typed_nohop; eauto.
      unfold read_lv in Hu1. simpl in Hu1. rewrite Hl, Hn in Hu1.
      destruct (Hc _ _ Hn) as [Hw0 _]. eapply wk_top_get; eauto.
Qed.

(* the cell written by an assignment whose target passed the (strict) view-assignment rule *)
Lemma target_loc st r t b c0 lp via :
  cells_ok st ->
  alookup (root t) r = Some b -> rpath b = [] ->
  nth_error (cells st) (rloc b) = Some c0 -> cty c0 = rty b ->
  (admits (rty b) -> nohop (cval c0)) ->
  match t with
  | TgVar _ => True
  | TgField t' _ | TgIndex t' _ =>
      pref_ok (senv_of r) t' = true /\ exists T, static_ty (senv_of r) t = Some T
  end ->
  eval_lv st r t = Ok (lp, via) -> fst lp = rloc b.
Proof.
  intros Hc Hb Hp Hn Hty Hroot Hm Hev.
  destruct t as [x | t' n | t' i]; simpl in *.
  - rewrite Hb in Hev. inversion Hev; subst. auto.
  - destruct Hm as [Hpref [T HT]].
    destruct (eval_lv st r t') as [[lp' via']|] eqn:Hev'; [|discriminate].
    destruct (lv_local st r t' b c0 Hc Hb Hp Hn Hty Hroot Hpref _ _ Hev') as [Hl [T' [Hst [Hta Hnh]]]].
    destruct (hop st lp') as [[lp'' via'']|] eqn:Hh; [|discriminate].
    destruct (hop_read _ _ _ Hh) as [u Hu].
    rewrite Hst in HT.
    assert (Hnu : nohop u) by (apply Hnh; auto; left; eauto).
    rewrite (hop_stay _ _ _ Hu Hnu) in Hh. inversion Hh; subst. inversion Hev; subst. auto.
  - destruct Hm as [Hpref [T HT]].
    destruct (eval_lv st r t') as [[lp' via']|] eqn:Hev'; [|discriminate].
    destruct (lv_local st r t' b c0 Hc Hb Hp Hn Hty Hroot Hpref _ _ Hev') as [Hl [T' [Hst [Hta Hnh]]]].
    destruct (hop st lp') as [[lp'' via'']|] eqn:Hh; [|discriminate].
    destruct (hop_read _ _ _ Hh) as [u Hu].
    rewrite Hst in HT.
    assert (Hnu : nohop u) by (apply Hnh; auto; right; eauto).
    rewrite (hop_stay _ _ _ Hu Hnu) in Hh. inversion Hh; subst.
    destruct (eval_idx st r i); [|discriminate]. rewrite Hu in Hev.
    destruct u; try discriminate; inversion Hev; subst; auto.
Qed.

End Inv.
