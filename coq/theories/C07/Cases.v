(* C07  Check function for the per-run case files written by harness/c07, and the fixed world in which the
   function under test of every case is run (mirror of the driver transaction in harness/c07/prog.go). *)
From CV Require Export C07.Sem.
Open Scope Z_scope.

Definition ints (zs : list Z) : value := VArr (map VInt zs).
Definition mkS (x : Z) (arr : list Z) (kids refs : list value) (d : list (Z * Z)) : value :=
  VComp KS [VInt x; ints arr; VArr kids; VArr refs; VDict d].
Definition mkR (x : Z) (arr : list Z) (kids : list value) : value :=
  VComp KR [VInt x; ints arr; VArr kids; VInt 0].

Definition s2v : value := mkS 31 [4; 5] [] [] [].
Definition s1v : value := mkS 41 [1; 2; 3] [mkS 42 [7] [] [] []] [VRef 5 []] [(1, 10); (2, 20)].

(* cells: 0 g, 1 gd, 2 garr (contract fields); 3 /storage/s0, 4 /storage/a0; 5 s2, 6 s1, 7 a1, 8 d1 (locals of the
   transaction); 9 r1, 10 r2, 11 r2.kids[0], 12 r3 (resource objects) *)
Definition init_state : state :=
  mkSt [ mkCell TInt (VInt 7); mkCell TDict (VDict [(1, 11); (2, 12)]); mkCell (TArr TInt) (ints [5; 6; 7]);
         mkCell TDict (VDict [(1, 100); (5, 6)]); mkCell (TArr TInt) (ints [8; 9]);
         mkCell TS s2v; mkCell TS s1v; mkCell (TArr TInt) (ints [10; 20; 30]); mkCell TDict (VDict [(1, 5); (2, 6)]);
         mkCell TObj (mkR 51 [1] []); mkCell TObj (mkR 61 [2; 3] [VRes 11]); mkCell TObj (mkR 62 [] []);
         mkCell TObj (mkR 71 [] []) ]
       [(0%nat, 3%nat); (1%nat, 4%nat)] [] [].

(* let pf = fun(): Int { return C.gf2(1) };  let pvf = view fun(): Int { return 3 } *)
Definition pf_v : value := VClo false genv 0 [] (SCons (SReturn 0 (ECallG 2 (ECons (EInt 1) ENil))) SNil).
Definition pvf_v : value := VClo true genv 0 [] (SCons (SReturn 0 (EInt 3)) SNil).

Definition test_args : list value :=
  [ s1v; ints [10; 20; 30]; VArr [s1v; s2v]; VRef 6 []; VRef 7 []; VSome (VRef 7 []); VRef 6 [];
    VDict [(1, 5); (2, 6)]; VRef 8 []; pf_v; pvf_v; VAcct; VRef 12 [] ].

Definition as_int (v : value) : res Z := match v with VInt z => Ok z | _ => Err Internal end.

(* kinds: 1 method of S on s1; 2 method of R on r2 (takes and returns r1); 3 global function;
          4 initializer of S; 5 initializer of R *)
(* result, final state, and the cell of the resource that the driver observes as `r1` afterwards
   (kind 2: the resource the method returned) *)
Definition run_case (fuel : nat) (kind : nat) (P : prog) : res (Z * state * nat) :=
  match kind with
  | 1%nat =>
      match find_method P 9 with
      | Some fd => match call fuel P fd (Some (6%nat, [])) test_args init_state with
                   | Ok (v, st) => match as_int v with Ok z => Ok (z, st, 9%nat) | Err e => Err e end
                   | Err e => Err e end
      | None => Err Internal end
  | 2%nat =>
      match find_method P 9 with
      | Some fd => match call fuel P fd (Some (10%nat, [])) (test_args ++ [VRes 9]) init_state with
                   | Ok (VRes l, st) => Ok (0, st, l)
                   | Ok _ => Err Internal
                   | Err e => Err e end
      | None => Err Internal end
  | 3%nat =>
      match find_global P 9 with
      | Some fd => match call fuel P fd None test_args init_state with
                   | Ok (v, st) => match as_int v with Ok z => Ok (z, st, 9%nat) | Err e => Err e end
                   | Err e => Err e end
      | None => Err Internal end
  | 4%nat =>
      match construct fuel P KS [VInt 81; ints [1; 2]; VArr [s2v]; VArr [VRef 5 []]; VDict [(3, 4)]; VInt 1] init_state with
      | Ok (VComp KS (VInt z :: _), st) => Ok (z, st, 9%nat)
      | Ok _ => Err Internal
      | Err e => Err e end
  | 5%nat =>
      match construct fuel P KR [VInt 91; ints [6; 7]; VArr [VRes 9]; VInt 1] init_state with
      | Ok (VRes l, st) => match read_lv st (l, [PF 0%nat]) with Ok (VInt z) => Ok (z, st, 9%nat) | Ok _ => Err Internal | Err e => Err e end
      | Ok _ => Err Internal
      | Err e => Err e end
  | _ => Err Internal
  end.

(* ---- the 34 observables of contract function snap *)
Definition geti (st : state) (l : nat) (p : path) : Z :=
  match read_lv st (l, p) with
  | Ok (VInt z) => z
  | Ok (VSome (VInt z)) => z
  | _ => -1
  end.
Definition leni (st : state) (l : nat) (p : path) : Z :=
  match read_lv st (l, p) with
  | Ok (VArr vs) => Z.of_nat (List.length vs)
  | Ok (VDict kvs) => Z.of_nat (List.length kvs)
  | _ => -1
  end.
Definition firsti (st : state) (l : nat) (p : path) : Z := geti st l (p ++ [PI 0%nat]).

Definition observe_state (st : state) (r1 : nat) : list Z :=
  [ geti st 0 []; geti st 1 [PK 1]; leni st 1 []; leni st 2 []; firsti st 2 [] ]
  ++ match sto_lookup st 0 with
     | Some l => [ geti st l [PK 1]; geti st l [PK 5]; leni st l [] ]
     | None => [-1; -1; -1] end
  ++ match sto_lookup st 1 with
     | Some l => [ leni st l []; firsti st l [] ]
     | None => [-1; -1] end
  ++ [ match sto_lookup st 2 with Some _ => 1 | None => 0 end ]
  ++ [ geti st 5 [PF 0%nat]; leni st 5 [PF 1%nat] ]
  ++ [ geti st 6 [PF 0%nat]; leni st 6 [PF 1%nat]; firsti st 6 [PF 1%nat]; leni st 6 [PF 2%nat];
       geti st 6 [PF 2%nat; PI 0%nat; PF 0%nat]; leni st 6 [PF 3%nat]; geti st 6 [PF 4%nat; PK 1]; leni st 6 [PF 4%nat] ]
  ++ [ leni st 7 []; firsti st 7 []; geti st 8 [PK 1]; leni st 8 [] ]
  ++ [ geti st r1 [PF 0%nat]; leni st r1 [PF 1%nat]; geti st r1 [PF 3%nat] ]
  ++ [ geti st 10 [PF 0%nat]; leni st 10 [PF 1%nat]; leni st 10 [PF 2%nat];
       match read_lv st (10%nat, [PF 2%nat; PI 0%nat]) with Ok (VRes l) => geti st l [PF 0%nat] | _ => -1 end;
       geti st 10 [PF 3%nat] ]
  ++ [ geti st 12 [PF 0%nat] ].

Fixpoint zlist_eqb (a b : list Z) : bool :=
  match a, b with
  | [], [] => true
  | x :: a', y :: b' => Z.eqb x y && zlist_eqb a' b'
  | _, _ => false
  end.
Fixpoint nlist_eqb (a b : list nat) : bool :=
  match a, b with
  | [], [] => true
  | x :: a', y :: b' => Nat.eqb x y && nlist_eqb a' b'
  | _, _ => false
  end.

Fixpoint insert_nat (x : nat) (l : list nat) : list nat :=
  match l with
  | [] => [x]
  | y :: r => if Nat.leb x y then x :: l else y :: insert_nat x r
  end.
Definition sort_nat (l : list nat) : list nat := fold_right insert_nat [] l.

(* serialisation of a value, to compare stored contents *)
Fixpoint ser (v : value) : list Z :=
  match v with
  | VInt z => [0; z]
  | VNil => [1]
  | VSome v' => 2 :: ser v'
  | VComp _ fs => 3 :: Z.of_nat (List.length fs) :: (fix go (l : list value) : list Z := match l with [] => [] | x :: r => ser x ++ go r end) fs
  | VArr vs => 4 :: Z.of_nat (List.length vs) :: (fix go (l : list value) : list Z := match l with [] => [] | x :: r => ser x ++ go r end) vs
  | VDict kvs => 5 :: Z.of_nat (List.length kvs) :: flat_map (fun kv => [fst kv; snd kv]) kvs
  | VRef l p => [6; Z.of_nat l; Z.of_nat (List.length p)]
  | VRes l => [7; Z.of_nat l]
  | VClo _ _ _ _ _ => [8]
  | VAcct => [9]
  end.

(* account storage as the ledger sees it: the contract's fields (cells 0..2) and the stored values *)
Definition storage_view (st : state) : list (list Z) :=
  map (fun l => match nth_error (cells st) l with Some c => ser (cval c) | None => [] end) [0%nat; 1%nat; 2%nat]
  ++ map (fun s => match sto_lookup st s with
                   | Some l => match nth_error (cells st) l with Some c => 1 :: ser (cval c) | None => [] end
                   | None => [0] end) [0; 1; 2].
Definition storage_changed (st : state) : bool :=
  negb (forallb (fun ab => zlist_eqb (fst ab) (snd ab)) (combine (storage_view st) (storage_view init_state))).

Definition case_fuel : nat := 80.

(* (kind, program, purity-error sites reported by the real checker,
    None = not deployed | Some (result | error class, observables after, event payloads, ledger written)) *)
Definition check_case (c : nat * prog * list nat * option (res Z * list Z * list Z * bool)) : bool :=
  let '(kind, P, lines, obs) := c in
  (* same sites with the same multiplicities; the order in which declarations are visited is not compared *)
  nlist_eqb (sort_nat (chk_prog false P)) (sort_nat lines) &&
  match obs with
  | None => match lines with [] => false | _ => true end
  | Some (r, after, events, wrote) =>
      match lines with
      | [] =>
        match run_case case_fuel kind P, r with
        | Ok (z, st, r1), Ok z' =>
            Z.eqb z z' && zlist_eqb (observe_state st r1) after && zlist_eqb (map snd (evs st)) events
            (* a changed stored value implies ledger writes (an identity write such as `C.garr = C.garr`
               also writes: the converse is checked directly by the harness for functions accepted as view) *)
            && implb (storage_changed st) wrote
        | Err e, Err e' => err_eqb e e'
        | _, _ => false
        end
      | _ => false
      end
  end.
