(* C07  Soundness, statements and conditions: the induction step for [exec], [exec_list], [run_conds]. *)
From CV Require Import C07.Sem C07.Lemmas C07.Invariants C07.Soundness.
Open Scope nat_scope.

Section SX.
Variable P : prog.
Variable n0 : nat.

Local Notation vok := (vok P).
Local Notation cells_ok := (cells_ok P).
Local Notation step := (step n0).
Local Notation ctxok := (ctxok P n0).
Local Notation env_ok := (env_ok n0).

(* the cell written by an assignment / swap that the (strict) view-assignment rule accepts is local *)
Lemma assign_fresh st r c ln t lp via :
  enforce c = true -> strict c = true -> cells_ok st -> env_ok st r (scdepth c) (ininit c) ->
  view_assign (senv_of r) c ln t = [] ->
  eval_lv st r t = Ok (lp, via) -> n0 <= fst lp.
Proof.
  intros Hen Hst Hc Hok Hva Hev. unfold view_assign in Hva. rewrite Hen in Hva. simpl in Hva.
  rewrite alookup_senv in Hva. destruct (alookup (root t) r) as [b|] eqn:Hb; simpl in Hva; [|discriminate].
  pose proof (Hok _ _ Hb) as Hb'.
  destruct (rkind b) eqn:Hkd.
  - (* variable *)
    destruct (chain_ok (senv_of r) t) eqn:Hch; simpl in Hva; [|discriminate].
    destruct (Nat.ltb (rdepth b) (scdepth c)) eqn:Hlt; [discriminate|].
    apply Nat.ltb_ge in Hlt. destruct (Hb' Hlt) as [Hfresh [Hp [c0 [Hc0 Hty]]]].
    unfold chain_ok in Hch. apply andb_true_iff in Hch. destruct Hch as [Hwr Hpref].
    unfold writeable_at in Hwr. simpl in Hwr. rewrite alookup_senv, Hb in Hwr. simpl in Hwr.
    destruct (Hc _ _ Hc0) as [Hw0 _]. rewrite Hty in Hw0.
    assert (Hfl : fst lp = rloc b).
    { eapply (target_loc P st r t b c0); eauto.
      - intros Ha. eapply typed_nohop; eauto.
      - destruct t as [x|t' n|t' i]; auto; simpl in Hpref; apply andb_true_iff in Hpref; destruct Hpref as [Hw1 Hp1];
          (split; [exact Hp1|]); unfold writeable_at in Hw1;
          match type of Hw1 with context [match ?s with _ => _ end] => destruct s as [T1|] eqn:HT1; [eauto|discriminate] end. }
    lia.
  - (* self, inside an initializer *)
    destruct (ininit c) eqn:Hini; [|discriminate]. rewrite Hst in Hva. simpl in Hva.
    destruct (self_mids_ok (senv_of r) t) eqn:Hsm; simpl in Hva; [|discriminate].
    destruct (Hb' eq_refl) as [Hfresh [[Hp [c0 [Hc0 Hty]]] Hself]].
    destruct (Hc _ _ Hc0) as [Hw0 _]. rewrite Hty in Hw0.
    assert (Hfl : fst lp = rloc b).
    { eapply (target_loc P st r t b c0); eauto.
      - intros _. destruct Hself as [Hs|Hs]; rewrite Hs in Hw0; destruct (cval c0); simpl in *; auto; discriminate.
      - destruct t as [x|t' n|t' i]; auto; simpl in Hsm; apply andb_true_iff in Hsm; destruct Hsm as [Hp1 Hs1];
          (split; [exact Hp1|]);
          match type of Hs1 with context [match ?s with _ => _ end] => destruct s as [T1|] eqn:HT1; [eauto|discriminate] end. }
    lia.
Qed.

Lemma add_event_ok st z : cells_ok st -> step st (add_event st true z) /\ cells_ok (add_event st true z).
Proof.
  intros Hc. split.
  - constructor; simpl; auto.
    + exists [(true, z)]. split; auto.
    + intros l c H. eauto.
  - intros l c H. simpl in H. destruct (Hc _ _ H). split; auto.
    eapply vok_mono; [|eauto]. intros l' c' H'. simpl. eauto.
Qed.

Lemma with_depth_view c d : view_ctx c -> view_ctx (with_depth c d).
Proof. intros [a b]. split; auto. Qed.

Lemma env_le_weaken r d d' : d <= d' -> env_le r d -> env_le r d'.
Proof. intros H Hl x b Hb. specialize (Hl x b Hb). lia. Qed.

Lemma X_step f : IH P n0 f -> X_ P n0 (S f).
Proof.
  intros [HE [HEL [HX [HXL _]]]] r s st o r' st' c G' Hv Hk Hok Hchk Hev.
  pose proof Hv as [Hen Hst].
  destruct s as [ln x T e | ln t e | ln a b | ln e | ln cnd th el | ln e | ln e | ln x T t e | ln t]; simpl in Hev, Hchk.
  - (* SLet *)
    inversion Hchk as [[Hce HG]]; clear Hchk.
    destruct (eval f P r (depth c) e st) as [[v st1]|] eqn:Ha; [|discriminate].
    destruct (HE _ _ _ _ _ _ _ Hv Hk Hce Ha) as [S1 [C1 V1]].
    pose proof (ctxok_step _ _ _ _ _ _ Hk S1 C1) as Hk1.
    destruct (bind_var st1 r (depth c) x T v) as [[r1 st2]|] eqn:Hb; [|discriminate]. inversion Hev; subst; clear Hev.
    destruct (bind_var_ok P n0 _ _ _ _ _ _ _ _ C1 (co_len _ _ _ _ _ Hk1) V1 Hb) as [S2 [C2 [Hr1 Hcell]]].
    destruct (env_ext n0 st1 st' r (depth c) (depth c) x T (scdepth c) (ininit c) (st_ty _ _ _ S2) (co_len _ _ _ _ _ Hk1) Hcell
                (co_fun _ _ _ _ _ Hk1) (co_le _ _ _ _ _ Hk1) (Nat.le_refl _) (env_ok_mono _ _ _ _ _ _ (st_ty _ _ _ S1) Hok))
      as [F2 [L2 O2]].
    rewrite <- Hr1 in F2, L2, O2.
    split; [eapply step_trans; eauto|]. split; auto. split; [rewrite Hr1; reflexivity|].
    split; auto. split; auto. split; auto. simpl; auto.
  - (* SAssign *)
    inversion Hchk as [[Hce HG]]; clear Hchk. apply app_nil_inv in Hce. destruct Hce as [Hce Hva].
    destruct (eval_lv st r t) as [[lp via]|] eqn:Hlv; [|discriminate].
    pose proof (assign_fresh _ _ _ _ _ _ _ Hen Hst (co_cells _ _ _ _ _ Hk) Hok Hva Hlv) as Hfr.
    destruct (eval f P r (depth c) e st) as [[v st1]|] eqn:Ha; [|discriminate].
    destruct (HE _ _ _ _ _ _ _ Hv Hk Hce Ha) as [S1 [C1 V1]].
    pose proof (ctxok_step _ _ _ _ _ _ Hk S1 C1) as Hk1.
    pose proof (env_ok_mono _ _ _ _ _ _ (st_ty _ _ _ S1) Hok) as Hok1.
    destruct (write st1 lp v) as [st2|] eqn:Hw; [|discriminate]. inversion Hev; subst; clear Hev.
    destruct (write_ok P n0 _ _ _ _ C1 Hw V1 Hfr) as [S2 C2].
    pose proof (ctxok_step _ _ _ _ _ _ Hk1 S2 C2) as Hk2.
    split; [eapply step_trans; eauto|]. split; auto. split; auto.
    split; [apply Hk2|]. split; [apply Hk2|]. split; [eapply env_ok_mono; [apply (st_ty _ _ _ S2)|exact Hok1]|simpl; auto].
  - (* SSwap *)
    inversion Hchk as [[Hce HG]]; clear Hchk. apply app_nil_inv in Hce. destruct Hce as [Hva Hvb].
    destruct (eval_lv st r a) as [[la via]|] eqn:Hla; [|destruct (eval_lv st r b) as [[? ?]|]; discriminate].
    destruct (eval_lv st r b) as [[lb vib]|] eqn:Hlb; [|discriminate].
    destruct (read_lv st la) as [va|] eqn:Hra; [|destruct (read_lv st lb); discriminate].
    destruct (read_lv st lb) as [vb|] eqn:Hrb; [|discriminate].
    destruct (write st la vb) as [st1|] eqn:Hw1; [|discriminate].
    destruct (write st1 lb va) as [st2|] eqn:Hw2; [|discriminate]. inversion Hev; subst; clear Hev.
    pose proof (co_cells _ _ _ _ _ Hk) as C0.
    pose proof (assign_fresh _ _ _ _ _ _ _ Hen Hst C0 Hok Hva Hla) as Hfa.
    pose proof (assign_fresh _ _ _ _ _ _ _ Hen Hst C0 Hok Hvb Hlb) as Hfb.
    destruct (write_ok P n0 _ _ _ _ C0 Hw1 (read_vok P _ _ _ C0 Hrb) Hfa) as [S1 C1].
    assert (Va1 : vok st1 va) by (eapply vok_mono; [apply (st_ty _ _ _ S1)|eapply read_vok; eauto]).
    destruct (write_ok P n0 _ _ _ _ C1 Hw2 Va1 Hfb) as [S2 C2].
    pose proof (ctxok_step _ _ _ _ _ _ (ctxok_step _ _ _ _ _ _ Hk S1 C1) S2 C2) as Hk2.
    pose proof (step_trans _ _ _ _ S1 S2) as S12.
    split; auto. split; auto. split; auto.
    split; [apply Hk2|]. split; [apply Hk2|]. split; [eapply env_ok_mono; [apply (st_ty _ _ _ S12)|exact Hok]|simpl; auto].
  - (* SExp *)
    inversion Hchk as [[Hce HG]]; clear Hchk.
    destruct (eval f P r (depth c) e st) as [[v st1]|] eqn:Ha; [|discriminate]. inversion Hev; subst; clear Hev.
    destruct (HE _ _ _ _ _ _ _ Hv Hk Hce Ha) as [S1 [C1 V1]].
    pose proof (ctxok_step _ _ _ _ _ _ Hk S1 C1) as Hk1.
    split; auto. split; auto. split; auto.
    split; [apply Hk1|]. split; [apply Hk1|]. split; [eapply env_ok_mono; [apply (st_ty _ _ _ S1)|exact Hok]|simpl; auto].
  - (* SIf *)
    inversion Hchk as [[Hce HG]]; clear Hchk. apply app_nil_inv in Hce. destruct Hce as [Hcc Hce].
    apply app_nil_inv in Hce. destruct Hce as [Hth Hel].
    destruct (eval f P r (depth c) cnd st) as [[v st1]|] eqn:Ha; [|discriminate].
    destruct (HE _ _ _ _ _ _ _ Hv Hk Hcc Ha) as [S1 [C1 V1]].
    pose proof (ctxok_step _ _ _ _ _ _ Hk S1 C1) as Hk1.
    pose proof (env_ok_mono _ _ _ _ _ _ (st_ty _ _ _ S1) Hok) as Hok1.
    destruct v; try discriminate.
    destruct (exec_list f P r (S (depth c)) (if (z =? 0)%Z then el else th) st1) as [[[o1 r1] st2]|] eqn:Hx; [|discriminate].
    injection Hev as Ho Hr Hs. subst o1 r' st2.
    assert (Hk1' : ctxok st1 r (depth (with_depth c (S (depth c))))).
    { destruct Hk1 as [a1 b1 c1 d1]. constructor; auto. simpl. eapply env_le_weaken; [|eauto]. lia. }
    assert (Hres : step st1 st' /\ cells_ok st' /\ vok st' (ret_of o)).
    { destruct (z =? 0)%Z.
      - destruct (chk_stmts P (senv_of r) (with_depth c (S (depth c))) el) as [e2 G2] eqn:Hcs. simpl in Hel. subst e2.
        eapply (HXL r el st1 o r1 st' (with_depth c (S (depth c))) G2); eauto; try (apply with_depth_view; auto).
      - destruct (chk_stmts P (senv_of r) (with_depth c (S (depth c))) th) as [e2 G2] eqn:Hcs. simpl in Hth. subst e2.
        eapply (HXL r th st1 o r1 st' (with_depth c (S (depth c))) G2); eauto; try (apply with_depth_view; auto). }
    destruct Hres as [S2 [C2 V2]].
    pose proof (ctxok_step _ _ _ _ _ _ Hk1 S2 C2) as Hk2.
    split; [eapply step_trans; eauto|]. split; auto. split; auto.
    split; [apply Hk2|]. split; [apply Hk2|]. split; [eapply env_ok_mono; [apply (st_ty _ _ _ S2)|exact Hok1]|auto].
  - (* SReturn *)
    inversion Hchk as [[Hce HG]]; clear Hchk.
    destruct (eval f P r (depth c) e st) as [[v st1]|] eqn:Ha; [|discriminate]. inversion Hev; subst; clear Hev.
    destruct (HE _ _ _ _ _ _ _ Hv Hk Hce Ha) as [S1 [C1 V1]].
    pose proof (ctxok_step _ _ _ _ _ _ Hk S1 C1) as Hk1.
    split; auto. split; auto. split; auto.
    split; [apply Hk1|]. split; [apply Hk1|]. split; [eapply env_ok_mono; [apply (st_ty _ _ _ S1)|exact Hok]|simpl; auto].
  - (* SEmit: an impure operation under the strict rule *)
    inversion Hchk as [[Hce HG]]; clear Hchk. apply app_nil_inv in Hce. destruct Hce as [_ Ho].
    rewrite Hst in Ho. exfalso. eapply observe_nil; eauto.
  - (* SLet2: let x <- t <- e *)
    inversion Hchk as [[Hce HG]]; clear Hchk. apply app_nil_inv in Hce. destruct Hce as [Hce Hva].
    destruct (eval_lv st r t) as [[lp0 via0]|] eqn:Hlv0; [|discriminate].
    destruct (read_lv st lp0) as [old|] eqn:Hrd; [|discriminate].
    pose proof (read_vok P _ _ _ (co_cells _ _ _ _ _ Hk) Hrd) as Vold.
    destruct (eval f P r (depth c) e st) as [[v st1]|] eqn:Ha; [|discriminate].
    destruct (HE _ _ _ _ _ _ _ Hv Hk Hce Ha) as [S1 [C1 V1]].
    pose proof (ctxok_step _ _ _ _ _ _ Hk S1 C1) as Hk1.
    pose proof (env_ok_mono _ _ _ _ _ _ (st_ty _ _ _ S1) Hok) as Hok1.
    destruct (eval_lv st1 r t) as [[lp via]|] eqn:Hlv; [|discriminate].
    pose proof (assign_fresh _ _ _ _ _ _ _ Hen Hst C1 Hok1 Hva Hlv) as Hfr.
    destruct (write st1 lp v) as [st2|] eqn:Hw; [|discriminate].
    destruct (write_ok P n0 _ _ _ _ C1 Hw V1 Hfr) as [S2 C2].
    pose proof (ctxok_step _ _ _ _ _ _ Hk1 S2 C2) as Hk2.
    pose proof (step_trans _ _ _ _ S1 S2) as S12.
    assert (Vold2 : vok st2 old) by (eapply vok_mono; [apply (st_ty _ _ _ S12)|exact Vold]).
    destruct (bind_var st2 r (depth c) x T old) as [[r1 st3]|] eqn:Hb; [|discriminate]. inversion Hev; subst; clear Hev.
    destruct (bind_var_ok P n0 _ _ _ _ _ _ _ _ C2 (co_len _ _ _ _ _ Hk2) Vold2 Hb) as [S3 [C3 [Hr1 Hcell]]].
    destruct (env_ext n0 st2 st' r (depth c) (depth c) x T (scdepth c) (ininit c) (st_ty _ _ _ S3) (co_len _ _ _ _ _ Hk2) Hcell
                (co_fun _ _ _ _ _ Hk2) (co_le _ _ _ _ _ Hk2) (Nat.le_refl _) (env_ok_mono _ _ _ _ _ _ (st_ty _ _ _ S12) Hok))
      as [F3 [L3 O3]].
    rewrite <- Hr1 in F3, L3, O3.
    split; [eapply step_trans; eauto|]. split; auto. split; [rewrite Hr1; reflexivity|].
    split; auto. split; auto. split; auto. simpl; auto.
  - (* SRemove: an impure operation under the strict rule *)
    inversion Hchk as [[Hce HG]]; clear Hchk. apply app_nil_inv in Hce. destruct Hce as [_ Ho].
    rewrite Hst in Ho. exfalso. eapply observe_nil; eauto.
Qed.

Lemma XL_step f : IH P n0 f -> XL_ P n0 (S f).
Proof.
  intros [HE [HEL [HX [HXL _]]]] r ss st o r' st' c G' Hv Hk Hok Hchk Hev.
  destruct ss as [|s rest]; simpl in Hev, Hchk.
  - inversion Hev; subst. split; [apply step_refl|]. split; [apply Hk|simpl; auto].
  - destruct (chk_stmt P (senv_of r) c s) as [e1 G1] eqn:Hc1. simpl in Hchk.
    destruct (chk_stmts P G1 c rest) as [e2 G2] eqn:Hc2. simpl in Hchk.
    inversion Hchk as [[He HG]]; clear Hchk. apply app_nil_inv in He. destruct He as [-> ->].
    destruct (exec f P r (depth c) s st) as [[[o1 r1] st1]|] eqn:Hx; [|discriminate].
    destruct (HX _ _ _ _ _ _ _ _ Hv Hk Hok Hc1 Hx) as [S1 [C1 [Hs1 [F1 [L1 [O1 V1]]]]]].
    destruct o1.
    + assert (Hk1 : ctxok st1 r1 (depth c)).
      { constructor; auto. eapply step_len; eauto. apply Hk. }
      rewrite <- Hs1 in Hc2.
      destruct (HXL _ _ _ _ _ _ _ _ Hv Hk1 O1 Hc2 Hev) as [S2 [C2 V2]].
      split; [eapply step_trans; eauto|]. split; auto.
    + inversion Hev; subst. split; auto.
Qed.

Lemma RC_step f : IH P n0 f -> RC_ P n0 (S f).
Proof.
  intros [HE [_ [_ [_ [HRC _]]]]] r cs st st' c Hst Hk Hchk Hev.
  destruct cs as [|cd rest]; simpl in Hev.
  - inversion Hev; subst. split; [apply step_refl|apply Hk].
  - unfold chk_conds in Hchk. simpl in Hchk. apply app_nil_inv in Hchk. destruct Hchk as [Hc1 Hc2].
    assert (Hv : view_ctx (cond_ctx c)) by (split; auto).
    destruct cd as [ln e|ln e]; simpl in Hc1.
    + destruct (eval f P r (depth c) e st) as [[v st1]|] eqn:Ha; [|discriminate].
      destruct (HE r e st v st1 (cond_ctx c) ln Hv Hk Hc1 Ha) as [S1 [C1 V1]].
      pose proof (ctxok_step _ _ _ _ _ _ Hk S1 C1) as Hk1.
      destruct v; try discriminate. destruct (z =? 0)%Z; [discriminate|].
      destruct (HRC _ _ _ _ _ Hst Hk1 Hc2 Hev) as [S2 C2].
      split; [eapply step_trans; eauto|auto].
    + destruct (eval f P r (depth c) e st) as [[v st1]|] eqn:Ha; [|discriminate].
      destruct (HE r e st v st1 (cond_ctx c) ln Hv Hk Hc1 Ha) as [S1 [C1 V1]].
      pose proof (ctxok_step _ _ _ _ _ _ Hk S1 C1) as Hk1.
      destruct v; try discriminate.
      destruct (add_event_ok st1 z C1) as [S2 C2].
      assert (Hk2 : ctxok (add_event st1 true z) r (depth c)) by (eapply ctxok_step; eauto).
      destruct (HRC _ _ _ _ _ Hst Hk2 Hc2 Hev) as [S3 C3].
      split; [eapply step_trans; [eauto|eapply step_trans; eauto]|auto].
Qed.

End SX.
