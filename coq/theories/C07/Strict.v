(* C07  The strict analysis only adds observations: whatever it accepts, the code-shaped analysis accepts. *)
From CV Require Import C07.Sem C07.Lemmas.
Open Scope nat_scope.

Definition stf (c : cctx) (b : bool) : cctx := mkC (enforce c) (scdepth c) (depth c) (ininit c) b.

Scheme exp_mut := Induction for exp Sort Prop
  with exps_mut := Induction for exps Sort Prop
  with stmt_mut := Induction for stmt Sort Prop
  with stmts_mut := Induction for stmts Sort Prop.
Combined Scheme syntax_mutind from exp_mut, exps_mut, stmt_mut, stmts_mut.

Lemma view_assign_weaken G c ln t : view_assign G (stf c true) ln t = [] -> view_assign G (stf c false) ln t = [].
Proof.
  unfold view_assign. simpl. destruct (enforce c); simpl; auto.
  destruct (alookup (root t) G) as [b|]; auto. destruct (skind b); auto.
  destruct (ininit c); auto.
Qed.

Lemma app_nil_intro {A} (a b : list A) : a = [] -> b = [] -> a ++ b = [].
Proof. intros -> ->. reflexivity. Qed.

Section W.
Variable P : prog.

Lemma strict_weaken :
  (forall e G c ln, chk_exp P G (stf c true) ln e = [] -> chk_exp P G (stf c false) ln e = []) /\
  (forall es G c ln, chk_exps P G (stf c true) ln es = [] -> chk_exps P G (stf c false) ln es = []) /\
  (forall s G c, fst (chk_stmt P G (stf c true) s) = [] ->
                 fst (chk_stmt P G (stf c false) s) = [] /\ snd (chk_stmt P G (stf c false) s) = snd (chk_stmt P G (stf c true) s)) /\
  (forall ss G c, fst (chk_stmts P G (stf c true) ss) = [] ->
                  fst (chk_stmts P G (stf c false) ss) = [] /\ snd (chk_stmts P G (stf c false) ss) = snd (chk_stmts P G (stf c true) ss)).
Proof.
  apply syntax_mutind; simpl; intros; auto.
  - (* EAdd *) apply app_nil_inv in H1. destruct H1. apply app_nil_intro; auto.
  - (* ENew *) apply app_nil_inv in H0. destruct H0. apply app_nil_intro; auto.
  - (* ECallG *) apply app_nil_inv in H0. destruct H0. apply app_nil_intro; auto.
  - (* ECallM *) apply app_nil_inv in H0. destruct H0. apply app_nil_intro; auto.
  - (* ECallB *) apply app_nil_inv in H0. destruct H0. apply app_nil_intro; auto.
  - (* ECallV *) apply app_nil_inv in H0. destruct H0. apply app_nil_intro; auto.
  - (* EFun *)
    specialize (H (bind_params_s params (S (depth c)) G) (mkC view (S (depth c)) (S (S (depth c))) false false)).
    unfold stf in H. simpl in H. apply H. exact H0.
  - (* EAttach *) apply app_nil_inv in H0. destruct H0. rewrite app_nil_r. auto.
  - (* EDestroy *) apply app_nil_inv in H0. destruct H0. apply app_nil_intro; auto.
  - (* ECons *) apply app_nil_inv in H1. destruct H1. apply app_nil_intro; auto.
  - (* SAssign *) apply app_nil_inv in H0. destruct H0. split; auto. apply app_nil_intro; auto.
    apply view_assign_weaken; auto.
  - (* SSwap *) apply app_nil_inv in H. destruct H. split; auto.
    apply app_nil_intro; apply view_assign_weaken; auto.
  - (* SIf *)
    apply app_nil_inv in H2. destruct H2 as [Hc H2]. apply app_nil_inv in H2. destruct H2 as [Ht He].
    split; auto.
    match goal with
    | |- context [with_depth (stf ?cc false) _] =>
        specialize (H0 G (with_depth cc (S (depth cc)))); specialize (H1 G (with_depth cc (S (depth cc))))
    end.
    unfold stf, with_depth in *. simpl in *.
    apply app_nil_intro; auto. apply app_nil_intro; [apply H0; auto|apply H1; auto].
  - (* SEmit *) apply app_nil_inv in H0. destruct H0. split; auto. rewrite app_nil_r. auto.
  - (* SLet2 *) apply app_nil_inv in H0. destruct H0. split; auto. apply app_nil_intro; auto.
    apply view_assign_weaken; auto.
  - (* SRemove *) apply app_nil_inv in H. destruct H. split; auto. rewrite app_nil_r.
    apply view_assign_weaken; auto.
  - (* SCons *)
    apply app_nil_inv in H1. destruct H1 as [H1 H2].
    destruct (H G c H1) as [Ha Hb]. rewrite Hb.
    destruct (H0 _ c H2) as [Hc Hd]. split; [apply app_nil_intro; auto|auto].
Qed.

End W.

Lemma chk_conds_weaken P G c cs : chk_conds P G (stf c true) cs = [] -> chk_conds P G (stf c false) cs = [].
Proof.
  unfold chk_conds. induction cs as [|cd cs IH]; simpl; auto. intro H.
  apply app_nil_inv in H. destruct H as [H1 H2]. apply app_nil_intro; auto.
  destruct cd; simpl in *; apply (proj1 (strict_weaken P) _ G (cond_ctx c) ln); exact H1.
Qed.

Theorem strict_accepts_subset P : chk_prog true P = [] -> chk_prog false P = [].
Proof.
  unfold chk_prog. generalize P at 1 3. intros Q.
  induction P as [|fd P' IH]; simpl; auto. intro H. apply app_nil_inv in H. destruct H as [H1 H2].
  apply app_nil_intro; auto. clear IH H2.
  unfold chk_fun in *.
  apply app_nil_inv in H1. destruct H1 as [Ha H1]. apply app_nil_inv in H1. destruct H1 as [Hb Hc].
  change (fun_ctx true fd) with (stf (fun_ctx false fd) true) in *.
  change (fun_ctx false fd) with (stf (fun_ctx false fd) false).
  apply app_nil_intro; [apply chk_conds_weaken; auto|].
  apply app_nil_intro; [|apply chk_conds_weaken; auto].
  apply (proj1 (proj2 (proj2 (proj2 (strict_weaken Q))) _ _ _ Hb)).
Qed.
