(* C07  Witness programs: Coq terms of the hand-picked corpus programs of harness/c07/corpus.go
   (printed by `c07 -mode witness`; the same terms are re-derived and run against the real implementation on every check). *)
From CV Require Import C07.Sem.
Open Scope Z_scope.

(* kind 1: emit statement in the body of a view method: accepted by the checker, emits an event *)
Definition w_emit_in_view_body : prog :=
  [(mkFun 0 (Some KS) true true [(30%nat, TInt); (31%nat, (TArr TInt)); (32%nat, (TArr TS)); (33%nat, (TArr (TRef TS))); (34%nat, TDict); (35%nat, TInt)] [] [] (SCons (SAssign 1 (TgField (TgVar 0) 0) (ERead (TgVar 30))) (SCons (SAssign 2 (TgField (TgVar 0) 1) (ERead (TgVar 31))) (SCons (SAssign 3 (TgField (TgVar 0) 2) (ERead (TgVar 32))) (SCons (SAssign 4 (TgField (TgVar 0) 3) (ERead (TgVar 33))) (SCons (SAssign 5 (TgField (TgVar 0) 4) (ERead (TgVar 34))) SNil))))));
   (mkFun 0 (Some KR) true true [(30%nat, TInt); (31%nat, (TArr TInt)); (32%nat, (TArr TR)); (35%nat, TInt)] [] [] (SCons (SAssign 6 (TgField (TgVar 0) 0) (ERead (TgVar 30))) (SCons (SAssign 7 (TgField (TgVar 0) 1) (ERead (TgVar 31))) (SCons (SAssign 8 (TgField (TgVar 0) 2) (ERead (TgVar 32))) SNil))));
   (mkFun 1 None false true [(50%nat, TInt)] [] [] (SCons (SReturn 9 (EAdd (ERead (TgVar 50)) (EInt 1))) SNil));
   (mkFun 2 None false false [(50%nat, TInt)] [] [] (SCons (SAssign 10 (TgVar 1) (EAdd (ERead (TgVar 1)) (ERead (TgVar 50)))) (SCons (SReturn 11 (ERead (TgVar 1))) SNil)));
   (mkFun 1 (Some KS) false true [] [] [] (SCons (SReturn 12 (ERead (TgField (TgVar 0) 0))) SNil));
   (mkFun 2 (Some KS) false false [(51%nat, TInt)] [] [] (SCons (SAssign 13 (TgField (TgVar 0) 0) (ERead (TgVar 51))) (SCons (SReturn 14 (ERead (TgField (TgVar 0) 0))) SNil)));
   (mkFun 3 (Some KR) false true [] [] [] (SCons (SReturn 15 (ERead (TgField (TgVar 0) 0))) SNil));
   (mkFun 4 (Some KR) false false [(51%nat, TInt)] [] [] (SCons (SAssign 16 (TgField (TgVar 0) 0) (ERead (TgVar 51))) (SCons (SReturn 17 (ERead (TgField (TgVar 0) 0))) SNil)));
   (mkFun 9 (Some KS) false true [(10%nat, TS); (11%nat, (TArr TInt)); (12%nat, (TArr TS)); (13%nat, (TRef TS)); (14%nat, (TRef (TArr TInt))); (15%nat, (TOpt (TRef (TArr TInt)))); (16%nat, TAny); (17%nat, TDict); (18%nat, (TRef TDict)); (19%nat, (TFun false)); (20%nat, (TFun true)); (21%nat, TAcct); (22%nat, (TRef TR))] [] [] (SCons (SEmit 18 (EInt 5)) (SCons (SReturn 19 (EInt 1)) SNil)))].

(* kind 4: view initializer assigns through a reference stored in a field of self *)
Definition w_view_init_writes_through_self_refs : prog :=
  [(mkFun 0 (Some KS) true true [(30%nat, TInt); (31%nat, (TArr TInt)); (32%nat, (TArr TS)); (33%nat, (TArr (TRef TS))); (34%nat, TDict); (35%nat, TInt)] [] [] (SCons (SAssign 1 (TgField (TgVar 0) 0) (ERead (TgVar 30))) (SCons (SAssign 2 (TgField (TgVar 0) 1) (ERead (TgVar 31))) (SCons (SAssign 3 (TgField (TgVar 0) 2) (ERead (TgVar 32))) (SCons (SAssign 4 (TgField (TgVar 0) 3) (ERead (TgVar 33))) (SCons (SAssign 5 (TgField (TgVar 0) 4) (ERead (TgVar 34))) (SCons (SIf 6 (ERead (TgVar 35)) (SCons (SAssign 7 (TgField (TgIndex (TgField (TgVar 0) 3) (IConst 0)) 0) (EInt 9)) SNil) SNil) SNil)))))));
   (mkFun 0 (Some KR) true true [(30%nat, TInt); (31%nat, (TArr TInt)); (32%nat, (TArr TR)); (35%nat, TInt)] [] [] (SCons (SAssign 8 (TgField (TgVar 0) 0) (ERead (TgVar 30))) (SCons (SAssign 9 (TgField (TgVar 0) 1) (ERead (TgVar 31))) (SCons (SAssign 10 (TgField (TgVar 0) 2) (ERead (TgVar 32))) SNil))));
   (mkFun 1 None false true [(50%nat, TInt)] [] [] (SCons (SReturn 11 (EAdd (ERead (TgVar 50)) (EInt 1))) SNil));
   (mkFun 2 None false false [(50%nat, TInt)] [] [] (SCons (SAssign 12 (TgVar 1) (EAdd (ERead (TgVar 1)) (ERead (TgVar 50)))) (SCons (SReturn 13 (ERead (TgVar 1))) SNil)));
   (mkFun 1 (Some KS) false true [] [] [] (SCons (SReturn 14 (ERead (TgField (TgVar 0) 0))) SNil));
   (mkFun 2 (Some KS) false false [(51%nat, TInt)] [] [] (SCons (SAssign 15 (TgField (TgVar 0) 0) (ERead (TgVar 51))) (SCons (SReturn 16 (ERead (TgField (TgVar 0) 0))) SNil)));
   (mkFun 3 (Some KR) false true [] [] [] (SCons (SReturn 17 (ERead (TgField (TgVar 0) 0))) SNil));
   (mkFun 4 (Some KR) false false [(51%nat, TInt)] [] [] (SCons (SAssign 18 (TgField (TgVar 0) 0) (ERead (TgVar 51))) (SCons (SReturn 19 (ERead (TgField (TgVar 0) 0))) SNil)))].

(* kind 5: view initializer assigns a field of a resource it has just been given *)
Definition w_view_init_writes_through_self_resource : prog :=
  [(mkFun 0 (Some KS) true true [(30%nat, TInt); (31%nat, (TArr TInt)); (32%nat, (TArr TS)); (33%nat, (TArr (TRef TS))); (34%nat, TDict); (35%nat, TInt)] [] [] (SCons (SAssign 1 (TgField (TgVar 0) 0) (ERead (TgVar 30))) (SCons (SAssign 2 (TgField (TgVar 0) 1) (ERead (TgVar 31))) (SCons (SAssign 3 (TgField (TgVar 0) 2) (ERead (TgVar 32))) (SCons (SAssign 4 (TgField (TgVar 0) 3) (ERead (TgVar 33))) (SCons (SAssign 5 (TgField (TgVar 0) 4) (ERead (TgVar 34))) SNil))))));
   (mkFun 0 (Some KR) true true [(30%nat, TInt); (31%nat, (TArr TInt)); (32%nat, (TArr TR)); (35%nat, TInt)] [] [] (SCons (SAssign 6 (TgField (TgVar 0) 0) (ERead (TgVar 30))) (SCons (SAssign 7 (TgField (TgVar 0) 1) (ERead (TgVar 31))) (SCons (SAssign 8 (TgField (TgVar 0) 2) (ERead (TgVar 32))) (SCons (SIf 9 (ERead (TgVar 35)) (SCons (SAssign 10 (TgField (TgIndex (TgField (TgVar 0) 2) (IConst 0)) 0) (EInt 5)) SNil) SNil) SNil)))));
   (mkFun 1 None false true [(50%nat, TInt)] [] [] (SCons (SReturn 11 (EAdd (ERead (TgVar 50)) (EInt 1))) SNil));
   (mkFun 2 None false false [(50%nat, TInt)] [] [] (SCons (SAssign 12 (TgVar 1) (EAdd (ERead (TgVar 1)) (ERead (TgVar 50)))) (SCons (SReturn 13 (ERead (TgVar 1))) SNil)));
   (mkFun 1 (Some KS) false true [] [] [] (SCons (SReturn 14 (ERead (TgField (TgVar 0) 0))) SNil));
   (mkFun 2 (Some KS) false false [(51%nat, TInt)] [] [] (SCons (SAssign 15 (TgField (TgVar 0) 0) (ERead (TgVar 51))) (SCons (SReturn 16 (ERead (TgField (TgVar 0) 0))) SNil)));
   (mkFun 3 (Some KR) false true [] [] [] (SCons (SReturn 17 (ERead (TgField (TgVar 0) 0))) SNil));
   (mkFun 4 (Some KR) false false [(51%nat, TInt)] [] [] (SCons (SAssign 18 (TgField (TgVar 0) 0) (ERead (TgVar 51))) (SCons (SReturn 19 (ERead (TgField (TgVar 0) 0))) SNil)))].

(* kind 2: view method attaches an attachment to a resource it was given *)
Definition w_view_attach_to_resource : prog :=
  [(mkFun 0 (Some KS) true true [(30%nat, TInt); (31%nat, (TArr TInt)); (32%nat, (TArr TS)); (33%nat, (TArr (TRef TS))); (34%nat, TDict); (35%nat, TInt)] [] [] (SCons (SAssign 1 (TgField (TgVar 0) 0) (ERead (TgVar 30))) (SCons (SAssign 2 (TgField (TgVar 0) 1) (ERead (TgVar 31))) (SCons (SAssign 3 (TgField (TgVar 0) 2) (ERead (TgVar 32))) (SCons (SAssign 4 (TgField (TgVar 0) 3) (ERead (TgVar 33))) (SCons (SAssign 5 (TgField (TgVar 0) 4) (ERead (TgVar 34))) SNil))))));
   (mkFun 0 (Some KR) true true [(30%nat, TInt); (31%nat, (TArr TInt)); (32%nat, (TArr TR)); (35%nat, TInt)] [] [] (SCons (SAssign 6 (TgField (TgVar 0) 0) (ERead (TgVar 30))) (SCons (SAssign 7 (TgField (TgVar 0) 1) (ERead (TgVar 31))) (SCons (SAssign 8 (TgField (TgVar 0) 2) (ERead (TgVar 32))) SNil))));
   (mkFun 1 None false true [(50%nat, TInt)] [] [] (SCons (SReturn 9 (EAdd (ERead (TgVar 50)) (EInt 1))) SNil));
   (mkFun 2 None false false [(50%nat, TInt)] [] [] (SCons (SAssign 10 (TgVar 1) (EAdd (ERead (TgVar 1)) (ERead (TgVar 50)))) (SCons (SReturn 11 (ERead (TgVar 1))) SNil)));
   (mkFun 1 (Some KS) false true [] [] [] (SCons (SReturn 12 (ERead (TgField (TgVar 0) 0))) SNil));
   (mkFun 2 (Some KS) false false [(51%nat, TInt)] [] [] (SCons (SAssign 13 (TgField (TgVar 0) 0) (ERead (TgVar 51))) (SCons (SReturn 14 (ERead (TgField (TgVar 0) 0))) SNil)));
   (mkFun 3 (Some KR) false true [] [] [] (SCons (SReturn 15 (ERead (TgField (TgVar 0) 0))) SNil));
   (mkFun 4 (Some KR) false false [(51%nat, TInt)] [] [] (SCons (SAssign 16 (TgField (TgVar 0) 0) (ERead (TgVar 51))) (SCons (SReturn 17 (ERead (TgField (TgVar 0) 0))) SNil)));
   (mkFun 9 (Some KR) false true [(10%nat, TS); (11%nat, (TArr TInt)); (12%nat, (TArr TS)); (13%nat, (TRef TS)); (14%nat, (TRef (TArr TInt))); (15%nat, (TOpt (TRef (TArr TInt)))); (16%nat, TAny); (17%nat, TDict); (18%nat, (TRef TDict)); (19%nat, (TFun false)); (20%nat, (TFun true)); (21%nat, TAcct); (22%nat, (TRef TR)); (23%nat, TR)] [] [] (SCons (SReturn 18 (EAttach (ERead (TgVar 23)))) SNil))].

(* kind 1: writes to by-value parameters and locals are accepted and invisible to the caller *)
Definition w_param_struct_writes_are_local : prog :=
  [(mkFun 0 (Some KS) true true [(30%nat, TInt); (31%nat, (TArr TInt)); (32%nat, (TArr TS)); (33%nat, (TArr (TRef TS))); (34%nat, TDict); (35%nat, TInt)] [] [] (SCons (SAssign 1 (TgField (TgVar 0) 0) (ERead (TgVar 30))) (SCons (SAssign 2 (TgField (TgVar 0) 1) (ERead (TgVar 31))) (SCons (SAssign 3 (TgField (TgVar 0) 2) (ERead (TgVar 32))) (SCons (SAssign 4 (TgField (TgVar 0) 3) (ERead (TgVar 33))) (SCons (SAssign 5 (TgField (TgVar 0) 4) (ERead (TgVar 34))) SNil))))));
   (mkFun 0 (Some KR) true true [(30%nat, TInt); (31%nat, (TArr TInt)); (32%nat, (TArr TR)); (35%nat, TInt)] [] [] (SCons (SAssign 6 (TgField (TgVar 0) 0) (ERead (TgVar 30))) (SCons (SAssign 7 (TgField (TgVar 0) 1) (ERead (TgVar 31))) (SCons (SAssign 8 (TgField (TgVar 0) 2) (ERead (TgVar 32))) SNil))));
   (mkFun 1 None false true [(50%nat, TInt)] [] [] (SCons (SReturn 9 (EAdd (ERead (TgVar 50)) (EInt 1))) SNil));
   (mkFun 2 None false false [(50%nat, TInt)] [] [] (SCons (SAssign 10 (TgVar 1) (EAdd (ERead (TgVar 1)) (ERead (TgVar 50)))) (SCons (SReturn 11 (ERead (TgVar 1))) SNil)));
   (mkFun 1 (Some KS) false true [] [] [] (SCons (SReturn 12 (ERead (TgField (TgVar 0) 0))) SNil));
   (mkFun 2 (Some KS) false false [(51%nat, TInt)] [] [] (SCons (SAssign 13 (TgField (TgVar 0) 0) (ERead (TgVar 51))) (SCons (SReturn 14 (ERead (TgField (TgVar 0) 0))) SNil)));
   (mkFun 3 (Some KR) false true [] [] [] (SCons (SReturn 15 (ERead (TgField (TgVar 0) 0))) SNil));
   (mkFun 4 (Some KR) false false [(51%nat, TInt)] [] [] (SCons (SAssign 16 (TgField (TgVar 0) 0) (ERead (TgVar 51))) (SCons (SReturn 17 (ERead (TgField (TgVar 0) 0))) SNil)));
   (mkFun 9 (Some KS) false true [(10%nat, TS); (11%nat, (TArr TInt)); (12%nat, (TArr TS)); (13%nat, (TRef TS)); (14%nat, (TRef (TArr TInt))); (15%nat, (TOpt (TRef (TArr TInt)))); (16%nat, TAny); (17%nat, TDict); (18%nat, (TRef TDict)); (19%nat, (TFun false)); (20%nat, (TFun true)); (21%nat, TAcct); (22%nat, (TRef TR))] [] [] (SCons (SAssign 18 (TgField (TgVar 10) 0) (EInt 77)) (SCons (SAssign 19 (TgIndex (TgVar 11) (IConst 0)) (EInt 78)) (SCons (SAssign 20 (TgField (TgIndex (TgField (TgVar 10) 2) (IConst 0)) 0) (EInt 79)) (SCons (SAssign 21 (TgIndex (TgVar 17) (IConst 1)) (EInt 80)) (SCons (SLet 22 100 TS (ERead (TgVar 0))) (SCons (SAssign 23 (TgField (TgVar 100) 0) (EInt 81)) (SCons (SLet 24 101 (TArr TInt) (EDeref (ERead (TgVar 14)))) (SCons (SAssign 25 (TgIndex (TgVar 101) (IConst 0)) (EInt 82)) (SCons (SSwap 26 (TgIndex (TgVar 11) (IConst 0)) (TgIndex (TgVar 11) (IConst 1))) (SCons (SReturn 27 (EAdd (ERead (TgField (TgVar 10) 0)) (ERead (TgIndex (TgVar 101) (IConst 0))))) SNil)))))))))))].

(* kind 3: emit conditions are allowed in view functions *)
Definition w_emit_conditions : prog :=
  [(mkFun 0 (Some KS) true true [(30%nat, TInt); (31%nat, (TArr TInt)); (32%nat, (TArr TS)); (33%nat, (TArr (TRef TS))); (34%nat, TDict); (35%nat, TInt)] [] [] (SCons (SAssign 1 (TgField (TgVar 0) 0) (ERead (TgVar 30))) (SCons (SAssign 2 (TgField (TgVar 0) 1) (ERead (TgVar 31))) (SCons (SAssign 3 (TgField (TgVar 0) 2) (ERead (TgVar 32))) (SCons (SAssign 4 (TgField (TgVar 0) 3) (ERead (TgVar 33))) (SCons (SAssign 5 (TgField (TgVar 0) 4) (ERead (TgVar 34))) SNil))))));
   (mkFun 0 (Some KR) true true [(30%nat, TInt); (31%nat, (TArr TInt)); (32%nat, (TArr TR)); (35%nat, TInt)] [] [] (SCons (SAssign 6 (TgField (TgVar 0) 0) (ERead (TgVar 30))) (SCons (SAssign 7 (TgField (TgVar 0) 1) (ERead (TgVar 31))) (SCons (SAssign 8 (TgField (TgVar 0) 2) (ERead (TgVar 32))) SNil))));
   (mkFun 1 None false true [(50%nat, TInt)] [] [] (SCons (SReturn 9 (EAdd (ERead (TgVar 50)) (EInt 1))) SNil));
   (mkFun 2 None false false [(50%nat, TInt)] [] [] (SCons (SAssign 10 (TgVar 1) (EAdd (ERead (TgVar 1)) (ERead (TgVar 50)))) (SCons (SReturn 11 (ERead (TgVar 1))) SNil)));
   (mkFun 1 (Some KS) false true [] [] [] (SCons (SReturn 12 (ERead (TgField (TgVar 0) 0))) SNil));
   (mkFun 2 (Some KS) false false [(51%nat, TInt)] [] [] (SCons (SAssign 13 (TgField (TgVar 0) 0) (ERead (TgVar 51))) (SCons (SReturn 14 (ERead (TgField (TgVar 0) 0))) SNil)));
   (mkFun 3 (Some KR) false true [] [] [] (SCons (SReturn 15 (ERead (TgField (TgVar 0) 0))) SNil));
   (mkFun 4 (Some KR) false false [(51%nat, TInt)] [] [] (SCons (SAssign 16 (TgField (TgVar 0) 0) (ERead (TgVar 51))) (SCons (SReturn 17 (ERead (TgField (TgVar 0) 0))) SNil)));
   (mkFun 9 None false true [(10%nat, TS); (11%nat, (TArr TInt)); (12%nat, (TArr TS)); (13%nat, (TRef TS)); (14%nat, (TRef (TArr TInt))); (15%nat, (TOpt (TRef (TArr TInt)))); (16%nat, TAny); (17%nat, TDict); (18%nat, (TRef TDict)); (19%nat, (TFun false)); (20%nat, (TFun true)); (21%nat, TAcct); (22%nat, (TRef TR))] [CEmit 18 (EInt 11); CTest 19 (EInt 1)] [CEmit 20 (ERead (TgField (TgVar 10) 0))] (SCons (SReturn 21 (EInt 2)) SNil))].

