(* C07  Basic lemmas: lists, conformance [wk] of sub-values and updates, state primitives. *)
From CV Require Import C07.Sem.
Open Scope nat_scope.

(* ---------------------------------------------------------------- lists *)
Lemma nth_error_upd_same {A} (l : list A) n a x :
  nth_error l n = Some x -> nth_error (upd l n a) n = Some a.
Proof.
  revert n; induction l as [|y l IH]; intros [|n] H; simpl in *; try discriminate; auto.
Qed.

Lemma nth_error_upd_other {A} (l : list A) n m a :
  n <> m -> nth_error (upd l n a) m = nth_error l m.
Proof.
  revert n m; induction l as [|y l IH]; intros [|n] [|m] H; simpl; auto; try congruence.
Qed.

Lemma length_upd {A} (l : list A) n a : List.length (upd l n a) = List.length l.
Proof. revert n; induction l as [|y l IH]; intros [|n]; simpl; auto. Qed.

Lemma app_nil_inv {A} (a b : list A) : a ++ b = [] -> a = [] /\ b = [].
Proof. destruct a; simpl; intro H; [auto | discriminate]. Qed.

Lemma flat_map_nil {A B} (f : A -> list B) l x : flat_map f l = [] -> In x l -> f x = [].
Proof.
  induction l as [|y l IH]; simpl; intros H Hin; [contradiction|].
  apply app_nil_inv in H; destruct H as [H1 H2]. destruct Hin as [->|Hin]; auto.
Qed.

Lemma alookup_map {A B} (f : A -> B) x (l : list (nat * A)) :
  alookup x (map (fun p => (fst p, f (snd p))) l) = option_map f (alookup x l).
Proof.
  induction l as [|[y a] l IH]; simpl; auto. destruct (Nat.eqb x y); auto.
Qed.

(* ---------------------------------------------------------------- static environment of a run-time environment *)
Definition sb_of (b : rbind) : sbind := mkSB (rdepth b) (rty b) (rkind b).
Definition senv_of (r : env) : senv := map (fun p => (fst p, sb_of (snd p))) r.

Lemma alookup_senv x r : alookup x (senv_of r) = option_map sb_of (alookup x r).
Proof. apply alookup_map. Qed.

(* ---------------------------------------------------------------- wk *)
Definition wkl := fix wkl (fs : list value) (Ts : list ty) {struct fs} : bool :=
  match fs, Ts with
  | [], [] => true
  | f :: fs', T1 :: Ts' => wk f T1 && wkl fs' Ts'
  | _, _ => false
  end.

Lemma wk_comp k fs T :
  wk (VComp k fs) T =
  match (match k, T with KS, TS | KS, TAny => Some fields_S | KR, TObj => Some fields_R | _, _ => None end) with
  | None => false | Some Ts => wkl fs Ts end.
Proof. reflexivity. Qed.

Lemma wkl_nth fs Ts n c :
  wkl fs Ts = true -> nth_error fs n = Some c -> exists T, nth_error Ts n = Some T /\ wk c T = true.
Proof.
  revert Ts n; induction fs as [|f fs IH]; intros [|T Ts] [|n] H Hn; simpl in *; try discriminate.
  - inversion Hn; subst. apply andb_true_iff in H. exists T; tauto.
  - apply andb_true_iff in H. destruct H as [_ H]. eauto.
Qed.

Lemma wkl_upd fs Ts n c T :
  wkl fs Ts = true -> nth_error Ts n = Some T -> wk c T = true -> wkl (upd fs n c) Ts = true.
Proof.
  revert Ts n; induction fs as [|f fs IH]; intros [|T1 Ts] [|n] H Hn Hc; simpl in *; try discriminate; auto.
  - inversion Hn; subst. apply andb_true_iff in H. rewrite Hc. simpl. tauto.
  - apply andb_true_iff in H. destruct H as [H1 H2]. rewrite H1. simpl. eauto.
Qed.

Lemma forallb_nth {A} (f : A -> bool) l n x : forallb f l = true -> nth_error l n = Some x -> f x = true.
Proof.
  revert n; induction l as [|y l IH]; intros [|n] H Hn; simpl in *; try discriminate;
    apply andb_true_iff in H; destruct H.
  - inversion Hn; subst; auto.
  - eauto.
Qed.

Lemma forallb_upd {A} (f : A -> bool) l n x : forallb f l = true -> f x = true -> forallb f (upd l n x) = true.
Proof.
  revert n; induction l as [|y l IH]; intros [|n] H Hx; simpl in *; auto;
    apply andb_true_iff in H; destruct H as [H1 H2].
  - rewrite Hx; auto.
  - rewrite H1; simpl; auto.
Qed.

(* a conforming value is never a function value *)
Lemma wk_not_clo v T : wk v T = true -> forall a b c d e, v <> VClo a b c d e.
Proof. intros H a b c d e ->. simpl in H. discriminate. Qed.

Lemma wk_wk_top v T : wk v T = true -> wk_top v T = true.
Proof. intro H. destruct v; simpl; auto. simpl in H. discriminate. Qed.

Lemma dict_get_wk kvs k : wk (dict_get kvs k) (TOpt TInt) = true.
Proof. unfold dict_get. destruct (find _ kvs); reflexivity. Qed.

(* sub-values of conforming values conform (at some type) *)
Lemma wk_sub p : forall v T u, wk v T = true -> get_at v p = Ok u -> exists T', wk u T' = true.
Proof.
  induction p as [|s p IH]; intros v T u Hw Hg; simpl in Hg.
  - inversion Hg; subst; eauto.
  - destruct s as [n|i|k]; destruct v; try discriminate.
    + destruct (nth_error fs n) as [c|] eqn:Hn; [|discriminate].
      rewrite wk_comp in Hw.
      destruct (match k with KS => _ | KR => _ end) as [Ts|] eqn:HT; [|discriminate].
      destruct (wkl_nth _ _ _ _ Hw Hn) as [T1 [_ Hc]]. eauto.
    + destruct (nth_error vs i) as [c|] eqn:Hn; [|discriminate].
      simpl in Hw. destruct T; try discriminate; eapply IH; eauto; eapply (forallb_nth _ _ _ _ Hw Hn).
    + destruct p; [|discriminate]. inversion Hg; subst. eexists. apply dict_get_wk.
Qed.

(* ... and at the type the path designates *)
Lemma wk_get_at p : forall v T u T', wk v T = true -> ty_at T p = Some T' -> get_at v p = Ok u -> wk u T' = true.
Proof.
  induction p as [|s p IH]; intros v T u T' Hw Ht Hg; simpl in Hg, Ht.
  - inversion Hg; inversion Ht; subst; auto.
  - destruct s as [n|i|k]; destruct v; try discriminate.
    + destruct (nth_error fs n) as [c|] eqn:Hn; [|discriminate].
      rewrite wk_comp in Hw.
      destruct T; try discriminate.
      * destruct (nth_error fields_S n) as [T1|] eqn:HT1; [|discriminate].
        destruct k; [|discriminate].
        destruct (wkl_nth _ _ _ _ Hw Hn) as [T2 [HT2 Hc]]. rewrite HT1 in HT2. inversion HT2; subst. eauto.
      * destruct (nth_error fields_R n) as [T1|] eqn:HT1; [|discriminate].
        destruct k; [discriminate|].
        destruct (wkl_nth _ _ _ _ Hw Hn) as [T2 [HT2 Hc]]. rewrite HT1 in HT2. inversion HT2; subst. eauto.
    + destruct (nth_error vs i) as [c|] eqn:Hn; [|discriminate].
      destruct T; try discriminate. simpl in Hw. eapply IH; eauto. eapply (forallb_nth _ _ _ _ Hw Hn).
    + destruct T; try discriminate. destruct p; [|discriminate].
      inversion Hg; inversion Ht; subst. apply dict_get_wk.
Qed.

(* updating a conforming value at a typed path with a conforming value *)
Lemma wk_set_at p : forall v T nv Ts v', wk v T = true -> ty_at T p = Some Ts -> wk nv Ts = true ->
  set_at v p nv = Ok v' -> wk v' T = true.
Proof.
  induction p as [|s p IH]; intros v T nv Ts v' Hw Ht Hn Hs; simpl in Hs, Ht.
  - inversion Hs; inversion Ht; subst; auto.
  - destruct s as [n|i|k]; destruct v; try discriminate.
    + destruct (nth_error fs n) as [c|] eqn:Hc; [|discriminate].
      destruct (set_at c p nv) as [c'|] eqn:Hs'; [|discriminate]. inversion Hs; subst. clear Hs.
      rewrite wk_comp in Hw. rewrite wk_comp.
      destruct T; try discriminate.
      * destruct (nth_error fields_S n) as [T1|] eqn:HT1; [|discriminate].
        destruct k; [|discriminate].
        destruct (wkl_nth _ _ _ _ Hw Hc) as [T2 [HT2 Hcw]]. rewrite HT1 in HT2. inversion HT2; subst.
        eapply wkl_upd; eauto.
      * destruct (nth_error fields_R n) as [T1|] eqn:HT1; [|discriminate].
        destruct k; [discriminate|].
        destruct (wkl_nth _ _ _ _ Hw Hc) as [T2 [HT2 Hcw]]. rewrite HT1 in HT2. inversion HT2; subst.
        eapply wkl_upd; eauto.
    + destruct (nth_error vs i) as [c|] eqn:Hc; [|discriminate].
      destruct (set_at c p nv) as [c'|] eqn:Hs'; [|discriminate]. inversion Hs; subst. clear Hs.
      destruct T; try discriminate. simpl in Hw |- *.
      apply forallb_upd; auto. eapply IH; eauto. eapply (forallb_nth _ _ _ _ Hw Hc).
    + destruct T; try discriminate. destruct p; [|discriminate].
      destruct nv; try discriminate; try (inversion Hs; subst; reflexivity).
      destruct nv; try discriminate. inversion Hs; subst; reflexivity.
Qed.

Lemma ty_at_app p : forall T q T', ty_at T p = Some T' -> ty_at T (p ++ q) = ty_at T' q.
Proof.
  induction p as [|s p IH]; intros T q T' H; simpl in *.
  - inversion H; subst; auto.
  - destruct s; destruct T; try discriminate.
    + destruct (nth_error fields_S n); [eauto|discriminate].
    + destruct (nth_error fields_R n); [eauto|discriminate].
    + eauto.
    + destruct p; [|discriminate]. inversion H; subst. simpl.
      destruct q as [|s' q']; simpl; auto. destruct s'; reflexivity.
Qed.

Lemma get_at_app p : forall v q u, get_at v p = Ok u -> get_at v (p ++ q) = get_at u q.
Proof.
  induction p as [|s p IH]; intros v q u H; simpl in *.
  - inversion H; subst; auto.
  - destruct s; destruct v; try discriminate.
    + destruct (nth_error fs n); [eauto|discriminate].
    + destruct (nth_error vs i); [eauto|discriminate].
    + destruct p; [|discriminate]. inversion H; subst. simpl.
      destruct q; simpl; auto. unfold dict_get. destruct (find _ kvs); destruct p; reflexivity.
Qed.
