(* C07  Soundness, calls: the induction step for [call], [call_clo], [construct]; the closed induction. *)
From CV Require Import C07.Sem C07.Lemmas C07.Invariants C07.Soundness C07.SoundE C07.SoundX.
Open Scope nat_scope.

Section SC.
Variable P : prog.
Hypothesis HP : chk_prog true P = [].
Variable n0 : nat.

Local Notation vok := (vok P).
Local Notation cells_ok := (cells_ok P).
Local Notation step := (step n0).
Local Notation ctxok := (ctxok P n0).
Local Notation env_ok := (env_ok n0).

Lemma genv_fun st : env_fun st genv.
Proof.
  intros x b Hb [v Hv]. unfold genv in Hb. simpl in Hb.
  repeat (match type of Hb with context [Nat.eqb ?a ?b] => destruct (Nat.eqb a b) end;
          [inversion Hb; subst; simpl in Hv; discriminate|]).
  discriminate.
Qed.

Lemma genv_le d : env_le genv d.
Proof.
  intros x b Hb. unfold genv in Hb. simpl in Hb.
  repeat (match type of Hb with context [Nat.eqb ?a ?b] => destruct (Nat.eqb a b) end;
          [inversion Hb; subst; simpl; lia|]).
  discriminate.
Qed.

Lemma genv_ok st dsc ini : 1 <= dsc -> env_ok st genv dsc ini.
Proof.
  intros Hd x b Hb. unfold genv in Hb. simpl in Hb.
  repeat (match type of Hb with context [Nat.eqb ?a ?b] => destruct (Nat.eqb a b) end;
          [inversion Hb; subst; simpl; intro; lia|]).
  discriminate.
Qed.

Lemma fun_env_ok fd self r1 d1 st :
  fun_env fd self = Ok (r1, d1) ->
  senv_of r1 = fst (fun_env_s fd) /\ d1 = snd (fun_env_s fd) /\ env_fun st r1 /\ env_le r1 d1
  /\ (forall ini, (ini = true -> self_fresh n0 st fd self /\ finit fd = true) -> env_ok st r1 (S d1) ini).
Proof.
  unfold fun_env, fun_env_s. destruct (fhost fd) as [k|] eqn:Hh.
  - destruct self as [lp|]; [|discriminate]. intro H. inversion H; subst; clear H.
    split; [reflexivity|]. split; [reflexivity|]. split; [|split].
    + intros x b Hb Hf. rewrite alookup_cons in Hb. destruct (Nat.eqb x self_id).
      * inversion Hb; subst. destruct Hf as [v Hv]. simpl in Hv. destruct k; discriminate.
      * eapply genv_fun; eauto.
    + intros x b Hb. rewrite alookup_cons in Hb. destruct (Nat.eqb x self_id).
      * inversion Hb; subst. simpl. lia.
      * pose proof (genv_le 0 x b Hb). lia.
    + intros ini Hini x b Hb. rewrite alookup_cons in Hb. destruct (Nat.eqb x self_id).
      * inversion Hb; subst. simpl. intros Hi. destruct (Hini Hi) as [Hsf Hfi].
        destruct (Hsf Hfi) as [l [c0 [k' [Hs [Hl [Hc [Hk' Ht]]]]]]].
        inversion Hs; subst. simpl. rewrite Hh in Hk'. inversion Hk'; subst.
        split; auto. split; [split; [reflexivity|eauto]|]. destruct k'; auto.
      * eapply genv_ok; eauto; try lia.
  - intro H. inversion H; subst; clear H.
    split; [reflexivity|]. split; [reflexivity|]. split; [apply genv_fun|]. split; [apply genv_le|].
    intros ini _. apply genv_ok. lia.
Qed.

Lemma chk_fun_nil fd : In fd P -> chk_fun true P fd = [].
Proof. intro Hin. eapply flat_map_nil; eauto. Qed.

Lemma C_step f : IH P n0 f -> C_ P n0 (S f).
Proof.
  intros [HE [HEL [HX [HXL [HRC _]]]]] fd self vs st v st' Hin Hview Hc Hn Hvs Hself Hev.
  simpl in Hev.
  destruct (fun_env fd self) as [[r1 d1]|] eqn:Hfe; [|discriminate].
  destruct (bind_params (fparams fd) vs (S d1) r1 st) as [[r2 st1]|] eqn:Hbp; [|discriminate].
  destruct (run_conds f P r2 (S (S d1)) (fpre fd) st1) as [st2|] eqn:Hpre; [|discriminate].
  destruct (exec_list f P r2 (S (S d1)) (fbody fd) st2) as [[[o r3] st3]|] eqn:Hb; [|discriminate].
  destruct (run_conds f P r2 (S (S d1)) (fpost fd) st3) as [st4|] eqn:Hpost; [|discriminate].
  inversion Hev; subst; clear Hev.
  destruct (fun_env_ok _ _ _ _ st Hfe) as [Hs1 [Hd1 [Hf1 [Hl1 Ho1]]]].
  assert (Hok1 : env_ok st r1 (S d1) (finit fd)).
  { apply Ho1. intros Hi. split; auto. }
  destruct (bind_params_ok P n0 (fparams fd) vs st r1 (S d1) r2 st1 (S (S d1)) (S d1) (finit fd) Hc Hn Hvs Hf1
              (env_le_weaken _ _ _ (Nat.le_succ_diag_r _) (env_le_weaken _ _ _ (Nat.le_succ_diag_r _) Hl1))
              (Nat.le_succ_diag_r _) Hok1 Hbp)
    as [S1 [C1 [Hs2 [F2 [L2 O2]]]]].
  pose proof (chk_fun_nil fd Hin) as Hchk. unfold chk_fun in Hchk.
  rewrite <- Hd1, <- Hs1, <- Hs2 in Hchk.
  apply app_nil_inv in Hchk. destruct Hchk as [Hcpre Hchk].
  apply app_nil_inv in Hchk. destruct Hchk as [Hcbody Hcpost].
  set (c := fun_ctx true fd) in *.
  assert (Hdc : depth c = S (S d1)) by (unfold c, fun_ctx; simpl; rewrite <- Hd1; reflexivity).
  assert (Hsc : scdepth c = S d1) by (unfold c, fun_ctx; simpl; rewrite <- Hd1; reflexivity).
  assert (Hv : view_ctx c) by (split; [exact Hview|reflexivity]).
  assert (Hk1 : ctxok st1 r2 (depth c)).
  { rewrite Hdc. constructor; auto. eapply step_len; eauto. }
  rewrite <- Hdc in Hpre, Hb, Hpost.
  destruct (HRC _ _ _ _ _ (proj2 Hv) Hk1 Hcpre Hpre) as [S2 C2].
  pose proof (ctxok_step _ _ _ _ _ _ Hk1 S2 C2) as Hk2.
  destruct (chk_stmts P (senv_of r2) c (fbody fd)) as [eb Gb] eqn:Hcs. simpl in Hcbody. subst eb.
  assert (O2' : env_ok st2 r2 (scdepth c) (ininit c)).
  { rewrite Hsc. eapply env_ok_mono; [apply (st_ty _ _ _ S2)|exact O2]. }
  destruct (HXL _ _ _ _ _ _ _ _ Hv Hk2 O2' Hcs Hb) as [S3 [C3 V3]].
  pose proof (ctxok_step _ _ _ _ _ _ Hk2 S3 C3) as Hk3.
  destruct (HRC _ _ _ _ _ (proj2 Hv) Hk3 Hcpost Hpost) as [S4 C4].
  split; [eapply step_trans; [eauto|eapply step_trans; [eauto|eapply step_trans; eauto]]|].
  split; auto. eapply vok_mono; [apply (st_ty _ _ _ S4)|exact V3].
Qed.

Lemma CC_step f : IH P n0 f -> CC_ P n0 (S f).
Proof.
  intros [_ [_ [_ [HXL _]]]] ce cd ps body vs st v st' Hclo Hc Hn Hvs Hev.
  simpl in Hev. simpl in Hclo. destruct Hclo as [Hf [Hle Hchk]]. specialize (Hchk eq_refl). unfold clo_chk in Hchk.
  destruct (bind_params ps vs (S cd) ce st) as [[r2 st1]|] eqn:Hbp; [|discriminate].
  destruct (exec_list f P r2 (S (S cd)) body st1) as [[[o r3] st2]|] eqn:Hb; [|discriminate].
  inversion Hev; subst; clear Hev.
  assert (Hok : env_ok st ce (S cd) false).
  { intros x b Hb0. specialize (Hle x b Hb0). destruct (rkind b); intro; [lia|discriminate]. }
  destruct (bind_params_ok P n0 ps vs st ce (S cd) r2 st1 (S (S cd)) (S cd) false Hc Hn Hvs Hf
              (env_le_weaken _ _ _ (Nat.le_succ_diag_r _) (env_le_weaken _ _ _ (Nat.le_succ_diag_r _) Hle))
              (Nat.le_succ_diag_r _) Hok Hbp)
    as [S1 [C1 [Hs2 [F2 [L2 O2]]]]].
  rewrite <- Hs2 in Hchk.
  set (c := mkC true (S cd) (S (S cd)) false true) in *.
  assert (Hv : view_ctx c) by (split; reflexivity).
  assert (Hk1 : ctxok st1 r2 (depth c)).
  { constructor; auto. eapply step_len; eauto. }
  destruct (chk_stmts P (senv_of r2) c body) as [eb Gb] eqn:Hcs. simpl in Hchk. subst eb.
  destruct (HXL r2 body st1 o r3 st' c Gb Hv Hk1 O2 Hcs Hb) as [S2 [C2 V2]].
  split; [eapply step_trans; eauto|]. split; auto.
Qed.

Lemma find_init_in k fd : find_init P k = Some fd -> In fd P /\ finit fd = true /\ fhost fd = Some k.
Proof.
  intro H. unfold find_init in H. apply find_some in H. destruct H as [Hin Hg]. split; auto.
  unfold is_init_of in Hg. destruct (finit fd); [|discriminate]. simpl in Hg.
  destruct (fhost fd) as [k'|]; [|discriminate].
  destruct k', k; try discriminate; auto.
Qed.

Local Opaque alloc.

Lemma K_step f : IH P n0 f -> K_ P n0 (S f).
Proof.
  intros [_ [_ [_ [_ [_ [HC _]]]]]] k vs st v st' Hiv Hc Hn Hvs Hev.
  simpl in Hev.
  assert (Hw : wk_top (dflt_obj k) (host_ty k) = true) by (destruct k; reflexivity).
  assert (Hvd : vok st (dflt_obj k)) by (destruct k; simpl; auto).
  destruct (alloc_ok P n0 st (host_ty k) (dflt_obj k) Hc Hn Hw Hvd) as [S1 [C1 [L1 N1]]].
  set (ls := alloc st (host_ty k) (dflt_obj k)) in *.
  destruct (find_init P k) as [fd|] eqn:Hfi.
  - destruct (find_init_in _ _ Hfi) as [Hin [Hfin Hh]].
    unfold init_view in Hiv. rewrite Hfi in Hiv.
    destruct (call f P fd (Some (fst ls, [])) vs (snd ls)) as [[v0 st2]|] eqn:Hcl; [|discriminate].
    assert (Hsf : self_fresh n0 (snd ls) fd (Some (fst ls, []))).
    { intros _. exists (fst ls), (mkCell (host_ty k) (dflt_obj k)), k. rewrite L1. repeat split; auto. }
    destruct (HC _ _ _ _ _ _ Hin Hiv C1 (step_len _ _ _ S1 Hn) (Forall_vok_mono _ _ _ _ (st_ty _ _ _ S1) Hvs) Hsf Hcl)
      as [S2 [C2 V2]].
    destruct k.
    + destruct (read_lv st2 (fst ls, [])) as [u|] eqn:Hr; [|discriminate]. inversion Hev; subst.
      split; [eapply step_trans; eauto|]. split; auto; try (eapply read_vok; eauto).
    + inversion Hev; subst. split; [eapply step_trans; eauto|]. split; auto; simpl; auto.
  - destruct vs; [|discriminate]. inversion Hev; subst. split; auto. split; auto; destruct k; simpl; auto.
Qed.

Theorem sound_all : forall f, IH P n0 f.
Proof.
  induction f as [|f IHf].
  - unfold IH, E_, EL_, X_, XL_, RC_, C_, CC_, K_.
    repeat match goal with |- _ /\ _ => split end; intros; simpl in *; discriminate.
  - split; [apply E_step; auto|]. split; [apply EL_step; auto|]. split; [apply X_step; auto|].
    split; [apply XL_step; auto|]. split; [apply RC_step; auto|]. split; [apply C_step; auto|].
    split; [apply CC_step; auto|apply K_step; auto].
Qed.

End SC.
