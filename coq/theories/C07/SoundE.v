(* C07  Soundness, expressions: the induction step for [eval] and [eval_list]. *)
From CV Require Import C07.Sem C07.Lemmas C07.Invariants C07.Soundness.
Open Scope nat_scope.

Section SE.
Variable P : prog.
Variable n0 : nat.

Local Notation vok := (vok P).
Local Notation cells_ok := (cells_ok P).
Local Notation step := (step n0).
Local Notation ctxok := (ctxok P n0).

Lemma find_global_in g fd : find_global P g = Some fd -> In fd P /\ finit fd = false.
Proof.
  intro H. unfold find_global in H. apply find_some in H. destruct H as [Hin Hg]. split; auto.
  unfold is_global in Hg. destruct (finit fd); auto.
Qed.

Lemma find_method_in m fd : find_method P m = Some fd -> In fd P /\ finit fd = false.
Proof.
  intro H. unfold find_method in H. apply find_some in H. destruct H as [Hin Hg]. split; auto.
  unfold is_method in Hg. destruct (finit fd); auto.
Qed.

Lemma self_fresh_noinit st fd self : finit fd = false -> self_fresh n0 st fd self.
Proof. intros H H1. congruence. Qed.

Ltac fin_refl Hk := split; [apply step_refl | split; [apply Hk | simpl; auto]].

Lemma E_step f : IH P n0 f -> E_ P n0 (S f).
Proof.
  intros [HE [HEL [_ [_ [_ [HC [HCC HK]]]]]]] r e st v st' c ln Hv Hk Hchk Hev.
  pose proof Hv as [Hen Hst].
  destruct e as [z | t | a b | k args | es | kvs | t | e1 | g args | t opt m args | t opt b args | x args
                 | view ps body | e1 | e1 T | e1 | e1 | ]; simpl in Hev, Hchk.
  - (* EInt *) inversion Hev; subst. fin_refl Hk.
  - (* ERead *)
    destruct (read_target st r t) as [a|] eqn:Hr; [|discriminate]. inversion Hev; subst.
    split; [apply step_refl|]. split; [apply Hk|]. eapply read_target_vok; eauto. apply Hk.
  - (* EAdd *)
    apply app_nil_inv in Hchk. destruct Hchk as [Hca Hcb].
    destruct (eval f P r (depth c) a st) as [[va st1]|] eqn:Ha; [|discriminate].
    destruct (HE _ _ _ _ _ _ _ Hv Hk Hca Ha) as [S1 [C1 V1]].
    pose proof (ctxok_step _ _ _ _ _ _ Hk S1 C1) as Hk1.
    destruct (eval f P r (depth c) b st1) as [[vb st2]|] eqn:Hb; [|discriminate].
    destruct (HE _ _ _ _ _ _ _ Hv Hk1 Hcb Hb) as [S2 [C2 V2]].
    destruct va; try discriminate; destruct vb; try discriminate. inversion Hev; subst.
    split; [eapply step_trans; eauto|]. split; [auto|simpl; auto].
  - (* ENew *)
    apply app_nil_inv in Hchk. destruct Hchk as [Hp Hca].
    apply enforce_purity_nil in Hp; auto.
    destruct (eval_list f P r (depth c) args st) as [[vs st1]|] eqn:Ha; [|discriminate].
    destruct (HEL _ _ _ _ _ _ _ Hv Hk Hca Ha) as [S1 [C1 V1]].
    pose proof (ctxok_step _ _ _ _ _ _ Hk S1 C1) as Hk1.
    destruct (HK _ _ _ _ _ Hp C1 (co_len _ _ _ _ _ Hk1) V1 Hev) as [S2 [C2 V2]].
    split; [eapply step_trans; eauto|]. split; auto.
  - (* EArr *)
    destruct (eval_list f P r (depth c) es st) as [[vs st1]|] eqn:Ha; [|discriminate].
    destruct (HEL _ _ _ _ _ _ _ Hv Hk Hchk Ha) as [S1 [C1 V1]]. inversion Hev; subst.
    split; auto. split; auto. simpl; auto.
  - (* EDict *) inversion Hev; subst. fin_refl Hk.
  - (* ERef *)
    destruct (eval_lv st r t) as [[lp via]|]; [|discriminate].
    destruct (hop st lp) as [[lp' f']|]; [|discriminate]. inversion Hev; subst. fin_refl Hk.
  - (* EDeref *)
    destruct (eval f P r (depth c) e1 st) as [[v0 st1]|] eqn:Ha; [|discriminate].
    destruct (HE _ _ _ _ _ _ _ Hv Hk Hchk Ha) as [S1 [C1 V1]].
    destruct v0; try discriminate.
    destruct (read_lv st1 (l, p)) as [u|] eqn:Hr; [|discriminate]. inversion Hev; subst.
    split; auto. split; auto. eapply read_vok; eauto.
  - (* ECallG *)
    apply app_nil_inv in Hchk. destruct Hchk as [Hp Hca].
    apply enforce_purity_nil in Hp; auto. unfold fun_view in Hp.
    destruct (find_global P g) as [fd|] eqn:Hfd; [|discriminate].
    destruct (find_global_in _ _ Hfd) as [Hin Hni].
    destruct (eval_list f P r (depth c) args st) as [[vs st1]|] eqn:Ha; [|discriminate].
    destruct (HEL _ _ _ _ _ _ _ Hv Hk Hca Ha) as [S1 [C1 V1]].
    pose proof (ctxok_step _ _ _ _ _ _ Hk S1 C1) as Hk1.
    destruct (HC _ _ _ _ _ _ Hin Hp C1 (co_len _ _ _ _ _ Hk1) V1 (self_fresh_noinit _ _ _ Hni) Hev) as [S2 [C2 V2]].
    split; [eapply step_trans; eauto|]. split; auto.
  - (* ECallM *)
    apply app_nil_inv in Hchk. destruct Hchk as [Hp Hca].
    apply enforce_purity_nil in Hp; auto. unfold method_view in Hp.
    destruct (find_method P m) as [fd|] eqn:Hfd; [|discriminate].
    destruct (find_method_in _ _ Hfd) as [Hin Hni].
    destruct (recv_lv st r t opt) as [[lp|]|] eqn:Hrv; [| |discriminate].
    + destruct (eval_list f P r (depth c) args st) as [[vs st1]|] eqn:Ha; [|discriminate].
      destruct (HEL _ _ _ _ _ _ _ Hv Hk Hca Ha) as [S1 [C1 V1]].
      pose proof (ctxok_step _ _ _ _ _ _ Hk S1 C1) as Hk1.
      destruct (call f P fd (Some lp) vs st1) as [[v0 st2]|] eqn:Hcl; [|discriminate].
      destruct (HC _ _ _ _ _ _ Hin Hp C1 (co_len _ _ _ _ _ Hk1) V1 (self_fresh_noinit _ _ _ Hni) Hcl) as [S2 [C2 V2]].
      inversion Hev; subst.
      split; [eapply step_trans; eauto|]. split; auto.
      destruct opt; auto. destruct v0; simpl in *; auto.
    + inversion Hev; subst. fin_refl Hk.
  - (* ECallB *)
    apply app_nil_inv in Hchk. destruct Hchk as [Hp Hca].
    apply enforce_purity_nil in Hp; auto. apply view_builtin_pure in Hp.
    destruct (recv_lv st r t opt) as [[lp|]|] eqn:Hrv; [| |discriminate].
    + destruct (eval_list f P r (depth c) args st) as [[vs st1]|] eqn:Ha; [|discriminate].
      destruct (HEL _ _ _ _ _ _ _ Hv Hk Hca Ha) as [S1 [C1 V1]].
      unfold bsem in Hev. rewrite Hp in Hev.
      destruct (bsem_pure b lp vs st1) as [v0|] eqn:Hb; [|discriminate]. inversion Hev; subst.
      split; auto. split; auto.
      pose proof (bsem_pure_vok _ _ _ _ _ _ C1 Hb) as V0.
      destruct opt; auto. destruct v0; simpl in *; auto.
    + inversion Hev; subst. fin_refl Hk.
  - (* ECallV *)
    apply app_nil_inv in Hchk. destruct Hchk as [Hp Hca].
    apply enforce_purity_nil in Hp; auto. rewrite alookup_senv in Hp.
    destruct (alookup x r) as [b|] eqn:Hb; [|discriminate]. simpl in Hp.
    destruct b as [l p d T kd]. simpl in Hp. destruct T; try discriminate. subst view.
    assert (Hbt : bind_typed st (mkRB l p d (TFun true) kd)).
    { eapply (co_fun _ _ _ _ _ Hk); eauto. simpl; eauto. }
    destruct Hbt as [Hp0 [c0 [Hc0 Hty0]]]. simpl in Hp0, Hc0, Hty0. subst p.
    unfold read_target in Hev. simpl in Hev.
    unfold read_lv in Hev. simpl in Hev. rewrite Hc0 in Hev. simpl in Hev.
    destruct (co_cells _ _ _ _ _ Hk _ _ Hc0) as [Hw0 Hv0]. rewrite Hty0 in Hw0.
    destruct (cval c0) as [| | | | | | | |vw ce cd ps body|] eqn:Hcv; try discriminate.
    simpl in Hw0. subst vw.
    destruct (eval_list f P r (depth c) args st) as [[vs st1]|] eqn:Ha; [|discriminate].
    destruct (HEL _ _ _ _ _ _ _ Hv Hk Hca Ha) as [S1 [C1 V1]].
    pose proof (ctxok_step _ _ _ _ _ _ Hk S1 C1) as Hk1.
    assert (Hv1 : vok st1 (VClo true ce cd ps body)) by (eapply vok_mono; [apply (st_ty _ _ _ S1)|exact Hv0]).
    destruct (HCC _ _ _ _ _ _ _ _ Hv1 C1 (co_len _ _ _ _ _ Hk1) V1 Hev) as [S2 [C2 V2]].
    split; [eapply step_trans; eauto|]. split; auto.
  - (* EFun *)
    inversion Hev; subst. split; [apply step_refl|]. split; [apply Hk|].
    simpl. split; [apply Hk|]. split; [apply Hk|].
    intros ->. unfold clo_chk. rewrite Hst in Hchk. exact Hchk.
  - (* EForce *)
    destruct (eval f P r (depth c) e1 st) as [[v0 st1]|] eqn:Ha; [|discriminate].
    destruct (HE _ _ _ _ _ _ _ Hv Hk Hchk Ha) as [S1 [C1 V1]].
    destruct v0; try discriminate; inversion Hev; subst; (split; [auto|split; auto]).
  - (* ECast *)
    destruct (eval f P r (depth c) e1 st) as [[v0 st1]|] eqn:Ha; [|discriminate].
    destruct (HE _ _ _ _ _ _ _ Hv Hk Hchk Ha) as [S1 [C1 V1]].
    destruct (wk_top v0 T); [|discriminate]. inversion Hev; subst. auto.
  - (* EAttach *)
    apply app_nil_inv in Hchk. destruct Hchk as [_ Ho]. rewrite Hst in Ho. exfalso. eapply observe_nil; eauto.
  - (* EDestroy *)
    apply app_nil_inv in Hchk. destruct Hchk as [_ Ho]. exfalso. eapply observe_nil; eauto.
  - (* ENilV *) inversion Hev; subst. fin_refl Hk.
Qed.

Lemma EL_step f : IH P n0 f -> EL_ P n0 (S f).
Proof.
  intros [HE [HEL _]] r es st vs st' c ln Hv Hk Hchk Hev.
  destruct es as [|e rest]; simpl in Hev, Hchk.
  - inversion Hev; subst. split; [apply step_refl|]. split; [apply Hk|constructor].
  - apply app_nil_inv in Hchk. destruct Hchk as [Hca Hcb].
    destruct (eval f P r (depth c) e st) as [[v st1]|] eqn:Ha; [|discriminate].
    destruct (HE _ _ _ _ _ _ _ Hv Hk Hca Ha) as [S1 [C1 V1]].
    pose proof (ctxok_step _ _ _ _ _ _ Hk S1 C1) as Hk1.
    destruct (eval_list f P r (depth c) rest st1) as [[vs1 st2]|] eqn:Hb; [|discriminate].
    destruct (HEL _ _ _ _ _ _ _ Hv Hk1 Hcb Hb) as [S2 [C2 V2]].
    inversion Hev; subst.
    split; [eapply step_trans; eauto|]. split; auto. constructor; auto.
    eapply vok_mono; [apply (st_ty _ _ _ S2)|exact V1].
Qed.

End SE.
