(* C07  Soundness of the (strict) purity analysis for the interpreter of Sem.v:
   code that passed the check in a view scope changes no cell that existed when it started, does not change the
   account storage map or the set of destroyed resources, and emits only events declared by emit conditions. *)
From CV Require Import C07.Sem C07.Lemmas C07.Invariants.
From CV Require Import Gen.GenC07Purity.
Open Scope nat_scope.

(* ---------------------------------------------------------------- the built-in purity table *)
Definition all_builtins : list builtin :=
  [BAppend; BRemoveFirst; BInsert; BContains; BConcat; BDInsert; BDRemove; BDContainsKey; BSave; BLoad; BCopy; BBorrow; BCheck].

(* every function the ground truth lists as mutating is not view; a view built-in takes only view functions *)
Lemma table_ok :
  forallb (fun e => implb (bmut e) (negb (bview e)) && implb (bview e) (bfpview e)) builtins = true.
Proof. vm_compute. reflexivity. Qed.

(* the modelled built-ins are in the table, and the model's [mutating] is the ground truth's flag *)
Lemma table_consistent :
  forallb (fun b => match find_builtin (bname b) with Some e => Bool.eqb (bmut e) (mutating b) | None => false end)
          all_builtins = true.
Proof. vm_compute. reflexivity. Qed.

Lemma view_builtin_pure b : builtin_view b = true -> mutating b = false.
Proof. intro H. destruct b; vm_compute in H; try discriminate; reflexivity. Qed.

Section Sound.
Variable P : prog.
Hypothesis HP : chk_prog true P = [].
Variable n0 : nat.

Local Notation vok := (vok P).
Local Notation cells_ok := (cells_ok P).
Local Notation step := (step n0).

Definition env_ok (st : state) (r : env) (dsc : nat) (ini : bool) : Prop :=
  forall x b, alookup x r = Some b ->
    match rkind b with
    | KVar => dsc <= rdepth b -> n0 <= rloc b /\ bind_typed st b
    | KSelf => ini = true -> n0 <= rloc b /\ bind_typed st b /\ (rty b = TS \/ rty b = TObj)
    end.

Lemma env_ok_mono st st' r dsc ini : tymono st st' -> env_ok st r dsc ini -> env_ok st' r dsc ini.
Proof.
  intros Hm H x b Hb. specialize (H x b Hb). destruct (rkind b); intro Hd; destruct (H Hd) as [H1 H2].
  - split; auto. eapply bind_typed_mono; eauto.
  - destruct H2 as [H2 H3]. split; auto. split; auto. eapply bind_typed_mono; eauto.
Qed.

Lemma env_ok_weaken st r dsc dsc' ini : dsc <= dsc' -> env_ok st r dsc ini -> env_ok st r dsc' ini.
Proof.
  intros Hd H x b Hb. specialize (H x b Hb). destruct (rkind b); auto. intro. apply H. lia.
Qed.

Record ctxok (st : state) (r : env) (d : nat) : Prop := mkCtx {
  co_cells : cells_ok st;
  co_len : n0 <= List.length (cells st);
  co_fun : env_fun st r;
  co_le : env_le r d }.

Lemma ctxok_step st st' r d : ctxok st r d -> step st st' -> cells_ok st' -> ctxok st' r d.
Proof.
  intros [a b c e] S C. constructor; auto.
  - pose proof (st_len _ _ _ S). lia.
  - eapply env_fun_mono; eauto. apply (st_ty _ _ _ S).
Qed.

Lemma Forall_vok_mono st st' vs : tymono st st' -> Forall (vok st) vs -> Forall (vok st') vs.
Proof. intros Hm H. eapply Forall_impl; [|exact H]. intros a. apply vok_mono; auto. Qed.

Definition view_ctx (c : cctx) : Prop := enforce c = true /\ strict c = true.

(* ---------------------------------------------------------------- statements of the induction *)
Definition E_ (f : nat) : Prop := forall r e st v st' c ln,
  view_ctx c -> ctxok st r (depth c) ->
  chk_exp P (senv_of r) c ln e = [] ->
  eval f P r (depth c) e st = Ok (v, st') ->
  step st st' /\ cells_ok st' /\ vok st' v.

Definition EL_ (f : nat) : Prop := forall r es st vs st' c ln,
  view_ctx c -> ctxok st r (depth c) ->
  chk_exps P (senv_of r) c ln es = [] ->
  eval_list f P r (depth c) es st = Ok (vs, st') ->
  step st st' /\ cells_ok st' /\ Forall (vok st') vs.

Definition X_ (f : nat) : Prop := forall r s st o r' st' c G',
  view_ctx c -> ctxok st r (depth c) -> env_ok st r (scdepth c) (ininit c) ->
  chk_stmt P (senv_of r) c s = ([], G') ->
  exec f P r (depth c) s st = Ok (o, r', st') ->
  step st st' /\ cells_ok st' /\ senv_of r' = G' /\ env_fun st' r' /\ env_le r' (depth c)
  /\ env_ok st' r' (scdepth c) (ininit c) /\ vok st' (ret_of o).

Definition XL_ (f : nat) : Prop := forall r ss st o r' st' c G',
  view_ctx c -> ctxok st r (depth c) -> env_ok st r (scdepth c) (ininit c) ->
  chk_stmts P (senv_of r) c ss = ([], G') ->
  exec_list f P r (depth c) ss st = Ok (o, r', st') ->
  step st st' /\ cells_ok st' /\ vok st' (ret_of o).

Definition RC_ (f : nat) : Prop := forall r cs st st' c,
  strict c = true -> ctxok st r (depth c) ->
  chk_conds P (senv_of r) c cs = [] ->
  run_conds f P r (depth c) cs st = Ok st' ->
  step st st' /\ cells_ok st'.

Definition self_fresh (st : state) (fd : fundecl) (self : option lval) : Prop :=
  finit fd = true ->
  exists l c0 k, self = Some (l, []) /\ n0 <= l /\ nth_error (cells st) l = Some c0
                 /\ fhost fd = Some k /\ cty c0 = host_ty k.

Definition C_ (f : nat) : Prop := forall fd self vs st v st',
  In fd P -> fview fd = true -> cells_ok st -> n0 <= List.length (cells st) -> Forall (vok st) vs ->
  self_fresh st fd self ->
  call f P fd self vs st = Ok (v, st') ->
  step st st' /\ cells_ok st' /\ vok st' v.

Definition CC_ (f : nat) : Prop := forall ce cd ps body vs st v st',
  vok st (VClo true ce cd ps body) -> cells_ok st -> n0 <= List.length (cells st) -> Forall (vok st) vs ->
  call_clo f P ce cd ps body vs st = Ok (v, st') ->
  step st st' /\ cells_ok st' /\ vok st' v.

Definition K_ (f : nat) : Prop := forall k vs st v st',
  init_view P k = true -> cells_ok st -> n0 <= List.length (cells st) -> Forall (vok st) vs ->
  construct f P k vs st = Ok (v, st') ->
  step st st' /\ cells_ok st' /\ vok st' v.

Definition IH (f : nat) : Prop := E_ f /\ EL_ f /\ X_ f /\ XL_ f /\ RC_ f /\ C_ f /\ CC_ f /\ K_ f.

(* ---------------------------------------------------------------- small facts *)
Lemma observe_nil c ln : enforce c = true -> observe c ln = [] -> False.
Proof. unfold observe. intros ->. discriminate. Qed.

Lemma enforce_purity_nil c ln b : enforce c = true -> enforce_purity c ln b = [] -> b = true.
Proof. unfold enforce_purity. destruct b; auto. intros H H1. exfalso. eapply observe_nil; eauto. Qed.

Lemma read_target_vok st r t v : cells_ok st -> read_target st r t = Ok v -> vok st v.
Proof.
  intros Hc H. unfold read_target in H.
  assert (G : match eval_lv st r t with
              | Err e => Err e
              | Ok (lp, via) =>
                match read_lv st lp with
                | Err e => Err e
                | Ok v => if via && is_container v then Ok (VRef (fst lp) (snd lp)) else Ok v
                end
              end = Ok v -> vok st v).
  { intros H0. destruct (eval_lv st r t) as [[lp via]|]; [|discriminate].
    destruct (read_lv st lp) as [a|] eqn:Hr; [|discriminate].
    destruct (via && is_container a); inversion H0; subst; simpl; auto. eapply read_vok; eauto. }
  destruct t; try (apply G; exact H).
  destruct (alookup (root (TgVar x)) r) as [b|]; try (apply G; exact H).
  destruct b as [l p d T k]. destruct T; try (apply G; exact H). destruct k; try (apply G; exact H).
  inversion H; subst; simpl; auto.
Qed.

Lemma bsem_pure_vok st b lp args v : cells_ok st -> bsem_pure b lp args st = Ok v -> vok st v.
Proof.
  intros Hc H. unfold bsem_pure, b01 in H.
  repeat match type of H with
         | context [match ?x with _ => _ end] => destruct x eqn:?; try discriminate
         end; inversion H; subst; simpl; auto.
  eapply read_vok; eauto.
Qed.

Lemma step_len st st' : step st st' -> n0 <= List.length (cells st) -> n0 <= List.length (cells st').
Proof. intros S H. pose proof (st_len _ _ _ S). lia. Qed.

Lemma alookup_cons {A} x y (a : A) l : alookup x ((y, a) :: l) = if Nat.eqb x y then Some a else alookup x l.
Proof. reflexivity. Qed.

(* declaring a variable *)
Lemma bind_var_ok st r d x T v r' st' :
  cells_ok st -> n0 <= List.length (cells st) -> vok st v ->
  bind_var st r d x T v = Ok (r', st') ->
  step st st' /\ cells_ok st' /\
  r' = (x, mkRB (List.length (cells st)) [] d T KVar) :: r /\
  (exists c, nth_error (cells st') (List.length (cells st)) = Some c /\ cty c = T).
Proof.
  intros Hc Hn Hv H. unfold bind_var in H. destruct (wk_top (conv v T) T) eqn:Hw; [|discriminate].
  destruct (alloc_ok P n0 st T (conv v T) Hc Hn Hw (vok_conv P st v T Hv)) as [S [C [L N]]].
  inversion H; subst. try rewrite L. split; auto. split; auto. split; [reflexivity|]. eexists; split; eauto.
Qed.

Lemma env_ext st st' r d dmax x T dsc ini :
  tymono st st' -> n0 <= List.length (cells st) ->
  (exists c, nth_error (cells st') (List.length (cells st)) = Some c /\ cty c = T) ->
  env_fun st r -> env_le r dmax -> d <= dmax -> env_ok st r dsc ini ->
  env_fun st' ((x, mkRB (List.length (cells st)) [] d T KVar) :: r)
  /\ env_le ((x, mkRB (List.length (cells st)) [] d T KVar) :: r) dmax
  /\ env_ok st' ((x, mkRB (List.length (cells st)) [] d T KVar) :: r) dsc ini.
Proof.
  intros Hm Hn Hc Hf Hle Hd Hok. split; [|split].
  - intros y b Hb Hfun. rewrite alookup_cons in Hb. destruct (Nat.eqb y x).
    + inversion Hb; subst. split; auto.
    + eapply bind_typed_mono; eauto.
  - intros y b Hb. rewrite alookup_cons in Hb. destruct (Nat.eqb y x).
    + inversion Hb; subst. simpl. lia.
    + eauto.
  - intros y b Hb. rewrite alookup_cons in Hb. destruct (Nat.eqb y x).
    + inversion Hb; subst. simpl. intros _. split; auto. split; auto.
    + eapply env_ok_mono; eauto.
Qed.

Lemma bind_params_ok ps : forall vs st r d r' st' dmax dsc ini,
  cells_ok st -> n0 <= List.length (cells st) -> Forall (vok st) vs ->
  env_fun st r -> env_le r dmax -> d <= dmax -> env_ok st r dsc ini ->
  bind_params ps vs d r st = Ok (r', st') ->
  step st st' /\ cells_ok st' /\ senv_of r' = bind_params_s ps d (senv_of r)
  /\ env_fun st' r' /\ env_le r' dmax /\ env_ok st' r' dsc ini.
Proof.
  induction ps as [|[x T] ps IHp]; intros vs st r d r' st' dmax dsc ini Hc Hn Hvs Hf Hle Hd Hok H; simpl in H.
  - destruct vs; [|discriminate]. inversion H; subst.
    split; [apply step_refl|]. split; [assumption|]. split; [reflexivity|]. split; [assumption|]. split; assumption.
  - destruct vs as [|v vs]; [discriminate|].
    destruct (bind_var st r d x T v) as [[r1 st1]|] eqn:Hb; [|discriminate].
    inversion Hvs; subst.
    destruct (bind_var_ok _ _ _ _ _ _ _ _ Hc Hn H2 Hb) as [S1 [C1 [Hr1 Hcell]]].
    pose proof (st_ty _ _ _ S1) as Hm.
    destruct (env_ext st st1 r d dmax x T dsc ini Hm Hn Hcell Hf Hle Hd Hok) as [F1 [L1 O1]].
    rewrite <- Hr1 in F1, L1, O1.
    destruct (IHp vs st1 r1 d r' st' dmax dsc ini C1 (step_len _ _ S1 Hn) (Forall_vok_mono _ _ _ Hm H3) F1 L1 Hd O1 H)
      as [S2 [C2 [E2 [F2 [L2 O2]]]]].
    split; [eapply step_trans; eauto|]. split; auto. split; auto.
    rewrite E2, Hr1. reflexivity.
Qed.

End Sound.

