(* C05  Non-resource values have copy semantics: executable model.

   Values are trees whose container nodes carry an identity (the model of an atree container /
   ValueID): a mutation happens AT an identity and is seen by every place that holds that
   identity ([subst_id] over the whole store).  Every transfer of a non-resource value
   (let / assignment / argument / return / field or element write / container literal /
   storage save, load, copy) goes through [copy], which gives every container in the value a
   fresh identity.  References hold an identity (ephemeral reference to a container) and are
   resolved by searching the store; storage references re-read the slot.
   No proofs in this file. *)
From CV Require Export Base.Prelude.

Definition id := nat.

Inductive ckind : Type :=
| KArr                       (* array: children by position *)
| KDict                      (* dictionary: children by key, kept in ascending key order *)
| KStruct (tag : Z)          (* struct of declared type [tag]: children by field index *)
| KOpt.                      (* optional: no child (nil) or one child at position 0 (the payload);
                                an optional is transferred like any other value: its payload is copied *)

Inductive tv : Type :=
| TPrim (z : Z)
| TNode (i : id) (k : ckind) (es : list (Z * tv)).

Definition ckind_eqb (a b : ckind) : bool :=
  match a, b with
  | KArr, KArr | KDict, KDict | KOpt, KOpt => true
  | KStruct s, KStruct t => s =? t
  | _, _ => false
  end.

(* identities occurring in a value *)
Fixpoint ids (v : tv) : list id :=
  match v with
  | TPrim _ => []
  | TNode i _ es => i :: flat_map (fun e => ids (snd e)) es
  end.

(* the value without identities: what a program can observe by reading *)
Fixpoint erase (v : tv) : tv :=
  match v with
  | TPrim z => TPrim z
  | TNode _ k es => TNode O k (map (fun e => (fst e, erase (snd e))) es)
  end.

Fixpoint tv_eqb (a b : tv) : bool :=
  match a, b with
  | TPrim x, TPrim y => x =? y
  | TNode i k es, TNode j l fs =>
      Nat.eqb i j && ckind_eqb k l &&
      (fix go (es fs : list (Z * tv)) : bool :=
         match es, fs with
         | [], [] => true
         | (a1, c) :: r, (a2, d) :: s => (a1 =? a2) && tv_eqb c d && go r s
         | _, _ => false
         end) es fs
  | _, _ => false
  end.

(* transfer of a non-resource value: a deep copy in which every container gets a fresh identity,
   drawn from the counter [n] *)
Fixpoint copy (n : id) (v : tv) : tv * id :=
  match v with
  | TPrim z => (TPrim z, n)
  | TNode _ k es =>
      let '(es', n') :=
        (fix go (n : id) (es : list (Z * tv)) : list (Z * tv) * id :=
           match es with
           | [] => ([], n)
           | (key, c) :: r =>
               let '(c', n1) := copy n c in
               let '(r', n2) := go n1 r in
               ((key, c') :: r', n2)
           end) (S n) es in
      (TNode n k es', n')
  end.

(* ------------------------------------------------------------------ paths *)
Fixpoint find_key (es : list (Z * tv)) (s : Z) : option tv :=
  match es with
  | [] => None
  | (k, c) :: r => if k =? s then Some c else find_key r s
  end.

Definition child (k : ckind) (es : list (Z * tv)) (s : Z) : option tv :=
  match k with
  | KDict => find_key es s
  | _ => if s <? 0 then None else option_map snd (nth_error es (Z.to_nat s))
  end.

Fixpoint get_path (v : tv) (p : list Z) : option tv :=
  match p with
  | [] => Some v
  | s :: r =>
      match v with
      | TNode _ k es => match child k es s with Some c => get_path c r | None => None end
      | TPrim _ => None
      end
  end.

(* first node with identity i *)
Fixpoint find_id (i : id) (v : tv) : option tv :=
  match v with
  | TPrim _ => None
  | TNode j k es =>
      if Nat.eqb j i then Some v
      else (fix go (es : list (Z * tv)) : option tv :=
              match es with
              | [] => None
              | (_, c) :: r => match find_id i c with Some t => Some t | None => go r end
              end) es
  end.

(* replace every node with identity i by [t] *)
Fixpoint subst_id (i : id) (t : tv) (v : tv) : tv :=
  match v with
  | TPrim z => TPrim z
  | TNode j k es =>
      if Nat.eqb j i then t
      else TNode j k (map (fun e => (fst e, subst_id i t (snd e))) es)
  end.

(* ------------------------------------------------------------------ container mutations *)
Inductive mop : Type :=
| MSet (s : Z) (x : tv)       (* a[s] = x, d[s] = x, s.field = x *)
| MAppend (x : tv)            (* a.append(x) *)
| MInsert (s : Z) (x : tv)    (* a.insert(at: s, x) *)
| MRemove (s : Z).            (* a.remove(at: s), d.remove(key: s) *)

Fixpoint set_pos (n : nat) (x : tv) (es : list (Z * tv)) : option (list (Z * tv)) :=
  match es, n with
  | [], _ => None
  | (k, _) :: r, O => Some ((k, x) :: r)
  | e :: r, S m => option_map (cons e) (set_pos m x r)
  end.

Fixpoint ins_pos (n : nat) (x : tv) (es : list (Z * tv)) : option (list (Z * tv)) :=
  match n, es with
  | O, _ => Some ((0, x) :: es)
  | S m, e :: r => option_map (cons e) (ins_pos m x r)
  | S _, [] => None
  end.

Fixpoint del_pos (n : nat) (es : list (Z * tv)) : option (list (Z * tv)) :=
  match es, n with
  | [], _ => None
  | _ :: r, O => Some r
  | e :: r, S m => option_map (cons e) (del_pos m r)
  end.

Fixpoint set_key (s : Z) (x : tv) (es : list (Z * tv)) : list (Z * tv) :=
  match es with
  | [] => [(s, x)]
  | (k, c) :: r =>
      if k =? s then (k, x) :: r
      else if s <? k then (s, x) :: (k, c) :: r
      else (k, c) :: set_key s x r
  end.

Fixpoint del_key (s : Z) (es : list (Z * tv)) : list (Z * tv) :=
  match es with
  | [] => []
  | (k, c) :: r => if k =? s then r else (k, c) :: del_key s r
  end.

Definition apply_mop (v : tv) (o : mop) : option tv :=
  match v with
  | TPrim _ => None
  | TNode i k es =>
      match k, o with
      | KArr, MSet s x => if s <? 0 then None else option_map (TNode i k) (set_pos (Z.to_nat s) x es)
      | KArr, MAppend x => Some (TNode i k (es ++ [(0, x)]))
      | KArr, MInsert s x => if s <? 0 then None else option_map (TNode i k) (ins_pos (Z.to_nat s) x es)
      | KArr, MRemove s => if s <? 0 then None else option_map (TNode i k) (del_pos (Z.to_nat s) es)
      | KDict, MSet s x => Some (TNode i k (set_key s x es))
      | KDict, MRemove s => Some (TNode i k (del_key s es))
      | KStruct _, MSet s x => if s <? 0 then None else option_map (TNode i k) (set_pos (Z.to_nat s) x es)
      | _, _ => None
      end
  end.

(* ------------------------------------------------------------------ store *)
Inductive key : Type :=
| KVar (x : nat)          (* local variable of the current transaction *)
| KSlot (s : nat).        (* account storage path *)

Definition key_eqb (a b : key) : bool :=
  match a, b with
  | KVar x, KVar y | KSlot x, KSlot y => Nat.eqb x y
  | _, _ => false
  end.

Record store : Type := {
  ents : list (key * tv);      (* variables and storage slots: the places that own values *)
  refs : list (nat * id);      (* ephemeral references: identity of the referenced container *)
  next : id;                   (* identity counter *)
}.

Fixpoint lookup (l : list (key * tv)) (k : key) : option tv :=
  match l with
  | [] => None
  | (k', v) :: r => if key_eqb k k' then Some v else lookup r k
  end.

Fixpoint put (l : list (key * tv)) (k : key) (v : tv) : list (key * tv) :=
  match l with
  | [] => [(k, v)]
  | (k', v') :: r => if key_eqb k k' then (k', v) :: r else (k', v') :: put r k v
  end.

Fixpoint drop_key (l : list (key * tv)) (k : key) : list (key * tv) :=
  match l with
  | [] => []
  | (k', v') :: r => if key_eqb k k' then r else (k', v') :: drop_key r k
  end.

Fixpoint lookup_ref (l : list (nat * id)) (r : nat) : option id :=
  match l with
  | [] => None
  | (r', i) :: t => if Nat.eqb r r' then Some i else lookup_ref t r
  end.

Fixpoint find_in_ents (i : id) (l : list (key * tv)) : option tv :=
  match l with
  | [] => None
  | (_, v) :: r => match find_id i v with Some t => Some t | None => find_in_ents i r end
  end.

(* where an access starts: a variable / storage slot (storage reference: re-read at every use)
   or an ephemeral reference *)
Inductive root : Type :=
| RKey (k : key)
| RRef (r : nat).

Definition root_value (st : store) (rt : root) : option tv :=
  match rt with
  | RKey k => lookup (ents st) k
  | RRef r => match lookup_ref (refs st) r with
              | Some i => find_in_ents i (ents st)
              | None => None
              end
  end.

Definition read (st : store) (rt : root) (p : list Z) : option tv :=
  match root_value st rt with Some v => get_path v p | None => None end.

(* ------------------------------------------------------------------ expressions *)
Inductive part : Type :=
| PRead (rt : root) (p : list Z)
| PLit (t : tv).

Inductive expr : Type :=
| EPart (q : part)                       (* a read or a literal *)
| EWrap (k : ckind) (qs : list (Z * part))   (* array / dictionary literal, struct constructor *)
| ECallId (q : part).                    (* id(q): passed as argument, returned *)

(* every evaluation ends with a transfer: the result only has fresh identities *)
Definition eval_part (st : store) (n : id) (q : part) : option (tv * id) :=
  match q with
  | PRead rt p => match read st rt p with Some t => Some (copy n t) | None => None end
  | PLit t => Some (copy n t)
  end.

Fixpoint eval_parts (st : store) (n : id) (qs : list (Z * part)) : option (list (Z * tv) * id) :=
  match qs with
  | [] => Some ([], n)
  | (k, q) :: r =>
      match eval_part st n q with
      | Some (t, n1) =>
          match eval_parts st n1 r with
          | Some (ts, n2) => Some ((k, t) :: ts, n2)
          | None => None
          end
      | None => None
      end
  end.

Definition eval (st : store) (n : id) (e : expr) : option (tv * id) :=
  match e with
  | EPart q => eval_part st n q
  | EWrap k qs =>
      match eval_parts st (S n) qs with
      | Some (ts, n') => Some (TNode n k ts, n')
      | None => None
      end
  | ECallId q =>
      match eval_part st n q with
      | Some (t, n1) => let '(t2, n2) := copy n1 t in Some (copy n2 t2)
      | None => None
      end
  end.

(* ------------------------------------------------------------------ statements *)
Inductive mope : Type :=
| ESet (s : Z) (e : expr)
| EAppend (e : expr)
| EInsert (s : Z) (e : expr)
| ERemove (s : Z).

Inductive stmt : Type :=
| SAssign (k : key) (e : expr)                 (* let x = e / x = e / storage.save(e, to: k) *)
| SMutate (rt : root) (p : list Z) (o : mope)  (* mutate the container at rt.p *)
| STakeRef (r : nat) (rt : root) (p : list Z)  (* r = &rt.p *)
| SMove (k k2 : key)                           (* x = storage.load(from: k2)!: k2 is emptied *)
| SCopyMutObs (rt : root) (p q : list Z) (o : mope)
      (* a copy of rt.p (callee parameter, loop variable) is mutated at q and logged *)
| SObs (rt : root) (p : list Z)                (* log(rt.p) *)
| SEndTx.                                      (* end of transaction: variables and references die *)

Definition eval_mope (st : store) (n : id) (o : mope) : option (mop * id) :=
  match o with
  | ESet s e => match eval st n e with Some (t, n') => Some (MSet s t, n') | None => None end
  | EAppend e => match eval st n e with Some (t, n') => Some (MAppend t, n') | None => None end
  | EInsert s e => match eval st n e with Some (t, n') => Some (MInsert s t, n') | None => None end
  | ERemove s => Some (MRemove s, n)
  end.

Definition node_id (v : tv) : option id :=
  match v with TNode i _ _ => Some i | TPrim _ => None end.

Definition is_var (e : key * tv) : bool := match fst e with KVar _ => true | KSlot _ => false end.

(* one statement: new store and what was logged; None = the program is not executable here
   (dangling reference, invalid path or operation) *)
Definition exec (st : store) (s : stmt) : option (store * list tv) :=
  match s with
  | SAssign k e =>
      match eval st (next st) e with
      | Some (t, n') => Some ({| ents := put (ents st) k t; refs := refs st; next := n' |}, [])
      | None => None
      end
  | SMutate rt p o =>
      match read st rt p with
      | Some target =>
          match node_id target, eval_mope st (next st) o with
          | Some i, Some (m, n') =>
              match apply_mop target m with
              | Some target' =>
                  Some ({| ents := map (fun e => (fst e, subst_id i target' (snd e))) (ents st);
                           refs := refs st; next := n' |}, [])
              | None => None
              end
          | _, _ => None
          end
      | None => None
      end
  | STakeRef r rt p =>
      match read st rt p with
      | Some target =>
          match node_id target with
          | Some i => Some ({| ents := ents st; refs := (r, i) :: refs st; next := next st |}, [])
          | None => None
          end
      | None => None
      end
  | SMove k k2 =>
      match lookup (ents st) k2 with
      | Some v =>
          let '(t, n') := copy (next st) v in
          Some ({| ents := put (drop_key (ents st) k2) k t; refs := refs st; next := n' |}, [])
      | None => None
      end
  | SCopyMutObs rt p q o =>
      match read st rt p with
      | Some v =>
          let '(c, n1) := copy (next st) v in
          match get_path c q, eval_mope st n1 o with
          | Some target, Some (m, n2) =>
              match node_id target, apply_mop target m with
              | Some i, Some target' =>
                  Some ({| ents := ents st; refs := refs st; next := n2 |},
                        [erase (subst_id i target' c)])
              | _, _ => None
              end
          | _, _ => None
          end
      | None => None
      end
  | SObs rt p =>
      match read st rt p with
      | Some v => Some (st, [erase v])
      | None => None
      end
  | SEndTx =>
      Some ({| ents := filter (fun e => negb (is_var e)) (ents st); refs := []; next := next st |}, [])
  end.

Fixpoint run (st : store) (prog : list stmt) : option (store * list tv) :=
  match prog with
  | [] => Some (st, [])
  | s :: r =>
      match exec st s with
      | Some (st1, o1) =>
          match run st1 r with
          | Some (st2, o2) => Some (st2, o1 ++ o2)
          | None => None
          end
      | None => None
      end
  end.

Definition empty_store : store := {| ents := []; refs := []; next := 1%nat |}.
