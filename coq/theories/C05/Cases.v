(* C05  check function for the per-run case files: a case is a generated program (several
   transactions) together with every value the real implementation logged. *)
From CV Require Export C05.Model.

Fixpoint list_eqb {A} (e : A -> A -> bool) (a b : list A) : bool :=
  match a, b with
  | [], [] => true
  | x :: r, y :: s => e x y && list_eqb e r s
  | _, _ => false
  end.

(* arrays: children keyed 0; dictionaries: ascending keys; structs: field index *)
Definition arr (es : list tv) : tv := TNode O KArr (map (fun x => (0, x)) es).
Definition dic (es : list (Z * tv)) : tv := TNode O KDict es.
Definition str (tag : Z) (fs : list tv) : tv :=
  TNode O (KStruct tag)
    ((fix go (i : Z) (l : list tv) : list (Z * tv) :=
        match l with [] => [] | x :: r => (i, x) :: go (i + 1) r end) 0 fs).
Definition ints (l : list Z) : tv := arr (map TPrim l).
Definition onone : tv := TNode O KOpt [].
Definition osome (x : tv) : tv := TNode O KOpt [(0, x)].

Definition check_prog (c : list stmt * list tv) : bool :=
  let '(prog, observed) := c in
  match run empty_store prog with
  | Some (_, obs) => list_eqb tv_eqb obs observed
  | None => false
  end.
