(* C05  proofs: fresh identities on every transfer, frame lemma for mutation at an identity,
   store invariant (distinct places own disjoint identities) in every reachable state,
   independence of copies under arbitrary mutation sequences (direct or through references),
   across storage and transaction boundaries. *)
From CV Require Import C05.Model.
Local Open Scope nat_scope.

(* ------------------------------------------------------------------ induction on values *)
Section tv_induction.
  Variable P : tv -> Prop.
  Hypothesis Hprim : forall z, P (TPrim z).
  Hypothesis Hnode : forall i k es, Forall (fun e => P (snd e)) es -> P (TNode i k es).

  Fixpoint tv_ind' (v : tv) : P v :=
    match v with
    | TPrim z => Hprim z
    | TNode i k es =>
        Hnode i k es
          ((fix go (es : list (Z * tv)) : Forall (fun e => P (snd e)) es :=
              match es with
              | [] => Forall_nil _
              | e :: r => Forall_cons e (tv_ind' (snd e)) (go r)
              end) es)
    end.
End tv_induction.

(* the list-level copy loop, named *)
Fixpoint copy_list (n : id) (es : list (Z * tv)) : list (Z * tv) * id :=
  match es with
  | [] => ([], n)
  | (key, c) :: r =>
      let '(c', n1) := copy n c in
      let '(r', n2) := copy_list n1 r in
      ((key, c') :: r', n2)
  end.

Lemma copy_node n i k es :
  copy n (TNode i k es) = let '(es', n') := copy_list (S n) es in (TNode n k es', n').
Proof. reflexivity. Qed.

Definition ids_list (es : list (Z * tv)) : list id := flat_map (fun e => ids (snd e)) es.

Lemma ids_node i k es : ids (TNode i k es) = i :: ids_list es.
Proof. reflexivity. Qed.

(* ------------------------------------------------------------------ copy gives fresh identities *)
Lemma copy_range_gen (v : tv) :
  forall n, let '(v', n') := copy n v in
  n <= n' /\ (forall i, In i (ids v') -> n <= i < n').
Proof.
  induction v as [z | i k es IH] using tv_ind'; intro n.
  - cbn. split; [lia|]. intros i [].
  - rewrite copy_node.
    assert (L : forall m, let '(es', m') := copy_list m es in
              m <= m' /\ (forall j, In j (ids_list es') -> m <= j < m')).
    { induction es as [|[key c] r IHr]; intro m; cbn.
      - split; [lia|]. intros j [].
      - inversion IH as [|? ? Hc Hr]; subst. specialize (Hc m). cbn in Hc.
        destruct (copy m c) as [c' n1]. destruct Hc as [A B].
        specialize (IHr Hr n1). destruct (copy_list n1 r) as [r' n2]. destruct IHr as [C D].
        split; [lia|]. intros j J. cbn in J. apply in_app_or in J. destruct J as [J|J].
        + apply B in J. lia.
        + apply D in J. lia. }
    specialize (L (S n)). destruct (copy_list (S n) es) as [es' n'].
    destruct L as [A B]. split; [lia|]. intros j [<-|J]; [lia|].
    apply B in J. lia.
Qed.

Theorem copy_fresh n v v' n' :
  copy n v = (v', n') -> n <= n' /\ (forall i, In i (ids v') -> n <= i < n').
Proof. intro E. pose proof (copy_range_gen v n) as H. now rewrite E in H. Qed.

(* copy_disjoint: the copy shares no identity with the original (nor with anything else that
   was allocated before) *)
Theorem copy_disjoint n v :
  (forall i, In i (ids v) -> i < n) ->
  forall i, In i (ids (fst (copy n v))) -> ~ In i (ids v).
Proof.
  intros B i I J. destruct (copy n v) as [v' n'] eqn:E.
  apply copy_fresh in E. destruct E as [_ R]. apply R in I. apply B in J. lia.
Qed.

(* the copy reads the same as the original *)
Theorem copy_erase (v : tv) : forall n, erase (fst (copy n v)) = erase v.
Proof.
  induction v as [z | i k es IH] using tv_ind'; intro n; [reflexivity|].
  rewrite copy_node.
  assert (L : forall m, map (fun e => (fst e, erase (snd e))) (fst (copy_list m es)) =
                        map (fun e => (fst e, erase (snd e))) es).
  { induction es as [|[key c] r IHr]; intro m; cbn; auto.
    inversion IH as [|? ? Hc Hr]; subst. specialize (Hc m). cbn in Hc.
    destruct (copy m c) as [c' n1]. specialize (IHr Hr n1).
    destruct (copy_list n1 r) as [r' n2]. cbn in *. now rewrite Hc, IHr. }
  specialize (L (S n)). destruct (copy_list (S n) es) as [es' n']. cbn in *. now rewrite L.
Qed.

(* ------------------------------------------------------------------ frame lemma *)
Theorem subst_frame i t (v : tv) : ~ In i (ids v) -> subst_id i t v = v.
Proof.
  induction v as [z | j k es IH] using tv_ind'; intro N; [reflexivity|].
  cbn [subst_id]. rewrite ids_node in N.
  destruct (Nat.eqb j i) eqn:E.
  - apply Nat.eqb_eq in E. subst. exfalso. apply N. now left.
  - f_equal.
    assert (N' : ~ In i (ids_list es)) by (intro; apply N; now right).
    clear N E. induction es as [|[key c] r IHr]; cbn; auto.
    inversion IH as [|? ? Hc Hr]; subst. cbn in *.
    rewrite Hc, IHr; auto.
    + intro; apply N'. apply in_or_app. now right.
    + intro; apply N'. apply in_or_app. now left.
Qed.

(* identities after a substitution: old ones or those of the replacement *)
Lemma subst_ids i t (v : tv) :
  forall j, In j (ids (subst_id i t v)) -> In j (ids v) \/ In j (ids t).
Proof.
  induction v as [z | a k es IH] using tv_ind'; intros j J; [now left|].
  cbn [subst_id] in J. destruct (Nat.eqb a i); [now right|].
  rewrite ids_node in *. destruct J as [<-|J]; [left; now left|].
  assert (In j (ids_list es) \/ In j (ids t)) as [A|A]; [|left; now right|now right].
  clear - IH J. induction es as [|[key c] r IHr]; cbn in *; [contradiction|].
  inversion IH as [|? ? Hc Hr]; subst. cbn in *.
  apply in_app_or in J. destruct J as [J|J].
  - apply Hc in J. destruct J; [left; apply in_or_app; now left | now right].
  - apply (IHr Hr) in J. destruct J; [left; apply in_or_app; now right | now right].
Qed.

(* a node found by identity / by path lies inside the value *)
Lemma find_id_ids i (v : tv) t : find_id i v = Some t -> In i (ids v) /\ (forall j, In j (ids t) -> In j (ids v)).
Proof.
  induction v as [z | a k es IH] using tv_ind'; cbn [find_id]; [discriminate|].
  destruct (Nat.eqb a i) eqn:E.
  - intro H. injection H as <-. apply Nat.eqb_eq in E. subst. split; [now left | auto].
  - intro H. rewrite ids_node.
    assert (In i (ids_list es) /\ (forall j, In j (ids t) -> In j (ids_list es))) as [A B].
    { clear E. induction es as [|[key c] r IHr]; [discriminate|].
      inversion IH as [|? ? Hc Hr]; subst. cbn in *.
      destruct (find_id i c) eqn:F.
      - injection H as <-. destruct (Hc eq_refl) as [A B].
        split; [apply in_or_app; now left | intros j J; apply in_or_app; left; auto].
      - destruct (IHr Hr H) as [A B].
        split; [apply in_or_app; now right | intros j J; apply in_or_app; right; auto]. }
    split; [now right | intros j J; right; auto].
Qed.

Lemma find_key_in es s c : find_key es s = Some c -> In c (map snd es).
Proof.
  induction es as [|[k d] r IH]; cbn; [discriminate|].
  destruct (k =? s)%Z; [intro H; injection H as <-; now left | intro H; right; auto].
Qed.

Lemma child_in k es s c : child k es s = Some c -> In c (map snd es).
Proof.
  unfold child. destruct k; try apply find_key_in;
    (destruct (s <? 0)%Z; [discriminate|];
     destruct (nth_error es (Z.to_nat s)) as [e|] eqn:E; [|discriminate];
     cbn; intro H; injection H as <-; apply in_map; eapply nth_error_In; eauto).
Qed.

Lemma ids_child_in es c : In c (map snd es) -> forall j, In j (ids c) -> In j (ids_list es).
Proof.
  induction es as [|[k d] r IH]; cbn; [contradiction|].
  intros [<-|I] j J; apply in_or_app; [now left | right; eauto].
Qed.

Lemma get_path_ids (p : list Z) : forall (v t : tv),
  get_path v p = Some t -> forall j, In j (ids t) -> In j (ids v).
Proof.
  induction p as [|s r IH]; intros v t H j J; cbn in H.
  - now injection H as <-.
  - destruct v as [z|i k es]; [discriminate|].
    destruct (child k es s) as [c|] eqn:C; [|discriminate].
    rewrite ids_node. right. eapply ids_child_in; [eapply child_in; eauto|]. eapply IH; eauto.
Qed.

(* ------------------------------------------------------------------ store invariant *)
Definition ents_ids (l : list (key * tv)) : list id := flat_map (fun e => ids (snd e)) l.

Record inv (st : store) : Prop := {
  inv_bound : forall k v, In (k, v) (ents st) -> forall i, In i (ids v) -> i < next st;
  inv_keys : NoDup (map fst (ents st));
  inv_disj : forall k1 v1 k2 v2, In (k1, v1) (ents st) -> In (k2, v2) (ents st) -> k1 <> k2 ->
             forall i, In i (ids v1) -> ~ In i (ids v2);
}.

Lemma key_eqb_eq a b : key_eqb a b = true <-> a = b.
Proof.
  destruct a, b; cbn; split; intro H; try discriminate;
    try (apply Nat.eqb_eq in H; now subst); injection H as ->; apply Nat.eqb_refl.
Qed.

Lemma key_eqb_refl a : key_eqb a a = true.
Proof. now apply key_eqb_eq. Qed.

Lemma key_eqb_neq a b : a <> b -> key_eqb a b = false.
Proof. intro N. destruct (key_eqb a b) eqn:E; auto. apply key_eqb_eq in E. contradiction. Qed.

Lemma lookup_in l k v : lookup l k = Some v -> In (k, v) l.
Proof.
  induction l as [|[k' v'] r IH]; cbn; [discriminate|].
  destruct (key_eqb k k') eqn:E.
  - apply key_eqb_eq in E. subst. intro H. injection H as <-. now left.
  - intro H. right. auto.
Qed.

Lemma in_lookup l k v : NoDup (map fst l) -> In (k, v) l -> lookup l k = Some v.
Proof.
  induction l as [|[k' v'] r IH]; cbn; [contradiction|].
  intros N [H|H].
  - injection H as -> ->. now rewrite key_eqb_refl.
  - inversion N as [|? ? Nk Nr]; subst.
    rewrite key_eqb_neq; auto. intros ->. apply Nk. change k' with (fst (k', v)). now apply in_map.
Qed.


(* ------------------------------------------------------------------ evaluation is fresh *)
Lemma eval_part_fresh st n q t n' :
  eval_part st n q = Some (t, n') -> n <= n' /\ (forall i, In i (ids t) -> n <= i < n').
Proof.
  destruct q as [rt p | t0]; cbn.
  - destruct (read st rt p); [|discriminate]. intro H. injection H as H. eapply copy_fresh; eauto.
  - intro H. injection H as H. eapply copy_fresh; eauto.
Qed.

Lemma eval_parts_fresh st qs : forall n ts n',
  eval_parts st n qs = Some (ts, n') -> n <= n' /\ (forall i, In i (ids_list ts) -> n <= i < n').
Proof.
  induction qs as [|[k q] r IH]; intros n ts n'; cbn.
  - intro H. injection H as <- <-. split; [lia | intros i []].
  - destruct (eval_part st n q) as [[t n1]|] eqn:E; [|discriminate].
    destruct (eval_parts st n1 r) as [[ts' n2]|] eqn:F; [|discriminate].
    intro H. injection H as <- <-.
    apply eval_part_fresh in E. apply IH in F. destruct E as [A B], F as [C D].
    split; [lia|]. intros i I. cbn in I. apply in_app_or in I. destruct I as [I|I].
    + apply B in I. lia.
    + apply D in I. lia.
Qed.

Theorem eval_fresh st n e t n' :
  eval st n e = Some (t, n') -> n <= n' /\ (forall i, In i (ids t) -> n <= i < n').
Proof.
  destruct e as [q | k qs | q]; cbn.
  - apply eval_part_fresh.
  - destruct (eval_parts st (S n) qs) as [[ts n2]|] eqn:E; [|discriminate].
    intro H. injection H as <- <-. apply eval_parts_fresh in E. destruct E as [A B].
    split; [lia|]. intros i [<-|I]; [lia|]. apply B in I. lia.
  - destruct (eval_part st n q) as [[t1 n1]|] eqn:E; [|discriminate].
    destruct (copy n1 t1) as [t2 n2] eqn:C2. intro H. injection H as H.
    apply eval_part_fresh in E. apply copy_fresh in C2. apply copy_fresh in H.
    destruct E, C2, H as [A B]. split; [lia|]. intros i I. apply B in I. lia.
Qed.

Definition mop_ids (m : mop) : list id :=
  match m with MSet _ x | MAppend x | MInsert _ x => ids x | MRemove _ => [] end.

Lemma eval_mope_fresh st n o m n' :
  eval_mope st n o = Some (m, n') -> n <= n' /\ (forall i, In i (mop_ids m) -> n <= i < n').
Proof.
  destruct o; cbn;
    try (destruct (eval st n e) as [[t n1]|] eqn:E; [|discriminate];
         intro H; injection H as <- <-; now apply eval_fresh in E).
  intro H. injection H as <- <-. split; [lia | intros i []].
Qed.

(* ------------------------------------------------------------------ mutation keeps old or operand identities *)
Lemma set_pos_ids n x es es' :
  set_pos n x es = Some es' -> forall j, In j (ids_list es') -> In j (ids_list es) \/ In j (ids x).
Proof.
  revert n es'; induction es as [|[k c] r IH]; intros [|n] es'; cbn; try discriminate.
  - intro H. injection H as <-. intros j J. cbn in J. apply in_app_or in J.
    destruct J; [now right | left; apply in_or_app; now right].
  - destruct (set_pos n x r) as [r'|] eqn:E; [|discriminate]. cbn. intro H. injection H as <-.
    intros j J. cbn in J. apply in_app_or in J. destruct J as [J|J].
    + left. apply in_or_app. now left.
    + destruct (IH _ _ E j J); [left; apply in_or_app; now right | now right].
Qed.

Lemma ins_pos_ids n x es es' :
  ins_pos n x es = Some es' -> forall j, In j (ids_list es') -> In j (ids_list es) \/ In j (ids x).
Proof.
  revert es es'; induction n as [|n IH]; intros es es'; cbn.
  - intro H. injection H as <-. intros j J. cbn in J. apply in_app_or in J. destruct J; auto.
  - destruct es as [|[k c] r]; [discriminate|].
    destruct (ins_pos n x r) as [r'|] eqn:E; [|discriminate]. cbn. intro H. injection H as <-.
    intros j J. cbn in J. apply in_app_or in J. destruct J as [J|J].
    + left. apply in_or_app. now left.
    + destruct (IH _ _ E j J); [left; apply in_or_app; now right | now right].
Qed.

Lemma del_pos_ids n es es' :
  del_pos n es = Some es' -> forall j, In j (ids_list es') -> In j (ids_list es).
Proof.
  revert n es'; induction es as [|[k c] r IH]; intros [|n] es'; cbn; try discriminate.
  - intro H. injection H as <-. intros j J. apply in_or_app. now right.
  - destruct (del_pos n r) as [r'|] eqn:E; [|discriminate]. cbn. intro H. injection H as <-.
    intros j J. cbn in J. apply in_app_or in J. destruct J as [J|J]; apply in_or_app; eauto.
Qed.

Lemma set_key_ids s x es :
  forall j, In j (ids_list (set_key s x es)) -> In j (ids_list es) \/ In j (ids x).
Proof.
  induction es as [|[k c] r IH]; cbn; intros j J.
  - rewrite app_nil_r in J. now right.
  - destruct (k =? s)%Z.
    + cbn in J. apply in_app_or in J. destruct J; [now right | left; apply in_or_app; now right].
    + destruct (s <? k)%Z.
      * cbn in J. apply in_app_or in J. destruct J; [now right | now left].
      * cbn in J. apply in_app_or in J. destruct J as [J|J]; [left; apply in_or_app; now left|].
        destruct (IH j J); [left; apply in_or_app; now right | now right].
Qed.

Lemma del_key_ids s es : forall j, In j (ids_list (del_key s es)) -> In j (ids_list es).
Proof.
  induction es as [|[k c] r IH]; cbn; intros j J; [contradiction|].
  destruct (k =? s)%Z.
  - apply in_or_app. now right.
  - cbn in J. apply in_app_or in J. destruct J; apply in_or_app; auto.
Qed.

Lemma ids_list_app a b : ids_list (a ++ b) = ids_list a ++ ids_list b.
Proof. unfold ids_list. now rewrite flat_map_app. Qed.

Theorem apply_mop_ids v m v' :
  apply_mop v m = Some v' ->
  (forall j, In j (ids v') -> In j (ids v) \/ In j (mop_ids m)) /\ node_id v' = node_id v.
Proof.
  destruct v as [z|i k es]; [discriminate|]. cbn [apply_mop].
  assert (W : forall es', (forall j, In j (ids_list es') -> In j (ids_list es) \/ In j (mop_ids m)) ->
              (forall j, In j (ids (TNode i k es')) -> In j (ids (TNode i k es)) \/ In j (mop_ids m)) /\
              node_id (TNode i k es') = node_id (TNode i k es)).
  { intros es' H. split; [|reflexivity]. intros j [<-|J]; [left; now left|].
    destruct (H j J); [left; now right | now right]. }
  destruct k, m; try discriminate; cbn [mop_ids].
  - destruct (s <? 0)%Z; [discriminate|]. destruct (set_pos (Z.to_nat s) x es) eqn:E; [|discriminate].
    cbn. intro H. injection H as <-. apply W. eapply set_pos_ids; eauto.
  - intro H. injection H as <-. apply W. intros j J. rewrite ids_list_app in J.
    apply in_app_or in J. destruct J as [J|J]; [now left|]. cbn in J. rewrite app_nil_r in J. now right.
  - destruct (s <? 0)%Z; [discriminate|]. destruct (ins_pos (Z.to_nat s) x es) eqn:E; [|discriminate].
    cbn. intro H. injection H as <-. apply W. eapply ins_pos_ids; eauto.
  - destruct (s <? 0)%Z; [discriminate|]. destruct (del_pos (Z.to_nat s) es) eqn:E; [|discriminate].
    cbn. intro H. injection H as <-. apply W. intros j J. left. eapply del_pos_ids; eauto.
  - intro H. injection H as <-. apply W. apply set_key_ids.
  - intro H. injection H as <-. apply W. intros j J. left. eapply del_key_ids; eauto.
  - destruct (s <? 0)%Z; [discriminate|]. destruct (set_pos (Z.to_nat s) x es) eqn:E; [|discriminate].
    cbn. intro H. injection H as <-. apply W. eapply set_pos_ids; eauto.
Qed.

Lemma node_id_in v i : node_id v = Some i -> In i (ids v).
Proof. destruct v; cbn; [discriminate|]. intro H. injection H as <-. now left. Qed.

(* ------------------------------------------------------------------ who owns what is read *)
Lemma find_in_ents_owner i l t :
  find_in_ents i l = Some t ->
  exists k v, In (k, v) l /\ In i (ids v) /\ (forall j, In j (ids t) -> In j (ids v)).
Proof.
  induction l as [|[k v] r IH]; cbn; [discriminate|].
  destruct (find_id i v) eqn:F.
  - intro H. injection H as <-. apply find_id_ids in F. exists k, v. split; [now left | exact F].
  - intro H. destruct (IH H) as [k' [v' [A B]]]. exists k', v'. split; [now right | exact B].
Qed.

Lemma read_owner st rt p t :
  read st rt p = Some t ->
  exists k v, In (k, v) (ents st) /\ (forall j, In j (ids t) -> In j (ids v)) /\
              match rt with RKey k0 => k = k0 /\ lookup (ents st) k0 = Some v | RRef r =>
                exists i, lookup_ref (refs st) r = Some i /\ In i (ids v) end.
Proof.
  unfold read, root_value. destruct rt as [k0|r].
  - destruct (lookup (ents st) k0) as [v|] eqn:L; [|discriminate]. intro G.
    exists k0, v. split; [now apply lookup_in|]. split; [|auto]. intros j J. eapply get_path_ids; eauto.
  - destruct (lookup_ref (refs st) r) as [i|] eqn:L; [|discriminate].
    destruct (find_in_ents i (ents st)) as [t0|] eqn:F; [|discriminate]. intro G.
    destruct (find_in_ents_owner _ _ _ F) as [k [v [A [B C]]]].
    exists k, v. split; auto. split; [|eauto]. intros j J. apply C. eapply get_path_ids; eauto.
Qed.

(* ------------------------------------------------------------------ association lists *)
Lemma lookup_put_same l k v : lookup (put l k v) k = Some v.
Proof.
  induction l as [|[k' v'] r IH]; cbn.
  - now rewrite key_eqb_refl.
  - destruct (key_eqb k k') eqn:E; cbn; rewrite E; auto.
Qed.

Lemma lookup_put_other l k v k0 : k0 <> k -> lookup (put l k v) k0 = lookup l k0.
Proof.
  intro N. induction l as [|[k' v'] r IH]; cbn.
  - now rewrite key_eqb_neq.
  - destruct (key_eqb k k') eqn:E; cbn.
    + apply key_eqb_eq in E. subst k'. now rewrite !key_eqb_neq.
    + destruct (key_eqb k0 k'); auto.
Qed.

Lemma lookup_drop_other l k k0 : k0 <> k -> lookup (drop_key l k) k0 = lookup l k0.
Proof.
  intro N. induction l as [|[k' v'] r IH]; cbn; auto.
  destruct (key_eqb k k') eqn:E; cbn.
  - apply key_eqb_eq in E. subst k'. now rewrite key_eqb_neq.
  - destruct (key_eqb k0 k'); auto.
Qed.

Lemma lookup_map f l k :
  lookup (map (fun e => (fst e, f (snd e))) l) k = option_map f (lookup l k).
Proof.
  induction l as [|[k' v'] r IH]; cbn; auto. destruct (key_eqb k k'); auto.
Qed.

Lemma lookup_filter_slot l s :
  lookup (filter (fun e => negb (is_var e)) l) (KSlot s) = lookup l (KSlot s).
Proof.
  induction l as [|[k' v'] r IH]; cbn; auto.
  destruct k' as [x|s']; cbn; auto. destruct (Nat.eqb s s'); auto.
Qed.

Lemma put_in l k v k0 v0 : In (k0, v0) (put l k v) -> (k0 = k /\ v0 = v) \/ In (k0, v0) l.
Proof.
  induction l as [|[k' v'] r IH]; cbn.
  - intros [H|[]]. injection H as <- <-. now left.
  - destruct (key_eqb k k') eqn:E.
    + apply key_eqb_eq in E. subst k'. intros [H|H].
      * injection H as <- <-. now left.
      * right. now right.
    + intros [H|H]; [right; now left|]. destruct (IH H); [now left | right; now right].
Qed.

Lemma put_keys l k v : NoDup (map fst l) -> NoDup (map fst (put l k v)).
Proof.
  induction l as [|[k' v'] r IH]; cbn; intro N.
  - constructor; [intros [] | constructor].
  - destruct (key_eqb k k') eqn:E; cbn; [exact N|].
    inversion N as [|? ? Nk Nr]; subst. constructor; [|auto].
    intro I. apply in_map_iff in I. destruct I as [[k1 v1] [F I]]. cbn in F. subst k1.
    apply put_in in I. destruct I as [[-> _]|I].
    + rewrite key_eqb_refl in E. discriminate.
    + apply Nk. change k' with (fst (k', v1)). now apply in_map.
Qed.

Lemma drop_in l k k0 v0 : In (k0, v0) (drop_key l k) -> In (k0, v0) l.
Proof.
  induction l as [|[k' v'] r IH]; cbn; auto.
  destruct (key_eqb k k'); [now right|]. intros [H|H]; [now left | right; auto].
Qed.

Lemma drop_keys l k : NoDup (map fst l) -> NoDup (map fst (drop_key l k)) /\ ~ In k (map fst (drop_key l k)).
Proof.
  induction l as [|[k' v'] r IH]; cbn; intro N.
  - split; [constructor | intros []].
  - inversion N as [|? ? Nk Nr]; subst. destruct (key_eqb k k') eqn:E.
    + apply key_eqb_eq in E. subst k'. split; auto.
    + destruct (IH Nr) as [A B]. cbn. split.
      * constructor; auto. intro I. apply Nk. apply in_map_iff in I.
        destruct I as [[k1 v1] [F I]]. cbn in F. subst k1. apply drop_in in I.
        change k' with (fst (k', v1)). now apply in_map.
      * intros [H|H]; [subst; rewrite key_eqb_refl in E; discriminate | auto].
Qed.

Lemma filter_keys (f : key * tv -> bool) l : NoDup (map fst l) -> NoDup (map fst (filter f l)).
Proof.
  induction l as [|[k' v'] r IH]; cbn; intro N; [constructor|].
  inversion N as [|? ? Nk Nr]; subst. destruct (f (k', v')); cbn; auto.
  constructor; auto. intro I. apply Nk. apply in_map_iff in I.
  destruct I as [[k1 v1] [F I]]. cbn in F. subst k1. apply filter_In in I.
  change k' with (fst (k', v1)). apply in_map. tauto.
Qed.

Lemma map_keys (f : tv -> tv) (l : list (key * tv)) :
  map fst (map (fun e => (fst e, f (snd e))) l) = map fst l.
Proof. induction l as [|[k v] r IH]; cbn; auto. now rewrite IH. Qed.

(* adding a value with only fresh identities under a key keeps the invariant *)
Lemma inv_put st k t n' :
  inv st -> next st <= n' -> (forall i, In i (ids t) -> next st <= i < n') ->
  forall l, (forall k0 v0, In (k0, v0) l -> In (k0, v0) (ents st)) -> NoDup (map fst l) ->
  inv {| ents := put l k t; refs := refs st; next := n' |}.
Proof.
  intros [B K D] L F l S N. constructor; cbn.
  - intros k0 v0 I i J. apply put_in in I. destruct I as [[-> ->]|I].
    + apply F in J. lia.
    + apply S in I. specialize (B _ _ I _ J). lia.
  - now apply put_keys.
  - intros k1 v1 k2 v2 I1 I2 Nk i J1 J2.
    apply put_in in I1. apply put_in in I2.
    destruct I1 as [[-> ->]|I1], I2 as [[-> ->]|I2].
    + contradiction.
    + apply S in I2. apply F in J1. specialize (B _ _ I2 _ J2). lia.
    + apply S in I1. apply F in J2. specialize (B _ _ I1 _ J1). lia.
    + apply S in I1. apply S in I2. exact (D _ _ _ _ I1 I2 Nk i J1 J2).
Qed.

(* the invariant holds in every reachable state *)
Theorem exec_inv st s st' obs : inv st -> exec st s = Some (st', obs) -> inv st'.
Proof.
  intros Hinv. pose proof Hinv as [B K D]. destruct s; cbn [exec].
  - (* SAssign *)
    destruct (eval st (next st) e) as [[t n']|] eqn:E; [|discriminate].
    intro H. injection H as <- <-. apply eval_fresh in E. destruct E as [L F].
    apply inv_put; auto.
  - (* SMutate *)
    destruct (read st rt p) as [target|] eqn:Rd; [|discriminate].
    destruct (node_id target) as [i|] eqn:Ni; [|discriminate].
    destruct (eval_mope st (next st) o) as [[m n']|] eqn:Em; [|discriminate].
    destruct (apply_mop target m) as [target'|] eqn:Am; [|discriminate].
    intro H. injection H as <- <-.
    apply eval_mope_fresh in Em. destruct Em as [L F].
    apply apply_mop_ids in Am. destruct Am as [Ai _].
    destruct (read_owner _ _ _ _ Rd) as [ko [vo [Io [So _]]]].
    assert (Ii : In i (ids vo)) by (apply So; now apply node_id_in).
    (* identities of a rewritten entry *)
    assert (W : forall k v j, In (k, v) (ents st) -> In j (ids (subst_id i target' v)) ->
                (k <> ko /\ In j (ids v)) \/ (k = ko /\ (In j (ids v) \/ next st <= j < n'))).
    { intros k v j I J. destruct (key_eqb k ko) eqn:E.
      - apply key_eqb_eq in E. subst k. right. split; auto.
        apply subst_ids in J. destruct J as [J|J]; [now left|].
        apply Ai in J. destruct J as [J|J].
        + left. assert (v = vo) as ->; [|auto].
          pose proof (in_lookup _ _ _ K I) as A. pose proof (in_lookup _ _ _ K Io) as A'. congruence.
        + right. auto.
      - assert (Nk : k <> ko) by (intros ->; rewrite key_eqb_refl in E; discriminate).
        left. split; auto. rewrite subst_frame in J; auto.
        intro X. exact (D _ _ _ _ Io I (fun q => Nk (eq_sym q)) i Ii X). }
    constructor; cbn.
    + intros k v I j J. apply in_map_iff in I. destruct I as [[k1 v1] [Q I]]. cbn in Q.
      injection Q as <- <-. destruct (W _ _ _ I J) as [[_ X]|[_ [X|X]]];
        try (specialize (B _ _ I _ X)); lia.
    + now rewrite map_keys.
    + intros k1 v1 k2 v2 I1 I2 Nk j J1 J2.
      apply in_map_iff in I1. destruct I1 as [[a1 b1] [Q1 I1]]. cbn in Q1. injection Q1 as <- <-.
      apply in_map_iff in I2. destruct I2 as [[a2 b2] [Q2 I2]]. cbn in Q2. injection Q2 as <- <-.
      destruct (W _ _ _ I1 J1) as [[N1 X1]|[-> [X1|X1]]], (W _ _ _ I2 J2) as [[N2 X2]|[E2 [X2|X2]]];
        try (exact (D _ _ _ _ I1 I2 Nk j X1 X2));
        try (subst; contradiction);
        try (specialize (B _ _ I1 _ X1); lia);
        try (specialize (B _ _ I2 _ X2); lia).
  - (* STakeRef *)
    destruct (read st rt p) as [target|]; [|discriminate].
    destruct (node_id target); [|discriminate]. intro H. injection H as <- <-.
    constructor; cbn; auto.
  - (* SMove *)
    destruct (lookup (ents st) k2) as [v|] eqn:L; [|discriminate].
    destruct (copy (next st) v) as [t n'] eqn:C. intro H. injection H as <- <-.
    apply copy_fresh in C. destruct C as [Ln F].
    apply inv_put; auto.
    + intros k0 v0 I. eapply drop_in; eauto.
    + now apply drop_keys.
  - (* SCopyMutObs *)
    destruct (read st rt p) as [v|]; [|discriminate].
    destruct (copy (next st) v) as [c n1] eqn:C.
    destruct (get_path c q) as [target|]; [|discriminate].
    destruct (eval_mope st n1 o) as [[m n2]|] eqn:Em; [|discriminate].
    destruct (node_id target); [|discriminate].
    destruct (apply_mop target m); [|discriminate]. intro H. injection H as <- <-.
    apply copy_fresh in C. apply eval_mope_fresh in Em. destruct C, Em.
    constructor; cbn; auto. intros k0 v0 I j J. specialize (B _ _ I _ J). lia.
  - (* SObs *)
    destruct (read st rt p); [|discriminate]. intro H. injection H as <- <-. exact Hinv.
  - (* SEndTx *)
    intro H. injection H as <- <-. constructor; cbn.
    + intros k v I. apply filter_In in I. destruct I as [I _]. eauto.
    + now apply filter_keys.
    + intros k1 v1 k2 v2 I1 I2. apply filter_In in I1. apply filter_In in I2.
      destruct I1 as [I1 _], I2 as [I2 _]. eauto.
Qed.

Theorem run_inv prog : forall st st' obs, inv st -> run st prog = Some (st', obs) -> inv st'.
Proof.
  induction prog as [|s r IH]; intros st st' obs Hinv; cbn.
  - intro H. now injection H as <- <-.
  - destruct (exec st s) as [[st1 o1]|] eqn:E; [|discriminate].
    destruct (run st1 r) as [[st2 o2]|] eqn:Rn; [|discriminate].
    intro H. injection H as <- <-. eapply IH; [|eauto]. eapply exec_inv; eauto.
Qed.

Lemma inv_empty : inv empty_store.
Proof. constructor; cbn; try contradiction. constructor. Qed.

(* ------------------------------------------------------------------ independence of copies *)
Section Independence.
  Variable st0 : store.
  Variable e : key.              (* the place being mutated *)
  Variable R : list nat.         (* references taken (directly or transitively) into that place *)
  Hypothesis Hinv : inv st0.

  (* identities that belong to e at the start, or are allocated later *)
  Definition mine (j : id) : Prop :=
    (exists v0, lookup (ents st0) e = Some v0 /\ In j (ids v0)) \/ next st0 <= j.

  Hypothesis Hrefs : forall r i, In r R -> lookup_ref (refs st0) r = Some i -> mine i.

  Definition root_in (rt : root) : Prop :=
    match rt with RKey k => k = e | RRef r => In r R end.

  (* statements that act only through e: mutations of containers reached from e or from the
     references in R, taking such references, re-assigning e itself; reading, logging, passing
     copies to mutating callees is unrestricted (any root, any operand expression) *)
  Inductive through : stmt -> Prop :=
  | th_mut rt p o : root_in rt -> through (SMutate rt p o)
  | th_ref r rt p : In r R -> root_in rt -> through (STakeRef r rt p)
  | th_assign ex : through (SAssign e ex)
  | th_obs rt p : through (SObs rt p)
  | th_cmo rt p q o : through (SCopyMutObs rt p q o).

  Lemma others_not_mine k v : k <> e -> In (k, v) (ents st0) -> forall j, In j (ids v) -> ~ mine j.
  Proof.
    intros N I j J [[v0 [L J0]]|G].
    - apply lookup_in in L. exact (inv_disj _ Hinv _ _ _ _ I L N j J J0).
    - pose proof (inv_bound _ Hinv _ _ I _ J). lia.
  Qed.

  Record J (st : store) : Prop := {
    J_next : next st0 <= next st;
    J_look : forall k, k <> e -> lookup (ents st) k = lookup (ents st0) k;
    J_mem : forall k v, In (k, v) (ents st) ->
            (k <> e /\ In (k, v) (ents st0)) \/ (k = e /\ forall j, In j (ids v) -> mine j);
    J_refs : forall r i, In r R -> lookup_ref (refs st) r = Some i -> mine i;
  }.

  Lemma J_start : J st0.
  Proof.
    constructor; auto.
    intros k v I. destruct (key_eqb k e) eqn:E.
    - apply key_eqb_eq in E. subst k. right. split; auto. intros j Jn. left. exists v. split; auto.
      apply in_lookup; auto. apply (inv_keys _ Hinv).
    - left. split; auto. intros ->. rewrite key_eqb_refl in E. discriminate.
  Qed.

  (* whatever is read through e or through R lies inside e's current value *)
  Lemma read_mine st rt p t :
    J st -> root_in rt -> read st rt p = Some t -> forall j, In j (ids t) -> mine j.
  Proof.
    intros HJ Hr Rd j Jt. destruct (read_owner _ _ _ _ Rd) as [k [v [I [S Own]]]].
    destruct (J_mem _ HJ _ _ I) as [[N I0]|[_ M]]; [|auto].
    exfalso. destruct rt as [k0|r]; cbn in Hr.
    - destruct Own as [-> _]. contradiction.
    - destruct Own as [i [Lr Ii]]. eapply others_not_mine; eauto. eapply J_refs; eauto.
  Qed.

  Lemma step_J st s st' obs : J st -> through s -> exec st s = Some (st', obs) -> J st'.
  Proof.
    intros HJ T. destruct T as [rt p o Hr | r rt p Hin Hr | ex | rt p | rt p q o]; cbn [exec].
    - (* mutate *)
      destruct (read st rt p) as [target|] eqn:Rd; [|discriminate].
      destruct (node_id target) as [i|] eqn:Ni; [|discriminate].
      destruct (eval_mope st (next st) o) as [[m n']|] eqn:Em; [|discriminate].
      destruct (apply_mop target m) as [target'|] eqn:Am; [|discriminate].
      intro H. injection H as <- <-.
      apply eval_mope_fresh in Em. destruct Em as [L F].
      apply apply_mop_ids in Am. destruct Am as [Ai _].
      pose proof (read_mine _ _ _ _ HJ Hr Rd) as Mt.
      assert (Mi : mine i) by (apply Mt; now apply node_id_in).
      assert (Mt' : forall j, In j (ids target') -> mine j).
      { intros j Jn. apply Ai in Jn. destruct Jn as [Jn|Jn]; auto.
        right. apply F in Jn. pose proof (J_next _ HJ). lia. }
      constructor; cbn.
      + pose proof (J_next _ HJ). lia.
      + intros k N. rewrite lookup_map, (J_look _ HJ k N).
        destruct (lookup (ents st0) k) as [v|] eqn:Lk; cbn; auto.
        rewrite subst_frame; auto. intro X.
        eapply others_not_mine; eauto. now apply lookup_in.
      + intros k v I. apply in_map_iff in I. destruct I as [[k1 v1] [Q I]]. cbn in Q.
        injection Q as <- <-. destruct (J_mem _ HJ _ _ I) as [[N I0]|[-> M]].
        * left. split; auto. rewrite subst_frame; auto. intro X. eapply others_not_mine; eauto.
        * right. split; auto. intros j Jn. apply subst_ids in Jn. destruct Jn; auto.
      + apply (J_refs _ HJ).
    - (* take reference *)
      destruct (read st rt p) as [target|] eqn:Rd; [|discriminate].
      destruct (node_id target) as [i|] eqn:Ni; [|discriminate].
      intro H. injection H as <- <-.
      pose proof (read_mine _ _ _ _ HJ Hr Rd) as Mt.
      constructor; cbn; try apply HJ.
      intros r0 i0 In0. destruct (Nat.eqb r0 r) eqn:E.
      + intro H. injection H as <-. apply Mt. now apply node_id_in.
      + now apply (J_refs _ HJ).
    - (* re-assign e *)
      destruct (eval st (next st) ex) as [[t n']|] eqn:E; [|discriminate].
      intro H. injection H as <- <-. apply eval_fresh in E. destruct E as [L F].
      constructor; cbn.
      + pose proof (J_next _ HJ). lia.
      + intros k N. rewrite lookup_put_other; auto. now apply (J_look _ HJ).
      + intros k v I. apply put_in in I. destruct I as [[-> ->]|I]; [|now apply (J_mem _ HJ)].
        right. split; auto. intros j Jn. right. apply F in Jn. pose proof (J_next _ HJ). lia.
      + apply (J_refs _ HJ).
    - (* log *)
      destruct (read st rt p); [|discriminate]. intro H. now injection H as <- <-.
    - (* copy, mutate the copy, log it *)
      destruct (read st rt p) as [v|]; [|discriminate].
      destruct (copy (next st) v) as [c n1] eqn:C.
      destruct (get_path c q) as [target|]; [|discriminate].
      destruct (eval_mope st n1 o) as [[m n2]|] eqn:Em; [|discriminate].
      destruct (node_id target); [|discriminate].
      destruct (apply_mop target m); [|discriminate]. intro H. injection H as <- <-.
      apply copy_fresh in C. apply eval_mope_fresh in Em. destruct C, Em.
      constructor; cbn; try apply HJ. pose proof (J_next _ HJ). lia.
  Qed.

  Lemma run_J ms : forall st st' obs, J st -> Forall through ms -> run st ms = Some (st', obs) -> J st'.
  Proof.
    induction ms as [|s r IH]; intros st st' obs HJ F; cbn.
    - intro H. now injection H as <- <-.
    - inversion F as [|? ? Ts Tr]; subst.
      destruct (exec st s) as [[st1 o1]|] eqn:E; [|discriminate].
      destruct (run st1 r) as [[st2 o2]|] eqn:Rn; [|discriminate].
      intro H. injection H as <- <-. apply (IH st1 st2 o2); auto. eapply step_J; eauto.
  Qed.

  (* copy_independent (heap frame theorem): whatever sequence of mutations is applied through e
     — directly, at any nesting depth, or through references to containers of e, including
     references taken during the sequence — every other variable and every other storage slot
     holds exactly the value it held before, hence every read through them, at any path, returns
     what it returned before. *)
  Theorem independent ms st' obs :
    Forall through ms -> run st0 ms = Some (st', obs) ->
    forall k, k <> e ->
      lookup (ents st') k = lookup (ents st0) k /\
      (forall p, read st' (RKey k) p = read st0 (RKey k) p).
  Proof.
    intros F Rn k N. pose proof (run_J ms st0 st' obs J_start F Rn) as HJ.
    pose proof (J_look _ HJ k N) as L. split; auto.
    intro p. unfold read, root_value. now rewrite L.
  Qed.
End Independence.

(* ------------------------------------------------------------------ the transfer forms *)
(* Right after  k := copy of (rt.p)  the new value reads the same as the source and shares no
   identity with any place of the store; the invariant still holds, so [independent] applies in
   both directions (mutating through the copy leaves the source alone and vice versa). *)
Theorem assign_copies st k rt p st' obs src :
  inv st -> read st rt p = Some src ->
  exec st (SAssign k (EPart (PRead rt p))) = Some (st', obs) ->
  exists t, lookup (ents st') k = Some t /\ erase t = erase src /\
            (forall i, In i (ids t) -> next st <= i) /\
            (forall k0 v0, In (k0, v0) (ents st) -> forall i, In i (ids t) -> ~ In i (ids v0)) /\
            inv st'.
Proof.
  intros Hinv Rd E. pose proof (exec_inv _ _ _ _ Hinv E) as Hinv'.
  cbn in E. rewrite Rd in E. destruct (copy (next st) src) as [t n'] eqn:C.
  injection E as <- <-. cbn. exists t. rewrite lookup_put_same.
  pose proof (copy_erase src (next st)) as Er. rewrite C in Er. cbn in Er.
  apply copy_fresh in C. destruct C as [L F].
  split; auto. split; auto. split.
  - intros i I. apply F in I. lia.
  - split; auto. intros k0 v0 I0 i I X. apply F in I.
    pose proof (inv_bound _ Hinv _ _ I0 _ X). lia.
Qed.

(* storage: save, then copy out (in a later transaction): same statement, specialised *)
Theorem storage_copy_independent st0 s y ms st' obs :
  inv st0 -> (forall r i, In r [] -> lookup_ref (refs st0) r = Some i -> mine st0 (KVar y) i) ->
  Forall (through (KVar y) []) ms -> run st0 ms = Some (st', obs) ->
  lookup (ents st') (KSlot s) = lookup (ents st0) (KSlot s).
Proof.
  intros Hinv Hr F Rn. apply (independent st0 (KVar y) [] Hinv Hr ms st' obs F Rn). discriminate.
Qed.

(* the end of a transaction keeps storage and discards variables and references *)
Theorem end_tx_keeps_storage st st' obs s :
  exec st SEndTx = Some (st', obs) ->
  lookup (ents st') (KSlot s) = lookup (ents st) (KSlot s) /\ refs st' = [] /\
  (forall x, lookup (ents st') (KVar x) = None).
Proof.
  cbn. intro H. injection H as <- <-. cbn. split; [apply lookup_filter_slot|]. split; auto.
  intro x. induction (ents st) as [|[k v] r IH]; cbn; auto.
  destruct k as [x'|s']; cbn; auto. 
Qed.

(* ------------------------------------------------------------------ save / copy across transactions *)
Lemma run_app a : forall st b st' obs,
  run st (a ++ b) = Some (st', obs) ->
  exists st1 o1 o2, run st a = Some (st1, o1) /\ run st1 b = Some (st', o2) /\ obs = o1 ++ o2.
Proof.
  induction a as [|s r IH]; intros st b st' obs; cbn.
  - intro H. exists st, [], obs. auto.
  - destruct (exec st s) as [[st1 o1]|] eqn:E; [|discriminate].
    destruct (run st1 (r ++ b)) as [[st2 o2]|] eqn:Rn; [|discriminate].
    intro H. injection H as <- <-.
    destruct (IH _ _ _ _ Rn) as [sa [oa [ob [A [B C]]]]].
    exists sa, (o1 ++ oa), ob. rewrite A. split; auto. split; auto. subst. now rewrite app_assoc.
Qed.

Lemma run_single st s st' obs : run st [s] = Some (st', obs) -> exec st s = Some (st', obs).
Proof.
  cbn. destruct (exec st s) as [[st1 o1]|]; [|discriminate].
  intro H. injection H as <- <-. now rewrite app_nil_r.
Qed.

(* A value saved to storage from x.p; then x is mutated at will (directly and through references
   R1 into x); the transaction ends; in a later transaction the stored value is copied into y and
   y is mutated at will (directly and through references R2 into y).  At the end storage still
   holds a value that reads exactly like x.p did when it was saved. *)
Theorem storage_roundtrip_independent st0 x p s y src R1 R2 ms1 ms2 st' obs :
  inv st0 ->
  read st0 (RKey (KVar x)) p = Some src ->
  (forall r, In r R1 -> lookup_ref (refs st0) r = None) ->
  Forall (through (KVar x) R1) ms1 -> Forall (through (KVar y) R2) ms2 ->
  run st0 ([SAssign (KSlot s) (EPart (PRead (RKey (KVar x)) p))] ++ ms1 ++ [SEndTx] ++
           [SAssign (KVar y) (EPart (PRead (RKey (KSlot s)) []))] ++ ms2) = Some (st', obs) ->
  exists t, lookup (ents st') (KSlot s) = Some t /\ erase t = erase src.
Proof.
  intros Hinv Rd Fresh F1 F2 Rn.
  apply run_app in Rn. destruct Rn as [st1 [o1 [o1' [R1' [Rn _]]]]].
  apply run_app in Rn. destruct Rn as [st2 [o2 [o2' [R2' [Rn _]]]]].
  apply run_app in Rn. destruct Rn as [st3 [o3 [o3' [R3' [Rn _]]]]].
  apply run_app in Rn. destruct Rn as [st4 [o4 [o4' [R4' [R5' _]]]]].
  apply run_single in R1'. apply run_single in R3'. apply run_single in R4'.
  (* save *)
  destruct (assign_copies _ _ _ _ _ _ _ Hinv Rd R1') as [t [L1 [E1 [_ [_ Inv1]]]]].
  assert (Rf1 : refs st1 = refs st0).
  { cbn in R1'. rewrite Rd in R1'. destruct (copy (next st0) src). now injection R1' as <- _. }
  (* mutations through x *)
  assert (H1 : forall r i, In r R1 -> lookup_ref (refs st1) r = Some i -> mine st1 (KVar x) i).
  { intros r i I. rewrite Rf1, (Fresh r I). discriminate. }
  assert (L2 : lookup (ents st2) (KSlot s) = Some t).
  { destruct (independent st1 (KVar x) R1 Inv1 H1 ms1 st2 o2 F1 R2' (KSlot s)) as [A _]; [discriminate|].
    now rewrite A. }
  pose proof (run_inv _ _ _ _ Inv1 R2') as Inv2.
  (* end of transaction *)
  destruct (end_tx_keeps_storage _ _ _ s R3') as [L3 [Rf3 _]]. rewrite L2 in L3.
  pose proof (exec_inv _ _ _ _ Inv2 R3') as Inv3.
  (* copy out of storage *)
  assert (Rd4 : read st3 (RKey (KSlot s)) [] = Some t) by (unfold read, root_value; now rewrite L3).
  destruct (assign_copies _ _ _ _ _ _ _ Inv3 Rd4 R4') as [t4 [_ [_ [_ [_ Inv4]]]]].
  assert (L4 : lookup (ents st4) (KSlot s) = Some t /\ refs st4 = []).
  { cbn in R4'. rewrite Rd4 in R4'. destruct (copy (next st3) t). injection R4' as <- _. cbn.
    rewrite lookup_put_other by discriminate. auto. }
  destruct L4 as [L4 Rf4].
  (* mutations through y *)
  assert (H4 : forall r i, In r R2 -> lookup_ref (refs st4) r = Some i -> mine st4 (KVar y) i).
  { intros r i _. rewrite Rf4. discriminate. }
  destruct (independent st4 (KVar y) R2 Inv4 H4 ms2 st' o4' F2 R5' (KSlot s)) as [A _]; [discriminate|].
  exists t. rewrite A. auto.
Qed.
