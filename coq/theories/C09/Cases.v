(* C09 — check function for the per-run correspondence case files, over the fixed declaration
   environment D0 that the harness (harness/c09) declares in every script:

     entitlements E0 E1 E2
     struct interface I0; struct interface I1: I0; struct interface I2
     struct S0: I0; struct S1: I1, I2; struct S2
     resource interface RI0 (= interface 3); resource interface RI1: RI0 (= interface 4)
     resource R0: RI0 (= composite 3); resource R1: RI1 (= composite 4)
   and two contracts deployed with identical code at 0x1 and at 0x2 (distinct types, identical qualified names):
     contract K { struct interface FI; struct F: FI; resource interface GI; resource G: GI; enum En }
       0x1: F = composite 5, G = 7, En = 9, FI = interface 5, GI = 7;   0x2: F = 6, G = 8, En = 10, FI = 6, GI = 8
     contract Outer { struct Inner }      0x1: composite 11;  0x2: composite 12                      *)
From CV Require Export C09.Model.
Import ListNotations.
Open Scope Z_scope.

Definition D0 : env := {|
  comp_resource := fun c => match c with 3%nat | 4%nat | 7%nat | 8%nat => true | _ => false end;
  comp_conf := fun c =>
    match c with
    | 0%nat => [0%nat] | 1%nat => [1%nat; 0%nat; 2%nat] | 3%nat => [3%nat] | 4%nat => [4%nat; 3%nat]
    | 5%nat => [5%nat] | 6%nat => [6%nat] | 7%nat => [7%nat] | 8%nat => [8%nat]
    | _ => []
    end;
  comp_enum := fun c => match c with 9%nat | 10%nat => true | _ => false end;
  iface_resource := fun i => match i with 3%nat | 4%nat | 7%nat | 8%nat => true | _ => false end;
  iface_supers := fun i => match i with 1%nat => [0%nat] | 4%nat => [3%nat] | _ => [] end;
|}.

(* what one engine reported for one case *)
Record obs : Type := {
  o_inst : bool;            (* x.isInstance(Type<T>()) *)
  o_sub : bool;             (* x.getType().isSubtype(of: Type<T>()) *)
  o_type : ty;              (* x.getType() *)
  o_cast : option ty;       (* run-time type of the value of `x as? T`: None = nil (cast failed),
                               Some t = the type of the cast result (inside the optional) *)
  o_force : res ty;         (* `x as! T`: type of the result, or the error class *)
}.

Definition res_ty_eqb (a b : res ty) : bool :=
  match a, b with
  | Ok x, Ok y => static_eqb x y
  | Err e, Err f => err_eqb e f
  | _, _ => false
  end.

(* [viaif]: the script has to observe a failable cast of a resource through `if let y <- x as? T`.
   The optional binding transfers the value of the cast expression to its static type T? (BoxOptional:
   nested nil is unboxed), takes the else branch on nil and otherwise binds y to the content. *)
Definition failable_obs (viaif : bool) (T : ty) (r : res value) : res (option ty) :=
  match r with
  | Ok VNil => Ok None
  | Ok (VSome w) =>
      if viaif then
        match box_optional (VSome w) (TOpt T) with
        | VNil => Ok None
        | VSome y => Ok (Some (dyn_type y))
        | _ => Err Internal
        end
      else Ok (Some (dyn_type w))
  | Ok _ => Err Internal
  | Err e => Err e
  end.

Definition opt_ty_eqb (a : res (option ty)) (b : option ty) : bool :=
  match a, b with
  | Ok None, None => true
  | Ok (Some x), Some y => static_eqb x y
  | _, _ => false
  end.

(* `(x as! T).getType()`: evaluated on the result directly (a reference result is dereferenced by the
   bound function), except for reference targets T, where the script stores the result in a variable
   of type T? and reports the type inside the optional *)
Definition is_tref (t : ty) : bool := match t with TRef _ _ => true | _ => false end.
Definition force_obs (viaif : bool) (T : ty) (r : res value) : res ty :=
  match r with
  | Ok w => Ok (if is_tref T || viaif then dyn_type w else call_get_type w)
  | Err e => Err e
  end.

Definition check_engine (vm viaif : bool) (SX : ty) (x : value) (T : ty) (o : obs) : bool :=
  let cast := if vm then vm_cast D0 else interp_cast D0 in
  Bool.eqb (call_is_instance D0 x T) (o_inst o)
  && Bool.eqb (call_type_is_subtype D0 x T) (o_sub o)
  && static_eqb (call_get_type x) (o_type o)
  && opt_ty_eqb (failable_obs viaif T (cast OpFailable SX x T)) (o_cast o)
  && res_ty_eqb (force_obs viaif T (cast OpForce SX x T)) (o_force o).

(* a case: declared type S of the variable, the value v0 of the initialiser expression (typed S0),
   target type T, and the observations of interpreter and VM.
   `let x: S = <expr>` is a transfer with ConvertAndBox to S. *)
Definition check_case (c : bool * ty * ty * value * ty * obs * obs) : bool :=
  let '(viaif, S0, SX, v0, T, oi, ov) := c in
  match convert_and_box_validated D0 v0 S0 SX with
  | Err _ => false
  | Ok x => check_engine false viaif SX x T oi && check_engine true viaif SX x T ov
  end.
