(* C09 — facts about the type fragment: reflexivity of equality and subtyping, static equality
   implies sema equality, and the exact relation between the two subtype implementations
   (sema.IsSubType vs. interpreter.IsSubType on static types). *)
From CV Require Import C09.Types.
From Coq Require Import Lia.
Import ListNotations.
Open Scope Z_scope.

(* ------------------------------------------------------------------ lists as sets *)
Lemma memb_In : forall x l, memb x l = true <-> In x l.
Proof.
  intros x l. unfold memb. rewrite existsb_exists. split.
  - intros [y [Hy He]]. apply Nat.eqb_eq in He. subst. exact Hy.
  - intro H. exists x. split; [exact H | apply Nat.eqb_refl].
Qed.

Lemma subset_incl : forall a b, subset a b = true <-> incl a b.
Proof.
  intros a b. unfold subset. rewrite forallb_forall. split.
  - intros H x Hx. apply memb_In. apply H. exact Hx.
  - intros H x Hx. apply memb_In. apply H. exact Hx.
Qed.

Lemma forallb_memb_incl : forall a b, forallb (fun x => memb x b) a = true <-> incl a b.
Proof. exact subset_incl. Qed.

Lemma subset_refl : forall a, subset a a = true.
Proof. intro a. apply subset_incl. apply incl_refl. Qed.

(* two duplicate-free lists with the same elements have the same length *)
Lemma NoDup_equiv_length : forall (a b : list nat),
  NoDup a -> NoDup b -> incl a b -> incl b a -> length a = length b.
Proof.
  intros a b Ha Hb Hab Hba.
  apply Nat.le_antisymm; apply NoDup_incl_length; assumption.
Qed.

(* ------------------------------------------------------------------ authorizations *)
Lemma permits_refl : forall a, permits a a = true.
Proof.
  destruct a as [|es|es]; simpl.
  - reflexivity.
  - apply forallb_memb_incl. apply incl_refl.
  - apply forallb_memb_incl. apply incl_refl.
Qed.

Lemma auth_eqb_refl : forall a, auth_eqb a a = true.
Proof. destruct a; unfold auth_eqb; try reflexivity; rewrite permits_refl; reflexivity. Qed.

Lemma auth_eqb_permits : forall a b, auth_eqb a b = true -> permits b a = true.
Proof.
  intros a b H. destruct a, b; simpl in H; try discriminate; try reflexivity;
    apply andb_true_iff in H; destruct H as [_ H]; exact H.
Qed.

Lemma auth_static_eqb_refl : forall a, auth_static_eqb a a = true.
Proof.
  destruct a as [|es|es]; simpl; try reflexivity;
    rewrite Nat.eqb_refl; simpl; apply forallb_memb_incl; apply incl_refl.
Qed.

Lemma auth_static_eqb_eqb : forall a b,
  wf_auth a -> wf_auth b -> auth_static_eqb a b = true -> auth_eqb a b = true.
Proof.
  intros a b Wa Wb H.
  destruct a as [|x|x], b as [|y|y]; simpl in H; try discriminate; try reflexivity;
    apply andb_true_iff in H; destruct H as [Hl Hi];
    apply Nat.eqb_eq in Hl; apply forallb_memb_incl in Hi;
    destruct Wa as [Nx _]; destruct Wb as [Ny _];
    assert (Hxy : incl x y)
      by (apply NoDup_length_incl; [exact Ny | lia | exact Hi]);
    simpl; apply andb_true_iff; split; apply forallb_memb_incl; assumption.
Qed.

Section WithEnv.
Variable D : env.
Notation ty_eqb := (ty_eqb D).
Notation is_sub := (is_sub D).
Notation is_sub_of_sema := (is_sub_of_sema D).
Notation is_sub_static := (is_sub_static D).
Notation eff_inter := (eff_inter D).
Notation is_resource := (is_resource D).

(* ------------------------------------------------------------------ equality *)
Lemma ty_eqb_refl : forall t, ty_eqb t t = true.
Proof.
  induction t; simpl; try reflexivity.
  - apply prim_beq_refl.
  - exact IHt.
  - exact IHt.
  - rewrite IHt, Z.eqb_refl. reflexivity.
  - rewrite IHt1, IHt2. reflexivity.
  - apply Nat.eqb_refl.
  - rewrite Nat.eqb_refl, subset_refl. reflexivity.
  - rewrite auth_eqb_refl, IHt. reflexivity.
  - exact IHt.
Qed.

Lemma static_eqb_refl : forall t, static_eqb t t = true.
Proof.
  induction t; simpl; try reflexivity.
  - apply prim_beq_refl.
  - exact IHt.
  - exact IHt.
  - rewrite IHt, Z.eqb_refl. reflexivity.
  - rewrite IHt1, IHt2. reflexivity.
  - apply Nat.eqb_refl.
  - rewrite Nat.eqb_refl. simpl. apply forallb_memb_incl. apply incl_refl.
  - rewrite auth_static_eqb_refl, IHt. reflexivity.
  - exact IHt.
Qed.

Lemma eff_inter_incl : forall a b, incl a b -> incl (eff_inter a) (eff_inter b).
Proof.
  intros a b H x Hx. unfold Types.eff_inter in *.
  apply nodup_In in Hx. apply nodup_In.
  apply in_flat_map in Hx. destruct Hx as [i [Hi Hx]].
  apply in_flat_map. exists i. split; [apply H; exact Hi | exact Hx].
Qed.

Lemma eff_inter_NoDup : forall a, NoDup (eff_inter a).
Proof. intro a. apply NoDup_nodup. Qed.

(* StaticType.Equal implies sema Type.Equal on well-formed types *)
Lemma static_eqb_ty_eqb : forall s t,
  wf_ty s -> wf_ty t -> static_eqb s t = true -> ty_eqb s t = true.
Proof.
  induction s; intros t Ws Wt H; destruct t; simpl in H; try discriminate; simpl.
  - exact H.
  - apply IHs; assumption.
  - apply IHs; assumption.
  - apply andb_true_iff in H. destruct H as [H1 H2].
    rewrite (IHs t Ws Wt H1), H2. reflexivity.
  - simpl in Ws, Wt. destruct Ws as [Ws1 Ws2]. destruct Wt as [Wt1 Wt2].
    apply andb_true_iff in H. destruct H as [H1 H2].
    rewrite (IHs1 _ Ws1 Wt1 H1), (IHs2 _ Ws2 Wt2 H2). reflexivity.
  - exact H.
  - simpl in Ws, Wt. destruct Ws as [Ns _]. destruct Wt as [Nt _].
    apply andb_true_iff in H. destruct H as [Hl Hi].
    apply Nat.eqb_eq in Hl. apply forallb_memb_incl in Hi.
    assert (Hji : incl is0 is) by (apply NoDup_length_incl; [exact Ns | lia | exact Hi]).
    apply andb_true_iff. split.
    + apply Nat.eqb_eq. apply NoDup_equiv_length;
        [apply eff_inter_NoDup | apply eff_inter_NoDup | apply eff_inter_incl; exact Hi
        | apply eff_inter_incl; exact Hji].
    + apply subset_incl. apply eff_inter_incl. exact Hi.
  - simpl in Ws, Wt. destruct Ws as [Wa [Ws _]]. destruct Wt as [Wb [Wt _]].
    apply andb_true_iff in H. destruct H as [H1 H2].
    rewrite (auth_static_eqb_eqb _ _ Wa Wb H1), (IHs _ Ws Wt H2). reflexivity.
  - reflexivity.
  - simpl in Ws, Wt. destruct Ws as [Ws _]. destruct Wt as [Wt _]. apply IHs; assumption.
Qed.

(* ------------------------------------------------------------------ subtyping: basic facts *)
(* one unfolding step of is_sub, as an equation *)
Lemma is_sub_unfold : forall s t,
  is_sub s t =
  if ty_eqb s t then true
  else if is_prim s PNever then true
  else
    match t with
    | TPrim p => check_prim_super D s p
    | TOpt t' => match s with TOpt s' => is_sub s' t' | _ => is_sub s t' end
    | TDict tk tv => match s with TDict sk sv => is_sub sk tk && is_sub sv tv | _ => false end
    | TVar t' => match s with TVar s' => is_sub s' t' | _ => false end
    | TConst t' n =>
        match s with TConst s' m => if Z.eqb m n then is_sub s' t' else false | _ => false end
    | TRef ta t' =>
        match s with TRef sa s' => if permits ta sa then is_sub s' t' else false | _ => false end
    | TInter is =>
        match s with
        | TPrim PAnyResource | TPrim PAnyStruct | TPrim PAny => false
        | TInter js => subset (eff_inter is) (eff_inter js)
        | TComp c => subset (eff_inter is) (comp_conf D c)
        | _ => false
        end
    | TComp _ => false
    | TCapAny => match s with TCap _ => true | _ => false end
    | TCap b => match s with TCap sb => is_sub sb b | _ => false end
    end.
Proof. intros s t. destruct t; reflexivity. Qed.

Lemma is_sub_refl : forall t, is_sub t t = true.
Proof. intro t. rewrite is_sub_unfold. rewrite ty_eqb_refl. reflexivity. Qed.

Lemma ty_eqb_is_sub : forall s t, ty_eqb s t = true -> is_sub s t = true.
Proof. intros s t H. rewrite is_sub_unfold. rewrite H. reflexivity. Qed.

Lemma is_sub_never : forall t, is_sub (TPrim PNever) t = true.
Proof. intro t. rewrite is_sub_unfold. destruct (ty_eqb (TPrim PNever) t); reflexivity. Qed.

Lemma is_sub_any : forall s, is_sub s (TPrim PAny) = true.
Proof.
  intro s. rewrite is_sub_unfold.
  destruct (ty_eqb s (TPrim PAny)); [reflexivity|].
  destruct (is_prim s PNever); reflexivity.
Qed.

(* T? <: U? iff T <: U *)
Lemma is_sub_opt_opt : forall s t, is_sub (TOpt s) (TOpt t) = is_sub s t.
Proof.
  intros s t. rewrite is_sub_unfold. simpl.
  destruct (ty_eqb s t) eqn:E.
  - symmetry. apply ty_eqb_is_sub. exact E.
  - reflexivity.
Qed.

Lemma is_sub_cap_cap : forall s t, is_sub (TCap s) (TCap t) = is_sub s t.
Proof.
  intros s t. rewrite is_sub_unfold. simpl.
  destruct (ty_eqb s t) eqn:E.
  - symmetry. apply ty_eqb_is_sub. exact E.
  - reflexivity.
Qed.

Lemma is_sub_ref_ref : forall a x b y,
  is_sub (TRef a x) (TRef b y) = true -> permits b a = true /\ is_sub x y = true.
Proof.
  intros a x b y H. rewrite is_sub_unfold in H.
  destruct (ty_eqb (TRef a x) (TRef b y)) eqn:E.
  - simpl in E. apply andb_true_iff in E. destruct E as [E1 E2]. split.
    + destruct a, b; simpl in E1; try discriminate; try reflexivity;
        apply andb_true_iff in E1; destruct E1 as [_ E1]; exact E1.
    + apply ty_eqb_is_sub. exact E2.
  - simpl in H. destruct (permits b a); [split; [reflexivity | exact H] | discriminate].
Qed.

Lemma is_sub_ref_ref_intro : forall a x b y,
  permits b a = true -> is_sub x y = true -> is_sub (TRef a x) (TRef b y) = true.
Proof.
  intros a x b y P H. rewrite is_sub_unfold.
  destruct (ty_eqb (TRef a x) (TRef b y)); [reflexivity|]. simpl. rewrite P. exact H.
Qed.

Definition non_opt (t : ty) : bool := match t with TOpt _ => false | _ => true end.

Lemma is_sub_never' : forall s t, is_prim s PNever = true -> is_sub s t = true.
Proof.
  intros s t N. rewrite is_sub_unfold. rewrite N. destruct (ty_eqb s t); reflexivity.
Qed.

(* T <: U? iff T <: U for a non-optional T *)
Lemma is_sub_nonopt_opt : forall s t, non_opt s = true -> is_sub s (TOpt t) = is_sub s t.
Proof.
  intros s t Hs. rewrite is_sub_unfold.
  assert (E : ty_eqb s (TOpt t) = false)
    by (destruct s; simpl in Hs; try discriminate; reflexivity).
  rewrite E.
  destruct (is_prim s PNever) eqn:N.
  - symmetry. apply is_sub_never'. exact N.
  - destruct s; simpl in Hs; try discriminate; reflexivity.
Qed.

Lemma is_sub_nonopt_unwrap : forall t s, non_opt s = true -> is_sub s t = is_sub s (unwrap_opt t).
Proof.
  induction t; intros s Hs; try reflexivity.
  change (unwrap_opt (TOpt t)) with (unwrap_opt t).
  rewrite is_sub_nonopt_opt by exact Hs. apply IHt. exact Hs.
Qed.

(* ------------------------------------------------------------------ the two implementations *)
Lemma is_sub_of_sema_any : forall s, is_sub_of_sema s (TPrim PAny) = true.
Proof. destruct s; reflexivity. Qed.

Lemma is_sub_of_sema_nonopt : forall s t, non_opt s = true -> is_sub_of_sema s t = is_sub s t.
Proof.
  intros s t Hs. destruct s; simpl in Hs; try discriminate; simpl;
    destruct (is_prim t PAny) eqn:E; try reflexivity;
    destruct t; simpl in E; try discriminate; apply prim_beq_true in E; subst;
    symmetry; apply is_sub_any.
Qed.

(* a supertype that is not optional and not one of the top types has no optional subtypes *)
Lemma is_sub_opt_other : forall s t,
  non_opt t = true -> is_prim t PAny = false -> is_prim t PAnyStruct = false ->
  is_prim t PAnyResource = false -> is_sub (TOpt s) t = false.
Proof.
  intros s t Ho Ha Hs Hr. rewrite is_sub_unfold.
  destruct t; simpl in Ho; try discriminate; simpl; try reflexivity.
  destruct p; simpl in Ha, Hs, Hr; try discriminate; reflexivity.
Qed.

Lemma is_resource_not_never : forall s, is_prim s PNever = true -> is_resource s = false.
Proof. intros s H. destruct s; simpl in H; try discriminate. apply prim_beq_true in H. subst. reflexivity. Qed.

(* no [Any] inside: used where the code compares with Any *)
Lemma wf_not_any : forall s, wf_ty s -> is_prim s PAny = false.
Proof.
  intros s W. destruct s; simpl; try reflexivity. simpl in W.
  destruct (prim_beq p PAny) eqn:E; [apply prim_beq_true in E; contradiction | reflexivity].
Qed.

Lemma unwrap_not_any : forall s, is_prim (unwrap_opt s) PAny = false -> is_prim s PAny = false.
Proof. intros s H. destruct s; try reflexivity. exact H. Qed.

Lemma wf_unwrap_not_any : forall s, wf_ty s -> is_prim (unwrap_opt s) PAny = false.
Proof.
  induction s; intro W; try reflexivity.
  - apply wf_not_any. exact W.
  - simpl. apply IHs. exact W.
Qed.

Lemma is_sub_anystruct : forall s, is_prim s PAny = false ->
  is_sub s (TPrim PAnyStruct) = negb (is_resource s).
Proof.
  intros s W. rewrite is_sub_unfold.
  destruct (ty_eqb s (TPrim PAnyStruct)) eqn:E.
  - destruct s; simpl in E; try discriminate. apply prim_beq_true in E. subst. reflexivity.
  - destruct (is_prim s PNever) eqn:N.
    + rewrite (is_resource_not_never _ N). reflexivity.
    + simpl. rewrite W. destruct (is_resource s); reflexivity.
Qed.

Lemma is_sub_anyresource : forall s,
  is_sub s (TPrim PAnyResource) = is_prim s PNever || is_resource s.
Proof.
  intro s. rewrite is_sub_unfold.
  destruct (ty_eqb s (TPrim PAnyResource)) eqn:E.
  - destruct s; simpl in E; try discriminate. apply prim_beq_true in E. subst. reflexivity.
  - destruct (is_prim s PNever) eqn:N; [reflexivity|]. reflexivity.
Qed.

Lemma unwrap_never_not_resource : forall s, is_prim (unwrap_opt s) PNever = true -> is_resource s = false.
Proof.
  induction s; simpl; intro H; try discriminate.
  - apply prim_beq_true in H. subst. reflexivity.
  - apply IHs. exact H.
Qed.

Lemma resource_unwrap_not_never : forall s, is_resource s = true -> is_prim (unwrap_opt s) PNever = false.
Proof.
  intros s H. destruct (is_prim (unwrap_opt s) PNever) eqn:E; [|reflexivity].
  rewrite (unwrap_never_not_resource _ E) in H. discriminate.
Qed.

(* The optional fast path of interpreter.IsSubTypeOfSemaType agrees with sema.IsSubType
   except on [exc]. *)
Lemma is_sub_of_sema_spec : forall s t,
  is_prim (unwrap_opt s) PAny = false -> exc s t = false -> is_sub_of_sema s t = is_sub s t.
Proof.
  induction s; intros t W X; try (apply is_sub_of_sema_nonopt; reflexivity).
  simpl in W. simpl.
  destruct (is_prim t PAny) eqn:EA.
  { destruct t; simpl in EA; try discriminate. apply prim_beq_true in EA. subst.
    symmetry. apply is_sub_any. }
  destruct t.
  - (* TPrim p *)
    destruct p; try (symmetry; apply is_sub_opt_other; reflexivity).
    + simpl in EA. discriminate.
    + (* AnyStruct *)
      rewrite (IHs _ W) by (destruct s; reflexivity).
      rewrite (is_sub_anystruct s (unwrap_not_any s W)).
      rewrite (is_sub_anystruct (TOpt s)) by reflexivity. reflexivity.
    + (* AnyResource *)
      simpl in X.
      assert (Xs : exc s (TPrim PAnyResource) = false).
      { destruct s; try reflexivity. simpl. simpl in X. exact X. }
      rewrite (IHs _ W Xs).
      rewrite (is_sub_anyresource s), (is_sub_anyresource (TOpt s)). simpl.
      destruct (is_prim s PNever) eqn:N; [|reflexivity].
      destruct s; simpl in N; try discriminate. simpl in X. rewrite N in X. discriminate.
  - (* TOpt *)
    simpl in X. rewrite is_sub_opt_opt. apply IHs; assumption.
  - symmetry. apply is_sub_opt_other; reflexivity.
  - symmetry. apply is_sub_opt_other; reflexivity.
  - symmetry. apply is_sub_opt_other; reflexivity.
  - symmetry. apply is_sub_opt_other; reflexivity.
  - symmetry. apply is_sub_opt_other; reflexivity.
  - symmetry. apply is_sub_opt_other; reflexivity.
  - symmetry. apply is_sub_opt_other; reflexivity.
  - symmetry. apply is_sub_opt_other; reflexivity.
Qed.

(* on the exception the fast path says yes and sema says no *)
Lemma is_sub_of_sema_exc : forall s t,
  exc s t = true -> is_sub_of_sema s t = true /\ is_sub s t = false.
Proof.
  induction s; intros t X; simpl in X; try discriminate.
  destruct t; try discriminate.
  - destruct p; try discriminate. split.
    + (* fast path *)
      clear IHs. revert X. induction s; intro X; simpl in X; try discriminate.
      * apply prim_beq_true in X. subst. reflexivity.
      * simpl. simpl in IHs. apply IHs. exact X.
    + rewrite is_sub_anyresource. simpl. apply unwrap_never_not_resource. exact X.
  - rewrite is_sub_opt_opt. simpl.
    destruct (IHs _ X) as [H1 H2]. split; assumption.
Qed.

(* sema subtyping implies the static-type answer, always *)
Lemma is_sub_of_sema_complete : forall s t,
  is_prim (unwrap_opt s) PAny = false -> is_sub s t = true -> is_sub_of_sema s t = true.
Proof.
  intros s t W H. destruct (exc s t) eqn:X.
  - apply is_sub_of_sema_exc. exact X.
  - rewrite is_sub_of_sema_spec; assumption.
Qed.

Theorem is_sub_static_spec : forall s t,
  wf_ty s -> wf_ty t -> exc s t = false -> is_sub_static s t = is_sub s t.
Proof.
  intros s t Ws Wt X. unfold Types.is_sub_static.
  rewrite (wf_not_any _ Wt).
  destruct (static_eqb s t) eqn:E.
  - symmetry. apply ty_eqb_is_sub. apply static_eqb_ty_eqb; assumption.
  - apply is_sub_of_sema_spec; [apply wf_unwrap_not_any|]; assumption.
Qed.

Theorem is_sub_static_exc : forall s t,
  wf_ty t -> exc s t = true -> is_sub_static s t = true /\ is_sub s t = false.
Proof.
  intros s t Wt X. destruct (is_sub_of_sema_exc _ _ X) as [H1 H2]. split; [|exact H2].
  unfold Types.is_sub_static. rewrite (wf_not_any _ Wt).
  destruct (static_eqb s t); [reflexivity | exact H1].
Qed.

Lemma is_sub_static_complete : forall s t,
  wf_ty s -> wf_ty t -> is_sub s t = true -> is_sub_static s t = true.
Proof.
  intros s t Ws Wt H. destruct (exc s t) eqn:X.
  - apply is_sub_static_exc; assumption.
  - rewrite is_sub_static_spec; assumption.
Qed.

(* a non-optional subtype never triggers the exception *)
Lemma exc_nonopt : forall s t, non_opt s = true -> exc s t = false.
Proof. intros s t H. destruct s; simpl in H; try discriminate; reflexivity. Qed.

End WithEnv.
