(* C09 — specification side: what the property demands of the three code paths of C09/Model.v.
   Definitions only. *)
From CV Require Export C09.Model.
Import ListNotations.
Open Scope Z_scope.

(* a failable cast succeeded: it produced some value *)
Definition cast_ok (r : res value) : bool :=
  match r with Ok (VSome _) => true | _ => false end.

(* authorization-erasure: the projection under which "a successful cast yields the original value"
   is stated.  A cast to a reference / capability type necessarily re-types the value to the target's
   authorization and borrowed type; the identity of referent / capability and everything else must be
   untouched. *)
Fixpoint erase_ty (t : ty) : ty :=
  match t with
  | TRef _ x => TRef Unauth (erase_ty x)
  | TOpt x => TOpt (erase_ty x)
  | TVar x => TVar (erase_ty x)
  | TConst x n => TConst (erase_ty x) n
  | TDict k v => TDict (erase_ty k) (erase_ty v)
  | TCap b => TCap (erase_ty b)
  | _ => t
  end.

Fixpoint erase (v : value) : value :=
  match v with
  | VSome x => VSome (erase x)
  | VArray cs e es => VArray cs (erase_ty e) (map erase es)
  | VDict k w kvs => VDict (erase_ty k) (erase_ty w) (map (fun p => (erase (fst p), erase (snd p))) kvs)
  | VRef _ _ r => VRef Unauth (TPrim PAnyStruct) (erase r)
  | VCap b a i => VCap (erase_ty b) a i
  | _ => v
  end.

(* The class of values for which the theorems are proved: numbers of concrete numeric types, containers whose static element types
   contain no reference types, references whose referent's run-time type contains no reference type,
   capabilities whose borrow type is a reference to a reference-free type.  (Containers of references
   are covered by the correspondence run only.) *)
Definition is_num_prim (p : prim) : bool :=
  is_concrete_num p || prim_beq p PFix128 || prim_beq p PUFix128.

Fixpoint ok_value (v : value) : bool :=
  match v with
  | VNum p _ => is_num_prim p             (* numbers have a concrete numeric type *)
  | VSome x => ok_value x
  | VArray _ e _ => negb (contains_ref e)
  | VDict k w _ => negb (contains_ref k) && negb (contains_ref w)
  | VRef _ _ r => negb (contains_ref (dyn_type r))
  | VCap b _ _ => match b with TRef _ x => negb (contains_ref x) | _ => false end
  | _ => true
  end.

Section WithEnv.
Variable D : env.

(* the run-time type of v is a subtype of T *)
Definition instance_spec (v : value) (T : ty) : bool := is_sub D (dyn_type v) T.

(* First sentence of the property, for one value and one target type, in both engines:
   `as?` succeeds exactly when isInstance is true, exactly when getType() is a subtype, exactly when
   the run-time type is a subtype of the target. *)
Definition agree_at (SX : ty) (v : value) (T : ty) : Prop :=
  cast_ok (interp_cast D OpFailable SX v T) = instance_spec v T /\
  cast_ok (vm_cast D OpFailable SX v T) = instance_spec v T /\
  call_is_instance D v T = instance_spec v T /\
  call_type_is_subtype D v T = instance_spec v T.

(* The full statement (storage references are not values of the model):
   for every value that is not optional, bound to a variable whose declared type it conforms to. *)
Definition C09_statement : Prop :=
  forall SX v T,
    is_optional v = false -> ok_value v = true ->
    wf_ty (dyn_type v) -> wf_ty T -> is_sub D (dyn_type v) SX = true ->
    agree_at SX v T.

End WithEnv.
