(* C09 — run-time values with dynamic types and the three code paths of the property,
   transcribed separately from the Go sources:
     - interpreter cast:   interpreter/interpreter_expression.go  VisitCastingExpression,
                           castValueAndValueType; interpreter/interpreter.go ConvertAndBoxWithValidation,
                           ConvertAndBox, convert, BoxOptional, Unbox, applyTargetTypeAuthorization,
                           semaTypeWithStrippedEntitlements
     - isInstance/getType: interpreter/interpreter.go IsInstance, ValueGetType (bound host function:
                           value_function.go MaybeDereferenceReceiver), value_type.go MetaTypeIsSubType
     - VM cast opcodes:    bbq/vm/vm.go opSimpleCast, opFailableCast, opForceCast, castValueAndValueType
   Definitions only; proofs are in C09/Proofs.v. *)
From CV Require Export C09.Types.
Import ListNotations.
Open Scope Z_scope.

Inductive pathdom : Type := DStorage | DPublic | DPrivate.

Inductive value : Type :=
| VNum (p : prim) (n : Z)              (* a number of the concrete numeric type p (fixed point: scaled) *)
| VBool (b : bool)
| VString (s : list Z)
| VChar (s : list Z)
| VAddress (a : Z)
| VVoid
| VPath (d : pathdom) (id : list Z)
| VTypeV (t : ty)                      (* a (known) run-time type value *)
| VNil
| VSome (v : value)
| VArray (cs : option Z) (e : ty) (es : list value)      (* static type [e] or [e; n] *)
| VDict (k v : ty) (kvs : list (value * value))
| VComp (c : nat) (id : Z)             (* composite of declaration c; id identifies the instance *)
| VRef (a : auth) (b : ty) (r : value) (* ephemeral reference: authorization, borrowed type, referent *)
| VCap (b : ty) (addr id : Z).         (* capability with borrow type b *)

Section WithEnv.
Variable D : env.

Notation ty_eqb := (ty_eqb D).
Notation is_sub := (is_sub D).
Notation is_sub_of_sema := (is_sub_of_sema D).
Notation is_sub_static := (is_sub_static D).

Definition any_struct := TPrim PAnyStruct.

(* interpreter.applyTargetTypeAuthorization(actual, target) *)
Fixpoint apply_auth (a t : ty) {struct a} : ty :=
  match a with
  | TVar e =>
      if is_prim t PAnyStruct then TVar (apply_auth e any_struct)
      else match t with TVar te => TVar (apply_auth e te) | _ => a end
  | TConst e n =>
      if is_prim t PAnyStruct then TConst (apply_auth e any_struct) n
      else match t with TConst te _ => TConst (apply_auth e te) n | _ => a end
  | TDict k v =>
      if is_prim t PAnyStruct then TDict (apply_auth k any_struct) (apply_auth v any_struct)
      else match t with TDict tk tv => TDict (apply_auth k tk) (apply_auth v tv) | _ => a end
  | TOpt x =>
      if is_prim t PAnyStruct then TOpt (apply_auth x any_struct)
      else match t with TOpt tx => TOpt (apply_auth x tx) | _ => a end
  | TRef au x =>
      if is_prim t PAnyStruct then TRef Unauth (apply_auth x any_struct)
      else match t with TRef ta tx => TRef ta (apply_auth x tx) | _ => a end
  | TCap b =>
      match t with TCap tb => TCap (apply_auth b tb) | _ => a end
  | _ => a
  end.

(* interpreter.semaTypeWithStrippedEntitlements *)
Fixpoint strip_ty (t : ty) : ty :=
  match t with
  | TRef _ x => TRef Unauth (strip_ty x)
  | TVar x => TVar (strip_ty x)
  | TConst x n => TConst (strip_ty x) n
  | TDict k v => TDict (strip_ty k) (strip_ty v)
  | TOpt x => TOpt (strip_ty x)
  | _ => t
  end.

(* sema Type.IsOrContainsReferenceType *)
Fixpoint contains_ref (t : ty) : bool :=
  match t with
  | TRef _ _ => true
  | TOpt x | TVar x | TConst x _ => contains_ref x
  | TDict k v => contains_ref k || contains_ref v
  | TCap b => contains_ref b
  | _ => false
  end.

Definition array_ty (cs : option Z) (e : ty) : ty :=
  match cs with None => TVar e | Some n => TConst e n end.

Definition path_ty (d : pathdom) : ty :=
  TPrim (match d with DStorage => PStoragePath | DPublic => PPublicPath | DPrivate => PPrivatePath end).

(* Value.StaticType: the dynamic type *)
Fixpoint dyn_type (v : value) : ty :=
  match v with
  | VNum p _ => TPrim p
  | VBool _ => TPrim PBool
  | VString _ => TPrim PString
  | VChar _ => TPrim PCharacter
  | VAddress _ => TPrim PAddress
  | VVoid => TPrim PVoid
  | VPath d _ => path_ty d
  | VTypeV _ => TPrim PMetaType
  | VNil => TOpt (TPrim PNever)
  | VSome x => TOpt (dyn_type x)
  | VArray cs e _ => array_ty cs e
  | VDict k w _ => TDict k w
  | VComp c _ => TComp c
  | VRef a b r => TRef a (apply_auth (dyn_type r) b)   (* EphemeralReferenceValue.StaticType *)
  | VCap b _ _ => TCap b
  end.

(* interpreter.Unbox *)
Fixpoint unbox (v : value) : value :=
  match v with VSome x => unbox x | _ => v end.

(* interpreter.BoxOptional: the loop over the target type *)
Fixpoint box_loop (val inner : value) (t : ty) : value :=
  match t with
  | TOpt t' =>
      match inner with
      | VSome i => box_loop val i t'
      | VNil => inner                     (* NOTE: nested nil will be unboxed! *)
      | _ => box_loop (VSome val) inner t'
      end
  | _ => val
  end.
Definition box_optional (v : value) (t : ty) : value := box_loop v v t.

Definition is_concrete_num (p : prim) : bool :=
  existsb (prim_beq p)
    [PInt; PInt8; PInt16; PInt32; PInt64; PInt128; PInt256;
     PUInt; PUInt8; PUInt16; PUInt32; PUInt64; PUInt128; PUInt256;
     PWord8; PWord16; PWord32; PWord64; PWord128; PWord256; PFix64; PUFix64].
     (* the cases of the first switch in `convert`; Fix128/UFix128 have no case there *)

Definition is_unauth (a : auth) : bool := match a with Unauth => true | _ => false end.

(* monadic map *)
Fixpoint mapM {A B} (f : A -> res B) (l : list A) : res (list B) :=
  match l with
  | [] => Ok []
  | x :: r => let* y := f x in let* ys := mapM f r in Ok (y :: ys)
  end.

(* interpreter.convert(value, targetType).
   Sites that are not modelled return [Err Internal]:  the numeric conversions ConvertInt8 ... (a cast
   never reaches them: Proofs.cast_no_internal), ConvertAddress, and the Go `panic`s of the function
   (unsupported capability / reference value, reference to optional, InvalidReferenceConversionError). *)
Fixpoint convert (v : value) (T : ty) {struct v} : res value :=
  let ut := unwrap_opt T in
  match v with
  | VNil => Ok v
  | VSome i =>
      if negb (ty_eqb (dyn_type i) ut)
      then let* i' := convert i ut in Ok (VSome i')
      else Ok v
  | _ =>
    let vt := dyn_type v in
    match ut with
    | TPrim p =>
        if is_concrete_num p then
          (if negb (ty_eqb vt ut) then Err Internal (* ConvertIntN(value): not modelled *) else Ok v)
        else if prim_beq p PAddress then
          (if negb (ty_eqb vt ut) then Err Internal (* ConvertAddress(value): not modelled *) else Ok v)
        else if prim_beq p PAnyStruct then
          match v with
          | VRef a b r =>
              let tb := strip_ty b in
              if ty_eqb tb b && is_unauth a then Ok v else Ok (VRef Unauth tb r)
          | VArray cs e es =>
              if negb (contains_ref vt) then Ok v
              else
                let ne := strip_ty e in
                if ty_eqb (array_ty cs ne) vt then Ok v
                else
                  let* es' := (fix go (l : list value) : res (list value) :=
                                 match l with
                                 | [] => Ok []
                                 | x :: r =>
                                     let* y := convert x ne in
                                     let* ys := go r in Ok (box_optional y ne :: ys)
                                 end) es in
                  Ok (VArray cs ne es')
          | VDict k w kvs =>
              if negb (contains_ref vt) then Ok v
              else
                let nk := strip_ty k in
                let nw := strip_ty w in
                if ty_eqb (TDict nk nw) vt then Ok v
                else
                  let* kvs' := (fix go (l : list (value * value)) : res (list (value * value)) :=
                                  match l with
                                  | [] => Ok []
                                  | (x, y) :: r =>
                                      let* x' := convert x nk in
                                      let* y' := convert y nw in
                                      let* ys := go r in
                                      Ok ((box_optional x' nk, box_optional y' nw) :: ys)
                                  end) kvs in
                  Ok (VDict nk nw kvs')
          | _ => Ok v
          end
        else Ok v
    | TVar _ | TConst _ _ =>
        match v with
        | VArray cs e es =>
            if negb (ty_eqb vt ut) then
              match apply_auth vt ut with
              | TVar ne | TConst ne _ =>
                  if static_eqb vt (apply_auth vt ut) then Ok v
                  else
                    let* es' := (fix go (l : list value) : res (list value) :=
                                   match l with
                                   | [] => Ok []
                                   | x :: r => let* y := convert x ne in let* ys := go r in Ok (y :: ys)
                                   end) es in
                    Ok (VArray cs ne es')
              | _ => Err Internal        (* .(ArrayStaticType) type assertion *)
              end
            else Ok v
        | _ => Ok v
        end
    | TDict _ _ =>
        match v with
        | VDict k w kvs =>
            if negb (ty_eqb vt ut) then
              match apply_auth vt ut with
              | TDict nk nw =>
                  if static_eqb vt (apply_auth vt ut) then Ok v
                  else
                    let* kvs' := (fix go (l : list (value * value)) : res (list (value * value)) :=
                                    match l with
                                    | [] => Ok []
                                    | (x, y) :: r =>
                                        let* x' := convert x nk in
                                        let* y' := convert y nw in
                                        let* ys := go r in Ok ((x', y') :: ys)
                                    end) kvs in
                    Ok (VDict nk nw kvs')
              | _ => Err Internal
              end
            else Ok v
        | _ => Ok v
        end
    | TCap tb =>
        if negb (ty_eqb vt ut) then
          match v with
          | VCap b addr id => Ok (VCap (apply_auth b tb) addr id)
          | _ => Err Internal            (* unsupported capability value: unreachable *)
          end
        else Ok v
    | TRef ta tx =>
        match tx with
        | TOpt _ => Err Internal         (* unsupported reference to optional target type *)
        | _ =>
            match v with
            | VRef a b r =>
                (* isReferenceConversionNotRedundant *)
                if negb (ty_eqb vt ut) || negb (ty_eqb b tx) || negb (auth_static_eqb a ta) then
                  (* checkTargetIsLessPermissive: the value's type is a reference type *)
                  if permits ta a then Ok (VRef ta tx r)
                  else Err Internal      (* InvalidReferenceConversionError *)
                else Ok v
            | _ => Err Internal          (* unsupported reference value *)
            end
        end
    | _ => Ok v
    end
  end.

(* interpreter.ConvertAndBox *)
Definition convert_and_box (v : value) (T : ty) : res value :=
  let* c := convert v T in Ok (box_optional c T).

(* interpreter.ConvertAndBoxWithValidation: both defensive checks raise ValueTransferTypeError,
   an internal error *)
Definition convert_and_box_validated (v : value) (VT T : ty) : res value :=
  if negb (is_sub_of_sema (dyn_type v) VT) then Err Internal
  else
    let* r := convert_and_box v T in
    if negb (is_sub_of_sema (dyn_type r) T) then Err Internal
    else Ok r.

Inductive castop : Type := OpFailable | OpForce | OpSimple.

Definition is_some (v : value) : bool := match v with VSome _ => true | _ => false end.
Definition is_optional (v : value) : bool := match v with VSome _ | VNil => true | _ => false end.
Definition is_reference (v : value) : bool := match v with VRef _ _ _ => true | _ => false end.

(* ------------------------------------------------------------------ path 1: interpreter cast *)
(* Interpreter.castValueAndValueType (storage references are outside the model) *)
Definition interp_cast_value (T : ty) (v : value) : value :=
  let ut := unwrap_opt T in
  if is_prim ut PAnyStruct || is_prim ut PAnyResource then v   (* preserve optionals *)
  else unbox v.

(* Interpreter.VisitCastingExpression; S is the static type of the casted expression *)
Definition interp_cast (op : castop) (S : ty) (v : value) (T : ty) : res value :=
  match op with
  | OpSimple => convert_and_box_validated v S T
  | _ =>
      let cv := interp_cast_value T v in
      let ct := dyn_type cv in                      (* MustSemaTypeOfValue *)
      if negb (is_sub ct T) then                    (* sema.IsSubType *)
        match op with OpFailable => Ok VNil | _ => Err TypeMismatch end
      else
        (* `castedValue == originalValue`: Unbox returns its argument iff it is not a SomeValue *)
        let same := negb (is_some v) || is_prim (unwrap_opt T) PAnyStruct || is_prim (unwrap_opt T) PAnyResource in
        let* r := convert_and_box_validated cv (if same then S else ct) T in
        match op with OpFailable => Ok (VSome r) | _ => Ok r end
  end.

(* ------------------------------------------------------------------ path 2: isInstance / getType *)
(* value_function.go BoundFunctionValue.Invoke / MaybeDereferenceReceiver: the built-in functions are
   bound with dereferenceReceiver = true, so a reference receiver is replaced by the referenced value *)
Definition deref_receiver (v : value) : value :=
  match v with VRef _ _ r => r | _ => v end.

(* interpreter.IsInstance(self, typeValue) *)
Definition is_instance_fn (self : value) (T : ty) : bool := is_sub_static (dyn_type self) T.
(* interpreter.ValueGetType(self) *)
Definition get_type_fn (self : value) : ty := dyn_type self.
(* value_type.go MetaTypeIsSubType *)
Definition meta_is_subtype (a b : ty) : bool := is_sub a b.

(* the Cadence expressions `v.isInstance(Type<T>())`, `v.getType()`, `v.getType().isSubtype(of: Type<T>())` *)
Definition call_is_instance (v : value) (T : ty) : bool := is_instance_fn (deref_receiver v) T.
Definition call_get_type (v : value) : ty := get_type_fn (deref_receiver v).
Definition call_type_is_subtype (v : value) (T : ty) : bool := meta_is_subtype (call_get_type v) T.

(* ------------------------------------------------------------------ path 3: VM opcodes *)
(* vm.castValueAndValueType: compares static types with the primitive static types *)
Definition vm_cast_value (T : ty) (v : value) : value :=
  let ut := unwrap_opt T in                         (* vm.UnwrapOptionalType *)
  if is_prim ut PAnyStruct || is_prim ut PAnyResource then v
  else unbox v.

(* vm.ConvertAndBoxWithValidation: converts both static types to sema types and calls the interpreter's *)
Definition vm_convert_and_box_validated := convert_and_box_validated.

Definition vm_cast (op : castop) (S : ty) (v : value) (T : ty) : res value :=
  match op with
  | OpSimple => vm_convert_and_box_validated v S T                         (* opSimpleCast *)
  | OpFailable =>                                                          (* opFailableCast *)
      let cv := vm_cast_value T v in
      let ct := dyn_type cv in
      if is_sub_static ct T then                                           (* context.IsSubType *)
        let same := negb (is_some v) || is_prim (unwrap_opt T) PAnyStruct || is_prim (unwrap_opt T) PAnyResource in
        let* r := vm_convert_and_box_validated cv (if same then S else ct) T in
        Ok (VSome r)
      else Ok VNil
  | OpForce =>                                                             (* opForceCast *)
      let cv := vm_cast_value T v in
      let ct := dyn_type cv in
      if negb (is_sub_static ct T) then Err TypeMismatch
      else
        let same := negb (is_some v) || is_prim (unwrap_opt T) PAnyStruct || is_prim (unwrap_opt T) PAnyResource in
        vm_convert_and_box_validated cv (if same then S else ct) T
  end.

End WithEnv.
