(* C09 — proofs relating the three transcribed code paths to the specification. *)
From CV Require Import C09.Types C09.TypesProofs C09.Model C09.Spec.
From Coq Require Import Lia.
Import ListNotations.
Open Scope Z_scope.

Section WithEnv.
Variable D : env.
Notation ty_eqb := (ty_eqb D).
Notation is_sub := (is_sub D).
Notation is_sub_of_sema := (is_sub_of_sema D).
Notation is_sub_static := (is_sub_static D).

(* ------------------------------------------------------------------ values and their types *)
Lemma dyn_not_never : forall v, ok_value v = true -> is_prim (dyn_type v) PNever = false.
Proof.
  destruct v as [p n|b|s|s|a| |d id|t| |x|cs e es|k w kvs|c id|a b r|b addr id]; intro K; try reflexivity.
  - simpl in K. destruct p; simpl in K; try discriminate; reflexivity.
  - destruct d; reflexivity.
  - destruct cs; reflexivity.
Qed.

Lemma dyn_nonopt : forall v, is_optional v = false -> non_opt (dyn_type v) = true.
Proof.
  destruct v as [p n|b|s|s|a| |d id|t| |x|cs e es|k w kvs|c id|a b r|b addr id]; simpl; intro H; try discriminate; try reflexivity.
  destruct cs; reflexivity.
Qed.

Lemma unbox_nonopt : forall v, is_some v = false -> unbox v = v.
Proof. destruct v; simpl; intro H; try discriminate; reflexivity. Qed.

Lemma unbox_not_some : forall v, is_some (unbox v) = false.
Proof. induction v; simpl; try reflexivity. exact IHv. Qed.

Lemma unbox_idem : forall v, unbox (unbox v) = unbox v.
Proof. intro v. apply unbox_nonopt. apply unbox_not_some. Qed.

Lemma optional_some : forall v, is_optional v = false -> is_some v = false.
Proof. destruct v; simpl; intro H; try discriminate; reflexivity. Qed.

(* ------------------------------------------------------------------ applyTargetTypeAuthorization *)
Lemma apply_auth_ref_free : forall a t, contains_ref a = false -> apply_auth a t = a.
Proof.
  induction a; intros t H; simpl in *; try reflexivity.
  - destruct (is_prim t PAnyStruct); [rewrite IHa by exact H; reflexivity|].
    destruct t; try reflexivity. rewrite IHa by exact H. reflexivity.
  - destruct (is_prim t PAnyStruct); [rewrite IHa by exact H; reflexivity|].
    destruct t; try reflexivity. rewrite IHa by exact H. reflexivity.
  - destruct (is_prim t PAnyStruct); [rewrite IHa by exact H; reflexivity|].
    destruct t; try reflexivity. rewrite IHa by exact H. reflexivity.
  - apply orb_false_iff in H. destruct H as [H1 H2].
    destruct (is_prim t PAnyStruct); [rewrite IHa1, IHa2 by assumption; reflexivity|].
    destruct t; try reflexivity. rewrite IHa1, IHa2 by assumption. reflexivity.
  - discriminate.
  - destruct t; try reflexivity. rewrite IHa by exact H. reflexivity.
Qed.

Lemma erase_apply_auth : forall a t, erase_ty (apply_auth a t) = erase_ty a.
Proof.
  induction a; intro t; simpl; try reflexivity.
  - destruct (is_prim t PAnyStruct); [simpl; rewrite IHa; reflexivity|].
    destruct t; try reflexivity. simpl. rewrite IHa. reflexivity.
  - destruct (is_prim t PAnyStruct); [simpl; rewrite IHa; reflexivity|].
    destruct t; try reflexivity. simpl. rewrite IHa. reflexivity.
  - destruct (is_prim t PAnyStruct); [simpl; rewrite IHa; reflexivity|].
    destruct t; try reflexivity. simpl. rewrite IHa. reflexivity.
  - destruct (is_prim t PAnyStruct); [simpl; rewrite IHa1, IHa2; reflexivity|].
    destruct t; try reflexivity. simpl. rewrite IHa1, IHa2. reflexivity.
  - destruct (is_prim t PAnyStruct); [simpl; rewrite IHa; reflexivity|].
    destruct t; try reflexivity. simpl. rewrite IHa. reflexivity.
  - destruct t; try reflexivity. simpl. rewrite IHa. reflexivity.
Qed.

(* ------------------------------------------------------------------ BoxOptional on a non-optional value *)
Fixpoint wrap_like (t : ty) (v : value) : value :=
  match t with TOpt t' => wrap_like t' (VSome v) | _ => v end.

Lemma box_loop_nonopt : forall t val inner,
  is_optional inner = false -> box_loop val inner t = wrap_like t val.
Proof.
  induction t; intros val inner H; simpl; try reflexivity.
  destruct inner; simpl in H; try discriminate; apply IHt; reflexivity.
Qed.

Lemma box_optional_nonopt : forall v t, is_optional v = false -> box_optional v t = wrap_like t v.
Proof. intros v t H. unfold box_optional. apply box_loop_nonopt. exact H. Qed.

Lemma unbox_wrap_like : forall t v, unbox (wrap_like t v) = unbox v.
Proof. induction t; intro v; simpl; try reflexivity. rewrite IHt. reflexivity. Qed.

Fixpoint wrap_ty_like (t : ty) (s : ty) : ty :=
  match t with TOpt t' => wrap_ty_like t' (TOpt s) | _ => s end.

Lemma dyn_wrap_like : forall t v, dyn_type (wrap_like t v) = wrap_ty_like t (dyn_type v).
Proof. induction t; intro v; simpl; try reflexivity. rewrite IHt. reflexivity. Qed.

(* wrapping s as many times as t is optional: s <: unwrap t implies the wrapped type <: t *)
Lemma wrap_ty_like_sub : forall t s u,
  is_sub s u = true -> is_sub (wrap_ty_like t s) (wrap_ty_like t u) = true.
Proof.
  induction t; intros s u H; simpl; try exact H.
  apply IHt. rewrite is_sub_opt_opt. exact H.
Qed.

Lemma wrap_ty_like_unwrap : forall t, wrap_ty_like t (unwrap_opt t) = t.
Proof.
  (* wrap_ty_like t (unwrap t): generalise over the accumulated wrapping *)
  assert (G : forall t f, (forall x, f (TOpt x) = TOpt (f x)) ->
              wrap_ty_like t (f (unwrap_opt t)) = f t).
  { induction t; intros f Hf; simpl; try reflexivity.
    rewrite <- Hf. rewrite (IHt (fun x => f (TOpt x))).
    - reflexivity.
    - intro x. rewrite Hf. reflexivity. }
  intro t. apply (G t (fun x => x)). reflexivity.
Qed.

Lemma wrapped_sub : forall t s,
  is_sub s (unwrap_opt t) = true -> is_sub (wrap_ty_like t s) t = true.
Proof.
  intros t s H. rewrite <- (wrap_ty_like_unwrap t) at 2. apply wrap_ty_like_sub. exact H.
Qed.

Lemma wf_wrap_ty_like : forall t s, wf_ty s -> wf_ty (wrap_ty_like t s).
Proof. induction t; intros s W; simpl; try exact W. apply IHt. exact W. Qed.

(* ------------------------------------------------------------------ convert on the proved class *)
Lemma sub_unwrap : forall v T, is_optional v = false ->
  is_sub (dyn_type v) T = is_sub (dyn_type v) (unwrap_opt T).
Proof. intros v T H. apply is_sub_nonopt_unwrap. apply dyn_nonopt. exact H. Qed.

(* a value type below a concrete numeric type / Address is that type *)
Lemma sub_concrete_prim_eq : forall s p,
  is_prim s PNever = false ->
  check_prim_super D s p = false ->
  is_sub s (TPrim p) = true -> ty_eqb s (TPrim p) = true.
Proof.
  intros s p N C H. rewrite is_sub_unfold in H. rewrite N, C in H.
  destruct (ty_eqb s (TPrim p)); [reflexivity | discriminate].
Qed.

Lemma check_concrete_false : forall s p,
  is_concrete_num p = true \/ p = PAddress -> check_prim_super D s p = false.
Proof.
  intros s p [H | H].
  - destruct p; simpl in H; try discriminate; reflexivity.
  - subst. reflexivity.
Qed.

Definition plain (v : value) : bool :=
  match v with VSome _ | VNil | VRef _ _ _ | VCap _ _ _ => false | _ => true end.

(* Lemma A: no conversion for plain values of the class *)
Lemma convert_plain : forall v T,
  plain v = true -> ok_value v = true -> wf_ty T ->
  is_sub (dyn_type v) T = true -> convert D v T = Ok v.
Proof.
  intros v T P K W H.
  assert (NO : is_optional v = false) by (destruct v; simpl in P; try discriminate; reflexivity).
  rewrite (sub_unwrap v T NO) in H.
  assert (N := dyn_not_never v K).
  destruct v as [p n|b|s|s|a| |d id|t| |x|cs e es|k w kvs|c id|a b r|b addr id]; simpl in P; try discriminate.
  all: cbn [convert].
  all: remember (unwrap_opt T) as ut eqn:Eut.
  all: destruct ut as [q| | | | | | | ta tx | | tb]; try reflexivity.
  all: try (destruct d). all: try (destruct cs as [m|]).
  all: try (match goal with |- context [is_concrete_num ?q] =>
        destruct (is_concrete_num q) eqn:CN;
        [ rewrite (sub_concrete_prim_eq _ q N (check_concrete_false _ q (or_introl CN)) H); reflexivity |];
        destruct (prim_beq q PAddress) eqn:PA;
        [ apply prim_beq_true in PA; subst q;
          rewrite (sub_concrete_prim_eq _ PAddress N (check_concrete_false _ PAddress (or_intror eq_refl)) H);
          reflexivity |];
        destruct (prim_beq q PAnyStruct) eqn:PS; try reflexivity end).
  all: try (exfalso; rewrite is_sub_unfold in H; cbn in H, N; try rewrite N in H; discriminate).
  - (* [e; m] to AnyStruct *) cbn [dyn_type array_ty contains_ref]. simpl in K. rewrite K. reflexivity.
  - cbn [dyn_type array_ty contains_ref]. simpl in K. rewrite K. reflexivity.
  - (* [e] to [ut] *)
    simpl in K. apply negb_true_iff in K.
    rewrite apply_auth_ref_free by exact K.
    cbn [dyn_type array_ty]. rewrite static_eqb_refl.
    destruct (negb (ty_eqb (TVar e) (TVar ut))); reflexivity.
  - simpl in K. apply negb_true_iff in K.
    rewrite apply_auth_ref_free by exact K.
    cbn [dyn_type array_ty]. rewrite static_eqb_refl.
    destruct (negb (ty_eqb (TConst e m) (TConst ut n))); reflexivity.
  - (* dictionary to AnyStruct *)
    simpl in K. apply andb_true_iff in K. destruct K as [K1 K2].
    apply negb_true_iff in K1. apply negb_true_iff in K2.
    cbn [dyn_type contains_ref]. rewrite K1, K2. reflexivity.
  - simpl in K. apply andb_true_iff in K. destruct K as [K1 K2].
    apply negb_true_iff in K1. apply negb_true_iff in K2.
    rewrite apply_auth_ref_free by (simpl; rewrite K1, K2; reflexivity).
    cbn [dyn_type]. rewrite static_eqb_refl.
    destruct (negb (ty_eqb (TDict k w) (TDict ut1 ut2))); reflexivity.
Qed.

Lemma wf_unwrap : forall T, wf_ty T -> wf_ty (unwrap_opt T).
Proof. induction T; intro W; simpl; try exact W. apply IHT. exact W. Qed.

Lemma dyn_not_any : forall v, ok_value v = true -> is_prim (unwrap_opt (dyn_type v)) PAny = false.
Proof.
  induction v as [p n|b|s|s|a| |d id|t| |x IH|cs e es|k w kvs|c id|a b r IH|b addr id]; intro K; try reflexivity.
  - simpl in K. destruct p; simpl in K; try discriminate; reflexivity.
  - destruct d; reflexivity.
  - simpl. apply IH. exact K.
  - destruct cs; reflexivity.
Qed.

(* Lemma B: references *)
Lemma convert_ref : forall a b r T,
  contains_ref (dyn_type r) = false -> wf_ty T ->
  is_sub (dyn_type (VRef a b r)) T = true ->
  exists c, convert D (VRef a b r) T = Ok c /\ erase c = erase (VRef a b r) /\ is_optional c = false.
Proof.
  intros a b r T K W H.
  rewrite (sub_unwrap (VRef a b r) T eq_refl) in H.
  assert (Wu := wf_unwrap T W).
  cbn [convert]. remember (unwrap_opt T) as ut eqn:Eut.
  destruct ut as [q| | | | | | | ta tx | | tb];
    try (eexists; split; [reflexivity | split; reflexivity]).
  - (* primitive target *)
    destruct (is_concrete_num q) eqn:CN.
    { rewrite (sub_concrete_prim_eq (dyn_type (VRef a b r)) q eq_refl (check_concrete_false _ q (or_introl CN)) H).
      eexists; split; [reflexivity | split; reflexivity]. }
    destruct (prim_beq q PAddress) eqn:PA.
    { apply prim_beq_true in PA; subst q.
      rewrite (sub_concrete_prim_eq (dyn_type (VRef a b r)) PAddress eq_refl (check_concrete_false _ PAddress (or_intror eq_refl)) H).
      eexists; split; [reflexivity | split; reflexivity]. }
    destruct (prim_beq q PAnyStruct); [|eexists; split; [reflexivity | split; reflexivity]].
    destruct (ty_eqb (strip_ty b) b && is_unauth a); eexists; split; try reflexivity; split; reflexivity.
  - (* reference target *)
    simpl in Wu. destruct Wu as [_ [_ Wx]].
    assert (PM : permits ta a = true).
    { rewrite is_sub_unfold in H. cbn [dyn_type] in H.
      destruct (ty_eqb (TRef a (apply_auth (dyn_type r) b)) (TRef ta tx)) eqn:E.
      - simpl in E. apply andb_true_iff in E. destruct E as [E _]. apply auth_eqb_permits. exact E.
      - simpl in H. destruct (permits ta a); [reflexivity | discriminate]. }
    rewrite PM.
    destruct tx; try contradiction;
      match goal with |- context [if ?c then _ else _] => destruct c end;
      eexists; split; try reflexivity; split; reflexivity.
  - (* capability target: a reference is not a capability *)
    exfalso. rewrite is_sub_unfold in H. cbn in H. discriminate.
Qed.

(* Lemma C: capabilities *)
Lemma convert_cap : forall b addr id T,
  ok_value (VCap b addr id) = true -> wf_ty T ->
  is_sub (dyn_type (VCap b addr id)) T = true ->
  exists c, convert D (VCap b addr id) T = Ok c /\ erase c = erase (VCap b addr id) /\
            is_optional c = false /\ is_sub (dyn_type c) (unwrap_opt T) = true /\
            is_prim (unwrap_opt (dyn_type c)) PAny = false.
Proof.
  intros b addr id T K W H.
  rewrite (sub_unwrap (VCap b addr id) T eq_refl) in H.
  assert (Wu := wf_unwrap T W).
  cbn [convert]. remember (unwrap_opt T) as ut eqn:Eut.
  destruct ut as [q| | | | | | | ta tx | | tb];
    try (eexists; split; [reflexivity | split; [reflexivity | split; [reflexivity | split; [exact H | reflexivity]]]]).
  - destruct (is_concrete_num q) eqn:CN.
    { rewrite (sub_concrete_prim_eq (dyn_type (VCap b addr id)) q eq_refl (check_concrete_false _ q (or_introl CN)) H).
      eexists; split; [reflexivity | split; [reflexivity | split; [reflexivity | split; [exact H | reflexivity]]]]. }
    destruct (prim_beq q PAddress) eqn:PA.
    { apply prim_beq_true in PA; subst q.
      rewrite (sub_concrete_prim_eq (dyn_type (VCap b addr id)) PAddress eq_refl (check_concrete_false _ PAddress (or_intror eq_refl)) H).
      eexists; split; [reflexivity | split; [reflexivity | split; [reflexivity | split; [exact H | reflexivity]]]]. }
    destruct (prim_beq q PAnyStruct);
      (eexists; split; [reflexivity | split; [reflexivity | split; [reflexivity | split; [exact H | reflexivity]]]]).
  - exfalso. rewrite is_sub_unfold in H. cbn in H. discriminate.
  - (* Capability<tb> *)
    destruct (negb (ty_eqb (dyn_type (VCap b addr id)) (TCap tb))) eqn:E.
    + eexists. split; [reflexivity|]. split.
      { simpl. rewrite erase_apply_auth. reflexivity. }
      split; [reflexivity|]. split; [|reflexivity].
      (* the re-typed capability is below the target *)
      simpl in K. destruct b as [| | | | | | |ba bx| |]; try discriminate.
      apply negb_true_iff in K.
      simpl in Wu. destruct Wu as [_ Wtb]. destruct tb as [| | | | | | |ta tx| |]; try contradiction.
      cbn [dyn_type] in H |- *.
      rewrite is_sub_cap_cap in H. apply is_sub_ref_ref in H. destruct H as [_ Hx].
      assert (AA : apply_auth (TRef ba bx) (TRef ta tx) = TRef ta bx).
      { simpl. rewrite apply_auth_ref_free by exact K. reflexivity. }
      rewrite AA. rewrite is_sub_cap_cap. apply is_sub_ref_ref_intro; [apply permits_refl | exact Hx].
    + eexists; split; [reflexivity | split; [reflexivity | split; [reflexivity | split; [exact H | reflexivity]]]].
Qed.

(* conversion of a non-optional value of the class below the target: the result, its identity, its type *)
Lemma convert_nonopt : forall v T,
  ok_value v = true -> is_optional v = false -> wf_ty T ->
  is_sub (dyn_type v) T = true ->
  exists c, convert D v T = Ok c /\ erase c = erase v /\ is_optional c = false /\
            (plain v = true -> c = v) /\
            (is_reference v = false ->
               is_sub (dyn_type c) (unwrap_opt T) = true /\ is_prim (unwrap_opt (dyn_type c)) PAny = false).
Proof.
  intros v T K NO W H.
  destruct (plain v) eqn:P.
  - exists v. rewrite (convert_plain v T P K W H).
    split; [reflexivity|]. split; [reflexivity|]. split; [exact NO|]. split; [reflexivity|].
    intros _. split; [rewrite <- (sub_unwrap v T NO); exact H | apply dyn_not_any; exact K].
  - destruct v as [p n|b|s|s|a| |d id|t| |x|cs e es|k w kvs|c id|a b r|b addr id]; simpl in P, NO; try discriminate.
    + simpl in K. apply negb_true_iff in K.
      destruct (convert_ref a b r T K W H) as [c [C1 [C2 C3]]].
      exists c. split; [exact C1|]. split; [exact C2|]. split; [exact C3|].
      split; [discriminate | discriminate].
    + destruct (convert_cap b addr id T K W H) as [c [C1 [C2 [C3 [C4 C5]]]]].
      exists c. split; [exact C1|]. split; [exact C2|]. split; [exact C3|].
      split; [discriminate|]. intros _. split; assumption.
Qed.

(* ------------------------------------------------------------------ induction over nested values *)
Section ValueInd.
Variable P : value -> Prop.
Hypothesis HNum : forall p n, P (VNum p n).
Hypothesis HBool : forall b, P (VBool b).
Hypothesis HString : forall s, P (VString s).
Hypothesis HChar : forall s, P (VChar s).
Hypothesis HAddress : forall a, P (VAddress a).
Hypothesis HVoid : P VVoid.
Hypothesis HPath : forall d i, P (VPath d i).
Hypothesis HType : forall t, P (VTypeV t).
Hypothesis HNil : P VNil.
Hypothesis HSome : forall x, P x -> P (VSome x).
Hypothesis HArray : forall cs e es, Forall P es -> P (VArray cs e es).
Hypothesis HDict : forall k w kvs, Forall (fun p => P (fst p) /\ P (snd p)) kvs -> P (VDict k w kvs).
Hypothesis HComp : forall c i, P (VComp c i).
Hypothesis HRef : forall a b r, P r -> P (VRef a b r).
Hypothesis HCap : forall b a i, P (VCap b a i).

Fixpoint value_ind' (v : value) : P v :=
  match v with
  | VNum p n => HNum p n
  | VBool b => HBool b
  | VString s => HString s
  | VChar s => HChar s
  | VAddress a => HAddress a
  | VVoid => HVoid
  | VPath d i => HPath d i
  | VTypeV t => HType t
  | VNil => HNil
  | VSome x => HSome x (value_ind' x)
  | VArray cs e es =>
      HArray cs e es
        ((fix go (l : list value) : Forall P l :=
            match l with
            | [] => Forall_nil P
            | x :: r => Forall_cons x (value_ind' x) (go r)
            end) es)
  | VDict k w kvs =>
      HDict k w kvs
        ((fix go (l : list (value * value)) : Forall (fun p => P (fst p) /\ P (snd p)) l :=
            match l with
            | [] => Forall_nil _
            | p :: r => Forall_cons p (conj (value_ind' (fst p)) (value_ind' (snd p))) (go r)
            end) kvs)
  | VComp c i => HComp c i
  | VRef a b r => HRef a b r (value_ind' r)
  | VCap b a i => HCap b a i
  end.
End ValueInd.

(* the element loops of `convert` *)
Lemma go_list_err : forall (f : value -> res value) (g : value -> value) es e0,
  Forall (fun x => forall e, f x = Err e -> e = Internal) es ->
  (fix go (l : list value) : res (list value) :=
     match l with
     | [] => Ok []
     | x :: r => let* y := f x in let* ys := go r in Ok (g y :: ys)
     end) es = Err e0 -> e0 = Internal.
Proof.
  induction es as [|x r IH]; intros e0 HF HE; [discriminate|].
  inversion HF as [|? ? Hx Hr]; subst.
  destruct (f x) eqn:Ex; simpl in HE.
  - match type of HE with (let* ys := ?G in _) = _ => destruct G eqn:EG end; simpl in HE; [discriminate|].
    inversion HE; subst. apply (IH e0 Hr). reflexivity.
  - inversion HE; subst. apply Hx. reflexivity.
Qed.

Lemma go_pairs_err : forall (f1 f2 : value -> res value) (g1 g2 : value -> value) kvs e0,
  Forall (fun p => (forall e, f1 (fst p) = Err e -> e = Internal) /\
                   (forall e, f2 (snd p) = Err e -> e = Internal)) kvs ->
  (fix go (l : list (value * value)) : res (list (value * value)) :=
     match l with
     | [] => Ok []
     | (x, y) :: r =>
         let* x' := f1 x in let* y' := f2 y in let* ys := go r in Ok ((g1 x', g2 y') :: ys)
     end) kvs = Err e0 -> e0 = Internal.
Proof.
  induction kvs as [|[x y] r IH]; intros e0 HF HE; [discriminate|].
  inversion HF as [|? ? Hx Hr]; subst. simpl in Hx. destruct Hx as [Hx Hy].
  destruct (f1 x) eqn:Ex; simpl in HE.
  - destruct (f2 y) eqn:Ey; simpl in HE.
    + match type of HE with (let* ys := ?G in _) = _ => destruct G eqn:EG end; simpl in HE; [discriminate|].
      inversion HE; subst. apply (IH e0 Hr). reflexivity.
    + inversion HE; subst. apply Hy. reflexivity.
  - inversion HE; subst. apply Hx. reflexivity.
Qed.

(* `convert` fails only with the internal-error class *)
Lemma convert_err_internal : forall v T e, convert D v T = Err e -> e = Internal.
Proof.
  induction v as [p n|b|s|s|a| |d i|t| |v IHv|cs e es H|k w kvs H|c i|a b r IHr|b a i] using value_ind';
    intros T e0 HE; cbn [convert] in HE; try discriminate.
  all: try (destruct (unwrap_opt T) as [q|uo|ut|ut un|ut1 ut2|uc|uis|ta tx| |tb]; try discriminate;
            repeat match type of HE with
                   | (if ?c then _ else _) = _ => destruct c
                   | match ?x with _ => _ end = _ => destruct x
                   end; try discriminate; inversion HE; reflexivity).
  - destruct (negb (ty_eqb (dyn_type v) (unwrap_opt T))); [|discriminate].
    destruct (convert D v (unwrap_opt T)) eqn:E; simpl in HE; [discriminate|].
    inversion HE; subst. eapply IHv. exact E.
  - (* arrays *)
    destruct (unwrap_opt T) as [q|uo|ut|ut un|ut1 ut2|uc|uis|ta tx| |tb]; try discriminate.
    + repeat match type of HE with (if ?c then _ else _) = _ => destruct c end;
        try discriminate; try (inversion HE; reflexivity).
      match type of HE with (let* es' := ?G in _) = _ => destruct G eqn:EG end; simpl in HE; [discriminate|].
      inversion HE; subst.
      eapply (go_list_err (fun x => convert D x (strip_ty e)) (fun y => box_optional y (strip_ty e))); [|exact EG].
      eapply Forall_impl; [|exact H]. intros a Ha e1 He1. eapply Ha. exact He1.
    + destruct (negb (ty_eqb (dyn_type (VArray cs e es)) (TVar ut))); [|discriminate].
      destruct (apply_auth (dyn_type (VArray cs e es)) (TVar ut)) as [| |ne|ne m| | | | | |] eqn:EA;
        try (inversion HE; reflexivity);
        (match type of HE with (if ?c then _ else _) = _ => destruct c end; [discriminate|];
         match type of HE with (let* es' := ?G in _) = _ => destruct G eqn:EG end; simpl in HE; [discriminate|];
         inversion HE; subst;
         eapply (go_list_err (fun x => convert D x ne) (fun y => y)); [|exact EG];
         eapply Forall_impl; [|exact H]; intros a Ha e1 He1; eapply Ha; exact He1).
    + destruct (negb (ty_eqb (dyn_type (VArray cs e es)) (TConst ut un))); [|discriminate].
      destruct (apply_auth (dyn_type (VArray cs e es)) (TConst ut un)) as [| |ne|ne m| | | | | |] eqn:EA;
        try (inversion HE; reflexivity);
        (match type of HE with (if ?c then _ else _) = _ => destruct c end; [discriminate|];
         match type of HE with (let* es' := ?G in _) = _ => destruct G eqn:EG end; simpl in HE; [discriminate|];
         inversion HE; subst;
         eapply (go_list_err (fun x => convert D x ne) (fun y => y)); [|exact EG];
         eapply Forall_impl; [|exact H]; intros a Ha e1 He1; eapply Ha; exact He1).
    + destruct tx; inversion HE; reflexivity.
    + destruct (negb (ty_eqb (dyn_type (VArray cs e es)) (TCap tb))); [inversion HE; reflexivity | discriminate].
  - (* dictionaries *)
    destruct (unwrap_opt T) as [q|uo|ut|ut un|ut1 ut2|uc|uis|ta tx| |tb]; try discriminate.
    + repeat match type of HE with (if ?c then _ else _) = _ => destruct c end;
        try discriminate; try (inversion HE; reflexivity).
      match type of HE with (let* es' := ?G in _) = _ => destruct G eqn:EG end; simpl in HE; [discriminate|].
      inversion HE; subst.
      eapply (go_pairs_err (fun x => convert D x (strip_ty k)) (fun y => convert D y (strip_ty w))
                (fun y => box_optional y (strip_ty k)) (fun y => box_optional y (strip_ty w))); [|exact EG].
      eapply Forall_impl; [|exact H]. intros a [Ha1 Ha2]. split; intros e1 He1; [eapply Ha1 | eapply Ha2]; exact He1.
    + destruct (negb (ty_eqb (dyn_type (VDict k w kvs)) (TDict ut1 ut2))); [|discriminate].
      destruct (apply_auth (dyn_type (VDict k w kvs)) (TDict ut1 ut2)) as [| | | |nk nw| | | | |] eqn:EA;
        try (inversion HE; reflexivity).
      match type of HE with (if ?c then _ else _) = _ => destruct c end; [discriminate|].
      match type of HE with (let* es' := ?G in _) = _ => destruct G eqn:EG end; simpl in HE; [discriminate|].
      inversion HE; subst.
      eapply (go_pairs_err (fun x => convert D x nk) (fun y => convert D y nw) (fun y => y) (fun y => y)); [|exact EG].
      eapply Forall_impl; [|exact H]. intros a [Ha1 Ha2]. split; intros e1 He1; [eapply Ha1 | eapply Ha2]; exact He1.
    + destruct tx; inversion HE; reflexivity.
    + destruct (negb (ty_eqb (dyn_type (VDict k w kvs)) (TCap tb))); [inversion HE; reflexivity | discriminate].
Qed.

(* ------------------------------------------------------------------ casts *)
Lemma interp_cast_value_nonopt : forall T v, is_optional v = false -> interp_cast_value T v = v.
Proof.
  intros T v H. unfold interp_cast_value.
  destruct (is_prim (unwrap_opt T) PAnyStruct || is_prim (unwrap_opt T) PAnyResource); [reflexivity|].
  apply unbox_nonopt. apply optional_some. exact H.
Qed.

(* the failable cast yields nil exactly when the (possibly unboxed) value's run-time type is not a
   subtype of the target — for every value and type, without side conditions *)
Theorem failable_nil_iff : forall SX v T,
  interp_cast D OpFailable SX v T = Ok VNil <->
  is_sub (dyn_type (interp_cast_value T v)) T = false.
Proof.
  intros SX v T. unfold interp_cast.
  destruct (is_sub (dyn_type (interp_cast_value T v)) T); simpl.
  - split; [|discriminate].
    destruct (convert_and_box_validated D (interp_cast_value T v) _ T); simpl; intro H; discriminate.
  - split; reflexivity.
Qed.

(* force and failable casts: `as!` fails with a type mismatch exactly when `as?` yields nil, and
   otherwise both yield the same value (or the same internal error) *)
Theorem force_vs_failable : forall SX v T,
  (interp_cast D OpForce SX v T = Err TypeMismatch <-> interp_cast D OpFailable SX v T = Ok VNil) /\
  (forall r, interp_cast D OpForce SX v T = Ok r <-> interp_cast D OpFailable SX v T = Ok (VSome r)).
Proof.
  intros SX v T. unfold interp_cast.
  destruct (is_sub (dyn_type (interp_cast_value T v)) T); simpl.
  - destruct (convert_and_box_validated D (interp_cast_value T v) _ T) as [r0|e] eqn:E; simpl.
    + split; [split; discriminate|]. intro r. split; intro H; inversion H; reflexivity.
    + split.
      * split; [|discriminate]. intro H. exfalso.
        unfold convert_and_box_validated in E.
        destruct (negb (is_sub_of_sema (dyn_type (interp_cast_value T v)) _)); [inversion E; subst; discriminate|].
        unfold convert_and_box in E.
        destruct (convert D (interp_cast_value T v) T) as [c|e'] eqn:EC; simpl in E.
        -- destruct (negb (is_sub_of_sema (dyn_type (box_optional c T)) T)); inversion E; subst; discriminate.
        -- (* convert only fails with Internal *)
           inversion E; subst. rewrite (convert_err_internal _ _ _ EC) in H. discriminate.
      * intro r. split; discriminate.
  - split; [split; reflexivity|]. intro r. split; discriminate.
Qed.

Lemma unwrap_wrap_ty_like : forall t s, unwrap_opt (wrap_ty_like t s) = unwrap_opt s.
Proof. induction t; intro s; simpl; try reflexivity. rewrite IHt. reflexivity. Qed.

(* ConvertAndBoxWithValidation succeeds on a non-optional value of the class that conforms to the
   declared type and is below the target *)
Lemma validated_ok : forall SX v T,
  is_optional v = false -> is_reference v = false -> ok_value v = true -> wf_ty T ->
  is_sub (dyn_type v) SX = true -> is_sub (dyn_type v) T = true ->
  exists c, convert_and_box_validated D v SX T = Ok (wrap_like T c) /\
            is_optional c = false /\ erase c = erase v /\ (plain v = true -> c = v).
Proof.
  intros SX v T NO NR K W HS H.
  destruct (convert_nonopt v T K NO W H) as [c [C1 [C2 [C3 [C4 C5]]]]].
  destruct (C5 NR) as [C6 C7].
  exists c. split; [|split; [exact C3 | split; [exact C2 | exact C4]]].
  unfold convert_and_box_validated.
  rewrite (is_sub_of_sema_nonopt D _ SX (dyn_nonopt v NO)). rewrite HS. simpl.
  unfold convert_and_box. rewrite C1. simpl.
  rewrite (box_optional_nonopt c T C3).
  rewrite dyn_wrap_like.
  rewrite (is_sub_of_sema_complete D).
  - reflexivity.
  - rewrite unwrap_wrap_ty_like. exact C7.
  - apply wrapped_sub. exact C6.
Qed.

Lemma vm_cast_value_eq : forall T v, vm_cast_value T v = interp_cast_value T v.
Proof. reflexivity. Qed.

(* First sentence of the property for every value of the class that is neither optional nor a reference:
   the four tests agree with the subtype test, in both engines, and the casts raise no error. *)
Theorem agree_nonopt_nonref : forall SX v T,
  is_optional v = false -> is_reference v = false -> ok_value v = true ->
  wf_ty (dyn_type v) -> wf_ty T -> is_sub (dyn_type v) SX = true ->
  agree_at D SX v T /\
  (forall e, interp_cast D OpFailable SX v T <> Err e) /\
  (forall e, vm_cast D OpFailable SX v T <> Err e).
Proof.
  intros SX v T NO NR K Wv W HS.
  assert (ST : is_sub_static (dyn_type v) T = is_sub (dyn_type v) T).
  { apply is_sub_static_spec; [exact Wv | exact W | apply exc_nonopt; apply dyn_nonopt; exact NO]. }
  assert (DR : deref_receiver v = v) by (destruct v; simpl in NR; try discriminate; reflexivity).
  assert (SM : is_some v = false) by (apply optional_some; exact NO).
  unfold agree_at, instance_spec, call_is_instance, call_type_is_subtype, call_get_type,
    is_instance_fn, get_type_fn, meta_is_subtype.
  rewrite DR.
  unfold interp_cast, vm_cast. change (vm_cast_value T v) with (interp_cast_value T v).
  rewrite (interp_cast_value_nonopt T v NO).
  rewrite ST, SM. simpl.
  destruct (is_sub (dyn_type v) T) eqn:H; simpl.
  - destruct (validated_ok SX v T NO NR K W HS H) as [c [E _]].
    unfold vm_convert_and_box_validated. rewrite E. simpl.
    repeat split; try reflexivity; intros e0 X; discriminate.
  - repeat split; try reflexivity; intros e0 X; discriminate.
Qed.

(* A successful cast yields the original value: exactly for plain values, up to the authorization /
   borrowed type the target imposes for references and capabilities. *)
Theorem cast_same_value : forall SX v T r,
  is_optional v = false -> ok_value v = true -> wf_ty T ->
  interp_cast D OpFailable SX v T = Ok (VSome r) ->
  erase (unbox r) = erase v /\ (plain v = true -> unbox r = v).
Proof.
  intros SX v T r NO K W HC.
  unfold interp_cast in HC. rewrite (interp_cast_value_nonopt T v NO) in HC.
  destruct (is_sub (dyn_type v) T) eqn:H; simpl in HC; [|discriminate].
  destruct (convert_nonopt v T K NO W H) as [c [C1 [C2 [C3 [C4 _]]]]].
  unfold convert_and_box_validated, convert_and_box in HC. rewrite C1 in HC. simpl in HC.
  rewrite (box_optional_nonopt c T C3) in HC.
  match type of HC with context [if ?c1 then Err Internal else _] => destruct c1 end; [discriminate|].
  match type of HC with context [if ?c1 then Err Internal else _] => destruct c1 end; [discriminate|].
  simpl in HC. inversion HC; subst r.
  rewrite unbox_wrap_like, (unbox_nonopt c (optional_some c C3)).
  split; [exact C2|]. intro P. apply C4. exact P.
Qed.

(* Casts look through optionals: unless the target is AnyStruct / AnyResource (or an optional of them),
   casting Some(v) is casting the fully unboxed value ... *)
Theorem cast_unwraps_optionals : forall op SX v T,
  op <> OpSimple ->
  is_prim (unwrap_opt T) PAnyStruct = false -> is_prim (unwrap_opt T) PAnyResource = false ->
  interp_cast D op SX (VSome v) T = interp_cast D op (dyn_type (unbox v)) (unbox v) T.
Proof.
  intros op SX v T Hop H1 H2.
  unfold interp_cast, interp_cast_value. rewrite H1, H2. simpl.
  rewrite unbox_idem, (unbox_not_some v). simpl.
  destruct op; [reflexivity | reflexivity | contradiction].
Qed.

(* ... and for those targets the value is not unboxed: the test is on the optional value's own type *)
Theorem cast_keeps_optionals_for_any : forall T v,
  is_prim (unwrap_opt T) PAnyStruct || is_prim (unwrap_opt T) PAnyResource = true ->
  interp_cast_value T v = v.
Proof. intros T v H. unfold interp_cast_value. rewrite H. reflexivity. Qed.

(* The VM opcodes compute what the interpreter computes, except on [exc] *)
Theorem vm_equals_interpreter : forall op SX v T,
  wf_ty (dyn_type (interp_cast_value T v)) -> wf_ty T ->
  exc (dyn_type (interp_cast_value T v)) T = false ->
  vm_cast D op SX v T = interp_cast D op SX v T.
Proof.
  intros op SX v T Wv W X.
  unfold vm_cast, interp_cast. change (vm_cast_value T v) with (interp_cast_value T v).
  rewrite (is_sub_static_spec D _ _ Wv W X).
  destruct op; try reflexivity;
    destruct (is_sub (dyn_type (interp_cast_value T v)) T); simpl; try reflexivity;
    unfold vm_convert_and_box_validated;
    match goal with |- context [convert_and_box_validated D ?a ?b ?c] =>
      destruct (convert_and_box_validated D a b c) end; reflexivity.
Qed.

(* the same relation between `as!` and `as?` in the VM *)
Theorem vm_force_vs_failable : forall SX v T,
  (vm_cast D OpForce SX v T = Err TypeMismatch <-> vm_cast D OpFailable SX v T = Ok VNil) /\
  (forall r, vm_cast D OpForce SX v T = Ok r <-> vm_cast D OpFailable SX v T = Ok (VSome r)).
Proof.
  intros SX v T. unfold vm_cast, vm_convert_and_box_validated.
  destruct (is_sub_static (dyn_type (vm_cast_value T v)) T); simpl.
  - destruct (convert_and_box_validated D (vm_cast_value T v) _ T) as [r0|e] eqn:E; simpl.
    + split; [split; discriminate|]. intro r. split; intro H; inversion H; reflexivity.
    + split.
      * split; [|discriminate]. intro H. exfalso.
        unfold convert_and_box_validated in E.
        destruct (negb (is_sub_of_sema (dyn_type (vm_cast_value T v)) _)); [inversion E; subst; discriminate|].
        unfold convert_and_box in E.
        destruct (convert D (vm_cast_value T v) T) as [c|e'] eqn:EC; simpl in E.
        -- destruct (negb (is_sub_of_sema (dyn_type (box_optional c T)) T)); inversion E; subst; discriminate.
        -- inversion E; subst. rewrite (convert_err_internal _ _ _ EC) in H. discriminate.
      * intro r. split; discriminate.
  - split; [split; reflexivity|]. intro r. split; discriminate.
Qed.

End WithEnv.

(* ------------------------------------------------------------------ refutations (findings) over the
   declaration environment D0 of the correspondence run *)
From CV Require Import C09.Cases.

(* Finding 1: isInstance / getType called on an ephemeral reference are evaluated on the referenced
   value, the cast on the reference itself:
     let s = S0(1);  let x: AnyStruct = &s as &S0
     (x as? &{I0}) != nil        but      x.isInstance(Type<&{I0}>()) == false                      *)
Definition ref_witness : value := VRef Unauth (TComp 0) (VComp 0 1).
Definition ref_target : ty := TRef Unauth (TInter [0%nat]).

Lemma ref_witness_facts :
  is_optional ref_witness = false /\ ok_value ref_witness = true /\
  is_sub D0 (dyn_type ref_witness) (TPrim PAnyStruct) = true /\
  cast_ok (interp_cast D0 OpFailable (TPrim PAnyStruct) ref_witness ref_target) = true /\
  cast_ok (vm_cast D0 OpFailable (TPrim PAnyStruct) ref_witness ref_target) = true /\
  instance_spec D0 ref_witness ref_target = true /\
  call_is_instance D0 ref_witness ref_target = false /\
  call_type_is_subtype D0 ref_witness ref_target = false.
Proof. vm_compute. repeat split. Qed.

Theorem statement_refuted : ~ C09_statement D0.
Proof.
  intro S.
  assert (W1 : wf_ty (dyn_type ref_witness)).
  { simpl. repeat split. }
  assert (W2 : wf_ty ref_target).
  { simpl. repeat split; try (constructor; [intros []|constructor]); discriminate. }
  destruct (S (TPrim PAnyStruct) ref_witness ref_target eq_refl eq_refl W1 W2 eq_refl) as [_ [_ [H _]]].
  vm_compute in H. discriminate.
Qed.

(* Finding 2: a nil resource optional cast to AnyResource: the interpreter asks sema.IsSubType(Never?, AnyResource)
   (false), the VM asks interpreter.IsSubType on static types (true). *)
Theorem vm_differs_from_interpreter :
  interp_cast D0 OpFailable (TOpt (TComp 3)) VNil (TPrim PAnyResource) = Ok VNil /\
  vm_cast D0 OpFailable (TOpt (TComp 3)) VNil (TPrim PAnyResource) = Ok (VSome VNil) /\
  interp_cast D0 OpForce (TOpt (TComp 3)) VNil (TPrim PAnyResource) = Err TypeMismatch /\
  vm_cast D0 OpForce (TOpt (TComp 3)) VNil (TPrim PAnyResource) = Ok VNil /\
  call_is_instance D0 VNil (TPrim PAnyResource) = true /\
  call_type_is_subtype D0 VNil (TPrim PAnyResource) = false.
Proof. vm_compute. repeat split. Qed.
