(* C09 / C29 — the type fragment: primitive types, optionals, arrays, dictionaries, composites,
   intersections, references with authorizations, capabilities; type equality (sema `Equal` and
   static-type `Equal`, transcribed separately) and the subtype test transcribed from
   sema/type.go:CheckSubTypeWithoutEquality and interpreter/interpreter.go:IsSubType /
   IsSubTypeOfSemaType.  Definitions only; proofs are in C09/TypesProofs.v. *)
From CV Require Export Base.Prelude.
From Coq Require Export List Bool ZArith.
Import ListNotations.
Open Scope Z_scope.

(* ------------------------------------------------------------------ primitive types *)
Inductive prim : Type :=
| PAny | PAnyStruct | PAnyResource | PNever | PVoid | PBool | PString | PCharacter | PAddress
| PMetaType | PHashableStruct
| PNumber | PSignedNumber | PInteger | PSignedInteger | PFixedSizeUnsignedInteger
| PFixedPoint | PSignedFixedPoint
| PInt | PInt8 | PInt16 | PInt32 | PInt64 | PInt128 | PInt256
| PUInt | PUInt8 | PUInt16 | PUInt32 | PUInt64 | PUInt128 | PUInt256
| PWord8 | PWord16 | PWord32 | PWord64 | PWord128 | PWord256
| PFix64 | PFix128 | PUFix64 | PUFix128
| PPath | PStoragePath | PCapabilityPath | PPublicPath | PPrivatePath.

Scheme Equality for prim.   (* prim_beq, prim_eq_dec *)

Lemma prim_beq_true : forall p q, prim_beq p q = true <-> p = q.
Proof. split; [apply internal_prim_dec_bl | apply internal_prim_dec_lb]. Qed.

Lemma prim_beq_refl : forall p, prim_beq p p = true.
Proof. intro p. apply prim_beq_true. reflexivity. Qed.

(* ------------------------------------------------------------------ authorizations *)
(* entitlements are numbered; an entitlement set is a duplicate-free list *)
Inductive auth : Type :=
| Unauth
| Conj (es : list nat)      (* auth(E1, E2, ...)  *)
| Disj (es : list nat).     (* auth(E1 | E2 | ...) *)

Definition memb (x : nat) (l : list nat) : bool := existsb (Nat.eqb x) l.
Definition subset (a b : list nat) : bool := forallb (fun x => memb x b) a.

(* sema/access.go: EntitlementSetAccess.PermitsAccess / PrimitiveAccess.PermitsAccess
   [permits sup sub]: may a reference authorized [sub] be used where [sup] is demanded *)
Definition permits (sup sub : auth) : bool :=
  match sup with
  | Unauth => true                (* PrimitiveAccess(AccessAll) permits everything here *)
  | Conj e =>
      match sub with
      | Unauth => false
      | Conj o => forallb (fun x => memb x o) e                (* e subset of other *)
      | Disj o => forallb (fun ok => forallb (fun ek => Nat.eqb ok ek) e) o
      end
  | Disj e =>
      match sub with
      | Unauth => false
      | Conj o => existsb (fun x => memb x o) e                (* not disjoint *)
      | Disj o => forallb (fun x => memb x e) o                (* other subset of e *)
      end
  end.

(* sema: EntitlementSetAccess.Equal = same kind and mutual PermitsAccess *)
Definition auth_eqb (a b : auth) : bool :=
  match a, b with
  | Unauth, Unauth => true
  | Conj _, Conj _ | Disj _, Disj _ => permits a b && permits b a
  | _, _ => false
  end.

(* interpreter/statictype.go: EntitlementSetAuthorization.Equal = same kind, same size, all contained *)
Definition auth_static_eqb (a b : auth) : bool :=
  match a, b with
  | Unauth, Unauth => true
  | Conj x, Conj y | Disj x, Disj y =>
      Nat.eqb (length y) (length x) && forallb (fun e => memb e x) y
  | _, _ => false
  end.

(* ------------------------------------------------------------------ types *)
Inductive ty : Type :=
| TPrim (p : prim)
| TOpt (t : ty)
| TVar (t : ty)                  (* [T] *)
| TConst (t : ty) (n : Z)        (* [T; n] *)
| TDict (k v : ty)
| TComp (c : nat)                (* struct or resource declaration number c *)
| TInter (is : list nat)         (* {I1, I2, ...}, no legacy type *)
| TRef (a : auth) (t : ty)
| TCapAny                        (* Capability *)
| TCap (b : ty).                 (* Capability<b> *)

(* ------------------------------------------------------------------ declaration environment *)
Record env : Type := {
  comp_resource : nat -> bool;        (* composite c is a resource *)
  comp_conf : nat -> list nat;        (* effective interface conformance set of composite c *)
  comp_enum : nat -> bool;            (* composite c is an enum (hashable) *)
  iface_resource : nat -> bool;       (* interface i is a resource interface *)
  iface_supers : nat -> list nat;     (* effective conformance set of interface i (inherited, transitive) *)
}.

Section WithEnv.
Variable D : env.

(* IntersectionType.EffectiveIntersectionSet: the interfaces and everything they inherit,
   as an (insertion-ordered, duplicate-free) set *)
Definition eff_inter (is : list nat) : list nat :=
  nodup Nat.eq_dec (flat_map (fun i => i :: iface_supers D i) is).

Definition is_prim (s : ty) (p : prim) : bool :=
  match s with TPrim q => prim_beq q p | _ => false end.

Definition in_prims (s : ty) (ps : list prim) : bool :=
  match s with TPrim q => existsb (prim_beq q) ps | _ => false end.

(* sema Type.Equal *)
Fixpoint ty_eqb (a b : ty) : bool :=
  match a, b with
  | TPrim p, TPrim q => prim_beq p q
  | TOpt x, TOpt y => ty_eqb x y
  | TVar x, TVar y => ty_eqb x y
  | TConst x n, TConst y m => ty_eqb x y && Z.eqb n m
  | TDict k v, TDict k' v' => ty_eqb k k' && ty_eqb v v'
  | TComp c, TComp d => Nat.eqb c d
  | TInter is, TInter js =>
      Nat.eqb (length (eff_inter is)) (length (eff_inter js)) && subset (eff_inter is) (eff_inter js)
  | TRef a x, TRef b y => auth_eqb a b && ty_eqb x y
  | TCapAny, TCapAny => true
  | TCap x, TCap y => ty_eqb x y
  | _, _ => false
  end.

(* interpreter StaticType.Equal *)
Fixpoint static_eqb (a b : ty) : bool :=
  match a, b with
  | TPrim p, TPrim q => prim_beq p q
  | TOpt x, TOpt y => static_eqb x y
  | TVar x, TVar y => static_eqb x y
  | TConst x n, TConst y m => static_eqb x y && Z.eqb n m
  | TDict k v, TDict k' v' => static_eqb k k' && static_eqb v v'
  | TComp c, TComp d => Nat.eqb c d
  | TInter is, TInter js => Nat.eqb (length is) (length js) && forallb (fun i => memb i js) is
  | TRef a x, TRef b y => auth_static_eqb a b && static_eqb x y
  | TCapAny, TCapAny => true
  | TCap x, TCap y => static_eqb x y
  | _, _ => false
  end.

(* Type.IsResourceType *)
Fixpoint is_resource (t : ty) : bool :=
  match t with
  | TPrim p => prim_beq p PAnyResource
  | TOpt x | TVar x | TConst x _ => is_resource x
  | TDict k v => is_resource k || is_resource v
  | TComp c => comp_resource D c
  | TInter is => match is with i :: _ => iface_resource D i | [] => false end
  | TRef _ _ | TCapAny | TCap _ => false
  end.

(* ---- the numeric / path tower: IsSubTypeWithoutComparison(s, P) for a primitive P is
        `s.Equal(P) || s == Never || <the case of the big switch>` *)
Definition isw (chk : ty -> bool) (p : prim) (s : ty) : bool :=
  is_prim s p || is_prim s PNever || chk s.

Definition chk_SignedInteger (s : ty) : bool :=
  in_prims s [PSignedInteger; PInt; PInt8; PInt16; PInt32; PInt64; PInt128; PInt256].
Definition chk_FixedSizeUnsignedInteger (s : ty) : bool :=
  in_prims s [PUInt8; PUInt16; PUInt32; PUInt64; PUInt128; PUInt256;
              PWord8; PWord16; PWord32; PWord64; PWord128; PWord256].
Definition chk_Integer (s : ty) : bool :=
  if in_prims s [PInteger; PSignedInteger; PFixedSizeUnsignedInteger; PUInt] then true
  else isw chk_SignedInteger PSignedInteger s
       || isw chk_FixedSizeUnsignedInteger PFixedSizeUnsignedInteger s.
Definition chk_SignedFixedPoint (s : ty) : bool :=
  in_prims s [PSignedFixedPoint; PFix64; PFix128].
Definition chk_FixedPoint (s : ty) : bool :=
  if in_prims s [PFixedPoint; PSignedFixedPoint; PUFix64; PUFix128] then true
  else isw chk_SignedFixedPoint PSignedFixedPoint s.
Definition chk_SignedNumber (s : ty) : bool :=
  if is_prim s PSignedNumber then true
  else isw chk_SignedInteger PSignedInteger s || isw chk_SignedFixedPoint PSignedFixedPoint s.
Definition chk_Number (s : ty) : bool :=
  if in_prims s [PNumber; PSignedNumber] then true
  else isw chk_Integer PInteger s || isw chk_FixedPoint PFixedPoint s.
Definition chk_none (s : ty) : bool := false.
Definition chk_CapabilityPath (s : ty) : bool :=
  isw chk_none PPrivatePath s || isw chk_none PPublicPath s.
Definition chk_Path (s : ty) : bool :=
  isw chk_none PStoragePath s || isw chk_CapabilityPath PCapabilityPath s.

(* sema.IsHashableStructType *)
Definition is_hashable (s : ty) : bool :=
  match s with
  | TPrim PAddress => true
  | TComp c => comp_enum D c
  | _ =>
      if in_prims s [PNever; PBool; PCharacter; PString; PMetaType; PHashableStruct] then true
      else isw chk_Number PNumber s || isw chk_Path PPath s
  end.

(* first switch of CheckSubTypeWithoutEquality: the supertype is one of the listed primitives *)
Definition check_prim_super (s : ty) (p : prim) : bool :=
  match p with
  | PAny => true
  | PAnyStruct => if is_resource s then false else negb (is_prim s PAny)
  | PAnyResource => is_resource s
  | PHashableStruct => is_hashable s
  | PPath => chk_Path s
  | PCapabilityPath => chk_CapabilityPath s
  | PNumber => chk_Number s
  | PSignedNumber => chk_SignedNumber s
  | PInteger => chk_Integer s
  | PSignedInteger => chk_SignedInteger s
  | PFixedSizeUnsignedInteger => chk_FixedSizeUnsignedInteger s
  | PFixedPoint => chk_FixedPoint s
  | PSignedFixedPoint => chk_SignedFixedPoint s
  | _ => false
  end.

(* sema.IsSubType = Equal || CheckSubTypeWithoutEquality, by recursion on the supertype *)
Fixpoint is_sub (s t : ty) {struct t} : bool :=
  if ty_eqb s t then true
  else if is_prim s PNever then true
  else
    match t with
    | TPrim p => check_prim_super s p
    | TOpt t' =>
        match s with
        | TOpt s' => is_sub s' t'          (* T? <: U? if T <: U *)
        | _ => is_sub s t'                 (* T <: U? if T <: U *)
        end
    | TDict tk tv =>
        match s with
        | TDict sk sv => is_sub sk tk && is_sub sv tv
        | _ => false
        end
    | TVar t' => match s with TVar s' => is_sub s' t' | _ => false end
    | TConst t' n =>
        match s with
        | TConst s' m => if Z.eqb m n then is_sub s' t' else false
        | _ => false
        end
    | TRef ta t' =>
        match s with
        | TRef sa s' => if permits ta sa then is_sub s' t' else false
        | _ => false
        end
    | TInter is =>
        (* supertype {Vs} without legacy type *)
        match s with
        | TPrim PAnyResource | TPrim PAnyStruct | TPrim PAny => false
        | TInter js => subset (eff_inter is) (eff_inter js)
        | TComp c => subset (eff_inter is) (comp_conf D c)
        | _ => false
        end
    | TComp _ => false
    | TCapAny =>
        (* ParameterizedType without base type: T<Us> <: V if T <: V *)
        match s with TCap _ => true | _ => false end
    | TCap b =>
        match s with
        | TCap sb => is_sub sb b           (* AreTypeArgumentsEqual checks IsSubType per argument *)
        | _ => false
        end
    end.

(* interpreter.IsSubTypeOfSemaType: optional fast path on the static subtype *)
Fixpoint is_sub_of_sema (s t : ty) {struct s} : bool :=
  if is_prim t PAny then true
  else
    match s with
    | TOpt s' =>
        match t with
        | TOpt t' => is_sub_of_sema s' t'
        | TPrim PAnyStruct | TPrim PAnyResource => is_sub_of_sema s' t
        | _ => false                       (* `return superType == sema.AnyStructType` *)
        end
    | _ => is_sub s t
    end.

(* interpreter.IsSubType on static types *)
Definition is_sub_static (s t : ty) : bool :=
  if is_prim t PAny then true
  else if static_eqb s t then true
  else is_sub_of_sema s t.

(* sema.UnwrapOptionalType / vm.UnwrapOptionalType *)
Fixpoint unwrap_opt (t : ty) : ty :=
  match t with TOpt x => unwrap_opt x | _ => t end.

(* well-formed types: duplicate-free, non-empty intersections whose interfaces have one kind;
   duplicate-free entitlement sets; references never point to optionals; capability borrow
   types are references.  This is what the checker guarantees for every type a program can write. *)
Definition wf_auth (a : auth) : Prop :=
  match a with
  | Unauth => True
  | Conj es | Disj es => NoDup es /\ es <> []
  end.

Fixpoint wf_ty (t : ty) : Prop :=
  match t with
  | TPrim p => p <> PAny                    (* `Any` cannot be written in a program *)
  | TComp _ | TCapAny => True
  | TOpt x | TVar x | TConst x _ => wf_ty x
  | TDict k v => wf_ty k /\ wf_ty v
  | TInter is => NoDup is /\ is <> []
  | TRef a x => wf_auth a /\ wf_ty x /\ match x with TOpt _ => False | _ => True end
  | TCap b => wf_ty b /\ match b with TRef _ _ => True | _ => False end
  end.

(* the one place where the two subtype implementations differ (finding): the static-type fast path of
   interpreter.IsSubTypeOfSemaType unwraps `T?` against AnyResource, sema.IsSubType asks IsResourceType,
   which is false for Never: [exc s t] iff s = Never?..? with more optional layers than t = AnyResource?..? *)
Fixpoint exc (s t : ty) : bool :=
  match s with
  | TOpt s' =>
      match t with
      | TOpt t' => exc s' t'
      | TPrim PAnyResource => is_prim (unwrap_opt s') PNever
      | _ => false
      end
  | _ => false
  end.

End WithEnv.
