(* C43: JSON-Cadence and CCF decode to the same value (after erasure), with the same type ID.
   Corollary of the JSON-Cadence round trip (C41, proved) and of the CCF round trip, which is a
   hypothesis here: the CCF decoder is not modelled (see C42); the hypothesis is what the
   correspondence run of C42/C43 observes on the real decoder. *)
From CV Require Import C41.Json C41.TypeProofs C41.ValueProofs.
Local Open Scope Z_scope.

Section SameValue.
  Variable valid_char : str -> bool.
  Variable tid_canon : str -> option str.
  Variable is_simple : str -> bool.
  Hypothesis simple_not_ckind : forall k, is_simple (ckind_name k) = false.

  (* the CCF codec as a black box on values, and its round-trip property on a domain *)
  Variable ccf_bytes : Type.
  Variable ccf_encode : xval -> res ccf_bytes.
  Variable ccf_decode : ccf_bytes -> res xval.
  Variable ccf_dom : xval -> Prop.
  Hypothesis ccf_roundtrip :
    forall v, ccf_dom v -> exists b v', ccf_encode v = Ok b /\ ccf_decode b = Ok v' /\ erase v' = erase v.

  Theorem same_erased_value v :
    wf_val valid_char tid_canon is_simple v = true -> ccf_dom v ->
    exists j b vj vc,
      json_encode v = Ok j /\ json_decode valid_char tid_canon is_simple j = Ok vj /\
      ccf_encode v = Ok b /\ ccf_decode b = Ok vc /\
      erase vj = erase vc.
  Proof.
    intros Hwf Hdom.
    destruct (json_roundtrip valid_char tid_canon is_simple simple_not_ckind v Hwf) as (j & vj & Hj & Hd & He & _).
    destruct (ccf_roundtrip v Hdom) as (b & vc & Hb & Hc & Hec).
    exists j, b, vj, vc. repeat split; try assumption. congruence.
  Qed.
End SameValue.

(* ------------------------------------------------------------------ type IDs *)
(* a type without nil components has an ID *)
Fixpoint has_id (t : xty) : bool :=
  match t with
  | TNil => false
  | TOptional t1 | TVarArray t1 | TConstArray _ t1 | TRange t1 | TReference _ t1 => has_id t1
  | TDict k v => has_id k && has_id v
  | _ => true
  end.

(* along optionals: ranges carry the type of their start value (what the decoder derives) *)
Fixpoint spine_typed (v : xval) : Prop :=
  match v with
  | VOptional (Some v1) => spine_typed v1
  | VRange t a _ _ => t = TRange (type_of a) /\ spine_typed a
  | _ => True
  end.

(* whenever the JSON-decoded value has a type ID at all (JSON-Cadence does not carry the types of
   arrays and dictionaries), it is the type ID of the original value *)
Theorem json_type_id_preserved : forall v,
  has_id (type_of (jnorm v)) = true -> spine_typed v ->
  ty_id (type_of (jnorm v)) = ty_id (type_of v).
Proof.
  induction v using xval_ind2; cbn [jnorm type_of has_id spine_typed]; intros Hid Hsp;
    try reflexivity; try discriminate.
  - (* Some *) cbn [ty_id]. rewrite IHv by assumption. reflexivity.
  - (* Range *) destruct Hsp as [-> Hsp]. cbn [ty_id]. rewrite IHv1 by assumption. reflexivity.
Qed.
