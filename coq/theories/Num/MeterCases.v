From CV Require Export Num.MeterModel.
(* (op, a, b, amount metered by the real estimator): operands given in full (at most 4 words each) *)
Definition check_meter (c : mop * Z * Z * Z) : bool :=
  let '(o, a, b, obs) := c in metered o a b =? obs.

Definition osumm_eqb (x y : osumm) : bool :=
  (s_wa x =? s_wa y) && (s_wb x =? s_wb y) && Bool.eqb (s_a_ge0 x) (s_a_ge0 y) && Bool.eqb (s_a_le0 x) (s_a_le0 y)
  && Bool.eqb (s_b_ge0 x) (s_b_ge0 y) && Bool.eqb (s_b_le0 x) (s_b_le0 y) && Bool.eqb (s_lt x) (s_lt y)
  && (s_blb x =? s_blb y) && Bool.eqb (s_b_zero x) (s_b_zero y) && (s_shift x =? s_shift y).

(* (op, a, b, summary computed by math/big): validates the Go-side summary against Coq's words/bitlen *)
Definition check_summ (c : Z * Z * osumm) : bool :=
  let '(a, b, s) := c in osumm_eqb (summ a b) s.

(* (op, summary computed by math/big, amount metered by the real estimator) *)
Definition check_meter_s (c : mop * osumm * Z) : bool :=
  let '(o, s, obs) := c in metered_s o s =? obs.
