From CV Require Export Num.MeterModel.
(* (op, a, b, amount metered by the real estimator) *)
Definition check_meter (c : mop * Z * Z * Z) : bool :=
  let '(o, a, b, obs) := c in metered o a b =? obs.
