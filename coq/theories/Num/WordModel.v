(* Code-shaped model of Word8..Word256 arithmetic
   (interpreter/value_word{8,16,32,64}.go: native uintN arithmetic, wrapping by the Go spec;
    interpreter/value_word{128,256}.go: math/big with explicit reduction). *)
From CV Require Export Num.IntSpec.

Definition wrap_u (n z : Z) : Z := z mod 2 ^ n.

(* native widths: Go unsigned arithmetic wraps modulo 2^n *)
Definition word_native (n : Z) (o : binop) (v w : Z) : res Z :=
  match o with
  | OAdd => Ok (wrap_u n (v + w))
  | OSub => Ok (wrap_u n (v - w))
  | OMul => Ok (wrap_u n (v * w))
  | ODiv => if w =? 0 then Err DivZero else Ok (wrap_u n (v / w))
  | ORem => if w =? 0 then Err DivZero else Ok (wrap_u n (v mod w))
  end.

(* big widths: as written in value_word128.go / value_word256.go *)
Definition word_big (n : Z) (o : binop) (v w : Z) : res Z :=
  let maxv := 2 ^ n - 1 in
  let max1 := 2 ^ n in
  match o with
  | OAdd => let sum := v + w in
            Ok (if sum >? maxv then sum - max1 else sum)
  | OSub => let diff := v - w in
            Ok (if diff <? 0 then diff + max1 else diff)
  | OMul => let r := v * w in
            Ok (if r >? maxv then r mod max1 (* big.Int.Mod: Euclidean *) else r)
  | ODiv => if w =? 0 then Err DivZero else Ok (Z.quot v w)
  | ORem => if w =? 0 then Err DivZero else Ok (Z.rem v w)
  end.

Definition word_model (n : Z) : binop -> Z -> Z -> res Z :=
  if n <=? 64 then word_native n else word_big n.
