From CV Require Import Num.MeterModel Num.MeterProofs Num.MeterProofs2.
From Coq Require Import ZifyBool.
Ltac Zify.zify_post_hook ::= Z.div_mod_to_equations.

Ltac setup a b :=
  pose proof (words_nonneg a); pose proof (words_nonneg b);
  change (2 ^ 24) with 16777216 in *; change (2 ^ 64) with 18446744073709551616 in *.

Lemma bitlen_bounds b : b <> 0 -> 64 * (words b - 1) + 1 <= bitlen b <= 64 * words b.
Proof.
  intros Hb. pose proof (bitlen_nonneg b).
  assert (1 <= bitlen b).
  { unfold bitlen. destruct (Z.eqb_spec b 0); [contradiction|]. pose proof (Z.log2_nonneg (Z.abs b)). lia. }
  unfold words. lia.
Qed.

(* branch 3 of the division estimator is large enough for the quotient and for the remainder *)
Lemma div_branch3 a b : b <> 0 -> 100 <= words b -> words a < 2 ^ 24 -> words b < 2 ^ 24 ->
  let est := 3 * words b + 4 + (8 + 9 * words b + words a / words b + 12) * (2 * bitlen b) in
  Z.max (words b) (words a - words b + 1) <= est /\ est < 2 ^ 60.
Proof.
  intros Hb Hw Ha Hbb. setup a b. pose proof (bitlen_bounds b Hb) as [BL BU].
  set (wa := words a) in *. set (wb := words b) in *. set (bl := bitlen b) in *.
  assert (Q: 0 <= wa / wb) by (apply Z.div_pos; lia).
  assert (Qu: wa / wb <= wa) by (apply Z.div_le_upper_bound; nia).
  assert (wb * (wa / wb) >= wa - wb + 1) by nia.
  change (2 ^ 60) with 1152921504606846976. cbv zeta. split; nia.
Qed.

Theorem div_ok : never_underreports MDiv.
Proof.
  intros a b Hd Ha Hb. unfold result_bytes, op_result. simpl in Hd. setup a b.
  pose proof (words_quot a b Hd). pose proof (words_quot_sub a b Hd).
  pose proof (words_nonneg (Z.quot a b)). pose proof (words_lb b Hd) as [Hb1 _].
  destruct ((a <? b) || (words b =? 1)) eqn:E1.
  - apply metered_ge; unfold est_words; rewrite ?E1; lia.
  - destruct (Z.ltb_spec (words b) 100) as [E2|E2].
    + destruct (Z.le_gt_cases 0 (words a - words b + 5)).
      * apply metered_ge; unfold est_words; rewrite ?E1; try lia;
        destruct (Z.ltb_spec (words b) 100); lia.
      * (* estimate negative: the quotient is 0; the wrapped amount is non-negative *)
        assert (words (Z.quot a b) = 0) by lia.
        unfold metered. pose proof (Z.mod_pos_bound (est_words MDiv a b * word_size) (2 ^ 64) ltac:(lia)). lia.
    + pose proof (div_branch3 a b Hd E2 Ha Hb) as [L U]. cbv zeta in L, U.
      apply metered_ge; unfold est_words; rewrite ?E1; try lia;
      destruct (Z.ltb_spec (words b) 100); lia.
Qed.

(* remainder: fine outside the middle branch, or when the middle-branch estimate still covers |b| words *)
Theorem mod_partial : forall a b, op_defined MMod a b -> words a < 2 ^ 24 -> words b < 2 ^ 24 ->
  (a < b \/ words b = 1 \/ 100 <= words b \/ 2 * words b <= words a + 5) ->
  result_bytes MMod a b <= metered MMod a b.
Proof.
  intros a b Hd Ha Hb G. unfold result_bytes, op_result. simpl in Hd. setup a b.
  pose proof (words_rem a b Hd). pose proof (words_nonneg (Z.rem a b)).
  pose proof (words_lb b Hd) as [Hb1 _].
  destruct ((a <? b) || (words b =? 1)) eqn:E1.
  - apply metered_ge; unfold est_words; rewrite ?E1; lia.
  - destruct (Z.ltb_spec (words b) 100) as [E2|E2].
    + assert (2 * words b <= words a + 5) by lia.
      apply metered_ge; unfold est_words; rewrite ?E1; try lia;
      destruct (Z.ltb_spec (words b) 100); lia.
    + pose proof (div_branch3 a b Hd E2 Ha Hb) as [L U]. cbv zeta in L, U.
      apply metered_ge; unfold est_words; rewrite ?E1; try lia;
      destruct (Z.ltb_spec (words b) 100); lia.
Qed.

Theorem mod_refuted : ~ never_underreports MMod.
Proof.
  intro H. specialize (H (2 ^ 3200 - 1) (2 ^ 2559 + 12345)).
  assert (op_defined MMod (2 ^ 3200 - 1) (2 ^ 2559 + 12345)) as D by (simpl; lia).
  specialize (H D). vm_compute in H. apply H; reflexivity.
Qed.

Theorem shr_partial : forall a b, op_defined MShr a b -> words a < 2 ^ 24 -> words b < 2 ^ 24 ->
  (a < 0 \/ b < 40) ->
  result_bytes MShr a b <= metered MShr a b.
Proof.
  intros a b Hd Ha Hb G. unfold result_bytes, op_result. simpl in Hd. setup a b.
  pose proof (words_shr a b ltac:(lia)). pose proof (words_nonneg (a / 2 ^ b)).
  apply metered_ge; unfold est_words, word_size; try lia;
  destruct (Z.geb_spec a 0); destruct (Z.eqb_spec b 0); try lia.
Qed.

Theorem shr_refuted : ~ never_underreports MShr.
Proof.
  intro H. specialize (H (2 ^ 6399) 640).
  assert (op_defined MShr (2 ^ 6399) 640) as D by (simpl; lia).
  specialize (H D). vm_compute in H. apply H; reflexivity.
Qed.
