(* Check functions used by the per-run case files of the numeric properties. *)
From CV Require Export Num.IntModel.

(* (bits, op, a, b, observed) *)
Definition check_word (c : Z * binop * Z * Z * res Z) : bool :=
  let '(n, o, a, b, obs) := c in
  res_eqb Z.eqb (word_model n o a b) obs.

(* (kind, op, a, b, observed) *)
Definition check_checked (c : ikind * binop * Z * Z * res Z) : bool :=
  let '(k, o, a, b, obs) := c in
  res_eqb Z.eqb (checked_model k o a b) obs.

(* (kind, a, observed) *)
Definition check_neg (c : ikind * Z * res Z) : bool :=
  let '(k, a, obs) := c in
  res_eqb Z.eqb (neg_model k a) obs.

Definition check_sat (c : ikind * binop * Z * Z * res Z) : bool :=
  let '(k, o, a, b, obs) := c in
  res_eqb Z.eqb (sat_model k o a b) obs.

From CV Require Export Num.BitsModel.
(* (kind, bitop, a, b, observed): the bounded kinds must match exactly; Int/UInt may report Overflow
   instead when the amount does not fit 64 bits (decided by bits_allowed, here as a boolean) *)
Definition check_bits (c : ikind * bitop * Z * Z * res Z) : bool :=
  let '(k, o, a, b, obs) := c in
  res_eqb Z.eqb (bits_model k o a b) obs.
