(* Check functions used by the per-run case files of the numeric properties. *)
From CV Require Export Num.WordModel.

(* (bits, op, a, b, observed) *)
Definition check_word (c : Z * binop * Z * Z * res Z) : bool :=
  let '(n, o, a, b, obs) := c in
  res_eqb Z.eqb (word_model n o a b) obs.
