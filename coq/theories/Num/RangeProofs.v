From CV Require Import Num.RangeModel Num.WordProofs Num.IntProofs.
From Coq Require Import ZifyBool.
Ltac Zify.zify_post_hook ::= Z.div_mod_to_equations.

Lemma in_range_convex k x y z : in_range k x -> in_range k y -> x <= z <= y -> in_range k z.
Proof. unfold in_range. destruct (kmin k), (kmax k); intros [? ?] [? ?] ?; split; lia. Qed.

Lemma zero_in_range k : wf_kind k -> in_range k 0.
Proof.
  destruct k; simpl; intro H; unfold in_range; simpl; try (split; lia);
  try (pose proof (pow2_pos (n - 1) ltac:(lia)); split; lia);
  pose proof (pow2_pos n ltac:(lia)); split; lia.
Qed.

Lemma fit_in_range k z : in_range k z -> fit k z = Ok z.
Proof.
  unfold in_range, fit. destruct (kmin k), (kmax k); intros [? ?];
  repeat match goal with |- context [?a <? ?b] => destruct (Z.ltb_spec a b); try lia
                       | |- context [?a >? ?b] => destruct (Z.gtb_spec a b); try lia end; reflexivity.
Qed.

Lemma word_range n z : 0 < n -> in_range (KWord n) z -> z mod 2 ^ n = z.
Proof. intros Hn [H0 H1]; simpl in *. apply Z.mod_small. lia. Qed.

Lemma addsub_exact k op v o :
  wf_kind k -> (op = OAdd \/ op = OSub) -> in_range k v -> in_range k o -> in_range k (exact op v o) ->
  checked_model k op v o = Ok (exact op v o).
Proof.
  intros Hk Hop Hv Ho Hr.
  destruct (is_word k) eqn:W.
  - destruct k; try discriminate. simpl in Hk. unfold checked_model.
    rewrite word_model_correct by assumption.
    destruct Hop; subst op; unfold spec_word; rewrite word_range by assumption; reflexivity.
  - rewrite checked_model_correct by assumption.
    destruct Hop; subst op; unfold spec_checked; apply fit_in_range; assumption.
Qed.

Lemma rem_in_range k v o : wf_kind k -> in_range k v -> o <> 0 -> in_range k (Z.rem v o).
Proof.
  intros Hk Hv Hz. pose proof (zero_in_range k Hk) as H0.
  assert (Z.abs (Z.rem v o) <= Z.abs v) by (rewrite <- (Z.rem_abs v o) by assumption; apply Z.rem_le; lia).
  destruct (Z.le_gt_cases 0 v).
  - assert (0 <= Z.rem v o) by (apply Z.rem_nonneg; lia).
    apply (in_range_convex k 0 v); try assumption; lia.
  - assert (Z.rem v o <= 0) by (apply Z.rem_nonpos; lia).
    apply (in_range_convex k v 0); try assumption; lia.
Qed.

Lemma rem_exact k v o :
  wf_kind k -> in_range k v -> in_range k o -> o <> 0 ->
  checked_model k ORem v o = Ok (Z.rem v o).
Proof.
  intros Hk Hv Ho Hz. pose proof (rem_in_range k v o Hk Hv Hz) as Hr.
  destruct (is_word k) eqn:W.
  - destruct k; try discriminate. simpl in Hk. unfold checked_model.
    rewrite word_model_correct by assumption. unfold spec_word, exact.
    destruct (Z.eqb_spec o 0); [contradiction|]. rewrite word_range by assumption. reflexivity.
  - rewrite checked_model_correct by assumption. unfold spec_checked, exact.
    destruct (Z.eqb_spec o 0); [contradiction|]. apply fit_in_range. assumption.
Qed.

(* ------------------------------------------------------------------ iteration *)
Definition beyond (sn : bool) (e_end elem : Z) : bool :=
  (sn && (elem <? e_end)) || (negb sn && (elem >? e_end)).

Lemma validate_beyond sn e x : validate sn e x = if beyond sn e x then None else Some x.
Proof. unfold validate, beyond. destruct sn; simpl; destruct (x <? e), (x >? e); reflexivity. Qed.

Lemma seq_map_shift (f : nat -> Z) n s :
  map f (List.seq (S s) n) = map (fun j => f (S j)) (List.seq s n).
Proof. rewrite <- seq_shift. rewrite map_map. reflexivity. Qed.

Lemma iter_gen k r : wf_kind k -> in_range k (r_step r) ->
  forall (n : nat) cur acc,
  (forall j : nat, (j < n)%nat ->
     in_range k (cur + Z.of_nat j * r_step r) /\ beyond (r_step r <? 0) (r_end r) (cur + Z.of_nat j * r_step r) = false) ->
  in_range k (cur + Z.of_nat n * r_step r) ->
  beyond (r_step r <? 0) (r_end r) (cur + Z.of_nat n * r_step r) = true ->
  (0 < n)%nat ->
  iter_from n k r (Some cur) acc =
    Ok (rev acc ++ map (fun j => cur + Z.of_nat j * r_step r) (List.seq 0 n)).
Proof.
  intros Hk Hs. induction n as [|n IH]; intros cur acc Hin Hlast Hb Hn; [lia|].
  cbn [iter_from].
  assert (Hc: in_range k cur).
  { destruct (Hin 0%nat ltac:(lia)) as [H _]. replace (cur + Z.of_nat 0 * r_step r) with cur in H by lia. exact H. }
  assert (Hnext: in_range k (cur + r_step r)).
  { destruct n.
    - replace (cur + Z.of_nat 1 * r_step r) with (cur + r_step r) in Hlast by lia. exact Hlast.
    - destruct (Hin 1%nat ltac:(lia)) as [H _].
      replace (cur + Z.of_nat 1 * r_step r) with (cur + r_step r) in H by lia. exact H. }
  rewrite (addsub_exact k OAdd cur (r_step r) Hk (or_introl eq_refl) Hc Hs Hnext).
  unfold exact. rewrite validate_beyond.
  destruct n.
  - (* the successor is beyond the end: stop *)
    replace (cur + Z.of_nat 1 * r_step r) with (cur + r_step r) in Hb by lia. rewrite Hb.
    cbn [iter_from List.seq map rev]. simpl. replace (cur + 0) with cur by lia. reflexivity.
  - destruct (Hin 1%nat ltac:(lia)) as [_ Hb1].
    replace (cur + Z.of_nat 1 * r_step r) with (cur + r_step r) in Hb1 by lia. rewrite Hb1.
    rewrite IH; try lia.
    + change (List.seq 0 (S (S n))) with (0%nat :: List.seq 1 (S n)).
      cbn [map rev]. rewrite <- app_assoc. cbn [app].
      apply f_equal. apply f_equal2; [reflexivity|]. apply f_equal2.
      * change (Z.of_nat 0) with 0. lia.
      * rewrite seq_map_shift. apply map_ext. intro j. lia.
    + intros j Hj. specialize (Hin (S j) ltac:(lia)).
      replace (cur + r_step r + Z.of_nat j * r_step r) with (cur + Z.of_nat (S j) * r_step r) by lia. exact Hin.
    + replace (cur + r_step r + Z.of_nat (S n) * r_step r) with (cur + Z.of_nat (S (S n)) * r_step r) by lia. exact Hlast.
    + replace (cur + r_step r + Z.of_nat (S n) * r_step r) with (cur + Z.of_nat (S (S n)) * r_step r) by lia. exact Hb.
Qed.

Lemma seq_count_pos r : r_step r <> 0 -> 1 <= seq_count r.
Proof. intros. unfold seq_count. assert (0 <= Z.abs (r_end r - r_start r) / Z.abs (r_step r)) by (apply Z.div_pos; lia). lia. Qed.

(* elements of the sequence lie between start and end, the next one lies beyond *)
Lemma seq_facts r : r_step r <> 0 ->
  (r_start r < r_end r -> r_step r > 0) -> (r_start r > r_end r -> r_step r < 0) ->
  (forall j, 0 <= j < seq_count r ->
     Z.min (r_start r) (r_end r) <= r_start r + j * r_step r <= Z.max (r_start r) (r_end r) /\
     beyond (r_step r <? 0) (r_end r) (r_start r + j * r_step r) = false) /\
  beyond (r_step r <? 0) (r_end r) (r_start r + seq_count r * r_step r) = true.
Proof.
  intros Hz Hup Hdown. unfold seq_count, beyond.
  set (s := r_start r) in *. set (e := r_end r) in *. set (st := r_step r) in *.
  assert (Q: 0 <= Z.abs (e - s) / Z.abs st) by (apply Z.div_pos; lia).
  split.
  - intros j Hj.
    destruct (Z.ltb_spec st 0); cbn [andb orb negb].
    + assert (e <= s) by lia. split; [nia|].
      destruct (Z.ltb_spec (s + j * st) e); [nia|reflexivity].
    + assert (s <= e \/ s = e) by lia. split; [nia|].
      destruct (Z.gtb_spec (s + j * st) e); [nia|reflexivity].
  - destruct (Z.ltb_spec st 0); cbn [andb orb negb].
    + assert (e <= s) by lia. destruct (Z.ltb_spec (s + (Z.abs (e - s) / Z.abs st + 1) * st) e); [reflexivity|nia].
    + assert (s <= e) by lia. destruct (Z.gtb_spec (s + (Z.abs (e - s) / Z.abs st + 1) * st) e); [reflexivity|nia].
Qed.

Theorem iterate_partial k r : wf_kind k -> wf_range k r ->
  in_range k (r_start r + seq_count r * r_step r) ->
  iterate (Z.to_nat (seq_count r)) k r = Ok (seq_list r).
Proof.
  intros Hk (Hs & He & Hst & Hz & Hup & Hdown) Hguard.
  pose proof (seq_count_pos r Hz) as Hc.
  destruct (seq_facts r Hz Hup Hdown) as [Hin Hb].
  unfold iterate. rewrite validate_beyond.
  destruct (Hin 0 ltac:(lia)) as [_ B0]. replace (r_start r + 0 * r_step r) with (r_start r) in B0 by lia.
  rewrite B0.
  rewrite (iter_gen k r Hk Hst (Z.to_nat (seq_count r)) (r_start r) []).
  - reflexivity.
  - intros j Hj. destruct (Hin (Z.of_nat j) ltac:(lia)) as [R B]. split; [|exact B].
    destruct (Z.le_gt_cases (r_start r) (r_end r)).
    + apply (in_range_convex k (r_start r) (r_end r)); try assumption. lia.
    + apply (in_range_convex k (r_end r) (r_start r)); try assumption. lia.
  - rewrite Z2Nat.id by lia. exact Hguard.
  - rewrite Z2Nat.id by lia. exact Hb.
  - lia.
Qed.

(* the iteration fails on the unchanged tree when the element after the last one is not representable *)
Theorem iterate_refuted_overflow :
  exists k r, wf_kind k /\ wf_range k r /\ iterate 10 k r = Err Overflow.
Proof.
  exists (KUnsigned 8), {| r_start := 250; r_end := 255; r_step := 1 |}.
  split; [simpl; lia|]. split; [unfold wf_range, in_range; simpl; lia|]. vm_compute. reflexivity.
Qed.

Theorem iterate_refuted_underflow :
  exists k r, wf_kind k /\ wf_range k r /\ iterate 10 k r = Err Underflow.
Proof.
  exists (KSigned 8), {| r_start := -126; r_end := -128; r_step := -1 |}.
  split; [simpl; lia|]. split; [unfold wf_range, in_range; simpl; lia|]. vm_compute. reflexivity.
Qed.

(* for Word types the successor wraps around and the iteration does not stop at the end *)
Theorem iterate_refuted_word_wrap :
  exists k r, wf_kind k /\ wf_range k r /\ seq_list r = [250; 251; 252; 253; 254; 255] /\
    iterate 300 k r = Err OutOfFuel.
Proof.
  exists (KWord 8), {| r_start := 250; r_end := 255; r_step := 1 |}.
  split; [simpl; lia|]. split; [unfold wf_range, in_range; simpl; lia|]. split; vm_compute; reflexivity.
Qed.

(* ------------------------------------------------------------------ contains *)
Lemma rem_zero_iff_mod_zero a b : b <> 0 -> (Z.rem a b =? 0) = (a mod b =? 0).
Proof.
  intros Hb. destruct (Z.eqb_spec (Z.rem a b) 0) as [E|E]; destruct (Z.eqb_spec (a mod b) 0) as [F|F]; try reflexivity.
  - exfalso. apply F. apply Z.mod_divide; [assumption|]. apply Z.rem_divide; assumption.
  - exfalso. apply E. apply Z.rem_divide; [assumption|]. apply Z.mod_divide; assumption.
Qed.

Theorem contains_partial k r x : wf_kind k -> wf_range k r -> in_range k x ->
  in_range k (x - r_start r) ->
  (x = r_end r -> memberb r x = true) ->
  contains k r x = Ok (memberb r x).
Proof.
  intros Hk (Hs & He & Hst & Hz & Hup & Hdown) Hx Hd Hend.
  unfold contains, memberb.
  destruct (Z.eqb_spec (r_start r) x) as [E1|E1]; cbn [orb].
  - subst x. rewrite Z.sub_diag, Z.mod_0_l by assumption. f_equal.
    destruct (Z.gtb_spec (r_step r) 0); symmetry; rewrite !andb_true_iff, !Z.leb_le; repeat split; try lia; reflexivity.
  - destruct (Z.eqb_spec (r_end r) x) as [E2|E2]; cbn [orb].
    + f_equal. symmetry. apply Hend. congruence.
    + destruct (Bool.eqb (x >? r_start r) (x >? r_end r)) eqn:B; cbn [negb].
      * (* not strictly between: not a member *)
        f_equal. symmetry. apply andb_false_iff. left.
        destruct (Z.gtb_spec x (r_start r)), (Z.gtb_spec x (r_end r)); simpl in B; try discriminate;
        destruct (Z.gtb_spec (r_step r) 0); apply andb_false_iff; rewrite !Z.leb_gt; lia.
      * rewrite (addsub_exact k OSub x (r_start r) Hk (or_intror eq_refl) Hx Hs Hd). unfold exact, bind.
        rewrite (rem_exact k (x - r_start r) (r_step r) Hk Hd Hst Hz).
        f_equal. rewrite rem_zero_iff_mod_zero by assumption.
        assert (G: (if r_step r >? 0 then (r_start r <=? x) && (x <=? r_end r) else (r_end r <=? x) && (x <=? r_start r)) = true).
        { destruct (Z.gtb_spec x (r_start r)), (Z.gtb_spec x (r_end r)); simpl in B; try discriminate;
          destruct (Z.gtb_spec (r_step r) 0); rewrite andb_true_iff, !Z.leb_le; lia. }
        rewrite G. reflexivity.
Qed.

(* memberb decides membership in the arithmetic sequence *)
Theorem memberb_spec r x : r_step r <> 0 ->
  (r_start r < r_end r -> r_step r > 0) -> (r_start r > r_end r -> r_step r < 0) ->
  (memberb r x = true <-> member r x).
Proof.
  intros Hz Hup Hdown. unfold memberb, member, seq_count.
  set (s := r_start r) in *. set (e := r_end r) in *. set (st := r_step r) in *.
  rewrite andb_true_iff, Z.eqb_eq. split.
  - intros [Hb Hm]. apply Z.mod_divide in Hm; [|assumption]. destruct Hm as [q Hq].
    exists q. destruct (Z.gtb_spec st 0); rewrite andb_true_iff, !Z.leb_le in Hb; split; try lia.
    + assert (0 <= Z.abs (e - s) / Z.abs st) by (apply Z.div_pos; lia). nia.
    + assert (0 <= Z.abs (e - s) / Z.abs st) by (apply Z.div_pos; lia). nia.
  - intros [j [Hj Hx]]. subst x. split.
    + assert (0 <= Z.abs (e - s) / Z.abs st) by (apply Z.div_pos; lia).
      destruct (Z.gtb_spec st 0); rewrite andb_true_iff, !Z.leb_le; nia.
    + replace (s + j * st - s) with (j * st) by lia. apply Z.mod_mul. assumption.
Qed.

Theorem contains_refuted_end_nonmember :
  exists k r x, wf_kind k /\ wf_range k r /\ in_range k x /\ memberb r x = false /\ contains k r x = Ok true.
Proof.
  exists KInt, {| r_start := 0; r_end := 10; r_step := 3 |}, 10.
  split; [exact I|]. split; [unfold wf_range, in_range; simpl; lia|].
  split; [unfold in_range; simpl; lia|]. split; vm_compute; reflexivity.
Qed.

Theorem contains_refuted_diff_overflow :
  exists k r x, wf_kind k /\ wf_range k r /\ in_range k x /\ memberb r x = true /\ contains k r x = Err Overflow.
Proof.
  exists (KSigned 8), {| r_start := -128; r_end := 127; r_step := 2 |}, 126.
  split; [simpl; lia|]. split; [unfold wf_range, in_range; simpl; lia|].
  split; [unfold in_range; simpl; lia|]. split; vm_compute; reflexivity.
Qed.
