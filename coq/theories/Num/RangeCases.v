From CV Require Export Num.RangeModel.

Definition list_eqb (a b : list Z) : bool :=
  (Nat.eqb (length a) (length b)) && forallb (fun p => Z.eqb (fst p) (snd p)) (combine a b).

(* (kind, start, end, step, observed): construct, then iterate with fuel 400 *)
Definition check_iter (c : ikind * Z * Z * option Z * res (list Z)) : bool :=
  let '(k, s, e, st, obs) := c in
  let model := let* r := construct k s e st in iterate 400 k r in
  res_eqb list_eqb model obs.

(* (kind, start, end, step, needle, observed) *)
Definition check_contains (c : ikind * Z * Z * option Z * Z * res bool) : bool :=
  let '(k, s, e, st, x, obs) := c in
  let model := let* r := construct k s e st in contains k r x in
  res_eqb Bool.eqb model obs.
