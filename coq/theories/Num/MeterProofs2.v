From CV Require Import Num.MeterModel Num.MeterProofs Num.BitsModel Num.BitsProofs.
From Coq Require Import ZifyBool.
Ltac Zify.zify_post_hook ::= Z.div_mod_to_equations.

Lemma words_zbit op a b : words (zbit op a b) <= Z.max (words a) (words b) + 1.
Proof.
  pose proof (words_nonneg a). pose proof (words_nonneg b).
  set (w := Z.max (words a) (words b)).
  pose proof (words_ub a). pose proof (words_ub b).
  pose proof (pow64_mono (words a) w ltac:(lia)). pose proof (pow64_mono (words b) w ltac:(lia)).
  assert (R: - 2 ^ (64 * w + 1 - 1) <= zbit op a b < 2 ^ (64 * w + 1 - 1)).
  { apply zbit_srange; [lia| |]; replace (64 * w + 1 - 1) with (64 * w) by lia; lia. }
  replace (64 * w + 1 - 1) with (64 * w) in R by lia.
  apply words_le; [lia|]. rewrite pow64_step by lia.
  pose proof (pow2_pos' (64 * w) ltac:(lia)). change (2 ^ 64) with 18446744073709551616. lia.
Qed.

Lemma zbit_nonneg op a b : 0 <= a -> 0 <= b -> 0 <= zbit op a b.
Proof.
  intros. destruct op; unfold zbit;
  [apply Z.lor_nonneg|apply Z.lxor_nonneg|apply Z.land_nonneg..]; lia.
Qed.

Lemma words_zbit_nonneg op a b : 0 <= a -> 0 <= b -> words (zbit op a b) <= Z.max (words a) (words b).
Proof.
  intros Ha Hb. pose proof (words_nonneg a). pose proof (words_nonneg b).
  set (w := Z.max (words a) (words b)).
  pose proof (words_ub a). pose proof (words_ub b).
  pose proof (pow64_mono (words a) w ltac:(lia)). pose proof (pow64_mono (words b) w ltac:(lia)).
  pose proof (zbit_urange op (64 * w) a b ltac:(lia) ltac:(lia) ltac:(lia)).
  apply words_le; lia.
Qed.

Lemma words_shl a b : 0 <= b -> words (a * 2 ^ b) <= words a + b / 64 + 1.
Proof.
  intros Hb. pose proof (words_nonneg a).
  apply words_le; [lia|]. rewrite Z.abs_mul. rewrite (Z.abs_eq (2 ^ b)) by (pose proof (pow2_pos' b Hb); lia).
  pose proof (words_ub a).
  assert (2 ^ (64 * words a) * 2 ^ b <= 2 ^ (64 * (words a + b / 64 + 1))).
  { rewrite <- Z.pow_add_r by lia. apply Z.pow_le_mono_r; lia. }
  pose proof (pow2_pos' b Hb). nia.
Qed.

Lemma words_shr a b : 0 <= b -> words (a / 2 ^ b) <= words a.
Proof.
  intros Hb. apply words_mono. pose proof (pow2_pos' b Hb). set (Q := 2 ^ b) in *.
  destruct (Z.le_gt_cases 0 a); nia.
Qed.

(* ------------------------------------------------------------------ per-operation theorems *)
Ltac setup a b :=
  pose proof (words_nonneg a); pose proof (words_nonneg b);
  change (2 ^ 24) with 16777216 in *; change (2 ^ 64) with 18446744073709551616 in *.

Lemma metered_ge o a b r :
  0 <= r -> r <= est_words o a b -> est_words o a b < 2 ^ 60 ->
  8 * r <= metered o a b.
Proof.
  intros. unfold metered, word_size. change (2 ^ 60) with 1152921504606846976 in *.
  rewrite Z.mod_small; [lia|]. change (2 ^ 64) with 18446744073709551616. lia.
Qed.

Theorem plus_ok : never_underreports MPlus.
Proof.
  intros a b _ Ha Hb. unfold result_bytes, op_result. setup a b.
  pose proof (words_add a b). pose proof (words_nonneg (a + b)).
  destruct ((words a =? 0) && (words b =? 0)) eqn:E.
  - assert (words a = 0 /\ words b = 0) as [Ea Eb] by lia.
    assert (a = 0) by (destruct (Z.eq_dec a 0); [assumption|pose proof (words_lb a ltac:(assumption)); lia]).
    assert (b = 0) by (destruct (Z.eq_dec b 0); [assumption|pose proof (words_lb b ltac:(assumption)); lia]).
    subst. simpl. unfold metered, est_words. simpl. lia.
  - apply metered_ge; unfold est_words; rewrite ?E; try lia.
Qed.

Theorem minus_ok : never_underreports MMinus.
Proof.
  intros a b _ Ha Hb. unfold result_bytes, op_result. setup a b.
  pose proof (words_sub a b). pose proof (words_nonneg (a - b)).
  apply metered_ge; unfold est_words; lia.
Qed.

Theorem mul_ok : never_underreports MMul.
Proof.
  intros a b _ Ha Hb. unfold result_bytes, op_result. setup a b.
  pose proof (words_mul a b). pose proof (words_nonneg (a * b)).
  apply metered_ge; unfold est_words; try lia;
  destruct (Z.min (words a) (words b) <=? 40); lia.
Qed.

Theorem neg_ok : never_underreports MNeg.
Proof.
  intros a b _ Ha Hb. unfold result_bytes, op_result. setup a b.
  rewrite words_opp. apply metered_ge; unfold est_words; lia.
Qed.

Theorem shl_ok : never_underreports MShl.
Proof.
  intros a b Hd Ha Hb. unfold result_bytes, op_result. simpl in Hd. setup a b.
  change (2 ^ 40) with 1099511627776 in *.
  pose proof (words_shl a b ltac:(lia)). pose proof (words_nonneg (a * 2 ^ b)).
  apply metered_ge; unfold est_words, word_size; try lia;
  destruct (Z.eqb_spec b 0); try lia;
  subst b; change (0 / 64) with 0 in *; lia.
Qed.

Theorem or_xor_and_ok : never_underreports MOr /\ never_underreports MXor /\ never_underreports MAnd.
Proof.
  assert (G: forall (o : mop) (bo : bitop), 
    (forall a b, op_result o a b = zbit bo a b) ->
    (forall a b, words a < 2 ^ 24 -> words b < 2 ^ 24 ->
       (0 <= a -> 0 <= b -> Z.max (words a) (words b) <= est_words o a b) /\
       Z.max (words a) (words b) + 1 <= est_words o a b /\ est_words o a b < 2 ^ 60 \/
       (0 <= a /\ 0 <= b /\ Z.max (words a) (words b) <= est_words o a b /\ est_words o a b < 2 ^ 60)) ->
    never_underreports o).
  { intros o bo R E a b _ Ha Hb. unfold result_bytes. rewrite R.
    pose proof (words_nonneg (zbit bo a b)).
    destruct (E a b Ha Hb) as [[_ [E1 E2]]|[Pa [Pb [E1 E2]]]].
    - pose proof (words_zbit bo a b). apply metered_ge; lia.
    - pose proof (words_zbit_nonneg bo a b Pa Pb). apply metered_ge; lia. }
  repeat split.
  - apply (G MOr BOr); [reflexivity|]. intros a b Ha Hb. setup a b. unfold est_words.
    destruct (Z.geb_spec a 0), (Z.geb_spec b 0), (Z.leb_spec a 0), (Z.leb_spec b 0); cbn [andb];
      try (right; repeat split; lia); left; repeat split; lia.
  - apply (G MXor BXor); [reflexivity|]. intros a b Ha Hb. setup a b. unfold est_words.
    destruct (Z.geb_spec a 0), (Z.geb_spec b 0), (Z.leb_spec a 0), (Z.leb_spec b 0); cbn [andb];
      try (right; repeat split; lia); left; repeat split; lia.
  - apply (G MAnd BAnd); [reflexivity|]. intros a b Ha Hb. setup a b. unfold est_words.
    destruct (Z.geb_spec a 0), (Z.geb_spec b 0), (Z.leb_spec a 0), (Z.leb_spec b 0); cbn [andb];
      try (right; repeat split; lia); left; repeat split; lia.
Qed.
