(* InclusiveRange<T>: construction, iteration and contains (C21), code-shaped over the checked /
   wrapping integer arithmetic of Num/IntModel.v:
     interpreter/value_range.go (construction, InclusiveRangeContains)
     interpreter/inclusive_range_iterator.go (eager iterator: Next computes current + step before returning current) *)
From CV Require Export Num.IntModel.

Record range := { r_start : Z; r_end : Z; r_step : Z }.

(* NewInclusiveRangeValue / NewInclusiveRangeValueWithStep *)
Definition is_unsigned_kind (k : ikind) : bool :=
  match k with KUnsigned _ | KWord _ | KUInt => true | _ => false end.

Definition construct (k : ikind) (s e : Z) (step : option Z) : res range :=
  match step with
  | None =>
      if s >? e then
        if is_unsigned_kind k then Err UserOther
        else let* st := neg_model k 1 in Ok {| r_start := s; r_end := e; r_step := st |}
      else Ok {| r_start := s; r_end := e; r_step := 1 |}
  | Some st =>
      if st =? 0 then Err UserOther
      else if ((s <? e) && (st <? 0)) || ((s >? e) && (st >? 0)) then Err UserOther
      else Ok {| r_start := s; r_end := e; r_step := st |}
  end.

(* iterator *)
Definition validate (step_neg : bool) (e_end elem : Z) : option Z :=
  if step_neg && (elem <? e_end) then None
  else if negb step_neg && (elem >? e_end) then None
  else Some elem.

Fixpoint iter_from (fuel : nat) (k : ikind) (r : range) (cur : option Z) (acc : list Z) : res (list Z) :=
  match cur with
  | None => Ok (rev acc)
  | Some v =>
      match fuel with
      | O => Err OutOfFuel
      | S f =>
          (* Next: the successor is computed eagerly, with the element type's own addition *)
          match checked_model k OAdd v (r_step r) with
          | Err e => Err e
          | Ok nx => iter_from f k r (validate (r_step r <? 0) (r_end r) nx) (v :: acc)
          end
      end
  end.

Definition iterate (fuel : nat) (k : ikind) (r : range) : res (list Z) :=
  iter_from fuel k r (validate (r_step r <? 0) (r_end r) (r_start r)) [].

(* InclusiveRangeContains *)
Definition contains (k : ikind) (r : range) (x : Z) : res bool :=
  if (r_start r =? x) || (r_end r =? x) then Ok true
  else if negb (Bool.eqb (x >? r_start r) (x >? r_end r)) then
    let* diff := checked_model k OSub x (r_start r) in
    let* m := checked_model k ORem diff (r_step r) in
    Ok (m =? 0)
  else Ok false.

(* ------------------------------------------------------------------ specification *)
(* the arithmetic sequence start, start+step, ... not beyond end, as a list *)
Definition seq_count (r : range) : Z := Z.abs (r_end r - r_start r) / Z.abs (r_step r) + 1.
Definition seq_list (r : range) : list Z :=
  map (fun j => r_start r + Z.of_nat j * r_step r) (List.seq 0 (Z.to_nat (seq_count r))).
Definition member (r : range) (x : Z) : Prop :=
  exists j, 0 <= j < seq_count r /\ x = r_start r + j * r_step r.
Definition memberb (r : range) (x : Z) : bool :=
  (if r_step r >? 0 then (r_start r <=? x) && (x <=? r_end r) else (r_end r <=? x) && (x <=? r_start r))
  && ((x - r_start r) mod r_step r =? 0).

(* a well-formed (successfully constructed) range *)
Definition wf_range (k : ikind) (r : range) : Prop :=
  in_range k (r_start r) /\ in_range k (r_end r) /\ in_range k (r_step r) /\ r_step r <> 0 /\
  (r_start r < r_end r -> r_step r > 0) /\ (r_start r > r_end r -> r_step r < 0).
