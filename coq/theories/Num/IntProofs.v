From CV Require Import Num.IntModel Num.WordProofs.
From Coq Require Import ZifyBool.
Ltac Zify.zify_post_hook ::= Z.div_mod_to_equations.

Lemma pow2_split n : 0 < n -> 2 ^ n = 2 * 2 ^ (n - 1).
Proof. intros. replace n with (1 + (n - 1)) at 1 by lia. rewrite Z.pow_add_r by lia. reflexivity. Qed.

Lemma wrap_s_id n z : 0 < n -> - 2 ^ (n - 1) <= z <= 2 ^ (n - 1) - 1 -> wrap_s n z = z.
Proof.
  intros Hn Hz. unfold wrap_s. rewrite (pow2_split n Hn).
  pose proof (pow2_pos (n - 1) ltac:(lia)).
  rewrite mod_small' by lia. lia.
Qed.

Lemma wrap_u_id n z : 0 <= z < 2 ^ n -> wrap_u n z = z.
Proof. intros. unfold wrap_u. apply mod_small'. assumption. Qed.

(* quotient comparisons used by the INT32-C multiplication predicates *)
Lemma gt_div_iff a b q : 0 <= a -> 0 < b -> (q > a / b <-> q * b > a).
Proof. intros. nia. Qed.

Lemma quot_pos_pos a b : 0 <= a -> 0 < b -> Z.quot a b = a / b.
Proof. intros; apply Z.quot_div_nonneg; lia. Qed.
Lemma quot_neg_pos a b : a <= 0 -> 0 < b -> Z.quot a b = - ((- a) / b).
Proof. intros. replace a with (- (- a)) at 1 by lia. rewrite Z.quot_opp_l by lia.
  rewrite quot_pos_pos by lia. reflexivity. Qed.
Lemma quot_pos_neg a b : 0 <= a -> b < 0 -> Z.quot a b = - (a / (- b)).
Proof. intros. replace b with (- (- b)) at 1 by lia. rewrite Z.quot_opp_r by lia.
  rewrite quot_pos_pos by lia. reflexivity. Qed.
Lemma quot_neg_neg a b : a <= 0 -> b < 0 -> Z.quot a b = (- a) / (- b).
Proof. intros. replace a with (- (- a)) at 1 by lia. replace b with (- (- b)) at 1 by lia.
  rewrite Z.quot_opp_opp by lia. apply quot_pos_pos; lia. Qed.

Lemma quot_m1 a : Z.quot a (-1) = - a.
Proof. change (-1) with (- (1)). rewrite Z.quot_opp_r by lia. rewrite Z.quot_1_r. reflexivity. Qed.

Lemma div_le_self a b : 0 <= a -> 0 < b -> 0 <= a / b <= a.
Proof. intros. split. apply Z.div_pos; lia. apply Z.div_le_upper_bound; nia. Qed.

Ltac brk :=
  repeat match goal with
  | |- context [?a >? ?b] => destruct (Z.gtb_spec a b)
  | |- context [?a <? ?b] => destruct (Z.ltb_spec a b)
  | |- context [?a =? ?b] => destruct (Z.eqb_spec a b)
  | |- context [?a <=? ?b] => destruct (Z.leb_spec a b)
  end; cbn [andb negb orb].

Section SignedNative.
  Variable n : Z.
  Hypothesis Hn : 0 < n.
  Let P := 2 ^ (n - 1).
  Lemma Ppos : 0 < 2 ^ (n - 1). Proof. apply pow2_pos; lia. Qed.

  Ltac swid := rewrite ?wrap_s_id by (try assumption; pose proof Ppos; lia).

  Lemma fit_signed z : fit (KSigned n) z =
    if z <? - 2 ^ (n - 1) then Err Underflow else if z >? 2 ^ (n - 1) - 1 then Err Overflow else Ok z.
  Proof. reflexivity. Qed.


  Lemma mul_check_spec v o :
    in_range (KSigned n) v -> in_range (KSigned n) o ->
    sint_native_mul_check n v o =
      if v * o >? 2 ^ (n - 1) - 1 then Some Overflow
      else if v * o <? - 2 ^ (n - 1) then Some Underflow else None.
  Proof.
    intros [Hv0 Hv1] [Ho0 Ho1]; simpl in Hv0, Hv1, Ho0, Ho1.
    pose proof Ppos as HP.
    unfold sint_native_mul_check.
    destruct (Z.gtb_spec v 0) as [Hv|Hv]; destruct (Z.gtb_spec o 0) as [Ho|Ho].
    + rewrite quot_pos_pos by lia.
      pose proof (div_le_self (2 ^ (n - 1) - 1) o ltac:(lia) ltac:(lia)).
      rewrite wrap_s_id by (try assumption; lia).
      pose proof (gt_div_iff (2 ^ (n - 1) - 1) o v ltac:(lia) ltac:(lia)) as G.
      brk; try reflexivity; nia.
    + rewrite quot_neg_pos by lia. rewrite Z.opp_involutive.
      pose proof (div_le_self (2 ^ (n - 1)) v ltac:(lia) ltac:(lia)).
      rewrite wrap_s_id by (try assumption; lia).
      pose proof (gt_div_iff (2 ^ (n - 1)) v (- o) ltac:(lia) ltac:(lia)) as G.
      brk; try reflexivity; nia.
    + rewrite quot_neg_pos by lia. rewrite Z.opp_involutive.
      pose proof (div_le_self (2 ^ (n - 1)) o ltac:(lia) ltac:(lia)).
      rewrite wrap_s_id by (try assumption; lia).
      pose proof (gt_div_iff (2 ^ (n - 1)) o (- v) ltac:(lia) ltac:(lia)) as G.
      brk; try reflexivity; nia.
    + destruct (Z.eqb_spec v 0) as [Hz|Hz]; cbn [negb andb].
      * subst v. rewrite Z.mul_0_l. brk; try lia. reflexivity.
      * rewrite quot_pos_neg by lia.
        pose proof (div_le_self (2 ^ (n - 1) - 1) (- v) ltac:(lia) ltac:(lia)).
        rewrite wrap_s_id by (try assumption; lia).
        pose proof (gt_div_iff (2 ^ (n - 1) - 1) (- v) (- o) ltac:(lia) ltac:(lia)) as G.
        brk; try reflexivity; nia.
  Qed.

  Theorem sint_native_correct op v o :
    in_range (KSigned n) v -> in_range (KSigned n) o ->
    sint_native n op v o = spec_checked (KSigned n) op v o.
  Proof.
    intros [Hv0 Hv1] [Ho0 Ho1]; simpl in Hv0, Hv1, Ho0, Ho1.
    pose proof Ppos as HP.
    unfold spec_checked, exact. rewrite fit_signed.
    destruct op; unfold sint_native.
    - (* add *)
      destruct (Z.gtb_spec o 0) as [Hgt|Hle]; cbn [andb].
      + rewrite (wrap_s_id n (2 ^ (n - 1) - 1 - o)) by (try assumption; lia).
        destruct (Z.ltb_spec o 0); try lia; cbn [andb].
        brk; try lia; swid; try reflexivity; lia.
      + destruct (Z.ltb_spec o 0) as [Hlt|Hge]; cbn [andb].
        * rewrite (wrap_s_id n (- 2 ^ (n - 1) - o)) by (try assumption; lia).
          brk; try lia; swid; try reflexivity; lia.
        * assert (o = 0) by lia; subst o. rewrite Z.add_0_r.
          brk; try lia; swid; try reflexivity; lia.
    - (* sub *)
      destruct (Z.gtb_spec o 0) as [Hgt|Hle]; cbn [andb].
      + rewrite (wrap_s_id n (- 2 ^ (n - 1) + o)) by (try assumption; lia).
        destruct (Z.ltb_spec o 0); try lia; cbn [andb].
        brk; try lia; swid; try reflexivity; lia.
      + destruct (Z.ltb_spec o 0) as [Hlt|Hge]; cbn [andb].
        * rewrite (wrap_s_id n (2 ^ (n - 1) - 1 + o)) by (try assumption; lia).
          brk; try lia; swid; try reflexivity; lia.
        * assert (o = 0) by lia; subst o. rewrite Z.sub_0_r.
          brk; try lia; swid; try reflexivity; lia.
    - (* mul *)
      rewrite mul_check_spec by (split; simpl; assumption).
      brk; try lia; try reflexivity.
      rewrite wrap_s_id by (try assumption; lia). reflexivity.
    - (* div *)
      destruct (Z.eqb_spec o 0) as [Hz|Hz]; [reflexivity|].
      destruct (Z.eqb_spec v (- 2 ^ (n - 1))) as [Hm|Hm]; destruct (Z.eqb_spec o (-1)) as [H1|H1]; cbn [andb].
      + subst v o. rewrite quot_m1. rewrite Z.opp_involutive. brk; try lia. reflexivity.
      + assert (Hq: - 2 ^ (n - 1) <= Z.quot v o <= 2 ^ (n - 1) - 1).
        { subst v. destruct (Z.ltb_spec o 0).
          - rewrite quot_neg_neg by lia. rewrite Z.opp_involutive.
            pose proof (div_le_self (2 ^ (n - 1)) (- o) ltac:(lia) ltac:(lia)).
            assert (2 ^ (n - 1) / - o < 2 ^ (n - 1)) by (apply Z.div_lt_upper_bound; nia). lia.
          - rewrite quot_neg_pos by lia. rewrite Z.opp_involutive.
            pose proof (div_le_self (2 ^ (n - 1)) o ltac:(lia) ltac:(lia)). lia. }
        rewrite wrap_s_id by (try assumption; lia). brk; try lia. reflexivity.
      + assert (Hq: - 2 ^ (n - 1) <= Z.quot v o <= 2 ^ (n - 1) - 1).
        { subst o. rewrite quot_m1. lia. }
        rewrite wrap_s_id by (try assumption; lia). brk; try lia. reflexivity.
      + assert (Hq: - 2 ^ (n - 1) <= Z.quot v o <= 2 ^ (n - 1) - 1).
        { destruct (Z.leb_spec 0 v); destruct (Z.ltb_spec o 0).
          - rewrite quot_pos_neg by lia. pose proof (div_le_self v (- o) ltac:(lia) ltac:(lia)). lia.
          - rewrite quot_pos_pos by lia. pose proof (div_le_self v o ltac:(lia) ltac:(lia)). lia.
          - rewrite quot_neg_neg by lia. pose proof (div_le_self (- v) (- o) ltac:(lia) ltac:(lia)). lia.
          - rewrite quot_neg_pos by lia. pose proof (div_le_self (- v) o ltac:(lia) ltac:(lia)). lia. }
        rewrite wrap_s_id by (try assumption; lia). brk; try lia. reflexivity.
    - (* rem *)
      destruct (Z.eqb_spec o 0) as [Hz|Hz]; [reflexivity|].
      pose proof (Z.rem_bound_abs v o Hz).
      assert (Hq: - 2 ^ (n - 1) <= Z.rem v o <= 2 ^ (n - 1) - 1) by lia.
      rewrite wrap_s_id by (try assumption; lia). brk; try lia. reflexivity.
  Qed.

  Theorem sint_native_neg_correct v :
    in_range (KSigned n) v -> sint_native_neg n v = fit (KSigned n) (- v).
  Proof.
    intros [Hv0 Hv1]; simpl in Hv0, Hv1. pose proof Ppos as HP.
    unfold sint_native_neg. rewrite fit_signed.
    brk; try lia; try reflexivity.
    rewrite wrap_s_id by (try assumption; lia). reflexivity.
  Qed.

  Lemma clamp_signed z : clamp (KSigned n) z = Z.min (2 ^ (n - 1) - 1) (Z.max (- 2 ^ (n - 1)) z).
  Proof. reflexivity. Qed.

  Theorem sint_native_sat_correct op v o :
    op <> ORem -> in_range (KSigned n) v -> in_range (KSigned n) o ->
    sint_native_sat n op v o = spec_sat (KSigned n) op v o.
  Proof.
    intros Hop [Hv0 Hv1] [Ho0 Ho1]; simpl in Hv0, Hv1, Ho0, Ho1.
    pose proof Ppos as HP.
    unfold spec_sat, exact. rewrite clamp_signed.
    destruct op; unfold sint_native_sat; try congruence.
    - destruct (Z.gtb_spec o 0) as [Hgt|Hle]; cbn [andb].
      + rewrite (wrap_s_id n (2 ^ (n - 1) - 1 - o)) by (try assumption; lia).
        destruct (Z.ltb_spec o 0); try lia; cbn [andb].
        brk; f_equal; try lia; rewrite wrap_s_id by (try assumption; lia); lia.
      + destruct (Z.ltb_spec o 0) as [Hlt|Hge]; cbn [andb].
        * rewrite (wrap_s_id n (- 2 ^ (n - 1) - o)) by (try assumption; lia).
          brk; f_equal; try lia; rewrite wrap_s_id by (try assumption; lia); lia.
        * assert (o = 0) by lia; subst o. rewrite Z.add_0_r.
          f_equal. rewrite wrap_s_id by (try assumption; lia). lia.
    - destruct (Z.gtb_spec o 0) as [Hgt|Hle]; cbn [andb].
      + rewrite (wrap_s_id n (- 2 ^ (n - 1) + o)) by (try assumption; lia).
        destruct (Z.ltb_spec o 0); try lia; cbn [andb].
        brk; f_equal; try lia; rewrite wrap_s_id by (try assumption; lia); lia.
      + destruct (Z.ltb_spec o 0) as [Hlt|Hge]; cbn [andb].
        * rewrite (wrap_s_id n (2 ^ (n - 1) - 1 + o)) by (try assumption; lia).
          brk; f_equal; try lia; rewrite wrap_s_id by (try assumption; lia); lia.
        * assert (o = 0) by lia; subst o. rewrite Z.sub_0_r.
          f_equal. rewrite wrap_s_id by (try assumption; lia). lia.
    - rewrite mul_check_spec by (split; simpl; assumption).
      brk; f_equal; try lia; rewrite wrap_s_id by (try assumption; lia); lia.
    - pose proof (sint_native_correct ODiv v o ltac:(split; simpl; assumption) ltac:(split; simpl; assumption)) as D.
      unfold sint_native, spec_checked, exact in D. rewrite fit_signed in D.
      destruct (Z.eqb_spec o 0) as [Hz|Hz]; [reflexivity|].
      destruct (Z.eqb_spec v (- 2 ^ (n - 1))) as [Hm|Hm]; destruct (Z.eqb_spec o (-1)) as [H1|H1]; cbn [andb] in *.
      + subst v o. rewrite quot_m1. rewrite Z.opp_involutive. f_equal. lia.
      + revert D. brk; intro D; try discriminate. inversion D as [D']. rewrite D'. f_equal. lia.
      + revert D. brk; intro D; try discriminate. inversion D as [D']. rewrite D'. f_equal. lia.
      + revert D. brk; intro D; try discriminate. inversion D as [D']. rewrite D'. f_equal. lia.
  Qed.
End SignedNative.

Section UnsignedNative.
  Variable n : Z.
  Hypothesis Hn : 0 < n.
  Lemma Upos : 0 < 2 ^ n. Proof. apply pow2_pos; lia. Qed.

  Lemma fit_unsigned z : fit (KUnsigned n) z =
    if z <? 0 then Err Underflow else if z >? 2 ^ n - 1 then Err Overflow else Ok z.
  Proof. reflexivity. Qed.
  Lemma clamp_unsigned z : clamp (KUnsigned n) z = Z.min (2 ^ n - 1) (Z.max 0 z).
  Proof. reflexivity. Qed.

  Lemma uadd_wrap v o : 0 <= v < 2 ^ n -> 0 <= o < 2 ^ n ->
    (wrap_u n (v + o) <? v) = (v + o >? 2 ^ n - 1) /\
    (v + o <= 2 ^ n - 1 -> wrap_u n (v + o) = v + o).
  Proof.
    intros Hv Ho. unfold wrap_u. destruct (Z.gtb_spec (v + o) (2 ^ n - 1)).
    - rewrite mod_down by lia. split; [|lia]. apply Z.ltb_lt. lia.
    - rewrite mod_small' by lia. split; [|lia]. apply Z.ltb_ge. lia.
  Qed.

  Lemma usub_wrap v o : 0 <= v < 2 ^ n -> 0 <= o < 2 ^ n ->
    (wrap_u n (v - o) >? v) = (v - o <? 0) /\
    (0 <= v - o -> wrap_u n (v - o) = v - o).
  Proof.
    intros Hv Ho. unfold wrap_u. destruct (Z.ltb_spec (v - o) 0).
    - rewrite mod_up by lia. split; [|lia]. apply Z.gtb_lt. lia.
    - rewrite mod_small' by lia. split; [|lia]. rewrite Z.gtb_ltb. apply Z.ltb_ge. lia.
  Qed.

  Lemma umul_check v o : 0 <= v < 2 ^ n -> 0 <= o < 2 ^ n ->
    ((v >? 0) && (o >? 0) && (v >? wrap_u n ((2 ^ n - 1) / o))) = (v * o >? 2 ^ n - 1).
  Proof.
    intros Hv Ho. pose proof Upos.
    destruct (Z.gtb_spec v 0); destruct (Z.gtb_spec o 0); cbn [andb].
    - pose proof (div_le_self (2 ^ n - 1) o ltac:(lia) ltac:(lia)).
      rewrite wrap_u_id by lia.
      pose proof (gt_div_iff (2 ^ n - 1) o v ltac:(lia) ltac:(lia)) as G.
      brk; try reflexivity; nia.
    - symmetry. rewrite Z.gtb_ltb. apply Z.ltb_ge. nia.
    - symmetry. rewrite Z.gtb_ltb. apply Z.ltb_ge. nia.
    - symmetry. rewrite Z.gtb_ltb. apply Z.ltb_ge. nia.
  Qed.

  Theorem uint_native_correct op v o :
    in_range (KUnsigned n) v -> in_range (KUnsigned n) o ->
    uint_native n op v o = spec_checked (KUnsigned n) op v o.
  Proof.
    intros [Hv0 Hv1] [Ho0 Ho1]; simpl in Hv0, Hv1, Ho0, Ho1. pose proof Upos as HU.
    unfold spec_checked, exact. rewrite fit_unsigned.
    destruct op; unfold uint_native; cbv zeta.
    - destruct (uadd_wrap v o ltac:(lia) ltac:(lia)) as [E W]. rewrite E.
      brk; try lia; try reflexivity. rewrite W by lia. reflexivity.
    - destruct (usub_wrap v o ltac:(lia) ltac:(lia)) as [E W]. rewrite E.
      brk; try lia; try reflexivity. rewrite W by lia. reflexivity.
    - rewrite umul_check by lia.
      brk; try nia; try reflexivity. rewrite wrap_u_id by nia. reflexivity.
    - destruct (Z.eqb_spec o 0); [reflexivity|].
      rewrite quot_pos_pos by lia.
      pose proof (div_le_self v o ltac:(lia) ltac:(lia)).
      rewrite wrap_u_id by lia. brk; try lia. reflexivity.
    - destruct (Z.eqb_spec o 0); [reflexivity|].
      rewrite rem_mod_nonneg by lia.
      pose proof (mod_range v o (2 ^ n) ltac:(lia) ltac:(lia)).
      rewrite wrap_u_id by lia. brk; try lia. reflexivity.
  Qed.

  Theorem uint_native_sat_correct op v o :
    (op = OAdd \/ op = OSub \/ op = OMul) ->
    in_range (KUnsigned n) v -> in_range (KUnsigned n) o ->
    uint_native_sat n op v o = spec_sat (KUnsigned n) op v o.
  Proof.
    intros Hop [Hv0 Hv1] [Ho0 Ho1]; simpl in Hv0, Hv1, Ho0, Ho1. pose proof Upos as HU.
    unfold spec_sat, exact. rewrite clamp_unsigned.
    destruct op; unfold uint_native_sat; cbv zeta;
      try (exfalso; destruct Hop as [H|[H|H]]; discriminate).
    - destruct (uadd_wrap v o ltac:(lia) ltac:(lia)) as [E W]. rewrite E.
      brk; f_equal; try lia; rewrite W by lia; lia.
    - destruct (usub_wrap v o ltac:(lia) ltac:(lia)) as [E W]. rewrite E.
      brk; f_equal; try lia; rewrite W by lia; lia.
    - rewrite umul_check by lia.
      brk; f_equal; try nia; rewrite wrap_u_id by nia; nia.
  Qed.
End UnsignedNative.

Section BigProofs.
  Variable n : Z.
  Hypothesis Hn : 0 < n.

  Theorem sint_big_correct op v o :
    in_range (KSigned n) v -> in_range (KSigned n) o ->
    sint_big n op v o = spec_checked (KSigned n) op v o.
  Proof.
    intros Hv Ho.
    destruct op; try reflexivity.
    - (* div: same reasoning as native, through the native theorem's range facts *)
      pose proof (sint_native_correct n Hn ODiv v o Hv Ho) as D.
      destruct Hv as [Hv0 Hv1], Ho as [Ho0 Ho1]; simpl in Hv0, Hv1, Ho0, Ho1.
      pose proof (Ppos n Hn) as HP.
      unfold sint_native, spec_checked, exact in D. unfold sint_big, spec_checked, exact.
      rewrite fit_signed in *.
      destruct (Z.eqb_spec o 0); [reflexivity|].
      destruct ((v =? - 2 ^ (n - 1)) && (o =? -1)) eqn:E.
      + exact D.
      + revert D. brk; intro D; try discriminate; try reflexivity.
    - pose proof (sint_native_correct n Hn ORem v o Hv Ho) as D.
      unfold sint_native, spec_checked, exact in D. unfold sint_big, spec_checked, exact.
      rewrite fit_signed in *.
      destruct (Z.eqb_spec o 0); [reflexivity|].
      revert D. brk; intro D; try discriminate; try reflexivity.
  Qed.

  Theorem sint_big_neg_correct v :
    in_range (KSigned n) v -> sint_big_neg n v = fit (KSigned n) (- v).
  Proof.
    intros [Hv0 Hv1]; simpl in Hv0, Hv1. pose proof (Ppos n Hn).
    unfold sint_big_neg. rewrite fit_signed. brk; try lia; reflexivity.
  Qed.

  Theorem sint_big_sat_correct op v o :
    op <> ORem -> in_range (KSigned n) v -> in_range (KSigned n) o ->
    sint_big_sat n op v o = spec_sat (KSigned n) op v o.
  Proof.
    intros Hop Hv Ho. pose proof (Ppos n Hn) as HP.
    unfold spec_sat, exact. rewrite clamp_signed.
    destruct op; unfold sint_big_sat, sbig_clamp; try congruence.
    - brk; f_equal; lia.
    - brk; f_equal; lia.
    - brk; f_equal; lia.
    - pose proof (sint_native_sat_correct n Hn ODiv v o Hop Hv Ho) as D.
      pose proof (sint_native_correct n Hn ODiv v o Hv Ho) as C.
      unfold sint_native_sat, spec_sat, exact in D. rewrite clamp_signed in D.
      unfold sint_native, spec_checked, exact in C. rewrite fit_signed in C.
      destruct (Z.eqb_spec o 0); [reflexivity|].
      destruct ((v =? - 2 ^ (n - 1)) && (o =? -1)) eqn:E; [exact D|].
      revert C. brk; intro C; try discriminate. inversion C as [C']. f_equal. lia.
  Qed.

  Theorem uint_big_correct op v o :
    in_range (KUnsigned n) v -> in_range (KUnsigned n) o ->
    uint_big n op v o = spec_checked (KUnsigned n) op v o.
  Proof.
    intros [Hv0 Hv1] [Ho0 Ho1]; simpl in Hv0, Hv1, Ho0, Ho1. pose proof (Upos n Hn) as HU.
    unfold spec_checked, exact. rewrite fit_unsigned.
    destruct op; unfold uint_big; cbv zeta.
    - brk; try lia; reflexivity.
    - brk; try lia; reflexivity.
    - brk; try nia; reflexivity.
    - destruct (Z.eqb_spec o 0); [reflexivity|].
      rewrite quot_pos_pos by lia. pose proof (div_le_self v o ltac:(lia) ltac:(lia)).
      brk; try lia. reflexivity.
    - destruct (Z.eqb_spec o 0); [reflexivity|].
      rewrite rem_mod_nonneg by lia.
      pose proof (mod_range v o (2 ^ n) ltac:(lia) ltac:(lia)).
      brk; try lia. reflexivity.
  Qed.

  Theorem uint_big_sat_correct op v o :
    (op = OAdd \/ op = OSub \/ op = OMul) ->
    in_range (KUnsigned n) v -> in_range (KUnsigned n) o ->
    uint_big_sat n op v o = spec_sat (KUnsigned n) op v o.
  Proof.
    intros Hop [Hv0 Hv1] [Ho0 Ho1]; simpl in Hv0, Hv1, Ho0, Ho1. pose proof (Upos n Hn) as HU.
    unfold spec_sat, exact. rewrite clamp_unsigned.
    destruct op; unfold uint_big_sat; cbv zeta;
      try (exfalso; destruct Hop as [H|[H|H]]; discriminate).
    - brk; f_equal; lia.
    - brk; f_equal; lia.
    - brk; f_equal; nia.
  Qed.
End BigProofs.

Theorem int_unb_correct op v o : int_unb op v o = spec_checked KInt op v o.
Proof. destruct op; reflexivity. Qed.

Theorem uint_unb_correct op v o :
  in_range KUInt v -> in_range KUInt o -> uint_unb op v o = spec_checked KUInt op v o.
Proof.
  intros [Hv _] [Ho _]; simpl in Hv, Ho.
  unfold spec_checked, exact, fit; simpl.
  destruct op; unfold uint_unb; cbv zeta.
  - brk; try lia; reflexivity.
  - brk; try lia; reflexivity.
  - brk; try nia; reflexivity.
  - destruct (Z.eqb_spec o 0); [reflexivity|].
    rewrite quot_pos_pos by lia. pose proof (div_le_self v o ltac:(lia) ltac:(lia)).
    brk; try lia. reflexivity.
  - destruct (Z.eqb_spec o 0); [reflexivity|].
    rewrite rem_mod_nonneg by lia. pose proof (Z.mod_pos_bound v o ltac:(lia)).
    brk; try lia. reflexivity.
Qed.

Theorem uint_unb_sat_correct v o :
  in_range KUInt v -> in_range KUInt o -> uint_unb_sat OSub v o = spec_sat KUInt OSub v o.
Proof.
  intros [Hv _] [Ho _]; simpl in Hv, Ho. unfold uint_unb_sat, spec_sat, exact, clamp; simpl.
  brk; f_equal; lia.
Qed.

(* ------------------------------------------------------------------ top-level statements *)
Definition wf_kind (k : ikind) : Prop :=
  match k with KSigned n | KUnsigned n | KWord n => 0 < n | _ => True end.

Definition is_word (k : ikind) : bool := match k with KWord _ => true | _ => false end.

Theorem checked_model_correct k op v o :
  wf_kind k -> is_word k = false -> in_range k v -> in_range k o ->
  checked_model k op v o = spec_checked k op v o.
Proof.
  intros Hk Hw Hv Ho. destruct k; simpl in Hk, Hw; try discriminate; unfold checked_model.
  - destruct (n <=? 64); [apply sint_native_correct|apply sint_big_correct]; assumption.
  - destruct (n <=? 64); [apply uint_native_correct|apply uint_big_correct]; assumption.
  - apply int_unb_correct.
  - apply uint_unb_correct; assumption.
Qed.

Theorem neg_model_correct k v :
  wf_kind k -> (match k with KSigned _ | KInt => True | _ => False end) -> in_range k v ->
  neg_model k v = fit k (- v).
Proof.
  intros Hk Hs Hv. destruct k; simpl in Hk, Hs; try contradiction; unfold neg_model.
  - destruct (n <=? 64); [apply sint_native_neg_correct|apply sint_big_neg_correct]; assumption.
  - reflexivity.
Qed.

Theorem sat_model_correct k op v o :
  wf_kind k -> sat_declared k op = true -> in_range k v -> in_range k o ->
  sat_model k op v o = spec_sat k op v o.
Proof.
  intros Hk Hd Hv Ho. destruct k; simpl in Hk; unfold sat_model.
  - assert (op <> ORem) by (destruct op; simpl in Hd; congruence).
    destruct (n <=? 64); [apply sint_native_sat_correct|apply sint_big_sat_correct]; assumption.
  - assert (op = OAdd \/ op = OSub \/ op = OMul) by (destruct op; simpl in Hd; try discriminate; auto).
    destruct (n <=? 64); [apply uint_native_sat_correct|apply uint_big_sat_correct]; assumption.
  - destruct op; discriminate.
  - destruct op; discriminate.
  - destruct op; try discriminate. apply uint_unb_sat_correct; assumption.
Qed.

(* Consequences of the specification itself: results are in range; never a wrapped value. *)
Theorem spec_checked_sound k op v o z :
  spec_checked k op v o = Ok z ->
  in_range k z /\ z = exact op v o.
Proof.
  unfold spec_checked. intro H.
  assert (F: forall x, fit k x = Ok z -> in_range k z /\ z = x).
  { intros x. unfold fit, in_range.
    destruct (kmin k), (kmax k); brk; intro E; inversion E; subst; repeat split; lia. }
  destruct op; try (apply F; exact H); destruct (o =? 0); try discriminate; apply F; exact H.
Qed.

Theorem spec_checked_errors k op v o e :
  spec_checked k op v o = Err e ->
  (e = DivZero /\ o = 0 /\ (op = ODiv \/ op = ORem)) \/
  (e = Overflow /\ exists M, kmax k = Some M /\ exact op v o > M) \/
  (e = Underflow /\ exists m, kmin k = Some m /\ exact op v o < m).
Proof.
  unfold spec_checked. intro H.
  assert (F: forall x, fit k x = Err e ->
     (e = Overflow /\ exists M, kmax k = Some M /\ x > M) \/
     (e = Underflow /\ exists m, kmin k = Some m /\ x < m)).
  { intros x. unfold fit.
    destruct (kmin k) as [m|], (kmax k) as [M|]; brk; intro E; inversion E; subst;
      try (left; split; [reflexivity|eexists; split; [reflexivity|lia]]);
      try (right; split; [reflexivity|eexists; split; [reflexivity|lia]]). }
  destruct op; try (right; apply F; exact H);
  destruct (Z.eqb_spec o 0); try (right; apply F; exact H);
  inversion H; left; auto.
Qed.

Theorem spec_sat_sound k op v o z :
  wf_kind k -> spec_sat k op v o = Ok z ->
  z = clamp k (exact op v o).
Proof.
  unfold spec_sat. intros _ H. destruct op; try (inversion H; reflexivity);
  destruct (o =? 0); try discriminate; inversion H; reflexivity.
Qed.

Lemma clamp_in_range k z : wf_kind k ->
  (match kmin k, kmax k with Some m, Some M => m <= M | _, _ => True end) ->
  in_range k (clamp k z) /\ (in_range k z -> clamp k z = z).
Proof.
  intros _. unfold clamp, in_range. destruct (kmin k), (kmax k); intros; repeat split; lia.
Qed.
