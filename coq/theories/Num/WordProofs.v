From CV Require Import Num.WordModel.
From Coq Require Import ZifyBool.
Ltac Zify.zify_post_hook ::= Z.div_mod_to_equations.

Lemma pow2_pos n : 0 <= n -> 0 < 2 ^ n.
Proof. intros; apply Z.pow_pos_nonneg; lia. Qed.

Lemma quot_div_nonneg a b : 0 <= a -> 0 < b -> Z.quot a b = a / b.
Proof. intros; apply Z.quot_div_nonneg; lia. Qed.
Lemma rem_mod_nonneg a b : 0 <= a -> 0 < b -> Z.rem a b = a mod b.
Proof. intros; apply Z.rem_mod_nonneg; lia. Qed.

Lemma mod_small' a m : 0 <= a < m -> a mod m = a.
Proof. intros; apply Z.mod_small; lia. Qed.

Lemma mod_down a m : m <= a < 2 * m -> a mod m = a - m.
Proof. intros. symmetry. apply (Z.mod_unique a m 1 (a - m)); lia. Qed.
Lemma mod_up a m : - m <= a < 0 -> a mod m = a + m.
Proof. intros. symmetry. apply (Z.mod_unique a m (-1) (a + m)); lia. Qed.

Lemma div_range a b m : 0 <= a < m -> 0 < b -> 0 <= a / b < m.
Proof.
  intros Ha Hb. split.
  - apply Z.div_pos; lia.
  - apply Z.le_lt_trans with a; [|lia]. apply Z.div_le_upper_bound; nia.
Qed.

Lemma mod_range a b m : 0 <= a < m -> 0 < b -> 0 <= a mod b < m.
Proof.
  intros Ha Hb. pose proof (Z.mod_pos_bound a b Hb).
  pose proof (Z.mod_le a b ltac:(lia) Hb). lia.
Qed.

Theorem word_native_correct n o v w :
  0 < n -> in_range (KWord n) v -> in_range (KWord n) w ->
  word_native n o v w = spec_word n o v w.
Proof.
  intros Hn [Hv0 Hv1] [Hw0 Hw1]; simpl in *.
  pose proof (pow2_pos n ltac:(lia)) as Hp.
  unfold word_native, spec_word, wrap_u, exact.
  destruct o; try reflexivity.
  - destruct (w =? 0) eqn:E; [reflexivity|].
    rewrite quot_div_nonneg by lia. reflexivity.
  - destruct (w =? 0) eqn:E; [reflexivity|].
    rewrite rem_mod_nonneg by lia. reflexivity.
Qed.

Theorem word_big_correct n o v w :
  0 < n -> in_range (KWord n) v -> in_range (KWord n) w ->
  word_big n o v w = spec_word n o v w.
Proof.
  intros Hn [Hv0 Hv1] [Hw0 Hw1]; simpl in *.
  pose proof (pow2_pos n ltac:(lia)) as Hp.
  unfold word_big, spec_word, exact.
  destruct o.
  - f_equal. destruct (v + w >? 2 ^ n - 1) eqn:E.
    + symmetry. apply mod_down. lia.
    + symmetry. apply mod_small'. lia.
  - f_equal. destruct (v - w <? 0) eqn:E.
    + symmetry. apply mod_up. lia.
    + symmetry. apply mod_small'. lia.
  - f_equal. destruct (v * w >? 2 ^ n - 1) eqn:E; [reflexivity|].
    symmetry. apply mod_small'. nia.
  - destruct (w =? 0) eqn:E; [reflexivity|]. f_equal.
    rewrite quot_div_nonneg by lia. symmetry. apply mod_small'. apply div_range; lia.
  - destruct (w =? 0) eqn:E; [reflexivity|]. f_equal.
    rewrite rem_mod_nonneg by lia. symmetry. apply mod_small'. apply mod_range; lia.
Qed.

Theorem word_model_correct n o v w :
  0 < n -> in_range (KWord n) v -> in_range (KWord n) w ->
  word_model n o v w = spec_word n o v w.
Proof.
  intros. unfold word_model. destruct (n <=? 64).
  - apply word_native_correct; assumption.
  - apply word_big_correct; assumption.
Qed.

(* The results of the specification are always in range and never Overflow/Underflow. *)
Theorem spec_word_in_range n o v w z :
  0 < n -> spec_word n o v w = Ok z -> in_range (KWord n) z.
Proof.
  intros Hn H. pose proof (pow2_pos n ltac:(lia)) as Hp.
  assert (forall x, in_range (KWord n) (x mod 2 ^ n)) as R.
  { intro x. pose proof (Z.mod_pos_bound x (2 ^ n) Hp). split; simpl; lia. }
  unfold spec_word in H. destruct o; try (inversion H; subst; apply R);
  destruct (w =? 0); try discriminate; inversion H; subst; apply R.
Qed.

Theorem spec_word_errors n o v w e :
  spec_word n o v w = Err e -> e = DivZero /\ w = 0 /\ (o = ODiv \/ o = ORem).
Proof.
  unfold spec_word. destruct o; try discriminate;
  destruct (w =? 0) eqn:E; try discriminate; intro H; inversion H;
  apply Z.eqb_eq in E; auto.
Qed.
