(* Code-shaped models of Cadence checked and saturating integer arithmetic.
   Families (each transcribed from the Go sources named):
     sint_native  : Int8..Int64    interpreter/value_int{8,16,32,64}.go   (INT32-C predicates on intN)
     uint_native  : UInt8..UInt64  interpreter/value_uint{8,16,32,64}.go  (INT30-C wrap tests on uintN)
     sint_big     : Int128/256     interpreter/value_int{128,256}.go      (math/big, compare with bounds)
     uint_big     : UInt128/256    interpreter/value_uint{128,256}.go
     int_unb      : Int            values/value_int.go
     uint_unb     : UInt           interpreter/value_uint.go
   Go sized arithmetic wraps at the operand width: every +,-,*,/ below is wrapped explicitly. *)
From CV Require Export Num.IntSpec Num.WordModel.

Definition wrap_s (n z : Z) : Z := (z + 2 ^ (n - 1)) mod 2 ^ n - 2 ^ (n - 1).

Section Native.
  Variable n : Z.
  Let M := 2 ^ (n - 1) - 1.        (* math.MaxIntN *)
  Let m := - 2 ^ (n - 1).          (* math.MinIntN *)
  Let U := 2 ^ n - 1.              (* math.MaxUintN *)
  Let sw := wrap_s n.
  Let uw := wrap_u n.

  (* ---- signed, native width ---- *)
  Definition sint_native_mul_check (v o : Z) : option err :=
    if v >? 0 then
      if o >? 0 then
        if v >? sw (Z.quot M o) then Some Overflow else None
      else
        if o <? sw (Z.quot m v) then Some Underflow else None
    else
      if o >? 0 then
        if v <? sw (Z.quot m o) then Some Underflow else None
      else
        if negb (v =? 0) && (o <? sw (Z.quot M v)) then Some Overflow else None.

  Definition sint_native (op : binop) (v o : Z) : res Z :=
    match op with
    | OAdd =>
        if (o >? 0) && (v >? sw (M - o)) then Err Overflow
        else if (o <? 0) && (v <? sw (m - o)) then Err Underflow
        else Ok (sw (v + o))
    | OSub =>
        if (o >? 0) && (v <? sw (m + o)) then Err Underflow
        else if (o <? 0) && (v >? sw (M + o)) then Err Overflow
        else Ok (sw (v - o))
    | OMul =>
        match sint_native_mul_check v o with
        | Some e => Err e
        | None => Ok (sw (v * o))
        end
    | ODiv =>
        if o =? 0 then Err DivZero
        else if (v =? m) && (o =? -1) then Err Overflow
        else Ok (sw (Z.quot v o))
    | ORem =>
        if o =? 0 then Err DivZero else Ok (sw (Z.rem v o))
    end.

  Definition sint_native_neg (v : Z) : res Z :=
    if v =? m then Err Overflow else Ok (sw (- v)).

  Definition sint_native_sat (op : binop) (v o : Z) : res Z :=
    match op with
    | OAdd =>
        if (o >? 0) && (v >? sw (M - o)) then Ok M
        else if (o <? 0) && (v <? sw (m - o)) then Ok m
        else Ok (sw (v + o))
    | OSub =>
        if (o >? 0) && (v <? sw (m + o)) then Ok m
        else if (o <? 0) && (v >? sw (M + o)) then Ok M
        else Ok (sw (v - o))
    | OMul =>
        match sint_native_mul_check v o with
        | Some Overflow => Ok M
        | Some _ => Ok m
        | None => Ok (sw (v * o))
        end
    | ODiv =>
        if o =? 0 then Err DivZero
        else if (v =? m) && (o =? -1) then Ok M
        else Ok (sw (Z.quot v o))
    | ORem => Err Internal   (* no saturating remainder exists *)
    end.

  (* ---- unsigned, native width ---- *)
  Definition uint_native (op : binop) (v o : Z) : res Z :=
    match op with
    | OAdd => let sum := uw (v + o) in
              if sum <? v then Err Overflow else Ok sum
    | OSub => let diff := uw (v - o) in
              if diff >? v then Err Underflow else Ok diff
    | OMul => if (v >? 0) && (o >? 0) && (v >? uw (U / o)) then Err Overflow
              else Ok (uw (v * o))
    | ODiv => if o =? 0 then Err DivZero else Ok (uw (v / o))
    | ORem => if o =? 0 then Err DivZero else Ok (uw (v mod o))
    end.

  Definition uint_native_sat (op : binop) (v o : Z) : res Z :=
    match op with
    | OAdd => let sum := uw (v + o) in
              if sum <? v then Ok U else Ok sum
    | OSub => let diff := uw (v - o) in
              if diff >? v then Ok 0 else Ok diff
    | OMul => if (v >? 0) && (o >? 0) && (v >? uw (U / o)) then Ok U
              else Ok (uw (v * o))
    | ODiv | ORem => Err Internal   (* not declared for unsigned types *)
    end.
End Native.

Section Big.
  Variable n : Z.
  Let M := 2 ^ (n - 1) - 1.        (* sema.IntNTypeMaxIntBig *)
  Let m := - 2 ^ (n - 1).          (* sema.IntNTypeMinIntBig *)
  Let U := 2 ^ n - 1.              (* sema.UIntNTypeMaxIntBig *)

  Definition sbig_fit (r : Z) : res Z :=
    if r <? m then Err Underflow else if r >? M then Err Overflow else Ok r.
  Definition sbig_clamp (r : Z) : res Z :=
    if r <? m then Ok m else if r >? M then Ok M else Ok r.

  Definition sint_big (op : binop) (v o : Z) : res Z :=
    match op with
    | OAdd => sbig_fit (v + o)
    | OSub => sbig_fit (v - o)
    | OMul => sbig_fit (v * o)
    | ODiv => if o =? 0 then Err DivZero
              else if (v =? m) && (o =? -1) then Err Overflow
              else Ok (Z.quot v o)
    | ORem => if o =? 0 then Err DivZero else Ok (Z.rem v o)
    end.
  Definition sint_big_neg (v : Z) : res Z :=
    if v =? m then Err Overflow else Ok (- v).
  Definition sint_big_sat (op : binop) (v o : Z) : res Z :=
    match op with
    | OAdd => sbig_clamp (v + o)
    | OSub => sbig_clamp (v - o)
    | OMul => sbig_clamp (v * o)
    | ODiv => if o =? 0 then Err DivZero
              else if (v =? m) && (o =? -1) then Ok M
              else Ok (Z.quot v o)
    | ORem => Err Internal
    end.

  Definition uint_big (op : binop) (v o : Z) : res Z :=
    match op with
    | OAdd => let sum := v + o in if sum >? U then Err Overflow else Ok sum
    | OSub => let diff := v - o in if diff <? 0 then Err Underflow else Ok diff
    | OMul => let r := v * o in if r >? U then Err Overflow else Ok r
    | ODiv => if o =? 0 then Err DivZero else Ok (Z.quot v o)
    | ORem => if o =? 0 then Err DivZero else Ok (Z.rem v o)
    end.
  Definition uint_big_sat (op : binop) (v o : Z) : res Z :=
    match op with
    | OAdd => let sum := v + o in if sum >? U then Ok U else Ok sum
    | OSub => let diff := v - o in if diff <? 0 then Ok 0 else Ok diff
    | OMul => let r := v * o in if r >? U then Ok U else Ok r
    | ODiv | ORem => Err Internal
    end.
End Big.

(* Int: arbitrary precision, total except division by zero *)
Definition int_unb (op : binop) (v o : Z) : res Z :=
  match op with
  | OAdd => Ok (v + o) | OSub => Ok (v - o) | OMul => Ok (v * o)
  | ODiv => if o =? 0 then Err DivZero else Ok (Z.quot v o)
  | ORem => if o =? 0 then Err DivZero else Ok (Z.rem v o)
  end.
Definition int_unb_neg (v : Z) : res Z := Ok (- v).

(* UInt: arbitrary precision, non-negative *)
Definition uint_unb (op : binop) (v o : Z) : res Z :=
  match op with
  | OAdd => Ok (v + o)
  | OSub => let r := v - o in if r <? 0 then Err Underflow else Ok r
  | OMul => Ok (v * o)
  | ODiv => if o =? 0 then Err DivZero else Ok (Z.quot v o)
  | ORem => if o =? 0 then Err DivZero else Ok (Z.rem v o)
  end.
Definition uint_unb_sat (op : binop) (v o : Z) : res Z :=
  match op with
  | OSub => let r := v - o in if r <? 0 then Ok 0 else Ok r
  | _ => Err Internal     (* UInt declares saturatingSubtract only *)
  end.

(* dispatch on the kind, as the Go type switch does by value type *)
Definition checked_model (k : ikind) : binop -> Z -> Z -> res Z :=
  match k with
  | KSigned n => if n <=? 64 then sint_native n else sint_big n
  | KUnsigned n => if n <=? 64 then uint_native n else uint_big n
  | KWord n => word_model n
  | KInt => int_unb
  | KUInt => uint_unb
  end.

Definition neg_model (k : ikind) (v : Z) : res Z :=
  match k with
  | KSigned n => if n <=? 64 then sint_native_neg n v else sint_big_neg n v
  | KInt => int_unb_neg v
  | _ => Err Internal       (* Negate is unreachable for unsigned kinds *)
  end.

Definition sat_model (k : ikind) : binop -> Z -> Z -> res Z :=
  match k with
  | KSigned n => if n <=? 64 then sint_native_sat n else sint_big_sat n
  | KUnsigned n => if n <=? 64 then uint_native_sat n else uint_big_sat n
  | KUInt => uint_unb_sat
  | _ => fun _ _ _ => Err Internal
  end.

(* which saturating operations sema declares (sema/type.go WithSaturatingFunctions) *)
Definition sat_declared (k : ikind) (op : binop) : bool :=
  match k, op with
  | KSigned _, (OAdd | OSub | OMul | ODiv) => true
  | KUnsigned _, (OAdd | OSub | OMul) => true
  | KUInt, OSub => true
  | _, _ => false
  end.
