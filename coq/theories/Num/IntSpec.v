(* Mathematical specifications of Cadence integer arithmetic (what the properties demand). *)
From CV Require Export Base.Prelude.

(* Integer kinds. [n] is the bit width. *)
Inductive ikind : Type :=
| KSigned (n : Z)      (* Int8 .. Int256 *)
| KUnsigned (n : Z)    (* UInt8 .. UInt256 *)
| KWord (n : Z)        (* Word8 .. Word256 *)
| KInt                 (* Int: arbitrary precision *)
| KUInt.               (* UInt: arbitrary precision, non-negative *)

Definition kmin (k : ikind) : option Z :=
  match k with
  | KSigned n => Some (- 2 ^ (n - 1))
  | KUnsigned _ | KWord _ | KUInt => Some 0
  | KInt => None
  end.
Definition kmax (k : ikind) : option Z :=
  match k with
  | KSigned n => Some (2 ^ (n - 1) - 1)
  | KUnsigned n | KWord n => Some (2 ^ n - 1)
  | KInt | KUInt => None
  end.

Definition in_range (k : ikind) (z : Z) : Prop :=
  (match kmin k with Some m => m <= z | None => True end) /\
  (match kmax k with Some m => z <= m | None => True end).

Definition in_rangeb (k : ikind) (z : Z) : bool :=
  (match kmin k with Some m => m <=? z | None => true end) &&
  (match kmax k with Some m => z <=? m | None => true end).

Lemma in_rangeb_spec k z : in_rangeb k z = true <-> in_range k z.
Proof.
  unfold in_rangeb, in_range. rewrite andb_true_iff.
  destruct (kmin k), (kmax k); rewrite ?Z.leb_le; intuition.
Qed.

(* exact-or-fail: the result of an exact mathematical operation fitted into kind k *)
Definition fit (k : ikind) (z : Z) : res Z :=
  match kmin k with
  | Some m => if z <? m then Err Underflow else
      match kmax k with Some M => if z >? M then Err Overflow else Ok z | None => Ok z end
  | None => match kmax k with Some M => if z >? M then Err Overflow else Ok z | None => Ok z end
  end.

Inductive binop := OAdd | OSub | OMul | ODiv | ORem.

Definition exact (o : binop) (a b : Z) : Z :=
  match o with
  | OAdd => a + b | OSub => a - b | OMul => a * b
  | ODiv => Z.quot a b | ORem => Z.rem a b
  end.

(* C11: checked arithmetic — exact result or the matching error; never a wrapped value *)
Definition spec_checked (k : ikind) (o : binop) (a b : Z) : res Z :=
  match o with
  | ODiv | ORem => if b =? 0 then Err DivZero else fit k (exact o a b)
  | _ => fit k (exact o a b)
  end.

(* C12: word arithmetic — the exact result reduced modulo 2^n; only division by zero fails *)
Definition spec_word (n : Z) (o : binop) (a b : Z) : res Z :=
  match o with
  | ODiv | ORem => if b =? 0 then Err DivZero else Ok (exact o a b mod 2 ^ n)
  | _ => Ok (exact o a b mod 2 ^ n)
  end.

(* C13: saturating arithmetic — exact result clamped to the range; only division by zero fails *)
Definition clamp (k : ikind) (z : Z) : Z :=
  let z1 := match kmin k with Some m => Z.max m z | None => z end in
  match kmax k with Some M => Z.min M z1 | None => z1 end.
Definition spec_sat (k : ikind) (o : binop) (a b : Z) : res Z :=
  match o with
  | ODiv | ORem => if b =? 0 then Err DivZero else Ok (clamp k (exact o a b))
  | _ => Ok (clamp k (exact o a b))
  end.
