(* Code-shaped model of bitwise operations and shifts on Cadence integers (C14).
     native widths: Go operators | ^ & << >> on intN / uintN (shift count of the same type)
     Int128/256, UInt128/256, Word128/256: math/big And/Or/Xor/Lsh/Rsh + toTwosComplement/truncate/fromTwosComplement
     Int / UInt: math/big, shift amount must fit uint64 (else OverflowError) *)
From CV Require Export Num.IntModel.

Inductive bitop := BOr | BXor | BAnd | BShl | BShr.

Definition zbit (op : bitop) (a b : Z) : Z :=
  match op with BOr => Z.lor a b | BXor => Z.lxor a b | _ => Z.land a b end.

(* two's complement at width n *)
Definition to_tc (n z : Z) : Z := z mod 2 ^ n.
Definition from_tc (n u : Z) : Z := if u <? 2 ^ (n - 1) then u else u - 2 ^ n.

Definition two64 : Z := 2 ^ 64.

(* native signed: int8..int64. math/bits semantics of Go: v|o etc. on the two's complement bit
   pattern = Z.lor on the (infinite two's complement) integers; v << o multiplies and wraps;
   v >> o is an arithmetic shift. The shift count is the same signed type and is checked for < 0. *)
Definition sint_native_bits (n : Z) (op : bitop) (v o : Z) : res Z :=
  match op with
  | BOr | BXor | BAnd => Ok (wrap_s n (zbit op v o))
  | BShl => if o <? 0 then Err NegShift else Ok (wrap_s n (Z.shiftl v o))
  | BShr => if o <? 0 then Err NegShift else Ok (wrap_s n (Z.shiftr v o))
  end.

(* native unsigned and native words *)
Definition uint_native_bits (n : Z) (op : bitop) (v o : Z) : res Z :=
  match op with
  | BOr | BXor | BAnd => Ok (wrap_u n (zbit op v o))
  | BShl => Ok (wrap_u n (Z.shiftl v o))
  | BShr => Ok (wrap_u n (Z.shiftr v o))
  end.

(* Int128 / Int256 *)
Definition sint_big_bits (n : Z) (op : bitop) (v o : Z) : res Z :=
  match op with
  | BOr | BXor | BAnd => Ok (zbit op v o)          (* big.Int Or/Xor/And: two's complement semantics *)
  | BShl =>
      if o <? 0 then Err NegShift
      else if negb (o <? two64) || (o >=? n) then Ok 0
      else
        let r := to_tc n v in                       (* toTwosComplement(res, v, n) *)
        let r := Z.shiftl r o in                    (* res.Lsh *)
        let r := r mod 2 ^ n in                     (* truncate to n/64 words *)
        Ok (from_tc n r)                            (* fromTwosComplement at n bits *)
  | BShr =>
      if o <? 0 then Err NegShift
      else if negb (o <? two64) then Ok (if v <? 0 then -1 else 0)
      else Ok (Z.shiftr v o)                        (* big.Int.Rsh: arithmetic shift *)
  end.

(* UInt128 / UInt256 / Word128 / Word256 *)
Definition uint_big_bits (n : Z) (op : bitop) (v o : Z) : res Z :=
  match op with
  | BOr | BXor | BAnd => Ok (zbit op v o)
  | BShl =>
      if o <? 0 then Err NegShift
      else if negb (o <? two64) || (o >=? n) then Ok 0
      else Ok ((Z.shiftl v o) mod 2 ^ n)
  | BShr =>
      if o <? 0 then Err NegShift
      else if negb (o <? two64) then Ok 0
      else Ok (Z.shiftr v o)
  end.

(* Int and UInt *)
Definition unb_bits (op : bitop) (v o : Z) : res Z :=
  match op with
  | BOr | BXor | BAnd => Ok (zbit op v o)
  | BShl => if o <? 0 then Err NegShift else if negb (o <? two64) then Err Overflow else Ok (Z.shiftl v o)
  | BShr => if o <? 0 then Err NegShift else if negb (o <? two64) then Err Overflow else Ok (Z.shiftr v o)
  end.

Definition bits_model (k : ikind) : bitop -> Z -> Z -> res Z :=
  match k with
  | KSigned n => if n <=? 64 then sint_native_bits n else sint_big_bits n
  | KUnsigned n | KWord n => if n <=? 64 then uint_native_bits n else uint_big_bits n
  | KInt | KUInt => unb_bits
  end.

(* ------------------------------------------------------------------ specification (property C14) *)
(* representation of a value of kind k as a bit pattern, and back *)
Definition rep (k : ikind) (z : Z) : Z :=
  match k with KSigned n | KUnsigned n | KWord n => to_tc n z | _ => z end.
Definition unrep (k : ikind) (u : Z) : Z :=
  match k with
  | KSigned n => from_tc n (u mod 2 ^ n)
  | KUnsigned n | KWord n => u mod 2 ^ n
  | _ => u
  end.

Definition spec_bits (k : ikind) (op : bitop) (a b : Z) : res Z :=
  match op with
  | BOr | BXor | BAnd => Ok (unrep k (zbit op (rep k a) (rep k b)))   (* on the two's-complement representation *)
  | BShl => if b <? 0 then Err NegShift else Ok (unrep k (a * 2 ^ b))   (* x * 2^n truncated to the width *)
  | BShr => if b <? 0 then Err NegShift else Ok (a / 2 ^ b)             (* floor (x / 2^n) *)
  end.

(* the unbounded kinds may instead fail with Overflow when the amount does not fit 64 bits *)
Definition bits_allowed (k : ikind) (op : bitop) (a b : Z) (r : res Z) : Prop :=
  r = spec_bits k op a b \/
  ((k = KInt \/ k = KUInt) /\ (op = BShl \/ op = BShr) /\ two64 <= b /\ r = Err Overflow).
