From CV Require Import Num.MeterModel.
From Coq Require Import ZifyBool.
Ltac Zify.zify_post_hook ::= Z.div_mod_to_equations.

Lemma pow2_pos' n : 0 <= n -> 0 < 2 ^ n.
Proof. intros; apply Z.pow_pos_nonneg; lia. Qed.

Lemma bitlen_nonneg z : 0 <= bitlen z.
Proof. unfold bitlen. destruct (z =? 0); [lia|]. pose proof (Z.log2_nonneg (Z.abs z)). lia. Qed.

Lemma bitlen_spec z : z <> 0 -> 2 ^ (bitlen z - 1) <= Z.abs z < 2 ^ bitlen z.
Proof.
  intros Hz. unfold bitlen. destruct (Z.eqb_spec z 0); [contradiction|].
  pose proof (Z.log2_spec (Z.abs z) ltac:(lia)) as [L U].
  replace (Z.log2 (Z.abs z) + 1 - 1) with (Z.log2 (Z.abs z)) by lia.
  replace (Z.log2 (Z.abs z) + 1) with (Z.succ (Z.log2 (Z.abs z))) by lia. lia.
Qed.

Lemma words_nonneg z : 0 <= words z.
Proof. unfold words. pose proof (bitlen_nonneg z). lia. Qed.

Lemma words_0 : words 0 = 0.
Proof. reflexivity. Qed.

Lemma words_ub z : Z.abs z < 2 ^ (64 * words z).
Proof.
  destruct (Z.eq_dec z 0) as [->|Hz]; [simpl; lia|].
  pose proof (bitlen_spec z Hz) as [_ U]. pose proof (bitlen_nonneg z).
  assert (bitlen z <= 64 * words z) by (unfold words; lia).
  assert (2 ^ bitlen z <= 2 ^ (64 * words z)) by (apply Z.pow_le_mono_r; lia). lia.
Qed.

Lemma words_le w z : 0 <= w -> Z.abs z < 2 ^ (64 * w) -> words z <= w.
Proof.
  intros Hw H. destruct (Z.eq_dec z 0) as [->|Hz]; [rewrite words_0; lia|].
  pose proof (bitlen_spec z Hz) as [L _]. pose proof (bitlen_nonneg z).
  assert (bitlen z - 1 < 64 * w).
  { apply (Z.pow_lt_mono_r_iff 2); lia. }
  unfold words. lia.
Qed.

Lemma words_lb z : z <> 0 -> 1 <= words z /\ 2 ^ (64 * (words z - 1)) <= Z.abs z.
Proof.
  intros Hz. pose proof (bitlen_spec z Hz) as [L _]. pose proof (bitlen_nonneg z).
  assert (1 <= bitlen z).
  { unfold bitlen. destruct (Z.eqb_spec z 0); [contradiction|]. pose proof (Z.log2_nonneg (Z.abs z)). lia. }
  assert (64 * (words z - 1) <= bitlen z - 1) by (unfold words; lia).
  split; [unfold words; lia|].
  assert (2 ^ (64 * (words z - 1)) <= 2 ^ (bitlen z - 1)) by (apply Z.pow_le_mono_r; unfold words in *; lia).
  lia.
Qed.

Lemma words_mono a b : Z.abs a <= Z.abs b -> words a <= words b.
Proof. intros. apply words_le; [apply words_nonneg|]. pose proof (words_ub b). lia. Qed.

Lemma pow64_step w : 0 <= w -> 2 ^ (64 * (w + 1)) = 2 ^ 64 * 2 ^ (64 * w).
Proof. intros. replace (64 * (w + 1)) with (64 + 64 * w) by lia. rewrite Z.pow_add_r by lia. reflexivity. Qed.

Lemma pow64_mono w v : 0 <= w <= v -> 2 ^ (64 * w) <= 2 ^ (64 * v).
Proof. intros. apply Z.pow_le_mono_r; lia. Qed.

(* ---- size of results *)
Lemma words_add a b : words (a + b) <= Z.max (words a) (words b) + 1.
Proof.
  pose proof (words_nonneg a). pose proof (words_nonneg b).
  apply words_le; [lia|]. rewrite pow64_step by lia.
  pose proof (words_ub a). pose proof (words_ub b).
  pose proof (pow64_mono (words a) (Z.max (words a) (words b)) ltac:(lia)).
  pose proof (pow64_mono (words b) (Z.max (words a) (words b)) ltac:(lia)).
  pose proof (pow2_pos' (64 * Z.max (words a) (words b)) ltac:(lia)).
  change (2 ^ 64) with 18446744073709551616. lia.
Qed.

Lemma words_opp a : words (- a) = words a.
Proof. unfold words, bitlen. rewrite Z.abs_opp. destruct (Z.eqb_spec a 0), (Z.eqb_spec (- a) 0); try lia; reflexivity. Qed.

Lemma words_sub a b : words (a - b) <= Z.max (words a) (words b) + 1.
Proof. replace (a - b) with (a + - b) by lia. pose proof (words_add a (- b)). rewrite words_opp in *. assumption. Qed.

Lemma words_mul a b : words (a * b) <= words a + words b.
Proof.
  pose proof (words_nonneg a). pose proof (words_nonneg b).
  apply words_le; [lia|]. rewrite Z.abs_mul.
  replace (64 * (words a + words b)) with (64 * words a + 64 * words b) by lia.
  rewrite Z.pow_add_r by lia.
  pose proof (words_ub a). pose proof (words_ub b). nia.
Qed.

Lemma abs_quot_le a b : b <> 0 -> Z.abs (Z.quot a b) <= Z.abs a.
Proof.
  intros Hb. rewrite <- (Z.quot_abs a b) by assumption.
  apply Z.quot_le_upper_bound; [lia|]. nia.
Qed.

Lemma words_quot a b : b <> 0 -> words (Z.quot a b) <= words a.
Proof. intros. apply words_mono. apply abs_quot_le. assumption. Qed.

Lemma words_quot_sub a b : b <> 0 -> words (Z.quot a b) <= Z.max 0 (words a - words b + 1).
Proof.
  intros Hb. pose proof (words_lb b Hb) as [Hb1 Lb]. pose proof (words_nonneg a).
  apply words_le; [lia|].
  rewrite <- (Z.quot_abs a b) by assumption.
  rewrite Z.quot_div_nonneg by lia.
  pose proof (words_ub a) as Ua.
  destruct (Z.leb_spec (words b) (words a)).
  - rewrite Z.max_r by lia.
    apply Z.div_lt_upper_bound; [lia|].
    replace (64 * (words a - words b + 1)) with (64 * words a - 64 * (words b - 1)) by lia.
    assert (2 ^ (64 * words a) = 2 ^ (64 * (words b - 1)) * 2 ^ (64 * words a - 64 * (words b - 1))).
    { rewrite <- Z.pow_add_r by lia. f_equal. lia. }
    pose proof (pow2_pos' (64 * words a - 64 * (words b - 1)) ltac:(lia)). nia.
  - (* |a| < |b| : quotient 0 *)
    assert (Z.abs a < Z.abs b).
    { pose proof (pow64_mono (words a) (words b - 1) ltac:(lia)). lia. }
    rewrite Z.div_small by lia. pose proof (pow2_pos' (64 * Z.max 0 (words a - words b + 1)) ltac:(lia)). lia.
Qed.

Lemma words_rem a b : b <> 0 -> words (Z.rem a b) <= Z.min (words a) (words b).
Proof.
  intros Hb. pose proof (Z.rem_bound_abs a b Hb).
  assert (Z.abs (Z.rem a b) <= Z.abs a).
  { rewrite <- (Z.rem_abs a b) by assumption. apply Z.rem_le; lia. }
  pose proof (words_mono (Z.rem a b) a ltac:(lia)).
  pose proof (words_mono (Z.rem a b) b ltac:(lia)). lia.
Qed.
