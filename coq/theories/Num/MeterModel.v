(* Model of the big-integer memory-metering estimators of common/metering.go (C32).
   |x| = len(x.Bits()) = number of 64-bit words of the magnitude of x.
   Every estimator returns a number of WORDS (Go int); the metered amount is
   uint64(words * BigIntWordSize) with BigIntWordSize = 8 bytes. *)
From CV Require Export Base.Prelude.

Definition bitlen (z : Z) : Z := if z =? 0 then 0 else Z.log2 (Z.abs z) + 1.   (* big.Int.BitLen *)
Definition words (z : Z) : Z := (bitlen z + 63) / 64.                          (* len(z.Bits()) *)

Inductive mop := MPlus | MMinus | MMul | MDiv | MMod | MOr | MXor | MAnd | MShl | MShr | MNeg.

Definition word_size : Z := 8.    (* common.BigIntWordSize: bytes per word *)

(* estimated result length in words, transcribed branch by branch *)
Definition est_words (o : mop) (a b : Z) : Z :=
  let wa := words a in
  let wb := words b in
  match o with
  | MPlus => if (wa =? 0) && (wb =? 0) then 0 else Z.max wa wb + 5
  | MMinus => Z.max wa wb + 4
  | MMul =>
      let mn := Z.min wa wb in
      if mn <=? 40 then wa + wb + 4 else 3 * mn + Z.max (6 * mn) (wa + wb) + 8
  | MDiv | MMod =>
      if (a <? b) || (wb =? 1) then wa + 4
      else if wb <? 100 then wa - wb + 5
      else
        let cost := 8 + 9 * wb + wa / wb + 12 in
        let depth := 2 * bitlen b in
        3 * wb + 4 + cost * depth
  | MOr =>
      if (a >=? 0) && (b >=? 0) then Z.max wa wb + 4
      else if (a <=? 0) && (b <=? 0) then wa + wb + Z.min wa wb + 13
      else 2 * Z.max wa wb + 9
  | MXor =>
      if (a >=? 0) && (b >=? 0) then Z.max wa wb + 4
      else if (a <=? 0) && (b <=? 0) then wa + wb + Z.min wa wb + 12
      else 2 * Z.max wa wb + 9
  | MAnd =>
      if (a >=? 0) && (b >=? 0) then Z.max wa wb + 4
      else if (a <=? 0) && (b <=? 0) then wa + wb + Z.max wa wb + 13
      else 2 * Z.max wa wb + 8
  | MShl =>
      if b =? 0 then wa + 4 else wa + b / word_size + 5      (* NB: bit count divided by 8 *)
  | MShr =>
      if a >=? 0 then
        if b =? 0 then wa + 4 else wa - b / word_size + 4    (* NB: bit count divided by 8 *)
      else wa + 4
  | MNeg => wa + 4
  end.

(* metered amount in bytes: uint64(resultWordLength * BigIntWordSize) *)
Definition metered (o : mop) (a b : Z) : Z := (est_words o a b * word_size) mod 2 ^ 64.

(* the value the operation produces *)
Definition op_result (o : mop) (a b : Z) : Z :=
  match o with
  | MPlus => a + b | MMinus => a - b | MMul => a * b
  | MDiv => Z.quot a b | MMod => Z.rem a b
  | MOr => Z.lor a b | MXor => Z.lxor a b | MAnd => Z.land a b
  | MShl => a * 2 ^ b | MShr => a / 2 ^ b
  | MNeg => - a
  end.

Definition result_bytes (o : mop) (a b : Z) : Z := 8 * words (op_result o a b).

(* operands the operation accepts *)
Definition op_defined (o : mop) (a b : Z) : Prop :=
  match o with
  | MDiv | MMod => b <> 0
  | MShl => 0 <= b < 2 ^ 40      (* the result must fit in memory: at most 2^40 bits are shifted in *)
  | MShr => 0 <= b < 2 ^ 64
  | _ => True
  end.

(* C32, full statement *)
Definition never_underreports (o : mop) : Prop :=
  forall a b, op_defined o a b -> words a < 2 ^ 24 -> words b < 2 ^ 24 ->
    result_bytes o a b <= metered o a b.
