(* Model of the big-integer memory-metering estimators of common/metering.go (C32).
   |x| = len(x.Bits()) = number of 64-bit words of the magnitude of x.
   Every estimator returns a number of WORDS (Go int); the metered amount is
   uint64(words * BigIntWordSize) with BigIntWordSize = 8 bytes. *)
From CV Require Export Base.Prelude.

Definition bitlen (z : Z) : Z := if z =? 0 then 0 else Z.log2 (Z.abs z) + 1.   (* big.Int.BitLen *)
Definition words (z : Z) : Z := (bitlen z + 63) / 64.                          (* len(z.Bits()) *)

Inductive mop := MPlus | MMinus | MMul | MDiv | MMod | MOr | MXor | MAnd | MShl | MShr | MNeg.

Definition word_size : Z := 8.    (* common.BigIntWordSize: bytes per word *)

(* estimated result length in words, transcribed branch by branch *)
Definition est_words (o : mop) (a b : Z) : Z :=
  let wa := words a in
  let wb := words b in
  match o with
  | MPlus => if (wa =? 0) && (wb =? 0) then 0 else Z.max wa wb + 5
  | MMinus => Z.max wa wb + 4
  | MMul =>
      let mn := Z.min wa wb in
      if mn <=? 40 then wa + wb + 4 else 3 * mn + Z.max (6 * mn) (wa + wb) + 8
  | MDiv | MMod =>
      if (a <? b) || (wb =? 1) then wa + 4
      else if wb <? 100 then wa - wb + 5
      else
        let cost := 8 + 9 * wb + wa / wb + 12 in
        let depth := 2 * bitlen b in
        3 * wb + 4 + cost * depth
  | MOr =>
      if (a >=? 0) && (b >=? 0) then Z.max wa wb + 4
      else if (a <=? 0) && (b <=? 0) then wa + wb + Z.min wa wb + 13
      else 2 * Z.max wa wb + 9
  | MXor =>
      if (a >=? 0) && (b >=? 0) then Z.max wa wb + 4
      else if (a <=? 0) && (b <=? 0) then wa + wb + Z.min wa wb + 12
      else 2 * Z.max wa wb + 9
  | MAnd =>
      if (a >=? 0) && (b >=? 0) then Z.max wa wb + 4
      else if (a <=? 0) && (b <=? 0) then wa + wb + Z.max wa wb + 13
      else 2 * Z.max wa wb + 8
  | MShl =>
      if b =? 0 then wa + 4 else wa + b / word_size + 5      (* NB: bit count divided by 8 *)
  | MShr =>
      if a >=? 0 then
        if b =? 0 then wa + 4 else wa - b / word_size + 4    (* NB: bit count divided by 8 *)
      else wa + 4
  | MNeg => wa + 4
  end.

(* metered amount in bytes: uint64(resultWordLength * BigIntWordSize) *)
Definition metered (o : mop) (a b : Z) : Z := (est_words o a b * word_size) mod 2 ^ 64.

(* the value the operation produces *)
Definition op_result (o : mop) (a b : Z) : Z :=
  match o with
  | MPlus => a + b | MMinus => a - b | MMul => a * b
  | MDiv => Z.quot a b | MMod => Z.rem a b
  | MOr => Z.lor a b | MXor => Z.lxor a b | MAnd => Z.land a b
  | MShl => a * 2 ^ b | MShr => a / 2 ^ b
  | MNeg => - a
  end.

Definition result_bytes (o : mop) (a b : Z) : Z := 8 * words (op_result o a b).

(* operands the operation accepts *)
Definition op_defined (o : mop) (a b : Z) : Prop :=
  match o with
  | MDiv | MMod => b <> 0
  | MShl => 0 <= b < 2 ^ 40      (* the result must fit in memory: at most 2^40 bits are shifted in *)
  | MShr => 0 <= b < 2 ^ 64
  | _ => True
  end.

(* C32, full statement *)
Definition never_underreports (o : mop) : Prop :=
  forall a b, op_defined o a b -> words a < 2 ^ 24 -> words b < 2 ^ 24 ->
    result_bytes o a b <= metered o a b.

(* The estimators depend on the operands only through the following summary (word lengths, signs,
   one comparison, the bit length of b and - for shifts - the shift amount). The correspondence run
   passes the summary computed by math/big (len(x.Bits()), x.Sign(), a.Cmp(b), b.BitLen()), because
   Coq cannot parse thousands of multi-thousand-digit literals in reasonable time. *)
Record osumm := { s_wa : Z; s_wb : Z; s_a_ge0 : bool; s_a_le0 : bool; s_b_ge0 : bool; s_b_le0 : bool;
                  s_lt : bool; s_blb : Z; s_b_zero : bool; s_shift : Z }.

Definition summ (a b : Z) : osumm :=
  {| s_wa := words a; s_wb := words b; s_a_ge0 := a >=? 0; s_a_le0 := a <=? 0;
     s_b_ge0 := b >=? 0; s_b_le0 := b <=? 0; s_lt := a <? b; s_blb := bitlen b;
     s_b_zero := b =? 0; s_shift := b |}.

Definition est_words_s (o : mop) (s : osumm) : Z :=
  let wa := s_wa s in
  let wb := s_wb s in
  match o with
  | MPlus => if (wa =? 0) && (wb =? 0) then 0 else Z.max wa wb + 5
  | MMinus => Z.max wa wb + 4
  | MMul =>
      let mn := Z.min wa wb in
      if mn <=? 40 then wa + wb + 4 else 3 * mn + Z.max (6 * mn) (wa + wb) + 8
  | MDiv | MMod =>
      if s_lt s || (wb =? 1) then wa + 4
      else if wb <? 100 then wa - wb + 5
      else
        let cost := 8 + 9 * wb + wa / wb + 12 in
        let depth := 2 * s_blb s in
        3 * wb + 4 + cost * depth
  | MOr =>
      if s_a_ge0 s && s_b_ge0 s then Z.max wa wb + 4
      else if s_a_le0 s && s_b_le0 s then wa + wb + Z.min wa wb + 13
      else 2 * Z.max wa wb + 9
  | MXor =>
      if s_a_ge0 s && s_b_ge0 s then Z.max wa wb + 4
      else if s_a_le0 s && s_b_le0 s then wa + wb + Z.min wa wb + 12
      else 2 * Z.max wa wb + 9
  | MAnd =>
      if s_a_ge0 s && s_b_ge0 s then Z.max wa wb + 4
      else if s_a_le0 s && s_b_le0 s then wa + wb + Z.max wa wb + 13
      else 2 * Z.max wa wb + 8
  | MShl => if s_b_zero s then wa + 4 else wa + s_shift s / word_size + 5
  | MShr =>
      if s_a_ge0 s then
        if s_b_zero s then wa + 4 else wa - s_shift s / word_size + 4
      else wa + 4
  | MNeg => wa + 4
  end.

Definition metered_s (o : mop) (s : osumm) : Z := (est_words_s o s * word_size) mod 2 ^ 64.

Lemma est_words_summ o a b : est_words_s o (summ a b) = est_words o a b.
Proof. destruct o; reflexivity. Qed.

Lemma metered_summ o a b : metered_s o (summ a b) = metered o a b.
Proof. unfold metered_s, metered. rewrite est_words_summ. reflexivity. Qed.
