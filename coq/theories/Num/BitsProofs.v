From CV Require Import Num.BitsModel Num.WordProofs Num.IntProofs.
From Coq Require Import ZifyBool Btauto.
Ltac Zify.zify_post_hook ::= Z.div_mod_to_equations.

(* ---------- arithmetic facts about two's complement *)
Lemma wrap_s_tc n z : 0 < n -> wrap_s n z = from_tc n (z mod 2 ^ n).
Proof.
  intros Hn. unfold wrap_s, from_tc. rewrite (pow2_split n Hn).
  pose proof (pow2_pos (n - 1) ltac:(lia)) as HP.
  set (P := 2 ^ (n - 1)) in *.
  rewrite <- (Z.add_mod_idemp_l z P (2 * P)) by lia.
  pose proof (Z.mod_pos_bound z (2 * P) ltac:(lia)) as Hr.
  set (r := z mod (2 * P)) in *.
  destruct (Z.ltb_spec r P).
  - rewrite mod_small' by lia. lia.
  - rewrite mod_down by lia. lia.
Qed.

Lemma from_tc_id n z : 0 < n -> - 2 ^ (n - 1) <= z < 2 ^ (n - 1) -> from_tc n (z mod 2 ^ n) = z.
Proof.
  intros Hn Hz. rewrite <- wrap_s_tc by assumption. apply wrap_s_id; [assumption|lia].
Qed.

(* ---------- bitwise operations commute with reduction modulo 2^n *)
Lemma mod_pow2_land n x : 0 <= n -> x mod 2 ^ n = Z.land x (Z.ones n).
Proof. intros. symmetry. apply Z.land_ones. assumption. Qed.

Lemma zbit_mod op a b n : 0 <= n ->
  (zbit op a b) mod 2 ^ n = zbit op (a mod 2 ^ n) (b mod 2 ^ n).
Proof.
  intros Hn. rewrite !mod_pow2_land by assumption.
  apply Z.bits_inj'. intros i Hi.
  destruct op; unfold zbit;
    rewrite ?Z.land_spec, ?Z.lor_spec, ?Z.lxor_spec, ?Z.land_spec;
    destruct (Z.testbit a i), (Z.testbit b i), (Z.testbit (Z.ones n) i); reflexivity.
Qed.

Lemma zbit_mod_idem op a b n : 0 <= n ->
  (zbit op (a mod 2 ^ n) (b mod 2 ^ n)) mod 2 ^ n = zbit op (a mod 2 ^ n) (b mod 2 ^ n).
Proof.
  intros Hn. rewrite zbit_mod by assumption.
  pose proof (pow2_pos n Hn).
  rewrite !Z.mod_mod by lia. reflexivity.
Qed.

(* ---------- ranges via shifts *)
Lemma srange_shiftr n x : 0 < n ->
  (- 2 ^ (n - 1) <= x < 2 ^ (n - 1)) <-> (Z.shiftr x (n - 1) = 0 \/ Z.shiftr x (n - 1) = -1).
Proof.
  intros Hn. rewrite Z.shiftr_div_pow2 by lia.
  pose proof (pow2_pos (n - 1) ltac:(lia)) as HP.
  set (P := 2 ^ (n - 1)) in *. split; intro H; nia.
Qed.

Lemma urange_shiftr n x : 0 <= n -> (0 <= x < 2 ^ n) <-> Z.shiftr x n = 0.
Proof.
  intros Hn. rewrite Z.shiftr_div_pow2 by lia.
  pose proof (pow2_pos n Hn) as HP. set (P := 2 ^ n) in *. split; intro H; nia.
Qed.

Lemma zbit_shiftr op a b k : 0 <= k -> Z.shiftr (zbit op a b) k = zbit op (Z.shiftr a k) (Z.shiftr b k).
Proof. intros. destruct op; unfold zbit; [apply Z.shiftr_lor|apply Z.shiftr_lxor|apply Z.shiftr_land..]. Qed.

Lemma zbit_srange op n a b : 0 < n ->
  - 2 ^ (n - 1) <= a < 2 ^ (n - 1) -> - 2 ^ (n - 1) <= b < 2 ^ (n - 1) ->
  - 2 ^ (n - 1) <= zbit op a b < 2 ^ (n - 1).
Proof.
  intros Hn Ha Hb. apply (srange_shiftr n _ Hn). rewrite zbit_shiftr by lia.
  apply (srange_shiftr n _ Hn) in Ha. apply (srange_shiftr n _ Hn) in Hb.
  destruct Ha as [-> | ->], Hb as [-> | ->]; destruct op; simpl; auto.
Qed.

Lemma zbit_urange op n a b : 0 <= n ->
  0 <= a < 2 ^ n -> 0 <= b < 2 ^ n -> 0 <= zbit op a b < 2 ^ n.
Proof.
  intros Hn Ha Hb. apply (urange_shiftr n _ Hn). rewrite zbit_shiftr by lia.
  apply (urange_shiftr n _ Hn) in Ha. apply (urange_shiftr n _ Hn) in Hb.
  rewrite Ha, Hb. destruct op; reflexivity.
Qed.

Lemma div_pow2_srange n v o : 0 < n -> 0 <= o ->
  - 2 ^ (n - 1) <= v < 2 ^ (n - 1) -> - 2 ^ (n - 1) <= v / 2 ^ o < 2 ^ (n - 1).
Proof.
  intros Hn Ho Hv. pose proof (pow2_pos o Ho) as HQ. pose proof (pow2_pos (n - 1) ltac:(lia)) as HP.
  set (P := 2 ^ (n - 1)) in *. set (Q := 2 ^ o) in *. nia.
Qed.

Lemma div_pow2_urange n v o : 0 <= o -> 0 <= v < 2 ^ n -> 0 <= v / 2 ^ o < 2 ^ n.
Proof.
  intros Ho Hv. pose proof (pow2_pos o Ho) as HQ. set (Q := 2 ^ o) in *. set (N := 2 ^ n) in *. nia.
Qed.

Lemma mul_pow2_mod_zero v o n : 0 <= n <= o -> (v * 2 ^ o) mod 2 ^ n = 0.
Proof.
  intros H. replace o with ((o - n) + n) by lia. rewrite Z.pow_add_r by lia.
  rewrite Z.mul_assoc. apply Z.mod_mul. pose proof (pow2_pos n ltac:(lia)). lia.
Qed.

Lemma div_big_pow2 v o n : 0 < n -> n - 1 <= o -> - 2 ^ (n - 1) <= v < 2 ^ (n - 1) ->
  v / 2 ^ o = if v <? 0 then -1 else 0.
Proof.
  intros Hn Ho Hv. pose proof (pow2_pos (n - 1) ltac:(lia)) as HP.
  assert (2 ^ (n - 1) <= 2 ^ o) by (apply Z.pow_le_mono_r; lia).
  set (P := 2 ^ (n - 1)) in *. set (Q := 2 ^ o) in *.
  destruct (Z.ltb_spec v 0); nia.
Qed.

(* ---------- the families *)
Section Fam.
  Variable n : Z.
  Hypothesis Hn : 0 < n.

  Lemma srange_of v : in_range (KSigned n) v -> - 2 ^ (n - 1) <= v < 2 ^ (n - 1).
  Proof. intros [H0 H1]; simpl in *. lia. Qed.
  Lemma urange_of v : in_range (KUnsigned n) v -> 0 <= v < 2 ^ n.
  Proof. intros [H0 H1]; simpl in *. lia. Qed.

  Theorem sint_native_bits_correct op v o :
    in_range (KSigned n) v -> in_range (KSigned n) o ->
    sint_native_bits n op v o = spec_bits (KSigned n) op v o.
  Proof.
    intros Hv Ho. apply srange_of in Hv. apply srange_of in Ho.
    unfold sint_native_bits, spec_bits, unrep, rep, to_tc.
    destruct op.
    1-3: rewrite wrap_s_tc by assumption; rewrite zbit_mod by lia; rewrite zbit_mod_idem by lia; reflexivity.
    - destruct (Z.ltb_spec o 0); [reflexivity|].
      rewrite wrap_s_tc by assumption. rewrite Z.shiftl_mul_pow2 by lia. reflexivity.
    - destruct (Z.ltb_spec o 0); [reflexivity|].
      rewrite Z.shiftr_div_pow2 by lia.
      rewrite wrap_s_id; [reflexivity|assumption|].
      pose proof (div_pow2_srange n v o Hn ltac:(lia) Hv). lia.
  Qed.

  Theorem uint_native_bits_correct op v o :
    in_range (KUnsigned n) v -> in_range (KUnsigned n) o ->
    uint_native_bits n op v o = spec_bits (KUnsigned n) op v o.
  Proof.
    intros Hv Ho. apply urange_of in Hv. apply urange_of in Ho.
    unfold uint_native_bits, spec_bits, unrep, rep, to_tc, wrap_u.
    destruct op.
    1-3: rewrite zbit_mod by lia; rewrite zbit_mod_idem by lia; reflexivity.
    - destruct (Z.ltb_spec o 0); [lia|]. rewrite Z.shiftl_mul_pow2 by lia. reflexivity.
    - destruct (Z.ltb_spec o 0); [lia|]. rewrite Z.shiftr_div_pow2 by lia.
      rewrite mod_small'; [reflexivity|]. apply div_pow2_urange; lia.
  Qed.

  Hypothesis Hn64 : n <= two64.

  Theorem sint_big_bits_correct op v o :
    in_range (KSigned n) v -> in_range (KSigned n) o ->
    sint_big_bits n op v o = spec_bits (KSigned n) op v o.
  Proof.
    intros Hv Ho. apply srange_of in Hv. apply srange_of in Ho.
    unfold sint_big_bits, spec_bits, unrep, rep, to_tc.
    destruct op.
    1-3: rewrite zbit_mod_idem by lia; rewrite <- zbit_mod by lia;
         rewrite from_tc_id; [reflexivity|assumption|]; apply zbit_srange; assumption.
    - destruct (Z.ltb_spec o 0); [reflexivity|].
      destruct (negb (o <? two64) || (o >=? n)) eqn:E.
      + assert (n <= o) by (unfold two64 in *; lia).
        rewrite mul_pow2_mod_zero by lia. unfold from_tc.
        pose proof (pow2_pos (n - 1) ltac:(lia)). destruct (Z.ltb_spec 0 (2 ^ (n - 1))); [reflexivity|lia].
      + cbv zeta. rewrite Z.shiftl_mul_pow2 by lia.
        pose proof (pow2_pos n ltac:(lia)).
        rewrite Z.mul_mod_idemp_l by lia. reflexivity.
    - destruct (Z.ltb_spec o 0); [reflexivity|].
      destruct (Z.ltb_spec o two64); cbn [negb].
      + rewrite Z.shiftr_div_pow2 by lia. reflexivity.
      + f_equal. symmetry. apply (div_big_pow2 v o n); try assumption. unfold two64 in *; lia.
  Qed.

  Theorem uint_big_bits_correct op v o :
    in_range (KUnsigned n) v -> in_range (KUnsigned n) o ->
    uint_big_bits n op v o = spec_bits (KUnsigned n) op v o.
  Proof.
    intros Hv Ho. apply urange_of in Hv. apply urange_of in Ho.
    unfold uint_big_bits, spec_bits, unrep, rep, to_tc.
    destruct op.
    1-3: rewrite zbit_mod_idem by lia; rewrite <- zbit_mod by lia;
         rewrite mod_small'; [reflexivity|]; apply zbit_urange; lia.
    - destruct (Z.ltb_spec o 0); [reflexivity|].
      destruct (negb (o <? two64) || (o >=? n)) eqn:E.
      + assert (n <= o) by (unfold two64 in *; lia).
        rewrite mul_pow2_mod_zero by lia. reflexivity.
      + rewrite Z.shiftl_mul_pow2 by lia. reflexivity.
    - destruct (Z.ltb_spec o 0); [reflexivity|].
      destruct (Z.ltb_spec o two64); cbn [negb].
      + rewrite Z.shiftr_div_pow2 by lia. reflexivity.
      + f_equal. symmetry. apply Z.div_small.
        assert (2 ^ n <= 2 ^ o) by (apply Z.pow_le_mono_r; unfold two64 in *; lia). lia.
  Qed.
End Fam.

Theorem unb_bits_allowed k op v o :
  (k = KInt \/ k = KUInt) -> bits_allowed k op v o (unb_bits op v o).
Proof.
  intros Hk. unfold bits_allowed, unb_bits, spec_bits.
  assert (R: forall z, unrep k z = z /\ rep k z = z) by (destruct Hk; subst; auto).
  destruct op.
  1-3: left; rewrite !(proj2 (R _)), (proj1 (R _)); reflexivity.
  - destruct (Z.ltb_spec o 0); [left; reflexivity|].
    destruct (Z.ltb_spec o two64); cbn [negb].
    + left. rewrite Z.shiftl_mul_pow2 by lia. rewrite (proj1 (R _)). reflexivity.
    + right. repeat split; auto; lia.
  - destruct (Z.ltb_spec o 0); [left; reflexivity|].
    destruct (Z.ltb_spec o two64); cbn [negb].
    + left. rewrite Z.shiftr_div_pow2 by lia. reflexivity.
    + right. repeat split; auto; lia.
Qed.

(* word kinds share the unsigned families; their specification is the unsigned one *)
Lemma spec_bits_word n op v o : spec_bits (KWord n) op v o = spec_bits (KUnsigned n) op v o.
Proof. reflexivity. Qed.

Definition wf_bits_kind (k : ikind) : Prop :=
  match k with KSigned n | KUnsigned n | KWord n => 0 < n <= two64 | _ => True end.

Theorem bits_model_allowed k op v o :
  wf_bits_kind k -> in_range k v -> in_range k o ->
  bits_allowed k op v o (bits_model k op v o).
Proof.
  intros Hk Hv Ho. destruct k; simpl in Hk; unfold bits_model.
  - left. destruct (n <=? 64); [apply sint_native_bits_correct|apply sint_big_bits_correct]; try assumption; lia.
  - left. destruct (n <=? 64); [apply uint_native_bits_correct|apply uint_big_bits_correct]; try assumption; lia.
  - left. rewrite spec_bits_word.
    destruct (n <=? 64); [apply uint_native_bits_correct|apply uint_big_bits_correct]; try assumption; lia.
  - apply unb_bits_allowed; auto.
  - apply unb_bits_allowed; auto.
Qed.

(* for the bounded kinds the result is exactly the specification *)
Theorem bits_model_bounded_exact k op v o :
  wf_bits_kind k -> (k <> KInt /\ k <> KUInt) -> in_range k v -> in_range k o ->
  bits_model k op v o = spec_bits k op v o.
Proof.
  intros Hk [H1 H2] Hv Ho.
  destruct (bits_model_allowed k op v o Hk Hv Ho) as [E|[[E|E] _]]; [exact E|congruence|congruence].
Qed.

(* results of the specification are values of the type (bounded kinds) *)
Theorem spec_bits_shr_floor k a b z :
  spec_bits k BShr a b = Ok z -> 0 <= b /\ z = a / 2 ^ b.
Proof. unfold spec_bits. destruct (Z.ltb_spec b 0) as [Hb|Hb]; intro E; inversion E; split; auto; lia. Qed.
