(* C17 proofs about the model in C17/Model.v. *)
From CV Require Export C17.Model.
From Coq Require Import Lia ZArith List Bool.
Import ListNotations.
Open Scope Z_scope.

(* ================================================================== digits *)
Definition digits_ok (b : Z) (ds : list Z) : Prop := Forall (fun d => 0 <= d < b) ds.

Lemma val_from_app b a l1 l2 :
  val_from b a (l1 ++ l2) = val_from b (val_from b a l1) l2.
Proof. unfold val_from. apply fold_left_app. Qed.

Lemma val_from_cons b a d l : val_from b a (d :: l) = val_from b (a * b + d) l.
Proof. reflexivity. Qed.

Lemma val_from_lin b l : forall a, val_from b a l = a * b ^ Z.of_nat (length l) + val b l.
Proof.
  unfold val. induction l as [|d l IH]; intro a.
  - simpl. lia.
  - rewrite !val_from_cons. rewrite IH. rewrite (IH (0 * b + d)).
    replace (Z.of_nat (length (d :: l))) with (Z.succ (Z.of_nat (length l))) by (simpl length; lia).
    rewrite Z.pow_succ_r by lia. ring.
Qed.

Lemma val_app b l1 l2 : val b (l1 ++ l2) = val b l1 * b ^ Z.of_nat (length l2) + val b l2.
Proof. unfold val at 1. rewrite val_from_app. rewrite val_from_lin. reflexivity. Qed.

Lemma fda_spec b : 0 < b -> forall k n acc a,
  val_from b a (fixed_digits_acc b k n acc)
  = val_from b (a * b ^ Z.of_nat k + n mod b ^ Z.of_nat k) acc.
Proof.
  intros Hb. induction k as [|k IH]; intros n acc a.
  - simpl. rewrite Z.mod_1_r. f_equal. lia.
  - simpl fixed_digits_acc. rewrite IH. rewrite val_from_cons. f_equal.
    replace (Z.of_nat (S k)) with (Z.succ (Z.of_nat k)) by lia.
    rewrite Z.pow_succ_r by lia.
    assert (Hp : 0 < b ^ Z.of_nat k) by (apply Z.pow_pos_nonneg; lia).
    rewrite (Z.rem_mul_r n b (b ^ Z.of_nat k)) by lia. ring.
Qed.

Lemma fda_app b : forall k n acc, fixed_digits_acc b k n acc = fixed_digits b k n ++ acc.
Proof.
  unfold fixed_digits. induction k as [|k IH]; intros n acc; simpl.
  - reflexivity.
  - rewrite IH. rewrite (IH (n / b) [n mod b]). rewrite <- app_assoc. reflexivity.
Qed.

Lemma fixed_digits_S b k n : fixed_digits b (S k) n = fixed_digits b k (n / b) ++ [n mod b].
Proof. unfold fixed_digits at 1. simpl. apply fda_app. Qed.

Lemma fixed_digits_length b : forall k n, length (fixed_digits b k n) = k.
Proof.
  induction k as [|k IH]; intro n.
  - reflexivity.
  - rewrite fixed_digits_S, app_length, IH. simpl. lia.
Qed.

Lemma fixed_digits_ok b : 0 < b -> forall k n, digits_ok b (fixed_digits b k n).
Proof.
  intro Hb. unfold digits_ok. induction k as [|k IH]; intro n.
  - constructor.
  - rewrite fixed_digits_S. apply Forall_app. split; [apply IH|].
    constructor; [apply Z.mod_pos_bound; lia | constructor].
Qed.

Lemma fixed_digits_val b k n : 0 < b -> val b (fixed_digits b k n) = n mod b ^ Z.of_nat k.
Proof.
  intro Hb. unfold val, fixed_digits. rewrite fda_spec by assumption. simpl. lia.
Qed.

Lemma fixed_digits_val_small b k n :
  0 < b -> 0 <= n < b ^ Z.of_nat k -> val b (fixed_digits b k n) = n.
Proof. intros Hb Hn. rewrite fixed_digits_val by assumption. apply Z.mod_small. assumption. Qed.

Lemma val_bound b l : 0 < b -> digits_ok b l -> 0 <= val b l < b ^ Z.of_nat (length l).
Proof.
  intros Hb H. induction H as [|d l Hd Hl IH].
  - unfold val. simpl. lia.
  - unfold val. rewrite val_from_cons. rewrite val_from_lin.
    replace (Z.of_nat (length (d :: l))) with (Z.succ (Z.of_nat (length l))) by (simpl length; lia).
    rewrite Z.pow_succ_r by lia.
    assert (0 < b ^ Z.of_nat (length l)) by (apply Z.pow_pos_nonneg; lia).
    nia.
Qed.

(* leading zeros *)
Lemma repeat_shift (x : Z) j acc : repeat x j ++ x :: acc = x :: repeat x j ++ acc.
Proof. induction j; simpl; [reflexivity|]. rewrite IHj. reflexivity. Qed.

Lemma fda_zero b : forall j acc, fixed_digits_acc b j 0 acc = repeat 0 j ++ acc.
Proof.
  induction j as [|j IH]; intro acc; simpl.
  - reflexivity.
  - rewrite Zdiv_0_l, Zmod_0_l. rewrite IH. apply repeat_shift.
Qed.

Lemma fda_split b : 0 < b -> forall k j n acc,
  fixed_digits_acc b (k + j) n acc
  = fixed_digits_acc b j (n / b ^ Z.of_nat k) (fixed_digits_acc b k n acc).
Proof.
  intro Hb. induction k as [|k IH]; intros j n acc.
  - simpl. rewrite Z.div_1_r. reflexivity.
  - simpl plus. simpl fixed_digits_acc. rewrite IH.
    replace (n / b / b ^ Z.of_nat k) with (n / b ^ Z.of_nat (S k)); [reflexivity|].
    rewrite Nat2Z.inj_succ, Z.pow_succ_r by lia.
    rewrite Z.div_div; try lia; try (apply Z.pow_pos_nonneg; lia).
Qed.

Lemma fixed_digits_lead0 b k j n :
  0 < b -> 0 <= n < b ^ Z.of_nat k ->
  fixed_digits b (k + j) n = repeat 0 j ++ fixed_digits b k n.
Proof.
  intros Hb Hn. unfold fixed_digits. rewrite fda_split by assumption.
  rewrite Z.div_small by assumption. apply fda_zero.
Qed.

Lemma strip0_repeat j l : strip0 (repeat 0 j ++ l) = strip0 l.
Proof. induction j; simpl; auto. Qed.

Lemma strip0_length l : (length (strip0 l) <= length l)%nat.
Proof.
  induction l as [|d l IH]; simpl; [lia|].
  destruct d; simpl; lia.
Qed.

Lemma strip0_val b l : val b (strip0 l) = val b l.
Proof.
  induction l as [|d l IH]; simpl; [reflexivity|].
  destruct d; try reflexivity.
  rewrite IH. unfold val. rewrite val_from_cons. f_equal.
Qed.

Lemma strip0_ok b l : digits_ok b l -> digits_ok b (strip0 l).
Proof.
  unfold digits_ok. induction 1 as [|d l Hd Hl IH]; simpl; [constructor|].
  destruct d; try (constructor; assumption). assumption.
Qed.

(* ================================================================== decimal printing / parsing *)
Lemma dec_bound n : 0 <= n -> n < 10 ^ Z.of_nat (Z.to_nat (Z.log2 n / 3 + 1)).
Proof.
  intro Hn.
  assert (Hl : 0 <= Z.log2 n) by apply Z.log2_nonneg.
  assert (Hq : 0 <= Z.log2 n / 3) by (apply Z.div_pos; lia).
  rewrite Z2Nat.id by lia.
  set (K := Z.log2 n / 3 + 1).
  assert (HK : Z.log2 n + 1 <= 3 * K).
  { unfold K. pose proof (Z.mod_pos_bound (Z.log2 n) 3 ltac:(lia)).
    pose proof (Z.div_mod (Z.log2 n) 3 ltac:(lia)). lia. }
  assert (H2 : n < 2 ^ (Z.log2 n + 1)).
  { destruct (Z.eq_dec n 0) as [->|]; [simpl; lia|].
    pose proof (Z.log2_spec n ltac:(lia)). replace (Z.log2 n + 1) with (Z.succ (Z.log2 n)) by lia. lia. }
  assert (H3 : 2 ^ (Z.log2 n + 1) <= 2 ^ (3 * K)) by (apply Z.pow_le_mono_r; lia).
  assert (H4 : 2 ^ (3 * K) = 8 ^ K) by (rewrite Z.pow_mul_r by (unfold K; lia); reflexivity).
  assert (H5 : 8 ^ K <= 10 ^ K) by (apply Z.pow_le_mono_l; unfold K; lia).
  lia.
Qed.

Lemma dec_digits_ok n : digits_ok 10 (dec_digits n).
Proof.
  unfold dec_digits.
  pose proof (strip0_ok 10 _ (fixed_digits_ok 10 ltac:(lia) (Z.to_nat (Z.log2 n / 3 + 1)) n)) as H.
  destruct (strip0 _); [constructor; [lia|constructor] | exact H].
Qed.

Lemma dec_digits_val n : 0 <= n -> val 10 (dec_digits n) = n.
Proof.
  intro Hn. unfold dec_digits.
  pose proof (strip0_val 10 (fixed_digits 10 (Z.to_nat (Z.log2 n / 3 + 1)) n)) as H.
  pose proof (dec_bound n Hn) as Hb.
  rewrite fixed_digits_val_small in H by lia.
  destruct (strip0 _) eqn:E; [|exact H].
  unfold val, val_from, val_step in *. simpl in *. lia.
Qed.

Lemma dec_digits_nonempty n : dec_digits n <> [].
Proof. unfold dec_digits. destruct (strip0 _); discriminate. Qed.

Lemma dec_digits_length n k :
  0 <= n < 10 ^ Z.of_nat k -> (1 <= k)%nat -> (length (dec_digits n) <= k)%nat.
Proof.
  intros Hn Hk. unfold dec_digits.
  set (K := Z.to_nat (Z.log2 n / 3 + 1)).
  assert (Hlen : (length (strip0 (fixed_digits 10 K n)) <= k)%nat).
  { destruct (le_lt_dec k K) as [Hle|Hlt].
    - replace K with (k + (K - k))%nat by lia.
      rewrite fixed_digits_lead0 by (try lia; assumption).
      rewrite strip0_repeat.
      pose proof (strip0_length (fixed_digits 10 k n)). rewrite fixed_digits_length in H. exact H.
    - pose proof (strip0_length (fixed_digits 10 K n)). rewrite fixed_digits_length in H. lia. }
  destruct (strip0 _); simpl in *; lia.
Qed.

Lemma parse_digits_cons c r acc :
  parse_digits (c :: r) acc = if is_digit c then parse_digits r (acc * 10 + (c - 48)) else None.
Proof. reflexivity. Qed.

Lemma is_digit_48 d : 0 <= d < 10 -> is_digit (48 + d) = true.
Proof. intro H. unfold is_digit. apply andb_true_iff; split; apply Z.leb_le; lia. Qed.

Lemma parse_digits_map ds : digits_ok 10 ds -> forall acc rest,
  parse_digits (map (fun d => 48 + d) ds ++ rest) acc = parse_digits rest (val_from 10 acc ds).
Proof.
  induction 1 as [|d l Hd Hl IH]; intros acc rest.
  - reflexivity.
  - rewrite val_from_cons. cbn [map app]. rewrite parse_digits_cons.
    rewrite is_digit_48 by assumption.
    rewrite IH. replace (acc * 10 + (48 + d - 48)) with (acc * 10 + d) by lia. reflexivity.
Qed.

Lemma parse_digits_to_dec n rest acc : 0 <= n ->
  exists k, (1 <= k)%nat /\ k = length (to_dec n) /\
  parse_digits (to_dec n ++ rest) acc = parse_digits rest (acc * 10 ^ Z.of_nat k + n).
Proof.
  intro Hn. unfold to_dec. exists (length (dec_digits n)).
  split; [|split].
  - pose proof (dec_digits_nonempty n). destruct (dec_digits n); [congruence|simpl; lia].
  - rewrite map_length. reflexivity.
  - rewrite parse_digits_map by apply dec_digits_ok.
    rewrite val_from_lin. rewrite dec_digits_val by assumption. reflexivity.
Qed.

Lemma to_dec_head n : exists c r, to_dec n = c :: r /\ is_digit c = true.
Proof.
  unfold to_dec. pose proof (dec_digits_nonempty n) as Hne. pose proof (dec_digits_ok n) as Hok.
  destruct (dec_digits n) as [|d r]; [congruence|].
  exists (48 + d), (map (fun d => 48 + d) r). split; [reflexivity|].
  inversion Hok; subst. apply is_digit_48. assumption.
Qed.

Lemma to_dec_all_digits n : forallb is_digit (to_dec n) = true.
Proof.
  unfold to_dec. pose proof (dec_digits_ok n) as Hok.
  induction Hok as [|d l Hd Hl IH]; [reflexivity|].
  cbn [map forallb]. rewrite IH. rewrite is_digit_48 by assumption. reflexivity.
Qed.

Lemma parse_udigits_to_dec n : 0 <= n -> parse_udigits (to_dec n) = Some n.
Proof.
  intro Hn. unfold parse_udigits.
  destruct (to_dec_head n) as (c & r & E & _).
  destruct (parse_digits_to_dec n [] 0 Hn) as (k & _ & _ & Hp).
  rewrite app_nil_r in Hp. rewrite E in *. rewrite Hp. simpl. reflexivity.
Qed.

Lemma split_sign_digit c r : is_digit c = true -> split_sign (c :: r) = (false, c :: r).
Proof.
  unfold is_digit, split_sign, ch_plus, ch_minus. intro H. apply andb_true_iff in H.
  destruct H as [H1 H2]. apply Z.leb_le in H1. apply Z.leb_le in H2.
  destruct (c =? 43) eqn:E1; [apply Z.eqb_eq in E1; lia|].
  destruct (c =? 45) eqn:E2; [apply Z.eqb_eq in E2; lia|]. reflexivity.
Qed.

Lemma big_set_string_int_to_string x : big_set_string (int_to_string x) = Some x.
Proof.
  unfold big_set_string, int_to_string.
  destruct (x <? 0) eqn:E.
  - apply Z.ltb_lt in E. unfold split_sign, ch_plus, ch_minus. simpl.
    rewrite parse_udigits_to_dec by lia. f_equal. lia.
  - apply Z.ltb_ge in E. destruct (to_dec_head x) as (c & r & Ec & Hd).
    rewrite Ec. rewrite split_sign_digit by assumption. rewrite <- Ec.
    rewrite parse_udigits_to_dec by lia. reflexivity.
Qed.

Lemma parse_digits_nonneg s : forall acc v, 0 <= acc -> parse_digits s acc = Some v -> 0 <= v.
Proof.
  induction s as [|c r IH]; intros acc v Ha H.
  - simpl in H. inversion H. lia.
  - rewrite parse_digits_cons in H. destruct (is_digit c) eqn:E; [|discriminate].
    unfold is_digit in E. apply andb_true_iff in E. destruct E as [E1 E2].
    apply Z.leb_le in E1. apply Z.leb_le in E2.
    apply IH in H; lia.
Qed.

Lemma parse_udigits_nonneg s v : parse_udigits s = Some v -> 0 <= v.
Proof.
  unfold parse_udigits. destruct s; [discriminate|]. apply parse_digits_nonneg. lia.
Qed.

(* strconv.ParseInt with a bit size = SetString followed by the range check *)
Lemma go_parse_int_spec n s : 0 < n ->
  go_parse_int n s =
  match big_set_string s with
  | Some v => if inRange v (- 2 ^ (n - 1)) (2 ^ (n - 1) - 1) then Some v else None
  | None => None
  end.
Proof.
  intro Hn. unfold go_parse_int, big_set_string.
  destruct s as [|c r]; [reflexivity|].
  destruct (split_sign (c :: r)) as [neg body].
  destruct (parse_udigits body) as [un|] eqn:E; [|reflexivity].
  apply parse_udigits_nonneg in E.
  assert (Hp : 0 < 2 ^ (n - 1)) by (apply Z.pow_pos_nonneg; lia).
  unfold inRange. destruct neg; simpl.
  - destruct (un >? 2 ^ (n - 1)) eqn:E1.
    + apply Z.gtb_lt in E1. destruct (- 2 ^ (n - 1) <=? - un) eqn:E2; [apply Z.leb_le in E2; lia|]. reflexivity.
    + rewrite Z.gtb_ltb in E1. apply Z.ltb_ge in E1.
      destruct (- 2 ^ (n - 1) <=? - un) eqn:E2; [|apply Z.leb_gt in E2; lia].
      destruct (- un <=? 2 ^ (n - 1) - 1) eqn:E3; [|apply Z.leb_gt in E3; lia]. reflexivity.
  - destruct (un >=? 2 ^ (n - 1)) eqn:E1.
    + apply Z.geb_le in E1. destruct (un <=? 2 ^ (n - 1) - 1) eqn:E3; [apply Z.leb_le in E3; lia|].
      rewrite andb_false_r. reflexivity.
    + rewrite Z.geb_leb in E1. apply Z.leb_gt in E1.
      destruct (- 2 ^ (n - 1) <=? un) eqn:E2; [|apply Z.leb_gt in E2; lia].
      destruct (un <=? 2 ^ (n - 1) - 1) eqn:E3; [|apply Z.leb_gt in E3; lia]. reflexivity.
Qed.

Lemma go_parse_int_int_to_string n x :
  0 < n -> - 2 ^ (n - 1) <= x <= 2 ^ (n - 1) - 1 -> go_parse_int n (int_to_string x) = Some x.
Proof.
  intros Hn Hx. rewrite go_parse_int_spec by assumption.
  rewrite big_set_string_int_to_string. unfold inRange.
  destruct (- 2 ^ (n - 1) <=? x) eqn:E1; [|apply Z.leb_gt in E1; lia].
  destruct (x <=? 2 ^ (n - 1) - 1) eqn:E2; [|apply Z.leb_gt in E2; lia]. reflexivity.
Qed.

Lemma go_parse_uint_int_to_string n x :
  0 <= x <= 2 ^ n - 1 -> go_parse_uint n (int_to_string x) = Some x.
Proof.
  intros Hx. unfold go_parse_uint, int_to_string.
  destruct (x <? 0) eqn:E; [apply Z.ltb_lt in E; lia|].
  rewrite parse_udigits_to_dec by lia.
  destruct (x <=? 2 ^ n - 1) eqn:E2; [reflexivity|apply Z.leb_gt in E2; lia].
Qed.

(* ------------------------------------------------------------------ integer fromString/toString round trip *)
Theorem int_string_roundtrip k x :
  (match k with KSigned n | KUnsigned n | KWord n => 0 < n | _ => True end) ->
  in_range k x -> int_from_string k (int_to_string x) = Some x.
Proof.
  intros Hk Hx. unfold in_range in Hx. destruct k as [n|n|n| |]; simpl in *.
  - destruct (n <=? 64).
    + apply go_parse_int_int_to_string; lia.
    + rewrite big_set_string_int_to_string. unfold inRange.
      destruct (- 2 ^ (n - 1) <=? x) eqn:E1; [|apply Z.leb_gt in E1; lia].
      destruct (x <=? 2 ^ (n - 1) - 1) eqn:E2; [|apply Z.leb_gt in E2; lia]. reflexivity.
  - destruct (n <=? 64).
    + apply go_parse_uint_int_to_string; lia.
    + rewrite big_set_string_int_to_string. unfold inRange.
      destruct (0 <=? x) eqn:E1; [|apply Z.leb_gt in E1; lia].
      destruct (x <=? 2 ^ n - 1) eqn:E2; [|apply Z.leb_gt in E2; lia]. reflexivity.
  - destruct (n <=? 64).
    + apply go_parse_uint_int_to_string; lia.
    + rewrite big_set_string_int_to_string. unfold inRange.
      destruct (0 <=? x) eqn:E1; [|apply Z.leb_gt in E1; lia].
      destruct (x <=? 2 ^ n - 1) eqn:E2; [|apply Z.leb_gt in E2; lia]. reflexivity.
  - apply big_set_string_int_to_string.
  - rewrite big_set_string_int_to_string.
    destruct (x <? 0) eqn:E; [apply Z.ltb_lt in E; lia|reflexivity].
Qed.

(* ================================================================== which strings are accepted: integers *)
Definition signed_kind (k : ikind) : Prop :=
  match k with KSigned n => 0 < n | KInt => True | _ => False end.
Definition unsigned_kind (k : ikind) : Prop :=
  match k with KUnsigned n | KWord n => 0 < n | KUInt => True | _ => False end.
Definition small_unsigned_kind (k : ikind) : Prop :=
  match k with KUnsigned n | KWord n => 0 < n <= 64 | _ => False end.
Definition big_unsigned_kind (k : ikind) : Prop :=
  match k with KUnsigned n | KWord n => 64 < n | KUInt => True | _ => False end.

(* one grammar G for the whole class; a type only adds its range check *)
Definition accept_uniform (cls : ikind -> Prop) : Prop :=
  exists G : list Z -> option Z, forall k s, cls k ->
    int_from_string k s =
    match G s with Some v => if in_rangeb k v then Some v else None | None => None end.

Lemma inRange_in_rangeb_signed n v :
  inRange v (- 2 ^ (n - 1)) (2 ^ (n - 1) - 1) = in_rangeb (KSigned n) v.
Proof. reflexivity. Qed.

Theorem signed_from_string_spec k s :
  signed_kind k -> int_from_string k s = spec_int_from_string k s.
Proof.
  intro Hk. destruct k as [n|n|n| |]; simpl in Hk; try contradiction.
  - unfold spec_int_from_string, int_from_string. simpl.
    destruct (n <=? 64); [rewrite go_parse_int_spec by assumption|]; reflexivity.
  - unfold spec_int_from_string, int_from_string. simpl.
    destruct (big_set_string s); reflexivity.
Qed.

Theorem signed_accept_uniform : accept_uniform signed_kind.
Proof.
  exists big_set_string. intros k s Hk. rewrite signed_from_string_spec by assumption.
  unfold spec_int_from_string. destruct k; simpl in Hk; try contradiction; reflexivity.
Qed.

Theorem small_unsigned_from_string_spec k s :
  small_unsigned_kind k -> int_from_string k s = spec_int_from_string k s.
Proof.
  intro Hk.
  assert (H : forall n, 0 < n <= 64 ->
     (if n <=? 64 then go_parse_uint n s
      else match big_set_string s with
           | Some v => if inRange v 0 (2 ^ n - 1) then Some v else None | None => None end)
     = match parse_udigits s with
       | Some v => if (0 <=? v) && (v <=? 2 ^ n - 1) then Some v else None | None => None end).
  { intros n Hn. destruct (n <=? 64) eqn:E; [|apply Z.leb_gt in E; lia].
    unfold go_parse_uint. destruct (parse_udigits s) as [v|] eqn:Ev; [|reflexivity].
    apply parse_udigits_nonneg in Ev.
    destruct (0 <=? v) eqn:E0; [reflexivity|apply Z.leb_gt in E0; lia]. }
  destruct k as [n|n|n| |]; simpl in Hk; try contradiction;
    unfold spec_int_from_string, int_from_string; simpl; apply H; assumption.
Qed.

Theorem big_unsigned_from_string k s :
  big_unsigned_kind k ->
  int_from_string k s =
  match big_set_string s with Some v => if in_rangeb k v then Some v else None | None => None end.
Proof.
  intro Hk. destruct k as [n|n|n| |]; simpl in Hk; try contradiction;
    unfold int_from_string;
    try ((destruct (n <=? 64) eqn:E; [apply Z.leb_le in E; lia|]); reflexivity).
  destruct (big_set_string s) as [v|]; [|reflexivity].
  unfold in_rangeb. simpl kmin. simpl kmax. rewrite andb_true_r.
  rewrite Z.leb_antisym. destruct (v <? 0); reflexivity.
Qed.

Theorem small_unsigned_accept_uniform : accept_uniform small_unsigned_kind.
Proof.
  exists parse_udigits. intros k s Hk. rewrite small_unsigned_from_string_spec by assumption.
  unfold spec_int_from_string. destruct k; simpl in Hk; try contradiction; reflexivity.
Qed.

Theorem big_unsigned_accept_uniform : accept_uniform big_unsigned_kind.
Proof. exists big_set_string. intros k s Hk. apply big_unsigned_from_string. assumption. Qed.

(* "+5" *)
Definition witness_plus5 : list Z := [43; 53].
(* "-0" *)
Definition witness_minus0 : list Z := [45; 48].
(* "-5" *)
Definition witness_minus5 : list Z := [45; 53].

Theorem unsigned_accept_differs :
  int_from_string (KUnsigned 8) witness_plus5 = None /\
  int_from_string (KUnsigned 128) witness_plus5 = Some 5 /\
  int_from_string KUInt witness_plus5 = Some 5 /\
  int_from_string (KWord 64) witness_minus0 = None /\
  int_from_string (KWord 256) witness_minus0 = Some 0 /\
  in_range (KUnsigned 8) 5 /\ in_range (KWord 64) 0.
Proof. vm_compute. repeat split; discriminate. Qed.

Theorem unsigned_accept_not_uniform : ~ accept_uniform unsigned_kind.
Proof.
  intros [G HG].
  pose proof (HG (KUnsigned 128) witness_plus5 ltac:(simpl; lia)) as H1.
  pose proof (HG (KUnsigned 8) witness_plus5 ltac:(simpl; lia)) as H2.
  change (int_from_string (KUnsigned 128) witness_plus5) with (Some 5) in H1.
  change (int_from_string (KUnsigned 8) witness_plus5) with (@None Z) in H2.
  destruct (G witness_plus5) as [v|]; [|discriminate].
  destruct (in_rangeb (KUnsigned 128) v) eqn:E; [|discriminate].
  inversion H1; subst v. vm_compute in H2. discriminate.
Qed.

(* results are in range, for every kind *)
Theorem int_from_string_in_range k s v :
  (match k with KSigned n | KUnsigned n | KWord n => 0 < n | _ => True end) ->
  int_from_string k s = Some v -> in_range k v.
Proof.
  intros Hk H. apply in_rangeb_spec.
  destruct k as [n|n|n| |].
  - rewrite signed_from_string_spec in H by exact Hk. unfold spec_int_from_string in H.
    destruct (grammar_int _ s); [|discriminate].
    destruct (in_rangeb (KSigned n) z) eqn:E; inversion H; subst; assumption.
  - destruct (Z_le_gt_dec n 64).
    + rewrite small_unsigned_from_string_spec in H by (simpl; lia). unfold spec_int_from_string in H.
      destruct (grammar_int _ s); [|discriminate].
      destruct (in_rangeb (KUnsigned n) z) eqn:E; inversion H; subst; assumption.
    + rewrite big_unsigned_from_string in H by (simpl; lia).
      destruct (big_set_string s); [|discriminate].
      destruct (in_rangeb (KUnsigned n) z) eqn:E; inversion H; subst; assumption.
  - destruct (Z_le_gt_dec n 64).
    + rewrite small_unsigned_from_string_spec in H by (simpl; lia). unfold spec_int_from_string in H.
      destruct (grammar_int _ s); [|discriminate].
      destruct (in_rangeb (KWord n) z) eqn:E; inversion H; subst; assumption.
    + rewrite big_unsigned_from_string in H by (simpl; lia).
      destruct (big_set_string s); [|discriminate].
      destruct (in_rangeb (KWord n) z) eqn:E; inversion H; subst; assumption.
  - reflexivity.
  - rewrite big_unsigned_from_string in H by exact I.
    destruct (big_set_string s); [|discriminate].
    destruct (in_rangeb KUInt z) eqn:E; inversion H; subst; assumption.
Qed.

(* UInt.fromString("-5") is nil *)
Theorem uint_from_string_negative : int_from_string KUInt witness_minus5 = None.
Proof. reflexivity. Qed.

(* ================================================================== fixed-point: CheckRange *)
Lemma check_range_full F mn mx neg uint fr :
  0 < F -> mn <= 0 -> (mn = 0 \/ mn <= - F) -> F <= mx ->
  0 <= uint -> 0 <= fr < F ->
  check_range neg uint fr (Z.quot mn F) (Z.abs (Z.rem mn F)) (Z.quot mx F) (Z.abs (Z.rem mx F))
  = if neg && (mn =? 0) then false
    else let v := if neg then - (uint * F + fr) else uint * F + fr in (mn <=? v) && (v <=? mx).
Proof.
  intros HF Hmn Hmn' Hmx Hu Hfr.
  pose proof (Z.quot_rem' mn F) as E1. pose proof (Z.quot_rem' mx F) as E2.
  assert (R1 : - F < Z.rem mn F <= 0) by (apply Z.rem_bound_pos_neg; lia).
  assert (R2 : 0 <= Z.rem mx F < F) by (apply Z.rem_bound_pos; lia).
  set (q1 := Z.quot mn F) in *. set (r1 := Z.rem mn F) in *.
  set (q2 := Z.quot mx F) in *. set (r2 := Z.rem mx F) in *.
  rewrite (Z.abs_neq r1) by lia. rewrite (Z.abs_eq r2) by lia.
  assert (Q2 : 1 <= q2) by nia.
  assert (Q1 : (mn = 0 /\ q1 = 0 /\ r1 = 0) \/ (mn <= -F /\ q1 <= -1)).
  { destruct Hmn' as [H|H]; [left|right; split; [lia|nia]].
    unfold q1, r1. rewrite H. rewrite Z.quot_0_l, Z.rem_0_l by lia. auto. }
  clearbody q1 r1 q2 r2.
  unfold check_range. cbv zeta.
  destruct neg; simpl andb.
  - destruct Q1 as [(Hm & Hq & Hr)|(Hm & Hq1)].
    + rewrite Hq. replace (mn =? 0) with true by (symmetry; apply Z.eqb_eq; lia). reflexivity.
    + replace (Z.sgn q1 =? 0) with false by (symmetry; apply Z.eqb_neq; lia).
      replace (mn =? 0) with false by (symmetry; apply Z.eqb_neq; lia).
      replace (Z.sgn q1 <? 0) with true by (symmetry; apply Z.ltb_lt; lia).
      destruct (Z.compare_spec (- uint) q1) as [He|Hl|Hg];
      destruct (Z.compare_spec (- uint) q2) as [He2|Hl2|Hg2]; try lia;
      destruct (fr >? - r1) eqn:Ef; simpl negb; cbv iota; nia.
  - replace (mn <=? uint * F + fr) with true by (symmetry; apply Z.leb_le; nia).
    destruct Q1 as [(Hm & Hq & Hr)|(Hm & Hq1)].
    + subst q1 r1. simpl Z.sgn. simpl Z.ltb.
      destruct (Z.compare_spec uint 0) as [He|Hl|Hg]; try lia;
      destruct (Z.compare_spec uint q2) as [He2|Hl2|Hg2]; try lia;
      replace (q2 >=? 0) with true by (symmetry; apply Z.geb_le; lia);
      change (- 0) with 0; destruct (fr <? 0) eqn:Ef0; destruct (fr >? r2) eqn:Ef; simpl negb; cbv iota; nia.
    + destruct (Z.compare_spec uint q1) as [He|Hl|Hg]; try lia.
      destruct (Z.compare_spec uint q2) as [He2|Hl2|Hg2]; try lia;
      replace (q2 >=? 0) with true by (symmetry; apply Z.geb_le; lia);
      destruct (fr >? r2) eqn:Ef; simpl negb; cbv iota; nia.
Qed.

(* away from the two boundary integer parts the fractional argument is never inspected *)
Lemma check_range_frac_irrelevant (neg : bool) uint f1 f2 minInt minFrac maxInt maxFrac :
  (if neg then - uint else uint) <> minInt -> (if neg then - uint else uint) <> maxInt ->
  check_range neg uint f1 minInt minFrac maxInt maxFrac
  = check_range neg uint f2 minInt minFrac maxInt maxFrac.
Proof.
  intros H1 H2. unfold check_range. cbv zeta.
  destruct (neg && (Z.sgn minInt =? 0)); [reflexivity|].
  destruct (Z.compare_spec (if neg then - uint else uint) minInt); try contradiction;
  destruct (Z.compare_spec (if neg then - uint else uint) maxInt); try contradiction; reflexivity.
Qed.

Lemma fkind_facts f :
  0 < ffactor f /\ fmin f <= 0 /\ (fmin f = 0 \/ fmin f <= - ffactor f) /\ ffactor f <= fmax f
  /\ 0 < fscale f /\ ffactor f = 10 ^ fscale f
  /\ (fsigned f = true -> fmin f = - 2 ^ (fbits f - 1) /\ fmax f = 2 ^ (fbits f - 1) - 1)
  /\ (fsigned f = false -> fmin f = 0 /\ fmax f = 2 ^ fbits f - 1)
  /\ 0 < fbits f.
Proof.
  destruct f;
  repeat match goal with |- _ /\ _ => split end;
  vm_compute;
  first [ reflexivity
        | (intro H; discriminate H)
        | (intros _; split; reflexivity)
        | (left; reflexivity)
        | (right; intro H; discriminate H) ].
Qed.

Lemma wrap_s_id n v : 0 < n -> - 2 ^ (n - 1) <= v <= 2 ^ (n - 1) - 1 -> wrap_s n v = v.
Proof.
  intros Hn Hv. unfold wrap_s. cbv zeta.
  assert (Hp : 2 ^ n = 2 * 2 ^ (n - 1)).
  { replace n with (Z.succ (n - 1)) at 1 by lia. rewrite Z.pow_succ_r by lia. reflexivity. }
  assert (Hq : 0 < 2 ^ (n - 1)) by (apply Z.pow_pos_nonneg; lia).
  destruct (Z_lt_le_dec v 0).
  - replace (v mod 2 ^ n) with (v + 2 ^ n).
    + destruct (v + 2 ^ n <? 2 ^ (n - 1)) eqn:E; [apply Z.ltb_lt in E; lia|lia].
    + apply Z.mod_unique with (q := -1); lia.
  - rewrite Z.mod_small by lia.
    destruct (v <? 2 ^ (n - 1)) eqn:E; [reflexivity|apply Z.ltb_ge in E; lia].
Qed.

Lemma fix_store_id f v : fin_range f v -> fix_store f v = v.
Proof.
  intro H. unfold fin_range in H. unfold fix_store.
  destruct (fkind_facts f) as (_ & _ & _ & _ & _ & _ & Hs & Hu & Hb).
  destruct (fsigned f) eqn:E.
  - destruct (Hs eq_refl) as [E1 E2]. apply wrap_s_id; lia.
  - destruct (Hu eq_refl) as [E1 E2]. apply Z.mod_small. lia.
Qed.

Lemma parse_digits_bound s : forall acc v, parse_digits s acc = Some v ->
  v < (acc + 1) * 10 ^ Z.of_nat (length s).
Proof.
  induction s as [|c r IH]; intros acc v H.
  - simpl in *. inversion H. lia.
  - rewrite parse_digits_cons in H. destruct (is_digit c) eqn:E; [|discriminate].
    unfold is_digit in E. apply andb_true_iff in E. destruct E as [E1 E2].
    apply Z.leb_le in E1. apply Z.leb_le in E2.
    apply IH in H.
    replace (Z.of_nat (length (c :: r))) with (Z.succ (Z.of_nat (length r))) by (simpl length; lia).
    rewrite Z.pow_succ_r by lia.
    assert (0 < 10 ^ Z.of_nat (length r)) by (apply Z.pow_pos_nonneg; lia). nia.
Qed.

Lemma parse_udigits_bound s v : parse_udigits s = Some v -> 0 <= v < 10 ^ Z.of_nat (length s).
Proof.
  intro H. split; [eapply parse_udigits_nonneg; eassumption|].
  unfold parse_udigits in H. destruct s; [discriminate|].
  apply parse_digits_bound in H. lia.
Qed.

(* the fractional part delivered by parseFixedPoint has at most [fp_scale] digits *)
Lemma parse_fixed_point_facts s p :
  parse_fixed_point s = Some p ->
  0 <= fp_int p /\ 0 <= fp_frac p < 10 ^ fp_scale p /\ 0 <= fp_scale p.
Proof.
  unfold parse_fixed_point. intro H.
  destruct (split_dot2 s) as [[a b]|]; [|discriminate].
  destruct (big_set_string a) as [i|]; [|discriminate].
  destruct (match b with [] => false | c :: _ => (c =? ch_plus) || (c =? ch_minus) end) eqn:Es; [discriminate|].
  destruct (big_set_string b) as [fr|] eqn:Eb; [|discriminate].
  inversion H; subst; clear H. simpl.
  split; [destruct (i <? 0) eqn:E; [apply Z.ltb_lt in E|apply Z.ltb_ge in E]; lia|].
  split; [|lia].
  unfold big_set_string in Eb.
  assert (Hss : split_sign b = (false, b)).
  { destruct b as [|c r]; [reflexivity|]. unfold split_sign.
    apply orb_false_iff in Es. destruct Es as [-> ->]. reflexivity. }
  rewrite Hss in Eb. destruct (parse_udigits b) as [u|] eqn:Eu; [|discriminate].
  inversion Eb; subst. apply parse_udigits_bound. assumption.
Qed.

Definition fix_guard (f : fkind) (p : fparsed) : Prop :=
  fp_scale p = fscale f \/
  ((if fp_neg p then - fp_int p else fp_int p) <> fminInt f /\
   (if fp_neg p then - fp_int p else fp_int p) <> fmaxInt f).

Lemma check_and_convert_partial f p :
  0 <= fp_int p -> 0 <= fp_frac p < 10 ^ fp_scale p -> 0 <= fp_scale p ->
  (fsigned f = false -> fp_neg p = false) ->
  fix_guard f p ->
  match check_and_convert f p with Some v => Some (fix_store f v) | None => None end
  = if fp_scale p >? fscale f then None
    else if fin_rangeb f (fix_exact f p) then Some (fix_exact f p) else None.
Proof.
  intros Hi Hfr Hsc Hneg Hg. unfold check_and_convert.
  destruct (fp_scale p >? fscale f) eqn:Esc; [reflexivity|].
  rewrite Z.gtb_ltb in Esc. apply Z.ltb_ge in Esc.
  destruct (fkind_facts f) as (HF & Hmn & Hmn' & Hmx & Hs0 & HFe & Hs & Hu & Hb).
  set (frS := fp_frac p * 10 ^ (fscale f - fp_scale p)).
  assert (HfrS : 0 <= frS < ffactor f).
  { unfold frS. rewrite HFe.
    assert (HFs : 10 ^ fscale f = 10 ^ fp_scale p * 10 ^ (fscale f - fp_scale p)).
    { rewrite <- Z.pow_add_r by lia. f_equal. lia. }
    rewrite HFs.
    assert (0 < 10 ^ (fscale f - fp_scale p)) by (apply Z.pow_pos_nonneg; lia). nia. }
  assert (Hcr : check_range (fp_neg p) (fp_int p) (fp_frac p) (fminInt f) (fminFrac f) (fmaxInt f) (fmaxFrac f)
              = check_range (fp_neg p) (fp_int p) frS (fminInt f) (fminFrac f) (fmaxInt f) (fmaxFrac f)).
  { destruct Hg as [He|[H1 H2]].
    - unfold frS. rewrite He. rewrite Z.sub_diag. simpl. rewrite Z.mul_1_r. reflexivity.
    - apply check_range_frac_irrelevant; assumption. }
  rewrite Hcr. unfold fminInt, fminFrac, fmaxInt, fmaxFrac.
  rewrite (check_range_full (ffactor f) (fmin f) (fmax f)) by assumption.
  assert (Hconv : convert_fixed (fp_neg p) (fp_int p) (fp_frac p) (fp_scale p) (fscale f) = fix_exact f p).
  { unfold convert_fixed, fix_exact. cbv zeta. rewrite <- HFe.
    destruct (fp_scale p <? fscale f) eqn:E1.
    - reflexivity.
    - apply Z.ltb_ge in E1. assert (fp_scale p = fscale f) by lia.
      destruct (fp_scale p >? fscale f) eqn:E2; [rewrite Z.gtb_ltb in E2; apply Z.ltb_lt in E2; lia|].
      rewrite H. rewrite Z.sub_diag. simpl (10 ^ 0). rewrite Z.mul_1_r. reflexivity. }
  rewrite Hconv.
  assert (Hex : fix_exact f p = if fp_neg p then - (fp_int p * ffactor f + frS) else fp_int p * ffactor f + frS).
  { unfold fix_exact, frS. reflexivity. }
  cbv zeta. rewrite <- Hex.
  unfold fin_rangeb.
  destruct (fp_neg p && (fmin f =? 0)) eqn:En.
  - (* negative value for an unsigned type: excluded *)
    apply andb_true_iff in En. destruct En as [En1 En2]. apply Z.eqb_eq in En2.
    destruct (fsigned f) eqn:Esg.
    + destruct (Hs eq_refl) as [E1 _]. assert (0 < 2 ^ (fbits f - 1)) by (apply Z.pow_pos_nonneg; lia). lia.
    + rewrite (Hneg eq_refl) in En1. discriminate.
  - destruct ((fmin f <=? fix_exact f p) && (fix_exact f p <=? fmax f)) eqn:Er; [|reflexivity].
    rewrite fix_store_id; [reflexivity|].
    apply andb_true_iff in Er. destruct Er as [Er1 Er2]. apply Z.leb_le in Er1. apply Z.leb_le in Er2.
    unfold fin_range. lia.
Qed.

(* T.fromString on fixed-point types meets the specification for every string whose fractional part is
   written with all [fscale] digits, or whose integer part is not the type's extreme integer part. *)
Theorem fix_from_string_partial f s :
  (forall p, parse_fixed_point s = Some p -> fix_guard f p) ->
  fix_from_string f s = spec_fix_from_string f s.
Proof.
  intro Hg. unfold fix_from_string, spec_fix_from_string.
  destruct (parse_fixed_point s) as [p|] eqn:Ep; [|reflexivity].
  destruct (parse_fixed_point_facts s p Ep) as (Hi & Hfr & Hsc).
  destruct (negb (fsigned f) && fp_neg p) eqn:En; [reflexivity|].
  apply check_and_convert_partial; try assumption.
  - intro Hsg. rewrite Hsg in En. simpl in En. assumption.
  - apply Hg. reflexivity.
Qed.

(* ================================================================== fixed-point toString / fromString *)
Definition no_dot (l : list Z) : Prop := Forall (fun c => c <> ch_dot) l.

Lemma split_at_dot_app a b : no_dot a -> split_at_dot (a ++ ch_dot :: b) = Some (a, b).
Proof.
  induction 1 as [|c a Hc Ha IH]; simpl.
  - reflexivity.
  - destruct (c =? ch_dot) eqn:E; [apply Z.eqb_eq in E; contradiction|]. rewrite IH. reflexivity.
Qed.

Lemma has_dot_false b : no_dot b -> has_dot b = false.
Proof.
  unfold has_dot. induction 1 as [|c b Hc Hb IH]; simpl; [reflexivity|].
  destruct (c =? ch_dot) eqn:E; [apply Z.eqb_eq in E; contradiction|]. exact IH.
Qed.

Lemma digits_no_dot l : forallb is_digit l = true -> no_dot l.
Proof.
  induction l as [|c l IH]; simpl; intro H; [constructor|].
  apply andb_true_iff in H. destruct H as [H1 H2]. constructor; [|apply IH; assumption].
  unfold is_digit in H1. apply andb_true_iff in H1. destruct H1 as [A B].
  apply Z.leb_le in A. apply Z.leb_le in B. unfold ch_dot. lia.
Qed.

Lemma forallb_repeat_digit j : forallb is_digit (repeat ch_0 j) = true.
Proof. induction j; simpl; auto. Qed.

Lemma parse_digits_repeat0 j rest : parse_digits (repeat ch_0 j ++ rest) 0 = parse_digits rest 0.
Proof. induction j; simpl; auto. Qed.

Lemma pad_left_length c n s : (length s <= n)%nat -> length (pad_left c n s) = n.
Proof. intro H. unfold pad_left. rewrite app_length, repeat_length. lia. Qed.

Lemma all_digits_split_sign l : forallb is_digit l = true -> split_sign l = (false, l).
Proof.
  destruct l as [|c r]; [reflexivity|]. simpl forallb. intro H.
  apply andb_true_iff in H. apply split_sign_digit. tauto.
Qed.

Lemma all_digits_no_sign_head l : forallb is_digit l = true ->
  match l with c :: _ => (c =? ch_plus) || (c =? ch_minus) | [] => false end = false.
Proof.
  destruct l as [|c r]; [reflexivity|]. simpl forallb. intro H.
  apply andb_true_iff in H. destruct H as [H _].
  unfold is_digit in H. apply andb_true_iff in H. destruct H as [A B].
  apply Z.leb_le in A. apply Z.leb_le in B. unfold ch_plus, ch_minus.
  apply orb_false_iff. split; apply Z.eqb_neq; lia.
Qed.

(* the printed form: optional '-', integer digits, '.', exactly [fscale] fractional digits *)
Lemma fix_to_string_shape f x :
  fix_to_string f x =
  ((if x <? 0 then [ch_minus] else []) ++ to_dec (Z.abs (Z.quot x (ffactor f)))) ++
  ch_dot :: pad_left ch_0 (Z.to_nat (fscale f)) (to_dec (Z.abs (Z.rem x (ffactor f)))).
Proof.
  destruct (fkind_facts f) as (HF & _).
  unfold fix_to_string. cbv zeta.
  pose proof (Z.quot_rem' x (ffactor f)) as E.
  set (q := Z.quot x (ffactor f)) in *. set (r := Z.rem x (ffactor f)) in *.
  destruct (Z_lt_le_dec x 0) as [Hx|Hx].
  - assert (R : - ffactor f < r <= 0) by (apply Z.rem_bound_pos_neg; lia).
    assert (Q : q <= 0) by nia.
    replace (x <? 0) with true by (symmetry; apply Z.ltb_lt; lia).
    rewrite (Z.abs_neq r) by lia. rewrite (Z.abs_neq q) by lia.
    unfold int_to_string.
    destruct (r <? 0) eqn:Er.
    + apply Z.ltb_lt in Er.
      replace (- r <? 0) with false by (symmetry; apply Z.ltb_ge; lia).
      destruct (q =? 0) eqn:Eq.
      * apply Z.eqb_eq in Eq. rewrite Eq. simpl. reflexivity.
      * apply Z.eqb_neq in Eq. replace (q <? 0) with true by (symmetry; apply Z.ltb_lt; lia).
        simpl. reflexivity.
    + apply Z.ltb_ge in Er. assert (r = 0) by lia. subst r.
      assert (q < 0) by nia.
      replace (q <? 0) with true by (symmetry; apply Z.ltb_lt; lia).
      rewrite H. simpl. reflexivity.
  - assert (R : 0 <= r < ffactor f) by (apply Z.rem_bound_pos; lia).
    assert (Q : 0 <= q) by nia.
    replace (x <? 0) with false by (symmetry; apply Z.ltb_ge; lia).
    rewrite (Z.abs_eq r) by lia. rewrite (Z.abs_eq q) by lia.
    unfold int_to_string.
    replace (r <? 0) with false by (symmetry; apply Z.ltb_ge; lia). cbv iota.
    replace (r <? 0) with false by (symmetry; apply Z.ltb_ge; lia).
    replace (q <? 0) with false by (symmetry; apply Z.ltb_ge; lia).
    simpl. reflexivity.
Qed.

Lemma parse_fixed_point_printed f x :
  parse_fixed_point (fix_to_string f x) =
  Some {| fp_neg := x <? 0; fp_int := Z.abs (Z.quot x (ffactor f));
          fp_frac := Z.abs (Z.rem x (ffactor f)); fp_scale := fscale f |}.
Proof.
  destruct (fkind_facts f) as (HF & _ & _ & _ & Hs0 & HFe & _).
  rewrite fix_to_string_shape.
  set (qa := Z.abs (Z.quot x (ffactor f))). set (ra := Z.abs (Z.rem x (ffactor f))).
  assert (Hqa : 0 <= qa) by apply Z.abs_nonneg.
  assert (Hra : 0 <= ra < 10 ^ Z.of_nat (Z.to_nat (fscale f))).
  { rewrite Z2Nat.id by lia. rewrite <- HFe. unfold ra. split; [apply Z.abs_nonneg|].
    destruct (Z_lt_le_dec x 0).
    - pose proof (Z.rem_bound_pos_neg x (ffactor f) ltac:(lia) ltac:(lia)). lia.
    - pose proof (Z.rem_bound_pos x (ffactor f) ltac:(lia) ltac:(lia)). lia. }
  set (A := (if x <? 0 then [ch_minus] else []) ++ to_dec qa).
  set (B := pad_left ch_0 (Z.to_nat (fscale f)) (to_dec ra)).
  assert (HBd : forallb is_digit B = true).
  { unfold B, pad_left. rewrite forallb_app. rewrite forallb_repeat_digit, to_dec_all_digits. reflexivity. }
  assert (HAd : no_dot A).
  { unfold A. apply Forall_app. split.
    - destruct (x <? 0); constructor; [unfold ch_minus, ch_dot; lia|constructor].
    - apply digits_no_dot, to_dec_all_digits. }
  assert (HBlen : length B = Z.to_nat (fscale f)).
  { unfold B. apply pad_left_length. unfold to_dec. rewrite map_length.
    apply dec_digits_length; [assumption|lia]. }
  unfold parse_fixed_point, split_dot2.
  rewrite split_at_dot_app by assumption.
  rewrite has_dot_false by (apply digits_no_dot; assumption).
  (* negative flag *)
  assert (Hneg : match A ++ ch_dot :: B with c :: _ => c =? ch_minus | [] => false end = (x <? 0)).
  { unfold A. destruct (x <? 0); [reflexivity|]. simpl app.
    destruct (to_dec_head qa) as (c & r & Ec & Hd). rewrite Ec. simpl.
    unfold is_digit in Hd. apply andb_true_iff in Hd. destruct Hd as [Ha Hb].
    apply Z.leb_le in Ha. apply Z.leb_le in Hb. apply Z.eqb_neq. unfold ch_minus. lia. }
  rewrite Hneg.
  (* integer part *)
  assert (HA : big_set_string A = Some (if x <? 0 then - qa else qa)).
  { unfold A. destruct (x <? 0).
    - unfold big_set_string. simpl app. unfold split_sign, ch_minus, ch_plus. simpl.
      rewrite parse_udigits_to_dec by assumption. reflexivity.
    - simpl app. unfold big_set_string. rewrite all_digits_split_sign by apply to_dec_all_digits.
      rewrite parse_udigits_to_dec by assumption. reflexivity. }
  rewrite HA.
  rewrite all_digits_no_sign_head by assumption.
  (* fractional part *)
  assert (HB : big_set_string B = Some ra).
  { unfold big_set_string. rewrite all_digits_split_sign by assumption.
    unfold parse_udigits. destruct B as [|c r] eqn:EB.
    - simpl in HBlen. lia.
    - rewrite <- EB. unfold B, pad_left. rewrite parse_digits_repeat0.
      pose proof (parse_udigits_to_dec ra ltac:(lia)) as Hp. unfold parse_udigits in Hp.
      destruct (to_dec_head ra) as (c' & r' & Ec & _). rewrite Ec in *. rewrite Hp. reflexivity. }
  rewrite HB. f_equal. f_equal.
  - destruct (x <? 0) eqn:E.
    + destruct (- qa <? 0) eqn:E2; [lia|apply Z.ltb_ge in E2; lia].
    + destruct (qa <? 0) eqn:E2; [apply Z.ltb_lt in E2; lia|reflexivity].
  - rewrite HBlen. lia.
Qed.

Theorem fix_string_roundtrip f x :
  fin_range f x -> fix_from_string f (fix_to_string f x) = Some x.
Proof.
  intro Hx.
  destruct (fkind_facts f) as (HF & Hmn & Hmn' & Hmx & Hs0 & HFe & Hs & Hu & Hb).
  rewrite fix_from_string_partial.
  2:{ intros p Hp. rewrite parse_fixed_point_printed in Hp. inversion Hp. left. reflexivity. }
  unfold spec_fix_from_string. rewrite parse_fixed_point_printed.
  cbn [fp_neg fp_int fp_frac fp_scale].
  assert (Hex : fix_exact f {| fp_neg := x <? 0; fp_int := Z.abs (Z.quot x (ffactor f));
          fp_frac := Z.abs (Z.rem x (ffactor f)); fp_scale := fscale f |} = x).
  { unfold fix_exact. cbn [fp_neg fp_int fp_frac fp_scale]. rewrite Z.sub_diag. simpl (10 ^ 0).
    pose proof (Z.quot_rem' x (ffactor f)) as E.
    destruct (x <? 0) eqn:Ex.
    - apply Z.ltb_lt in Ex.
      pose proof (Z.rem_bound_pos_neg x (ffactor f) ltac:(lia) ltac:(lia)).
      assert (Z.quot x (ffactor f) <= 0) by nia.
      rewrite Z.abs_neq by lia. rewrite Z.abs_neq by lia. lia.
    - apply Z.ltb_ge in Ex.
      pose proof (Z.rem_bound_pos x (ffactor f) ltac:(lia) ltac:(lia)).
      assert (0 <= Z.quot x (ffactor f)) by nia.
      rewrite Z.abs_eq by lia. rewrite Z.abs_eq by lia. lia. }
  rewrite Hex.
  assert (Hn : negb (fsigned f) && (x <? 0) = false).
  { destruct (fsigned f) eqn:E; [reflexivity|]. destruct (Hu eq_refl) as [E1 _].
    unfold fin_range in Hx. simpl. apply Z.ltb_ge. lia. }
  rewrite Hn.
  replace (fscale f >? fscale f) with false by (symmetry; rewrite Z.gtb_ltb; apply Z.ltb_irrefl).
  unfold fin_rangeb. unfold fin_range in Hx.
  replace (fmin f <=? x) with true by (symmetry; apply Z.leb_le; lia).
  replace (x <=? fmax f) with true by (symmetry; apply Z.leb_le; lia).
  reflexivity.
Qed.

(* the defect: at the extreme integer part a short fractional part escapes the range check and the value wraps *)
(* "92233720368.6" *)
Definition witness_fix64_wrap : list Z := [57;50;50;51;51;55;50;48;51;54;56;46;54].
Theorem fix_from_string_wraps :
  fix_from_string FFix64 witness_fix64_wrap = Some (-9223372036849551616) /\
  spec_fix_from_string FFix64 witness_fix64_wrap = None.
Proof. vm_compute. split; reflexivity. Qed.
