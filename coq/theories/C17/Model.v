(* C17  Textual and byte encodings of numbers and addresses.
   Executable, code-shaped model of
     interpreter/interpreter.go   StringValueParsers (unsignedIntValueParser / signedIntValueParser /
                                  bigIntValueParser + inRange), NativeFromBigEndianBytesFunction, padWithZeroes
     interpreter/value_*.go       New*ValueFromBigEndianBytes, ToBigEndianBytes
     values/big.go                Signed/UnsignedBigIntTo(Sized)BigEndianBytes, BigEndianBytesTo(Un)SignedBigInt
     fixedpoint/parse.go, check.go, convert.go   parseFixedPoint, CheckRange, ConvertToFixedPointBigInt
     format/int.go, format/fix.go                 decimal formatting
     common/address.go            HexToAddressAssertPrefix, BytesToAddress, Hex
   Strings and byte arrays are lists of byte values (Z in [0,256)).
   The Go standard library primitives the code calls (strconv.ParseInt/ParseUint base 10,
   big.Int.SetString base 10, big.Int.Bytes/FillBytes/Text(10), encoding/hex) are modelled by their
   documented behaviour; everything the repository code adds (which parser a type uses, bit sizes,
   range checks, sign handling, padding, two's complement, scale handling) is transcribed.
   No proofs in this file. *)
From CV Require Export Num.IntSpec.

(* ------------------------------------------------------------------ characters *)
Definition ch_plus := 43.  Definition ch_minus := 45.  Definition ch_dot := 46.
Definition ch_0 := 48.     Definition ch_x := 120.

Definition is_digit (c : Z) : bool := (48 <=? c) && (c <=? 57).

(* ------------------------------------------------------------------ positional digits *)
(* exactly k base-b digits of n (most significant first), i.e. of n mod b^k *)
Fixpoint fixed_digits_acc (b : Z) (k : nat) (n : Z) (acc : list Z) : list Z :=
  match k with
  | O => acc
  | S k' => fixed_digits_acc b k' (n / b) (n mod b :: acc)
  end.
Definition fixed_digits (b : Z) (k : nat) (n : Z) : list Z := fixed_digits_acc b k n [].

Definition val_step (b : Z) (a d : Z) : Z := a * b + d.
Definition val_from (b : Z) (a : Z) (ds : list Z) : Z := fold_left (val_step b) ds a.
Definition val (b : Z) (ds : list Z) : Z := val_from b 0 ds.
Definition val256 := val 256.

Fixpoint strip0 (l : list Z) : list Z :=
  match l with
  | 0 :: r => strip0 r
  | _ => l
  end.

(* big.Int.Text(10) / strconv.FormatInt / FormatUint of a non-negative number: decimal digits
   without leading zeros ("0" for zero). 8^k <= 10^k bounds the number of digits. *)
Definition dec_digits (n : Z) : list Z :=
  match strip0 (fixed_digits 10 (Z.to_nat (Z.log2 n / 3 + 1)) n) with
  | [] => [0]
  | l => l
  end.
Definition to_dec (n : Z) : list Z := map (fun d => 48 + d) (dec_digits n).

(* format.BigInt / format.Int / format.Uint *)
Definition int_to_string (z : Z) : list Z :=
  if z <? 0 then ch_minus :: to_dec (- z) else to_dec z.

(* big.Int.Bytes(): minimal big-endian magnitude, empty for zero *)
Definition byte_len (n : Z) : Z := if n =? 0 then 0 else Z.log2 n / 8 + 1.
Definition big_bytes (n : Z) : list Z := fixed_digits 256 (Z.to_nat (byte_len n)) n.

(* ------------------------------------------------------------------ Go parsing primitives *)
Fixpoint parse_digits (s : list Z) (acc : Z) : option Z :=
  match s with
  | [] => Some acc
  | c :: r => if is_digit c then parse_digits r (acc * 10 + (c - 48)) else None
  end.
(* one or more decimal digits, nothing else (base 10: no underscores, no prefix) *)
Definition parse_udigits (s : list Z) : option Z :=
  match s with [] => None | _ => parse_digits s 0 end.

(* optional leading '+' or '-' *)
Definition split_sign (s : list Z) : bool * list Z :=
  match s with
  | c :: r => if c =? ch_plus then (false, r) else if c =? ch_minus then (true, r) else (false, s)
  | [] => (false, [])
  end.

(* strconv.ParseUint(s, 10, bits): err (syntax or range) = None *)
Definition go_parse_uint (bits : Z) (s : list Z) : option Z :=
  match parse_udigits s with
  | Some v => if v <=? 2 ^ bits - 1 then Some v else None
  | None => None
  end.

(* strconv.ParseInt(s, 10, bits) *)
Definition go_parse_int (bits : Z) (s : list Z) : option Z :=
  match s with
  | [] => None
  | _ =>
    let '(neg, body) := split_sign s in
    match parse_udigits body with
    | None => None
    | Some un =>
      let cutoff := 2 ^ (bits - 1) in
      if negb neg && (un >=? cutoff) then None
      else if neg && (un >? cutoff) then None
      else Some (if neg then - un else un)
    end
  end.

(* new(big.Int).SetString(s, 10) *)
Definition big_set_string (s : list Z) : option Z :=
  let '(neg, body) := split_sign s in
  match parse_udigits body with
  | None => None
  | Some un => Some (if neg then - un else un)
  end.

(* ------------------------------------------------------------------ T.fromString, integers *)
(* interpreter.go: inRange(val, low, high) *)
Definition inRange (v lo hi : Z) : bool := (lo <=? v) && (v <=? hi).

(* interpreter.go: StringValueParsers.  Int8..64 / UInt8..64 / Word8..64 use strconv with the bit size,
   the 128/256-bit types use bigIntValueParser with inRange, Int uses bigIntValueParser with a converter
   that always succeeds, UInt one that rejects negative values. *)
Definition int_from_string (k : ikind) (s : list Z) : option Z :=
  match k with
  | KSigned n =>
      if n <=? 64 then go_parse_int n s
      else match big_set_string s with
           | Some v => if inRange v (- 2 ^ (n - 1)) (2 ^ (n - 1) - 1) then Some v else None
           | None => None
           end
  | KUnsigned n | KWord n =>
      if n <=? 64 then go_parse_uint n s
      else match big_set_string s with
           | Some v => if inRange v 0 (2 ^ n - 1) then Some v else None
           | None => None
           end
  | KInt => big_set_string s
  | KUInt =>                       (* UInt has no upper bound, but must not be negative: b.Sign() < 0 -> nil *)
      match big_set_string s with
      | Some v => if v <? 0 then None else Some v
      | None => None
      end
  end.

(* ------------------------------------------------------------------ fixed-point kinds *)
Inductive fkind : Type := FFix64 | FUFix64 | FFix128 | FUFix128.

Definition fsigned (f : fkind) : bool :=
  match f with FFix64 | FFix128 => true | _ => false end.
Definition fbits (f : fkind) : Z :=
  match f with FFix64 | FUFix64 => 64 | _ => 128 end.
Definition fscale (f : fkind) : Z :=
  match f with FFix64 | FUFix64 => 8 | _ => 24 end.
Definition ffactor (f : fkind) : Z := 10 ^ fscale f.
Definition fmin (f : fkind) : Z := if fsigned f then - 2 ^ (fbits f - 1) else 0.
Definition fmax (f : fkind) : Z := if fsigned f then 2 ^ (fbits f - 1) - 1 else 2 ^ fbits f - 1.
(* the raw (scaled) integer of a fixed-point value is what the model calls its value *)
Definition fin_range (f : fkind) (v : Z) : Prop := fmin f <= v <= fmax f.
Definition fin_rangeb (f : fkind) (v : Z) : bool := (fmin f <=? v) && (v <=? fmax f).

(* fixedpoint/check.go: Fix64TypeMinInt = MinInt64 / Factor (Go: truncated), ...MinFractional = |MinInt64 % Factor| *)
Definition fminInt (f : fkind) : Z := Z.quot (fmin f) (ffactor f).
Definition fminFrac (f : fkind) : Z := Z.abs (Z.rem (fmin f) (ffactor f)).
Definition fmaxInt (f : fkind) : Z := Z.quot (fmax f) (ffactor f).
Definition fmaxFrac (f : fkind) : Z := Z.abs (Z.rem (fmax f) (ffactor f)).

(* ------------------------------------------------------------------ formatting fixed-point *)
Definition pad_left (c : Z) (n : nat) (s : list Z) : list Z := repeat c (n - length s) ++ s.

(* format.Fix64 / UFix64 / formatFixedPointBigInt *)
Definition fix_to_string (f : fkind) (v : Z) : list Z :=
  let integer := Z.quot v (ffactor f) in
  let fraction := Z.rem v (ffactor f) in
  let negative := fraction <? 0 in
  let fraction' := if negative then - fraction else fraction in
  (if negative && (integer =? 0) then [ch_minus] else []) ++
  int_to_string integer ++ [ch_dot] ++ pad_left ch_0 (Z.to_nat (fscale f)) (int_to_string fraction').

(* ------------------------------------------------------------------ parsing fixed-point *)
(* strings.Split(v, ".") must give exactly two parts *)
Fixpoint split_at_dot (s : list Z) : option (list Z * list Z) :=
  match s with
  | [] => None
  | c :: r => if c =? ch_dot then Some ([], r)
              else match split_at_dot r with
                   | Some (a, b) => Some (c :: a, b)
                   | None => None
                   end
  end.
Definition has_dot (s : list Z) : bool := existsb (fun c => c =? ch_dot) s.
Definition split_dot2 (s : list Z) : option (list Z * list Z) :=
  match split_at_dot s with
  | Some (a, b) => if has_dot b then None else Some (a, b)
  | None => None
  end.

Record fparsed : Type := { fp_neg : bool; fp_int : Z; fp_frac : Z; fp_scale : Z }.

(* fixedpoint/parse.go: parseFixedPoint *)
Definition parse_fixed_point (s : list Z) : option fparsed :=
  match split_dot2 s with
  | None => None                                    (* missing decimal point *)
  | Some (integerStr, fractionalStr) =>
    let scale := Z.of_nat (length fractionalStr) in
    let negative := match s with c :: _ => c =? ch_minus | [] => false end in
    match big_set_string integerStr with
    | None => None                                  (* invalid integer part *)
    | Some integer =>
      if (match fractionalStr with c :: _ => (c =? ch_plus) || (c =? ch_minus) | [] => false end)
      then None                                     (* invalid sign in fractional part *)
      else match big_set_string fractionalStr with
           | None => None                           (* invalid fractional part *)
           | Some fractional =>
             Some {| fp_neg := negative;
                     fp_int := if integer <? 0 then - integer else integer;
                     fp_frac := fractional; fp_scale := scale |}
           end
    end
  end.

(* fixedpoint/check.go: CheckRange *)
Definition check_range (negative : bool) (uint frac minInt minFrac maxInt maxFrac : Z) : bool :=
  let minIntSign := Z.sgn minInt in
  if negative && (minIntSign =? 0) then false else
  let iv := if negative then - uint else uint in
  let ok_min :=
    match iv ?= minInt with
    | Lt => false
    | Eq => if minIntSign <? 0 then negb (frac >? minFrac) else negb (frac <? minFrac)
    | Gt => true
    end in
  if negb ok_min then false else
  match iv ?= maxInt with
  | Lt => true
  | Eq => if maxInt >=? 0 then negb (frac >? maxFrac) else negb (frac <? maxFrac)
  | Gt => false
  end.

(* fixedpoint/convert.go: ConvertToFixedPointBigInt *)
Definition convert_fixed (negative : bool) (uint frac scale target : Z) : Z :=
  let integer := uint * 10 ^ target in
  let fractional :=
    if scale <? target then frac * 10 ^ (target - scale)
    else if scale >? target then frac / 10 ^ (scale - target)
    else frac in
  let result := integer + fractional in
  if negative then - result else result.

Definition wrap_s (n z : Z) : Z :=
  let r := z mod 2 ^ n in if r <? 2 ^ (n - 1) then r else r - 2 ^ n.

(* what the value constructors do with the big.Int they are handed: n.Int64 / n.Uint64 /
   Fix128FromBigInt / UFix128FromBigInt keep the low 64 / 128 bits *)
Definition fix_store (f : fkind) (v : Z) : Z :=
  if fsigned f then wrap_s (fbits f) v else v mod 2 ^ fbits f.

(* fixedpoint/parse.go: checkAndConvertFixedPoint *)
Definition check_and_convert (f : fkind) (p : fparsed) : option Z :=
  if fp_scale p >? fscale f then None                       (* invalid scale *)
  else if check_range (fp_neg p) (fp_int p) (fp_frac p)
            (fminInt f) (fminFrac f) (fmaxInt f) (fmaxFrac f)
       then Some (convert_fixed (fp_neg p) (fp_int p) (fp_frac p) (fp_scale p) (fscale f))
       else None.                                            (* out of range *)

(* ParseFix64 / ParseFix128 / ParseUFix64 / ParseUFix128 followed by the value constructor *)
Definition fix_from_string (f : fkind) (s : list Z) : option Z :=
  match parse_fixed_point s with
  | None => None
  | Some p =>
    if negb (fsigned f) && fp_neg p then None                (* invalid negative integer part *)
    else match check_and_convert f p with
         | Some v => Some (fix_store f v)
         | None => None
         end
  end.

(* ------------------------------------------------------------------ big-endian bytes *)
Definition byte_ok (b : Z) : Prop := 0 <= b < 256.
Definition bytes_ok (bs : list Z) : Prop := Forall byte_ok bs.

Definition len (bs : list Z) : Z := Z.of_nat (length bs).

(* interpreter.go: padWithZeroes *)
Definition pad_with_zeroes (bs : list Z) (n : Z) : res (list Z) :=
  if len bs >? n then Err Internal       (* errors.NewUnreachableError *)
  else Ok (repeat 0 (Z.to_nat (n - len bs)) ++ bs).

Definition compl (bs : list Z) : list Z := map (fun b => 255 - b) bs.   (* b ^ 0xff *)

(* values/big.go: BigEndianBytesToSignedBigInt *)
Definition be_to_signed (bs : list Z) : Z :=
  let general :=
    match bs with
    | [] => 0
    | b0 :: _ => if b0 >=? 128 then - (val256 (compl bs) + 1) else val256 bs
    end in
  match bs with
  | [] => 0
  | [x] => if x =? 0 then 0 else if x <=? 127 then x else general
  | _ => general
  end.

(* values/big.go: BigEndianBytesToUnsignedBigInt *)
Definition be_to_unsigned (bs : list Z) : Z := val256 bs.

(* big.Int.FillBytes(buf): panics when the value does not fit *)
Definition fill_bytes (v size : Z) : res (list Z) :=
  if v <? 256 ^ size then Ok (fixed_digits 256 (Z.to_nat size) v) else Err Crash.

(* values/big.go: SignedBigIntToBigEndianBytes *)
Definition signed_to_be (v : Z) : list Z :=
  match v ?= 0 with
  | Lt => let bytes := compl (big_bytes (- v - 1)) in
          match bytes with
          | [] => [255]
          | b0 :: _ => if b0 <? 128 then 255 :: bytes else bytes
          end
  | Eq => [0]
  | Gt => let bytes := big_bytes v in
          match bytes with
          | [] => bytes
          | b0 :: _ => if b0 >=? 128 then 0 :: bytes else bytes
          end
  end.

(* values/big.go: SignedBigIntToSizedBigEndianBytes *)
Definition signed_to_sized_be (v size : Z) : res (list Z) :=
  match v ?= 0 with
  | Lt => let bytes := big_bytes (- (v + 1)) in
          let offset := size - len bytes in
          if offset <? 0 then Err Crash             (* slice bounds out of range *)
          else Ok (repeat 255 (Z.to_nat offset) ++ compl bytes)
  | Eq => Ok (repeat 0 (Z.to_nat size))
  | Gt => fill_bytes v size
  end.

(* values/big.go: UnsignedBigIntToBigEndianBytes *)
Definition unsigned_to_be (v : Z) : res (list Z) :=
  match v ?= 0 with
  | Eq => Ok [0]
  | Gt => Ok (big_bytes v)
  | Lt => Err Internal                               (* NewUnexpectedError *)
  end.

(* values/big.go: UnsignedBigIntToSizedBigEndianBytes *)
Definition unsigned_to_sized_be (v size : Z) : res (list Z) :=
  match v ?= 0 with
  | Eq => Ok (repeat 0 (Z.to_nat size))
  | Gt => fill_bytes v size
  | Lt => Err Internal
  end.

(* number kinds: integers and fixed-point *)
Inductive nkind : Type := NInt (k : ikind) | NFix (f : fkind).

(* sema: <T>TypeSize; 0 = no limit (Int, UInt) *)
Definition byte_size (k : nkind) : Z :=
  match k with
  | NInt (KSigned n) | NInt (KUnsigned n) | NInt (KWord n) => n / 8
  | NInt KInt | NInt KUInt => 0
  | NFix f => fbits f / 8
  end.

Definition n_in_range (k : nkind) (v : Z) : Prop :=
  match k with NInt i => in_range i v | NFix f => fin_range f v end.

(* x.toBigEndianBytes() *)
Definition to_be (k : nkind) (v : Z) : res (list Z) :=
  match k with
  | NInt (KSigned n) =>
      if n <=? 64 then Ok (fixed_digits 256 (Z.to_nat (n / 8)) (v mod 2 ^ n))    (* PutUintN(b, uintN(v)) *)
      else signed_to_sized_be v (n / 8)
  | NInt (KUnsigned n) | NInt (KWord n) =>
      if n <=? 64 then Ok (fixed_digits 256 (Z.to_nat (n / 8)) (v mod 2 ^ n))
      else unsigned_to_sized_be v (n / 8)
  | NInt KInt => Ok (signed_to_be v)
  | NInt KUInt => unsigned_to_be v
  | NFix f => Ok (fixed_digits 256 (Z.to_nat (fbits f / 8)) (v mod 2 ^ fbits f))
  end.

(* the per-type converter New<T>ValueFromBigEndianBytes *)
Definition be_convert (k : nkind) (bs : list Z) : res Z :=
  match k with
  | NInt (KSigned n) =>
      if n <=? 64 then let* p := pad_with_zeroes bs (n / 8) in Ok (wrap_s n (val256 p))
      else Ok (be_to_signed bs)
  | NInt (KUnsigned n) | NInt (KWord n) =>
      if n <=? 64 then let* p := pad_with_zeroes bs (n / 8) in Ok (val256 p)
      else Ok (be_to_unsigned bs)
  | NInt KInt => Ok (be_to_signed bs)
  | NInt KUInt => Ok (be_to_unsigned bs)
  | NFix f =>
      let* p := pad_with_zeroes bs (fbits f / 8) in
      Ok (if fsigned f then wrap_s (fbits f) (val256 p) else val256 p)
  end.

(* interpreter.go: NativeFromBigEndianBytesFunction.  None = nil *)
Definition from_be (k : nkind) (bs : list Z) : res (option Z) :=
  let byteLength := byte_size k in
  if negb (byteLength =? 0) && (len bs >? byteLength) then Ok None
  else let* v := be_convert k bs in Ok (Some v).

(* ------------------------------------------------------------------ addresses and hex strings *)
Definition hex_val (c : Z) : option Z :=
  if (48 <=? c) && (c <=? 57) then Some (c - 48)
  else if (97 <=? c) && (c <=? 102) then Some (c - 87)
  else if (65 <=? c) && (c <=? 70) then Some (c - 55)
  else None.
Definition hex_digit (d : Z) : Z := if d <? 10 then 48 + d else 87 + d.

(* encoding/hex.DecodeString: error (bad character or odd length) = None *)
Fixpoint hex_decode (s : list Z) : option (list Z) :=
  match s with
  | [] => Some []
  | a :: b :: r =>
      match hex_val a, hex_val b, hex_decode r with
      | Some x, Some y, Some l => Some (x * 16 + y :: l)
      | _, _, _ => None
      end
  | [_] => None
  end.
Definition hex_encode (bs : list Z) : list Z :=
  flat_map (fun b => [hex_digit (b / 16); hex_digit (b mod 16)]) bs.

(* an address is its 8 bytes read as a number in [0, 2^64) *)
(* format.Address: "0x" + 16 hex digits *)
Definition addr_to_string (a : Z) : list Z := ch_0 :: ch_x :: hex_encode (fixed_digits 256 8 a).
Definition addr_to_bytes (a : Z) : list Z := fixed_digits 256 8 a.

(* common.HexToAddressAssertPrefix + BytesToAddress; None = nil *)
Definition addr_from_string (s : list Z) : option Z :=
  match s with
  | 48 :: 120 :: r =>
      let trimmed := if Nat.odd (length r) then ch_0 :: r else r in
      match hex_decode trimmed with
      | Some bs => if len bs >? 8 then None else Some (val256 bs)
      | None => None
      end
  | _ => None
  end.

(* Address.fromBytes: MustBytesToAddress panics with a plain Go error when too long *)
Definition addr_from_bytes (bs : list Z) : res Z :=
  if len bs >? 8 then Err Internal else Ok (val256 bs).

(* ------------------------------------------------------------------ what the property demands *)
(* [spec_int_from_string sg k]: the accepted strings are given by a grammar that depends only on the
   signedness, the value is the written number, and the only type-specific part is the range check. *)
Definition grammar_int (signed : bool) (s : list Z) : option Z :=
  if signed then big_set_string s     (* [+-]?[0-9]+ *)
  else parse_udigits s.               (* [0-9]+   (sema FromStringFunctionDocstring: sign prefix for signed types only) *)

Definition ksigned (k : ikind) : bool :=
  match k with KSigned _ | KInt => true | _ => false end.

Definition spec_int_from_string (k : ikind) (s : list Z) : option Z :=
  match grammar_int (ksigned k) s with
  | Some v => if in_rangeb k v then Some v else None
  | None => None
  end.

(* fixed-point: grammar [+-]?[0-9]+ '.' [0-9]+ ('-' not allowed for unsigned types); the type-specific
   part is: at most [fscale] fractional digits and the exact scaled value within the range. *)
Definition fix_exact (f : fkind) (p : fparsed) : Z :=
  let m := fp_int p * ffactor f + fp_frac p * 10 ^ (fscale f - fp_scale p) in
  if fp_neg p then - m else m.

Definition spec_fix_from_string (f : fkind) (s : list Z) : option Z :=
  match parse_fixed_point s with
  | None => None
  | Some p =>
    if negb (fsigned f) && fp_neg p then None
    else if fp_scale p >? fscale f then None
    else if fin_rangeb f (fix_exact f p) then Some (fix_exact f p) else None
  end.
