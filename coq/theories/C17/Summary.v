(* C17: the full-strength statement of the property over the model, and its refutation on the
   unchanged tree (the partial theorems are in Proofs.v / BytesProofs.v). *)
From CV Require Export C17.BytesProofs.
Open Scope Z_scope.

Definition ikind_ok (k : ikind) : Prop :=
  match k with KSigned n | KUnsigned n | KWord n => 0 < n | _ => True end.

Definition C17_statement : Prop :=
  (* T.fromString(x.toString()) = x *)
  (forall k x, ikind_ok k -> in_range k x -> int_from_string k (int_to_string x) = Some x) /\
  (forall f x, fin_range f x -> fix_from_string f (fix_to_string f x) = Some x) /\
  (* acceptance: a grammar that depends only on signedness and integer/fixed-point, plus the range check *)
  (forall k s, ikind_ok k -> int_from_string k s = spec_int_from_string k s) /\
  (forall f s, fix_from_string f s = spec_fix_from_string f s) /\
  (* T.fromBigEndianBytes(x.toBigEndianBytes()) = x, nil exactly for over-long input *)
  (forall k x, nvalid k -> n_in_range k x ->
     exists bs, to_be k x = Ok bs /\ bytes_ok bs /\ from_be k bs = Ok (Some x)) /\
  (forall k bs, from_be k bs = Ok None <-> (byte_size k <> 0 /\ len bs > byte_size k)) /\
  (* addresses and hex strings *)
  (forall a, addr_ok a -> addr_from_string (addr_to_string a) = Some a) /\
  (forall a, addr_ok a -> addr_from_bytes (addr_to_bytes a) = Ok a) /\
  (forall bs, bytes_ok bs -> hex_decode (hex_encode bs) = Some bs).

Lemma C17_statement_false : ~ C17_statement.
Proof.
  intros (_ & _ & H & _).
  specialize (H (KUnsigned 128) witness_plus5 ltac:(simpl; lia)).
  vm_compute in H. discriminate H.
Qed.

(* everything in the statement except the two acceptance clauses holds as stated *)
Lemma C17_roundtrips :
  (forall k x, ikind_ok k -> in_range k x -> int_from_string k (int_to_string x) = Some x) /\
  (forall f x, fin_range f x -> fix_from_string f (fix_to_string f x) = Some x) /\
  (forall k x, nvalid k -> n_in_range k x ->
     exists bs, to_be k x = Ok bs /\ bytes_ok bs /\ from_be k bs = Ok (Some x)) /\
  (forall k bs, from_be k bs = Ok None <-> (byte_size k <> 0 /\ len bs > byte_size k)) /\
  (forall a, addr_ok a -> addr_from_string (addr_to_string a) = Some a) /\
  (forall a, addr_ok a -> addr_from_bytes (addr_to_bytes a) = Ok a) /\
  (forall bs, bytes_ok bs -> hex_decode (hex_encode bs) = Some bs).
Proof.
  exact (conj (fun k x Hk Hx => int_string_roundtrip k x Hk Hx)
        (conj fix_string_roundtrip
        (conj be_roundtrip
        (conj from_be_nil_iff
        (conj addr_string_roundtrip
        (conj addr_bytes_roundtrip hex_roundtrip)))))).
Qed.

(* the integer acceptance clause holds for every kind that is signed or at most 64 bits wide *)
Lemma int_from_string_spec_partial k s :
  signed_kind k \/ small_unsigned_kind k -> int_from_string k s = spec_int_from_string k s.
Proof.
  intros [H|H]; [apply signed_from_string_spec|apply small_unsigned_from_string_spec]; assumption.
Qed.
