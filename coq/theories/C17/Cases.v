(* Check functions used by the per-run case files of C17: each case carries an input and the
   output observed on the real implementation; the check recomputes it with the model. *)
From CV Require Export C17.Model.

Fixpoint list_eqb (a b : list Z) : bool :=
  match a, b with
  | [], [] => true
  | x :: a', y :: b' => (x =? y) && list_eqb a' b'
  | _, _ => false
  end.

Definition opt_eqb {A} (eqb : A -> A -> bool) (a b : option A) : bool :=
  match a, b with
  | Some x, Some y => eqb x y
  | None, None => true
  | _, _ => false
  end.

Fixpoint all2 {A B} (f : A -> B -> bool) (a : list A) (b : list B) : bool :=
  match a, b with
  | [], [] => true
  | x :: a', y :: b' => f x y && all2 f a' b'
  | _, _ => false
  end.

(* fixed order of the types in the "all types" cases (the harness uses the same order) *)
Definition all_ikinds : list ikind :=
  [KSigned 8; KSigned 16; KSigned 32; KSigned 64; KSigned 128; KSigned 256; KInt;
   KUnsigned 8; KUnsigned 16; KUnsigned 32; KUnsigned 64; KUnsigned 128; KUnsigned 256; KUInt;
   KWord 8; KWord 16; KWord 32; KWord 64; KWord 128; KWord 256].
Definition all_fkinds : list fkind := [FFix64; FUFix64; FFix128; FUFix128].

Inductive c17case : Type :=
| CFromStrAll (s : list Z) (obsI : list (option Z)) (obsF : list (option Z))
| CFromStrNone (s : list Z)            (* every one of the 24 types returned nil *)
| CFromStrI (k : ikind) (s : list Z) (obs : option Z)
| CFromStrF (f : fkind) (s : list Z) (obs : option Z)
| CToStrI (z : Z) (obs : list Z)
| CToStrF (f : fkind) (z : Z) (obs : list Z)
| CToBE (k : nkind) (z : Z) (obs : res (list Z))
| CFromBE (k : nkind) (bs : list Z) (obs : res (option Z))
| CAddrFromStr (s : list Z) (obs : option Z)
| CAddrToStr (a : Z) (obs : list Z)
| CAddrFromBytes (bs : list Z) (obs : res Z)
| CAddrToBytes (a : Z) (obs : list Z)
| CHexDecode (s : list Z) (obs : option (list Z))
| CHexEncode (bs : list Z) (obs : list Z).

Definition check_c17 (c : c17case) : bool :=
  match c with
  | CFromStrAll s obsI obsF =>
      all2 (fun k o => opt_eqb Z.eqb (int_from_string k s) o) all_ikinds obsI &&
      all2 (fun f o => opt_eqb Z.eqb (fix_from_string f s) o) all_fkinds obsF
  | CFromStrNone s =>
      forallb (fun k => opt_eqb Z.eqb (int_from_string k s) None) all_ikinds &&
      forallb (fun f => opt_eqb Z.eqb (fix_from_string f s) None) all_fkinds
  | CFromStrI k s obs => opt_eqb Z.eqb (int_from_string k s) obs
  | CFromStrF f s obs => opt_eqb Z.eqb (fix_from_string f s) obs
  | CToStrI z obs => list_eqb (int_to_string z) obs
  | CToStrF f z obs => list_eqb (fix_to_string f z) obs
  | CToBE k z obs => res_eqb list_eqb (to_be k z) obs
  | CFromBE k bs obs => res_eqb (opt_eqb Z.eqb) (from_be k bs) obs
  | CAddrFromStr s obs => opt_eqb Z.eqb (addr_from_string s) obs
  | CAddrToStr a obs => list_eqb (addr_to_string a) obs
  | CAddrFromBytes bs obs => res_eqb Z.eqb (addr_from_bytes bs) obs
  | CAddrToBytes a obs => list_eqb (addr_to_bytes a) obs
  | CHexDecode s obs => opt_eqb list_eqb (hex_decode s) obs
  | CHexEncode bs obs => list_eqb (hex_encode bs) obs
  end.
